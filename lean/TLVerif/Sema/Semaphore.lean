/-!
# Model of `internal/vkgo/pkg/semaphore/semaphore.go` (`semaphore.Weighted`)

Every mutex-protected critical section of the Go code is ONE atomic step of a state machine
(`s.mu` makes that exact: no other goroutine observes an intermediate state).  A blocking `Acquire`
is two steps: the first critical section (`Op.acquire`: admit on the fast path, park outside the queue
when `n > size`, or enqueue) and, only when its context is done, the second one (`Op.cancel`).
A goroutine that is woken by `notifyWaiters` takes no further step (`case <-ready: return nil`).

`WaitEmpty` has no critical section of its own: it is `Acquire(ctx, s.size)` followed by `Release(s.size)` (the driver
composes it from `Op.acquire` and `Op.release`; its two reads of `s.size` outside the mutex are not modelled).

The model is written the way the Go code is written (same branch order, same comparisons).
Numbers are mathematical integers: `int64` overflow is outside the model (stated as an assumption).

Ghost components (not present in the Go struct, they do not influence `size`, `cur`, `waiters`):
`next` numbers the `Acquire` calls (ticket of the next call), `Waiter.id` is the ticket of the call that
enqueued the element, `doomed` lists the tickets parked on `<-ctx.Done()` outside the queue.
-/
namespace TLVerif.Sema

/-- One element of `Weighted.waiters` (`waiter{n, ready}`): the weight and (ghost) the ticket of the
`Acquire` call that is blocked on `ready`.  `Acquire` panics on a negative `n`, so a queued weight is
a natural number. -/
structure Waiter where
  id : Nat
  n : Nat
  deriving Repr, DecidableEq

/-- `Weighted` under its mutex. -/
structure State where
  size : Int
  cur : Int
  waiters : List Waiter
  next : Nat
  doomed : List Nat
  deriving Repr, DecidableEq

/-- `NewWeighted(n)`. -/
def init (n : Int) : State := { size := n, cur := 0, waiters := [], next := 0, doomed := [] }

/-- A non-forced admission event: `cur += n` executed on behalf of an `Acquire`/`TryAcquire`.
`ticket` is the `Acquire` ticket (`none` for `TryAcquire`), `curAfter` the value of `cur` right after the
addition, `size` the value of `s.size` at that moment. -/
structure Adm where
  ticket : Option Nat
  n : Nat
  curAfter : Int
  size : Int
  deriving Repr, DecidableEq

inductive Res
  | ok        -- Acquire returned nil on the fast path / Release, ForceAcquire, SetSize, Observe returned
  | blocked   -- Acquire enqueued a waiter and blocks
  | doomed    -- Acquire parked on ctx.Done() without enqueuing (n > size)
  | panic     -- the call panicked
  | yes       -- TryAcquire returned true
  | no        -- TryAcquire returned false
  | err       -- a blocked Acquire returned ctx.Err()
  | noop      -- cancel of a ticket that is not blocked (already returned, or never issued): no critical section changes anything
  deriving Repr, DecidableEq

structure Out where
  res : Res
  adm : List Adm
  deriving Repr, DecidableEq

/-- The operations = the critical sections of the API. -/
inductive Op
  | acquire (n : Int)      -- first critical section of `Acquire(ctx, n)`; takes ticket `s.next`
  | tryAcquire (n : Int)
  | release (n : Int)
  | force (n : Int)        -- `ForceAcquire`
  | setSize (n : Int)
  | cancel (id : Nat)      -- `ctx` of the `Acquire` with ticket `id` is done: its second critical section
  | observe
  deriving Repr, DecidableEq

/-- `notifyWaiters`: admit queue elements from the front while they fit.
Returns the new `cur`, the admission events (in order) and the remaining queue. -/
def notify (size : Int) : Int → List Waiter → Int × List Adm × List Waiter
  | cur, [] => (cur, [], [])
  | cur, w :: ws =>
    if size - cur < (w.n : Int) then (cur, [], w :: ws)
    else
      let r := notify size (cur + w.n) ws
      (r.1, { ticket := some w.id, n := w.n, curAfter := cur + w.n, size := size } :: r.2.1, r.2.2)

/-- State after `notifyWaiters` ran inside a critical section. -/
def afterNotify (s : State) (res : Res) : State × Out :=
  let r := notify s.size s.cur s.waiters
  ({ s with cur := r.1, waiters := r.2.2 }, { res := res, adm := r.2.1 })

def stepAcquire (s : State) (n : Int) : State × Out :=
  let t := s.next
  let s := { s with next := t + 1 }
  if n < 0 then (s, ⟨.panic, []⟩)
  else if s.size - s.cur ≥ n ∧ s.waiters.isEmpty then
    ({ s with cur := s.cur + n }, ⟨.ok, [{ ticket := some t, n := n.toNat, curAfter := s.cur + n, size := s.size }]⟩)
  else if n > s.size then
    ({ s with doomed := s.doomed ++ [t] }, ⟨.doomed, []⟩)
  else
    ({ s with waiters := s.waiters ++ [{ id := t, n := n.toNat }] }, ⟨.blocked, []⟩)

def stepTry (s : State) (n : Int) : State × Out :=
  if n < 0 then (s, ⟨.panic, []⟩)
  else if s.size - s.cur ≥ n ∧ s.waiters.isEmpty then
    ({ s with cur := s.cur + n }, ⟨.yes, [{ ticket := none, n := n.toNat, curAfter := s.cur + n, size := s.size }]⟩)
  else (s, ⟨.no, []⟩)

/-- `Release`: note that `cur` is decremented *before* the over-release check, and that the panic path
unlocks without calling `notifyWaiters`. -/
def stepRelease (s : State) (n : Int) : State × Out :=
  if n < 0 then (s, ⟨.panic, []⟩)
  else
    let s := { s with cur := s.cur - n }
    if s.cur < 0 then (s, ⟨.panic, []⟩)
    else afterNotify s .ok

def stepForce (s : State) (n : Int) : State × Out :=
  if n < 0 then (s, ⟨.panic, []⟩) else ({ s with cur := s.cur + n }, ⟨.ok, []⟩)

def stepSetSize (s : State) (n : Int) : State × Out :=
  afterNotify { s with size := n } .ok

def isFront (s : State) (id : Nat) : Bool :=
  match s.waiters with
  | [] => false
  | w :: _ => w.id == id

/-- Second critical section of `Acquire` (the `case <-ctx.Done()` branch).
`ready` already closed ⇔ the ticket is no longer in the queue: `err = nil`, nothing changes (`noop`).
Otherwise the element is removed and, if it was the front and `size ≥ cur`, `notifyWaiters` runs
(`size ≥ cur`, not `>`: with `size = cur` a waiter of weight 0 still fits; the code tested `>` before the repair
616a0ec3, see `stepCancelStrictGt` in `SemaphoreLemmas.lean`). -/
def stepCancel (s : State) (id : Nat) : State × Out :=
  if s.waiters.any (·.id == id) then
    let front := isFront s id
    let s' := { s with waiters := s.waiters.filter (fun w => !(w.id == id)) }
    if front ∧ s'.size ≥ s'.cur then afterNotify s' .err
    else (s', ⟨.err, []⟩)
  else if s.doomed.contains id then
    ({ s with doomed := s.doomed.filter (fun t => !(t == id)) }, ⟨.err, []⟩)
  else (s, ⟨.noop, []⟩)

def step (s : State) : Op → State × Out
  | .acquire n => stepAcquire s n
  | .tryAcquire n => stepTry s n
  | .release n => stepRelease s n
  | .force n => stepForce s n
  | .setSize n => stepSetSize s n
  | .cancel id => stepCancel s id
  | .observe => (s, ⟨.ok, []⟩)

/-- State after a history. -/
def exec (s : State) : List Op → State
  | [] => s
  | op :: ops => exec (step s op).1 ops

/-- Trace of a history: the state *before* each step, the operation and its output. -/
def trace (s : State) : List Op → List (State × Op × Out)
  | [] => []
  | op :: ops => (s, op, (step s op).2) :: trace (step s op).1 ops

end TLVerif.Sema
