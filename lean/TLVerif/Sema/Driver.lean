import TLVerif.Sema.Semaphore
/-!
Line-protocol handler for the `sema` family.

`sema.h <size0> <op>,<op>,…` runs a whole sequential history on `NewWeighted(size0)`.
Operations: `a<n>` Acquire (own goroutine, fresh context; ticket = number of `a`/`x` operations before it),
`x<n>` Acquire with an already-cancelled context (= the two critical sections `acquire ; cancel` back to back),
`t<n>` TryAcquire, `r<n>` Release, `f<n>` ForceAcquire, `s<n>` SetSize, `c<k>` cancel the context of ticket `k`,
`o` Observe, `w` WaitEmpty (own goroutine, fresh context, takes a ticket like `a`; = `Acquire(ctx, size)` and, once that
returns nil, `Release(size)` with the size read at that later moment).  `<n>` is a decimal integer, possibly negative.

Result: one word per operation, `res:cur:size:queue:done` — the call's result, `cur` and `size` after the
operation, the weights of the queued waiters front to back (`-` if none), and the tickets of the
`Acquire` calls that returned nil during this operation in admission order (`-` if none).  `res` gets the suffix `!k` when
`k` `WaitEmpty` callers admitted during the operation panicked in their `Release`.
-/
namespace TLVerif.Sema

def resStr : Res → String
  | .ok => "ok" | .blocked => "blk" | .doomed => "doom" | .panic => "panic"
  | .yes => "T" | .no => "F" | .err => "err" | .noop => "noop"

def dotted (xs : List String) : String :=
  if xs.isEmpty then "-" else ".".intercalate xs

def obsStr (res : String) (s : State) (adm : List Adm) : String :=
  let q := dotted (s.waiters.map (fun w => toString w.n))
  let d := dotted (adm.filterMap (fun a => a.ticket.map toString))
  s!"{res}:{s.cur}:{s.size}:{q}:{d}"

/-- Non-empty string of ASCII digits. -/
def parseDigits (cs : List Char) : Option Nat :=
  if cs.isEmpty || !cs.all Char.isDigit then none
  else some (cs.foldl (fun acc c => acc * 10 + (c.toNat - 48)) 0)

/-- Decimal `int64` literal with optional sign, exactly what `strconv.ParseInt(_, 10, 64)` accepts. -/
def parseI64 (t : String) : Option Int :=
  let r : Option Int :=
    match t.toList with
    | '-' :: cs => (parseDigits cs).map (fun n => -(n : Int))
    | '+' :: cs => (parseDigits cs).map (fun n => (n : Int))
    | cs => (parseDigits cs).map (fun n => (n : Int))
  match r with
  | some n => if -9223372036854775808 ≤ n ∧ n ≤ 9223372036854775807 then some n else none
  | none => none

/-- Ticket number: what `strconv.ParseUint(_, 10, 31)` accepts. -/
def parseTicket (t : String) : Option Nat :=
  match parseDigits t.toList with
  | some n => if n < 2147483648 then some n else none
  | none => none

/-- Second half of `WaitEmpty` (`s.Release(s.size)`), run by every `WaitEmpty` caller as soon as its `Acquire(ctx, s.size)`
has returned nil; a release may admit further callers, so this is a work-list.  `we` = tickets of the blocked
`WaitEmpty` calls, `todo` = admissions not yet looked at, `panics` counts releases that panicked
("released more than held": the size was changed while the caller waited).  All follow-ups are ordinary `Op.release`
steps, so every theorem over step sequences covers them. -/
def settle : Nat → State → List Nat → List Adm → List Adm → Nat → State × List Nat × List Adm × Nat
  | 0, s, we, _, all, p => (s, we, all, p)
  | _ + 1, s, we, [], all, p => (s, we, all, p)
  | fuel + 1, s, we, a :: rest, all, p =>
    match a.ticket with
    | some t =>
      if we.contains t then
        let r := step s (.release s.size)
        let p' := if r.2.res = .panic then p + 1 else p
        settle fuel r.1 (we.erase t) (rest ++ r.2.adm) (all ++ r.2.adm) p'
      else settle fuel s we rest all p
    | none => settle fuel s we rest all p

/-- One protocol operation: result word (without observation), new state, new `we`, admissions. -/
def runTok (s : State) (we : List Nat) (tok : String) : Option (State × List Nat × String × List Adm) :=
  let c := tok.toList.head?
  let rest := String.ofList (tok.toList.drop 1)
  match c with
  | some 'o' => if rest.isEmpty then some (s, we, "ok", []) else none
  | some 'w' =>
    if rest.isEmpty then
      let t := s.next
      let r := step s (.acquire s.size)
      match r.2.res with
      | .panic => some (r.1, we, "panic", r.2.adm)
      | _ => some (r.1, we ++ [t], resStr r.2.res, r.2.adm)
    else none
  | some 'c' =>
    match parseTicket rest with
    | some k => let r := step s (.cancel k); some (r.1, we, resStr r.2.res, r.2.adm)
    | none => none
  | some ch =>
    match parseI64 rest with
    | none => none
    | some n =>
      let simple (op : Op) : Option (State × List Nat × String × List Adm) :=
        let r := step s op; some (r.1, we, resStr r.2.res, r.2.adm)
      match ch with
      | 'a' => simple (.acquire n)
      | 't' => simple (.tryAcquire n)
      | 'r' => simple (.release n)
      | 'f' => simple (.force n)
      | 's' => simple (.setSize n)
      | 'x' =>
        let t := s.next
        let r := step s (.acquire n)
        match r.2.res with
        | .blocked | .doomed =>
          let r2 := step r.1 (.cancel t)
          some (r2.1, we, resStr r2.2.res, r.2.adm ++ r2.2.adm)
        | _ => some (r.1, we, resStr r.2.res, r.2.adm)
      | _ => none
  | none => none

def runToks : State → List Nat → List String → List String → Option (List String)
  | _, _, [], acc => some acc.reverse
  | s, we, t :: ts, acc =>
    match runTok s we t with
    | none => none
    | some (s1, we1, res, adm) =>
      let (s2, we2, all, p) := settle (adm.length + s1.waiters.length + 1) s1 we1 adm adm 0
      let res' := if p = 0 then res else s!"{res}!{p}"
      runToks s2 we2 ts (obsStr res' s2 all :: acc)

def handle (op : String) (args : List String) : String :=
  match op, args with
  | "h", [sz, ops] =>
    match parseI64 sz with
    | none => "bad-op"
    | some n =>
      match runToks (init n) [] (ops.splitOn ",") [] with
      | none => "bad-op"
      | some outs => " ".intercalate outs
  | _, _ => "bad-op"

end TLVerif.Sema
