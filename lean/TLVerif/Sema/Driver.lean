import TLVerif.Sema.Semaphore
/-!
Line-protocol handler for the `sema` family.

`sema.h <size0> <op>,<op>,…` runs a whole sequential history on `NewWeighted(size0)`.
Operations: `a<n>` Acquire (own goroutine, fresh context; ticket = number of `a`/`x` operations before it),
`x<n>` Acquire with an already-cancelled context (= the two critical sections `acquire ; cancel` back to back),
`t<n>` TryAcquire, `r<n>` Release, `f<n>` ForceAcquire, `s<n>` SetSize, `c<k>` cancel the context of ticket `k`,
`o` Observe.  `<n>` is a decimal integer, possibly negative.

Result: one word per operation, `res:cur:size:queue:done` — the call's result, `cur` and `size` after the
operation, the weights of the queued waiters front to back (`-` if none), and the tickets of the
`Acquire` calls that returned nil during this operation in admission order (`-` if none).
-/
namespace TLVerif.Sema

def resStr : Res → String
  | .ok => "ok" | .blocked => "blk" | .doomed => "doom" | .panic => "panic"
  | .yes => "T" | .no => "F" | .err => "err" | .noop => "noop"

def dotted (xs : List String) : String :=
  if xs.isEmpty then "-" else ".".intercalate xs

def obsStr (res : String) (s : State) (adm : List Adm) : String :=
  let q := dotted (s.waiters.map (fun w => toString w.n))
  let d := dotted (adm.filterMap (fun a => a.ticket.map toString))
  s!"{res}:{s.cur}:{s.size}:{q}:{d}"

/-- Non-empty string of ASCII digits. -/
def parseDigits (cs : List Char) : Option Nat :=
  if cs.isEmpty || !cs.all Char.isDigit then none
  else some (cs.foldl (fun acc c => acc * 10 + (c.toNat - 48)) 0)

/-- Decimal `int64` literal with optional sign, exactly what `strconv.ParseInt(_, 10, 64)` accepts. -/
def parseI64 (t : String) : Option Int :=
  let r : Option Int :=
    match t.toList with
    | '-' :: cs => (parseDigits cs).map (fun n => -(n : Int))
    | '+' :: cs => (parseDigits cs).map (fun n => (n : Int))
    | cs => (parseDigits cs).map (fun n => (n : Int))
  match r with
  | some n => if -9223372036854775808 ≤ n ∧ n ≤ 9223372036854775807 then some n else none
  | none => none

/-- Ticket number: what `strconv.ParseUint(_, 10, 31)` accepts. -/
def parseTicket (t : String) : Option Nat :=
  match parseDigits t.toList with
  | some n => if n < 2147483648 then some n else none
  | none => none

/-- One protocol operation (a single `Op`, or the `x` macro = `acquire` then `cancel` of the same ticket). -/
def runTok (s : State) (tok : String) : Option (State × String) :=
  let c := tok.toList.head?
  let rest := String.ofList (tok.toList.drop 1)
  match c with
  | some 'o' => if rest.isEmpty then some (s, obsStr "ok" s []) else none
  | some 'c' =>
    match parseTicket rest with
    | some k => let r := step s (.cancel k); some (r.1, obsStr (resStr r.2.res) r.1 r.2.adm)
    | none => none
  | some ch =>
    match parseI64 rest with
    | none => none
    | some n =>
      let simple (op : Op) : Option (State × String) :=
        let r := step s op; some (r.1, obsStr (resStr r.2.res) r.1 r.2.adm)
      match ch with
      | 'a' => simple (.acquire n)
      | 't' => simple (.tryAcquire n)
      | 'r' => simple (.release n)
      | 'f' => simple (.force n)
      | 's' => simple (.setSize n)
      | 'x' =>
        let t := s.next
        let r := step s (.acquire n)
        match r.2.res with
        | .blocked | .doomed =>
          let r2 := step r.1 (.cancel t)
          some (r2.1, obsStr (resStr r2.2.res) r2.1 (r.2.adm ++ r2.2.adm))
        | _ => some (r.1, obsStr (resStr r.2.res) r.1 r.2.adm)
      | _ => none
  | none => none

def runToks : State → List String → List String → Option (List String)
  | _, [], acc => some acc.reverse
  | s, t :: ts, acc =>
    match runTok s t with
    | none => none
    | some (s', o) => runToks s' ts (o :: acc)

def handle (op : String) (args : List String) : String :=
  match op, args with
  | "h", [sz, ops] =>
    match parseI64 sz with
    | none => "bad-op"
    | some n =>
      match runToks (init n) (ops.splitOn ",") [] with
      | none => "bad-op"
      | some outs => " ".intercalate outs
  | _, _ => "bad-op"

end TLVerif.Sema
