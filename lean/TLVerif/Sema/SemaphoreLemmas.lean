import TLVerif.Sema.Semaphore
/-! Helper definitions and lemmas about the semaphore model (property theorems are in `Props/C42.lean`). -/
namespace TLVerif.Sema

/-! ## Predicates -/

/-- No lost wake-up: there is no first waiter, or the capacity does not allow it to proceed. -/
def NoLost (s : State) : Prop :=
  match s.waiters with
  | [] => True
  | w :: _ => s.size - s.cur < (w.n : Int)

instance (s : State) : Decidable (NoLost s) := by
  unfold NoLost; split <;> infer_instance

/-- The admission events form a chain of running totals from `c` to `c'`:
each event's `curAfter` is the previous total plus its own weight. -/
def Chain : Int → List Adm → Int → Prop
  | c, [], c' => c' = c
  | c, e :: es, c' => e.curAfter = c + e.n ∧ Chain e.curAfter es c'

/-- Every admission event stays within the size in force when it happened. -/
def AdmOK (sz : Int) (e : Adm) : Prop := e.curAfter ≤ e.size ∧ e.size = sz

/-- Queue tickets are strictly increasing front to back and below `next`
(the queue is in arrival order; tickets are issued in increasing order). -/
def Sorted (s : State) : Prop :=
  s.waiters.Pairwise (fun a b => a.id < b.id) ∧ ∀ w ∈ s.waiters, w.id < s.next

/-- The `(ticket, weight)` view of a queue element / of an admission event. -/
def Waiter.key (w : Waiter) : Option Nat × Nat := (some w.id, w.n)
def Adm.key (a : Adm) : Option Nat × Nat := (a.ticket, a.n)

/-! ## `notifyWaiters` -/

theorem notify_adm_ok (size : Int) (ws : List Waiter) (cur : Int) :
    ∀ e ∈ (notify size cur ws).2.1, AdmOK size e := by
  induction ws generalizing cur with
  | nil => intro e he; simp [notify] at he
  | cons w ws ih =>
    intro e he
    unfold notify at he
    by_cases h : size - cur < (w.n : Int)
    · rw [if_pos h] at he; simp at he
    · rw [if_neg h] at he
      simp only [List.mem_cons] at he
      rcases he with he | he
      · subst he; exact ⟨by simp only; omega, rfl⟩
      · exact ih _ e he

theorem notify_chain (size : Int) (ws : List Waiter) (cur : Int) :
    Chain cur (notify size cur ws).2.1 (notify size cur ws).1 := by
  induction ws generalizing cur with
  | nil => simp [notify, Chain]
  | cons w ws ih =>
    unfold notify
    by_cases h : size - cur < (w.n : Int)
    · rw [if_pos h]; simp [Chain]
    · rw [if_neg h]; exact ⟨rfl, ih _⟩

/-- `notifyWaiters` admits a prefix of the queue, in queue order, and leaves the rest untouched. -/
theorem notify_prefix (size : Int) (ws : List Waiter) (cur : Int) :
    (notify size cur ws).2.1.map Adm.key ++ (notify size cur ws).2.2.map Waiter.key = ws.map Waiter.key := by
  induction ws generalizing cur with
  | nil => simp [notify]
  | cons w ws ih =>
    unfold notify
    by_cases h : size - cur < (w.n : Int)
    · rw [if_pos h]; simp
    · rw [if_neg h]; simp only [List.map_cons, List.cons_append, ih]; rfl

/-- The remaining queue is a suffix of the original one. -/
theorem notify_suffix (size : Int) (ws : List Waiter) (cur : Int) :
    ∃ pre, ws = pre ++ (notify size cur ws).2.2 ∧ pre.map Waiter.key = (notify size cur ws).2.1.map Adm.key := by
  induction ws generalizing cur with
  | nil => exact ⟨[], by simp [notify]⟩
  | cons w ws ih =>
    unfold notify
    by_cases h : size - cur < (w.n : Int)
    · rw [if_pos h]; exact ⟨[], by simp⟩
    · rw [if_neg h]
      obtain ⟨pre, h1, h2⟩ := ih (cur + w.n)
      refine ⟨w :: pre, ?_, ?_⟩
      · simp only [List.cons_append]; rw [← h1]
      · simp only [List.map_cons, h2]; rfl

/-- After `notifyWaiters` the first remaining waiter (if any) does not fit: this holds whatever the
state was before. -/
theorem notify_stops (size : Int) (ws : List Waiter) (cur : Int) :
    match (notify size cur ws).2.2 with
    | [] => True
    | w :: _ => size - (notify size cur ws).1 < (w.n : Int) := by
  induction ws generalizing cur with
  | nil => simp [notify]
  | cons w ws ih =>
    unfold notify
    by_cases h : size - cur < (w.n : Int)
    · rw [if_pos h]; exact h
    · rw [if_neg h]; exact ih _

/-- If the front does not fit, `notifyWaiters` does nothing. -/
theorem notify_blocked (size : Int) (w : Waiter) (ws : List Waiter) (cur : Int)
    (h : size - cur < (w.n : Int)) : notify size cur (w :: ws) = (cur, [], w :: ws) := by
  unfold notify; rw [if_pos h]

theorem notify_cur_ge (size : Int) (ws : List Waiter) (cur : Int) : cur ≤ (notify size cur ws).1 := by
  induction ws generalizing cur with
  | nil => simp [notify]
  | cons w ws ih =>
    unfold notify
    by_cases h : size - cur < (w.n : Int)
    · rw [if_pos h]; simp
    · rw [if_neg h]; have := ih (cur + w.n); simp only; omega

theorem afterNotify_noLost (s : State) (res : Res) : NoLost (afterNotify s res).1 := by
  have := notify_stops s.size s.waiters s.cur
  unfold NoLost afterNotify
  simpa using this

/-! ## Admissions of one step -/

theorem afterNotify_adm_ok (s : State) (res : Res) :
    ∀ e ∈ (afterNotify s res).2.adm, AdmOK (afterNotify s res).1.size e := by
  intro e he
  exact notify_adm_ok s.size s.waiters s.cur e he

theorem step_adm_ok (s : State) (op : Op) : ∀ e ∈ (step s op).2.adm, AdmOK (step s op).1.size e := by
  intro e he
  cases op with
  | acquire n =>
    simp only [step, stepAcquire] at he ⊢
    split at he
    · simp at he
    · split at he
      · rename_i h1 h2
        simp only [List.mem_singleton] at he
        subst he
        simp only [if_neg h1, if_pos h2]
        exact ⟨by simp only; omega, rfl⟩
      · split at he <;> simp at he
  | tryAcquire n =>
    simp only [step, stepTry] at he ⊢
    split at he
    · simp at he
    · split at he
      · rename_i h1 h2
        simp only [List.mem_singleton] at he
        subst he
        simp only [if_neg h1, if_pos h2]
        exact ⟨by simp only; omega, rfl⟩
      · simp at he
  | release n =>
    simp only [step, stepRelease] at he ⊢
    split at he
    · simp at he
    · split at he
      · simp at he
      · rename_i h1 h2
        simp only [if_neg h1, if_neg h2]
        exact afterNotify_adm_ok _ _ e he
  | force n =>
    simp only [step, stepForce] at he
    split at he <;> simp at he
  | setSize n => exact afterNotify_adm_ok _ _ e he
  | cancel id =>
    simp only [step, stepCancel] at he ⊢
    split at he
    · split at he
      · rename_i h1 h2
        simp only [if_pos h1, if_pos h2]
        exact afterNotify_adm_ok _ _ e he
      · simp at he
    · split at he <;> simp at he
  | observe => simp [step] at he

/-! ## The one situation in which a step can leave a fitting first waiter asleep: the documented misuse -/

/-- `Release(n)` with `n` larger than `cur`: the documented misuse. The Go code has already decremented
`cur` when it panics and does not call `notifyWaiters`. -/
def OverRelease (s : State) : Op → Prop
  | .release n => 0 ≤ n ∧ s.cur - n < 0
  | _ => False

instance (s : State) (op : Op) : Decidable (OverRelease s op) := by
  unfold OverRelease; split <;> infer_instance

/-- A step that is not an over-release. -/
def Clean (s : State) (op : Op) : Prop := ¬ OverRelease s op

instance (s : State) (op : Op) : Decidable (Clean s op) := by unfold Clean; infer_instance

theorem noLost_of_waiters_eq {s s' : State} (h : NoLost s) (hw : s'.waiters = s.waiters)
    (hc : s.cur ≤ s'.cur) (hs : s'.size = s.size) : NoLost s' := by
  unfold NoLost at *
  rw [hw, hs]
  split
  · trivial
  · rename_i w ws heq; rw [heq] at h; simp only at h; omega

/-- The cancellation section keeps the invariant, unconditionally: a cancelled front waiter triggers `notifyWaiters`
whenever `size ≥ cur`, and with `size < cur` nothing (not even weight 0) fits. -/
theorem stepCancel_noLost (s : State) (id : Nat) (h : NoLost s) : NoLost (stepCancel s id).1 := by
  unfold stepCancel
  split
  · by_cases hnf : (isFront s id = true ∧ s.size ≥ s.cur)
    · simp only [hnf, and_self, if_true]; exact afterNotify_noLost _ _
    · simp only [hnf, if_false]
      cases hw : s.waiters with
      | nil => simp [NoLost]
      | cons w ws =>
        by_cases hid : w.id = id
        · have hfront : isFront s id = true := by simp [isFront, hw, hid]
          have hlt : s.size < s.cur := by
            have : ¬ s.size ≥ s.cur := fun hge => hnf ⟨hfront, hge⟩
            omega
          unfold NoLost
          simp only
          split
          · trivial
          · omega
        · have hfl : (List.filter (fun w => !(w.id == id)) (w :: ws)) = w :: List.filter (fun w => !(w.id == id)) ws := by
            simp [hid]
          unfold NoLost at h ⊢
          rw [hw] at h
          simp only [hfl]
          exact h
  · split
    · exact noLost_of_waiters_eq h rfl (Int.le_refl _) rfl
    · exact h

theorem step_noLost (s : State) (op : Op) (h : NoLost s) (hc : Clean s op) : NoLost (step s op).1 := by
  cases op with
  | acquire n =>
    simp only [step, stepAcquire]
    split
    · exact noLost_of_waiters_eq h rfl (Int.le_refl _) rfl
    · split
      · rename_i h1 h2
        have he : s.waiters = [] := by simpa using h2.2
        simp [NoLost, he]
      · rename_i h1 h2
        split
        · exact noLost_of_waiters_eq h rfl (Int.le_refl _) rfl
        · cases hw : s.waiters with
          | nil =>
            have : ¬ (s.size - s.cur ≥ n) := by
              intro hge; apply h2; exact ⟨hge, by simp [hw]⟩
            simp only [NoLost, List.nil_append]
            omega
          | cons w ws =>
            unfold NoLost at h ⊢
            rw [hw] at h
            simpa [hw] using h
  | tryAcquire n =>
    simp only [step, stepTry]
    split
    · exact h
    · split
      · rename_i h1 h2
        have he : s.waiters = [] := by simpa using h2.2
        simp [NoLost, he]
      · exact h
  | release n =>
    simp only [step, stepRelease]
    split
    · exact h
    · rename_i h1
      split
      · rename_i h2
        exact absurd (show OverRelease s (.release n) from ⟨by omega, h2⟩) hc
      · exact afterNotify_noLost _ _
  | force n =>
    simp only [step, stepForce]
    split
    · exact h
    · exact noLost_of_waiters_eq h rfl (by simp only; omega) rfl
  | setSize n => exact afterNotify_noLost _ _
  | cancel id => exact stepCancel_noLost s id h
  | observe => exact h

/-! ## Histories -/

/-- No step of the history is an over-release (in the state it is executed in). -/
def CleanRun (s : State) : List Op → Prop
  | [] => True
  | op :: ops => Clean s op ∧ CleanRun (step s op).1 ops

instance : (s : State) → (ops : List Op) → Decidable (CleanRun s ops)
  | _, [] => isTrue trivial
  | s, op :: ops =>
    have := instDecidableCleanRun (step s op).1 ops
    by unfold CleanRun; infer_instance

theorem exec_append (s : State) (a b : List Op) : exec s (a ++ b) = exec (exec s a) b := by
  induction a generalizing s with
  | nil => rfl
  | cons op a ih => simp [exec, ih]

theorem cleanRun_take (s : State) (ops : List Op) (k : Nat) (h : CleanRun s ops) : CleanRun s (ops.take k) := by
  induction ops generalizing s k with
  | nil => simp [CleanRun]
  | cons op ops ih =>
    cases k with
    | zero => simp [CleanRun]
    | succ k => exact ⟨h.1, ih _ k h.2⟩

theorem exec_noLost (s : State) (ops : List Op) (h : NoLost s) (hc : CleanRun s ops) : NoLost (exec s ops) := by
  induction ops generalizing s with
  | nil => exact h
  | cons op ops ih => exact ih _ (step_noLost s op h hc.1) hc.2

theorem init_noLost (n : Int) : NoLost (init n) := by simp [NoLost, init]

/-- Membership in the trace: a step taken at some point of the history. -/
theorem trace_mem_adm_ok (s : State) (ops : List Op) :
    ∀ x ∈ trace s ops, ∀ e ∈ x.2.2.adm, e.curAfter ≤ e.size ∧ e.size = (step x.1 x.2.1).1.size := by
  induction ops generalizing s with
  | nil => intro x hx; simp [trace] at hx
  | cons op ops ih =>
    intro x hx e he
    simp only [trace, List.mem_cons] at hx
    rcases hx with hx | hx
    · subst hx; exact step_adm_ok s op e he
    · exact ih _ x hx e he

/-! ## Queue order -/

theorem sorted_init (n : Int) : Sorted (init n) := by simp [Sorted, init]

theorem afterNotify_waiters_suffix (s : State) (res : Res) :
    ∃ pre, s.waiters = pre ++ (afterNotify s res).1.waiters ∧
      pre.map Waiter.key = (afterNotify s res).2.adm.map Adm.key :=
  notify_suffix s.size s.waiters s.cur

theorem sorted_afterNotify (s : State) (res : Res) (h : Sorted s) : Sorted (afterNotify s res).1 := by
  obtain ⟨pre, h1, _⟩ := afterNotify_waiters_suffix s res
  have hsub : ((afterNotify s res).1.waiters).Sublist s.waiters := by
    rw [h1]; exact List.sublist_append_right _ _
  refine ⟨h.1.sublist hsub, fun w hw => ?_⟩
  exact h.2 w (hsub.subset hw)

theorem sorted_of_sublist {s s' : State} (h : Sorted s) (hsub : s'.waiters.Sublist s.waiters)
    (hn : s.next ≤ s'.next) : Sorted s' :=
  ⟨h.1.sublist hsub, fun w hw => Nat.lt_of_lt_of_le (h.2 w (hsub.subset hw)) hn⟩

theorem step_sorted (s : State) (op : Op) (h : Sorted s) : Sorted (step s op).1 := by
  cases op with
  | acquire n =>
    simp only [step, stepAcquire]
    split
    · exact sorted_of_sublist h (List.Sublist.refl _) (Nat.le_succ _)
    · split
      · exact sorted_of_sublist h (List.Sublist.refl _) (Nat.le_succ _)
      · split
        · exact sorted_of_sublist h (List.Sublist.refl _) (Nat.le_succ _)
        · refine ⟨?_, ?_⟩
          · simp only [List.pairwise_append]
            refine ⟨h.1, by simp, ?_⟩
            intro a ha b hb
            simp only [List.mem_singleton] at hb
            subst hb
            exact h.2 a ha
          · intro w hw
            simp only [List.mem_append, List.mem_singleton] at hw
            rcases hw with hw | hw
            · exact Nat.lt_succ_of_lt (h.2 w hw)
            · subst hw; exact Nat.lt_succ_self _
  | tryAcquire n =>
    simp only [step, stepTry]
    split
    · exact h
    · split
      · exact sorted_of_sublist h (List.Sublist.refl _) (Nat.le_refl _)
      · exact h
  | release n =>
    simp only [step, stepRelease]
    split
    · exact h
    · split
      · exact sorted_of_sublist h (List.Sublist.refl _) (Nat.le_refl _)
      · exact sorted_afterNotify _ _ (sorted_of_sublist h (List.Sublist.refl _) (Nat.le_refl _))
  | force n =>
    simp only [step, stepForce]
    split
    · exact h
    · exact sorted_of_sublist h (List.Sublist.refl _) (Nat.le_refl _)
  | setSize n =>
    exact sorted_afterNotify _ _ (sorted_of_sublist (s' := { s with size := n }) h (List.Sublist.refl _) (Nat.le_refl _))
  | cancel id =>
    simp only [step, stepCancel]
    have hf : Sorted { s with waiters := s.waiters.filter (fun w => !(w.id == id)) } :=
      sorted_of_sublist h List.filter_sublist (Nat.le_refl _)
    split
    · by_cases hnf : (isFront s id = true ∧ s.size ≥ s.cur)
      · simp only [hnf, and_self, if_true]; exact sorted_afterNotify _ _ hf
      · simp only [hnf, if_false]; exact hf
    · split
      · exact sorted_of_sublist h (List.Sublist.refl _) (Nat.le_refl _)
      · exact h
  | observe => exact h

theorem exec_sorted (s : State) (ops : List Op) (h : Sorted s) : Sorted (exec s ops) := by
  induction ops generalizing s with
  | nil => exact h
  | cons op ops ih => exact ih _ (step_sorted s op h)

/-- Tickets admitted by `notifyWaiters` are older than every ticket left in the queue. -/
theorem afterNotify_no_overtaking (s : State) (res : Res) (h : Sorted s) :
    ∀ a ∈ (afterNotify s res).2.adm, ∀ t, a.ticket = some t →
      ∀ w ∈ (afterNotify s res).1.waiters, t < w.id := by
  obtain ⟨pre, h1, h2⟩ := afterNotify_waiters_suffix s res
  intro a ha t ht w hw
  have hk : a.key ∈ pre.map Waiter.key := by rw [h2]; exact List.mem_map_of_mem ha
  obtain ⟨p, hp, hpk⟩ := List.mem_map.mp hk
  have hpid : p.id = t := by
    have : (some p.id : Option Nat) = a.ticket := congrArg Prod.fst hpk
    rw [ht] at this; exact Option.some.inj this
  have hpw := h.1
  rw [h1, List.pairwise_append] at hpw
  rw [← hpid]
  exact hpw.2.2 p hp w hw


/-! ## FIFO for every step -/

theorem step_no_overtaking (s : State) (op : Op) (h : Sorted s) :
    ∀ a ∈ (step s op).2.adm, ∀ t, a.ticket = some t → ∀ w ∈ (step s op).1.waiters, t < w.id := by
  cases op with
  | acquire n =>
    simp only [step, stepAcquire]
    split
    · intro a ha; simp at ha
    · split
      · rename_i h1 h2
        have he : s.waiters = [] := by simpa using h2.2
        intro a _ t _ w hw
        simp [he] at hw
      · split <;> (intro a ha; simp at ha)
  | tryAcquire n =>
    simp only [step, stepTry]
    split
    · intro a ha; simp at ha
    · split
      · rename_i h1 h2
        have he : s.waiters = [] := by simpa using h2.2
        intro a _ t _ w hw
        simp [he] at hw
      · intro a ha; simp at ha
  | release n =>
    simp only [step, stepRelease]
    split
    · intro a ha; simp at ha
    · split
      · intro a ha; simp at ha
      · exact afterNotify_no_overtaking _ _ (sorted_of_sublist h (List.Sublist.refl _) (Nat.le_refl _))
  | force n =>
    simp only [step, stepForce]
    split <;> (intro a ha; simp at ha)
  | setSize n =>
    exact afterNotify_no_overtaking _ _
      (sorted_of_sublist (s' := { s with size := n }) h (List.Sublist.refl _) (Nat.le_refl _))
  | cancel id =>
    simp only [step, stepCancel]
    have hf : Sorted { s with waiters := s.waiters.filter (fun w => !(w.id == id)) } :=
      sorted_of_sublist h List.filter_sublist (Nat.le_refl _)
    split
    · by_cases hnf : (isFront s id = true ∧ s.size ≥ s.cur)
      · simp only [hnf, and_self, if_true]; exact afterNotify_no_overtaking _ _ hf
      · simp only [hnf, if_false]; intro a ha; simp at ha
    · split <;> (intro a ha; simp at ha)
  | observe => intro a ha; simp [step] at ha

/-! ## Accounting: `cur` moves only by releases, forced acquisitions and the listed admissions -/

/-- The value of `cur` right after the operation's own unconditional update (before any admission). -/
def base (s : State) : Op → Int
  | .release n => if n < 0 then s.cur else s.cur - n
  | .force n => if n < 0 then s.cur else s.cur + n
  | _ => s.cur

theorem afterNotify_chain (s : State) (res : Res) :
    Chain s.cur (afterNotify s res).2.adm (afterNotify s res).1.cur :=
  notify_chain s.size s.waiters s.cur

theorem step_chain (s : State) (op : Op) : Chain (base s op) (step s op).2.adm (step s op).1.cur := by
  cases op with
  | acquire n =>
    simp only [step, stepAcquire, base]
    split
    · simp [Chain]
    · split
      · rename_i h1 h2
        simp only [Chain]
        refine ⟨?_, trivial⟩
        have : ((n.toNat : Nat) : Int) = n := Int.toNat_of_nonneg (by omega)
        omega
      · split <;> simp [Chain]
  | tryAcquire n =>
    simp only [step, stepTry, base]
    split
    · simp [Chain]
    · split
      · rename_i h1 h2
        simp only [Chain]
        refine ⟨?_, trivial⟩
        have : ((n.toNat : Nat) : Int) = n := Int.toNat_of_nonneg (by omega)
        omega
      · simp [Chain]
  | release n =>
    simp only [step, stepRelease, base]
    split
    · simp [Chain]
    · split
      · simp [Chain]
      · exact afterNotify_chain { s with cur := s.cur - n } .ok
  | force n =>
    simp only [step, stepForce, base]
    split <;> simp [Chain]
  | setSize n => exact afterNotify_chain { s with size := n } _
  | cancel id =>
    simp only [step, stepCancel, base]
    split
    · by_cases hnf : (isFront s id = true ∧ s.size ≥ s.cur)
      · simp only [hnf, and_self, if_true]
        exact afterNotify_chain { s with waiters := s.waiters.filter (fun w => !(w.id == id)) } .err
      · simp only [hnf, if_false]; simp [Chain]
    · split <;> simp [Chain]
  | observe => simp [step, base, Chain]

/-- Sum of the weights of a list of admission events. -/
def admSum (es : List Adm) : Int := (es.map (fun e => (e.n : Int))).sum

theorem chain_sum (c c' : Int) (es : List Adm) (h : Chain c es c') : c' = c + admSum es := by
  induction es generalizing c with
  | nil => simp [Chain] at h; simp [admSum, h]
  | cons e es ih =>
    have := ih _ h.2
    simp only [admSum, List.map_cons, List.sum_cons] at this ⊢
    rw [this, h.1]; omega

/-- Along a chain that ends within `sz`, with non-negative weights, every total is within `sz`. -/
theorem chain_mono (c c' : Int) (es : List Adm) (h : Chain c es c') : c ≤ c' := by
  induction es generalizing c with
  | nil => simp [Chain] at h; omega
  | cons e es ih => have := ih _ h.2; have := h.1; omega

/-- If every event of a chain ends within `sz`, the chain ends at most at `max c sz`. -/
theorem chain_bound (c c' sz : Int) (es : List Adm) (h : Chain c es c') (hb : ∀ e ∈ es, e.curAfter ≤ sz) :
    c' ≤ max c sz := by
  induction es generalizing c with
  | nil => simp [Chain] at h; omega
  | cons e es ih =>
    have h1 := ih _ h.2 (fun x hx => hb x (List.mem_cons_of_mem _ hx))
    have h2 := hb e (List.mem_cons_self ..)
    omega

/-! ## Queue conservation -/

theorem step_queue (s : State) (op : Op) :
    match op with
    | .acquire n =>
        ((step s op).2.res = .blocked ∧ (step s op).1.waiters = s.waiters ++ [⟨s.next, n.toNat⟩]) ∨
        ((step s op).2.res ≠ .blocked ∧ (step s op).1.waiters = s.waiters ∧
          ((step s op).2.res = .ok → s.waiters = []))
    | .tryAcquire _ => (step s op).1.waiters = s.waiters ∧ ((step s op).2.res = .yes → s.waiters = [])
    | .force _ | .observe => (step s op).1.waiters = s.waiters
    | .release _ | .setSize _ =>
        (step s op).2.adm.map Adm.key ++ (step s op).1.waiters.map Waiter.key = s.waiters.map Waiter.key
    | .cancel id =>
        (step s op).2.adm.map Adm.key ++ (step s op).1.waiters.map Waiter.key =
          (s.waiters.filter (fun w => !(w.id == id))).map Waiter.key := by
  cases op with
  | acquire n =>
    simp only [step, stepAcquire]
    split
    · right; simp
    · split
      · rename_i h1 h2
        have he : s.waiters = [] := by simpa using h2.2
        right; simp [he]
      · split
        · right; simp
        · left; simp
  | tryAcquire n =>
    simp only [step, stepTry]
    split
    · simp
    · split
      · rename_i h1 h2
        have he : s.waiters = [] := by simpa using h2.2
        simp [he]
      · simp
  | release n =>
    simp only [step, stepRelease]
    split
    · simp
    · split
      · simp
      · exact notify_prefix _ _ _
  | force n =>
    simp only [step, stepForce]
    split <;> simp
  | setSize n => exact notify_prefix _ _ _
  | cancel id =>
    simp only [step, stepCancel]
    split
    · by_cases hnf : (isFront s id = true ∧ s.size ≥ s.cur)
      · simp only [hnf, and_self, if_true]; exact notify_prefix _ _ _
      · simp only [hnf, if_false]; simp
    · rename_i hany
      have hfil : s.waiters.filter (fun w => !(w.id == id)) = s.waiters := by
        apply List.filter_eq_self.mpr
        intro w hw
        simp only [Bool.not_eq_true', beq_eq_false_iff_ne, ne_eq]
        intro hid
        apply hany
        simp only [List.any_eq_true, beq_iff_eq]
        exact ⟨w, hw, hid⟩
      split <;> simp [hfil]
  | observe => simp [step]


/-! ## Where queue elements come from -/

theorem afterNotify_waiters_sublist (s : State) (res : Res) : (afterNotify s res).1.waiters.Sublist s.waiters := by
  obtain ⟨pre, h1, _⟩ := afterNotify_waiters_suffix s res
  have h : ((afterNotify s res).1.waiters).Sublist (pre ++ (afterNotify s res).1.waiters) :=
    List.sublist_append_right _ _
  rw [← h1] at h; exact h

/-- Every element of the queue after a step was there before, or is the arrival of this `Acquire`. -/
theorem step_waiters_mem (s : State) (op : Op) :
    ∀ w ∈ (step s op).1.waiters, w ∈ s.waiters ∨ ∃ n, op = .acquire n ∧ 0 ≤ n ∧ w = ⟨s.next, n.toNat⟩ := by
  intro w hw
  cases op with
  | acquire n =>
    simp only [step, stepAcquire] at hw
    split at hw
    · exact Or.inl hw
    · split at hw
      · exact Or.inl hw
      · split at hw
        · exact Or.inl hw
        · simp only [List.mem_append, List.mem_singleton] at hw
          rcases hw with hw | hw
          · exact Or.inl hw
          · exact Or.inr ⟨n, rfl, by omega, hw⟩
  | tryAcquire n =>
    simp only [step, stepTry] at hw
    split at hw
    · exact Or.inl hw
    · split at hw <;> exact Or.inl hw
  | release n =>
    simp only [step, stepRelease] at hw
    split at hw
    · exact Or.inl hw
    · split at hw
      · exact Or.inl hw
      · exact Or.inl ((afterNotify_waiters_sublist { s with cur := s.cur - n } _).subset hw)
  | force n =>
    simp only [step, stepForce] at hw
    split at hw <;> exact Or.inl hw
  | setSize n => exact Or.inl ((afterNotify_waiters_sublist { s with size := n } _).subset hw)
  | cancel id =>
    simp only [step, stepCancel] at hw
    split at hw
    · by_cases hnf : (isFront s id = true ∧ s.size ≥ s.cur)
      · simp only [hnf, and_self, if_true] at hw
        have := (afterNotify_waiters_sublist _ _).subset hw
        exact Or.inl (List.filter_sublist.subset this)
      · simp only [hnf, if_false] at hw
        exact Or.inl (List.filter_sublist.subset hw)
    · split at hw <;> exact Or.inl hw
  | observe => exact Or.inl hw

/-! ## FIFO along histories -/

theorem trace_no_overtaking (s : State) (ops : List Op) (h : Sorted s) :
    ∀ x ∈ trace s ops, ∀ e ∈ x.2.2.adm, ∀ b, e.ticket = some b →
      ∀ w ∈ (step x.1 x.2.1).1.waiters, b < w.id := by
  induction ops generalizing s with
  | nil => intro x hx; simp [trace] at hx
  | cons op ops ih =>
    intro x hx
    simp only [trace, List.mem_cons] at hx
    rcases hx with hx | hx
    · subst hx; exact step_no_overtaking s op h
    · exact ih _ (step_sorted s op h) x hx

/-! ## Magnitudes: `cur` is bounded by the arguments of the history -/

def qsum (ws : List Waiter) : Int := (ws.map (fun w => (w.n : Int))).sum

/-- What the operation can add to `cur + queued weight`. -/
def accAmt : Op → Int
  | .acquire n | .tryAcquire n | .force n => max n 0
  | _ => 0

/-- What the operation can subtract from `cur`. -/
def relAmt : Op → Int
  | .release n => max n 0
  | _ => 0

def accSum (ops : List Op) : Int := (ops.map accAmt).sum
def relSum (ops : List Op) : Int := (ops.map relAmt).sum

theorem qsum_nonneg (ws : List Waiter) : 0 ≤ qsum ws := by
  induction ws with
  | nil => simp [qsum]
  | cons w ws ih => simp only [qsum, List.map_cons, List.sum_cons] at ih ⊢; omega

theorem qsum_append (a b : List Waiter) : qsum (a ++ b) = qsum a + qsum b := by
  simp [qsum, List.sum_append]

theorem qsum_filter_le (p : Waiter → Bool) (ws : List Waiter) : qsum (ws.filter p) ≤ qsum ws := by
  induction ws with
  | nil => simp [qsum]
  | cons w ws ih =>
    simp only [List.filter_cons]
    split
    · simp only [qsum, List.map_cons, List.sum_cons] at ih ⊢; omega
    · simp only [qsum, List.map_cons, List.sum_cons] at ih ⊢; omega

theorem notify_total (size : Int) (ws : List Waiter) (cur : Int) :
    (notify size cur ws).1 + qsum (notify size cur ws).2.2 = cur + qsum ws := by
  induction ws generalizing cur with
  | nil => simp [notify]
  | cons w ws ih =>
    unfold notify
    by_cases h : size - cur < (w.n : Int)
    · rw [if_pos h]
    · rw [if_neg h]
      have := ih (cur + w.n)
      simp only [qsum, List.map_cons, List.sum_cons] at this ⊢
      omega

theorem afterNotify_total (s : State) (res : Res) :
    (afterNotify s res).1.cur + qsum (afterNotify s res).1.waiters = s.cur + qsum s.waiters :=
  notify_total s.size s.waiters s.cur

theorem afterNotify_cur_ge (s : State) (res : Res) : s.cur ≤ (afterNotify s res).1.cur :=
  notify_cur_ge s.size s.waiters s.cur

theorem step_magnitude (s : State) (op : Op) :
    (step s op).1.cur + qsum (step s op).1.waiters ≤ s.cur + qsum s.waiters + accAmt op ∧
    s.cur - relAmt op ≤ (step s op).1.cur := by
  cases op with
  | acquire n =>
    simp only [step, stepAcquire, accAmt, relAmt]
    split
    · constructor <;> (try simp only) <;> omega
    · split
      · constructor <;> (try simp only) <;> omega
      · split
        · constructor <;> (try simp only) <;> omega
        · simp only [qsum_append]
          have : qsum [({ id := s.next, n := n.toNat } : Waiter)] = n := by
            simp [qsum]; omega
          constructor <;> (try simp only) <;> omega
  | tryAcquire n =>
    simp only [step, stepTry, accAmt, relAmt]
    split
    · constructor <;> (try simp only) <;> omega
    · split
      · constructor <;> (try simp only) <;> omega
      · constructor <;> (try simp only) <;> omega
  | release n =>
    simp only [step, stepRelease, accAmt, relAmt]
    split
    · constructor <;> (try simp only) <;> omega
    · split
      · constructor <;> (try simp only) <;> omega
      · have h1 := afterNotify_total { s with cur := s.cur - n } .ok
        have h2 := afterNotify_cur_ge { s with cur := s.cur - n } .ok
        simp only at h1 h2
        constructor <;> (try simp only) <;> omega
  | force n =>
    simp only [step, stepForce, accAmt, relAmt]
    split
    · constructor <;> (try simp only) <;> omega
    · constructor <;> (try simp only) <;> omega
  | setSize n =>
    have h1 := afterNotify_total { s with size := n } .ok
    have h2 := afterNotify_cur_ge { s with size := n } .ok
    simp only at h1 h2
    simp only [step, stepSetSize, accAmt, relAmt]
    constructor <;> (try simp only) <;> omega
  | cancel id =>
    simp only [step, stepCancel, accAmt, relAmt]
    have hq := qsum_filter_le (fun w => !(w.id == id)) s.waiters
    split
    · by_cases hnf : (isFront s id = true ∧ s.size ≥ s.cur)
      · simp only [hnf, and_self, if_true]
        have h1 := afterNotify_total { s with waiters := s.waiters.filter (fun w => !(w.id == id)) } .err
        have h2 := afterNotify_cur_ge { s with waiters := s.waiters.filter (fun w => !(w.id == id)) } .err
        simp only at h1 h2
        constructor <;> (try simp only) <;> omega
      · simp only [hnf, if_false]; constructor <;> (try simp only) <;> omega
    · split <;> (constructor <;> (try simp only) <;> omega)
  | observe => simp only [step, accAmt, relAmt]; constructor <;> (try simp only) <;> omega

theorem exec_magnitude (s : State) (ops : List Op) :
    (exec s ops).cur + qsum (exec s ops).waiters ≤ s.cur + qsum s.waiters + accSum ops ∧
    s.cur - relSum ops ≤ (exec s ops).cur := by
  induction ops generalizing s with
  | nil => simp [exec, accSum, relSum]
  | cons op ops ih =>
    have h1 := step_magnitude s op
    have h2 := ih (step s op).1
    simp only [exec, accSum, relSum, List.map_cons, List.sum_cons] at h2 ⊢
    constructor <;> omega


/-! ## Per-call outcome: every blocked `Acquire` leaves the blocked set exactly once -/

/-- Ticket `t` is blocked inside `Acquire`: queued, or parked on `ctx.Done()` outside the queue. -/
def Blocked (s : State) (t : Nat) : Prop := (∃ w ∈ s.waiters, w.id = t) ∨ t ∈ s.doomed

/-- Tickets of the blocked calls are below `next`; the queue is in arrival order. -/
def WF (s : State) : Prop := Sorted s ∧ ∀ t ∈ s.doomed, t < s.next

theorem wf_init (n : Int) : WF (init n) := ⟨sorted_init n, by simp [init]⟩

theorem step_doomed_mem (s : State) (op : Op) :
    ∀ t ∈ (step s op).1.doomed, t ∈ s.doomed ∨ (t = s.next ∧ ∃ n, op = .acquire n) := by
  intro t ht
  cases op with
  | acquire n =>
    simp only [step, stepAcquire] at ht
    split at ht
    · exact Or.inl ht
    · split at ht
      · exact Or.inl ht
      · split at ht
        · simp only [List.mem_append, List.mem_singleton] at ht
          rcases ht with ht | ht
          · exact Or.inl ht
          · exact Or.inr ⟨ht, n, rfl⟩
        · exact Or.inl ht
  | tryAcquire n =>
    simp only [step, stepTry] at ht
    split at ht
    · exact Or.inl ht
    · split at ht <;> exact Or.inl ht
  | release n =>
    simp only [step, stepRelease] at ht
    split at ht
    · exact Or.inl ht
    · split at ht <;> exact Or.inl ht
  | force n =>
    simp only [step, stepForce] at ht
    split at ht <;> exact Or.inl ht
  | setSize n => exact Or.inl ht
  | cancel id =>
    simp only [step, stepCancel] at ht
    split at ht
    · by_cases hnf : (isFront s id = true ∧ s.size ≥ s.cur)
      · simp only [hnf, and_self, if_true] at ht; exact Or.inl ht
      · simp only [hnf, if_false] at ht; exact Or.inl ht
    · split at ht
      · exact Or.inl (List.filter_sublist.subset ht)
      · exact Or.inl ht
  | observe => exact Or.inl ht

theorem step_next_ge (s : State) (op : Op) : s.next ≤ (step s op).1.next := by
  cases op with
  | acquire n =>
    simp only [step, stepAcquire]
    split
    · simp
    · split
      · simp
      · split <;> simp
  | tryAcquire n => simp only [step, stepTry]; split; · simp
                    · split <;> simp
  | release n =>
    simp only [step, stepRelease]
    split
    · simp
    · split
      · simp
      · simp [afterNotify]
  | force n => simp only [step, stepForce]; split <;> simp
  | setSize n => simp [step, stepSetSize, afterNotify]
  | cancel id =>
    simp only [step, stepCancel]
    split
    · by_cases hnf : (isFront s id = true ∧ s.size ≥ s.cur)
      · simp only [hnf, and_self, if_true]; simp [afterNotify]
      · simp only [hnf, if_false]; simp
    · split <;> simp
  | observe => simp [step]

theorem step_wf (s : State) (op : Op) (h : WF s) : WF (step s op).1 := by
  refine ⟨step_sorted s op h.1, fun t ht => ?_⟩
  rcases step_doomed_mem s op t ht with h1 | ⟨h1, n, hn⟩
  · exact Nat.lt_of_lt_of_le (h.2 t h1) (step_next_ge s op)
  · subst hn; subst h1
    simp only [step, stepAcquire]
    split
    · simp
    · split
      · simp
      · split <;> simp

theorem exec_wf (s : State) (ops : List Op) (h : WF s) : WF (exec s ops) := by
  induction ops generalizing s with
  | nil => exact h
  | cons op ops ih => exact ih _ (step_wf s op h)

/-- A ticket that is not blocked never becomes blocked again (tickets are fresh). -/
theorem never_reblocked (s : State) (op : Op) (t : Nat) (ht : t < s.next) (hb : ¬ Blocked s t) :
    ¬ Blocked (step s op).1 t := by
  intro hb'
  rcases hb' with ⟨w, hw, hid⟩ | hd
  · rcases step_waiters_mem s op w hw with hm | ⟨n, _, _, hw'⟩
    · exact hb (Or.inl ⟨w, hm, hid⟩)
    · subst hw'; simp only at hid; omega
  · rcases step_doomed_mem s op t hd with h1 | ⟨h1, _⟩
    · exact hb (Or.inr h1)
    · omega

/-- The tickets admitted by a step. -/
def admTickets (o : Out) : List Nat := o.adm.filterMap (·.ticket)

theorem mem_admTickets {o : Out} {t : Nat} : t ∈ admTickets o ↔ ∃ a ∈ o.adm, a.ticket = some t := by
  simp [admTickets, List.mem_filterMap]

/-- A cancelled ticket is never among the admissions of its own cancellation step. -/
theorem cancel_not_admitted (s : State) (id : Nat) : id ∉ admTickets (step s (.cancel id)).2 := by
  intro h
  obtain ⟨a, ha, hat⟩ := mem_admTickets.mp h
  have hq := step_queue s (.cancel id)
  simp only at hq
  have hk : a.key ∈ (step s (.cancel id)).2.adm.map Adm.key ++ (step s (.cancel id)).1.waiters.map Waiter.key :=
    List.mem_append_left _ (List.mem_map_of_mem ha)
  rw [hq] at hk
  obtain ⟨w, hw, hwk⟩ := List.mem_map.mp hk
  have hwid : w.id = id := by
    have : (some w.id : Option Nat) = a.ticket := congrArg Prod.fst hwk
    rw [hat] at this; exact Option.some.inj this
  have := (List.mem_filter.mp hw).2
  simp [hwid] at this

/-- **Exactly one way out.** If ticket `t` is blocked before a step and not after it, then either the step
admitted it (its `Acquire` returns nil and its weight is in `cur`), or the step is the cancellation of `t`
(its `Acquire` returns `ctx.Err()`); in the second case `t` is not among the admissions. -/
theorem blocked_leaves_once (s : State) (op : Op) (t : Nat) (hb : Blocked s t) (hn : ¬ Blocked (step s op).1 t) :
    (t ∈ admTickets (step s op).2 ∧ op ≠ .cancel t) ∨
    (op = .cancel t ∧ (step s op).2.res = .err ∧ t ∉ admTickets (step s op).2) := by
  by_cases hop : op = .cancel t
  · right
    subst hop
    refine ⟨rfl, ?_, cancel_not_admitted s t⟩
    simp only [step, stepCancel]
    split
    · by_cases hnf : (isFront s t = true ∧ s.size ≥ s.cur)
      · simp only [hnf, and_self, if_true]; rfl
      · simp only [hnf, if_false]
    · rename_i hany
      split
      · rfl
      · rename_i hd
        exfalso
        rcases hb with ⟨w, hw, hid⟩ | hd'
        · apply hany
          simp only [List.any_eq_true, beq_iff_eq]
          exact ⟨w, hw, hid⟩
        · apply hd; simpa using hd'
  · left
    refine ⟨?_, hop⟩
    rcases hb with ⟨w, hw, hid⟩ | hd
    · -- queued: the queue conservation law says it is admitted or still queued
      have hq := step_queue s op
      have surv : ∀ (l : List (Option Nat × Nat)),
          (step s op).2.adm.map Adm.key ++ (step s op).1.waiters.map Waiter.key = l → w.key ∈ l →
          t ∈ admTickets (step s op).2 := by
        intro l hl hwl
        rw [← hl, List.mem_append] at hwl
        rcases hwl with h1 | h1
        · obtain ⟨a, ha, hak⟩ := List.mem_map.mp h1
          refine mem_admTickets.mpr ⟨a, ha, ?_⟩
          have : a.ticket = some w.id := congrArg Prod.fst hak
          rw [this, hid]
        · obtain ⟨w', hw', hk'⟩ := List.mem_map.mp h1
          exfalso; apply hn; left
          refine ⟨w', hw', ?_⟩
          have : (some w'.id : Option Nat) = some w.id := congrArg Prod.fst hk'
          rw [← hid]; exact Option.some.inj this
      have stay : (step s op).1.waiters = s.waiters ∨ (∃ x, (step s op).1.waiters = s.waiters ++ [x]) →
          t ∈ admTickets (step s op).2 := by
        intro h; exfalso; apply hn; left
        rcases h with h | ⟨x, h⟩
        · exact ⟨w, by rw [h]; exact hw, hid⟩
        · exact ⟨w, by rw [h]; exact List.mem_append_left _ hw, hid⟩
      cases op with
      | acquire n =>
        simp only at hq
        rcases hq with ⟨_, h⟩ | ⟨_, h, _⟩
        · exact stay (Or.inr ⟨_, h⟩)
        · exact stay (Or.inl h)
      | tryAcquire n => exact stay (Or.inl hq.1)
      | force n => exact stay (Or.inl hq)
      | observe => exact stay (Or.inl hq)
      | release n => exact surv _ hq (List.mem_map_of_mem hw)
      | setSize n => exact surv _ hq (List.mem_map_of_mem hw)
      | cancel id =>
        have hne : id ≠ t := fun h => hop (by rw [h])
        apply surv _ hq
        apply List.mem_map_of_mem
        apply List.mem_filter.mpr
        refine ⟨hw, ?_⟩
        simp only [Bool.not_eq_true', beq_eq_false_iff_ne, ne_eq, hid]
        exact fun h => hne h.symm
    · -- parked outside the queue: only its own cancellation removes it
      exfalso; apply hn; right
      cases op with
      | acquire n =>
        simp only [step, stepAcquire]
        split
        · exact hd
        · split
          · exact hd
          · split
            · exact List.mem_append_left _ hd
            · exact hd
      | tryAcquire n =>
        simp only [step, stepTry]
        split
        · exact hd
        · split <;> exact hd
      | release n =>
        simp only [step, stepRelease]
        split
        · exact hd
        · split <;> exact hd
      | force n => simp only [step, stepForce]; split <;> exact hd
      | setSize n => exact hd
      | observe => exact hd
      | cancel id =>
        have hne : id ≠ t := fun h => hop (by rw [h])
        simp only [step, stepCancel]
        split
        · by_cases hnf : (isFront s id = true ∧ s.size ≥ s.cur)
          · simp only [hnf, and_self, if_true]; exact hd
          · simp only [hnf, if_false]; exact hd
        · split
          · apply List.mem_filter.mpr
            refine ⟨hd, ?_⟩
            simp only [Bool.not_eq_true', beq_eq_false_iff_ne, ne_eq]
            exact fun h => hne h.symm
          · exact hd


/-! ## Wake-up happens exactly when capacity allows -/

/-- If the front waiter fits when `notifyWaiters` runs, it is the first admission. -/
theorem notify_admits_front (size cur : Int) (w : Waiter) (ws : List Waiter) (h : (w.n : Int) ≤ size - cur) :
    ∃ rest, (notify size cur (w :: ws)).2.1 = ⟨some w.id, w.n, cur + w.n, size⟩ :: rest := by
  unfold notify
  rw [if_neg (by omega)]
  exact ⟨_, rfl⟩

theorem release_admits_front (s : State) (n : Int) (w : Waiter) (ws : List Waiter) (hw : s.waiters = w :: ws)
    (h0 : 0 ≤ n) (h1 : n ≤ s.cur) (hfit : (w.n : Int) ≤ s.size - (s.cur - n)) :
    ∃ rest, (step s (.release n)).2.adm = ⟨some w.id, w.n, s.cur - n + w.n, s.size⟩ :: rest := by
  simp only [step, stepRelease]
  rw [if_neg (by omega), if_neg (by omega)]
  simp only [afterNotify, hw]
  exact notify_admits_front _ _ _ _ hfit

theorem setSize_admits_front (s : State) (n : Int) (w : Waiter) (ws : List Waiter) (hw : s.waiters = w :: ws)
    (hfit : (w.n : Int) ≤ n - s.cur) :
    ∃ rest, (step s (.setSize n)).2.adm = ⟨some w.id, w.n, s.cur + w.n, n⟩ :: rest := by
  simp only [step, stepSetSize, afterNotify, hw]
  exact notify_admits_front _ _ _ _ hfit

/-- Conversely an admission from the queue only happens to a waiter that fits. -/
theorem notify_nothing_if_front_blocked (s : State) (res : Res) (w : Waiter) (ws : List Waiter)
    (hw : s.waiters = w :: ws) (h : s.size - s.cur < (w.n : Int)) :
    (afterNotify s res).2.adm = [] ∧ (afterNotify s res).1.waiters = s.waiters ∧ (afterNotify s res).1.cur = s.cur := by
  simp only [afterNotify, hw, notify_blocked _ _ _ _ h, and_self]

/-! ## A failed `Acquire` leaves the semaphore unchanged -/

/-- `Acquire` whose context is cancelled before anything else happens (the `x` protocol operation): the two
critical sections back to back restore `size`, `cur`, the queue and the parked set exactly. -/
theorem failed_acquire_unchanged (s : State) (n : Int) (h : WF s)
    (hres : (step s (.acquire n)).2.res = .blocked ∨ (step s (.acquire n)).2.res = .doomed) :
    let s2 := (step (step s (.acquire n)).1 (.cancel s.next)).1
    s2.size = s.size ∧ s2.cur = s.cur ∧ s2.waiters = s.waiters ∧ s2.doomed = s.doomed ∧
    (step (step s (.acquire n)).1 (.cancel s.next)).2 = ⟨.err, []⟩ := by
  have hfresh : ∀ w ∈ s.waiters, (w.id == s.next) = false := by
    intro w hw; have := h.1.2 w hw; simp; omega
  have hfreshd : ∀ t ∈ s.doomed, (t == s.next) = false := by
    intro t ht; have := h.2 t ht; simp; omega
  have hfil : s.waiters.filter (fun w => !(w.id == s.next)) = s.waiters := by
    apply List.filter_eq_self.mpr; intro w hw; simp [hfresh w hw]
  have hfild : s.doomed.filter (fun t => !(t == s.next)) = s.doomed := by
    apply List.filter_eq_self.mpr; intro t ht; simp [hfreshd t ht]
  have hany : s.waiters.any (fun w => w.id == s.next) = false := by
    rw [List.any_eq_false]; intro w hw; simp [hfresh w hw]
  simp only [step, stepAcquire] at hres ⊢
  split at hres
  · simp at hres
  · rename_i hn0
    split at hres
    · simp at hres
    · rename_i hfast
      rw [if_neg hn0, if_neg hfast]
      split
      · -- parked
        simp only [stepCancel, hany]
        simp [hfild, List.filter_append]
      · -- enqueued
        rename_i hdoom
        simp only [stepCancel]
        have hany2 : (s.waiters ++ [({ id := s.next, n := n.toNat } : Waiter)]).any (fun w => w.id == s.next) = true := by
          simp
        rw [if_pos hany2]
        have hfil2 : (s.waiters ++ [({ id := s.next, n := n.toNat } : Waiter)]).filter (fun w => !(w.id == s.next))
            = s.waiters := by
          simp [List.filter_append, hfil]
        simp only [hfil2]
        by_cases hnf : (isFront { s with waiters := s.waiters ++ [({ id := s.next, n := n.toNat } : Waiter)], next := s.next + 1 } s.next = true
            ∧ s.size ≥ s.cur)
        · rw [if_pos hnf]
          -- it was the front: the queue was empty, notifyWaiters has nothing to do
          have hemp : s.waiters = [] := by
            cases hw : s.waiters with
            | nil => rfl
            | cons w ws =>
              have := hnf.1
              simp only [isFront, hw, List.cons_append] at this
              have := hfresh w (by rw [hw]; exact List.mem_cons_self ..)
              simp_all
          simp [afterNotify, hemp, notify]
        · rw [if_neg hnf]
          simp


/-- `size` is only ever written by `SetSize`. -/
theorem step_size (s : State) (op : Op) :
    (step s op).1.size = match op with | .setSize n => n | _ => s.size := by
  cases op with
  | acquire n =>
    simp only [step, stepAcquire]
    split
    · rfl
    · split
      · rfl
      · split <;> rfl
  | tryAcquire n =>
    simp only [step, stepTry]
    split
    · rfl
    · split <;> rfl
  | release n =>
    simp only [step, stepRelease]
    split
    · rfl
    · split <;> rfl
  | force n => simp only [step, stepForce]; split <;> rfl
  | setSize n => rfl
  | cancel id =>
    simp only [step, stepCancel]
    split
    · by_cases hnf : (isFront s id = true ∧ s.size ≥ s.cur)
      · simp only [hnf, and_self, if_true]; rfl
      · simp only [hnf, if_false]
    · split <;> rfl
  | observe => rfl

/-! ## Historical: the cancellation branch before the repair 616a0ec3 (`isFront && s.size > s.cur`) -/

/-- `stepCancel` as the code was before the repair: `notifyWaiters` only if `size > cur` (strictly). -/
def stepCancelStrictGt (s : State) (id : Nat) : State × Out :=
  if s.waiters.any (·.id == id) then
    let front := isFront s id
    let s' := { s with waiters := s.waiters.filter (fun w => !(w.id == id)) }
    if front ∧ s'.size > s'.cur then afterNotify s' .err
    else (s', ⟨.err, []⟩)
  else if s.doomed.contains id then
    ({ s with doomed := s.doomed.filter (fun t => !(t == id)) }, ⟨.err, []⟩)
  else (s, ⟨.noop, []⟩)

def stepStrictGt (s : State) : Op → State × Out
  | .cancel id => stepCancelStrictGt s id
  | op => step s op

def execStrictGt (s : State) : List Op → State
  | [] => s
  | op :: ops => execStrictGt (stepStrictGt s op).1 ops

/-- The zero-weight gap of the old branch: the cancelled ticket is the front of the queue, `size = cur` (so the strict
test skipped `notifyWaiters`) and the waiter that becomes the front asks for weight 0 (which fits into zero capacity). -/
def ZeroGap (s : State) (id : Nat) : Prop :=
  isFront s id = true ∧ s.size = s.cur ∧
    match s.waiters.filter (fun w => !(w.id == id)) with
    | [] => False
    | w2 :: _ => w2.n = 0

instance (s : State) (id : Nat) : Decidable (ZeroGap s id) := by
  unfold ZeroGap; split <;> infer_instance

/-- In the gap the old branch always lost the invariant. -/
theorem zeroGap_breaks_strictGt (s : State) (id : Nat) (hz : ZeroGap s id) : ¬ NoLost (stepCancelStrictGt s id).1 := by
  obtain ⟨hf, he, hm⟩ := hz
  have hany : s.waiters.any (·.id == id) = true := by
    unfold isFront at hf
    cases hw : s.waiters with
    | nil => rw [hw] at hf; simp at hf
    | cons w ws => rw [hw] at hf; simp at hf; simp [hf]
  unfold stepCancelStrictGt
  rw [if_pos hany]
  have hng : ¬ (isFront s id = true ∧ s.size > s.cur) := by omega
  simp only [hng, if_false]
  unfold NoLost
  simp only
  split
  · rename_i heq; simp only [heq] at hm
  · rename_i w2 rest heq; simp only [heq] at hm; omega

/-- The old and the repaired branch agree except when the cancelled ticket is the front and `size = cur`. -/
theorem stepCancelStrictGt_eq (s : State) (id : Nat) (h : ¬ (isFront s id = true ∧ s.size = s.cur)) :
    stepCancelStrictGt s id = stepCancel s id := by
  unfold stepCancelStrictGt stepCancel
  have : (isFront s id = true ∧ s.size > s.cur) ↔ (isFront s id = true ∧ s.size ≥ s.cur) := by
    constructor
    · intro ⟨a, b⟩; exact ⟨a, by omega⟩
    · intro ⟨a, b⟩; exact ⟨a, by by_cases he : s.size = s.cur; exact absurd ⟨a, he⟩ h; omega⟩
  simp only [this]

end TLVerif.Sema
