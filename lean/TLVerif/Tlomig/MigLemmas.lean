import TLVerif.Tlomig.Mig
/-! Lemmas for C27: related nodes of a consistent relation write every value identically (TL2 bytes and JSON). -/
namespace TLVerif.Tlomig
open TLVerif.Prim

theorem pair_nodes {d₁ d₂ : Desc} {R : Rel} (hR : consistent d₁ d₂ R = true) {i j : Nat}
    (h : R.contains (i, j) = true) :
    ∃ n m, d₁.node i = some n ∧ d₂.node j = some m ∧ nodesMatch R n m = true := by
  unfold consistent at hR
  rw [List.all_eq_true] at hR
  have hm : (i, j) ∈ R := by simpa using h
  have := hR (i, j) hm
  simp only at this
  split at this
  · rename_i n m h1 h2
    exact ⟨n, m, h1, h2, this⟩
  · contradiction

theorem variantsMatch_get {R : Rel} : ∀ {vs ws : List (String × Nat)}, variantsMatch R vs ws = true → ∀ idx : Nat,
    (vs[idx]? = none ∧ ws[idx]? = none) ∨
    ∃ n i j, vs[idx]? = some (n, i) ∧ ws[idx]? = some (n, j) ∧ R.contains (i, j) = true
  | [], [], _, idx => by simp
  | [], _ :: _, h, _ => by simp [variantsMatch] at h
  | _ :: _, [], h, _ => by simp [variantsMatch] at h
  | (n, i) :: vs, (m, j) :: ws, h, idx => by
    simp only [variantsMatch, Bool.and_eq_true, beq_iff_eq] at h
    obtain ⟨⟨h1, h2⟩, h3⟩ := h
    subst h1
    cases idx with
    | zero => right; exact ⟨n, i, j, by simp, by simp, h2⟩
    | succ k =>
      simp only [List.getElem?_cons_succ]
      exact variantsMatch_get h3 k

theorem fieldItem_congr {f g : FieldD} (hn : f.name = g.name) (ho : f.opt = g.opt) (hb : f.isBit = g.isBit)
    (a u : Bool) (w w' : Option Bytes) (hw : f.isBit = false → w = w') :
    fieldItem f a u w = fieldItem g a u w' := by
  unfold fieldItem
  rw [← hn, ← ho, ← hb]
  cases hbit : f.isBit with
  | true => simp
  | false => rw [hw hbit]

theorem jsonItem_congr {f g : FieldD} (hn : f.name = g.name) (ho : f.opt = g.opt) (hb : f.isBit = g.isBit)
    (a u : Bool) (w w' : Option String) (hw : f.isBit = false → w = w') :
    jsonItem f a u w = jsonItem g a u w' := by
  unfold jsonItem
  rw [← hn, ← ho, ← hb]
  cases hbit : f.isBit with
  | true => simp
  | false => rw [hw hbit]

theorem fieldsMatch_isEmpty {R : Rel} : ∀ {fs gs : List FieldD}, fieldsMatch R fs gs = true → fs.isEmpty = gs.isEmpty
  | [], [], _ => rfl
  | [], _ :: _, h => by simp [fieldsMatch] at h
  | _ :: _, [], h => by simp [fieldsMatch] at h
  | _ :: _, _ :: _, _ => rfl

section
variable {d₁ d₂ : Desc} {R : Rel}

mutual
theorem tl2_val (hR : consistent d₁ d₂ R = true) : (v : Val) → ∀ i j opt, R.contains (i, j) = true →
    writeTL2 d₁ i opt v = writeTL2 d₂ j opt v
  | .int n => by
    intro i j opt h
    obtain ⟨a, b, h1, h2, hm⟩ := pair_nodes hR h
    simp only [writeTL2, h1, h2]
    cases a <;> cases b <;> simp [nodesMatch] at hm ⊢
    subst hm; rfl
  | .bool x => by
    intro i j opt h
    obtain ⟨a, b, h1, h2, hm⟩ := pair_nodes hR h
    simp only [writeTL2, h1, h2]
    cases a <;> cases b <;> simp [nodesMatch] at hm ⊢
    subst hm; rfl
  | .unit => by
    intro i j opt h
    obtain ⟨a, b, h1, h2, hm⟩ := pair_nodes hR h
    simp only [writeTL2, h1, h2]
    cases a <;> cases b <;> simp [nodesMatch] at hm ⊢
    subst hm; rfl
  | .str s => by
    intro i j opt h
    obtain ⟨a, b, h1, h2, hm⟩ := pair_nodes hR h
    simp only [writeTL2, h1, h2]
    cases a <;> cases b <;> simp [nodesMatch] at hm ⊢
    subst hm; rfl
  | .absent => by
    intro i j opt h
    simp [writeTL2]
  | .struct fs => by
    intro i j opt h
    obtain ⟨a, b, h1, h2, hm⟩ := pair_nodes hR h
    simp only [writeTL2, h1, h2]
    cases a <;> cases b <;> simp [nodesMatch] at hm ⊢
    obtain ⟨⟨⟨⟨_, h3⟩, h4⟩, h5⟩, _⟩ := hm
    subst h3 h4
    rw [tl2_fields hR fs _ _ h5]
  | .union idx fs => by
    intro i j opt h
    obtain ⟨a, b, h1, h2, hm⟩ := pair_nodes hR h
    simp only [writeTL2, h1, h2]
    cases a <;> cases b <;> simp [nodesMatch] at hm ⊢
    rename_i vs ws
    rcases variantsMatch_get hm idx with ⟨e1, e2⟩ | ⟨n, vi, vj, e1, e2, hr⟩
    · simp [e1, e2]
    · simp only [e1, e2]
      obtain ⟨a', b', h1', h2', hm'⟩ := pair_nodes hR hr
      simp only [h1', h2']
      cases a' <;> cases b' <;> simp [nodesMatch] at hm' ⊢
      obtain ⟨⟨⟨⟨_, h3⟩, h4⟩, h5⟩, _⟩ := hm'
      subst h3 h4
      rw [tl2_fields hR fs _ _ h5]
  | .arr es => by
    intro i j opt h
    obtain ⟨a, b, h1, h2, hm⟩ := pair_nodes hR h
    simp only [writeTL2, h1, h2]
    cases a <;> cases b <;> simp [nodesMatch] at hm ⊢
    obtain ⟨h6, h7⟩ := hm
    subst h6
    split
    · rfl
    · split
      · rfl
      · next hb =>
        rcases h7 with h7 | h7
        · exact absurd h7 hb
        · rw [tl2_elems hR es _ _ (by simpa using h7)]
  | .dict es => by
    intro i j opt h
    obtain ⟨a, b, h1, h2, hm⟩ := pair_nodes hR h
    simp only [writeTL2, h1, h2]
    cases a <;> cases b <;> simp [nodesMatch] at hm ⊢
    rw [tl2_elems hR es _ _ (by simpa using hm)]
theorem tl2_fields (hR : consistent d₁ d₂ R = true) : (vs : Vals) → ∀ fs gs, fieldsMatch R fs gs = true →
    writeFields d₁ fs vs = writeFields d₂ gs vs
  | .nil => by
    intro fs gs h
    cases fs <;> cases gs <;> simp [fieldsMatch, writeFields] at h ⊢
  | .cons v vs => by
    intro fs gs h
    cases fs with
    | nil => cases gs <;> simp [fieldsMatch, writeFields] at h ⊢
    | cons f fs =>
      cases gs with
      | nil => simp [fieldsMatch] at h
      | cons g gs =>
        simp only [fieldsMatch, Bool.and_eq_true, beq_iff_eq, Bool.or_eq_true] at h
        obtain ⟨⟨⟨⟨hn, ho⟩, hb⟩, hty⟩, hrest⟩ := h
        simp only [writeFields]
        rw [tl2_fields hR vs fs gs hrest]
        rw [fieldItem_congr hn ho hb v.isAbsent v.isUnit (writeTL2 d₁ f.ty (!f.opt) v) (writeTL2 d₂ g.ty (!g.opt) v)]
        intro hbit
        rw [← ho]
        rcases hty with hty | hty
        · rw [hbit] at hty; contradiction
        · exact tl2_val hR v _ _ _ hty
theorem tl2_elems (hR : consistent d₁ d₂ R = true) : (vs : Vals) → ∀ i j, R.contains (i, j) = true →
    writeElems d₁ i vs = writeElems d₂ j vs
  | .nil => by intro i j h; simp [writeElems]
  | .cons v vs => by
    intro i j h
    simp only [writeElems]
    rw [tl2_val hR v i j false h, tl2_elems hR vs i j h]
end

theorem typedef_single {R : Rel} {fs gs : List FieldD} (hf : fieldsMatch R fs gs = true) (ht : typedefOk R true fs gs = true) :
    (∃ f g, fs = [f] ∧ gs = [g] ∧ R.contains (f.ty, g.ty) = true) ∨
    ((∀ f, fs ≠ [f]) ∧ (∀ g, gs ≠ [g])) := by
  match fs, gs, hf, ht with
  | [], [], _, _ => right; simp
  | [f], [g], _, ht => left; exact ⟨f, g, rfl, rfl, by simpa [typedefOk] using ht⟩
  | [], _ :: _, hf, _ => simp [fieldsMatch] at hf
  | _ :: _, [], hf, _ => simp [fieldsMatch] at hf
  | [_], _ :: _ :: _, hf, _ => simp [fieldsMatch] at hf
  | _ :: _ :: _, [_], hf, _ => simp [fieldsMatch] at hf
  | _ :: _ :: _, _ :: _ :: _, _, _ => right; simp

mutual
theorem json_val (hR : consistent d₁ d₂ R = true) : (v : Val) → ∀ i j, R.contains (i, j) = true →
    writeJson d₁ i v = writeJson d₂ j v
  | .int n => by
    intro i j h
    obtain ⟨a, b, h1, h2, hm⟩ := pair_nodes hR h
    simp only [writeJson, h1, h2]
    cases a <;> cases b <;> simp [nodesMatch] at hm ⊢
    subst hm; rfl
  | .bool x => by
    intro i j h
    obtain ⟨a, b, h1, h2, hm⟩ := pair_nodes hR h
    simp only [writeJson, h1, h2]
    cases a <;> cases b <;> simp [nodesMatch] at hm ⊢
    subst hm; rfl
  | .unit => by
    intro i j h
    obtain ⟨a, b, h1, h2, hm⟩ := pair_nodes hR h
    simp only [writeJson, h1, h2]
    cases a <;> cases b <;> simp [nodesMatch] at hm ⊢
    subst hm; rfl
  | .str s => by
    intro i j h
    obtain ⟨a, b, h1, h2, hm⟩ := pair_nodes hR h
    simp only [writeJson, h1, h2]
    cases a <;> cases b <;> simp [nodesMatch] at hm ⊢
    subst hm; rfl
  | .absent => by
    intro i j h
    simp [writeJson]
  | .struct fs => by
    intro i j h
    obtain ⟨a, b, h1, h2, hm⟩ := pair_nodes hR h
    simp only [writeJson, h1, h2]
    cases a <;> cases b <;> simp only [nodesMatch, Bool.and_eq_true, beq_iff_eq] at hm ⊢ <;> try contradiction
    obtain ⟨⟨⟨⟨h3, _⟩, _⟩, h5⟩, h6⟩ := hm
    subst h3
    split
    · next htd =>
      rw [htd] at h6
      exact json_typedef hR fs _ _ h5 h6
    · rw [json_fields hR fs _ _ true h5]
  | .union idx fs => by
    intro i j h
    obtain ⟨a, b, h1, h2, hm⟩ := pair_nodes hR h
    simp only [writeJson, h1, h2]
    cases a <;> cases b <;> simp [nodesMatch] at hm ⊢
    rename_i vs ws
    rcases variantsMatch_get hm idx with ⟨e1, e2⟩ | ⟨n, vi, vj, e1, e2, hr⟩
    · simp [e1, e2]
    · simp only [e1, e2]
      obtain ⟨a', b', h1', h2', hm'⟩ := pair_nodes hR hr
      simp only [h1', h2']
      cases a' <;> cases b' <;> simp only [nodesMatch, Bool.and_eq_true, beq_iff_eq] at hm' ⊢ <;> try contradiction
      obtain ⟨⟨⟨⟨h3, h4a⟩, h4b⟩, h5⟩, h6⟩ := hm'
      subst h3
      rename_i _ _ _ _ fs₁ _ _ _ fs₂
      by_cases hfe : fs₁ = []
      · have hge : fs₂ = [] := by
          subst hfe; cases fs₂ with
          | nil => rfl
          | cons _ _ => simp [fieldsMatch] at h5
        simp [hfe, hge]
      · have hge : fs₂ ≠ [] := by
          intro hge; subst hge; cases fs₁ with
          | nil => exact hfe rfl
          | cons _ _ => simp [fieldsMatch] at h5
        simp only [hfe, hge, if_false]
        split
        · next htd =>
          rw [htd] at h6
          rw [json_typedef hR fs _ _ h5 h6]
        · rw [json_fields hR fs _ _ true h5]
  | .arr es => by
    intro i j h
    obtain ⟨a, b, h1, h2, hm⟩ := pair_nodes hR h
    simp only [writeJson, h1, h2]
    cases a <;> cases b <;> simp [nodesMatch] at hm ⊢
    obtain ⟨h6, h7⟩ := hm
    subst h6
    split
    · rfl
    · next hb =>
      rcases h7 with h7 | h7
      · exact absurd h7 hb
      · rw [json_elems hR es _ _ (by simpa using h7)]
  | .dict es => by
    intro i j h
    obtain ⟨a, b, h1, h2, hm⟩ := pair_nodes hR h
    simp only [writeJson, h1, h2]
    cases a <;> cases b <;> simp [nodesMatch] at hm ⊢
    rw [json_elems hR es _ _ (by simpa using hm)]
theorem json_typedef (hR : consistent d₁ d₂ R = true) : (vs : Vals) → ∀ fs gs, fieldsMatch R fs gs = true →
    typedefOk R true fs gs = true → jsonTypedef d₁ fs vs = jsonTypedef d₂ gs vs
  | .nil => by intro fs gs _ _; simp [jsonTypedef]
  | .cons v vs => by
    intro fs gs hf ht
    cases vs with
    | cons _ _ => simp [jsonTypedef]
    | nil =>
      simp only [jsonTypedef]
      rcases typedef_single hf ht with ⟨f, g, e1, e2, hr⟩ | ⟨n1, n2⟩
      · subst e1 e2
        exact json_val hR v _ _ hr
      · cases fs with
        | nil =>
          cases gs with
          | nil => rfl
          | cons g t =>
            cases t with
            | nil => exact absurd rfl (n2 g)
            | cons _ _ => rfl
        | cons f t =>
          cases t with
          | nil => exact absurd rfl (n1 f)
          | cons _ _ =>
            cases gs with
            | nil => rfl
            | cons g t' =>
              cases t' with
              | nil => exact absurd rfl (n2 g)
              | cons _ _ => rfl
theorem json_fields (hR : consistent d₁ d₂ R = true) : (vs : Vals) → ∀ fs gs first, fieldsMatch R fs gs = true →
    jsonFields d₁ fs vs first = jsonFields d₂ gs vs first
  | .nil => by
    intro fs gs first h
    cases fs <;> cases gs <;> simp [fieldsMatch, jsonFields] at h ⊢
  | .cons v vs => by
    intro fs gs first h
    cases fs with
    | nil => cases gs <;> simp [fieldsMatch, jsonFields] at h ⊢
    | cons f fs =>
      cases gs with
      | nil => simp [fieldsMatch] at h
      | cons g gs =>
        simp only [fieldsMatch, Bool.and_eq_true, beq_iff_eq, Bool.or_eq_true] at h
        obtain ⟨⟨⟨⟨hn, ho⟩, hb⟩, hty⟩, hrest⟩ := h
        simp only [jsonFields]
        rw [json_fields hR vs fs gs first hrest, json_fields hR vs fs gs false hrest]
        rw [jsonItem_congr hn ho hb v.isAbsent v.isUnit (writeJson d₁ f.ty v) (writeJson d₂ g.ty v)]
        intro hbit
        rcases hty with hty | hty
        · rw [hbit] at hty; contradiction
        · exact json_val hR v _ _ hty
theorem json_elems (hR : consistent d₁ d₂ R = true) : (vs : Vals) → ∀ i j, R.contains (i, j) = true →
    jsonElems d₁ i vs = jsonElems d₂ j vs
  | .nil => by intro i j h; simp [jsonElems]
  | .cons v vs => by
    intro i j h
    simp only [jsonElems]
    rw [json_val hR v i j h, json_elems hR vs i j h]
end

end
end TLVerif.Tlomig
