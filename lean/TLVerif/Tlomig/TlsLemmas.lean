import TLVerif.Tlomig.Tls
namespace TLVerif.Tlomig
end TLVerif.Tlomig
