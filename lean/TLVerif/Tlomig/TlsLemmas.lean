import TLVerif.Tlomig.TlsWf
import TLVerif.Prim.TL1StringLemmas
/-! Round trip of the `tls.tl` TL1 codec model: `decodeSchema (encSchema s ++ rest) = (s, rest)` for every well-formed value. -/
namespace TLVerif.Tlomig
open TLVerif.Prim

theorem getLsbD_mod256 (x : BitVec 32) (i : Nat) : (x % 256#32).getLsbD i = (decide (i < 8) && x.getLsbD i) := by
  simp only [BitVec.getLsbD, BitVec.toNat_umod]
  show (x.toNat % 2 ^ 8).testBit i = _
  rw [Nat.testBit_mod_two_pow]

theorem natRead_natWrite (v : UInt32) (rest : Bytes) : natRead (natWrite v ++ rest) = .ok (v, rest) := by
  simp only [natWrite, natRead, List.cons_append, List.nil_append]
  congr 2
  apply UInt32.eq_of_toBitVec_eq
  apply BitVec.eq_of_getLsbD_eq
  intro i hi
  simp only [UInt8.toUInt32, UInt32.toUInt8, UInt32.toBitVec_or, UInt32.toBitVec_shiftLeft, UInt32.toBitVec_shiftRight]
  simp [BitVec.getLsbD_or, BitVec.getLsbD_shiftLeft, getLsbD_mod256, BitVec.getLsbD_ushiftRight]
  have hm : ∀ (x k : Nat), (x % 256).testBit k = (decide (k < 8) && x.testBit k) := by
    intro x k
    rw [show 256 = 2 ^ 8 from rfl, Nat.testBit_mod_two_pow]
  simp only [hm, Nat.testBit_shiftRight, hi, decide_true, Bool.true_and]
  show _ = v.toNat.testBit i
  by_cases h1 : i < 8
  · simp [h1, show i < 16 by omega, show i < 24 by omega]
  · by_cases h2 : i < 16
    · simp [h1, h2, show i < 24 by omega, show 8 + (i - 8) = i by omega, show i - 8 < 8 by omega] <;> (intros; exfalso; omega)
    · by_cases h3 : i < 24
      · simp [h1, h2, h3, show 16 + (i - 16) = i by omega, show i - 16 < 8 by omega, show ¬ (i - 8 < 8) by omega] <;> (intros; exfalso; omega)
      · simp [h1, h2, h3, show 24 + (i - 24) = i by omega, show i - 24 < 8 by omega, show ¬ (i - 8 < 8) by omega,
              show ¬ (i - 16 < 8) by omega] <;> (intros; exfalso; omega)

theorem longRead_longWrite (v : UInt64) (rest : Bytes) : longRead (longWrite v ++ rest) = .ok (v, rest) := by
  simp only [longWrite, longRead, List.cons_append, List.nil_append]
  congr 2
  apply UInt64.eq_of_toBitVec_eq
  apply BitVec.eq_of_getLsbD_eq
  intro i hi
  simp only [UInt8.toUInt64, UInt64.toUInt8, UInt64.toBitVec_or, UInt64.toBitVec_shiftLeft, UInt64.toBitVec_shiftRight]
  simp [BitVec.getLsbD_or, BitVec.getLsbD_shiftLeft, BitVec.getLsbD_ushiftRight]
  have hm : ∀ (x k : Nat), (x % 256).testBit k = (decide (k < 8) && x.testBit k) := by
    intro x k
    rw [show 256 = 2 ^ 8 from rfl, Nat.testBit_mod_two_pow]
  simp only [BitVec.getLsbD, BitVec.toNat_umod, BitVec.toNat_ofNat, BitVec.toNat_ushiftRight] at *
  simp only [hm, Nat.testBit_shiftRight, hi, decide_true, Bool.true_and]
  show _ = v.toNat.testBit i
  by_cases h1 : i < 8
  · simp [h1, show i < 16 by omega, show i < 24 by omega, show i < 32 by omega, show i < 40 by omega, show i < 48 by omega, show i < 56 by omega]
  · by_cases h2 : i < 16
    · simp [h1, h2, show i < 24 by omega, show i < 32 by omega, show i < 40 by omega, show i < 48 by omega, show i < 56 by omega, show 8 + (i - 8) = i by omega, show i - 8 < 8 by omega]
    · by_cases h3 : i < 24
      · simp [h1, h2, h3, show i < 32 by omega, show i < 40 by omega, show i < 48 by omega, show i < 56 by omega, show ¬ (i - 8 < 8) by omega, show 16 + (i - 16) = i by omega, show i - 16 < 8 by omega]
      · by_cases h4 : i < 32
        · simp [h1, h2, h3, h4, show i < 40 by omega, show i < 48 by omega, show i < 56 by omega, show ¬ (i - 8 < 8) by omega, show ¬ (i - 16 < 8) by omega, show 24 + (i - 24) = i by omega, show i - 24 < 8 by omega]
        · by_cases h5 : i < 40
          · simp [h1, h2, h3, h4, h5, show i < 48 by omega, show i < 56 by omega, show ¬ (i - 8 < 8) by omega, show ¬ (i - 16 < 8) by omega, show ¬ (i - 24 < 8) by omega, show 32 + (i - 32) = i by omega, show i - 32 < 8 by omega]
          · by_cases h6 : i < 48
            · simp [h1, h2, h3, h4, h5, h6, show i < 56 by omega, show ¬ (i - 8 < 8) by omega, show ¬ (i - 16 < 8) by omega, show ¬ (i - 24 < 8) by omega, show ¬ (i - 32 < 8) by omega, show 40 + (i - 40) = i by omega, show i - 40 < 8 by omega]
            · by_cases h7 : i < 56
              · simp [h1, h2, h3, h4, h5, h6, h7, show ¬ (i - 8 < 8) by omega, show ¬ (i - 16 < 8) by omega, show ¬ (i - 24 < 8) by omega, show ¬ (i - 32 < 8) by omega, show ¬ (i - 40 < 8) by omega, show 48 + (i - 48) = i by omega, show i - 48 < 8 by omega]
              · simp [h1, h2, h3, h4, h5, h6, h7, show ¬ (i - 8 < 8) by omega, show ¬ (i - 16 < 8) by omega, show ¬ (i - 24 < 8) by omega, show ¬ (i - 32 < 8) by omega, show ¬ (i - 40 < 8) by omega, show ¬ (i - 48 < 8) by omega, show 56 + (i - 56) = i by omega, show i - 56 < 8 by omega]


theorem readExactTag_ok (t : UInt32) (rest : Bytes) : readExactTag t (natWrite t ++ rest) = .ok rest := by
  simp [readExactTag, natRead_natWrite]

/-- a `tls.type` entry decodes back to itself and leaves the rest of the input untouched -/
theorem type_roundtrip (t : TlsType) (bs rest : Bytes) (h : encType t = some bs) :
    decType (bs ++ rest) = .ok (t, rest) := by
  unfold encType at h
  split at h
  · contradiction
  · rename_i s hs
    simp only [Option.some.injEq] at h
    subst h
    simp only [decType, List.append_assoc, readExactTag_ok, natRead_natWrite, bind, Except.bind,
      string_roundtrip t.id _ s hs, longRead_longWrite, pure, Except.pure]

theorem types_roundtrip : ∀ (ts : List TlsType) (bs rest : Bytes), encTypes ts = some bs →
    decTypes ts.length (bs ++ rest) = .ok (ts, rest)
  | [], bs, rest, h => by
    simp only [encTypes, Option.some.injEq] at h
    subst h
    rfl
  | t :: ts, bs, rest, h => by
    unfold encTypes at h
    split at h
    · rename_i x y hx hy
      simp only [Option.some.injEq] at h
      subst h
      simp only [List.length_cons, decTypes, List.append_assoc, bind, Except.bind, type_roundtrip t x _ hx,
        types_roundtrip ts y rest hy, pure, Except.pure]
    · contradiction


/-! ### nested part: fuel measure, well-formedness, round trip -/

mutual
def dTE : TypeExpr → Nat
  | .tvar _ _ => 1
  | .array _ _ args => dArgs args + 1
  | .expr _ _ _ ch => dExprs ch + 1
def dArg : Arg → Nat
  | .mk _ _ _ _ _ t => dTE t + 1
def dArgs : List Arg → Nat
  | [] => 1
  | a :: as => max (dArg a) (dArgs as) + 1
def dExpr : Expr → Nat
  | .type e => dTE e + 1
  | .nat _ => 1
def dExprs : List Expr → Nat
  | [] => 1
  | a :: as => max (dExpr a) (dExprs as) + 1
end


theorem natExpr_roundtrip (e : NatExpr) (rest : Bytes) : decNatExpr (encNatExpr e ++ rest) = .ok (e, rest) := by
  cases e with
  | const v =>
    simp only [encNatExpr, decNatExpr, List.append_assoc, natRead_natWrite, bind, Except.bind, if_true, pure, Except.pure]
  | var d n =>
    have hne : ¬ (tNatVar = tNatConst) := by decide
    simp only [encNatExpr, decNatExpr, List.append_assoc, natRead_natWrite, bind, Except.bind, hne, if_false, if_true,
      pure, Except.pure]

theorem natWrite_length (v : UInt32) : (natWrite v).length = 4 := rfl

theorem encArg_len (a : Arg) (bs : Bytes) (h : encArg a = some bs) : 4 ≤ bs.length := by
  cases a with
  | mk id fl vn evn evb t =>
    unfold encArg at h
    split at h
    · simp only [Option.some.injEq] at h
      subst h
      simp only [List.length_append, natWrite_length]
      omega
    · contradiction

theorem encArgs_len : ∀ (as : List Arg) (bs : Bytes), encArgs as = some bs → 4 * as.length ≤ bs.length
  | [], bs, h => by simp
  | a :: as, bs, h => by
    unfold encArgs at h
    split at h
    · rename_i x y hx hy
      simp only [Option.some.injEq] at h
      subst h
      have := encArg_len a x hx
      have := encArgs_len as y hy
      simp only [List.length_append, List.length_cons]
      omega
    · contradiction

theorem encExpr_len (a : Expr) (bs : Bytes) (h : encExpr a = some bs) : 4 ≤ bs.length := by
  cases a with
  | type e =>
    unfold encExpr at h
    split at h
    · simp only [Option.some.injEq] at h
      subst h
      simp only [List.length_append, natWrite_length]
      omega
    · contradiction
  | nat e =>
    simp only [encExpr, Option.some.injEq] at h
    subst h
    simp only [List.length_append, natWrite_length]
    omega

theorem encExprs_len : ∀ (as : List Expr) (bs : Bytes), encExprs as = some bs → 4 * as.length ≤ bs.length
  | [], bs, h => by simp
  | a :: as, bs, h => by
    unfold encExprs at h
    split at h
    · rename_i x y hx hy
      simp only [Option.some.injEq] at h
      subst h
      have := encExpr_len a x hx
      have := encExprs_len as y hy
      simp only [List.length_append, List.length_cons]
      omega
    · contradiction


theorem lengthSane_of (n : UInt32) (k : Nat) (bs rest : Bytes) (hn : n.toNat = k) (hl : 4 * k ≤ bs.length) :
    lengthSane (bs ++ rest) n = true := by
  simp only [lengthSane, decide_eq_true_eq, List.length_append]
  omega

mutual
theorem rt_typeExpr : (e : TypeExpr) → ∀ (bs rest : Bytes) (fuel : Nat), encTypeExpr e = some bs → wfTE e = true →
    dTE e ≤ fuel → decTypeExpr fuel (bs ++ rest) = .ok (e, rest)
  | .tvar v f => by
    intro bs rest fuel h _ hf
    simp only [encTypeExpr, Option.some.injEq] at h
    subst h
    cases fuel with
    | zero => simp [dTE] at hf
    | succ fuel =>
      simp only [decTypeExpr, List.append_assoc, natRead_natWrite, bind, Except.bind, if_true, pure, Except.pure]
  | .array m n args => by
    intro bs rest fuel h hw hf
    unfold encTypeExpr at h
    split at h
    · contradiction
    · rename_i hn
      split at h
      · contradiction
      · rename_i a ha
        simp only [Option.some.injEq] at h
        subst h
        cases fuel with
        | zero => simp [dTE] at hf
        | succ fuel =>
          have hne : ¬ (tArray = tTypeVar) := by decide
          have hn' : n.toNat = args.length := by simpa using hn
          have hs := lengthSane_of n args.length a rest hn' (encArgs_len args a ha)
          simp only [dTE] at hf
          simp only [wfTE] at hw
          simp only [decTypeExpr, List.append_assoc, natRead_natWrite, bind, Except.bind, hne, if_false, if_true,
            natExpr_roundtrip, hs, Bool.not_true, Bool.false_eq_true, hn',
            rt_args args a rest fuel ha hw (by omega), pure, Except.pure]
  | .expr name flags n ch => by
    intro bs rest fuel h hw hf
    unfold encTypeExpr at h
    split at h
    · contradiction
    · rename_i hn
      split at h
      · contradiction
      · rename_i c hc
        simp only [Option.some.injEq] at h
        subst h
        cases fuel with
        | zero => simp [dTE] at hf
        | succ fuel =>
          have hne1 : ¬ (tTypeExpr = tTypeVar) := by decide
          have hne2 : ¬ (tTypeExpr = tArray) := by decide
          have hn' : n.toNat = ch.length := by simpa using hn
          have hs := lengthSane_of n ch.length c rest hn' (encExprs_len ch c hc)
          simp only [dTE] at hf
          simp only [wfTE] at hw
          simp only [decTypeExpr, List.append_assoc, natRead_natWrite, bind, Except.bind, hne1, hne2, if_false, if_true,
            hs, Bool.not_true, Bool.false_eq_true, hn',
            rt_exprs ch c rest fuel hc hw (by omega), pure, Except.pure]
theorem rt_arg : (a : Arg) → ∀ (bs rest : Bytes) (fuel : Nat), encArg a = some bs → wfArg a = true →
    dArg a ≤ fuel → decArg fuel (bs ++ rest) = .ok (a, rest)
  | .mk id fl vn evn evb t => by
    intro bs rest fuel h hw hf
    unfold encArg at h
    split at h
    · rename_i s tb hs ht
      simp only [Option.some.injEq] at h
      subst h
      cases fuel with
      | zero => simp [dArg] at hf
      | succ fuel =>
        simp only [dArg] at hf
        simp only [wfArg, Bool.and_eq_true, Bool.or_eq_true, beq_iff_eq] at hw
        obtain ⟨⟨hw1, hw2⟩, hw3⟩ := hw
        have hrec := rt_typeExpr t tb rest fuel ht hw3 (by omega)
        simp only [decArg, List.append_assoc, readExactTag_ok, bind, Except.bind, string_roundtrip id _ s hs,
          natRead_natWrite]
        by_cases b1 : bit1 fl = true <;> by_cases b2 : bit2 fl = true
        · simp only [b1, b2, if_true, natRead_natWrite, hrec, pure, Except.pure]
        · rcases hw2 with hw2 | ⟨e1, e2⟩
          · exact absurd hw2 b2
          · subst e1 e2
            simp only [b1, b2, if_true, if_false, Bool.false_eq_true, natRead_natWrite, List.nil_append, hrec, pure, Except.pure]
        · rcases hw1 with hw1 | e0
          · exact absurd hw1 b1
          · subst e0
            simp only [b1, b2, if_true, if_false, Bool.false_eq_true, natRead_natWrite, List.nil_append, hrec, pure, Except.pure]
        · rcases hw1 with hw1 | e0
          · exact absurd hw1 b1
          · rcases hw2 with hw2 | ⟨e1, e2⟩
            · exact absurd hw2 b2
            · subst e0 e1 e2
              simp only [b1, b2, if_false, Bool.false_eq_true, List.nil_append, hrec, pure, Except.pure]
    · contradiction
theorem rt_args : (as : List Arg) → ∀ (bs rest : Bytes) (fuel : Nat), encArgs as = some bs → wfArgs as = true →
    dArgs as ≤ fuel → decArgs fuel as.length (bs ++ rest) = .ok (as, rest)
  | [] => by
    intro bs rest fuel h _ hf
    simp only [encArgs, Option.some.injEq] at h
    subst h
    cases fuel with
    | zero => simp [dArgs] at hf
    | succ fuel => simp [decArgs]
  | a :: as => by
    intro bs rest fuel h hw hf
    unfold encArgs at h
    split at h
    · rename_i x y hx hy
      simp only [Option.some.injEq] at h
      subst h
      cases fuel with
      | zero => simp [dArgs] at hf
      | succ fuel =>
        simp only [dArgs] at hf
        simp only [wfArgs, Bool.and_eq_true] at hw
        simp only [List.length_cons, decArgs, List.append_assoc, bind, Except.bind,
          rt_arg a x _ fuel hx hw.1 (by omega), rt_args as y rest fuel hy hw.2 (by omega), pure, Except.pure]
    · contradiction
theorem rt_expr : (e : Expr) → ∀ (bs rest : Bytes) (fuel : Nat), encExpr e = some bs → wfExpr e = true →
    dExpr e ≤ fuel → decExpr fuel (bs ++ rest) = .ok (e, rest)
  | .type e => by
    intro bs rest fuel h hw hf
    unfold encExpr at h
    split at h
    · rename_i b hb
      simp only [Option.some.injEq] at h
      subst h
      cases fuel with
      | zero => simp [dExpr] at hf
      | succ fuel =>
        simp only [dExpr] at hf
        simp only [wfExpr] at hw
        simp only [decExpr, List.append_assoc, natRead_natWrite, bind, Except.bind, if_true,
          rt_typeExpr e b rest fuel hb hw (by omega), pure, Except.pure]
    · contradiction
  | .nat e => by
    intro bs rest fuel h _ hf
    simp only [encExpr, Option.some.injEq] at h
    subst h
    cases fuel with
    | zero => simp [dExpr] at hf
    | succ fuel =>
      have hne : ¬ (tExprNat = tExprType) := by decide
      simp only [decExpr, List.append_assoc, natRead_natWrite, bind, Except.bind, hne, if_false, if_true,
        natExpr_roundtrip, pure, Except.pure]
theorem rt_exprs : (as : List Expr) → ∀ (bs rest : Bytes) (fuel : Nat), encExprs as = some bs → wfExprs as = true →
    dExprs as ≤ fuel → decExprs fuel as.length (bs ++ rest) = .ok (as, rest)
  | [] => by
    intro bs rest fuel h _ hf
    simp only [encExprs, Option.some.injEq] at h
    subst h
    cases fuel with
    | zero => simp [dExprs] at hf
    | succ fuel => simp [decExprs]
  | a :: as => by
    intro bs rest fuel h hw hf
    unfold encExprs at h
    split at h
    · rename_i x y hx hy
      simp only [Option.some.injEq] at h
      subst h
      cases fuel with
      | zero => simp [dExprs] at hf
      | succ fuel =>
        simp only [dExprs] at hf
        simp only [wfExprs, Bool.and_eq_true] at hw
        simp only [List.length_cons, decExprs, List.append_assoc, bind, Except.bind,
          rt_expr a x _ fuel hx hw.1 (by omega), rt_exprs as y rest fuel hy hw.2 (by omega), pure, Except.pure]
    · contradiction
end


/-! ### the fuel `decodeSchema` uses is enough -/

theorem encNatExpr_len (e : NatExpr) : 8 ≤ (encNatExpr e).length := by
  cases e <;> simp [encNatExpr, natWrite_length] <;> omega

mutual
theorem d_typeExpr : (e : TypeExpr) → ∀ bs, encTypeExpr e = some bs → dTE e ≤ bs.length
  | .tvar v f => by
    intro bs h
    simp only [encTypeExpr, Option.some.injEq] at h
    subst h
    simp [dTE, natWrite_length]
  | .array m n args => by
    intro bs h
    unfold encTypeExpr at h
    split at h
    · contradiction
    · split at h
      · contradiction
      · rename_i a ha
        simp only [Option.some.injEq] at h
        subst h
        have := d_args args a ha
        have := encNatExpr_len m
        simp only [dTE, List.length_append, natWrite_length]
        omega
  | .expr name flags n ch => by
    intro bs h
    unfold encTypeExpr at h
    split at h
    · contradiction
    · split at h
      · contradiction
      · rename_i c hc
        simp only [Option.some.injEq] at h
        subst h
        have := d_exprs ch c hc
        simp only [dTE, List.length_append, natWrite_length]
        omega
theorem d_arg : (a : Arg) → ∀ bs, encArg a = some bs → dArg a ≤ bs.length
  | .mk id fl vn evn evb t => by
    intro bs h
    unfold encArg at h
    split at h
    · rename_i s tb hs ht
      simp only [Option.some.injEq] at h
      subst h
      have := d_typeExpr t tb ht
      simp only [dArg, List.length_append, natWrite_length]
      omega
    · contradiction
theorem d_args : (as : List Arg) → ∀ bs, encArgs as = some bs → dArgs as ≤ bs.length + 1
  | [] => by intro bs h; simp [dArgs]
  | a :: as => by
    intro bs h
    unfold encArgs at h
    split at h
    · rename_i x y hx hy
      simp only [Option.some.injEq] at h
      subst h
      have := d_arg a x hx
      have := d_args as y hy
      have := encArg_len a x hx
      simp only [dArgs, List.length_append]
      omega
    · contradiction
theorem d_expr : (e : Expr) → ∀ bs, encExpr e = some bs → dExpr e ≤ bs.length
  | .type e => by
    intro bs h
    unfold encExpr at h
    split at h
    · rename_i b hb
      simp only [Option.some.injEq] at h
      subst h
      have := d_typeExpr e b hb
      simp only [dExpr, List.length_append, natWrite_length]
      omega
    · contradiction
  | .nat e => by
    intro bs h
    simp only [encExpr, Option.some.injEq] at h
    subst h
    simp only [dExpr, List.length_append, natWrite_length]
    omega
theorem d_exprs : (as : List Expr) → ∀ bs, encExprs as = some bs → dExprs as ≤ bs.length + 1
  | [] => by intro bs h; simp [dExprs]
  | a :: as => by
    intro bs h
    unfold encExprs at h
    split at h
    · rename_i x y hx hy
      simp only [Option.some.injEq] at h
      subst h
      have := d_expr a x hx
      have := d_exprs as y hy
      have := encExpr_len a x hx
      simp only [dExprs, List.length_append]
      omega
    · contradiction
end

/-! ### combinators and the schema -/


theorem rt_left (l : Left) (bs rest : Bytes) (fuel : Nat) (h : encLeft l = some bs) (hw : wfLeft l = true)
    (hf : bs.length + 1 ≤ fuel) : decLeft fuel (bs ++ rest) = .ok (l, rest) := by
  cases l with
  | builtin =>
    simp only [encLeft, Option.some.injEq] at h
    subst h
    simp only [decLeft, natRead_natWrite, bind, Except.bind, if_true, pure, Except.pure]
  | args n as =>
    simp only [encLeft] at h
    split at h
    · contradiction
    · rename_i hn
      split at h
      · contradiction
      · rename_i a ha
        simp only [Option.some.injEq] at h
        subst h
        have hne : ¬ (tLeft = tLeftBuiltin) := by decide
        have hn' : n.toNat = as.length := by simpa using hn
        have hs := lengthSane_of n as.length a rest hn' (encArgs_len as a ha)
        have hd := d_args as a ha
        simp only [List.length_append, natWrite_length] at hf
        simp only [wfLeft] at hw
        simp only [decLeft, List.append_assoc, natRead_natWrite, bind, Except.bind, hne, if_false, if_true, hs,
          Bool.not_true, Bool.false_eq_true, hn', rt_args as a rest fuel ha hw (by omega), pure, Except.pure]

theorem encLeft_len (l : Left) (bs : Bytes) (h : encLeft l = some bs) : 4 ≤ bs.length := by
  cases l with
  | builtin => simp only [encLeft, Option.some.injEq] at h; subst h; simp [natWrite_length]
  | args n as =>
    simp only [encLeft] at h
    split at h
    · contradiction
    · split at h
      · contradiction
      · simp only [Option.some.injEq] at h
        subst h
        simp only [List.length_append, natWrite_length]
        omega

theorem rt_combinator (c : Combinator) (bs rest : Bytes) (fuel : Nat) (h : encCombinator c = some bs)
    (hw : wfCombinator c = true) (hf : bs.length + 1 ≤ fuel) : decCombinator fuel (bs ++ rest) = .ok (c, rest) := by
  cases c with
  | v0 name id tn l r =>
    simp only [encCombinator] at h
    split at h
    · rename_i s lb rb hs hl hr
      simp only [Option.some.injEq] at h
      subst h
      simp only [wfCombinator, Bool.and_eq_true] at hw
      simp only [List.length_append, natWrite_length] at hf
      have hd := d_typeExpr r rb hr
      simp only [decCombinator, List.append_assoc, natRead_natWrite, bind, Except.bind, if_true,
        string_roundtrip id _ s hs, rt_left l lb _ fuel hl hw.1 (by omega), readExactTag_ok,
        rt_typeExpr r rb rest fuel hr hw.2 (by omega), pure, Except.pure]
    · contradiction
  | v4 name id tn l r fl =>
    simp only [encCombinator] at h
    split at h
    · rename_i s lb rb hs hl hr
      simp only [Option.some.injEq] at h
      subst h
      simp only [wfCombinator, Bool.and_eq_true] at hw
      simp only [List.length_append, natWrite_length] at hf
      have hd := d_typeExpr r rb hr
      have hne : ¬ (tCombinatorV4 = tCombinator) := by decide
      simp only [decCombinator, List.append_assoc, natRead_natWrite, bind, Except.bind, hne, if_false, if_true,
        string_roundtrip id _ s hs, rt_left l lb _ fuel hl hw.1 (by omega), readExactTag_ok,
        rt_typeExpr r rb _ fuel hr hw.2 (by omega), pure, Except.pure]
    · contradiction

theorem encCombinator_len (c : Combinator) (bs : Bytes) (h : encCombinator c = some bs) : 4 ≤ bs.length := by
  cases c <;> (simp only [encCombinator] at h; split at h) <;> first
    | contradiction
    | (simp only [Option.some.injEq] at h; subst h; simp only [List.length_append, natWrite_length]; omega)

theorem rt_combinators : ∀ (cs : List Combinator) (bs rest : Bytes) (fuel : Nat), encCombinators cs = some bs →
    cs.all wfCombinator = true → bs.length + 1 ≤ fuel →
    decCombinators fuel cs.length (bs ++ rest) = .ok (cs, rest) ∧ 4 * cs.length ≤ bs.length
  | [], bs, rest, fuel, h, _, _ => by
    simp only [encCombinators, Option.some.injEq] at h
    subst h
    exact ⟨rfl, by simp⟩
  | c :: cs, bs, rest, fuel, h, hw, hf => by
    unfold encCombinators at h
    split at h
    · rename_i x y hx hy
      simp only [Option.some.injEq] at h
      subst h
      simp only [List.all_cons, Bool.and_eq_true] at hw
      simp only [List.length_append] at hf
      obtain ⟨ih, il⟩ := rt_combinators cs y rest fuel hy hw.2 (by omega)
      have := encCombinator_len c x hx
      refine ⟨?_, by simp only [List.length_append, List.length_cons]; omega⟩
      simp only [List.length_cons, decCombinators, List.append_assoc, bind, Except.bind,
        rt_combinator c x _ fuel hx hw.1 (by omega), ih, pure, Except.pure]
    · contradiction

theorem encType_len (t : TlsType) (bs : Bytes) (h : encType t = some bs) : 4 ≤ bs.length := by
  unfold encType at h
  split at h
  · contradiction
  · simp only [Option.some.injEq] at h
    subst h
    simp only [List.length_append, natWrite_length]
    omega

theorem encTypes_len : ∀ (ts : List TlsType) (bs : Bytes), encTypes ts = some bs → 4 * ts.length ≤ bs.length
  | [], bs, h => by simp
  | t :: ts, bs, h => by
    unfold encTypes at h
    split at h
    · rename_i x y hx hy
      simp only [Option.some.injEq] at h
      subst h
      have := encType_len t x hx
      have := encTypes_len ts y hy
      simp only [List.length_append, List.length_cons]
      omega
    · contradiction

/-- `ReadTL1Boxed (WriteTL1Boxed s) = s`, leaving any trailing input untouched -/
theorem schema_roundtrip (s : SchemaV4) (bs rest : Bytes) (h : encSchema s = some bs) (hw : wfSchema s = true) :
    decodeSchema (bs ++ rest) = .ok (s, rest) := by
  unfold encSchema at h
  split at h
  · contradiction
  · rename_i h1
    split at h
    · contradiction
    · rename_i h2
      split at h
      · contradiction
      · rename_i h3
        split at h
        · rename_i t c f ht hc hf
          simp only [Option.some.injEq] at h
          subst h
          have h1' : s.typesNum.toNat = s.types.length := by simpa using h1
          have h2' : s.constructorNum.toNat = s.constructors.length := by simpa using h2
          have h3' : s.functionsNum.toNat = s.functions.length := by simpa using h3
          simp only [wfSchema, Bool.and_eq_true] at hw
          obtain ⟨rc, lc⟩ := rt_combinators s.constructors c (natWrite s.functionsNum ++ (f ++ rest))
            ((natWrite tSchemaV4 ++ natWrite s.version ++ natWrite s.date ++ natWrite s.typesNum ++ t
              ++ natWrite s.constructorNum ++ c ++ natWrite s.functionsNum ++ f ++ rest).length + 1) hc hw.1
            (by simp only [List.length_append]; omega)
          obtain ⟨rf, lf⟩ := rt_combinators s.functions f rest
            ((natWrite tSchemaV4 ++ natWrite s.version ++ natWrite s.date ++ natWrite s.typesNum ++ t
              ++ natWrite s.constructorNum ++ c ++ natWrite s.functionsNum ++ f ++ rest).length + 1) hf hw.2
            (by simp only [List.length_append]; omega)
          have s1 := lengthSane_of s.typesNum s.types.length t
            (natWrite s.constructorNum ++ (c ++ (natWrite s.functionsNum ++ (f ++ rest)))) h1' (encTypes_len _ _ ht)
          have s2 := lengthSane_of s.constructorNum s.constructors.length c
            (natWrite s.functionsNum ++ (f ++ rest)) h2' lc
          have s3 := lengthSane_of s.functionsNum s.functions.length f rest h3' lf
          simp only [List.append_assoc] at rc rf
          simp only [decodeSchema, decSchema, List.append_assoc, readExactTag_ok, natRead_natWrite, bind, Except.bind,
            s1, s2, s3, Bool.not_true, Bool.false_eq_true, if_false, h1', h2', h3',
            types_roundtrip s.types t _ ht, rc, rf, pure, Except.pure]
        · contradiction

end TLVerif.Tlomig
