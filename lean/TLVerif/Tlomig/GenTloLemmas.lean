import TLVerif.Tlomig.GenTlo
/-! Lemmas about the `GenerateTLO` model: combinator headers, insertion sort, the `tlsTypes` fold. -/
namespace TLVerif.Tlomig
open TLVerif.Prim

/-- what the property statement calls "its tag and name" -/
def hdr (c : Combinator) : UInt32 × Bytes := (c.name, c.id)

def combHdr (c : Comb) : UInt32 × Bytes := (c.tag, strBytes c.name)

/-- the header under which a combinator of the schema is listed among the constructors (builtins are replaced) -/
def ctorEntry (c : Comb) : Option (UInt32 × Bytes) :=
  match builtinTag c.name with
  | some t => some (t, strBytes c.name)
  | none => if c.isFunction then none else some (combHdr c)

def funEntry (c : Comb) : Option (UInt32 × Bytes) :=
  match builtinTag c.name with
  | some _ => none
  | none => if c.isFunction then some (combHdr c) else none

theorem convComb_hdr (env : Env) (c : Comb) (x : Combinator) (h : convComb env c = .ok x) :
    hdr x = combHdr c := by
  unfold convComb at h
  simp only at h
  split at h
  · contradiction
  · split at h
    · contradiction
    · simp only [Except.ok.injEq] at h
      subst h
      rfl

theorem builtinComb_hdr (n : String) (b : Combinator) (h : builtinComb n = some b) :
    ∃ t, builtinTag n = some t ∧ hdr b = (t, strBytes n) := by
  unfold builtinComb at h
  split at h
  · rename_i t ht
    simp only [Option.some.injEq] at h
    subst h
    exact ⟨t, ht, rfl⟩
  · contradiction

theorem builtinComb_none (n : String) (h : builtinComb n = none) : builtinTag n = none := by
  unfold builtinComb at h
  split at h
  · contradiction
  · assumption

theorem convAll_hdrs (env : Env) : ∀ (cs : List Comb) (k f : List Combinator), convAll env cs = .ok (k, f) →
    k.map hdr = cs.filterMap ctorEntry ∧ f.map hdr = cs.filterMap funEntry
  | [], k, f, h => by
    simp only [convAll, Except.ok.injEq, Prod.mk.injEq] at h
    obtain ⟨h1, h2⟩ := h
    subst h1 h2
    simp
  | c :: cs, k, f, h => by
    unfold convAll at h
    split at h
    · rename_i b hb
      obtain ⟨t, ht, hh⟩ := builtinComb_hdr _ _ hb
      split at h
      · contradiction
      · rename_i k' f' hrec
        simp only [Except.ok.injEq, Prod.mk.injEq] at h
        obtain ⟨h1, h2⟩ := h
        subst h1 h2
        obtain ⟨ih1, ih2⟩ := convAll_hdrs env cs k' f' hrec
        constructor
        · simp [List.filterMap_cons, ctorEntry, ht, hh, ih1]
        · simp [List.filterMap_cons, funEntry, ht, ih2]
    · rename_i hb
      have hn := builtinComb_none _ hb
      split at h
      · contradiction
      · rename_i x hx
        have hxh := convComb_hdr env c x hx
        split at h
        · contradiction
        · rename_i k' f' hrec
          obtain ⟨ih1, ih2⟩ := convAll_hdrs env cs k' f' hrec
          split at h
          · rename_i hf
            simp only [Except.ok.injEq, Prod.mk.injEq] at h
            obtain ⟨h1, h2⟩ := h
            subst h1 h2
            constructor
            · simp [List.filterMap_cons, ctorEntry, hn, hf, ih1]
            · simp [List.filterMap_cons, funEntry, hn, hf, hxh, ih2]
          · rename_i hf
            simp only [Except.ok.injEq, Prod.mk.injEq] at h
            obtain ⟨h1, h2⟩ := h
            subst h1 h2
            constructor
            · simp [List.filterMap_cons, ctorEntry, hn, hf, hxh, ih1]
            · simp [List.filterMap_cons, funEntry, hn, hf, ih2]

/-! ### insertion sort is a permutation -/

theorem insertBy_perm {α : Type} (lt : α → α → Bool) (x : α) : ∀ l : List α, (insertBy lt x l).Perm (x :: l)
  | [] => List.Perm.refl _
  | y :: ys => by
    unfold insertBy
    split
    · exact List.Perm.refl _
    · exact ((insertBy_perm lt x ys).cons y).trans (List.Perm.swap x y ys)

theorem sortBy_perm {α : Type} (lt : α → α → Bool) : ∀ l : List α, (sortBy lt l).Perm l
  | [] => List.Perm.refl _
  | x :: xs => by
    unfold sortBy
    exact (insertBy_perm lt x _).trans ((sortBy_perm lt xs).cons x)

def isCtorOf (T : String) (c : Comb) : Bool := !c.isFunction && c.typeName == T
def ctorsOf (cs : Schema) (T : String) : List Comb := cs.filter (isCtorOf T)
def applyAll (l : List Comb) (t : TlsType) : TlsType := l.foldl (fun t c => updType c t) t
def xorTags (l : List Comb) : UInt32 := l.foldl (fun a c => a ^^^ c.tag) 0

theorem lookupType_nil (T : String) : lookupType [] T = none := rfl

theorem lookupType_cons (k : String) (v : TlsType) (m : TypeMap) (T : String) :
    lookupType ((k, v) :: m) T = if k == T then some v else lookupType m T := by
  unfold lookupType
  simp only [List.find?_cons]
  by_cases h : (k == T) = true
  · simp [h]
  · simp [h]

theorem lookupType_append (m : TypeMap) (K : String) (v : TlsType) (T : String) :
    lookupType (m ++ [(K, v)]) T =
      match lookupType m T with
      | some t => some t
      | none => if K == T then some v else none := by
  induction m with
  | nil => simp [lookupType_cons, lookupType_nil]
  | cons kv m ih =>
    obtain ⟨k, w⟩ := kv
    simp only [List.cons_append, lookupType_cons]
    by_cases h : (k == T) = true
    · simp [h]
    · simp [h, ih]

theorem lookupType_mapUpd (m : TypeMap) (K : String) (g : TlsType → TlsType) (T : String) :
    lookupType (m.map (fun kv => if kv.1 == K then (kv.1, g kv.2) else kv)) T =
      if T == K then (lookupType m T).map g else lookupType m T := by
  induction m with
  | nil => simp [lookupType_nil]
  | cons kv m ih =>
    obtain ⟨k, w⟩ := kv
    simp only [List.map_cons]
    cases hk : (k == K) <;> cases h : (k == T)
    · simp only [Bool.false_eq_true, if_false, lookupType_cons, h]
      exact ih
    · have hkT : k = T := by simpa using h
      have : (T == K) = false := by rw [← hkT]; exact hk
      simp [lookupType_cons, h, this]
    · simp only [if_true, lookupType_cons, h, Bool.false_eq_true, if_false]
      exact ih
    · have hkT : k = T := by simpa using h
      have : (T == K) = true := by rw [← hkT]; exact hk
      simp [lookupType_cons, h, this]

theorem lookup_typesStep (m : TypeMap) (c : Comb) (T : String) :
    lookupType (typesStep m c) T =
      if isCtorOf T c then some (updType c ((lookupType m T).getD (freshType c))) else lookupType m T := by
  unfold typesStep isCtorOf
  by_cases hf : c.isFunction = true
  · simp [hf]
  · simp only [hf, if_false, Bool.not_false, Bool.true_and, Bool.false_eq_true]
    rw [lookupType_mapUpd]
    by_cases hT : (c.typeName == T) = true
    · have hT' : (T == c.typeName) = true := by simp only [beq_iff_eq] at hT ⊢; exact hT.symm
      have hTe : c.typeName = T := by simpa using hT
      simp only [hT, hT', if_true]
      cases hl : lookupType m c.typeName with
      | some t => rw [← hTe]; simp [hl]
      | none =>
        simp only [Option.isSome_none, Bool.false_eq_true, if_false]
        rw [← hTe, lookupType_append, hl]
        simp
    · have hT' : ¬ (T == c.typeName) = true := by
        simp only [beq_iff_eq] at hT ⊢; exact fun h => hT h.symm
      simp only [hT, hT', if_false, Bool.false_eq_true]
      split
      · rfl
      · rw [lookupType_append]
        cases lookupType m T with
        | some t => rfl
        | none => simp [hT]

theorem lookup_fold (cs : Schema) : ∀ (m : TypeMap) (T : String),
    lookupType (cs.foldl typesStep m) T =
      match lookupType m T with
      | some t0 => some (applyAll (ctorsOf cs T) t0)
      | none =>
        match ctorsOf cs T with
        | [] => none
        | c :: rest => some (applyAll (c :: rest) (freshType c)) := by
  induction cs with
  | nil => intro m T; simp [ctorsOf, applyAll]; cases lookupType m T <;> rfl
  | cons c cs ih =>
    intro m T
    simp only [List.foldl_cons]
    rw [ih, lookup_typesStep]
    by_cases hc : isCtorOf T c = true
    · have e : ctorsOf (c :: cs) T = c :: ctorsOf cs T := by simp [ctorsOf, hc]
      simp only [hc, if_true, e]
      cases lookupType m T with
      | some t0 => simp [applyAll]
      | none => simp [applyAll]
    · have e : ctorsOf (c :: cs) T = ctorsOf cs T := by simp [ctorsOf, hc]
      simp only [hc, e]
      rfl


/-! ### what the fold does to one entry -/

theorem applyAll_name (l : List Comb) : ∀ t : TlsType, (applyAll l t).name = l.foldl (fun a c => a ^^^ c.tag) t.name := by
  induction l with
  | nil => intro t; rfl
  | cons c l ih => intro t; simp only [applyAll, List.foldl_cons] at ih ⊢; rw [ih]; rfl

theorem applyAll_fixed (l : List Comb) : ∀ t : TlsType,
    (applyAll l t).id = t.id ∧ (applyAll l t).arity = t.arity ∧ (applyAll l t).paramsType = t.paramsType := by
  induction l with
  | nil => intro t; exact ⟨rfl, rfl, rfl⟩
  | cons c l ih => intro t; simp only [applyAll, List.foldl_cons] at ih ⊢; exact ih (updType c t)

theorem u32_succ (n : Nat) : u32 (n + 1) = u32 n + 1 := by
  unfold u32
  apply UInt32.toNat_inj.mp
  simp [UInt32.toNat_add, Nat.add_mod]

theorem applyAll_count (l : List Comb) : ∀ t : TlsType,
    (applyAll l t).constructorsNum = t.constructorsNum + u32 l.length := by
  induction l with
  | nil => intro t; simp [applyAll, u32]
  | cons c l ih =>
    intro t
    simp only [applyAll, List.foldl_cons, List.length_cons] at ih ⊢
    rw [ih, u32_succ]
    show t.constructorsNum + 1 + u32 l.length = t.constructorsNum + (u32 l.length + 1)
    rw [UInt32.add_assoc, UInt32.add_comm 1]

/-! ### keys of the map -/

def keys (m : TypeMap) : List String := m.map (·.1)

theorem lookup_none_iff (m : TypeMap) (K : String) : lookupType m K = none ↔ K ∉ keys m := by
  induction m with
  | nil => simp [lookupType_nil, keys]
  | cons kv m ih =>
    obtain ⟨k, v⟩ := kv
    rw [lookupType_cons]
    cases h : (k == K)
    · have : ¬ k = K := by simpa using h
      simp only [Bool.false_eq_true, if_false, ih, keys, List.map_cons, List.mem_cons, not_or]
      exact ⟨fun hh => ⟨fun e => this e.symm, hh⟩, fun hh => hh.2⟩
    · have : k = K := by simpa using h
      simp [keys, this]

theorem keys_mapUpd (m : TypeMap) (K : String) (g : TlsType → TlsType) :
    keys (m.map (fun kv => if kv.1 == K then (kv.1, g kv.2) else kv)) = keys m := by
  induction m with
  | nil => rfl
  | cons kv m ih =>
    simp only [keys, List.map_cons] at ih ⊢
    rw [ih]
    split <;> rfl

theorem keys_typesStep_nodup (m : TypeMap) (c : Comb) (h : (keys m).Nodup) : (keys (typesStep m c)).Nodup := by
  unfold typesStep
  split
  · exact h
  · simp only
    rw [keys_mapUpd]
    split
    · exact h
    · rename_i hs
      have hn : lookupType m c.typeName = none := by
        cases hl : lookupType m c.typeName with
        | none => rfl
        | some t => simp [hl] at hs
      have := (lookup_none_iff m c.typeName).mp hn
      simp only [keys, List.map_append, List.map_cons, List.map_nil]
      rw [List.nodup_append]
      refine ⟨h, by simp, ?_⟩
      intro a ha b hb
      simp only [List.mem_singleton] at hb
      subst hb
      intro e
      subst e
      exact this ha

theorem keys_fold_nodup (cs : Schema) : ∀ m : TypeMap, (keys m).Nodup → (keys (cs.foldl typesStep m)).Nodup := by
  induction cs with
  | nil => intro m h; exact h
  | cons c cs ih => intro m h; exact ih _ (keys_typesStep_nodup m c h)

theorem keys_buildTypes_nodup (cs : Schema) : (keys (buildTypes cs)).Nodup := by
  apply keys_fold_nodup
  decide

theorem mem_lookup (m : TypeMap) (h : (keys m).Nodup) (k : String) (t : TlsType) (hm : (k, t) ∈ m) :
    lookupType m k = some t := by
  induction m with
  | nil => cases hm
  | cons kv m ih =>
    obtain ⟨k', v⟩ := kv
    simp only [keys, List.map_cons, List.nodup_cons] at h
    rw [lookupType_cons]
    rcases List.mem_cons.mp hm with e | hm'
    · simp only [Prod.mk.injEq] at e
      obtain ⟨e1, e2⟩ := e
      subst e1 e2
      simp
    · have hne : ¬ k' = k := by
        intro e; subst e
        exact h.1 (List.mem_map.mpr ⟨(k', t), hm', rfl⟩)
      have : (k' == k) = false := by simpa using hne
      simp only [this, Bool.false_eq_true, if_false]
      exact ih h.2 hm'

theorem lookup_mem (m : TypeMap) (k : String) (t : TlsType) (h : lookupType m k = some t) : (k, t) ∈ m := by
  induction m with
  | nil => simp [lookupType_nil] at h
  | cons kv m ih =>
    obtain ⟨k', v⟩ := kv
    rw [lookupType_cons] at h
    cases hk : (k' == k)
    · simp only [hk, Bool.false_eq_true, if_false] at h
      exact List.mem_cons_of_mem _ (ih h)
    · simp only [hk, if_true, Option.some.injEq] at h
      have : k' = k := by simpa using hk
      subst this h
      exact List.mem_cons_self

/-! ### insertion sort sorts (byte-wise order is asymmetric and transitive) -/

theorem bytesLt_asymm : ∀ (a b : Bytes), bytesLt a b = true → bytesLt b a = false
  | [], [], h => by simp [bytesLt] at h
  | [], _ :: _, _ => by simp [bytesLt]
  | _ :: _, [], h => by simp [bytesLt] at h
  | x :: xs, y :: ys, h => by
    simp only [bytesLt] at h ⊢
    by_cases h1 : x < y
    · have h2 : ¬ y < x := by
        intro h2; exact absurd (UInt8.lt_trans h1 h2) (UInt8.lt_irrefl x)
      simp [h2, h1]
    · by_cases h2 : y < x
      · simp [h1, h2] at h
      · simp only [h1, h2, if_false] at h ⊢
        exact bytesLt_asymm xs ys h

theorem bytesLt_trans : ∀ (a b c : Bytes), bytesLt a b = true → bytesLt b c = true → bytesLt a c = true
  | [], [], _, h, _ => by simp [bytesLt] at h
  | [], _ :: _, [], _, h => by simp [bytesLt] at h
  | [], _ :: _, _ :: _, _, _ => by simp [bytesLt]
  | _ :: _, [], _, h, _ => by simp [bytesLt] at h
  | _ :: _, _ :: _, [], _, h => by simp [bytesLt] at h
  | x :: xs, y :: ys, z :: zs, h1, h2 => by
    simp only [bytesLt] at h1 h2 ⊢
    by_cases a1 : x < y
    · by_cases b1 : y < z
      · simp [UInt8.lt_trans a1 b1]
      · by_cases b2 : z < y
        · simp [b1, b2] at h2
        · have : y = z := UInt8.le_antisymm (UInt8.not_lt.mp b2) (UInt8.not_lt.mp b1)
          subst this
          simp [a1]
    · by_cases a2 : y < x
      · simp [a1, a2] at h1
      · have : x = y := UInt8.le_antisymm (UInt8.not_lt.mp a2) (UInt8.not_lt.mp a1)
        subst this
        simp only [a1, if_false] at h1
        by_cases b1 : x < z
        · simp [b1]
        · by_cases b2 : z < x
          · simp [b1, b2] at h2
          · simp only [b1, b2, if_false] at h2 ⊢
            exact bytesLt_trans xs ys zs h1 h2

def sortedBy {α : Type} (lt : α → α → Bool) (l : List α) : Prop := l.Pairwise (fun a b => lt b a = false)

theorem insertBy_sorted {α : Type} (lt : α → α → Bool)
    (asymm : ∀ a b, lt a b = true → lt b a = false)
    (trans : ∀ a b c, lt a b = true → lt b c = true → lt a c = true)
    (x : α) : ∀ l : List α, sortedBy lt l → sortedBy lt (insertBy lt x l)
  | [], _ => by simp [insertBy, sortedBy]
  | y :: ys, h => by
    unfold insertBy
    simp only [sortedBy, List.pairwise_cons] at h
    split
    · rename_i hxy
      simp only [sortedBy, List.pairwise_cons]
      refine ⟨?_, h⟩
      intro z hz
      rcases List.mem_cons.mp hz with e | hz
      · subst e; exact asymm _ _ hxy
      · cases hzx : lt z x with
        | false => rfl
        | true =>
          have := trans z x y hzx hxy
          rw [h.1 z hz] at this
          cases this
    · rename_i hxy
      have ih := insertBy_sorted lt asymm trans x ys h.2
      simp only [sortedBy, List.pairwise_cons]
      refine ⟨?_, ih⟩
      intro z hz
      have hz' := (insertBy_perm lt x ys).mem_iff.mp hz
      rcases List.mem_cons.mp hz' with e | hz'
      · subst e; simpa using hxy
      · exact h.1 z hz'

theorem sortBy_sorted {α : Type} (lt : α → α → Bool)
    (asymm : ∀ a b, lt a b = true → lt b a = false)
    (trans : ∀ a b c, lt a b = true → lt b c = true → lt a c = true) :
    ∀ l : List α, sortedBy lt (sortBy lt l)
  | [] => by simp [sortBy, sortedBy]
  | x :: xs => by
    unfold sortBy
    exact insertBy_sorted lt asymm trans x _ (sortBy_sorted lt asymm trans xs)


/-! ### the parameter-kind word, bit by bit -/

theorem one_shl_testBit (k i : Nat) (hk : k < 64) :
    ((1 : UInt64) <<< (UInt64.ofNat k)).toNat.testBit i = decide (i = k) := by
  have h1 : (UInt64.ofNat k).toNat = k := by simp [UInt64.toNat_ofNat']; omega
  simp only [UInt64.toNat_shiftLeft, h1, UInt64.toNat_one, Nat.mod_eq_of_lt hk]
  rw [Nat.testBit_mod_two_pow, Nat.one_shiftLeft, Nat.testBit_two_pow]
  by_cases e : i = k
  · subst e; simp [hk]
  · have : ¬ k = i := fun h => e h.symm
    simp [e, this]

theorem head_bit (b : Bool) (k i : Nat) :
    (if (b && decide (k < 64)) = true then (1 : UInt64) <<< UInt64.ofNat k else 0).toNat.testBit i =
      (b && decide (k < 64) && decide (i = k)) := by
  split
  · rename_i hc
    simp only [Bool.and_eq_true, decide_eq_true_eq] at hc
    rw [one_shl_testBit k i hc.2]; simp [hc.1, hc.2]
  · rename_i hc
    have : (b && decide (k < 64)) = false := by simpa using hc
    simp [this]

/-- parameter kinds: bit `i` of the word is set iff the template argument at position `i - k` exists and is `#` -/
theorem paramsTypeOf_testBit : ∀ (targs : List TemplateArg) (k i : Nat), i < 64 →
    (paramsTypeOf targs k).toNat.testBit i =
      (decide (k ≤ i) && ((targs[i - k]?).map (·.isNat)).getD false)
  | [], k, i, _ => by simp [paramsTypeOf]
  | a :: as, k, i, hi => by
    simp only [paramsTypeOf, UInt64.toNat_or, Nat.testBit_or]
    rw [paramsTypeOf_testBit as (k + 1) i hi, head_bit]
    by_cases hk : k ≤ i
    · by_cases e : i = k
      · subst e
        have : ¬ (i + 1 ≤ i) := by omega
        simp [hi, this]
      · have h2 : k + 1 ≤ i := by omega
        have h3 : i - k = (i - (k + 1)) + 1 := by omega
        simp [hk, h2, h3, e]
    · have h2 : ¬ (k + 1 ≤ i) := by omega
      have e : ¬ i = k := by omega
      simp [hk, h2, e]

end TLVerif.Tlomig
