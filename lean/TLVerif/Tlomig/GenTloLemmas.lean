import TLVerif.Tlomig.GenTlo
namespace TLVerif.Tlomig
end TLVerif.Tlomig
