/-!
S-expressions without spaces used on the `tlomig.*` case lines: an atom is a maximal run of characters other
than `(`, `)`, `,`; a node is `(` items separated by `,` `)`.  The empty string is written `~`.
Core only (linked into the driver).
-/
namespace TLVerif.Tlomig

inductive Sexp where
  | atom (s : String)
  | node (l : List Sexp)
  deriving Inhabited

namespace Sexp

/-- push a finished item onto the innermost open list, or finish if no list is open -/
def parseLoop : List Char → List Char → List (List Sexp) → Option Sexp → Option Sexp
  | [], cur, stack, done =>
    match cur, stack, done with
    | [], [], some r => some r
    | c :: cs, [], none => some (.atom (String.ofList (c :: cs).reverse))
    | _, _, _ => none
  | ch :: rest, cur, stack, done =>
    if done.isSome then none else
    if ch = '(' then
      if cur.isEmpty then parseLoop rest [] ([] :: stack) none else none
    else if ch = ',' then
      match stack with
      | [] => none
      | top :: st =>
        if cur.isEmpty then parseLoop rest [] (top :: st) none
        else parseLoop rest [] ((.atom (String.ofList cur.reverse) :: top) :: st) none
    else if ch = ')' then
      match stack with
      | [] => none
      | top :: st =>
        let top := if cur.isEmpty then top else (.atom (String.ofList cur.reverse) :: top)
        let nd := Sexp.node top.reverse
        match st with
        | [] => parseLoop rest [] [] (some nd)
        | t2 :: st2 => parseLoop rest [] ((nd :: t2) :: st2) none
    else parseLoop rest (ch :: cur) stack none

def parse (s : String) : Option Sexp := parseLoop s.toList [] [] none

mutual
def printTo : Sexp → String → String
  | .atom s, acc => acc ++ (if s.isEmpty then "~" else s)
  | .node l, acc => (printListTo l true (acc.push '(')).push ')'
def printListTo : List Sexp → Bool → String → String
  | [], _, acc => acc
  | x :: xs, first, acc => printListTo xs false (printTo x (if first then acc else acc.push ','))
end

def print (s : Sexp) : String := printTo s ""

/-- atom text with `~` standing for the empty string -/
def str? : Sexp → Option String
  | .atom s => some (if s == "~" then "" else s)
  | _ => none

def nat? : Sexp → Option Nat
  | .atom s => s.toNat?
  | _ => none

def bool? : Sexp → Option Bool
  | .atom s => if s == "1" then some true else if s == "0" then some false else none
  | _ => none

def list? : Sexp → Option (List Sexp)
  | .node l => some l
  | _ => none

def ofStr (s : String) : Sexp := .atom s
def ofNat (n : Nat) : Sexp := .atom (toString n)
def ofBool (b : Bool) : Sexp := .atom (if b then "1" else "0")

end Sexp
end TLVerif.Tlomig
