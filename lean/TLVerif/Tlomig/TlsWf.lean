import TLVerif.Tlomig.Tls
/-! Decidable well-formedness of a `tls.schema_v4` value: what every reader produces and `GenerateTLO` builds
(conditional `tls.arg` fields are zero when their flag bit is clear).  Evaluated by the driver per generated schema. -/
namespace TLVerif.Tlomig

mutual
/-- conditional fields of `tls.arg` are zero when their flag bit is clear (what every reader produces) -/
def wfTE : TypeExpr → Bool
  | .tvar _ _ => true
  | .array _ _ args => wfArgs args
  | .expr _ _ _ ch => wfExprs ch
def wfArg : Arg → Bool
  | .mk _ fl vn evn evb t => (bit1 fl || vn == 0) && (bit2 fl || (evn == 0 && evb == 0)) && wfTE t
def wfArgs : List Arg → Bool
  | [] => true
  | a :: as => wfArg a && wfArgs as
def wfExpr : Expr → Bool
  | .type e => wfTE e
  | .nat _ => true
def wfExprs : List Expr → Bool
  | [] => true
  | a :: as => wfExpr a && wfExprs as
end

def wfLeft : Left → Bool
  | .builtin => true
  | .args _ as => wfArgs as

def wfCombinator : Combinator → Bool
  | .v0 _ _ _ l r => wfLeft l && wfTE r
  | .v4 _ _ _ l r _ => wfLeft l && wfTE r

def wfSchema (s : SchemaV4) : Bool := s.constructors.all wfCombinator && s.functions.all wfCombinator

end TLVerif.Tlomig
