import TLVerif.Util.Hex
import TLVerif.Tlomig.GenTlo
import TLVerif.Tlomig.Mig
import TLVerif.Tlomig.TlsWf
/-! Line-protocol handler of the `tlomig` family (C26 TLO, C27 migration): every line is a self-contained case. -/
namespace TLVerif.Tlomig
open TLVerif.Util TLVerif.Prim

def gerrStr : GErr → String
  | .err => "err tlo"
  | .collision => "err collision"
  | .panic => "panic"

def handleTlo (ts : String) (ast : String) : String :=
  match ts.toNat?, Sexp.parse ast with
  | some ts, some sx =>
    match schemaOfSexp sx with
    | none => "bad-op"
    | some cs =>
      if ts ≥ 4294967296 then "bad-op" else
      match generateTLO (UInt32.ofNat ts) 0 cs with
      | .error e => gerrStr e
      | .ok out =>
        match encSchema out with
        | none => "err write"
        | some bs =>
          -- per-instance certificate of the byte round trip for the whole value (proved in general for type entries)
          let desc := (out.toSexp (ts == 0)).print
          if !wfSchema out then "ok " ++ hexOfBytes bs ++ " MODEL-NOT-WF" else
          match decodeSchema bs with
          | .ok (back, []) =>
            if (back.toSexp (ts == 0)).print == desc && encSchema back == some bs then "ok " ++ hexOfBytes bs ++ " " ++ desc
            else "ok " ++ hexOfBytes bs ++ " MODEL-ROUNDTRIP-DIFFERS"
          | _ => "ok " ++ hexOfBytes bs ++ " MODEL-DECODE-FAILS"
  | _, _ => "bad-op"

def handleTlsrt (h : String) : String :=
  match bytesOfHex h with
  | none => "bad-op"
  | some r =>
    match decodeSchema r with
    | .error .eof => "err eof"
    | .error _ => "err rej"
    | .ok (s, rest) =>
      match encSchema s with
      | none => "err write"
      | some bs => s!"ok {r.length - rest.length} {hexOfBytes bs} {(s.toSexp false).print}"

def handleEquiv (d1 d2 : String) : String :=
  match (Sexp.parse d1).bind descOfSx, (Sexp.parse d2).bind descOfSx with
  | some a, some b => if tl2Equiv a b then "ok true" else "ok false"
  | _, _ => "bad-op"

/-- diagnostic: the pairs of the candidate relation whose nodes do not match -/
def handleEquivWhy (d1 d2 : String) : String :=
  match (Sexp.parse d1).bind descOfSx, (Sexp.parse d2).bind descOfSx with
  | some a, some b =>
    let R := candidateRel a b
    let bad := R.filter (fun p =>
      match a.node p.1, b.node p.2 with
      | some n, some m => !nodesMatch R n m
      | _, _ => true)
    "ok " ++ ",".intercalate (bad.map (fun p => s!"{p.1}:{p.2}")) ++ (if R.contains (a.root, b.root) then "" else " root-missing")
  | _, _ => "bad-op"

def handleMig (d1 d2 v full : String) : String :=
  match (Sexp.parse d1).bind descOfSx, (Sexp.parse d2).bind descOfSx, (Sexp.parse v).bind valOfSx with
  | some a, some b, some val =>
    match writeTL2 a a.root false val, writeJson a a.root val with
    | some bs, some js =>
      let cmp := if full == "1" then (if tl2Equiv a b then "same" else "nonequiv") else "skip"
      s!"ok {hexOfBytes bs} {hexOfBytes js.toUTF8.toList} {cmp}"
    | _, _ => "err shape1"
  | _, _, _ => "bad-op"

def handle (op : String) (args : List String) : String :=
  match op, args with
  | "tlo", [ts, ast, _schema] => handleTlo ts ast
  | "tlsrt", [h] => handleTlsrt h
  | "equiv", [d1, d2] => handleEquiv d1 d2
  | "equivwhy", [d1, d2] => handleEquivWhy d1 d2
  | "mig", [_schema, _wl, _root, d1, d2, v, full] => handleMig d1 d2 v full
  | _, _ => "bad-op"

end TLVerif.Tlomig
