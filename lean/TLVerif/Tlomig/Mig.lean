import TLVerif.Util.Hex
import TLVerif.Prim.TL2Size
import TLVerif.Tlomig.Sexp
/-!
C27 model: the TL2/JSON view of a compiled type (descriptor exported by `go/htlomig/mig.go: exportDesc` from
`pure.Kernel` after `Compile`), an alias-transparent value model, a minimal TL2 writer and JSON writer written
the way `internal/pure/onthefly` writes (`KernelValueStruct.WriteTL2/WriteJSON`, `ByteBuilder.FinishSize`, …;
format of DESIGN Appendix A), and the decidable relation `tl2Equiv` between two descriptors.
Differences to onthefly that are deliberate and never exercised by the tie: a present `bit` field sets its mask
bit and writes nothing / prints `true` (the interpreter cannot represent a set bit); dictionaries are written in
the order given (every reader and the generator produce sorted distinct keys).
-/
namespace TLVerif.Tlomig
open TLVerif.Prim TLVerif.Util

inductive PrimKind where
  | u32 | i32 | f32 | u64 | i64 | f64 | byte | bool | bit | str
  deriving DecidableEq, Repr, Inhabited

structure FieldD where
  name : String
  opt : Bool      -- may be absent (TL1 fields mask / TL2 optional / bit)
  isBit : Bool    -- presence only
  ty : Nat
  deriving DecidableEq, Inhabited

inductive Node where
  | prim (k : PrimKind)
  | struct (alias typedef unionElem : Bool) (unionIndex : Nat) (fields : List FieldD)
  | union (variants : List (String × Nat))
  | array (isTuple dynamic : Bool) (count : Nat) (elem : Nat) (elemBit : Bool)
  | dict (elem : Nat)
  | bad
  deriving DecidableEq, Inhabited

structure Desc where
  root : Nat
  nodes : List Node
  deriving Inhabited

mutual
inductive Val where
  | int (n : Nat)
  | bool (b : Bool)
  | unit
  | str (s : Bytes)
  | absent
  | struct (fs : Vals)
  | union (idx : Nat) (fs : Vals)
  | arr (es : Vals)
  | dict (es : Vals)
inductive Vals where
  | nil
  | cons (v : Val) (vs : Vals)
end

instance : Inhabited Val := ⟨.unit⟩

def Vals.length : Vals → Nat
  | .nil => 0
  | .cons _ vs => vs.length + 1

def Vals.isEmpty : Vals → Bool
  | .nil => true
  | .cons _ _ => false

/-! ### alias resolution -/

/-- follow alias structs (`IsAlias()`: written as their single field); `none` on a malformed descriptor -/
def resolve (d : Desc) : Nat → Nat → Option Node
  | 0, _ => none
  | fuel + 1, i =>
    match d.nodes[i]? with
    | none => none
    | some (.struct true _ _ _ fields) =>
      match fields with
      | [f] => resolve d fuel f.ty
      | _ => none
    | some n => some n

def Desc.fuel (d : Desc) : Nat := d.nodes.length + 1

def Desc.node (d : Desc) (i : Nat) : Option Node := resolve d d.fuel i

/-! ### TL2 writer -/

def leBytes : Nat → Nat → Bytes
  | 0, _ => []
  | k + 1, n => byteOf n :: leBytes k (n / 256)

def primWidth : PrimKind → Nat
  | .u32 | .i32 | .f32 => 4
  | .u64 | .i64 | .f64 => 8
  | .byte => 1
  | _ => 0

/-- one struct body item: (mask bit set, bytes) -/
abbrev Item := Bool × Bytes

/-- the field loop of `KernelValueStruct.WriteTL2`: blocks of (mask byte, data) -/
def blocksLoop : List Item → Nat → Nat → Bytes → List (Nat × Bytes) → List (Nat × Bytes)
  | [], _, m, dat, acc => ((m, dat) :: acc).reverse
  | (used, b) :: rest, i, m, dat, acc =>
    let newBlock := (i + 1) % 8 == 0
    let acc := if newBlock then (m, dat) :: acc else acc
    let m := if newBlock then 0 else m
    let dat := if newBlock then [] else dat
    let m := if used then m ||| (1 <<< ((i + 1) % 8)) else m
    blocksLoop rest (i + 1) m (dat ++ b) acc

def dropTrailingUnused : List (Nat × Bytes) → List (Nat × Bytes)
  | [] => []
  | (m, dat) :: rest =>
    match dropTrailingUnused rest with
    | [] => if m == 0 then [] else [(m, dat)]
    | r => (m, dat) :: r

def concatBlocks : List (Nat × Bytes) → Bytes
  | [] => []
  | (m, dat) :: rest => byteOf m :: (dat ++ concatBlocks rest)

/-- `FinishSize`: size prefix, or nothing / a single zero byte for an empty body -/
def finishSize (body : Bytes) (optimizeEmpty : Bool) : Bytes :=
  if body.isEmpty then (if optimizeEmpty then [] else [0]) else tl2WriteSize body.length ++ body

def assembleStruct (unionElem : Bool) (unionIndex : Nat) (items : List Item) (optimizeEmpty : Bool) : Bytes :=
  let withIdx := unionElem && unionIndex != 0
  let bl := blocksLoop items 0 (if withIdx then 1 else 0) (if withIdx then tl2WriteSize unionIndex else []) []
  finishSize (concatBlocks (dropTrailingUnused bl)) optimizeEmpty

def omitted (name : String) : Bool := name.startsWith "_"

def valsBools : Vals → Option (List Bool)
  | .nil => some []
  | .cons (.bool b) vs => (valsBools vs).map (b :: ·)
  | .cons _ _ => none

def Val.isAbsent : Val → Bool
  | .absent => true
  | _ => false

def Val.isUnit : Val → Bool
  | .unit => true
  | _ => false

/-- one iteration of the struct field loop, given the field value's own encoding `w` (written with
`optimizeEmpty = !f.opt`): absent optional → unused; `_`-prefixed name → checked but not written; bit → mask bit only;
optional → always used; mandatory → used iff it wrote something -/
def fieldItem (f : FieldD) (isAbsent isUnit : Bool) (w : Option Bytes) : Option Item :=
  if isAbsent then (if f.opt then some (false, []) else none)
  else if omitted f.name then
    (if f.isBit then some (false, []) else
      match w with
      | some _ => some (false, [])
      | none => none)
  else if f.isBit then (if isUnit then some (true, []) else none)
  else
    match w with
    | some b => some (if f.opt then true else !b.isEmpty, b)
    | none => none

/-- one iteration of the JSON field loop: (text contributed after the separator, field was written) -/
def jsonItem (f : FieldD) (isAbsent isUnit : Bool) (fv : Option String) : Option (Option String) :=
  if isAbsent then (if f.opt then some none else none)
  else if f.isBit then (if isUnit then some (some ("\"" ++ f.name ++ "\":true")) else none)
  else
    match fv with
    | some x => some (some ("\"" ++ f.name ++ "\":" ++ x))
    | none => none

mutual
/-- `WriteTL2(w, optimizeEmpty, …)` of the value `v` at type `ty`; `none` = the value does not fit the type -/
def writeTL2 (d : Desc) (ty : Nat) (optimizeEmpty : Bool) : Val → Option Bytes
  | .int n =>
    match d.node ty with
    | some (.prim k) =>
      let w := primWidth k
      if w = 0 then none else
      if n ≥ 256 ^ w then none else
      if optimizeEmpty && n == 0 then some [] else some (leBytes w n)
    | _ => none
  | .bool b =>
    match d.node ty with
    | some (.prim .bool) => if optimizeEmpty && !b then some [] else some [if b then 1 else 0]
    | _ => none
  | .unit =>
    match d.node ty with
    | some (.prim .bit) => some []
    | _ => none
  | .str s =>
    match d.node ty with
    | some (.prim .str) => if optimizeEmpty && s.isEmpty then some [] else some (tl2WriteSize s.length ++ s)
    | _ => none
  | .absent => none
  | .struct fs =>
    match d.node ty with
    | some (.struct _ _ ue ui fields) =>
      match writeFields d fields fs with
      | some items => some (assembleStruct ue ui items optimizeEmpty)
      | none => none
    | _ => none
  | .union idx fs =>
    match d.node ty with
    | some (.union variants) =>
      match variants[idx]? with
      | none => none
      | some (_, vt) =>
        match d.node vt with
        | some (.struct _ _ ue ui fields) =>
          match writeFields d fields fs with
          | some items => some (assembleStruct ue ui items optimizeEmpty)
          | none => none
        | _ => none
    | _ => none
  | .arr es =>
    match d.node ty with
    | some (.array _ _ _ elem elemBit) =>
      if es.isEmpty && optimizeEmpty then some [] else
      if elemBit then
        match valsBools es with
        | some bs => some (finishSize ((if bs.isEmpty then [] else tl2WriteSize bs.length) ++ bitsWrite bs) optimizeEmpty)
        | none => none
      else
        match writeElems d elem es with
        | some body => some (finishSize ((if es.isEmpty then [] else tl2WriteSize es.length) ++ body) optimizeEmpty)
        | none => none
    | _ => none
  | .dict es =>
    match d.node ty with
    | some (.dict elem) =>
      if es.isEmpty && optimizeEmpty then some [] else
      match writeElems d elem es with
      | some body => some (finishSize ((if es.isEmpty then [] else tl2WriteSize es.length) ++ body) optimizeEmpty)
      | none => none
    | _ => none
/-- per-field (used, bytes) of the struct field loop -/
def writeFields (d : Desc) : List FieldD → Vals → Option (List Item)
  | [], .nil => some []
  | f :: fds, .cons v vs =>
    match fieldItem f v.isAbsent v.isUnit (writeTL2 d f.ty (!f.opt) v), writeFields d fds vs with
    | some it, some rest => some (it :: rest)
    | _, _ => none
  | _, _ => none
/-- array / dictionary elements, each with `optimizeEmpty = false`; an empty array has an empty body (no element count): `00`
(onthefly after /repo 92d22a53, like generated code) -/
def writeElems (d : Desc) (ty : Nat) : Vals → Option Bytes
  | .nil => some []
  | .cons v vs =>
    match writeTL2 d ty false v, writeElems d ty vs with
    | some a, some b => some (a ++ b)
    | _, _ => none
end

/-! ### JSON writer (text, as onthefly emits it) -/

def signedDec (bits : Nat) (n : Nat) : String :=
  if n ≥ 2 ^ (bits - 1) then "-" ++ toString (2 ^ bits - n) else toString n

def safeChar (b : UInt8) : Bool :=
  b.toNat ≥ 32 && b.toNat < 127 && b != 34 && b != 92 && b != 60 && b != 62 && b != 38

/-- `JSONWriteString` on strings it copies verbatim; `none` outside that domain (never generated) -/
def jsonString (s : Bytes) : Option String :=
  if s.all safeChar then some ("\"" ++ String.ofList (s.map (fun b => Char.ofNat b.toNat)) ++ "\"") else none

def braces : Option String → Option String
  | some s => some ("{" ++ s ++ "}")
  | none => none

def unionJson (vname : String) : Option String → Option String
  | some s => some ("{\"type\":\"" ++ vname ++ "\",\"value\":" ++ s ++ "}")
  | none => none

mutual
def writeJson (d : Desc) (ty : Nat) : Val → Option String
  | .int n =>
    match d.node ty with
    | some (.prim k) =>
      match k with
      | .u32 | .u64 | .byte => some (toString n)
      | .i32 | .f32 => some (signedDec 32 n)
      | .i64 | .f64 => some (signedDec 64 n)
      | _ => none
    | _ => none
  | .bool b =>
    match d.node ty with
    | some (.prim .bool) => some (if b then "true" else "false")
    | _ => none
  | .unit =>
    match d.node ty with
    | some (.prim .bit) => some "true"
    | _ => none
  | .str s =>
    match d.node ty with
    | some (.prim .str) => jsonString s
    | _ => none
  | .absent => none
  | .struct fs =>
    match d.node ty with
    | some (.struct _ typedef _ _ fields) =>
      if typedef then jsonTypedef d fields fs else braces (jsonFields d fields fs true)
    | _ => none
  | .union idx fs =>
    match d.node ty with
    | some (.union variants) =>
      match variants[idx]? with
      | none => none
      | some (vname, vt) =>
        match d.node vt with
        | some (.struct _ typedef _ _ fields) =>
          if fields.isEmpty then
            (match fs with
             | .nil => some ("{\"type\":\"" ++ vname ++ "\"}")
             | _ => none)
          else
            unionJson vname (if typedef then jsonTypedef d fields fs else braces (jsonFields d fields fs true))
        | _ => none
    | _ => none
  | .arr es =>
    match d.node ty with
    | some (.array _ _ _ elem elemBit) =>
      if elemBit then
        match valsBools es with
        | some bs => some ("[" ++ ",".intercalate (bs.map (fun b => if b then "true" else "false")) ++ "]")
        | none => none
      else
        match jsonElems d elem es with
        | some l => some ("[" ++ ",".intercalate l ++ "]")
        | none => none
    | _ => none
  | .dict es =>
    match d.node ty with
    | some (.dict elem) =>
      match jsonElems d elem es with
      | some l => some ("[" ++ ",".intercalate l ++ "]")
      | none => none
    | _ => none
/-- a typedef-like struct (`IsTypedef()`) prints as its single field -/
def jsonTypedef (d : Desc) (fields : List FieldD) : Vals → Option String
  | .cons v .nil =>
    match fields with
    | [f] => writeJson d f.ty v
    | _ => none
  | _ => none
/-- the loop `if !first {','}; if absent {continue}; first=false; "name":value` -/
def jsonFields (d : Desc) : List FieldD → Vals → Bool → Option String
  | [], .nil, _ => some ""
  | f :: fds, .cons v vs, first =>
    match jsonItem f v.isAbsent v.isUnit (writeJson d f.ty v) with
    | none => none
    | some none =>
      (match jsonFields d fds vs first with
       | some r => some ((if first then "" else ",") ++ r)
       | none => none)
    | some (some x) =>
      (match jsonFields d fds vs false with
       | some r => some ((if first then "" else ",") ++ x ++ r)
       | none => none)
  | _, _, _ => none
def jsonElems (d : Desc) (ty : Nat) : Vals → Option (List String)
  | .nil => some []
  | .cons v vs =>
    match writeJson d ty v, jsonElems d ty vs with
    | some a, some b => some (a :: b)
    | _, _ => none
end

/-! ### the structural relation -/

abbrev Rel := List (Nat × Nat)

def fieldsMatch (R : Rel) : List FieldD → List FieldD → Bool
  | [], [] => true
  | f :: fs, g :: gs =>
    f.name == g.name && f.opt == g.opt && f.isBit == g.isBit && (f.isBit || R.contains (f.ty, g.ty)) && fieldsMatch R fs gs
  | _, _ => false

def variantsMatch (R : Rel) : List (String × Nat) → List (String × Nat) → Bool
  | [], [] => true
  | (n, i) :: vs, (m, j) :: ws => n == m && R.contains (i, j) && variantsMatch R vs ws
  | _, _ => false

/-- a typedef-like struct prints as its single field in JSON: that field must be related even if it is a bit -/
def typedefOk (R : Rel) (td : Bool) : List FieldD → List FieldD → Bool
  | [f], [g] => !td || R.contains (f.ty, g.ty)
  | _, _ => !td

/-- local condition on one pair of (alias-resolved) nodes -/
def nodesMatch (R : Rel) : Node → Node → Bool
  | .prim k, .prim l => k == l
  | .struct _ td ue ui fs, .struct _ td' ue' ui' gs =>
    td == td' && ue == ue' && ui == ui' && fieldsMatch R fs gs && typedefOk R td fs gs
  | .union vs, .union ws => variantsMatch R vs ws
  | .array _ _ _ e eb, .array _ _ _ e' eb' =>
    -- tuple-ness and counts are not compared: the migration removes nat parameters, so `n*[T]` / `tuple T n` become
    -- `[]T` by design; in TL2 every array carries its length on the wire, so the encodings of a value coincide
    eb == eb' && (eb || R.contains (e, e'))
  | .dict e, .dict e' => R.contains (e, e')
  | _, _ => false

/-- every pair of `R` resolves on both sides to matching nodes whose children are again in `R` -/
def consistent (d₁ d₂ : Desc) (R : Rel) : Bool :=
  R.all (fun p =>
    match d₁.node p.1, d₂.node p.2 with
    | some n, some m => nodesMatch R n m
    | _, _ => false)

/-! ### computing the candidate relation (worklist from the roots; soundness does not depend on it) -/

def childPairs : Node → Node → List (Nat × Nat)
  | .struct _ td _ _ fs, .struct _ _ _ _ gs =>
    ((fs.zip gs).filter (fun p => td || !p.1.isBit)).map (fun p => (p.1.ty, p.2.ty))
  | .union vs, .union ws => (vs.zip ws).map (fun p => (p.1.2, p.2.2))
  | .array _ _ _ e _, .array _ _ _ e' _ => [(e, e')]
  | .dict e, .dict e' => [(e, e')]
  | _, _ => []

def buildRel (d₁ d₂ : Desc) : Nat → List (Nat × Nat) → Rel → Rel
  | 0, _, R => R
  | _, [], R => R
  | fuel + 1, p :: todo, R =>
    if R.contains p then buildRel d₁ d₂ fuel todo R
    else
      match d₁.node p.1, d₂.node p.2 with
      | some n, some m => buildRel d₁ d₂ fuel (childPairs n m ++ todo) (p :: R)
      | _, _ => buildRel d₁ d₂ fuel todo (p :: R)

def candidateRel (d₁ d₂ : Desc) : Rel :=
  buildRel d₁ d₂ ((d₁.nodes.length + 1) * (d₂.nodes.length + 1) * 8 + 8) [(d₁.root, d₂.root)] []

/-- the decidable certificate evaluated on the descriptors the two kernels export -/
def tl2Equiv (d₁ d₂ : Desc) : Bool :=
  let R := candidateRel d₁ d₂
  R.contains (d₁.root, d₂.root) && consistent d₁ d₂ R

/-! ### decoding descriptors and values from the case line -/

def primOfName (s : String) : Option PrimKind :=
  if s == "uint32" then some .u32 else if s == "int32" then some .i32 else if s == "float32" then some .f32
  else if s == "uint64" then some .u64 else if s == "int64" then some .i64 else if s == "float64" then some .f64
  else if s == "byte" then some .byte else if s == "bool" then some .bool else if s == "bit" then some .bit
  else if s == "string" then some .str else none

def fieldOfSx : Sexp → Option FieldD
  | .node [n, o, b, t] => do pure ⟨← n.str?, ← o.bool?, ← b.bool?, ← t.nat?⟩
  | _ => none

def variantOfSx : Sexp → Option (String × Nat)
  | .node [n, t] => do pure (← n.str?, ← t.nat?)
  | _ => none

def nodeOfSx : Sexp → Option Node
  | .node [.atom "p", .atom k] => (primOfName k).map Node.prim
  | .node [.atom "s", a, td, ue, ui, .node fs] => do
    pure (.struct (← a.bool?) (← td.bool?) (← ue.bool?) (← ui.nat?) (← fs.mapM fieldOfSx))
  | .node [.atom "u", .node vs] => do pure (.union (← vs.mapM variantOfSx))
  | .node [.atom "a", t, dy, c, e, eb] => do pure (.array (← t.bool?) (← dy.bool?) (← c.nat?) (← e.nat?) (← eb.bool?))
  | .node [.atom "d", e] => do pure (.dict (← e.nat?))
  | .node [.atom "x"] => some .bad
  | _ => none

def descOfSx : Sexp → Option Desc
  | .node [.atom "D", r, .node ns] => do pure ⟨← r.nat?, ← ns.mapM nodeOfSx⟩
  | _ => none

mutual
def valOfSx : Sexp → Option Val
  | .atom "n" => some .absent
  | .node [.atom "i", n] => n.nat?.map Val.int
  | .node [.atom "b", b] => b.bool?.map Val.bool
  | .node [.atom "t"] => some .unit
  | .node [.atom "x", .atom h] => (bytesOfHex h).map Val.str
  | .node (.atom "S" :: fs) => (valsOfSx fs).map Val.struct
  | .node (.atom "U" :: i :: fs) =>
    match i.nat?, valsOfSx fs with
    | some i, some fs => some (.union i fs)
    | _, _ => none
  | .node (.atom "A" :: es) => (valsOfSx es).map Val.arr
  | .node (.atom "M" :: es) => (valsOfSx es).map Val.dict
  | _ => none
def valsOfSx : List Sexp → Option Vals
  | [] => some .nil
  | x :: xs =>
    match valOfSx x, valsOfSx xs with
    | some v, some vs => some (.cons v vs)
    | _, _ => none
end

end TLVerif.Tlomig
