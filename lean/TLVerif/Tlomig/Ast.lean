import TLVerif.Tlomig.Sexp
/-!
The part of the TL1 AST (`internal/tlast` `Combinator`, `Field`, `TypeRef`, …) that `GenerateTLO` reads,
and its decoding from the canonical dump on the case line (`go/htlomig/tlo.go: dumpAst`).
Names are the results of `Name.String()`; tags are `Combinator.Crc32()` (= `Construct.ID`).
-/
namespace TLVerif.Tlomig

mutual
inductive TypeRef where
  | mk (name : String) (bare : Bool) (args : List ArithOrType)
inductive ArithOrType where
  | arith (res : Nat)
  | type (t : TypeRef)
end

instance : Inhabited TypeRef := ⟨.mk "" false []⟩

def TypeRef.name : TypeRef → String | .mk n _ _ => n
def TypeRef.bare : TypeRef → Bool | .mk _ b _ => b
def TypeRef.args : TypeRef → List ArithOrType | .mk _ _ a => a

structure Mask where
  name : String
  bit : Nat
  deriving Inhabited

/-- `tlast.Field` with `ScaleRepeat` flattened in (meaningful only when `isRepeated`). -/
inductive Field where
  | mk (name : String) (mask : Option Mask) (excl : Bool)
       (isRepeated explicitScale scaleIsArith : Bool) (scaleRes : Nat) (scaleName : String)
       (rep : List Field) (type : TypeRef)

instance : Inhabited Field := ⟨.mk "" none false false false false 0 "" [] default⟩

def Field.name : Field → String | .mk n .. => n
def Field.mask : Field → Option Mask | .mk _ m .. => m
def Field.excl : Field → Bool | .mk _ _ e .. => e
def Field.isRepeated : Field → Bool | .mk _ _ _ r .. => r
def Field.type : Field → TypeRef | .mk _ _ _ _ _ _ _ _ _ t => t

structure TemplateArg where
  name : String
  isNat : Bool
  deriving Inhabited

structure Comb where
  isFunction : Bool
  name : String          -- Construct.Name.String()
  tag : UInt32           -- Crc32()
  modifiers : List String
  targs : List TemplateArg
  fields : List Field
  typeName : String      -- TypeDecl.Name.String()
  typeArgs : List String -- TypeDecl.Arguments
  funcDecl : TypeRef
  deriving Inhabited

abbrev Schema := List Comb

/-! ### decoding from the dump -/

mutual
def typeRefOfSexp : Sexp → Option TypeRef
  | .node [.atom "T", n, b, .node args] => do
    let n ← n.str?
    let b ← b.bool?
    let a ← aotsOfSexp args
    pure (.mk n b a)
  | _ => none
def aotOfSexp : Sexp → Option ArithOrType
  | .node [.atom "A", r] => do pure (.arith (← r.nat?))
  | .node [.atom "T", n, b, .node args] => do
    let n ← n.str?
    let b ← b.bool?
    let a ← aotsOfSexp args
    pure (.type (.mk n b a))
  | _ => none
def aotsOfSexp : List Sexp → Option (List ArithOrType)
  | [] => some []
  | x :: xs => do
    let a ← aotOfSexp x
    let r ← aotsOfSexp xs
    pure (a :: r)
end

def maskOfSexp : Sexp → Option (Option Mask)
  | .atom "n" => some none
  | .node [.atom "m", n, b] => do pure (some ⟨← n.str?, ← b.nat?⟩)
  | _ => none

mutual
def fieldOfSexp : Sexp → Option Field
  | .node [.atom "F", n, m, e, .atom "n", t] => do
    pure (.mk (← n.str?) (← maskOfSexp m) (← e.bool?) false false false 0 "" [] (← typeRefOfSexp t))
  | .node [.atom "F", n, m, e, .node [.atom "R", ex, ia, res, sn, .node sub], t] => do
    let sub ← fieldsOfSexp sub
    pure (.mk (← n.str?) (← maskOfSexp m) (← e.bool?) true (← ex.bool?) (← ia.bool?) (← res.nat?) (← sn.str?) sub
      (← typeRefOfSexp t))
  | _ => none
def fieldsOfSexp : List Sexp → Option (List Field)
  | [] => some []
  | x :: xs => do
    let a ← fieldOfSexp x
    let r ← fieldsOfSexp xs
    pure (a :: r)
end

def targOfSexp : Sexp → Option TemplateArg
  | .node [n, b] => do pure ⟨← n.str?, ← b.bool?⟩
  | _ => none

def combOfSexp : Sexp → Option Comb
  | .node [.atom "K", isf, n, tag, .node mods, .node targs, .node fields, tn, .node tas, fd] => do
    let tag ← tag.nat?
    pure { isFunction := ← isf.bool?, name := ← n.str?, tag := UInt32.ofNat tag,
           modifiers := ← mods.mapM Sexp.str?, targs := ← targs.mapM targOfSexp,
           fields := ← fieldsOfSexp fields, typeName := ← tn.str?, typeArgs := ← tas.mapM Sexp.str?,
           funcDecl := ← typeRefOfSexp fd }
  | _ => none

def schemaOfSexp : Sexp → Option Schema
  | .node l => l.mapM combOfSexp
  | _ => none

end TLVerif.Tlomig
