import TLVerif.Tlomig.Ast
import TLVerif.Tlomig.Tls
/-!
Model of `TL.GenerateTLO` (`internal/tlast/tlgen_tlo.go`), written the way the Go function is written:
first loop builds the `tlsTypes` map (insertion-ordered association list here), second loop converts every
combinator (`combinatorToTypeExprUnion`, `repeatedToTypeExpr`, `typeRefToTypeExpr`, `typeRefToExprUnion`,
`paramScope`), then types are sorted by name, functions by id, and type-name collisions are rejected.
`Except GErr`: `.err` = Go returns an error while converting a field, `.collision` = the TLO hash collision error,
`.panic` = a Go run-time panic (index out of range / nil map entry).
-/
namespace TLVerif.Tlomig
open TLVerif.Prim
open TLVerif.Facts.Tlomig

inductive GErr where
  | err | collision | panic
  deriving DecidableEq, Repr

def strBytes (s : String) : Bytes := s.toUTF8.toList

def natTag32 : UInt32 := UInt32.ofNat natTag
def typeTag32 : UInt32 := UInt32.ofNat typeTag
def intTag32 : UInt32 := u32OfInt intTadInt32
def longTag32 : UInt32 := u32OfInt longTagInt32
def floatTag32 : UInt32 := u32OfInt floatTagInt32
def doubleTag32 : UInt32 := u32OfInt doubleTagInt32
def stringTag32 : UInt32 := u32OfInt stringTagInt32

/-- `builtinTypeExprUnions` -/
def builtinTypeExpr (n : String) : Option TypeExpr :=
  if n == "#" then some (.expr natTag32 0 0 [])
  else if n == "int" then some (.expr intTag32 1 0 [])
  else if n == "long" then some (.expr longTag32 1 0 [])
  else if n == "float" then some (.expr floatTag32 1 0 [])
  else if n == "double" then some (.expr doubleTag32 1 0 [])
  else if n == "string" then some (.expr stringTag32 1 0 [])
  else none

def builtinTag (n : String) : Option UInt32 :=
  if n == "int" then some intTag32
  else if n == "long" then some longTag32
  else if n == "float" then some floatTag32
  else if n == "double" then some doubleTag32
  else if n == "string" then some stringTag32
  else none

/-- `builtinCombinators` -/
def builtinComb (n : String) : Option Combinator :=
  match builtinTag n with
  | some t => some (.v4 t (strBytes n) t .builtin (.expr t 0 0 []) 0)
  | none => none

structure Param where
  name : String
  isNat : Bool        -- typ == "#" (otherwise "Type")
  fieldIndex : Nat
  index : Nat

/-- `paramScope` (passed by value in Go) -/
structure Scope where
  absoluteIndex : Nat
  data : List Param

def Scope.empty : Scope := ⟨0, []⟩

def Scope.append (ps : Scope) (name : String) (isNat : Bool) (fieldIndex : Nat) : Scope :=
  ⟨ps.absoluteIndex + 1, ps.data ++ [⟨name, isNat, fieldIndex, ps.absoluteIndex⟩]⟩

/-- search from the most recent parameter -/
def Scope.find (ps : Scope) (p : Param → Bool) : Option Param := ps.data.reverse.find? p

abbrev TypeMap := List (String × TlsType)

def lookupType (m : TypeMap) (n : String) : Option TlsType :=
  match m.find? (fun kv => kv.1 == n) with
  | some kv => some kv.2
  | none => none

/-- `allCombinators[name]`: the map is filled in declaration order, so the last declaration wins -/
def lookupComb (cs : Schema) (n : String) : Option Comb := cs.reverse.find? (fun c => c.name == n)

structure Env where
  cs : Schema
  types : TypeMap

def u32 (n : Nat) : UInt32 := UInt32.ofNat n

/-! ### `typeRefToExprUnion` -/
mutual
def childrenOf (env : Env) (mc : Scope) : TypeRef → List Expr
  | .mk _ _ args => exprsOfAots env mc args
def exprOfAot (env : Env) (mc : Scope) : ArithOrType → List Expr
  | .arith r => [.nat (.const (u32 r))]
  | .type t =>
    match builtinTypeExpr t.name with
    | some te => [.type te]
    | none =>
      match mc.find (fun e => e.name == t.name) with
      | some ctx => [if ctx.isNat then .nat (.var 0 (u32 ctx.index)) else .type (.tvar (u32 ctx.index) 0)]
      | none =>
        match lookupComb env.cs t.name with
        | some c =>
          let tmp := childrenOf env mc t
          [.type (.expr c.tag 1 (u32 tmp.length) tmp)]
        | none =>
          match lookupType env.types t.name with
          | some ty =>
            let tmp := childrenOf env mc t
            [.type (.expr ty.name (if t.bare then 1 else 0) (u32 tmp.length) tmp)]
          | none => []
def exprsOfAots (env : Env) (mc : Scope) : List ArithOrType → List Expr
  | [] => []
  | a :: as => exprOfAot env mc a ++ exprsOfAots env mc as
end

/-- `typeRefToTypeExpr` -/
def typeRefToTypeExpr (env : Env) (mc : Scope) (t : TypeRef) (bare : Bool) : Except GErr TypeExpr :=
  match builtinTypeExpr t.name with
  | some te => .ok te
  | none =>
    let tmp := childrenOf env mc t
    match lookupComb env.cs t.name with
    | none => .error .panic
    | some c => .ok (.expr c.tag (if t.bare || bare then 1 else 0) (u32 tmp.length) tmp)

def exclFlag : UInt32 := 262144     -- 1 << 18
def maskFlag : UInt32 := 4          -- 1 << 2
def varFlag : UInt32 := 2           -- 1 << 1
def targFlags : UInt32 := 131075    -- 1<<17 | 1<<0 | 1<<1

/-! ### `combinatorToTypeExprUnion`, `repeatedToTypeExpr`, and the field loops that thread the scope -/
mutual
def argOfField (env : Env) (mc : Scope) (fieldIndex : Nat) : Field → Except GErr Arg
  | .mk name mask excl isRep explicit scaleIsArith scaleRes scaleName rep type => do
    let tname := type.name
    let (flags0, varNum, ty) ←
      if tname == "#" then do
        let te ← typeRefToTypeExpr env mc type false
        pure (varFlag, u32 mc.absoluteIndex, te)
      else if isRep then do
        let mult ←
          if explicit then
            if scaleIsArith then pure (NatExpr.const (u32 scaleRes))
            else match mc.find (fun e => e.name == scaleName) with
              | some c => pure (NatExpr.var 0 (u32 c.index))
              | none => throw GErr.err
          else
            if fieldIndex = 0 then throw GErr.err
            else match mc.find (fun e => e.fieldIndex == fieldIndex - 1) with
              | some c => pure (NatExpr.var 0 (u32 c.index))
              | none => throw GErr.err
        let (args, _) ← argsOfFields env mc 0 rep
        pure (0, 0, TypeExpr.array mult (u32 rep.length) args)
      else
        match mc.find (fun e => e.name == tname) with
        | some c => pure (0, 0, TypeExpr.tvar (u32 c.index) 0)
        | none =>
          if (lookupComb env.cs tname).isSome then do
            let te ← typeRefToTypeExpr env mc type true
            pure (0, 0, te)
          else
            match lookupType env.types tname with
            | some t =>
              let tmp := childrenOf env mc type
              pure (0, 0, TypeExpr.expr t.name (if type.bare then 1 else 0) (u32 tmp.length) tmp)
            | none => throw GErr.err
    let flags1 := if excl then flags0 ||| exclFlag else flags0
    match mask with
    | none => pure (.mk (strBytes name) flags1 varNum 0 0 ty)
    | some m =>
      let flags2 := flags1 ||| maskFlag
      match mc.find (fun e => e.name == m.name) with
      | some c => pure (.mk (strBytes name) flags2 varNum (u32 c.index) (u32 m.bit) ty)
      | none => pure (.mk (strBytes name) flags2 varNum 0 0 ty)
/-- the loop `for i, f := range fields { arg(f, start+i); if f is a non-repeated # field { mc.append } }` -/
def argsOfFields (env : Env) (mc : Scope) (i : Nat) : List Field → Except GErr (List Arg × Scope)
  | [] => pure ([], mc)
  | f :: fs => do
    let a ← argOfField env mc i f
    let mc' := if !f.isRepeated && f.type.name == "#" then mc.append f.name true i else mc
    let (as, mcEnd) ← argsOfFields env mc' (i + 1) fs
    pure (a :: as, mcEnd)
end

/-! ### first loop: `tlsTypes` -/

def bareTypeName (n : String) : Bool :=
  n == "Int" || n == "Long" || n == "Float" || n == "Double" || n == "String"

def paramsTypeOf : List TemplateArg → Nat → UInt64
  | [], _ => 0
  | a :: as, i => (if a.isNat && i < 64 then (1 : UInt64) <<< (UInt64.ofNat i) else 0) ||| paramsTypeOf as (i + 1)

def freshType (c : Comb) : TlsType :=
  { name := 0, id := strBytes c.typeName, constructorsNum := 0,
    flags := if bareTypeName c.typeName then 1 else 0,
    arity := u32 c.typeArgs.length, paramsType := paramsTypeOf c.targs 0 }

/-- signed `int32 > 1` -/
def i32gt1 (v : UInt32) : Bool := decide (1 < v.toNat ∧ v.toNat < 2147483648)

def updType (c : Comb) (t : TlsType) : TlsType :=
  let fl := if c.fields.any Field.excl then t.flags ||| exclFlag else t.flags
  let fl := if c.name == "_" then fl ||| 33554432 else fl
  let cn := t.constructorsNum + 1
  { t with name := t.name ^^^ c.tag, constructorsNum := cn, flags := if i32gt1 cn then fl ||| 16 else fl }

def typesStep (m : TypeMap) (c : Comb) : TypeMap :=
  if c.isFunction then m else
  let m1 := if (lookupType m c.typeName).isSome then m else m ++ [(c.typeName, freshType c)]
  m1.map (fun kv => if kv.1 == c.typeName then (kv.1, updType c kv.2) else kv)

def initTypes : TypeMap :=
  [("#", { name := natTag32, id := strBytes "#", constructorsNum := 0, flags := 0, arity := 0, paramsType := 0 }),
   ("Type", { name := typeTag32, id := strBytes "Type", constructorsNum := 0, flags := 0, arity := 0, paramsType := 0 })]

def buildTypes (cs : Schema) : TypeMap := cs.foldl typesStep initTypes

/-! ### second loop -/

def modifierFlag (ms : List String) : UInt32 :=
  ms.foldl (fun res m =>
    if m == "read" then res ||| 1
    else if m == "write" then res ||| 2
    else if m == "readwrite" then res ||| 3
    else if m == "internal" then res ||| 4
    else if m == "kphp" then res ||| 8
    else res) 0

def targArgs : List TemplateArg → Nat → List Arg
  | [], _ => []
  | ta :: tas, i =>
    .mk (strBytes ta.name) targFlags (u32 i) 0 0 (.expr (if ta.isNat then natTag32 else typeTag32) 0 0 [])
      :: targArgs tas (i + 1)

def targScope : List TemplateArg → Nat → Scope → Scope
  | [], _, mc => mc
  | ta :: tas, i, mc => targScope tas (i + 1) (mc.append ta.name ta.isNat i)

def ctorChildren (targs : List TemplateArg) : Nat → Nat → Except GErr (List Expr)
  | 0, _ => pure []
  | n + 1, i =>
    match targs[i]? with
    | none => throw .panic
    | some ta => do
      let rest ← ctorChildren targs n (i + 1)
      pure ((if ta.isNat then Expr.nat (.var 0 (u32 i)) else Expr.type (.tvar (u32 i) 0)) :: rest)

def typeNameOf (env : Env) (c : Comb) : UInt32 :=
  match lookupType env.types (if c.isFunction then c.funcDecl.name else c.typeName) with
  | some t => t.name
  | none => 0

/-- the `right` side: result type of a function, or the declared type applied to its own template arguments -/
def rightOf (env : Env) (mc : Scope) (typeName : UInt32) (c : Comb) : Except GErr TypeExpr :=
  if c.isFunction then
    let tmp := childrenOf env mc c.funcDecl
    match mc.find (fun e => e.name == c.funcDecl.name) with
    | some ctx => .ok (TypeExpr.tvar (u32 ctx.index) 0)
    | none => .ok (TypeExpr.expr typeName 0 (u32 tmp.length) tmp)
  else
    match ctorChildren c.targs c.typeArgs.length 0 with
    | .error e => .error e
    | .ok ch => .ok (TypeExpr.expr typeName 0 (u32 c.typeArgs.length) ch)

def convComb (env : Env) (c : Comb) : Except GErr Combinator :=
  let typeName := typeNameOf env c
  match argsOfFields env (targScope c.targs 0 Scope.empty) c.targs.length c.fields with
  | .error e => .error e
  | .ok (fargs, mc) =>
    let args := targArgs c.targs 0 ++ fargs
    match rightOf env mc typeName c with
    | .error e => .error e
    | .ok right =>
      .ok (.v4 c.tag (strBytes c.name) typeName (Left.args (u32 args.length) args) right (modifierFlag c.modifiers))

/-- the second loop: (constructors, functions) in declaration order -/
def convAll (env : Env) : List Comb → Except GErr (List Combinator × List Combinator)
  | [] => .ok ([], [])
  | c :: cs =>
    match builtinComb c.name with
    | some b =>
      (match convAll env cs with
       | .error e => .error e
       | .ok (k, f) => .ok (b :: k, f))
    | none =>
      match convComb env c with
      | .error e => .error e
      | .ok x =>
        match convAll env cs with
        | .error e => .error e
        | .ok (k, f) => if c.isFunction then .ok (k, x :: f) else .ok (x :: k, f)

/-! ### sorting (byte-wise string order, as Go compares strings) -/

def bytesLt : Bytes → Bytes → Bool
  | [], [] => false
  | [], _ :: _ => true
  | _ :: _, [] => false
  | a :: as, b :: bs => if a < b then true else if b < a then false else bytesLt as bs

def insertBy {α : Type} (lt : α → α → Bool) (x : α) : List α → List α
  | [] => [x]
  | y :: ys => if lt x y then x :: y :: ys else y :: insertBy lt x ys

def sortBy {α : Type} (lt : α → α → Bool) : List α → List α
  | [] => []
  | x :: xs => insertBy lt x (sortBy lt xs)

def hasDup : List UInt32 → Bool
  | [] => false
  | x :: xs => xs.contains x || hasDup xs

/-- `GenerateTLO(version)` with `now` standing for `time.Now().Unix()` -/
def sortedTypes (tm : TypeMap) : List TlsType :=
  (sortBy (fun a b => bytesLt (strBytes a.1) (strBytes b.1)) tm).map (·.2)

def generateTLO (version : UInt32) (now : UInt32) (cs : Schema) : Except GErr SchemaV4 :=
  let tm := buildTypes cs
  match convAll ⟨cs, tm⟩ cs with
  | .error e => .error e
  | .ok (constructors, functions) =>
    let types := sortedTypes tm
    let functions := sortBy (fun a b => bytesLt a.id b.id) functions
    if hasDup (types.map (·.name)) then .error .collision
    else .ok { version := version, date := if version = 0 then now else version,
               typesNum := u32 types.length, types := types,
               constructorNum := u32 constructors.length, constructors := constructors,
               functionsNum := u32 functions.length, functions := functions }

end TLVerif.Tlomig
