import TLVerif.Util.Hex
import TLVerif.Prim.TL1String
import TLVerif.Generated.TlomigFacts
import TLVerif.Tlomig.Sexp
/-!
Model of the generated package `internal/tlast/gentlo` (types of `tls.tl`) restricted to what a TLO file
contains: `tls.schema_v4` with `tls.type`, `tls.combinator`/`tls.combinator_v4`, `tls.arg`, the three
`tls.TypeExpr` constructors, `tls.Expr`, `tls.NatExpr`; their TL1 boxed writers (`WriteTL1Boxed`) and readers
(`ReadTL1Boxed`), written the way the generated code is written (tuple length check on write,
`CheckLengthSanity(…, 4)` on read, field-mask conditionals of `tls.arg`).  `int`/`#` fields are `UInt32` bit
patterns, `long` is `UInt64`, `string` is a byte list.  Constructor tags come from the regenerated facts.
-/
namespace TLVerif.Tlomig
open TLVerif.Prim TLVerif.Util
open TLVerif.Facts.Tlomig

inductive NatExpr where
  | const (v : UInt32)
  | var (dif varNum : UInt32)
  deriving DecidableEq, Inhabited

mutual
inductive TypeExpr where
  | tvar (varNum flags : UInt32)
  | array (mult : NatExpr) (argsNum : UInt32) (args : List Arg)
  | expr (name flags childrenNum : UInt32) (children : List Expr)
inductive Arg where
  | mk (id : Bytes) (flags varNum existVarNum existVarBit : UInt32) (type : TypeExpr)
inductive Expr where
  | type (e : TypeExpr)
  | nat (e : NatExpr)
end

instance : Inhabited TypeExpr := ⟨.tvar 0 0⟩

structure TlsType where
  name : UInt32
  id : Bytes
  constructorsNum : UInt32
  flags : UInt32
  arity : UInt32
  paramsType : UInt64
  deriving DecidableEq, Inhabited

inductive Left where
  | builtin
  | args (argsNum : UInt32) (args : List Arg)

inductive Combinator where
  | v0 (name : UInt32) (id : Bytes) (typeName : UInt32) (left : Left) (right : TypeExpr)
  | v4 (name : UInt32) (id : Bytes) (typeName : UInt32) (left : Left) (right : TypeExpr) (flags : UInt32)

def Combinator.name : Combinator → UInt32 | .v0 n .. => n | .v4 n .. => n
def Combinator.id : Combinator → Bytes | .v0 _ i .. => i | .v4 _ i .. => i
def Combinator.typeName : Combinator → UInt32 | .v0 _ _ t .. => t | .v4 _ _ t .. => t

structure SchemaV4 where
  version : UInt32
  date : UInt32
  typesNum : UInt32
  types : List TlsType
  constructorNum : UInt32
  constructors : List Combinator
  functionsNum : UInt32
  functions : List Combinator

/-! ### constants -/

def u32OfInt (i : Int) : UInt32 := UInt32.ofNat (i % 4294967296).toNat

def tSchemaV4 : UInt32 := UInt32.ofNat tagSchemaV4
def tType : UInt32 := UInt32.ofNat tagType
def tCombinator : UInt32 := UInt32.ofNat tagCombinator
def tCombinatorV4 : UInt32 := UInt32.ofNat tagCombinatorV4
def tLeftBuiltin : UInt32 := UInt32.ofNat tagLeftBuiltin
def tLeft : UInt32 := UInt32.ofNat tagLeft
def tRight : UInt32 := UInt32.ofNat tagRight
def tArg : UInt32 := UInt32.ofNat tagArg
def tExprType : UInt32 := UInt32.ofNat tagExprType
def tExprNat : UInt32 := UInt32.ofNat tagExprNat
def tNatConst : UInt32 := UInt32.ofNat tagNatConst
def tNatVar : UInt32 := UInt32.ofNat tagNatVar
def tTypeVar : UInt32 := UInt32.ofNat tagTypeVar
def tArray : UInt32 := UInt32.ofNat tagArray
def tTypeExpr : UInt32 := UInt32.ofNat tagTypeExpr

/-! ### writers (`none` = the Go writer returns an error or panics) -/

def longWrite (v : UInt64) : Bytes :=
  [v.toUInt8, (v >>> 8).toUInt8, (v >>> 16).toUInt8, (v >>> 24).toUInt8,
   (v >>> 32).toUInt8, (v >>> 40).toUInt8, (v >>> 48).toUInt8, (v >>> 56).toUInt8]

def bit1 (f : UInt32) : Bool := f &&& 2 != 0
def bit2 (f : UInt32) : Bool := f &&& 4 != 0

def encNatExpr : NatExpr → Bytes
  | .const v => natWrite tNatConst ++ natWrite v
  | .var d n => natWrite tNatVar ++ natWrite d ++ natWrite n

mutual
def encTypeExpr : TypeExpr → Option Bytes
  | .tvar v f => some (natWrite tTypeVar ++ natWrite v ++ natWrite f)
  | .array m n args =>
    if n.toNat ≠ args.length then none else
    match encArgs args with
    | none => none
    | some a => some (natWrite tArray ++ encNatExpr m ++ natWrite n ++ a)
  | .expr name flags n ch =>
    if n.toNat ≠ ch.length then none else
    match encExprs ch with
    | none => none
    | some c => some (natWrite tTypeExpr ++ natWrite name ++ natWrite flags ++ natWrite n ++ c)
def encArg : Arg → Option Bytes
  | .mk id flags vn evn evb t =>
    match stringWrite id, encTypeExpr t with
    | some s, some tb =>
      some (natWrite tArg ++ s ++ natWrite flags ++ (if bit1 flags then natWrite vn else [])
            ++ (if bit2 flags then natWrite evn else []) ++ (if bit2 flags then natWrite evb else []) ++ tb)
    | _, _ => none
def encArgs : List Arg → Option Bytes
  | [] => some []
  | a :: as =>
    match encArg a, encArgs as with
    | some x, some y => some (x ++ y)
    | _, _ => none
def encExpr : Expr → Option Bytes
  | .type e =>
    match encTypeExpr e with
    | some b => some (natWrite tExprType ++ b)
    | none => none
  | .nat e => some (natWrite tExprNat ++ encNatExpr e)
def encExprs : List Expr → Option Bytes
  | [] => some []
  | a :: as =>
    match encExpr a, encExprs as with
    | some x, some y => some (x ++ y)
    | _, _ => none
end

def encType (t : TlsType) : Option Bytes :=
  match stringWrite t.id with
  | none => none
  | some s => some (natWrite tType ++ natWrite t.name ++ s ++ natWrite t.constructorsNum ++ natWrite t.flags
                    ++ natWrite t.arity ++ longWrite t.paramsType)

def encTypes : List TlsType → Option Bytes
  | [] => some []
  | a :: as =>
    match encType a, encTypes as with
    | some x, some y => some (x ++ y)
    | _, _ => none

def encLeft : Left → Option Bytes
  | .builtin => some (natWrite tLeftBuiltin)
  | .args n args =>
    if n.toNat ≠ args.length then none else
    match encArgs args with
    | none => none
    | some a => some (natWrite tLeft ++ natWrite n ++ a)

def encCombinator : Combinator → Option Bytes
  | .v0 name id tn l r =>
    match stringWrite id, encLeft l, encTypeExpr r with
    | some s, some lb, some rb =>
      some (natWrite tCombinator ++ natWrite name ++ s ++ natWrite tn ++ lb ++ natWrite tRight ++ rb)
    | _, _, _ => none
  | .v4 name id tn l r fl =>
    match stringWrite id, encLeft l, encTypeExpr r with
    | some s, some lb, some rb =>
      some (natWrite tCombinatorV4 ++ natWrite name ++ s ++ natWrite tn ++ lb ++ natWrite tRight ++ rb ++ natWrite fl)
    | _, _, _ => none

def encCombinators : List Combinator → Option Bytes
  | [] => some []
  | a :: as =>
    match encCombinator a, encCombinators as with
    | some x, some y => some (x ++ y)
    | _, _ => none

/-- `SchemaV4.WriteTL1Boxed` -/
def encSchema (s : SchemaV4) : Option Bytes :=
  if s.typesNum.toNat ≠ s.types.length then none
  else if s.constructorNum.toNat ≠ s.constructors.length then none
  else if s.functionsNum.toNat ≠ s.functions.length then none
  else
    match encTypes s.types, encCombinators s.constructors, encCombinators s.functions with
    | some t, some c, some f =>
      some (natWrite tSchemaV4 ++ natWrite s.version ++ natWrite s.date ++ natWrite s.typesNum ++ t
            ++ natWrite s.constructorNum ++ c ++ natWrite s.functionsNum ++ f)
    | _, _, _ => none

/-! ### readers (fuel = an upper bound on the number of nested reader calls; `decodeSchema` uses the input length) -/

def longRead (r : Bytes) : Except RErr (UInt64 × Bytes) :=
  match r with
  | a :: b :: c :: d :: e :: f :: g :: h :: rest =>
    .ok (a.toUInt64 ||| (b.toUInt64 <<< 8) ||| (c.toUInt64 <<< 16) ||| (d.toUInt64 <<< 24)
         ||| (e.toUInt64 <<< 32) ||| (f.toUInt64 <<< 40) ||| (g.toUInt64 <<< 48) ||| (h.toUInt64 <<< 56), rest)
  | _ => .error .eof

/-- `NatReadExactTag` -/
def readExactTag (tag : UInt32) (r : Bytes) : Except RErr Bytes :=
  match natRead r with
  | .error e => .error e
  | .ok (t, rest) => if t = tag then .ok rest else .error .tag

/-- `CheckLengthSanity(r, n, 4)` -/
def lengthSane (r : Bytes) (n : UInt32) : Bool := decide (n.toNat * 4 ≤ r.length)

def decNatExpr (r : Bytes) : Except RErr (NatExpr × Bytes) := do
  let (tag, r) ← natRead r
  if tag = tNatConst then
    let (v, r) ← natRead r
    pure (.const v, r)
  else if tag = tNatVar then
    let (d, r) ← natRead r
    let (n, r) ← natRead r
    pure (.var d n, r)
  else throw .tag

mutual
def decTypeExpr : Nat → Bytes → Except RErr (TypeExpr × Bytes)
  | 0, _ => .error .other
  | fuel + 1, r => do
    let (tag, r) ← natRead r
    if tag = tTypeVar then
      let (v, r) ← natRead r
      let (f, r) ← natRead r
      pure (.tvar v f, r)
    else if tag = tArray then
      let (m, r) ← decNatExpr r
      let (n, r) ← natRead r
      if !lengthSane r n then throw .eof
      let (args, r) ← decArgs fuel n.toNat r
      pure (.array m n args, r)
    else if tag = tTypeExpr then
      let (name, r) ← natRead r
      let (flags, r) ← natRead r
      let (n, r) ← natRead r
      if !lengthSane r n then throw .eof
      let (ch, r) ← decExprs fuel n.toNat r
      pure (.expr name flags n ch, r)
    else throw .tag
def decArg : Nat → Bytes → Except RErr (Arg × Bytes)
  | 0, _ => .error .other
  | fuel + 1, r => do
    let r ← readExactTag tArg r
    let (id, r) ← stringRead r
    let (flags, r) ← natRead r
    let (vn, r) ← if bit1 flags then natRead r else pure (0, r)
    let (evn, r) ← if bit2 flags then natRead r else pure (0, r)
    let (evb, r) ← if bit2 flags then natRead r else pure (0, r)
    let (t, r) ← decTypeExpr fuel r
    pure (.mk id flags vn evn evb t, r)
def decArgs : Nat → Nat → Bytes → Except RErr (List Arg × Bytes)
  | 0, _, _ => .error .other
  | _ + 1, 0, r => .ok ([], r)
  | fuel + 1, n + 1, r => do
    let (a, r) ← decArg fuel r
    let (as, r) ← decArgs fuel n r
    pure (a :: as, r)
def decExpr : Nat → Bytes → Except RErr (Expr × Bytes)
  | 0, _ => .error .other
  | fuel + 1, r => do
    let (tag, r) ← natRead r
    if tag = tExprType then
      let (e, r) ← decTypeExpr fuel r
      pure (.type e, r)
    else if tag = tExprNat then
      let (e, r) ← decNatExpr r
      pure (.nat e, r)
    else throw .tag
def decExprs : Nat → Nat → Bytes → Except RErr (List Expr × Bytes)
  | 0, _, _ => .error .other
  | _ + 1, 0, r => .ok ([], r)
  | fuel + 1, n + 1, r => do
    let (a, r) ← decExpr fuel r
    let (as, r) ← decExprs fuel n r
    pure (a :: as, r)
end

def decType (r : Bytes) : Except RErr (TlsType × Bytes) := do
  let r ← readExactTag tType r
  let (name, r) ← natRead r
  let (id, r) ← stringRead r
  let (cn, r) ← natRead r
  let (fl, r) ← natRead r
  let (ar, r) ← natRead r
  let (pt, r) ← longRead r
  pure (⟨name, id, cn, fl, ar, pt⟩, r)

def decTypes : Nat → Bytes → Except RErr (List TlsType × Bytes)
  | 0, r => .ok ([], r)
  | n + 1, r => do
    let (a, r) ← decType r
    let (as, r) ← decTypes n r
    pure (a :: as, r)

def decLeft (fuel : Nat) (r : Bytes) : Except RErr (Left × Bytes) := do
  let (tag, r) ← natRead r
  if tag = tLeftBuiltin then pure (.builtin, r)
  else if tag = tLeft then
    let (n, r) ← natRead r
    if !lengthSane r n then throw .eof
    let (args, r) ← decArgs fuel n.toNat r
    pure (.args n args, r)
  else throw .tag

def decCombinator (fuel : Nat) (r : Bytes) : Except RErr (Combinator × Bytes) := do
  let (tag, r) ← natRead r
  if tag = tCombinator then
    let (name, r) ← natRead r
    let (id, r) ← stringRead r
    let (tn, r) ← natRead r
    let (l, r) ← decLeft fuel r
    let r ← readExactTag tRight r
    let (rt, r) ← decTypeExpr fuel r
    pure (.v0 name id tn l rt, r)
  else if tag = tCombinatorV4 then
    let (name, r) ← natRead r
    let (id, r) ← stringRead r
    let (tn, r) ← natRead r
    let (l, r) ← decLeft fuel r
    let r ← readExactTag tRight r
    let (rt, r) ← decTypeExpr fuel r
    let (fl, r) ← natRead r
    pure (.v4 name id tn l rt fl, r)
  else throw .tag

def decCombinators (fuel : Nat) : Nat → Bytes → Except RErr (List Combinator × Bytes)
  | 0, r => .ok ([], r)
  | n + 1, r => do
    let (a, r) ← decCombinator fuel r
    let (as, r) ← decCombinators fuel n r
    pure (a :: as, r)

/-- `SchemaV4.ReadTL1Boxed` -/
def decSchema (fuel : Nat) (r : Bytes) : Except RErr (SchemaV4 × Bytes) := do
  let r ← readExactTag tSchemaV4 r
  let (version, r) ← natRead r
  let (date, r) ← natRead r
  let (tn, r) ← natRead r
  if !lengthSane r tn then throw .eof
  let (types, r) ← decTypes tn.toNat r
  let (cn, r) ← natRead r
  if !lengthSane r cn then throw .eof
  let (cs, r) ← decCombinators fuel cn.toNat r
  let (fn, r) ← natRead r
  if !lengthSane r fn then throw .eof
  let (fs, r) ← decCombinators fuel fn.toNat r
  pure (⟨version, date, tn, types, cn, cs, fn, fs⟩, r)

def decodeSchema (r : Bytes) : Except RErr (SchemaV4 × Bytes) := decSchema (r.length + 1) r

/-! ### canonical dump (same text as `go/htlomig/tlo.go: dumpSchema`) -/

def sU32 (v : UInt32) : Sexp := .atom (toString v.toNat)
def sId (b : Bytes) : Sexp := .atom (hexOfBytes b)

def NatExpr.toSexp : NatExpr → Sexp
  | .const v => .node [.atom "nc", sU32 v]
  | .var d n => .node [.atom "nv", sU32 d, sU32 n]

mutual
def TypeExpr.toSexp : TypeExpr → Sexp
  | .tvar v f => .node [.atom "tv", sU32 v, sU32 f]
  | .array m n args => .node [.atom "ar", m.toSexp, sU32 n, .node (argsToSexp args)]
  | .expr name flags n ch => .node [.atom "te", sU32 name, sU32 flags, sU32 n, .node (exprsToSexp ch)]
def Arg.toSexp : Arg → Sexp
  | .mk id flags vn evn evb t => .node [.atom "a", sId id, sU32 flags, sU32 vn, sU32 evn, sU32 evb, t.toSexp]
def argsToSexp : List Arg → List Sexp
  | [] => []
  | a :: as => a.toSexp :: argsToSexp as
def Expr.toSexp : Expr → Sexp
  | .type e => .node [.atom "et", e.toSexp]
  | .nat e => .node [.atom "en", e.toSexp]
def exprsToSexp : List Expr → List Sexp
  | [] => []
  | a :: as => a.toSexp :: exprsToSexp as
end

def Left.toSexp : Left → Sexp
  | .builtin => .atom "lb"
  | .args n as => .node [.atom "l", sU32 n, .node (argsToSexp as)]

def Combinator.toSexp : Combinator → Sexp
  | .v0 name id tn l r => .node [.atom "c0", sU32 name, sId id, sU32 tn, l.toSexp, r.toSexp]
  | .v4 name id tn l r fl => .node [.atom "c4", sU32 name, sId id, sU32 tn, l.toSexp, r.toSexp, sU32 fl]

def TlsType.toSexp (t : TlsType) : Sexp :=
  .node [.atom "t", sU32 t.name, sId t.id, sU32 t.constructorsNum, sU32 t.flags, sU32 t.arity,
         .atom (toString t.paramsType.toNat)]

def SchemaV4.toSexp (s : SchemaV4) (maskDate : Bool) : Sexp :=
  .node [.atom "S", sU32 s.version, if maskDate then .atom "now" else sU32 s.date, sU32 s.typesNum,
         .node (s.types.map TlsType.toSexp), sU32 s.constructorNum, .node (s.constructors.map Combinator.toSexp),
         sU32 s.functionsNum, .node (s.functions.map Combinator.toSexp)]

end TLVerif.Tlomig
