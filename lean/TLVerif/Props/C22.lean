import TLVerif.Syntaxtl2.Parser
import TLVerif.Syntaxtl2.Format
namespace TLVerif.Props.C22
end TLVerif.Props.C22
