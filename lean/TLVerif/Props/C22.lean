import TLVerif.Syntaxtl2.Parser
import TLVerif.Syntaxtl2.Format
import TLVerif.Syntaxtl2.FormatLemmas
import TLVerif.Syntaxtl2.StructLemmas
import TLVerif.Syntaxtl2.FileLemmas
/-! # C22 — TL2 formatter round-trips and is idempotent

Statement (fixed): formatting any parsed TL2 file (with the default and the canonical options) yields text that parses
to the same declarations, and formatting that text again yields the same text.

`RoundTrip o f` / `Idempotent o f` below are the two halves for one options value; `Statement` is the property at
full strength over the model (`parseTL2File`, `printFile`). It is FALSE for the current code: a counter-example
is proved (`statement_fails`, known_findings.d/C22.json; a second one was repaired in /repo 11a4a9c8, see
`one_variant_union_roundtrips_now`). What is proved for ALL files:
* idempotence follows from the round trip (canonical options: from the declarations alone; default options: from
  everything the formatter can print), i.e. the formatter reads nothing else;
* the TL2 parser is complete on printed token sequences (`parse_of_printed_token_sequence`), hence the round trip holds
  for every well-formed file whose printed text passes the decidable lexing certificate
  (`roundtrip_of_lex_certificate`); checks/C22.py evaluates the certificate on every explored instance (T3).
NOT a theorem: that the certificate holds for all well-formed files (lexing of the printed text), and the round trip
outside `File.wf`; these are explored through the tie (see manifest.d/C22.json). -/
namespace TLVerif.Props.C22
open TLVerif.Syntaxtl2

/-- `f` is in the image of the parser. -/
def Parsed (f : File) : Prop := ∃ tx, parseTL2File tx = .ok (.ok f)

/-- the formatted text parses, to the same declarations (comments and positions are not declarations). -/
def RoundTrip (o : FormatOptions) (f : File) : Prop :=
  ∃ f', parseTL2File (printFile o f) = .ok (.ok f') ∧ File.core f' = File.core f

/-- formatting the formatted text again yields the same text. -/
def Idempotent (o : FormatOptions) (f : File) : Prop :=
  ∀ f', parseTL2File (printFile o f) = .ok (.ok f') → printFile o f' = printFile o f

/-- The property at full strength. -/
def Statement : Prop :=
  ∀ o, (o = defaultOptions ∨ o = canonicalOptions) → ∀ f, Parsed f → RoundTrip o f ∧ Idempotent o f

/-- The decidable guard outside of which the unchanged code is known to violate the statement. -/
def Guard (f : File) : Bool := !(f.any Comb.hasDep)

/-- The statement restricted to the guard: what checks/C22.py evaluates on every explored input
(not proved; see the module comment). -/
def StatementUnderGuard : Prop :=
  ∀ o, (o = defaultOptions ∨ o = canonicalOptions) → ∀ f, Parsed f → Guard f = true → RoundTrip o f ∧ Idempotent o f

/-! ### What the formatter reads -/

/-- With the canonical options the text is a function of the declarations alone. -/
theorem canonical_print_core_only (f g : File) (h : File.core f = File.core g) :
    printFile canonicalOptions f = printFile canonicalOptions g := by
  rw [← printFile_core canonicalOptions rfl f, ← printFile_core canonicalOptions rfl g, h]

/-- With any options the text does not depend on right-hand comments nor on comments of function arguments. -/
theorem print_visible_only (o : FormatOptions) (f g : File) (h : File.vis f = File.vis g) :
    printFile o f = printFile o g := by
  rw [← printFile_vis o f, ← printFile_vis o g, h]

/-- **Idempotence follows from the round trip** (canonical options), for every file. -/
theorem canonical_idempotent_of_roundtrip (f : File) (h : RoundTrip canonicalOptions f) :
    Idempotent canonicalOptions f := by
  obtain ⟨f', h1, h2⟩ := h
  intro f'' h3
  rw [h1] at h3
  injection h3 with h3
  injection h3 with h3
  subst h3
  exact canonical_print_core_only _ _ h2

/-- Default options: idempotence follows when the reparsed file agrees on everything the formatter can print. -/
theorem default_idempotent_of_visible_roundtrip (f f' : File)
    (h1 : parseTL2File (printFile defaultOptions f) = .ok (.ok f')) (h2 : File.vis f' = File.vis f) :
    Idempotent defaultOptions f := by
  intro f'' h3
  rw [h1] at h3
  injection h3 with h3
  injection h3 with h3
  subst h3
  exact print_visible_only _ _ _ h2

/-! ### Token-level round trip of the recursive part of the grammar (all depths, all lengths)

`strip its` is the token sequence (type, text) of an iterator without white-space/comment tokens; `typeToks`,
`fieldsToks`, `StructDef.toks` are the token sequences of the text `TL2TypeRef.Print`, the field printers and
`printWithNewLineOption` write (for any options: white space, line breaks and comments are exactly what `strip`
removes). `Ctx N tx it` is the lexer invariant of `C20.lexer_tokens_good`. The theorems say: from such tokens
the parser returns the same type / the same fields and variants up to comments, consuming exactly them.
What is missing for the full statement: the declaration wrappers (name, magic, template arguments, `=`, `<=>`, `=>`,
`;`) and the lexing of the printed text into these tokens — both are covered by the tie only. -/

/-- every well-formed type expression (any nesting depth) is recovered from its printed tokens. -/
theorem type_roundtrip_tokens (t : TypeRef) (hwf : t.wf = true) (its : Iter) (ks : List TK) (pos : Pos) (fuel : Nat)
    (hm : strip its = typeToks t ++ ks) (hfol : FollowK ks) (hf : needT t ≤ fuel) :
    ∃ rest, parseType fuel its pos = .ok ({ start := true }, rest, t) ∧ strip rest = ks ∧ rest <:+ its :=
  typeS t hwf its ks pos fuel hm hfol hf

/-- every list of well-formed named fields is recovered (up to comments) from its printed tokens. -/
theorem fields_roundtrip_tokens {N : Nat} {tx : Bytes} {it : Iter} (hc : Ctx N tx it) (pos : Pos) (fuel : Nat)
    (fs : List Field) (hwf : ∀ f ∈ fs, f.wf = true) (hfuel : ∀ f ∈ fs, needT f.ty ≤ fuel) (its : Iter) (hs : its <:+ it)
    (k : TK) (ks : List TK) (fz : Nat) (hm : strip its = fieldsToks fs ++ k :: ks)
    (hk : fieldStart.contains k.1 = false) (hla : k.1 ≠ T.lAngle) (hfz : fs.length < fz) :
    ∃ rest fs', zeroOrMore (parseField tx fuel) fz its pos [] false = .ok ({ start := false || !fs.isEmpty }, rest, [] ++ fs') ∧
      fs'.map Field.core = fs.map Field.core ∧ strip rest = k :: ks ∧ rest <:+ its :=
  fieldsS hc pos fuel fs hwf hfuel its hs k ks fz [] false hm hk hla hfz

/-- every well-formed struct body — a list of named fields, or a union of two or more variants (alias, fields or
empty) — is recovered (up to comments) from its printed tokens followed by `;`. -/
theorem struct_roundtrip_tokens {N : Nat} {tx : Bytes} {it : Iter} (hc : Ctx N tx it) (sd : StructDef) (hwf : sd.wf = true)
    (its : Iter) (hs : its <:+ it) (ks : List TK) (pos : Pos) (fuel : Nat) (hm : strip its = sd.toks ++ semiTK :: ks)
    (hf : sd.need ≤ fuel) :
    ∃ st rest sd', parseStructDef tx fuel its pos = .ok (st, rest, sd') ∧ st.err = none ∧ sd'.core = sd.core ∧
      strip rest = semiTK :: ks ∧ rest <:+ its :=
  structS hc sd hwf its hs ks pos fuel hm hf

/-- **Parser completeness on printed token sequences** (all well-formed files): whenever the lexer turns a text into
the token sequence of `f` (white space/comments aside, none right after a `:`), `ParseTL2File` returns `f` up to
comments. Covers annotations, names, magic, template arguments, aliases, field lists, unions, function arguments and
alias/struct function results; not the bare-type-reference function result (`=> T`). -/
theorem parse_of_printed_token_sequence (tx : Bytes) (f : File) (lx : Lexed) (hlx : lexTL2 tx = .ok lx) (herr : lx.err = none)
    (hadj : NoWSAfterColon lx.toks) (hwf : File.wf f = true) (hm : strip lx.toks = fileToks f ++ [eofTK]) :
    ∃ f', parseTL2File tx = .ok (.ok f') ∧ f'.map Comb.core = f.map Comb.core :=
  parse_of_printed_tokens tx f lx hlx herr hadj hwf hm

/-- **Round trip from the lexing certificate** (T3): for every well-formed file and ANY options, if the decidable
certificate `lexCert (printFile o f) f` holds — the printed text lexes to the token sequence of `f` — then the text
parses to the same declarations. checks/C22.py evaluates the certificate for every explored file and both option sets. -/
theorem roundtrip_of_lex_certificate (o : FormatOptions) (f : File) (hwf : File.wf f = true)
    (hc : lexCert (printFile o f) f = true) : RoundTrip o f := by
  obtain ⟨f', h1, h2⟩ := parse_of_lexCert (printFile o f) f hwf hc
  exact ⟨f', h1, by simpa [File.core] using h2⟩

/-- … and then formatting is idempotent (canonical options). -/
theorem canonical_idempotent_of_lex_certificate (f : File) (hwf : File.wf f = true)
    (hc : lexCert (printFile canonicalOptions f) f = true) : Idempotent canonicalOptions f :=
  canonical_idempotent_of_roundtrip f (roundtrip_of_lex_certificate canonicalOptions f hwf hc)

/-- the hypotheses are satisfiable by non-trivial values: the lexer's tokens of a printed struct body. -/
def sampleBody : StructDef := .union
  [⟨bs "A", .fields [⟨bs "x", true, false, .bracket (some (.num 3)) (.app ⟨bs "ns", bs "m"⟩ [.ty (.app ⟨[], bs "int"⟩ []), .num 7]), [], []⟩,
      ⟨bs "_", false, true, .app ⟨[], bs "t"⟩ [], [], []⟩], []⟩,
   ⟨bs "b", .alias (.bracket none (.app ⟨[], bs "string"⟩ [])), []⟩, ⟨bs "Type", .fields [], []⟩]

def lexToks (tx : Bytes) : Iter := match lexTL2 tx with | .ok lx => lx.toks | _ => []

example : sampleBody.wf = true ∧
    strip (lexToks (bs "A x?:[3]ns.m<int,7> _:t\n\t| b []string // c\n | Type;")) =
      sampleBody.toks ++ semiTK :: [(T.eof, [])] := by decide +kernel

/-! ### Counter-examples on the unchanged code (both are in the image of the parser) -/

def isFile (r : Res (Except PErr File)) : Bool := match r with | .ok (.ok _) => true | _ => false
def isError (r : Res (Except PErr File)) : Bool := match r with | .ok (.error _) => true | _ => false
def getFile (r : Res (Except PErr File)) : File := match r with | .ok (.ok f) => f | _ => []

theorem eq_of_isFile {r : Res (Except PErr File)} (h : isFile r = true) : r = .ok (.ok (getFile r)) := by
  cases r with
  | ok x => cases x with
    | ok f => rfl
    | error e => cases h
  | panic => cases h
  | nofuel => cases h

/-- `a = | B;` : a union with one variant. -/
def wOne : File := getFile (parseTL2File (bs "a = | B;\n"))
/-- `a = _x:int;` : a field with a deprecated name. -/
def wDep : File := getFile (parseTL2File (bs "a = _x:int;\n"))

theorem wOne_parsed : Parsed wOne := ⟨bs "a = | B;\n", eq_of_isFile (by decide +kernel)⟩
theorem wDep_parsed : Parsed wDep := ⟨bs "a = _x:int;\n", eq_of_isFile (by decide +kernel)⟩

/-- Historical note: until /repo commit 11a4a9c8 a one-variant union printed on one line lost its leading `|`
(`a = | B;` was formatted as `a = B;`, which the parser rejects); this file proved
`roundtrip_fails_at_one_variant_union : ¬ RoundTrip canonicalOptions wOne`. With the repaired printer
(`i != 0 || forceNewline || len(Variants) == 1`, modelled in `printVariants`) the witness round-trips: -/
theorem one_variant_union_roundtrips_now :
    isFile (parseTL2File (printFile canonicalOptions wOne)) = true ∧
    (getFile (parseTL2File (printFile canonicalOptions wOne))).any Comb.hasSingletonUnion = true ∧
    printFile canonicalOptions (getFile (parseTL2File (printFile canonicalOptions wOne))) = printFile canonicalOptions wOne ∧
    printFile defaultOptions (getFile (parseTL2File (printFile defaultOptions wOne))) = printFile defaultOptions wOne := by
  decide +kernel

/-- the formatted deprecated-name field (`a = _:int;`) parses back to a different declaration. -/
theorem roundtrip_fails_at_dep_name : ¬ RoundTrip canonicalOptions wDep := by
  intro ⟨f', h, hc⟩
  have h3 : (File.core (getFile (parseTL2File (printFile canonicalOptions wDep)))).any Comb.hasDep = false := by
    decide +kernel
  have h4 : (File.core wDep).any Comb.hasDep = true := by decide +kernel
  rw [h] at h3
  simp only [getFile] at h3
  rw [hc, h4] at h3
  cases h3

theorem statement_fails : ¬ Statement := by
  intro h
  exact roundtrip_fails_at_dep_name (h canonicalOptions (Or.inr rfl) wDep wDep_parsed).1

/-- the remaining witness is outside the guard; the repaired one-variant union is inside it -/
theorem witnesses_outside_guard : Guard wDep = false ∧ Guard wOne = true := by decide +kernel

/-! ### The guard is satisfiable by non-trivial files, and the property holds there (instances) -/

def sample : Bytes :=
  bs "// c\n@x p.q#0000000a<t:Type,n:#> = | A // r\n | b [n]t | C x?:[]m<t,3> _:int;\nf#00000001 a:int => <=> [string]p.q<int,4>;\n"

def roundTripB (o : FormatOptions) (f : File) : Bool :=
  match parseTL2File (printFile o f) with
  | .ok (.ok f') => (File.core f').length == (File.core f).length && printFile o f' == printFile o f
  | _ => false

def sample2 : Bytes :=
  bs "// c\n@x p.q#0000000a<t:Type,n:#> = A | b [n]t | C x?:[]m<t,3> _:int;\nf#00000001 a:int => <=> [string]p.q<int,4>;\n"

example : File.wf (getFile (parseTL2File sample)) = true ∧
    lexCert (printFile canonicalOptions (getFile (parseTL2File sample))) (getFile (parseTL2File sample)) = true ∧
    File.wf (getFile (parseTL2File sample2)) = true ∧
    lexCert (printFile defaultOptions (getFile (parseTL2File sample2))) (getFile (parseTL2File sample2)) = true := by
  decide +kernel

example : isFile (parseTL2File sample) = true ∧ Guard (getFile (parseTL2File sample)) = true ∧
    roundTripB canonicalOptions (getFile (parseTL2File sample)) = true ∧
    roundTripB defaultOptions (getFile (parseTL2File sample)) = true := by decide +kernel

end TLVerif.Props.C22
