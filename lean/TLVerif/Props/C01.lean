import TLVerif.Codec.TL1RoundTrip
import TLVerif.Codec.TL1Normal
import TLVerif.Codec.TL1Example
/-!
# C01 — TL1 round trip

Model: `TLVerif/Codec/TL1.lean`, tied to the generated Go code by `checks/C01.py`.
Helper lemmas: `TLVerif/Codec/TL1RoundTrip.lean`; predicates: `TLVerif/Codec/TL1Wf.lean`.

Full-strength statement `TL1RoundTripStatement cfg d`: every successfully written value reads back
(leaving any suffix untouched) to a value that re-encodes to the same bytes.  It is **false**:

* with `--checkLengthSanity` (`cfg.sanity = true`) when array elements occupy 0 bytes
  (`tl1_roundtrip_fails_with_sanity_at`: `holder xs:(vector true)` with 3 elements writes `03000000`, which the
  reader refuses with EOF because `CheckLengthSanity` wants 12 more bytes) — a genuine finding about the code;
* for values that no reader/setter produces, e.g. a `#` field that is masked out but non-zero and used as an
  array size (`tl1_roundtrip_fails_without_normal_at`); Go's generated setters keep such objects consistent.

Proved (`tl1_roundtrip_partial`): for descriptors with `Desc.rtOk` (tags fit 32 bits, references point to earlier
fields, union tags select their variant), for `cfg.sanity = false` or under `Desc.elemMin4` (every vector / dynamic
tuple / dictionary element type encodes to ≥ 4 bytes, by the sound lower bound `minSize`), every `Normal` value
that the writer accepts reads back **exactly** (`v' = v`), with any suffix left untouched.
`tl1_roundtrip_partial_on` is the same with the guards required only on a reference-closed set `S` of instances
(`Desc.closed`, e.g. `d.reach ty`): a zero-size element type somewhere in the schema (the real `cases.tl` has one)
does not spoil the theorem for the types that cannot reach it.
-/
namespace TLVerif.Props.C01
open TLVerif.Prim TLVerif.Codec

/-- the full-strength statement for a configuration and descriptor -/
def TL1RoundTripStatement (cfg : Cfg) (d : Desc) : Prop :=
  ∀ (fuel ty : Nat) (bare : Bool) (params : List Nat) (v : Val) (bs : Bytes),
    writeTL1 d fuel ty bare params v = .ok bs →
    ∀ rest, ∃ v', readTL1 cfg d fuel ty bare params (bs ++ rest) = .ok (v', rest) ∧
      writeTL1 d fuel ty bare params v' = .ok bs

/-- `Normal`: the value is "as a reader produces it" (decidable: `normalTL1` is a `Bool` function) -/
def Normal (d : Desc) (fuel ty : Nat) (bare : Bool) (params : List Nat) (v : Val) : Prop :=
  normalTL1 d fuel ty bare params v = true

instance (d : Desc) (fuel ty : Nat) (bare : Bool) (params : List Nat) (v : Val) :
    Decidable (Normal d fuel ty bare params v) := by unfold Normal; infer_instance

/-- **C01** on a reference-closed set `S` of instances (guards `rtOk` and `sanity = false ∨ elemMin4` on `S`,
`Normal` on the value). Exact round trip. -/
theorem tl1_roundtrip_partial_on (cfg : Cfg) (d : Desc) (S : Nat → Bool) (hcl : d.closed S = true)
    (hrt : d.allOn S (Inst.rtOk d) = true)
    (hs : cfg.sanity = false ∨ d.allOn S (Inst.elemMin4 d) = true)
    (fuel ty : Nat) (bare : Bool) (params : List Nat) (v : Val) (bs : Bytes) (hS : S ty = true)
    (hn : Normal d fuel ty bare params v) (hw : writeTL1 d fuel ty bare params v = .ok bs) :
    ∀ rest, readTL1 cfg d fuel ty bare params (bs ++ rest) = .ok (v, rest) :=
  fun rest => writeTL1_read cfg d S hcl hrt hs fuel ty bare params v bs rest hS hn hw

/-- **C01** (partial: guards `rtOk`, `sanity = false ∨ elemMin4`, `Normal`). Exact round trip. -/
theorem tl1_roundtrip_partial (cfg : Cfg) (d : Desc) (hrt : d.rtOk = true)
    (hs : cfg.sanity = false ∨ d.elemMin4 = true)
    (fuel ty : Nat) (bare : Bool) (params : List Nat) (v : Val) (bs : Bytes)
    (hn : Normal d fuel ty bare params v) (hw : writeTL1 d fuel ty bare params v = .ok bs) :
    ∀ rest, readTL1 cfg d fuel ty bare params (bs ++ rest) = .ok (v, rest) :=
  tl1_roundtrip_partial_on cfg d allInsts (Desc.closed_all d) (Desc.allOn_all hrt _)
    (hs.elim Or.inl (fun h => Or.inr (Desc.allOn_all h _))) fuel ty bare params v bs rfl hn hw

/-- the same in the shape of `TL1RoundTripStatement` -/
theorem tl1_roundtrip_partial_exists (cfg : Cfg) (d : Desc) (hrt : d.rtOk = true)
    (hs : cfg.sanity = false ∨ d.elemMin4 = true)
    (fuel ty : Nat) (bare : Bool) (params : List Nat) (v : Val) (bs : Bytes)
    (hn : Normal d fuel ty bare params v) (hw : writeTL1 d fuel ty bare params v = .ok bs) :
    ∀ rest, ∃ v', readTL1 cfg d fuel ty bare params (bs ++ rest) = .ok (v', rest) ∧
      writeTL1 d fuel ty bare params v' = .ok bs :=
  fun rest => ⟨v, tl1_roundtrip_partial cfg d hrt hs fuel ty bare params v bs hn hw rest, hw⟩

/-- `Normal` is exactly met by decoded values: on a reference-closed set without dictionaries and `bit`,
whatever the reader returns is `Normal`. -/
theorem tl1_read_normal_on (cfg : Cfg) (d : Desc) (S : Nat → Bool) (hcl : d.closed S = true)
    (hnd : d.allOn S (fun i => !i.isDict) = true) (hnb : d.allOn S (fun i => !i.isBitPrim) = true)
    (fuel ty : Nat) (bare : Bool) (params : List Nat) (bs : Bytes) (v : Val) (rest : Bytes)
    (hS : S ty = true) (h : readTL1 cfg d fuel ty bare params bs = .ok (v, rest)) :
    Normal d fuel ty bare params v :=
  readTL1_normal cfg d S hcl hnb hnd fuel ty bare params bs v rest hS h

/-- C01 ∘ C02: decoding is a bijection between accepted prefixes and `Normal` values — what was decoded from
`pre ++ rest` is re-encoded as `pre` and decodes again to the same value in front of any other suffix. -/
theorem tl1_decode_stable_on (cfg : Cfg) (d : Desc) (S : Nat → Bool) (hcl : d.closed S = true)
    (hnd : d.allOn S (fun i => !i.isDict) = true) (hnb : d.allOn S (fun i => !i.isBitPrim) = true)
    (hrt : d.allOn S (Inst.rtOk d) = true)
    (hs : cfg.sanity = false ∨ d.allOn S (Inst.elemMin4 d) = true)
    (fuel ty : Nat) (bare : Bool) (params : List Nat) (bs : Bytes) (v : Val) (rest : Bytes)
    (hS : S ty = true) (h : readTL1 cfg d fuel ty bare params bs = .ok (v, rest)) :
    ∃ pre, bs = pre ++ rest ∧ writeTL1 d fuel ty bare params v = .ok pre ∧
      ∀ rest', readTL1 cfg d fuel ty bare params (pre ++ rest') = .ok (v, rest') := by
  obtain ⟨pre, w, e, hw, r⟩ := readTL1_canonR ByteRel.eq cfg d S hcl hnb (Or.inl hnd) fuel _ _ _ _ _ _ hS h
  have r' : w = pre := r
  subst r'
  have hn := tl1_read_normal_on cfg d S hcl hnd hnb fuel ty bare params bs v rest hS h
  exact ⟨w, e, hw, tl1_roundtrip_partial_on cfg d S hcl hrt hs fuel ty bare params v w hS hn hw⟩

/-- soundness of the guard: `minSize` is a lower bound of every successful encoding (any two fuels) -/
theorem minSize_sound (d : Desc) (g fuel ty : Nat) (bare : Bool) (params : List Nat) (v : Val) (bs : Bytes)
    (hw : writeTL1 d fuel ty bare params v = .ok bs) : minSize d g ty bare ≤ bs.length :=
  Codec.minSize_sound d g fuel ty bare params v bs hw

/-! ## the known finding: `CheckLengthSanity` breaks the round trip for zero-size elements -/

/-- `holder xs:(vector true)`, 3 elements: written as tag ++ `03000000`; the reader answers EOF. -/
theorem tl1_roundtrip_fails_with_sanity_at : ¬ TL1RoundTripStatement { sanity := true } Ex.zeroSize := by
  intro h
  have hw : writeTL1 Ex.zeroSize 3 2 false [] Ex.zeroSizeVal = .ok [0x0d, 0xf0, 0xad, 0x0b, 3, 0, 0, 0] := by rfl
  obtain ⟨v', hr, _⟩ := h _ _ _ _ _ _ hw []
  have hr' : readTL1 { sanity := true } Ex.zeroSize 3 2 false [] ([0x0d, 0xf0, 0xad, 0x0b, 3, 0, 0, 0] ++ [])
      = .error .eof := by rfl
  rw [hr'] at hr
  cases hr

/-- the bare vector itself: `03000000` is written and then refused -/
example : writeTL1 Ex.zeroSize 2 1 true [] (.arr [.struct [], .struct [], .struct []]) = .ok [3, 0, 0, 0] := by rfl
example : readTL1 { sanity := true } Ex.zeroSize 2 1 true [] [3, 0, 0, 0] = .error .eof := by rfl
/-- without the sanity check the same bytes read back -/
example : readTL1 { sanity := false } Ex.zeroSize 2 1 true [] [3, 0, 0, 0]
    = .ok (.arr [.struct [], .struct [], .struct []], []) := by rfl
/-- the guard notices: the descriptor is not `elemMin4`, although it is `rtOk` -/
example : Ex.zeroSize.elemMin4 = false ∧ Ex.zeroSize.rtOk = true := by decide

/-- `opt m:# n:m.0?# xs:n*[int]` with `m = 0` but `n = 2` stored: the writer emits 2 elements,
the reader (seeing `n` masked out, hence 0) reads none. Not `Normal`; fails even without the sanity check. -/
theorem tl1_roundtrip_fails_without_normal_at : ¬ TL1RoundTripStatement { sanity := false } Ex.optD := by
  intro h
  have hw : writeTL1 Ex.optD 3 3 true [] (.struct [some (.nat 0), some (.nat 2), some (.arr [.nat 1, .nat 2])])
      = .ok [0, 0, 0, 0, 1, 0, 0, 0, 2, 0, 0, 0] := by rfl
  obtain ⟨v', hr, _⟩ := h _ _ _ _ _ _ hw []
  have hr' : readTL1 { sanity := false } Ex.optD 3 3 true [] ([0, 0, 0, 0, 1, 0, 0, 0, 2, 0, 0, 0] ++ [])
      = .ok (.struct [some (.nat 0), none, some (.arr [])], [1, 0, 0, 0, 2, 0, 0, 0]) := by rfl
  rw [hr'] at hr
  injection hr with hr
  injection hr with _ hr
  cases hr

example : ¬ Normal Ex.optD 3 3 true [] (.struct [some (.nat 0), some (.nat 2), some (.arr [.nat 1, .nat 2])]) := by
  decide

/-! ## the writer refuses arrays whose length disagrees with the size they depend on -/

/-- a tuple whose length differs from its size (constant, or nat parameter 0) is never written -/
theorem tl1_write_rejects_bad_sizes (d : Desc) (fuel ty : Nat) (bare : Bool) (params : List Nat) (a : ArrayD)
    (es : List Val) (na : List Nat) (n : Nat)
    (hg : d.get? ty = some (.array a)) (ht : a.isTuple = true)
    (hna : natArgVals [] params a.elem.natArgs = some na)
    (hn : (if a.dynamic then params[0]? else some a.count) = some n)
    (hl : es.length ≠ n) :
    writeTL1 d (fuel + 1) ty bare params (.arr es) = .error .shape := by
  simp only [writeTL1, hg, hna, ht, if_true, hn, ne_eq, hl, not_false_eq_true]

/-- whatever the descriptor says about nat arguments, bytes are never produced for such a value -/
theorem tl1_write_rejects_bad_sizes_never_bytes (d : Desc) (fuel ty : Nat) (bare : Bool) (params : List Nat)
    (a : ArrayD) (es : List Val) (n : Nat)
    (hg : d.get? ty = some (.array a)) (ht : a.isTuple = true)
    (hn : (if a.dynamic then params[0]? else some a.count) = some n)
    (hl : es.length ≠ n) (bs : Bytes) :
    writeTL1 d fuel ty bare params (.arr es) ≠ .ok bs := by
  intro h
  cases fuel with
  | zero => simp [writeTL1] at h
  | succ fuel =>
    cases hna : natArgVals [] params a.elem.natArgs with
    | none => simp [writeTL1, hg, hna] at h
    | some na =>
      rw [tl1_write_rejects_bad_sizes d fuel ty bare params a es na n hg ht hna hn hl] at h
      cases h

/-- at the level of the enclosing struct: `tup n:# xs:n*[int]` with `n = 3` and two elements -/
example : writeTL1 Ex.tupD 3 3 false [] (.struct [some (.nat 3), some (.arr [.nat 1, .nat 2])]) = .error .shape := by rfl
example : writeTL1 Ex.tupD 3 3 false [] (.struct [some (.nat 2), some (.arr [.nat 1, .nat 2])])
    = .ok [2, 0, 0, 0,  2, 0, 0, 0,  1, 0, 0, 0,  2, 0, 0, 0] := by rfl

/-! ## the hypotheses are satisfiable on a non-trivial descriptor -/

example : Ex.demo.rtOk = true ∧ Ex.demo.elemMin4 = true := by decide
example : Normal Ex.demo 3 4 false [] Ex.demoVal := by decide
example : ∀ rest, readTL1 { sanity := true } Ex.demo 3 4 false [] (Ex.demoBytes ++ rest) = .ok (Ex.demoVal, rest) :=
  tl1_roundtrip_partial _ Ex.demo (by decide) (Or.inr (by decide)) 3 4 false [] _ _ (by decide) (by rfl)
/-- `zeroSize` is not `elemMin4`, but its instance 0 (`true`) reaches no array: the theorem applies there with sanity on -/
example : Ex.zeroSize.closed (Ex.zeroSize.reach 0) = true ∧
    Ex.zeroSize.allOn (Ex.zeroSize.reach 0) (Inst.elemMin4 Ex.zeroSize) = true := by decide
example : Ex.unionD.rtOk = true ∧ Ex.tupD.rtOk = true ∧ Ex.optD.rtOk = true ∧ Ex.dictD.rtOk = true := by decide
example : Normal Ex.unionD 2 3 false [] (.union 1 (.struct [])) := by decide
example : Normal Ex.dictD 3 2 true [] (.arr [.struct [some (.nat 1), some (.nat 3)], .struct [some (.nat 2), some (.nat 0)]]) := by
  decide

end TLVerif.Props.C01
