import TLVerif.Tool.OutDirLemmas
import TLVerif.Tool.RelPathLemmas
import TLVerif.Tool.LegacyOutDirLemmas
import TLVerif.Generated.ToolLegacyFacts
/-!
# C16 — Output directory management is exact and safe

Statement (fixed): after a successful generation the output directory contains exactly the files of that generation
(stale files from earlier generations are removed and unchanged files are not rewritten); a non-empty output
directory that lacks the previous-generation marker file is refused and left unmodified; nothing outside the
output directory is written except the runtime library location derived from the package paths.

All theorems are about `write` (model of `internal/puregen/outdir.go (*OutDir).Write`) started from an **arbitrary**
file system `fs` — i.e. after any history of generations, planted foreign files and deletions — and an arbitrary
code map given as a list with distinct keys in arbitrary (scheduler-chosen) order, for any formatter `fmt`.
-/
namespace TLVerif.Props.C16
open TLVerif.Tool

variable (fmt : Path → String → String) (fs : FS) (code : List (Path × String)) (marker : Path)

/-- The generation is refused exactly when the output directory holds at least one file and no marker file. -/
theorem refused_iff :
    (write fmt fs code marker).outcome = .refused ↔ (relativeFiles fs ≠ [] ∧ marker ∉ relativeFiles fs) :=
  (write_outcome_cases fmt fs code marker).1

/-- A refused generation leaves the file system (files *and* directories) exactly as it was and writes / deletes nothing. -/
theorem refused_leaves_fs_unchanged (h : (write fmt fs code marker).outcome = .refused) :
    (write fmt fs code marker).fs = fs ∧ (write fmt fs code marker).written = [] ∧
    (write fmt fs code marker).deleted = [] := by
  have hc := (refused_iff fmt fs code marker).mp h
  rw [write_refused fmt fs code marker hc]; exact ⟨rfl, rfl, rfl⟩

/-- After a successful generation, for every path inside the output directory: the file there is this generation's
(formatted) file, and there is a file only if this generation produced one — stale files are gone, foreign files are gone. -/
theorem after_success_exact (hnd : (keys code).Nodup) (h : (write fmt fs code marker).outcome = .ok)
    (p : Path) (hp : isOutside p = false) :
    (write fmt fs code marker).fs.lookup p = (alookup p code).map (fmt p) := by
  have hc := (write_outcome_cases fmt fs code marker).2.mp h
  rw [write_ok_lookup fmt fs code marker hnd hc p]
  cases ha : alookup p code with
  | some c => rfl
  | none =>
    simp only [Option.map_none]
    by_cases hr : p ∈ relativeFiles fs
    · rw [if_pos hr]
    · rw [if_neg hr]
      have : ¬ (isOutside p = false ∧ (fs.lookup p).isSome = true) := fun hh => hr ((mem_relativeFiles fs p).mpr hh)
      cases hl : fs.lookup p with
      | none => rfl
      | some v => exact absurd ⟨hp, by rw [hl]; rfl⟩ this

/-- The set of files inside the output directory after success is exactly the set of keys of this generation
that do not point outside. -/
theorem relative_files_after_success (hnd : (keys code).Nodup) (h : (write fmt fs code marker).outcome = .ok) (p : Path) :
    p ∈ relativeFiles (write fmt fs code marker).fs ↔ (isOutside p = false ∧ p ∈ keys code) := by
  rw [mem_relativeFiles]
  constructor
  · rintro ⟨ho, hs⟩
    rw [after_success_exact fmt fs code marker hnd h p ho] at hs
    refine ⟨ho, (alookup_isSome_iff p code).mp ?_⟩
    cases ha : alookup p code with
    | none => rw [ha] at hs; cases hs
    | some c => rfl
  · rintro ⟨ho, hk⟩
    refine ⟨ho, ?_⟩
    rw [after_success_exact fmt fs code marker hnd h p ho]
    have := (alookup_isSome_iff p code).mpr hk
    cases ha : alookup p code with
    | none => rw [ha] at this; cases this
    | some c => rfl

/-- Outside the output directory a file changes only if it is a key of this generation (then it holds that key's
formatted code); every other outside file keeps its content, whatever the outcome. -/
theorem outside_only_code_keys (hnd : (keys code).Nodup) (p : Path) (hp : isOutside p = true)
    (hk : p ∉ keys code) : (write fmt fs code marker).fs.lookup p = fs.lookup p := by
  by_cases hc : refuseCond fs marker
  · rw [write_refused fmt fs code marker hc]
  · rw [write_ok_lookup fmt fs code marker hnd hc p, (alookup_none_iff p code).mpr hk]
    simp only []
    have : p ∉ relativeFiles fs := fun hr => by
      have := ((mem_relativeFiles fs p).mp hr).1; rw [hp] at this; cases this
    rw [if_neg this]

/-- The write log: a file is written iff it is a key of this generation and it is *not* the case that it already
exists inside the output directory with exactly the (formatted) content.  In particular … -/
theorem written_iff (hnd : (keys code).Nodup) (h : (write fmt fs code marker).outcome = .ok) (p : Path) :
    p ∈ (write fmt fs code marker).written ↔
      ∃ c, alookup p code = some c ∧ ¬ (p ∈ relativeFiles fs ∧ fs.lookup p = some (fmt p c)) :=
  write_ok_written fmt fs code marker hnd ((write_outcome_cases fmt fs code marker).2.mp h) p

/-- … unchanged files are not rewritten. -/
theorem unchanged_not_rewritten (hnd : (keys code).Nodup) (p : Path) (c : String) (hpc : (p, c) ∈ code)
    (hin : isOutside p = false) (hsame : fs.lookup p = some (fmt p c)) :
    p ∉ (write fmt fs code marker).written := by
  by_cases hc : refuseCond fs marker
  · rw [write_refused fmt fs code marker hc]; simp
  · rw [write_ok_written fmt fs code marker hnd hc p]
    rintro ⟨c', hc', hn⟩
    have : c' = c := by
      have := alookup_of_mem hnd hpc; rw [this] at hc'; cases hc'; rfl
    subst this
    exact hn ⟨(mem_relativeFiles fs p).mpr ⟨hin, by rw [hsame]; rfl⟩, hsame⟩

/-- … and a changed or new file *is* written with the new content (see `after_success_exact`). -/
theorem changed_is_rewritten (hnd : (keys code).Nodup) (h : (write fmt fs code marker).outcome = .ok)
    (p : Path) (c : String) (hpc : (p, c) ∈ code) (hdiff : fs.lookup p ≠ some (fmt p c)) :
    p ∈ (write fmt fs code marker).written :=
  (written_iff fmt fs code marker hnd h p).mpr ⟨c, alookup_of_mem hnd hpc, fun hh => hdiff hh.2⟩

/-- Exactly the stale files (inside the output directory, not produced by this generation) are deleted. -/
theorem deleted_iff (h : (write fmt fs code marker).outcome = .ok) (p : Path) :
    p ∈ (write fmt fs code marker).deleted ↔ p ∈ relativeFiles fs ∧ p ∉ keys code :=
  write_ok_deleted fmt fs code marker ((write_outcome_cases fmt fs code marker).2.mp h) p

/-- Every write goes to a key of this generation and every deletion to a file inside the output directory:
the only paths touched outside the output directory are keys of the code map that start with `..`
(in `gengo` these are `BasicPackageRelativePath/basictl.go` and `basictl2.go`, see `basictl_rel_path`). -/
theorem writes_only_under_outdir_or_basictl (hnd : (keys code).Nodup) (p : Path) :
    (p ∈ (write fmt fs code marker).written → p ∈ keys code) ∧
    (p ∈ (write fmt fs code marker).deleted → isOutside p = false ∧ p ∉ keys code) := by
  by_cases hc : refuseCond fs marker
  · rw [write_refused fmt fs code marker hc]; simp
  · constructor
    · intro hw
      obtain ⟨c, hc', _⟩ := (write_ok_written fmt fs code marker hnd hc p).mp hw
      exact (alookup_isSome_iff p code).mp (by rw [hc']; rfl)
    · intro hd
      obtain ⟨a, b⟩ := (write_ok_deleted fmt fs code marker hc p).mp hd
      exact ⟨((mem_relativeFiles fs p).mp a).1, b⟩

/-- every file of the generation is either written or counted as "did not change" -/
theorem counts (h : (write fmt fs code marker).outcome = .ok) :
    (write fmt fs code marker).notTouched + (write fmt fs code marker).written.length = code.length :=
  write_ok_count fmt fs code marker ((write_outcome_cases fmt fs code marker).2.mp h)

/-- Running the same generation again (same entries, any order) after a success is not refused, deletes nothing and
writes nothing inside the output directory. -/
theorem second_run_touches_nothing (code' : List (Path × String)) (hnd : (keys code).Nodup) (hnd' : (keys code').Nodup)
    (hsame : ∀ p, alookup p code' = alookup p code)
    (hm : marker ∈ keys code) (hmi : isOutside marker = false)
    (h : (write fmt fs code marker).outcome = .ok) :
    let r2 := write fmt (write fmt fs code marker).fs code' marker
    r2.outcome = .ok ∧ r2.deleted = [] ∧ ∀ p ∈ r2.written, isOutside p = true := by
  intro r2
  have hrel := relative_files_after_success fmt fs code marker hnd h
  have hk : ∀ p, p ∈ keys code' ↔ p ∈ keys code := by
    intro p; rw [← alookup_isSome_iff, ← alookup_isSome_iff, hsame]
  have hok : r2.outcome = .ok := by
    refine (write_outcome_cases fmt _ code' marker).2.mpr ?_
    rintro ⟨_, hn⟩; exact hn ((hrel marker).mpr ⟨hmi, hm⟩)
  refine ⟨hok, ?_, ?_⟩
  · apply List.eq_nil_iff_forall_not_mem.mpr
    intro p hp
    obtain ⟨a, b⟩ := (deleted_iff fmt _ code' marker hok p).mp hp
    exact b ((hk p).mpr ((hrel p).mp a).2)
  · intro p hp
    obtain ⟨c, hc, hn⟩ := (written_iff fmt _ code' marker hnd' hok p).mp hp
    cases ho : isOutside p with
    | true => rfl
    | false =>
      exfalso; apply hn
      have hpk : p ∈ keys code := (hk p).mp ((alookup_isSome_iff p code').mp (by rw [hc]; rfl))
      refine ⟨(hrel p).mpr ⟨ho, hpk⟩, ?_⟩
      rw [after_success_exact fmt fs code marker hnd h p ho, ← hsame, hc]; rfl

/-- After a success whose code map contains the marker (inside the output directory), no later generation is refused. -/
theorem next_generation_accepted (code' : List (Path × String)) (hnd : (keys code).Nodup)
    (h : (write fmt fs code marker).outcome = .ok) (hm : marker ∈ keys code) (hmi : isOutside marker = false) :
    (write fmt (write fmt fs code marker).fs code' marker).outcome = .ok := by
  refine (write_outcome_cases fmt _ code' marker).2.mpr ?_
  rintro ⟨_, hn⟩
  exact hn ((relative_files_after_success fmt fs code marker hnd h marker).mpr ⟨hmi, hm⟩)

/-- Every file is written at most once per generation. -/
theorem each_file_written_at_most_once (hnd : (keys code).Nodup) : (write fmt fs code marker).written.Nodup :=
  write_written_nodup fmt fs code marker hnd

/-- Directory pruning removes only directories that existed before the generation (and are empty afterwards):
a directory that is not among the collected ones — in particular every directory created for a new file — stays. -/
theorem pruning_only_removes_collected (fs' : FS) (L : List Path) (d : Path) :
    (d ∈ (pruneDirs fs' L).dirs → d ∈ fs'.dirs) ∧ (d ∈ fs'.dirs → d ∉ L → d ∈ (pruneDirs fs' L).dirs) :=
  ⟨pruneDirs_subset L fs' d, pruneDirs_keeps L fs' d⟩

/-! ## Histories -/

/-- A directory that holds a file but no marker is protected for ever: whatever generations are attempted, all are
refused and the file system never changes. -/
theorem protected_forever (gens : List (List (Path × String))) (h : relativeFiles fs ≠ [] ∧ marker ∉ relativeFiles fs) :
    (runHistory fmt marker fs (gens.map Step.gen)).1 = fs ∧
    ∀ r ∈ (runHistory fmt marker fs (gens.map Step.gen)).2, r.outcome = .refused ∧ r.written = [] ∧ r.deleted = [] := by
  induction gens with
  | nil => simp [runHistory]
  | cons g rest ih =>
    simp only [List.map_cons, runHistory]
    rw [write_refused fmt fs g marker h]
    simp only []
    refine ⟨ih.1, ?_⟩
    intro r hr
    rcases List.mem_cons.mp hr with e | e
    · subst e; exact ⟨rfl, rfl, rfl⟩
    · exact ih.2 r e

theorem runHistory_append_gen (steps : List Step) : ∀ (fs0 : FS) (code : List (Path × String)),
    runHistory fmt marker fs0 (steps ++ [Step.gen code]) =
      ((write fmt (runHistory fmt marker fs0 steps).1 code marker).fs,
       (runHistory fmt marker fs0 steps).2 ++ [write fmt (runHistory fmt marker fs0 steps).1 code marker]) := by
  induction steps with
  | nil => intro fs0 code; simp [runHistory]
  | cons s rest ih =>
    intro fs0 code
    cases s with
    | gen c => simp only [List.cons_append, runHistory]; rw [ih]
    | plantFile p c => simp only [List.cons_append, runHistory]; rw [ih]
    | plantDir d => simp only [List.cons_append, runHistory]; rw [ih]
    | rm p => simp only [List.cons_append, runHistory]; rw [ih]

/-- **Exactness after any history.**  Whatever happened before (earlier generations with other schemas, foreign files
and directories planted, files removed), if the last generation succeeds then the files inside the output directory
are exactly that generation's. -/
theorem history_exact (steps : List Step) (fs0 : FS) (hnd : (keys code).Nodup) :
    let res := runHistory fmt marker fs0 (steps ++ [Step.gen code])
    ∀ r, res.2.getLast? = some r → r.outcome = .ok →
      ∀ p, isOutside p = false → res.1.lookup p = (alookup p code).map (fmt p) := by
  intro res r hr hok p hp
  have e : res = _ := runHistory_append_gen fmt marker steps fs0 code
  rw [e] at hr ⊢
  simp at hr
  subst hr
  exact after_success_exact fmt _ code marker hnd hok p hp

/-! ## The refusal rule at full strength FAILS for directories that hold only empty directories (known finding)

The property says "a non-empty output directory that lacks the marker is refused and left unmodified".  The code
only counts regular files (`relativeFiles`): a directory containing only (nested) empty directories is accepted, and
the final loop then removes those directories.  `refused_iff` above is the exact (partial) rule: guard = "holds at
least one non-directory". -/

/-- full-strength refusal rule: *any* entry (file or directory) makes the output directory non-empty -/
def RefusalFullStrength : Prop :=
  ∀ (fmt : Path → String → String) (fs : FS) (code : List (Path × String)) (marker : Path),
    (relativeFiles fs ≠ [] ∨ fs.dirs ≠ []) → marker ∉ relativeFiles fs → (write fmt fs code marker).outcome = .refused

/-- counter-example: output directory containing just the empty directory `e` -/
theorem refusal_full_fails_at : ¬ RefusalFullStrength := by
  intro h
  have := h (fun _ c => c) ⟨[], ["e"]⟩ [] "meta/meta.go" (Or.inr (by simp)) (by simp [relativeFiles])
  have h2 := (write_outcome_cases (fun _ c => c) ⟨[], ["e"]⟩ [] "meta/meta.go").1.mp this
  exact h2.1 (by simp [relativeFiles])

/-- (build-time test) the guard of the partial rule is satisfiable by a non-trivial file system, where the rule does fire -/
def guardSampleFS : FS := ⟨[("x.txt", "c")], ["e"]⟩
#guard relativeFiles guardSampleFS == ["x.txt"] && !(relativeFiles guardSampleFS).contains "meta/meta.go"
#guard (write fmtIds guardSampleFS [("meta/meta.go", "c1")] "meta/meta.go").outcome == .refused

/-! ## Where the runtime library is written -/

/-- The location derived by `prepareOptions` from `--pkgPath` / `--basicPkgPath`: going `ups` levels up from the output
package path and then down `rest` lands exactly on the runtime library package path (component-wise), and it is only
used when both share at least three leading components (`github.com/user/repo`). -/
theorem basictl_rel_path_shape (outdirElems basicElems : List String) (ups : Nat) (rest : List String)
    (h : relComponents outdirElems basicElems = some (ups, rest)) :
    ups ≤ outdirElems.length ∧ outdirElems.take (outdirElems.length - ups) ++ rest = basicElems ∧
    3 ≤ commonPrefixLen outdirElems basicElems := by
  unfold relComponents at h
  simp only [] at h
  obtain ⟨h1, h2, h3⟩ := commonPrefixLen_spec outdirElems basicElems
  by_cases hn : 3 ≤ commonPrefixLen outdirElems basicElems
  · rw [if_pos hn] at h
    simp only [Option.some.injEq, Prod.mk.injEq] at h
    obtain ⟨hu, hr⟩ := h
    subst hu; subst hr
    refine ⟨by omega, ?_, hn⟩
    have : outdirElems.length - (outdirElems.length - commonPrefixLen outdirElems basicElems) =
        commonPrefixLen outdirElems basicElems := by omega
    rw [this, h3, List.take_append_drop]
  · rw [if_neg hn] at h; cases h

example : relComponents ["github.com", "VKCOM", "tl", "o1", "o2", "out"] ["github.com", "VKCOM", "tl", "pkg", "basictl"] =
    some (3, ["pkg", "basictl"]) := by decide

/-! ## The legacy generator's writer: `internal/tlcodegen/tlgen.go (*Gen2).WriteToDir` (used by `cmd/tlgen` for cpp / php)

Same guarantees as above, for any starting file system, **except** for the paths `keep` exempts from deletion
(`cppFilterFile`: for cpp, every path ending in `.o`).  The marker entry is added by the writer itself. -/
section Legacy
variable (fmt : Path → String → String) (keep : Path → Bool) (fs : FS) (code : List (Path × String)) (marker mc : String)

theorem legacy_refused_iff :
    (legacyWrite fmt keep fs code marker mc).outcome = .refused ↔ (relativeFiles fs ≠ [] ∧ marker ∉ relativeFiles fs) :=
  (legacy_outcome_cases fmt keep fs code marker mc).1

/-- a refused (or internally failed) legacy generation leaves everything as it was -/
theorem legacy_failed_leaves_fs_unchanged (h : (legacyWrite fmt keep fs code marker mc).outcome ≠ .ok) :
    (legacyWrite fmt keep fs code marker mc).fs = fs ∧ (legacyWrite fmt keep fs code marker mc).written = [] ∧
    (legacyWrite fmt keep fs code marker mc).deleted = [] := by
  by_cases hc : refuseCond fs marker
  · rw [legacyWrite_refused fmt keep fs code marker mc hc]; exact ⟨rfl, rfl, rfl⟩
  · by_cases hm : marker ∈ keys code
    · rw [legacyWrite_twice fmt keep fs code marker mc hc hm]; exact ⟨rfl, rfl, rfl⟩
    · exact absurd ((legacy_outcome_cases fmt keep fs code marker mc).2.2.mpr ⟨hc, hm⟩) h

/-- **Exactness outside the exemption.**  After a successful legacy generation every path inside the output directory that
`keep` does not exempt holds exactly this generation's (formatted) file — marker included — or nothing. -/
theorem legacy_after_success_exact (hnd : (keys code).Nodup)
    (h : (legacyWrite fmt keep fs code marker mc).outcome = .ok) (p : Path) (hp : isOutside p = false)
    (hk : keep p = false) :
    (legacyWrite fmt keep fs code marker mc).fs.lookup p = (alookup p (withMarker code marker mc)).map (fmt p) := by
  obtain ⟨hc, hm⟩ := (legacy_outcome_cases fmt keep fs code marker mc).2.2.mp h
  rw [legacy_ok_lookup fmt keep fs code marker mc hnd hc hm p]
  cases ha : alookup p (withMarker code marker mc) with
  | some c => rfl
  | none =>
    simp only [Option.map_none]
    by_cases hr : p ∈ relativeFiles fs
    · rw [if_pos ⟨hr, hk⟩]
    · rw [if_neg (fun hh => hr hh.1)]
      have : ¬ (isOutside p = false ∧ (fs.lookup p).isSome = true) := fun hh => hr ((mem_relativeFiles fs p).mpr hh)
      cases hl : fs.lookup p with
      | none => rfl
      | some v => exact absurd ⟨hp, by rw [hl]; rfl⟩ this

/-- An exempt path that this generation produces is still replaced by the generation's file. -/
theorem legacy_generated_file_wins (hnd : (keys code).Nodup)
    (h : (legacyWrite fmt keep fs code marker mc).outcome = .ok) (p : Path) (c : String)
    (hpc : alookup p (withMarker code marker mc) = some c) :
    (legacyWrite fmt keep fs code marker mc).fs.lookup p = some (fmt p c) := by
  obtain ⟨hc, hm⟩ := (legacy_outcome_cases fmt keep fs code marker mc).2.2.mp h
  rw [legacy_ok_lookup fmt keep fs code marker mc hnd hc hm p, hpc]

/-- **The exemption is the only leak, and it is a real one**: a stale file on an exempt path (an object file, for cpp)
survives every successful generation untouched.  Hence the full-strength statement "exactly the files of this generation"
is false for the legacy cpp writer whenever such a file exists (known finding, by design: build artefacts). -/
theorem legacy_exempt_stale_survives (hnd : (keys code).Nodup)
    (h : (legacyWrite fmt keep fs code marker mc).outcome = .ok) (p : Path)
    (hk : keep p = true) (hnk : p ∉ keys (withMarker code marker mc)) :
    (legacyWrite fmt keep fs code marker mc).fs.lookup p = fs.lookup p := by
  obtain ⟨hc, hm⟩ := (legacy_outcome_cases fmt keep fs code marker mc).2.2.mp h
  rw [legacy_ok_lookup fmt keep fs code marker mc hnd hc hm p, (alookup_none_iff p _).mpr hnk]
  simp only []
  rw [if_neg (fun hh => by rw [hk] at hh; exact absurd hh.2 (by decide))]

/-- what C16 demands of the legacy writer, at full strength -/
def LegacyExactFullStrength : Prop :=
  ∀ (fmt : Path → String → String) (keep : Path → Bool) (fs : FS) (code : List (Path × String)) (marker mc : String),
    (keys code).Nodup → (legacyWrite fmt keep fs code marker mc).outcome = .ok →
    ∀ p, isOutside p = false →
      (legacyWrite fmt keep fs code marker mc).fs.lookup p = (alookup p (withMarker code marker mc)).map (fmt p)

/-- the deleted set: exactly the stale, non-exempt files -/
theorem legacy_deleted_iff (h : (legacyWrite fmt keep fs code marker mc).outcome = .ok) (p : Path) :
    p ∈ (legacyWrite fmt keep fs code marker mc).deleted ↔
      p ∈ relativeFiles fs ∧ p ∉ keys (withMarker code marker mc) ∧ keep p = false := by
  obtain ⟨hc, hm⟩ := (legacy_outcome_cases fmt keep fs code marker mc).2.2.mp h
  rw [legacyWrite_ok fmt keep fs code marker mc hc hm]
  exact mem_lDeleted fmt keep fs code marker mc p

/-- the write log: exactly the new or changed files (unchanged files are not rewritten) -/
theorem legacy_written_iff (hnd : (keys code).Nodup) (h : (legacyWrite fmt keep fs code marker mc).outcome = .ok) (p : Path) :
    p ∈ (legacyWrite fmt keep fs code marker mc).written ↔
      ∃ c, alookup p (withMarker code marker mc) = some c ∧ ¬ (p ∈ relativeFiles fs ∧ fs.lookup p = some (fmt p c)) := by
  obtain ⟨hc, hm⟩ := (legacy_outcome_cases fmt keep fs code marker mc).2.2.mp h
  exact legacy_ok_written fmt keep fs code marker mc hnd hc hm p

/-- after a success the marker is there, so the next legacy generation is not refused -/
theorem legacy_next_generation_not_refused (hnd : (keys code).Nodup) (hmi : isOutside marker = false)
    (h : (legacyWrite fmt keep fs code marker mc).outcome = .ok) (code' : List (Path × String)) :
    (legacyWrite fmt keep (legacyWrite fmt keep fs code marker mc).fs code' marker mc).outcome ≠ .refused := by
  intro hr
  obtain ⟨_, hn⟩ := (legacy_outcome_cases fmt keep _ code' marker mc).1.mp hr
  apply hn
  refine (mem_relativeFiles _ marker).mpr ⟨hmi, ?_⟩
  have hlk : alookup marker (withMarker code marker mc) = some mc := by
    obtain ⟨_, hm⟩ := (legacy_outcome_cases fmt keep fs code marker mc).2.2.mp h
    exact alookup_of_mem (nodup_withMarker code marker mc hnd hm) (by simp [withMarker])
  rw [legacy_generated_file_wins fmt keep fs code marker mc hnd h marker mc hlk]; rfl

end Legacy

/-- counter-example to the full-strength statement: a stale `x.o` next to the marker survives a cpp regeneration -/
theorem legacy_exact_fails_at : ¬ LegacyExactFullStrength := by
  intro hfull
  let keep : Path → Bool := fun p => p == "x.o"
  let fs0 : FS := ⟨[("x.o", "obj"), ("m", "mk")], []⟩
  have ho1 : isOutside "x.o" = false := by simp [isOutside]
  have ho2 : isOutside "m" = false := by simp [isOutside]
  have hrel : relativeFiles fs0 = ["x.o", "m"] := by
    simp [relativeFiles, fs0, ho1, ho2]
  have hc : ¬ refuseCond fs0 "m" := by
    unfold refuseCond; rw [hrel]; simp
  have hok : (legacyWrite (fun _ c => c) keep fs0 [] "m" "mk").outcome = .ok :=
    (legacy_outcome_cases _ keep fs0 [] "m" "mk").2.2.mpr ⟨hc, by simp [keys]⟩
  have h1 := hfull (fun _ c => c) keep fs0 [] "m" "mk" (by simp [keys]) hok "x.o" ho1
  have h2 := legacy_exempt_stale_survives (fun _ c => c) keep fs0 [] "m" "mk" (by simp [keys]) hok "x.o" (by simp [keep])
    (by simp [keys, withMarker])
  rw [h2] at h1
  simp [FS.lookup, alookup, withMarker, fs0] at h1

/-- the legacy marker file name is the constant of the source (regenerated on every run) -/
theorem legacy_marker_fact : TLVerif.Facts.ToolLegacy.legacyMarkerFile = "tlgen2_version.txt" := by decide

/-- (build-time test, evaluated by `#guard`) the hypotheses are satisfiable by a non-trivial history and the
refusal / stale deletion / directory pruning branches are reachable -/
def sampleHistory : List Step :=
  [Step.gen [("meta/meta.go", "c1"), ("a/b.go", "u2"), ("../x/basictl.go", "c3")], Step.plantFile "z.txt" "zz",
   Step.plantDir "e/f", Step.gen [("meta/meta.go", "c1"), ("a/c.go", "c5")], Step.rm "meta/meta.go",
   Step.gen [("meta/meta.go", "c9")]]
#guard ((runHistory fmtIds "meta/meta.go" FS.empty sampleHistory).2.map (·.outcome)) == [.ok, .ok, .refused]
#guard ((runHistory fmtIds "meta/meta.go" FS.empty sampleHistory).2.map (·.deleted)) == [[], ["z.txt", "a/b.go"], []]
#guard ((runHistory fmtIds "meta/meta.go" FS.empty sampleHistory).2.map (·.written)) == [["../x/basictl.go", "a/b.go", "meta/meta.go"], ["a/c.go"], []]
#guard (runHistory fmtIds "meta/meta.go" FS.empty sampleHistory).1.dirs == ["meta", "a"]

end TLVerif.Props.C16
