import TLVerif.Jsonp.Reader
/-! C34 — JSON primitive writers emit valid, exactly-decodable JSON (work in progress). -/
namespace TLVerif.Props.C34
open TLVerif.Jsonp

theorem float_special_nan : writeFloatSpecial .nan = some [0x22, 0x4E, 0x61, 0x4E, 0x22] := by decide

end TLVerif.Props.C34
