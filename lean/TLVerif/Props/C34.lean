import TLVerif.Jsonp.NumLemmas
import TLVerif.Jsonp.FloatLemmas
import TLVerif.Jsonp.FloatFiniteLemmas
/-!
# C34 — JSON primitive writers emit valid, exactly-decodable JSON

Statement (fixed): *For every string the string writer emits valid JSON that decodes to the same text when the
string is valid UTF-8 and to a base64 object holding the same bytes otherwise, and every number writer emits text
that the JSON readers decode to the same number (floats bit-exactly; NaN and infinities as their documented
strings).*  Quantifier: all byte strings, all uint32/int32/int64/uint64 values, all float32/float64 bit patterns.

Model: `TLVerif.Jsonp.Writer` (`JSONWriteString[Bytes]` twice: `writeStringGo` with the `start`/`i` run bookkeeping
of the Go loop, which the driver executes, and the per-byte `writeString`, proved equal; integer writers, `jsonWriteFloatSpecial` of
`pkg/basictl/basictl.go`), `TLVerif.Jsonp.Reader` (the generated `Json2Read*` helpers over `jlexer`),
`TLVerif.Jsonp.Utf8`, `TLVerif.Jsonp.Base64` (the standard-library routines both sides call).
`safeSet`, `hex`, `binaryJSONStringStart/End` are regenerated from the source (T1).

What is a theorem here: strings, base64, the four integer types and the float specials in full.  For *finite*
floats `strconv.AppendFloat(…,'f',-1,…)` / `ParseFloat` are modelled by an exact-arithmetic specification
(`TLVerif.Jsonp.Float`: correct rounding; the shortest digits, nearest with ties to even, that read back); the
bit-exact round trip is a theorem under the decidable guard that the 20-digit search succeeds
(`float_finite_roundtrip_partial`; the guard is evaluated on every sampled pattern by the differential run, it has
never failed, 9 resp. 17 digits are known to suffice — that fact is not proved here).
-/
namespace TLVerif.Props.C34
open TLVerif.Jsonp

/-! ## Strings -/

/-- the base64 object `{"base64":"<body>"}` of the JSON grammar -/
def IsJsonB64Object (bs body : Bytes) : Prop :=
  bs = [0x7B] ++ (0x22 :: ([0x62, 0x61, 0x73, 0x65, 0x36, 0x34] ++ [0x22])) ++ [0x3A] ++ (0x22 :: (body ++ [0x22])) ++ [0x7D]
    ∧ JChars body

/-- Go's `utf8.Valid` (table driven; overlongs, surrogates, > U+10FFFF, truncation) is exactly Unicode
well-formedness: a concatenation of encodings of scalar values. -/
theorem utf8_valid_iff_wellformed (s : Bytes) : utf8Valid s = true ↔ WellFormedUtf8 s := utf8Valid_iff s

/-- Valid UTF-8 in: the output is an RFC 8259 string (grammar), and by the RFC's meaning of escapes it denotes
exactly the input text. -/
theorem string_valid_and_denotes (s : Bytes) (hv : utf8Valid s = true) :
    IsJsonString (writeString s) ∧ ∃ body, writeString s = 0x22 :: (body ++ [0x22]) ∧ JDec body s := by
  have hd := escape_denotes s hv
  rw [writeString_valid s hv]
  exact ⟨⟨_, rfl, hd.chars⟩, _, rfl, hd⟩

/-- Anything else in: the output is the JSON object `{"base64":"…"}` whose value is the standard padded base64 of
the input, and base64-decoding it (Go's decoder) gives the input bytes back. -/
theorem string_invalid_is_base64_object (s : Bytes) (hv : utf8Valid s = false) :
    IsJsonB64Object (writeString s) (b64encode s) ∧ b64decode (b64encode s) = some s := by
  refine ⟨⟨?_, plainText_json _ (b64encode_plain s)⟩, b64_roundtrip s⟩
  rw [writeString_invalid s hv]; simp

/-- base64 `Decode ∘ Encode = id`, for every byte string -/
theorem base64_roundtrip (b : Bytes) : b64decode (b64encode b) = some b := b64_roundtrip b

/-- `jlexer`'s unescaping computes the RFC denotation (so the round trip below is not an artefact of the reader) -/
theorem jlexer_unescape_sound (raw u : Bytes) (h : JDec raw u) : unescape raw = some u := unescape_of_denotes h

/-- The generated reader (`Json2ReadString` / `Json2ReadStringBytes` over `jlexer`), run on what `JSONWriteString`
wrote followed by arbitrary bytes, returns exactly the written bytes and stops right behind them — for **every**
byte string (valid UTF-8 through the string form, everything else through the base64 object). -/
theorem string_roundtrip (s rest : Bytes) : readString (writeString s ++ rest) = .ok s (writeString s).length :=
  readString_writeString s rest

/-- the reader accepts the base64 object form for any content, also for valid UTF-8 (DESIGN Appendix B: "both forms
accepted for any content") -/
theorem base64_form_accepted_for_any_content (s rest : Bytes) :
    readString ([0x7B, 0x22, 0x62, 0x61, 0x73, 0x65, 0x36, 0x34, 0x22, 0x3A, 0x22] ++ b64encode s ++ [0x22, 0x7D] ++ rest)
      = .ok s ((b64encode s).length + 13) := by
  have := readString_b64_form s rest
  simp only [List.length_append, List.length_cons, List.length_nil] at this
  rw [this]; congr 1; omega

/-- The loop as the Go code runs it — pending run `s[start:i]` copied before every escape and at the end, `start`
reset after — emits exactly what the per-byte loop emits; the driver runs `writeStringGo`, the theorems above are
stated about `writeString`, this equation carries them over. -/
theorem writer_loop_refines (s : Bytes) : writeStringGo s = writeString s := writeStringGo_eq s

theorem string_roundtrip_go (s rest : Bytes) : readString (writeStringGo s ++ rest) = .ok s (writeStringGo s).length := by
  rw [writeStringGo_eq]; exact readString_writeString s rest

/-- hence the string writer is injective -/
theorem string_writer_injective (s₁ s₂ : Bytes) (h : writeString s₁ = writeString s₂) : s₁ = s₂ := by
  have h1 := string_roundtrip s₁ []
  have h2 := string_roundtrip s₂ []
  rw [h] at h1
  rw [h1] at h2
  injection h2

/-! ## Integers -/

theorem uint_is_json_number (n : Nat) : IsJsonUInt (formatUint n) := (formatUint_json n).1
theorem int_is_json_number (v : Int) : IsJsonInt (formatInt v) := formatInt_json v

/-- the condition under which a number token ends where the writer stopped -/
def TokenEnds (rest : Bytes) : Prop := rest = [] ∨ ∃ e r, rest = e :: r ∧ isTokenEnd e = true

theorem uint32_roundtrip (n : Nat) (h : n < 2 ^ 32) (rest : Bytes) (hr : TokenEnds rest) :
    readUint 32 (formatUint n ++ rest) = .ok n (formatUint n).length
    ∧ readUint 32 (0x22 :: (formatUint n ++ 0x22 :: rest)) = .ok n ((formatUint n).length + 2) :=
  ⟨readUint_formatUint 32 n h rest hr, readUint_quoted 32 n h rest⟩

theorem uint64_roundtrip (n : Nat) (h : n < 2 ^ 64) (rest : Bytes) (hr : TokenEnds rest) :
    readUint 64 (formatUint n ++ rest) = .ok n (formatUint n).length
    ∧ readUint 64 (0x22 :: (formatUint n ++ 0x22 :: rest)) = .ok n ((formatUint n).length + 2) :=
  ⟨readUint_formatUint 64 n h rest hr, readUint_quoted 64 n h rest⟩

theorem int32_roundtrip (v : Int) (hlo : -(2 ^ 31 : Int) ≤ v) (hhi : v < (2 ^ 31 : Int)) (rest : Bytes) (hr : TokenEnds rest) :
    readInt 32 (formatInt v ++ rest) = .ok v (formatInt v).length
    ∧ readInt 32 (0x22 :: (formatInt v ++ 0x22 :: rest)) = .ok v ((formatInt v).length + 2) :=
  ⟨readInt_formatInt 32 v (by omega) (by omega) hlo hhi rest hr, readInt_quoted 32 v (by omega) (by omega) hlo hhi rest⟩

theorem int64_roundtrip (v : Int) (hlo : -(2 ^ 63 : Int) ≤ v) (hhi : v < (2 ^ 63 : Int)) (rest : Bytes) (hr : TokenEnds rest) :
    readInt 64 (formatInt v ++ rest) = .ok v (formatInt v).length
    ∧ readInt 64 (0x22 :: (formatInt v ++ 0x22 :: rest)) = .ok v ((formatInt v).length + 2) :=
  ⟨readInt_formatInt 64 v (by omega) (by omega) hlo hhi rest hr, readInt_quoted 64 v (by omega) (by omega) hlo hhi rest⟩

/-- a reader of one width accepts the text of another width only when the value fits (range errors are errors) -/
theorem uint_out_of_range_rejected (bits n : Nat) (h : ¬ n < 2 ^ bits) : parseUint (formatUint n) bits = none := by
  obtain ⟨h1, h2, h3⟩ := formatUint_spec n
  unfold parseUint
  have : (formatUint n).isEmpty = false := by simpa using h3
  rw [this]
  simp only [Bool.false_eq_true, ↓reduceIte, h1]
  change (if digitsVal (formatUint n) < 2 ^ bits then some (digitsVal (formatUint n)) else none) = none
  rw [h2]; simp [h]

/-! ## Float specials -/

/-- every float32/float64 bit pattern is written as a documented string iff it is not finite; the string is a JSON
string and `Json2ReadFloat32/64` reads it back as the same class (NaN as a NaN, each infinity as itself), whatever
follows -/
theorem float_special (ebits mbits bits : Nat) (rest : Bytes) :
    (floatClass ebits mbits bits = .finite ∧ writeFloatSpecial (floatClass ebits mbits bits) = none) ∨
    ∃ t, writeFloatSpecial (floatClass ebits mbits bits) = some t ∧ IsJsonString t
      ∧ readFloatSpecial (t ++ rest) = some (floatClass ebits mbits bits, t.length) := by
  by_cases h : floatClass ebits mbits bits = .finite
  · left; rw [h]; exact ⟨rfl, rfl⟩
  · right
    obtain ⟨t, h1, h2, h3⟩ := float_special_roundtrip _ h rest
    exact ⟨t, h1, h3, h2⟩

theorem float_class_fields (ebits mbits bits : Nat) :
    (floatClass ebits mbits bits = .finite ↔ bits / 2 ^ mbits % 2 ^ ebits ≠ 2 ^ ebits - 1) ∧
    (floatClass ebits mbits bits = .nan ↔ bits / 2 ^ mbits % 2 ^ ebits = 2 ^ ebits - 1 ∧ bits % 2 ^ mbits ≠ 0) :=
  ⟨(floatClass_spec ebits mbits bits).1, (floatClass_spec ebits mbits bits).2.1⟩

/-! ## Finite floats -/

/-- a float32 / float64 bit pattern -/
def IsPattern (f : FloatFmt) (bits : Nat) : Prop := bits < 2 ^ (1 + (f.mbits + f.ebits))

/-- Full-strength statement for finite floats (kept visible; the totality of the digit search is the only part that
is not proved): every finite pattern is written as an RFC 8259 number that the reader maps back bit-exactly. -/
def FloatFiniteRoundtrip (f : FloatFmt) : Prop :=
  ∀ bits, IsPattern f bits → floatClass f.ebits f.mbits bits = .finite →
    ∃ t, writeFloat f bits = some t ∧ IsJsonFixed t ∧
      ∀ rest, TokenEnds rest → readFloat f (t ++ rest) = some (.ok bits t.length)

/-- the part that is proved: whenever the model of `AppendFloat(…,'f',-1,bitSize)` produces digits for a finite
pattern (guard: the 20-digit search succeeds), the text is an RFC 8259 number without exponent, `ParseFloat`'s model
maps it to the same bits (±0, subnormals, every exponent), and `Json2ReadFloat32/64` reads it back bit-exactly as a
number token (before the end of input or any token-ending character) and in quoted form. -/
theorem float_finite_roundtrip_partial (f : FloatFmt) (bits : Nat) (hp : IsPattern f bits)
    (hfin : floatClass f.ebits f.mbits bits = .finite) (hguard : (formatFloat f bits).isSome = true) :
    ∃ t, writeFloat f bits = some t ∧ IsJsonFixed t ∧ parseFloatText f t = some bits ∧
      ∀ rest, TokenEnds rest →
        readFloat f (t ++ rest) = some (.ok bits t.length)
        ∧ readFloat f (0x22 :: (t ++ 0x22 :: rest)) = some (.ok bits (t.length + 2)) := by
  obtain ⟨t, ht⟩ := Option.isSome_iff_exists.mp hguard
  refine ⟨t, ?_, formatFloat_fixed f bits t ht, formatFloat_sound f bits hp t ht, ?_⟩
  · unfold writeFloat; rw [hfin]; exact ht
  · intro rest hr
    exact readFloat_formatFloat f bits hp t ht rest hr

/-- the writer model never fails on a non-finite pattern, and a finite pattern is never written as a string -/
theorem float_writer_cases (f : FloatFmt) (bits : Nat) :
    (floatClass f.ebits f.mbits bits ≠ .finite → ∃ t, writeFloat f bits = some t ∧ IsJsonString t) ∧
    (floatClass f.ebits f.mbits bits = .finite → writeFloat f bits = formatFloat f bits) := by
  constructor
  · intro h
    obtain ⟨t, h1, _, h3⟩ := float_special_roundtrip _ h []
    exact ⟨t, by unfold writeFloat; rw [h1], h3⟩
  · intro h; unfold writeFloat; rw [h]; rfl

/-! ## The hypotheses are satisfiable, the branches are all reachable -/

example : formatFloat fmt64 0x3FF8000000000000 = some [0x31, 0x2E, 0x35] := by decide +kernel          -- 1.5
example : formatFloat fmt32 0x3DCCCCCD = some [0x30, 0x2E, 0x31] := by decide +kernel                  -- 0.1f
example : formatFloat fmt64 0x8000000000000000 = some [0x2D, 0x30] := by decide +kernel                -- -0
example : (formatFloat fmt64 0x0000000000000001).isSome = true := by decide +kernel                    -- 5e-324
example : (formatFloat fmt64 0x7FEFFFFFFFFFFFFF).isSome = true := by decide +kernel                    -- max
example : parseFloatText fmt64 [0x31, 0x65, 0x33, 0x30, 0x39] = none := by decide +kernel              -- 1e309 overflows

example : utf8Valid [0x68, 0x0A, 0x22, 0xE2, 0x80, 0xA8, 0xF0, 0x9F, 0x98, 0x80] = true := by decide
example : utf8Valid [0xED, 0xA0, 0x80] = false := by decide        -- a UTF-8 encoded surrogate
example : utf8Valid [0xC0, 0x80] = false := by decide              -- overlong
example : utf8Valid [0xF4, 0x90, 0x80, 0x80] = false := by decide  -- above U+10FFFF
example : TokenEnds [0x2C, 0x31] := Or.inr ⟨_, _, rfl, by decide⟩
example : floatClass 11 52 0x7FF8000000000001 = .nan := by decide
example : floatClass 8 23 0xFF800000 = .ninf := by decide
example : floatClass 11 52 0x8000000000000000 = .finite := by decide

end TLVerif.Props.C34
