import TLVerif.Codec.TL1Total
import TLVerif.Codec.TL1Example
/-!
# C08 (TL1 part) — the TL1 reader is total and bounded;  C09 (TL1 part)

Model: `TLVerif/Codec/TL1.lean`; helper lemmas `TLVerif/Codec/TL1Total.lean`; predicates `TLVerif/Codec/TL1Wf.lean`.

* `tl1_read_total`: on a well-formed descriptor (`Desc.wf`, decidable: type indices in range, nat-argument
  references are parameters in range or earlier numeric fields, masks included, parameter counts of references
  match, dictionary keys primitive) the reader never answers `.error .desc`.
* `readTL1_fuel_mono`: an answer other than `.error .fuel` is the same with any larger fuel.
* `fuel_suffices`: with a rank certificate `rk` (`Desc.productive d rk`, decidable: every reference followed before
  any input was consumed goes to a strictly smaller rank — i.e. every cycle of references that consumes no
  input is broken) fuel `(|input| + 1) · (|d| + 1)` never runs out, hence (`tl1_fuel_irrelevant`) the answer does
  not depend on the fuel above that bound: "out of fuel" is not a hidden third answer.
  The bound `|input| + |d| + 1` suggested in DESIGN §4 C08 is **not** sufficient
  (`linear_fuel_bound_insufficient_at`), and without productivity no fuel suffices (`loop_never_answers`:
  a bare self-reference `loop x:%loop`, which in Go is unbounded recursion — lead L8).
* `alloc_bound_tl1`: with `--checkLengthSanity` every vector / dynamic tuple / dictionary the reader accepts has at
  most `|input| / 4` elements; `sanity_guard` is the guard lemma itself.
* C09 (reuse = fresh) is trivial in this model: `readTL1` takes no previous object.
-/
namespace TLVerif.Props.CodecTL1Extra
open TLVerif.Prim TLVerif.Codec

/-- **C08a** no `.error .desc` on well-formed descriptors: the type exists and receives at least as many nat
arguments as it has parameters. -/
theorem tl1_read_total (cfg : Cfg) (d : Desc) (hwf : d.wf = true) (fuel ty : Nat) (bare : Bool) (params : List Nat)
    (bs : Bytes) (inst : Inst) (hg : d.get? ty = some inst) (hp : inst.nparams ≤ params.length) :
    readTL1 cfg d fuel ty bare params bs ≠ .error .desc :=
  (readTL1_total cfg d hwf fuel).1 ty bare params bs ⟨inst, hg, hp⟩

/-- **C08b, key lemma** monotonicity in fuel -/
theorem readTL1_fuel_mono (cfg : Cfg) (d : Desc) (n m : Nat) (hnm : n ≤ m) (ty : Nat) (bare : Bool) (params : List Nat)
    (bs : Bytes) (h : readTL1 cfg d n ty bare params bs ≠ .error .fuel) :
    readTL1 cfg d m ty bare params bs = readTL1 cfg d n ty bare params bs :=
  Codec.readTL1_fuel_mono cfg d hnm ty bare params bs h

/-- **C08b** enough fuel never runs out (for any rank certificate of productivity) -/
theorem fuel_suffices (cfg : Cfg) (d : Desc) (rk : List Nat) (hp : d.productive rk = true)
    (fuel ty : Nat) (bare : Bool) (params : List Nat) (bs : Bytes)
    (hf : (bs.length + 1) * (d.insts.size + 1) ≤ fuel) :
    readTL1 cfg d fuel ty bare params bs ≠ .error .fuel :=
  fuel_suffices' cfg d rk hp fuel ty bare params bs hf

/-- above the bound the answer does not depend on the fuel -/
theorem tl1_fuel_irrelevant (cfg : Cfg) (d : Desc) (rk : List Nat) (hp : d.productive rk = true)
    (f1 f2 ty : Nat) (bare : Bool) (params : List Nat) (bs : Bytes)
    (h1 : (bs.length + 1) * (d.insts.size + 1) ≤ f1) (h2 : (bs.length + 1) * (d.insts.size + 1) ≤ f2) :
    readTL1 cfg d f1 ty bare params bs = readTL1 cfg d f2 ty bare params bs := by
  have hb := fuel_suffices cfg d rk hp _ ty bare params bs (Nat.le_refl _)
  rw [readTL1_fuel_mono cfg d _ f1 h1 ty bare params bs hb, readTL1_fuel_mono cfg d _ f2 h2 ty bare params bs hb]

/-- the unread rest is never longer than the input (all descriptors) -/
theorem tl1_rest_le (cfg : Cfg) (d : Desc) (fuel ty : Nat) (bare : Bool) (params : List Nat) (bs : Bytes) (v : Val)
    (rest : Bytes) (h : readTL1 cfg d fuel ty bare params bs = .ok (v, rest)) : rest.length ≤ bs.length :=
  readTL1_shrinks cfg d fuel ty bare params bs v rest h

/-- **C08c** the guard: an element count accepted by `CheckLengthSanity` is ≤ remaining input / 4 -/
theorem sanity_guard (bs : Bytes) (n : Nat) (h : sanityOk { sanity := true } bs n = true) : n ≤ bs.length / 4 := by
  have := sanityOk_bound (cfg := { sanity := true }) rfl h
  omega

/-- **C08c** with the sanity check on, an accepted vector / dynamic tuple / dictionary has ≤ |input|/4 elements -/
theorem alloc_bound_tl1 (d : Desc) (fuel ty : Nat) (bare : Bool) (params : List Nat)
    (bs : Bytes) (v : Val) (rest : Bytes) (a : ArrayD)
    (hg : d.get? ty = some (.dict a) ∨ (d.get? ty = some (.array a) ∧ (a.isTuple = false ∨ a.dynamic = true)))
    (h : readTL1 { sanity := true } d fuel ty bare params bs = .ok (v, rest)) :
    ∃ vs, v = .arr vs ∧ vs.length ≤ bs.length / 4 := by
  obtain ⟨vs, hv, hb⟩ := readTL1_alloc_bound (cfg := { sanity := true }) rfl d fuel ty bare params bs v rest a hg h
  exact ⟨vs, hv, by omega⟩

/-- without the sanity check the count is not bounded by the input: 3 zero-size elements from 4 bytes
(and 2^32-1 of them just as well) -/
example : readTL1 { sanity := false } Ex.zeroSize 2 1 true [] [3, 0, 0, 0]
    = .ok (.arr [.struct [], .struct [], .struct []], []) := by rfl

/-! ## productivity is necessary, and the linear fuel bound is not enough -/

/-- `loop x:%loop`: no rank certificate exists … -/
theorem loop_not_productive (rk : List Nat) : Ex.loopD.productive rk = false := by
  have h0 : Ex.loopD.get? 0 = some (.struct { tag := 0x5, nparams := 0, fields := [ Ex.fld "x" 0 ] }) := rfl
  have hsz : Ex.loopD.insts.size = 1 := rfl
  simp [Desc.productive, hsz, List.range_succ, h0, Inst.productive, fieldsProductive, rkOf, Ex.fld]

/-- … and indeed the model reader answers `.error .fuel` for every fuel and every input (Go: unbounded recursion). -/
theorem loop_never_answers (cfg : Cfg) (fuel : Nat) (bs : Bytes) :
    readTL1 cfg Ex.loopD fuel 0 true [] bs = .error .fuel := by
  have h0 : Ex.loopD.get? 0 = some (.struct { tag := 0x5, nparams := 0, fields := [ Ex.fld "x" 0 ] }) := rfl
  induction fuel with
  | zero => rfl
  | succ n ih =>
    simp only [readTL1, h0, if_true, readFieldsWith, fieldPresent, Ex.fld, natArgVals, ih]

/-- DESIGN's bound `|input| + |d| + 1` is too small: 28 bytes, 7 instances, fuel 36 runs out, fuel 38 answers. -/
theorem linear_fuel_bound_insufficient_at :
    readTL1 {} Ex.chainD (Ex.chainBytes.length + Ex.chainD.insts.size + 1) 0 false [] Ex.chainBytes = .error .fuel ∧
    (∃ v, readTL1 {} Ex.chainD 38 0 false [] Ex.chainBytes = .ok (v, [])) ∧
    Ex.chainD.productive [0, 0, 5, 4, 3, 2, 1] = true := by
  refine ⟨by rfl, ⟨_, by rfl⟩, by decide⟩

/-! ## the hypotheses are satisfiable -/

example : Ex.demo.wf = true ∧ Ex.demo.productive [0, 0, 0, 0, 1] = true := by decide
example : Ex.peanoD.wf = true ∧ Ex.peanoD.productive [0, 1, 0] = true := by decide
/-- bare recursion behind the mask word (`myNat` of goldmaster.tl) is productive -/
example : Ex.maskRecD.wf = true ∧ Ex.maskRecD.productive [0, 1] = true := by decide
example : Ex.tupD.wf = true ∧ Ex.optD.wf = true ∧ Ex.dictD.wf = true ∧ Ex.unionD.wf = true := by decide
example : Ex.demo.computeRanks = [0, 0, 0, 0, 1] := by decide
example (fuel : Nat) (h : 29 * 6 ≤ fuel) : readTL1 {} Ex.demo fuel 4 false [] Ex.demoBytes ≠ .error .fuel :=
  fuel_suffices {} Ex.demo [0, 0, 0, 0, 1] (by decide) fuel 4 false [] Ex.demoBytes h
example : readTL1 {} Ex.demo 200 4 false [] Ex.demoBytes ≠ .error .desc :=
  tl1_read_total {} Ex.demo (by decide) 200 4 false [] Ex.demoBytes _ rfl (Nat.le_refl _)

end TLVerif.Props.CodecTL1Extra
