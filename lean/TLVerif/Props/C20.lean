import TLVerif.Syntaxtl2.Parser
namespace TLVerif.Props.C20
end TLVerif.Props.C20
