import TLVerif.Syntaxtl2.ParserLemmas
import TLVerif.Syntaxtl2.ErrorPrintLemmas
import TLVerif.Syntaxtl2.PositionLemmas
/-! # C20 — TL2 parser is total with in-range error positions

Statement (fixed): for any input text, parsing it as TL2 returns either a file or an error whose reported position
lies inside the text; parsing never panics and printing the error never panics.

All theorems are about the executable model `TLVerif.Syntaxtl2` (lexer `lexTL2`, parser `parseTL2File`, printer
`consolePrint`) and quantify over ALL byte strings. In the model a Go run-time panic (index/slice out of range on the
token iterator, on `fileContent[a:b]`, on `val[1:]`, `log.Panicf`) is the outcome `.panic`, exhausting the recursion
bound is `.nofuel`; `Res.ok` means the Go function returned. The model is tied to the Go code by checks/C20.py. -/
namespace TLVerif.Props.C20
open TLVerif.Syntaxtl2

/-- The lexer returns for every input (no `advance` slices past the end, the loop ends within `len+1` iterations)
and its tokens followed by the unread rest recombine to the input — the invariant `ParseTL2File` would
`log.Panicf` on. -/
theorem lexer_total_recombines (tx : Bytes) : ∃ lx, lexTL2 tx = .ok lx ∧ recombine lx.all lx.rest = tx := by
  obtain ⟨lx, h1, h2, _⟩ := lexTL2_spec tx
  exact ⟨lx, h1, h2⟩

/-- When the lexer reports no error, the token list is non-empty, ends with the only `eof` token, tokens do not
overlap, offsets and line starts are monotone and every token lies inside the text (`Good`), non-`eof` tokens are
non-empty and namespaced identifiers contain their dot (`TokWF`). -/
theorem lexer_tokens_good (tx : Bytes) (lx : Lexed) (h : lexTL2 tx = .ok lx) (he : lx.err = none) :
    lx.toks ≠ [] ∧ Good tx.length lx.toks ∧ ∀ t ∈ lx.toks, TokWF t := by
  obtain ⟨lx', h1, _, hok, _⟩ := lexTL2_spec tx
  rw [h] at h1
  injection h1 with h1
  subst h1
  exact ⟨(hok he).2.1, (hok he).2.2, lexTL2_wf tx lx h he⟩

/-- **Totality**: for every input `ParseTL2File` returns — a file or an error; it never panics
(iterator bounds, slices, `log.Panicf` sites) and its recursion is bounded (the termination proof:
`fuelFor toks = 3·|toks|+20` is never exhausted). -/
theorem parse_total (tx : Bytes) : ∃ r, parseTL2File tx = .ok r := by
  obtain ⟨r, h, _⟩ := parseTL2File_total tx
  exact ⟨r, h⟩

theorem parse_never_panics (tx : Bytes) : parseTL2File tx ≠ .panic ∧ parseTL2File tx ≠ .nofuel := by
  obtain ⟨r, h⟩ := parse_total tx
  rw [h]
  constructor <;> (intro h2; cases h2)

/-- **Error positions**: every error returned by `ParseTL2File` has `0 ≤ outer ≤ begin ≤ end ≤ |text|`, begins and
ends on the same line whose start is not after `begin`, and the line start of `outer` is not after that line. -/
theorem parse_error_pos_in_text (tx : Bytes) (e : PErr) (h : parseTL2File tx = .ok (.error e)) :
    e.outer.off ≤ e.b.off ∧ e.b.off ≤ e.e.off ∧ e.e.off ≤ tx.length ∧
    e.outer.slo ≤ e.outer.off ∧ e.outer.slo ≤ e.b.slo ∧ e.b.slo ≤ e.b.off ∧ e.e.slo = e.b.slo := by
  obtain ⟨r, h1, h2⟩ := parseTL2File_total tx
  rw [h] at h1
  injection h1 with h1
  obtain ⟨k1, k2, k3, k4, k5, k6, k7⟩ := h2 e h1.symm
  exact ⟨k2, k5, k6, k1, k3, k4, k7⟩

/-- **Line/column consistency**: the three positions of every error returned by `ParseTL2File` satisfy
`column = offset - startLineOffset + 1`, `startLineOffset ≤ offset`, `line ≥ 1`, and begin and end are on one line
(every error is `parseErrToken(tok, outer)` of lexer tokens, whose positions the lexer keeps consistent). -/
theorem parse_error_columns (tx : Bytes) (e : PErr) (h : parseTL2File tx = .ok (.error e)) :
    (e.outer.col = e.outer.off - e.outer.slo + 1 ∧ 1 ≤ e.outer.line) ∧
    (e.b.col = e.b.off - e.b.slo + 1 ∧ 1 ≤ e.b.line) ∧
    (e.e.col = e.e.off - e.e.slo + 1 ∧ e.e.slo ≤ e.e.off ∧ e.e.line = e.b.line) := by
  obtain ⟨⟨_, a2, a3⟩, ⟨_, b2, b3⟩, ⟨c1, c2, _⟩, d⟩ := parseTL2File_error_columns tx e h
  exact ⟨⟨a2, a3⟩, ⟨b2, b3⟩, ⟨c2, c1, d⟩⟩

/-- **Printing** never panics, for ANY position range (also ones outside the text: `safeRange` and the `if` before
`fc[End.offset:]` guard every slice), any colour and both the error and the warning form. -/
theorem error_print_total (fc : Bytes) (e : PErr) (c : Bytes) (isWarning : Bool) :
    ∃ out, consolePrint fc e c isWarning = .ok out :=
  consolePrint_total fc e c isWarning

/-- For the errors `ParseTL2File` returns, printing additionally never takes the
"beautiful error context corrupted" branch. -/
theorem parse_error_print_not_corrupted (tx : Bytes) (e : PErr) (h : parseTL2File tx = .ok (.error e)) :
    ∃ p, consoleParts tx e = .ok p ∧ p.anyCorrupted = false := by
  obtain ⟨r, h1, h2⟩ := parseTL2File_total tx
  rw [h] at h1
  injection h1 with h1
  obtain ⟨p, hp, hc⟩ := consoleParts_spec tx e
  exact ⟨p, hp, hc (h2 e h1.symm)⟩

/-- T1: the census of `panic` / `log.Panicf` sites in the TL2 parser, comments, lexer, error printer and formatter
files is the one the model has a `.panic` branch for (`parseCommentBefore`: unexpected token in whitespace;
`ParseTL2File`: tokenizer invariant). A new site changes the regenerated fact and breaks this theorem. -/
theorem panic_sites_modelled :
    Facts.Syntaxtl2.panicSites = ["tlparser_comments.go:parseCommentBefore:1", "tlparser_tl2_code.go:ParseTL2File:1"] := rfl

/-- T1: of the `tokenIterator` methods only `skipWS` (modelled) and `expectOrPanic` (not used by the TL2 parser) panic. -/
theorem iterator_panic_sites_modelled :
    Facts.Syntaxtl2.iteratorPanicSites = ["tlparser_code.go:ParseTLFile:1", "tlparser_code.go:splitIdenNSFromToken:1",
      "tlparser_code.go:tokenIterator.expectOrPanic:1", "tlparser_code.go:tokenIterator.skipWS:1"] := rfl

/-! Both outcomes occur (the statements are not vacuous). -/
def isFile (r : Res (Except PErr File)) : Bool := match r with | .ok (.ok _) => true | _ => false
def isError (r : Res (Except PErr File)) : Bool := match r with | .ok (.error _) => true | _ => false
example : isFile (parseTL2File (bs "a = x:[]m<int,3> // c\n;")) = true := by decide +kernel
example : isError (parseTL2File (bs "f#00000000 => int;")) = true := by decide +kernel
example : isError (parseTL2File (bs "a = (")) = true := by decide +kernel

end TLVerif.Props.C20
