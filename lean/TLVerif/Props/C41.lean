import TLVerif.Generated.AlgoFacts
import TLVerif.Algo.AvlLemmas
import TLVerif.Algo.CircularLemmas
/-!
# C41 — Ordered tree map and circular slice match reference containers

Property theorems only (helper lemmas live in `TLVerif/Algo/*Lemmas.lean`). All statements are about the models
of `internal/vkgo/pkg/algo/tree_map.go` (`TLVerif/Algo/Avl.lean`) and `circular_slice.go`
(`TLVerif/Algo/Circular.lean`), with the new-leaf height constant extracted from the repository on this run
(`Generated/AlgoFacts.lean`). In the models `none` is a Go panic, so every `∃ t', op … = some t'` below also says
"does not panic".

## Tree map

Reference container: a key-sorted association list (`Entries`, `SortedKeys`) with `specInsert`, `specErase`,
`specLookup`, `head?`, `getLast?`; `spec_*` theorems show that these are the ordered-map operations.
Abstraction: `TreeMap.abs` = in-order contents. Invariant `TreeMap.Inv c`: keys strictly sorted (BST) and the
stored-height invariant `Tree.HInv c` that the code really maintains (`c` = height stored into a new leaf).

**Full-strength balance statement** ("while staying balanced", AVL sense): `AvlStrictAlways newLeafHeight`, i.e. after
every history every node's subtrees differ in *real* height by at most 1. It is FALSE for the unchanged code
(`newLeafHeight = 0`): `avl_strict_fails_at`, witness Set 1, Set 2, Set 3. What does hold is `avl_balance_partial`
(real heights differ by at most 2; height logarithmic). `avl_strict_after_fix` proves that storing 1 instead of 0
restores strict AVL balance, and `avl_strict_iff` ties the three together over the extracted constant.
-/
namespace TLVerif.Props.C41
open TLVerif.Algo TLVerif.Facts.Algo

/-! ### T1 side conditions (facts regenerated from the source) -/

/-- The height stored into a fresh leaf is 0 or 1 (hypothesis of every invariant theorem below). -/
theorem facts_ok : newLeafHeight ≤ 1 := by decide

/-- The census of explicit panic sites in the two files is the one the models account for:
`Front`/`Back` on an empty map, the internal `findMin`/`findMax`/`extractMin` nil guards, `validate`;
`Front`/`PopFront` on an empty slice, `IndexRef` (negative, out of range), and the two invariant guards. -/
theorem panic_sites_ok : panicSites =
    ["circular_slice.go:CircularSlice.Front:1", "circular_slice.go:CircularSlice.IndexRef:2",
     "circular_slice.go:CircularSlice.PopFront:1", "circular_slice.go:CircularSlice.PushBack:1",
     "circular_slice.go:CircularSlice.Reserve:1", "tree_map.go:Back:1", "tree_map.go:Front:1",
     "tree_map.go:TreeNode.findMax:1", "tree_map.go:TreeNode.findMin:1", "tree_map.go:extractMin:1",
     "tree_map.go:validate:2"] := by decide

/-! ### The reference container is an ordered map -/

theorem spec_insert_sorted (k : Int) (v : Nat) (l : Entries) (h : SortedKeys l) : SortedKeys (specInsert k v l) :=
  sorted_specInsert k v l h

theorem spec_erase_sorted (k : Int) (l : Entries) (h : SortedKeys l) : SortedKeys (specErase k l) :=
  sorted_specErase k l h

/-- After `Set k v`: the entry `(k, v)` plus every old entry with another key. -/
theorem spec_insert_is_map (k : Int) (v : Nat) (l : Entries) (h : SortedKeys l) (x : Int × Nat) :
    x ∈ specInsert k v l ↔ x = (k, v) ∨ (x ∈ l ∧ x.1 ≠ k) := mem_specInsert_iff k v l h x

/-- After `Delete k`: every old entry with another key. -/
theorem spec_erase_is_map (k : Int) (l : Entries) (h : SortedKeys l) (x : Int × Nat) :
    x ∈ specErase k l ↔ x ∈ l ∧ x.1 ≠ k := mem_specErase_iff k l h x

/-- Lookup finds exactly the entry with that key. -/
theorem spec_lookup_is_map (k : Int) (l : Entries) (h : SortedKeys l) (e : Int × Nat) :
    specLookup k l = some e ↔ e ∈ l ∧ e.1 = k := specLookup_eq_some_iff k l h e

/-- The first entry of a sorted list has the smallest key, the last the largest. -/
theorem spec_head_smallest (l : Entries) (h : SortedKeys l) (e : Int × Nat) (he : l.head? = some e) :
    e ∈ l ∧ ∀ x ∈ l, e.1 ≤ x.1 := by
  cases l with
  | nil => cases he
  | cons a t =>
    simp at he; subst he
    refine ⟨by simp, fun x hx => ?_⟩
    rcases List.mem_cons.mp hx with hx | hx
    · subst hx; exact Int.le_refl _
    · exact Int.le_of_lt ((List.pairwise_cons.mp h).1 x hx)

theorem spec_last_largest (l : Entries) (h : SortedKeys l) (e : Int × Nat) (he : l.getLast? = some e) :
    e ∈ l ∧ ∀ x ∈ l, x.1 ≤ e.1 := by
  obtain ⟨ys, rfl⟩ := List.getLast?_eq_some_iff.mp he
  refine ⟨by simp, fun x hx => ?_⟩
  rcases List.mem_append.mp hx with hx | hx
  · exact Int.le_of_lt ((List.pairwise_append.mp h).2.2 x hx e (by simp))
  · simp at hx; subst hx; exact Int.le_refl _

/-! ### Refinement of every exported operation (all keys, all values, all states satisfying the invariant) -/

theorem tree_empty : TreeMap.Inv newLeafHeight TreeMap.empty ∧ TreeMap.empty.abs = [] :=
  TreeMap.empty_inv _

/-- `Set` never panics, refines `specInsert`, keeps the invariant. -/
theorem tree_set_refines (t : TreeMap) (k : Int) (v : Nat) (hi : TreeMap.Inv newLeafHeight t) :
    ∃ t', t.set newLeafHeight k v = some t' ∧ t'.abs = specInsert k v t.abs ∧ TreeMap.Inv newLeafHeight t' :=
  TreeMap.set_refines _ facts_ok t k v hi

/-- `Delete` never panics, refines `specErase`, keeps the invariant. -/
theorem tree_delete_refines (t : TreeMap) (k : Int) (hi : TreeMap.Inv newLeafHeight t) :
    ∃ t', t.delete k = some t' ∧ t'.abs = specErase k t.abs ∧ TreeMap.Inv newLeafHeight t' :=
  TreeMap.delete_refines _ facts_ok t k hi

/-- `Get`/`GetPtr` return the value found by the reference lookup (absent ↦ not found). -/
theorem tree_get_refines (c : Nat) (t : TreeMap) (k : Int) (hi : TreeMap.Inv c t) :
    t.get k = (specLookup k t.abs).map (·.2) := by
  unfold TreeMap.get
  rw [Tree.find_eq k t.root hi.1]; rfl

/-- A store through the pointer returned by `GetPtr` replaces the value of a present key in place (and nothing
else); `GetPtr` is nil exactly for absent keys; the invariant is kept. -/
theorem tree_getptr_store_refines (c : Nat) (t : TreeMap) (k : Int) (v : Nat) (hi : TreeMap.Inv c t) :
    (t.update k v).1.abs = specUpdate k v t.abs ∧ (t.update k v).2 = (specLookup k t.abs).isSome ∧
    TreeMap.Inv c (t.update k v).1 := TreeMap.update_refines c t k v hi

/-- `Front` returns the first entry (smallest key) and panics exactly on the empty map. -/
theorem tree_front_refines (t : TreeMap) : t.front = t.abs.head? := Tree.findMin_eq t.root

/-- `Back` returns the last entry (largest key) and panics exactly on the empty map. -/
theorem tree_back_refines (t : TreeMap) : t.back = t.abs.getLast? := Tree.findMax_eq t.root

theorem tree_empty_refines (t : TreeMap) : t.isEmpty = t.abs.isEmpty := TreeMap.isEmpty_eq t

theorem tree_lenMoreThan1_refines (t : TreeMap) : t.lenMoreThan1 = decide (1 < t.abs.length) :=
  TreeMap.lenMoreThan1_eq t

/-- `validate` returns normally exactly on search trees, hence on every state satisfying the invariant. -/
theorem tree_validate_ok (c : Nat) (t : TreeMap) (hi : TreeMap.Inv c t) : t.root.validate none none = true := by
  rw [Tree.validate_iff]
  exact ⟨hi.1, fun b hb => (by cases hb), fun b hb => (by cases hb)⟩

/-- Any sequence of `Set`/`Delete`/stores through `GetPtr` from the empty map: no panic, the contents are those of the reference map
after the same sequence, and the invariant (BST + stored heights) holds. -/
theorem tree_history_refines (ops : List MapOp) :
    ∃ t, TreeMap.run newLeafHeight TreeMap.empty ops = some t ∧ t.abs = specRun [] ops ∧
      TreeMap.Inv newLeafHeight t :=
  TreeMap.run_refines _ facts_ok ops TreeMap.empty (TreeMap.empty_inv _).1

/-! ### Balance -/

/-- The property's "while staying balanced" in the AVL sense, for new-leaf constant `c`: after every history,
at every node the real heights of the two subtrees differ by at most 1. -/
def AvlStrictAlways (c : Nat) : Prop :=
  ∀ (ops : List MapOp) (t : TreeMap), TreeMap.run c TreeMap.empty ops = some t → t.root.maxRealBalance ≤ 1

/-- The witness: Set 1, Set 2, Set 3 with new leaves stored at height 0 yields the chain 1 → 2 → 3. -/
def witness : List MapOp := [.set 1 1, .set 2 2, .set 3 3]

theorem witness_chain :
    (TreeMap.run 0 TreeMap.empty witness).map (fun t => (t.root.realHeight, t.root.maxRealBalance)) = some (3, 2) := by
  decide

/-- Strict AVL balance FAILS when a new leaf is stored with height 0 (the unchanged code). -/
theorem avl_strict_fails_at : ¬ AvlStrictAlways 0 := by
  intro h
  obtain ⟨t, ht, _⟩ := TreeMap.run_refines 0 (by decide) witness TreeMap.empty (TreeMap.empty_inv _).1
  have h1 := h witness t ht
  have h2 := witness_chain
  rw [ht] at h2
  simp at h2
  omega

/-- What the code really guarantees: after every history the real subtree heights differ by at most
`2 - newLeafHeight` at every node, the stored height lags the real one by at most `1 - newLeafHeight`, and the real
height is logarithmic in the number of entries (`fib (height+1) ≤ n+1`, hence `2^(height/2) ≤ n+1`). -/
theorem avl_balance_partial (ops : List MapOp) (t : TreeMap)
    (h : TreeMap.run newLeafHeight TreeMap.empty ops = some t) :
    t.root.maxRealBalance + newLeafHeight ≤ 2 ∧
    t.root.getHeight ≤ t.root.realHeight ∧ t.root.realHeight + newLeafHeight ≤ t.root.getHeight + 1 ∧
    fib (t.root.realHeight + 1 + newLeafHeight) ≤ t.abs.length + 1 ∧ 2 ^ (t.root.realHeight / 2) ≤ t.abs.length + 1 := by
  obtain ⟨t', ht', _, hi⟩ := tree_history_refines ops
  rw [h] at ht'; cases ht'
  have h1 := Tree.maxRealBalance_le _ facts_ok t.root hi.2
  have h2 := Tree.real_vs_stored _ facts_ok t.root hi.2
  have h3 := Tree.realHeight_log _ facts_ok t.root hi.2
  rw [Tree.size_eq_length] at h3
  exact ⟨h1, h2.1, h2.2, h3.1, h3.2⟩

/-- With the one-line fix (`n.height = 1` for a new leaf) strict AVL balance holds after every history. -/
theorem avl_strict_after_fix : AvlStrictAlways 1 := by
  intro ops t h
  obtain ⟨t', ht', _, hi⟩ := TreeMap.run_refines 1 (by decide) ops TreeMap.empty (TreeMap.empty_inv _).1
  rw [h] at ht'; cases ht'
  have := Tree.maxRealBalance_le 1 (by decide) t.root hi.2
  omega

/-- Over the constant extracted from the source: strict AVL balance holds iff new leaves are stored with height 1. -/
theorem avl_strict_iff : AvlStrictAlways newLeafHeight ↔ newLeafHeight = 1 := by
  have h := facts_ok
  constructor
  · intro hs
    by_cases h0 : newLeafHeight = 0
    · rw [h0] at hs; exact absurd hs avl_strict_fails_at
    · omega
  · intro h1; rw [h1]; exact avl_strict_after_fix

/-- The invariant is satisfiable by non-trivial states (hypotheses are not vacuous). -/
example : ∃ t, TreeMap.run newLeafHeight TreeMap.empty [.set 5 1, .set 3 2, .set 9 3, .set 4 4, .delete 3] = some t ∧
    t.abs = [(4, 4), (5, 1), (9, 3)] := ⟨_, rfl, rfl⟩


/-! ## Circular slice

Reference container: a FIFO list (`CS.abs`, front first); for histories a pair of lists, because `Swap` and
`DeepAssign` take a second slice. Invariant `CS.Inv`: `0 ≤ read_pos ≤ write_pos ≤ read_pos + cap`,
`read_pos < cap` (or everything zero), and every cell outside the live window holds the empty value. -/

theorem circ_empty : CS.Inv CS.empty ∧ CS.abs CS.empty = [] := CS.empty_inv

/-- `PushBack` never panics, appends at the back, never shrinks the capacity. -/
theorem circ_push_refines (s : CS) (hi : CS.Inv s) (x : Nat) :
    ∃ s', s.pushBack x = some s' ∧ CS.Inv s' ∧ s'.abs = s.abs ++ [x] ∧ s.cap ≤ s'.cap := by
  obtain ⟨els, rp, wp⟩ := s
  obtain ⟨r, w, rfl, rfl, _⟩ := hi.nat
  obtain ⟨s', e, i', a', l'⟩ := CS.pushBack_spec els r w hi x
  exact ⟨s', e, i', a', by simp only [CS.cap]; omega⟩

/-- `PopFront` panics exactly on the empty queue; otherwise returns the oldest element and removes it. -/
theorem circ_pop_refines (s : CS) (hi : CS.Inv s) :
    (s.abs = [] → s.popFront = none) ∧
    (∀ x xs, s.abs = x :: xs → ∃ s', s.popFront = some (x, s') ∧ CS.Inv s' ∧ s'.abs = xs ∧ s'.cap = s.cap) := by
  obtain ⟨els, rp, wp⟩ := s
  obtain ⟨r, w, rfl, rfl, _⟩ := hi.nat
  obtain ⟨h1, h2⟩ := CS.popFront_spec els r w hi
  refine ⟨h1, fun x xs hx => ?_⟩
  obtain ⟨s', e, i', a', l'⟩ := h2 x xs hx
  exact ⟨s', e, i', a', by simp only [CS.cap]; omega⟩

/-- `Front` returns the oldest element and panics exactly on the empty queue. -/
theorem circ_front_refines (s : CS) (hi : CS.Inv s) : s.front = s.abs.head? := CS.front_spec s hi

/-- `Index`/`IndexRef`: element `pos` of the queue for `0 ≤ pos < Len()`; a negative position panics; a position
beyond the end panics or yields the empty value (never a live or stale element). -/
theorem circ_index_refines (s : CS) (hi : CS.Inv s) (pos : Int) :
    (pos < 0 → s.index pos = none) ∧
    (0 ≤ pos → pos < s.abs.length → s.index pos = s.abs[pos.toNat]?) ∧
    (s.abs.length ≤ pos → s.index pos = none ∨ s.index pos = some 0) := CS.index_spec s hi pos

/-- A store through `IndexRef(pos)` at a position inside the queue replaces exactly that element. -/
theorem circ_indexref_store_refines (s : CS) (hi : CS.Inv s) (pos : Int) (v : Nat) (h0 : 0 ≤ pos)
    (hl : pos < s.abs.length) :
    ∃ s', s.indexSet pos v = some s' ∧ CS.Inv s' ∧ s'.abs = s.abs.set pos.toNat v ∧ s'.cap = s.cap := by
  obtain ⟨els, rp, wp⟩ := s
  obtain ⟨r, w, rfl, rfl, _⟩ := hi.nat
  obtain ⟨p, rfl⟩ := Int.eq_ofNat_of_zero_le h0
  rw [CS.abs_length] at hl
  obtain ⟨s', e, i', a', l'⟩ := CS.indexSet_spec els r w hi p v (by simp only at hl; omega)
  exact ⟨s', e, i', by rw [a']; simp, by simp only [CS.cap]; omega⟩

/-- `Len` is the queue length, `Cap` bounds it. -/
theorem circ_len_cap (s : CS) (hi : CS.Inv s) : s.len = s.abs.length ∧ (s.abs.length : Int) ≤ s.cap := by
  obtain ⟨els, rp, wp⟩ := s
  obtain ⟨r, w, rfl, rfl, _⟩ := hi.nat
  simp only [CS.len, CS.cap, CS.abs_length]
  omega

/-- `Slices` never panics and its two parts concatenated are the queue content. -/
theorem circ_slices_refines (s : CS) (hi : CS.Inv s) :
    ∃ s1 s2, s.slices = some (s1, s2) ∧ s1 ++ s2 = s.abs := by
  obtain ⟨els, rp, wp⟩ := s
  obtain ⟨r, w, rfl, rfl, _⟩ := hi.nat
  obtain ⟨s1, s2, e, h, _⟩ := CS.slices_spec els r w hi
  exact ⟨s1, s2, e, h⟩

/-- `Reserve n` never panics, keeps the content, and makes the capacity `max cap n` (it never shrinks). -/
theorem circ_reserve_refines (s : CS) (hi : CS.Inv s) (n : Int) :
    ∃ s', s.reserve n = some s' ∧ CS.Inv s' ∧ s'.abs = s.abs ∧ s'.cap = max s.cap n := by
  obtain ⟨els, rp, wp⟩ := s
  obtain ⟨r, w, rfl, rfl, _⟩ := hi.nat
  obtain ⟨s', e, i', a', h1, h2⟩ := CS.reserve_spec els r w hi n
  refine ⟨s', e, i', a', ?_⟩
  simp only [CS.cap]
  by_cases hn : n ≤ els.length
  · rw [h1 hn]; simp only; omega
  · obtain ⟨hl, _, _⟩ := h2 (by omega)
    rw [hl]; omega

/-- `Clear` never panics, empties the queue and keeps the capacity. -/
theorem circ_clear_refines (s : CS) (hi : CS.Inv s) :
    ∃ s', s.clear = some s' ∧ CS.Inv s' ∧ s'.abs = [] ∧ s'.cap = s.cap := by
  obtain ⟨els, rp, wp⟩ := s
  obtain ⟨r, w, rfl, rfl, _⟩ := hi.nat
  obtain ⟨s', e, i', a', l'⟩ := CS.clear_spec els r w hi
  exact ⟨s', e, i', a', by simp only [CS.cap]; omega⟩

/-- `Swap` exchanges the two queues; `DeepAssign` makes the receiver a copy of the argument. -/
theorem circ_swap_deepAssign (s o : CS) :
    ((CS.swap s o).1.abs = o.abs ∧ (CS.swap s o).2.abs = s.abs) ∧ (CS.deepAssign s o).abs = o.abs ∧
    (CS.deepAssign s o).cap = o.cap := ⟨⟨rfl, rfl⟩, rfl, rfl⟩

/-- One step of any exported method on a pair of slices refines the pair-of-lists reference: invariants kept,
contents as in the reference, observation allowed by the reference. -/
theorem circ_step_refines (s o : CS) (hs : CS.Inv s) (ho : CS.Inv o) (op : QOp) (hok : QOp.ok s.abs op) :
    CS.Inv (CS.apply (s, o) op).1.1 ∧ CS.Inv (CS.apply (s, o) op).1.2 ∧
    ((CS.apply (s, o) op).1.1.abs, (CS.apply (s, o) op).1.2.abs) = specQ (s.abs, o.abs) op ∧
    QObsOk s.abs op (CS.apply (s, o) op).2 := CS.apply_refines s o hs ho op hok

/-- Any history of exported calls on two initially empty slices: invariants hold at the end, the contents are those
of the reference after the same history, and every observation along the way is allowed by the reference.
Guard `OpsOk` (decidable): stores through `IndexRef` happen only at positions inside the queue. -/
theorem circ_history_refines (ops : List QOp) (hok : OpsOk ([], []) ops) :
    CS.Inv (CS.run (CS.empty, CS.empty) ops).1.1 ∧ CS.Inv (CS.run (CS.empty, CS.empty) ops).1.2 ∧
    ((CS.run (CS.empty, CS.empty) ops).1.1.abs, (CS.run (CS.empty, CS.empty) ops).1.2.abs) = ops.foldl specQ ([], []) ∧
    ObsListOk ([], []) ops (CS.run (CS.empty, CS.empty) ops).2 :=
  CS.run_refines ops CS.empty CS.empty CS.empty_inv.1 CS.empty_inv.1 hok

/-- Panics only on the documented misuse: `PopFront`/`Front` on an empty queue, `Index` outside `[0, Len())`. -/
theorem circ_panics_only_on_misuse (s o : CS) (hs : CS.Inv s) (ho : CS.Inv o) (op : QOp) (hok : QOp.ok s.abs op)
    (hp : (CS.apply (s, o) op).2 = .panic) :
    (op = .pop ∧ s.abs = []) ∨ (op = .front ∧ s.abs = []) ∨
    (∃ pos, (op = .index pos ∨ ∃ v, op = .indexSet pos v) ∧ (pos < 0 ∨ (s.abs.length : Int) ≤ pos)) := by
  obtain ⟨_, _, _, h⟩ := CS.apply_refines s o hs ho op hok
  rw [hp] at h
  cases op with
  | indexSet pos v =>
    right; right; refine ⟨pos, Or.inr ⟨v, rfl⟩, ?_⟩
    obtain ⟨_, h2⟩ := h
    by_cases h0 : pos < 0
    · exact Or.inl h0
    · have := h2 (by omega) hok
      cases this
  | push x => cases h
  | reserve n => cases h
  | clear => cases h
  | swap => cases h
  | deepAssign => cases h
  | len => cases h
  | cap => obtain ⟨c, hc, _⟩ := h; cases hc
  | slices => obtain ⟨a, b, hc, _⟩ := h; cases hc
  | pop =>
    left; refine ⟨rfl, ?_⟩
    simp only [QObsOk] at h
    cases hh : s.abs with
    | nil => rfl
    | cons x xs => rw [hh] at h; simp at h
  | front =>
    right; left; refine ⟨rfl, ?_⟩
    simp only [QObsOk] at h
    cases hh : s.abs with
    | nil => rfl
    | cons x xs => rw [hh] at h; simp at h
  | index pos =>
    right; right; refine ⟨pos, Or.inl rfl, ?_⟩
    obtain ⟨_, h2, _⟩ := h
    by_cases h0 : pos < 0
    · exact Or.inl h0
    · right
      by_cases hl : pos < s.abs.length
      · obtain ⟨x, _, hx⟩ := h2 (by omega) hl
        cases hx
      · omega

/-- Capacity: `Reserve n` makes it at least `n`; no method of one slice shrinks its capacity or touches the other
slice (only `Swap`/`DeepAssign` exchange/copy whole slices). -/
theorem circ_capacity (s o : CS) (hs : CS.Inv s) (op : QOp) (h1 : op ≠ .swap) (h2 : op ≠ .deepAssign) :
    s.cap ≤ (CS.apply (s, o) op).1.1.cap ∧ (CS.apply (s, o) op).1.2 = o ∧
    (∀ n, op = .reserve n → n ≤ (CS.apply (s, o) op).1.1.cap) := CS.apply_cap s o hs op h1 h2

/-- The invariant and the wrap-around are exercised by a non-trivial state (hypotheses are not vacuous). -/
example : (CS.run (CS.empty, CS.empty) [.reserve 3, .push 1, .push 2, .push 3, .pop, .pop, .push 4, .push 5]).1.1 =
    ⟨[4, 5, 3], 2, 5⟩ ∧ CS.abs ⟨[4, 5, 3], 2, 5⟩ = [3, 4, 5] ∧
    OpsOk ([], []) [.push 1, .indexSet 0 7, .indexSet (-1) 3, .pop] := by decide

end TLVerif.Props.C41
