import TLVerif.Generated.AlgoFacts
import TLVerif.Algo.Avl
import TLVerif.Algo.Circular
namespace TLVerif.Props.C41
open TLVerif.Algo TLVerif.Facts.Algo

/-- T1 side condition: the height stored into a fresh leaf is 0 or 1. -/
theorem facts_ok : newLeafHeight ≤ 1 := by decide

end TLVerif.Props.C41
