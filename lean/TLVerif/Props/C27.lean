import TLVerif.Tlomig.MigLemmas
/-!
C27 — TL1-to-TL2 migration preserves the TL2 wire format and JSON.

Full-strength statement (quantified over schemas): for every TL1 schema `s` and whitelist `w` that
`Kernel.Migration` accepts, the migrated schema compiles and every value of every migrated type has the same TL2
bytes and the same JSON under both schemas.  The migration itself is a text-to-text transformation of 700 lines on
top of the kernel's type resolution; it is *validated per run* (translation validation): for every migrated root the
check exports the descriptors `d₁` (original schema's TL2 view) and `d₂` (migrated schema) from the two compiled
kernels and evaluates the decidable certificate `tl2Equiv d₁ d₂` here.  What is proved once and for all is the
∀-values part: whenever the certificate holds, *all* values are written identically.
-/
namespace TLVerif.Props.C27
open TLVerif.Tlomig TLVerif.Prim

/-- Any relation closed under the local matching conditions (a bisimulation up to aliases) relates types that write
every value to the same TL2 bytes (for both settings of `optimizeEmpty`) and the same JSON text.  `none` (value does
not fit the type) is also preserved: the two types have the same values. -/
theorem consistent_same_tl2_and_json (d₁ d₂ : Desc) (R : Rel) (hR : consistent d₁ d₂ R = true)
    (i j : Nat) (hij : R.contains (i, j) = true) (v : Val) :
    (∀ opt, writeTL2 d₁ i opt v = writeTL2 d₂ j opt v) ∧ writeJson d₁ i v = writeJson d₂ j v :=
  ⟨fun opt => tl2_val hR v i j opt hij, json_val hR v i j hij⟩

/-- C27, ∀-values part: if the certificate `tl2Equiv d₁ d₂` evaluates to `true` then every value has the same TL2
encoding and the same JSON under the migrated descriptor as under the original one. -/
theorem equiv_same_tl2_and_json (d₁ d₂ : Desc) (h : tl2Equiv d₁ d₂ = true) (v : Val) :
    (∀ opt, writeTL2 d₁ d₁.root opt v = writeTL2 d₂ d₂.root opt v) ∧
    writeJson d₁ d₁.root v = writeJson d₂ d₂.root v := by
  unfold tl2Equiv at h
  simp only [Bool.and_eq_true] at h
  exact consistent_same_tl2_and_json d₁ d₂ _ h.2 _ _ h.1 v

/-- the certificate is reflexive on descriptors whose reachable part is well formed: evaluated, not assumed -/
def exampleDesc : Desc :=
  ⟨0, [.struct false false false 0 [⟨"f", false, false, 1⟩, ⟨"a", true, false, 2⟩, ⟨"t", true, true, 3⟩, ⟨"next", true, false, 0⟩],
       .prim .u32, .struct true true false 0 [⟨"", false, false, 4⟩], .struct false false false 0 [],
       .array false false 0 5 false, .union [("a", 6), ("b", 7)],
       .struct false false true 0 [], .struct false true true 1 [⟨"", false, false, 1⟩]]⟩

/-- the migrated form of `exampleDesc`: the alias is gone, `true` became `bit` -/
def exampleDescMigrated : Desc :=
  ⟨3, [.prim .u32, .prim .bit, .array false false 0 5 false,
       .struct false false false 0 [⟨"f", false, false, 0⟩, ⟨"a", true, false, 2⟩, ⟨"t", true, true, 1⟩, ⟨"next", true, false, 3⟩],
       .bad, .union [("a", 6), ("b", 7)],
       .struct false false true 0 [], .struct false true true 1 [⟨"", false, false, 0⟩]]⟩

/-- hypotheses are satisfiable by a non-trivial (recursive, aliased, union-carrying) pair -/
example : tl2Equiv exampleDesc exampleDescMigrated = true := by decide

/-- and the certificate is not vacuous: changing a field name, an optional flag or the variant order is rejected -/
example : tl2Equiv exampleDesc
    ⟨3, [.prim .u32, .prim .bit, .array false false 0 5 false,
       .struct false false false 0 [⟨"f", false, false, 0⟩, ⟨"a", false, false, 2⟩, ⟨"t", true, true, 1⟩, ⟨"next", true, false, 3⟩],
       .bad, .union [("a", 6), ("b", 7)],
       .struct false false true 0 [], .struct false true true 1 [⟨"", false, false, 0⟩]]⟩ = false := by decide

example : tl2Equiv exampleDesc
    ⟨3, [.prim .u32, .prim .bit, .array false false 0 5 false,
       .struct false false false 0 [⟨"f", false, false, 0⟩, ⟨"a", true, false, 2⟩, ⟨"t", true, true, 1⟩, ⟨"next", true, false, 3⟩],
       .bad, .union [("b", 7), ("a", 6)],
       .struct false false true 0 [], .struct false true true 1 [⟨"", false, false, 0⟩]]⟩ = false := by decide

end TLVerif.Props.C27
