import TLVerif.Codec.JsonLemmas
/-!
# C05 — JSON written by generated code is valid JSON and reads back to the same value

Model: `TLVerif/Codec/Json.lean` (`writeJson` / `readJson`, tied to the generated Go code by `checks/C05.py`),
`JsonText.lean` (printer / parser), `JsonPrim.lean` (number text, UTF-8, base64).

* `json_valid` — proved for every descriptor, type and value: what the writer produces, printed, is an RFC 8259 JSON text.
  String escaping is the hypothesis `EscOK esc` (the escaper's model belongs to C34).
* The round-trip half of the property **fails on the real code** (and therefore in the model, which follows the code):
  `JsonRoundTrip` is the full-strength statement, `json_roundtrip_fails_at_nan_payload` is a proved counter-example (lead L3 of
  DESIGN §6; L2 — −0.0 treated as empty — was repaired in the generator: `float_empty_iff_zero_bits`, `neg_zero_unmasked_field_roundtrips`); further failures found by the check (dictionary keys that are not
  valid UTF-8, nil recursive pointers) are recorded in `known_findings.json`; keys that merely need escaping read back
  unescaped both in the model and — since the repair of F2 in /repo 540af2db — in the code.
  What is proved of the positive direction: the primitive round trips below (`prim_roundtrip_*`: all integers, all strings,
  booleans, the special floats); finite floats (shortest-digit printing / correctly rounded parsing) and the composite
  types are explored by the differential run only (stated as such in the manifest).
-/
namespace TLVerif.Props.C05
open TLVerif.Codec TLVerif.Prim

/-- **Validity.** Whatever `writeJson` returns prints to a JSON text (RFC 8259 grammar `IsJsonText`), for every schema
descriptor, type instance, nat arguments and value. -/
theorem json_valid (d : Desc) (esc : Bytes → List Char) (he : EscOK esc) (fuel ty : Nat) (params : List Nat) (v : Val) (j : Json)
    (h : writeJson d fuel ty params v = .ok j) : IsJsonText (printJson esc j) :=
  IsElement.ofValue (printJson_valid he j (writeJson_wf d fuel ty params v j h))

/-- every number token the writer emits is an RFC 8259 number -/
theorem json_numbers_wellformed (d : Desc) (fuel ty : Nat) (params : List Nat) (v : Val) (j : Json)
    (h : writeJson d fuel ty params v = .ok j) : j.Wf := writeJson_wf d fuel ty params v j h

/-- the hypothesis of `json_valid` is satisfiable (a trivial escaper that emits nothing) and the theorem is not vacuous -/
example : EscOK (fun _ => []) := ⟨fun _ => .nil⟩

/-- Full-strength round trip (the statement of the property): reading back what was written gives a value with the same
JSON and TL1 encodings. -/
def JsonRoundTrip (d : Desc) : Prop :=
  ∀ fuel ty params v j, writeJson d fuel ty params v = .ok j →
    ∃ v', readJson d false parseJson fuel ty params (some j) = .ok v' ∧
      writeJson d fuel ty params v' = .ok j ∧ writeTL1 d fuel ty true params v' = writeTL1 d fuel ty true params v

/-- `x:float = T` — descriptor of a struct with one unmasked float32 field -/
def dFloat : Desc :=
  { insts := #[.prim .f32, .struct { tag := 1, nparams := 0, fields := [{ name := "x", ty := 0, bare := true, mask := none, tl2bit := none, isBit := false, natArgs := [] }] }],
    tlnames := #["float", "t"] }

/-- **Float emptiness is the bit pattern** (former finding L2, repaired in the generator: `x != 0 || 1/x < 0`): a float32 / float64
value is "empty" — omitted where empty values are omitted — iff its bits are zero; −0.0 (`0x80000000`, `0x8000…0`) is not empty. -/
theorem float_empty_iff_zero_bits (d : Desc) (fuel ty : Nat) (k : PrimK) (n : Nat) (hd : d.get? ty = some (.prim k))
    (hk : k = .f32 ∨ k = .f64) : emptyCond d (fuel + 1) ty (.nat n) = some (n != 0) := by
  unfold emptyCond
  rcases hk with rfl | rfl <;> simp [hd]

/-- −0.0 is written as the number `-0` and reads back with its sign bit, for both float widths -/
theorem prim_roundtrip_neg_zero :
    writePrimJ .f32 (.nat 0x80000000) = .ok (.num ['-', '0']) ∧ readPrimJ .f32 (some (.num ['-', '0'])) = .ok (.nat 0x80000000) ∧
    writePrimJ .f64 (.nat 0x8000000000000000) = .ok (.num ['-', '0']) ∧
    readPrimJ .f64 (some (.num ['-', '0'])) = .ok (.nat 0x8000000000000000) := ⟨rfl, rfl, rfl, rfl⟩

/-- the old L2 witness now round-trips: −0.0 in an unmasked float field is written explicitly (`{"x":-0}`), read back with the
same bits, and re-encodes to the same JSON and TL1 -/
theorem neg_zero_unmasked_field_roundtrips :
    ∃ j v', writeJson dFloat 4 1 [] (.struct [some (.nat 0x80000000)]) = .ok j ∧ j = .obj [(strBytes "x", .num ['-', '0'])] ∧
      readJson dFloat false parseJson 4 1 [] (some j) = .ok v' ∧ v' = .struct [some (.nat 0x80000000)] ∧
      writeJson dFloat 4 1 [] v' = .ok j ∧
      writeTL1 dFloat 4 1 true [] v' = writeTL1 dFloat 4 1 true [] (.struct [some (.nat 0x80000000)]) :=
  ⟨_, _, rfl, rfl, rfl, rfl, rfl, rfl⟩

/-- +0.0 (bits 0) is still omitted and still read back as bits 0 -/
example : writeJson dFloat 4 1 [] (.struct [some (.nat 0)]) = .ok (.obj []) ∧
    readJson dFloat false parseJson 4 1 [] (some (.obj [])) = .ok (.struct [some (.nat 0)]) := ⟨rfl, rfl⟩

/-- **L3.** A NaN whose payload differs from Go's `math.NaN()` is written as `"NaN"` and reads back with the canonical payload. -/
theorem json_roundtrip_fails_at_nan_payload : ¬ JsonRoundTrip dFloat := by
  intro h
  obtain ⟨v', hr, _, ht⟩ := h 4 1 [] (.struct [some (.nat 0x7FC00001)]) (.obj [(strBytes "x", .str (strBytes "NaN"))]) (by rfl)
  have hv : v' = .struct [some (.nat 0x7FC00000)] := by
    have : readJson dFloat false parseJson 4 1 [] (some (.obj [(strBytes "x", .str (strBytes "NaN"))])) = .ok (.struct [some (.nat 0x7FC00000)]) := by rfl
    rw [this] at hr
    cases hr
    rfl
  subst hv
  have h1 : writeTL1 dFloat 4 1 true [] (.struct [some (.nat 0x7FC00000)]) = .ok [0, 0, 0xC0, 0x7F] := by rfl
  have h2 : writeTL1 dFloat 4 1 true [] (.struct [some (.nat 0x7FC00001)]) = .ok [1, 0, 0xC0, 0x7F] := by rfl
  rw [h1, h2] at ht
  cases ht

/-- `d:(dictionary int) = T` — a string-keyed dictionary -/
def dDict : Desc :=
  { insts := #[.prim .str, .prim .i32,
      .struct { tag := 0, nparams := 0, fields := [{ name := "key", ty := 0, bare := true, mask := none, tl2bit := none, isBit := false, natArgs := [] },
                                                   { name := "value", ty := 1, bare := true, mask := none, tl2bit := none, isBit := false, natArgs := [] }] },
      .dict { isTuple := false, dynamic := false, count := 0, nparams := 0, hasTL2 := false,
              elem := { name := "", ty := 2, bare := true, mask := none, tl2bit := none, isBit := false, natArgs := [] } }],
    tlnames := #["string", "int", "__dict_field", ""] }

/-- **F1.** A dictionary key that is not valid UTF-8 has no JSON: the generated writer emits `{"base64":…}` in key position
(not a JSON text — observed by the check with `encoding/json.Valid`); the model reports it as a writer error, so `json_valid`
does not speak about such values. -/
theorem dict_key_non_utf8_has_no_json :
    writeJson dDict 4 3 [] (.arr [.struct [some (.str [0xFF]), some (.nat 1)]]) = .error .shape := by rfl

/-- with a valid key the same dictionary is written as an object -/
example : writeJson dDict 4 3 [] (.arr [.struct [some (.str [107]), some (.nat 1)]]) = .ok (.obj [([107], .num ['1'])]) := by rfl

/-- the same type round-trips for a value inside the guard (finite, non-zero float): 1.5 -/
example : ∃ j v', writeJson dFloat 4 1 [] (.struct [some (.nat 0x3FC00000)]) = .ok j ∧
    readJson dFloat false parseJson 4 1 [] (some j) = .ok v' ∧ v' = .struct [some (.nat 0x3FC00000)] :=
  ⟨_, _, rfl, rfl, rfl⟩

/-! ### positive direction, primitives (guarded) -/

/-- booleans round-trip -/
theorem prim_roundtrip_bool (f t : Nat) (b : Bool) :
    readPrimJ (.bool f t) (some (.bool b)) = .ok (.bool b) ∧ writePrimJ (.bool f t) (.bool b) = .ok (.bool b) := ⟨rfl, rfl⟩

/-- valid UTF-8 strings are written as JSON strings and read back unchanged -/
theorem prim_roundtrip_string_utf8 (s : Bytes) (h : utf8Valid s = true) :
    ∃ j, writePrimJ .str (.str s) = .ok j ∧ readPrimJ .str (some j) = .ok (.str s) :=
  ⟨.str s, by simp [writePrimJ, h], rfl⟩

/-- strings that are not valid UTF-8 are written as `{"base64": …}`, never as a JSON string -/
theorem prim_string_non_utf8_is_base64 (s : Bytes) (h : utf8Valid s = false) :
    writePrimJ .str (.str s) = .ok (.obj [(kBase64, .str (base64Encode s))]) := by
  simp [writePrimJ, h]

/-- every string — valid UTF-8 or not — reads back exactly (plain JSON string, or `{"base64":…}` whose decoding is the inverse of
the encoding: `base64_roundtrip`) -/
theorem prim_roundtrip_string (s : Bytes) : ∃ j, writePrimJ .str (.str s) = .ok j ∧ readPrimJ .str (some j) = .ok (.str s) :=
  readString_roundtrip s

/-- unsigned integers (`#`, `uint64`, `byte`) read back exactly from the decimal text the writer emits -/
theorem prim_roundtrip_uint (k : PrimK) (bits : Nat) (hk : (k = .u32 ∧ bits = 32) ∨ (k = .u64 ∧ bits = 64) ∨ (k = .byte ∧ bits = 8))
    (n : Nat) (h : n < 2 ^ bits) : ∃ j, writePrimJ k (.nat n) = .ok j ∧ readPrimJ k (some j) = .ok (.nat n) :=
  readUint_roundtrip k bits hk n h

/-- signed integers (`int`, `long`; two's complement patterns) read back exactly, including the minimum value -/
theorem prim_roundtrip_int (k : PrimK) (bits : Nat) (hk : (k = .i32 ∧ bits = 32) ∨ (k = .i64 ∧ bits = 64))
    (n : Nat) (h : n < 2 ^ bits) : ∃ j, writePrimJ k (.nat n) = .ok j ∧ readPrimJ k (some j) = .ok (.nat n) :=
  readInt_roundtrip k bits hk n h

/-- ±Inf and NaN are written as the strings the reader maps back to ±Inf / the canonical NaN -/
theorem prim_float32_specials :
    writePrimJ .f32 (.nat 0x7F800000) = .ok (.str (strBytes "+Inf")) ∧
    writePrimJ .f32 (.nat 0xFF800000) = .ok (.str (strBytes "-Inf")) ∧
    writePrimJ .f32 (.nat 0x7FC00000) = .ok (.str (strBytes "NaN")) ∧
    readPrimJ .f32 (some (.str (strBytes "+Inf"))) = .ok (.nat 0x7F800000) ∧
    readPrimJ .f32 (some (.str (strBytes "-Inf"))) = .ok (.nat 0xFF800000) ∧
    readPrimJ .f32 (some (.str (strBytes "NaN"))) = .ok (.nat 0x7FC00000) := ⟨rfl, rfl, rfl, rfl, rfl, rfl⟩

theorem prim_float64_specials :
    writePrimJ .f64 (.nat 0x7FF0000000000000) = .ok (.str (strBytes "+Inf")) ∧
    writePrimJ .f64 (.nat 0xFFF0000000000000) = .ok (.str (strBytes "-Inf")) ∧
    writePrimJ .f64 (.nat 0x7FF8000000000001) = .ok (.str (strBytes "NaN")) ∧
    readPrimJ .f64 (some (.str (strBytes "+Inf"))) = .ok (.nat 0x7FF0000000000000) ∧
    readPrimJ .f64 (some (.str (strBytes "-Inf"))) = .ok (.nat 0xFFF0000000000000) ∧
    readPrimJ .f64 (some (.str (strBytes "NaN"))) = .ok (.nat 0x7FF8000000000001) := ⟨rfl, rfl, rfl, rfl, rfl, rfl⟩

end TLVerif.Props.C05
