import TLVerif.Rpcextra.FormatLemmas
import TLVerif.Rpcextra.FuelLemmas
/-!
# C40 — RPC request/response extras are transmitted unchanged

Property theorems only; the model is `TLVerif/Rpcextra/{Wire,Extras,Format}.lean` (hand-written after
`pkg/rpc/rpc_format.go`, the byte-moving lines of `client.go`, `client_conn.go`, `server_conn_tcp.go`, and the generated
TL1 codecs of `RpcInvokeReqExtra` / `RpcReqResultExtra`), instantiated with the wrapper tags, packet limits and error
codes extracted from the repository on this run (`Generated/RpcextraFacts.lean`).

Reading guide.  `e.norm` is `e` with every field whose mask bit is clear reset to its zero value; `e.consistent` is
`e.norm = e` ("a field is non-default only if its bit is set", which the generated `Set…/Clear…` accessors maintain).
All theorems are for **all** requests/extras/handlers: no bound on sizes other than the success of the code's own
length check (`preparePacket … = some`, `prepareResponseBody … = .ok`), from which the lemmas `prepare_wf`/`response_wf`
derive every size side condition of the generated writers.  The remaining hypotheses are explicit and decidable:

* `mapsOK`     — the model's association lists are key-sorted without duplicates, i.e. they *are* Go maps;
* `reqBodyOK`  — the request body starts with a 4-byte tag that is not one of the four request wrapper tags;
* `respBodyOK` — in TL1 body format the result body starts with a tag that is none of the four result magics
                 (in TL2 format the marker makes every body acceptable).

The last two are the in-band-signalling assumptions of the protocol (the body is a TL function call / boxed result);
`body_tag_hypothesis_needed` and `result_tag_hypothesis_needed` show they cannot be dropped.
-/
namespace TLVerif.Props.C40
open TLVerif.Prim TLVerif.Rpcextra TLVerif.Facts.Rpcextra

/-! ## T1 side conditions on the extracted facts -/

/-- the four request wrapper tags are pairwise distinct (so the server's `switch` is unambiguous) -/
theorem request_tags_distinct : [tDestActor, tDestFlags, tDestActorFlags, tTL2Marker].Nodup := by decide

/-- the result magics and the TL2 marker are pairwise distinct -/
theorem result_tags_distinct :
    [tReqResultHeader, tReqError, tRpcReqResultError, tRpcReqResultErrorWrapped, tTL2Marker].Nodup := by decide

/-- the extracted tag values are the documented ones (`rpc.tl`) -/
theorem tag_values :
    tagRpcDestActor = 0x7568aabd ∧ tagRpcDestFlags = 0xe352035e ∧ tagRpcDestActorFlags = 0xf0a5acf7 ∧
    tagRpcTL2Marker = 0x30324c54 ∧ tagReqResultHeader = 0x8cc84ce1 ∧ tagReqError = 0xb527877d ∧
    tagRpcReqResultError = 0x7ae432f5 ∧ tagRpcReqResultErrorWrapped = 0x7ae432f6 := by decide

/-- the field layouts the model's `write`/`read` follow are the ones of the generated `WriteTL1`/`ReadTL1`
(mask bit — 1000 = unconditional —, primitive, field), extracted from the Go source on this run;
writer and reader agree on bits, order and fields. -/
theorem layouts_as_modelled :
    reqExtraWriteLayout.map (fun s => (s.1, s.2.2)) =
      [(1000, "Flags"), (9, "RequesterId"), (15, "WaitShardsBinlogPos"), (16, "WaitBinlogPos"), (18, "StringForwardKeys"),
       (19, "IntForwardKeys"), (20, "StringForward"), (21, "IntForward"), (23, "CustomTimeoutMs"),
       (25, "SupportedCompressionVersion"), (26, "RandomDelay"), (28, "PersistentQuery"), (29, "TraceContext"),
       (30, "ExecutionContext")] ∧
    reqExtraReadLayout.map (fun s => (s.1, s.2.2)) = reqExtraWriteLayout.map (fun s => (s.1, s.2.2)) ∧
    resExtraWriteLayout.map (fun s => (s.1, s.2.2)) =
      [(1000, "Flags"), (0, "BinlogPos"), (1, "BinlogTime"), (2, "EnginePid"), (3, "RequestSize"), (3, "ResponseSize"),
       (4, "FailedSubqueries"), (5, "CompressionVersion"), (6, "Stats"), (14, "ShardsBinlogPos"), (27, "EpochNumber"),
       (27, "ViewNumber")] ∧
    resExtraReadLayout.map (fun s => (s.1, s.2.2)) = resExtraWriteLayout.map (fun s => (s.1, s.2.2)) ∧
    traceContextWriteLayout.map (fun s => (s.1, s.2.2)) = [(1000, "FieldsMask"), (1000, "TraceId"), (2, "ParentId"), (3, "SourceId")] ∧
    traceContextReadLayout.map (fun s => (s.1, s.2.2)) = traceContextWriteLayout.map (fun s => (s.1, s.2.2)) := by decide

/-- the primitives used per field (writer side), as modelled -/
theorem primitives_as_modelled :
    reqExtraWriteLayout.map (fun s => s.2.1) =
      ["NatWrite", "LongWrite", "BuiltinDictStringLongWriteTL1", "LongWrite", "BuiltinVectorStringWriteTL1",
       "BuiltinVectorLongWriteTL1", "StringWrite", "LongWrite", "IntWrite", "IntWrite", "DoubleWrite", "WriteTL1Boxed",
       "WriteTL1", "StringWrite"] ∧
    resExtraWriteLayout.map (fun s => s.2.1) =
      ["NatWrite", "LongWrite", "LongWrite", "WriteTL1", "IntWrite", "IntWrite", "IntWrite", "IntWrite",
       "BuiltinDictStringStringWriteTL1", "BuiltinDictStringLongWriteTL1", "LongWrite", "LongWrite"] ∧
    netPidWriteLayout = [(1000, "NatWrite", "Ip"), (1000, "NatWrite", "PortPid"), (1000, "NatWrite", "Utime")] ∧
    rpcReqResultErrorWriteLayout = [(1000, "LongWrite", "QueryId"), (1000, "IntWrite", "ErrorCode"), (1000, "StringWrite", "Error")] ∧
    rpcReqResultErrorReadLayout = [(1000, "LongRead", "QueryId"), (1000, "IntRead", "ErrorCode"), (1000, "StringRead", "Error")] ∧
    reqErrorReadLayout = [(1000, "IntRead", "ErrorCode"), (1000, "StringRead", "Error")] ∧
    rpcReqResultErrorWrappedReadLayout = [(1000, "IntRead", "ErrorCode"), (1000, "StringRead", "Error")] ∧
    dictFieldStringLongWriteLayout = [(1000, "StringWrite", "Key"), (1000, "LongWrite", "Value")] ∧
    dictFieldStringStringWriteLayout = [(1000, "StringWrite", "Key"), (1000, "StringWrite", "Value")] := by decide

/-- limits and error codes used by the theorems -/
theorem limits_and_codes :
    maxPacketLen = 16777215 ∧ packetOverhead = 16 ∧ i32 errUnknown = 4294963296 ∧ i32 errNoHandler = 4294965296 := by decide

/-! ## extras codecs: a field is transmitted iff its bit is set -/

/-- `RpcInvokeReqExtra`: reading what was written yields the value with clear-bit fields reset, and leaves the rest. -/
theorem reqextra_roundtrip (e : ReqExtra) (rest : Bytes) (h : e.wf) :
    ReqExtra.read (e.write ++ rest) = .ok (e.norm, rest) := ReqExtra.rt e rest h

/-- `RpcReqResultExtra`: same. -/
theorem resextra_roundtrip (e : ResExtra) (rest : Bytes) (h : e.wf) :
    ResExtra.read (e.write ++ rest) = .ok (e.norm, rest) := ResExtra.rt e rest h

/-- mask-consistent extras round-trip exactly -/
theorem reqextra_roundtrip_consistent (e : ReqExtra) (rest : Bytes) (h : e.wf) (hc : e.consistent) :
    ReqExtra.read (e.write ++ rest) = .ok (e, rest) := by
  have := ReqExtra.rt e rest h; rw [hc] at this; exact this

/-- the side conditions `wf` are implied by any encoding shorter than 4 GiB (hence by every packet) -/
theorem reqextra_wf_of_short (e : ReqExtra) (hm : e.mapsOK) (hl : e.write.length < 4294967296) : e.wf :=
  ReqExtra.wf_of_short e hm hl

theorem resextra_wf_of_short (e : ResExtra) (hm : e.mapsOK) (hl : e.write.length < 4294967296) : e.wf :=
  ResExtra.wf_of_short e hm hl

/-- a key-sorted association list is a fixed point of "insert the entries one by one into an empty map":
the model's representation of `map[string]T` is canonical -/
theorem map_representation_canonical {β : Type} (m : List (Bytes × β)) (h : dictSorted m = true) : dictOfList m = m :=
  dictOfList_sorted m h

/-! ## request direction -/

/-- **parseInvokeReq (preparePacket r) = r**, both body formats, every actor, every extra: whenever the client's
`preparePacket` succeeds, the server's `ParseInvokeReq` (on a `reset()` context) succeeds on the bytes
`writeRequest` sends and fills in exactly: the query id, the actor id, the TL2 flag, the extra with clear-bit
fields reset, the function tag, the untouched body, and the derived `noResult`/fieldsmask/timeout. -/
theorem request_roundtrip (req : Request) (p : Bytes × Nat)
    (hb : reqBodyOK req.body = true) (hm : req.extra.mapsOK) (hp : preparePacket req = some p) :
    parseInvokeReq (wireOf p) = .ok (expectedHctx req) :=
  parse_prepare req p hb (prepare_wf req p hm hp) hp

/-- for mask-consistent extras the server's `RequestExtra` **is** the client's `Request.Extra`,
and actor, format, query id and body are the client's. -/
theorem request_extras_unchanged (req : Request) (p : Bytes × Nat)
    (hb : reqBodyOK req.body = true) (hm : req.extra.mapsOK) (hc : req.extra.consistent)
    (hp : preparePacket req = some p) :
    ∃ hc', parseInvokeReq (wireOf p) = .ok hc' ∧ hc'.extra = req.extra ∧ hc'.actorId = req.actorId ∧
      hc'.tl2 = req.tl2 ∧ hc'.queryId = req.queryId ∧ hc'.request = req.body ∧
      hc'.fieldsMask = req.extra.flags ∧ hc'.noResult = hasBit req.extra.flags 7 := by
  refine ⟨expectedHctx req, request_roundtrip req p hb hm hp, ?_, rfl, rfl, rfl, rfl, ?_, ?_⟩
  · show (expectedHctx req).extra = req.extra
    simp only [expectedHctx, fillInternals]; exact hc
  · simp [expectedHctx, fillInternals, ReqExtra.norm]
  · simp [expectedHctx, fillInternals, ReqExtra.norm]

/-- `preparePacket` keeps the user body in front and only appends; it fails only on the length check -/
theorem prepare_shape (req : Request) :
    preparePacket req = (if (req.body ++ requestHeader req).length ≤ maxPacketLen - packetOverhead
      then some (req.body ++ requestHeader req, req.body.length) else none) := by
  unfold preparePacket validBodyLen
  by_cases h : (req.body ++ requestHeader req).length ≤ maxPacketLen - packetOverhead
  · have : ¬ (req.body ++ requestHeader req).length > maxPacketLen - packetOverhead := by omega
    simp
  · have : (req.body ++ requestHeader req).length > maxPacketLen - packetOverhead := by omega
    simp

/-- the timeout the server derives is the (received) custom timeout when it is a positive `int32`, else the default -/
theorem request_timeout (req : Request) :
    (expectedHctx req).customTimeout =
      (if (0 < req.extra.norm.customTimeoutMs.toNat && req.extra.norm.customTimeoutMs.toNat < 2147483648) = true
       then some req.extra.norm.customTimeoutMs else none) := rfl

/-! ## response direction -/

/-- **parseResponseExtra (prepareResponse h) = h.extra** (restricted to the requested bits): for a successful call the
client gets the query id, exactly the handler's body, and the handler's `ResponseExtra` with
`Flags & requestExtraFieldsmask` and clear-bit fields reset. -/
theorem response_roundtrip (h : RespIn) (resp : Bytes) (es : Nat) (fl : UInt32)
    (hb : respBodyOK h.tl2 h.response = true) (hm : (maskedExtra h).mapsOK)
    (hp : prepareResponseBody h .none = .ok resp es fl) :
    parseResponse h.tl2 (wireOf (resp, es)) = .ok (h.queryId, h.response, (maskedExtra h).norm, .ok) :=
  parse_response_ok h resp es fl hb (response_wf h .none resp es fl hm hp) hp

/-- the flags sent back are the handler's flags restricted to the request's: never a bit the client did not ask for -/
theorem response_flags_subset (h : RespIn) (err : HandlerErr) (resp : Bytes) (es : Nat) (fl : UInt32)
    (hp : prepareResponseBody h err = .ok resp es fl) :
    fl = h.extra.flags &&& h.reqFlags ∧ fl &&& h.reqFlags = fl ∧ (maskedExtra h).norm.flags = fl := by
  obtain ⟨_, hfl, _⟩ := wireOf_response h err resp es fl hp
  refine ⟨hfl, ?_, ?_⟩
  · rw [hfl, UInt32.and_assoc, UInt32.and_self]
  · rw [hfl]; rfl

/-- if the handler only sets requested bits and keeps its extra mask-consistent, the client's `Response.Extra`
**is** the handler's `ResponseExtra`. -/
theorem response_extras_unchanged (h : RespIn) (resp : Bytes) (es : Nat) (fl : UInt32)
    (hb : respBodyOK h.tl2 h.response = true) (hm : h.extra.mapsOK) (hc : h.extra.consistent)
    (hsub : h.extra.flags &&& h.reqFlags = h.extra.flags)
    (hp : prepareResponseBody h .none = .ok resp es fl) :
    parseResponse h.tl2 (wireOf (resp, es)) = .ok (h.queryId, h.response, h.extra, .ok) := by
  have hme : maskedExtra h = h.extra := by
    cases hx : h.extra; simp only [maskedExtra, hx] at hsub ⊢; simp only [hsub]
  have := response_roundtrip h resp es fl hb (by rw [hme]; exact hm) hp
  rw [hme, hc] at this; exact this

/-- **error code/description preserved**: whatever `prepareResponseBody` decides to put on the wire for the
handler's error arrives as `*rpc.Error{Code, Description}`; the body is empty; extras as for a success. -/
theorem error_roundtrip (h : RespIn) (err : HandlerErr) (code : UInt32) (desc : Bytes) (resp : Bytes) (es : Nat) (fl : UInt32)
    (he : errorOnWire h.reqTag err = some (code, desc)) (hm : (maskedExtra h).mapsOK)
    (hp : prepareResponseBody h err = .ok resp es fl) :
    parseResponse h.tl2 (wireOf (resp, es)) = .ok (h.queryId, [], (maskedExtra h).norm, .rpcError code desc) :=
  parse_response_err h err code desc resp es fl he (response_desc_ok h err code desc resp es fl he hp)
    (response_wf h err resp es fl hm hp) hp

/-- what goes on the wire for each class of handler error: an `*rpc.Error` is forwarded as is, except that
**code 0 becomes `Unknown` (-4000)**; `ErrNoHandler` becomes `NoHandler` (-2000) with the request tag in the
text; any other error becomes `Unknown` with `err.Error()`. -/
theorem error_codes (tag : UInt32) (code : UInt32) (desc : Bytes) :
    (code ≠ 0 → errorOnWire tag (.rpc code desc) = some (code, desc)) ∧
    errorOnWire tag (.rpc 0 desc) = some (i32 errUnknown, desc) ∧
    errorOnWire tag (.other desc) = some (i32 errUnknown, desc) ∧
    errorOnWire tag .noHandler = some (i32 errNoHandler, noHandlerDescription tag) ∧
    errorOnWire tag .none = none := by
  refine ⟨fun h => ?_, rfl, rfl, rfl, rfl⟩
  have : (code == 0) = false := by simpa using h
  simp [errorOnWire, this]

/-- so a non-zero code and its description arrive unchanged … -/
theorem error_code_preserved (h : RespIn) (code : UInt32) (desc : Bytes) (resp : Bytes) (es : Nat) (fl : UInt32)
    (hne : code ≠ 0) (hm : (maskedExtra h).mapsOK) (hp : prepareResponseBody h (.rpc code desc) = .ok resp es fl) :
    parseResponse h.tl2 (wireOf (resp, es)) = .ok (h.queryId, [], (maskedExtra h).norm, .rpcError code desc) :=
  error_roundtrip h _ code desc resp es fl ((error_codes h.reqTag code desc).1 hne) hm hp

/-- … and code 0 arrives as `Unknown`, never as 0 (0 would mean "no error" to `rpc2.invokeReq`). -/
theorem error_code_zero_is_unknown (h : RespIn) (desc : Bytes) (resp : Bytes) (es : Nat) (fl : UInt32)
    (hm : (maskedExtra h).mapsOK) (hp : prepareResponseBody h (.rpc 0 desc) = .ok resp es fl) :
    parseResponse h.tl2 (wireOf (resp, es)) = .ok (h.queryId, [], (maskedExtra h).norm, .rpcError (i32 errUnknown) desc) ∧
    i32 errUnknown ≠ 0 :=
  ⟨error_roundtrip h _ _ desc resp es fl (error_codes h.reqTag 0 desc).2.1 hm hp, by decide⟩

/-- nothing is sent for a `noResult` request -/
theorem no_result_no_answer (h : RespIn) (err : HandlerErr) (hn : h.noResult = true) :
    prepareResponseBody h err = .noResult := by
  simp [prepareResponseBody, hn]

/-! ## the whole call -/

/-- **End to end** (successful handler): if the exchange completes, the handler saw the client's request
(extras with clear-bit fields reset) and the caller gets the handler's body and the handler's extras restricted to
the bits of the *request* flags. -/
theorem exchange_ok (req : Request) (handler : Hctx → Handler) (p : Bytes × Nat) (resp : Bytes) (es : Nat) (fl : UInt32)
    (hb : reqBodyOK req.body = true) (hm : req.extra.mapsOK) (hp : preparePacket req = some p)
    (herr : (handler (expectedHctx req)).err = .none)
    (hrb : respBodyOK req.tl2 (handler (expectedHctx req)).response = true)
    (hrm : (maskedExtra (respIn (expectedHctx req) (handler (expectedHctx req)))).mapsOK)
    (hpr : prepareResponseBody (respIn (expectedHctx req) (handler (expectedHctx req))) .none = .ok resp es fl) :
    exchange req handler = .done (expectedHctx req) (handler (expectedHctx req)).response
      ({ (handler (expectedHctx req)).extra with
          flags := (handler (expectedHctx req)).extra.flags &&& req.extra.flags } : ResExtra).norm .ok := by
  unfold exchange
  rw [hp]
  simp only
  rw [request_roundtrip req p hb hm hp]
  simp only
  rw [herr, hpr]
  simp only
  have := response_roundtrip (respIn (expectedHctx req) (handler (expectedHctx req))) resp es fl hrb hrm hpr
  have e : (respIn (expectedHctx req) (handler (expectedHctx req))).tl2 = req.tl2 := rfl
  rw [e] at this
  rw [this]
  rfl

/-- **End to end** (failing handler): the caller gets code (0 ↦ Unknown) and description. -/
theorem exchange_err (req : Request) (handler : Hctx → Handler) (p : Bytes × Nat) (resp : Bytes) (es : Nat) (fl : UInt32)
    (code : UInt32) (desc : Bytes)
    (hb : reqBodyOK req.body = true) (hm : req.extra.mapsOK) (hp : preparePacket req = some p)
    (herr : errorOnWire (expectedHctx req).reqTag (handler (expectedHctx req)).err = some (code, desc))
    (hrm : (maskedExtra (respIn (expectedHctx req) (handler (expectedHctx req)))).mapsOK)
    (hpr : prepareResponseBody (respIn (expectedHctx req) (handler (expectedHctx req))) (handler (expectedHctx req)).err = .ok resp es fl) :
    exchange req handler = .done (expectedHctx req) []
      ({ (handler (expectedHctx req)).extra with
          flags := (handler (expectedHctx req)).extra.flags &&& req.extra.flags } : ResExtra).norm (.rpcError code desc) := by
  unfold exchange
  rw [hp]
  simp only
  rw [request_roundtrip req p hb hm hp]
  simp only
  rw [hpr]
  simp only
  have := error_roundtrip (respIn (expectedHctx req) (handler (expectedHctx req))) _ code desc resp es fl herr hrm hpr
  have e : (respIn (expectedHctx req) (handler (expectedHctx req))).tl2 = req.tl2 := rfl
  rw [e] at this
  rw [this]
  rfl

/-! ## a proxy hop (`forward.go`, outside the anchors of C40 — recorded because it uses `preparePacket`) -/

/-- A request relayed by `HandlerContext.ForwardAndFlush` reaches the final server with the client's query id,
body and extras (clear-bit fields reset), but with **actor id 0 and without the TL2 marker**, whatever the client
sent: `forward.go` builds `Request{Body, Extra, queryID}` and copies neither `ActorID` nor `BodyFormatTL2`.
This is what the code does (reproduced on the real `ForwardAndFlush` by the `rpcextra.fwd` cases); whether a proxy
is meant to strip the actor is a design question, dropping the TL2 marker makes the final server read a TL2 body as TL1. -/
theorem forward_hop (req : Request) (p : Bytes × Nat) (p2 : Bytes × Nat)
    (hb : reqBodyOK req.body = true) (hm : req.extra.mapsOK) (hp : preparePacket req = some p)
    (hf : forwardRequest (expectedHctx req) = some p2) :
    viaProxy (wireOf p) = .ok (some (.ok (expectedHctx { req with actorId := 0, tl2 := false }))) :=
  forward_keeps_extras_drops_actor_and_format req p p2 hb hm hp hf

/-! ## faithfulness of the loop bound -/

/-- The Go loops (`for { … }` over wrappers / result headers) are unbounded; the model drives them with
`len/4 + 1` units of fuel. That bound is never reached, for any input bytes (valid or malformed): the
model's `.error .other` for "out of fuel" is dead code, so the model's verdict on every byte string is the
verdict of the unbounded loop. -/
theorem loops_never_run_out_of_fuel (h0 : Hctx) (q : UInt64) (r : Bytes) (ex0 : ResExtra) (body : Bytes) :
    parseWrappers (r.length / 4 + 1) { h0 with queryId := q, request := r } {} ≠ none ∧
    parseResultExtras (body.length / 4 + 1) ex0 body 0 ≠ none :=
  ⟨parseInvokeReqFrom_fuel_ok h0 q r, parseResponseExtra_fuel_ok ex0 body⟩

/-- every reader of the extras consumes input, never produces it -/
theorem readers_consume (r r' : Bytes) :
    (∀ e, ReqExtra.read r = .ok (e, r') → r'.length ≤ r.length) ∧
    (∀ e, ResExtra.read r = .ok (e, r') → r'.length ≤ r.length) :=
  ⟨fun e h => ReqExtra.read_nonInc r e r' h, fun e h => ResExtra.read_nonInc r e r' h⟩

/-! ## the hypotheses are needed, and satisfiable -/

/-- Without `reqBodyOK` the statement is false: a body that begins with the `rpcDestActor` tag is taken for a
wrapper, the server sees another actor and a shorter body. (In-band signalling; real bodies start with a function tag.) -/
theorem body_tag_hypothesis_needed :
    ∃ req p, preparePacket req = some p ∧ req.extra.consistent ∧
      ∃ hc, parseInvokeReq (wireOf p) = .ok hc ∧ hc.actorId ≠ req.actorId ∧ hc.request ≠ req.body :=
  ⟨{ body := u32W tDestActor ++ u64W 5 ++ [1, 2, 3, 4] }, _, rfl, by decide, _, rfl, by decide, by decide⟩

/-- Without `respBodyOK` (TL1 format) a result body beginning with the `reqError` tag is taken for an error. -/
theorem result_tag_hypothesis_needed :
    ∃ h resp es fl, prepareResponseBody h .none = .ok resp es fl ∧
      ∃ r, parseResponse h.tl2 (wireOf (resp, es)) = .ok r ∧ r.2.2.2 ≠ .ok :=
  ⟨{ response := u32W tReqError ++ u32W 7 ++ [0, 0, 0, 0] }, _, _, _, rfl, _, rfl, by decide⟩

/-! Non-vacuity: concrete non-trivial values satisfy the hypotheses and exercise both formats. -/

def exReq : Request :=
  { body := [1, 2, 3, 4, 9], actorId := 77, tl2 := true, queryId := 5,
    extra := { flags := 0x20B48201, requesterId := 9, waitShardsBinlogPos := [([97], 1), ([97, 98], 2)],
               stringForwardKeys := [[], [120]], stringForward := [1], customTimeoutMs := 1500,
               traceContext := { fieldsMask := 12, traceLo := 1, traceHi := 2, parentId := 3, sourceId := [115] } } }

example : reqBodyOK exReq.body = true := by decide
example : exReq.extra.mapsOK := by decide
example : exReq.extra.consistent := by decide
set_option maxRecDepth 100000 in
example : (preparePacket exReq).isSome = true := by rfl
set_option maxRecDepth 100000 in
example : (parseInvokeReq (wireOf ((preparePacket exReq).getD ([], 0)))).toOption.map (·.extra) = some exReq.extra := by rfl
set_option maxRecDepth 100000 in
example : (parseInvokeReq (wireOf ((preparePacket exReq).getD ([], 0)))).toOption.map (·.customTimeout) = some (some 1500) := by rfl

def exResp : RespIn :=
  { queryId := 5, response := [7, 7, 7, 7], reqFlags := 0x4041, tl2 := false,
    extra := { flags := 0x4043, binlogPos := 11, binlogTime := 12, stats := [([107], [118])], shardsBinlogPos := [([115], 4)] } }

example : respBodyOK exResp.tl2 exResp.response = true := by decide
example : (maskedExtra exResp).mapsOK := by decide
example : ∃ resp es, prepareResponseBody exResp .none = .ok resp es 0x4041 := ⟨_, _, rfl⟩
example : ∃ resp es, prepareResponseBody exResp (.rpc 0 [104, 105]) = .ok resp es 0x4041 := ⟨_, _, rfl⟩

end TLVerif.Props.C40
