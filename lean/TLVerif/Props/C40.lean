import TLVerif.Rpcextra.Format
namespace TLVerif.Props.C40
open TLVerif.Rpcextra

theorem tags_distinct : [tDestActor, tDestFlags, tDestActorFlags, tTL2Marker].Nodup := by decide

end TLVerif.Props.C40
