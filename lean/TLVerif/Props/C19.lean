import TLVerif.Syntax.ParserLemmas2
/-!
# C19 — TL1 parser is total with in-range error positions

Statement (fixed): *For any input text, parsing it as TL1 returns either a schema or an error whose
reported position lies inside the text; parsing never panics and printing the error never panics.*

All theorems are about the model of `internal/tlast` (`TLVerif/Syntax/{Token,Lexer,Parser,PError}.lean`):
the lexer (`generateTokens`), the recursive-descent parser (`parseTLFile` = `ParseTLFile`) with every
Go panic site / failing index or slice expression as the explicit outcome `panic` and every possible
non-termination as the explicit outcome `diverge`, and `ParseError.ConsolePrint` (`consolePrint`).
They hold for **all** byte strings and all lexer options (`AllowBuiltin`, `AllowDirty`, lexer language).
-/
namespace TLVerif.Props.C19
open TLVerif.Syntax TLVerif.Facts.Syntax

/-! ### T1 obligations over the regenerated facts -/

/-- The Go token class constants are pairwise distinct and negative, so they cannot collide with each
other or with the byte value of a one-character token: the abstraction `TT` is faithful. -/
theorem token_classes_distinct :
    [typesSection, functionsSection, crc32hash, annotation, numberSign, number, comment, undefined, lcIdent, ucIdent,
     lcIdentNS, ucIdentNS, eof, functionSign, newLine, tl2alias, tl2depName, tl2typeSign].Nodup ∧
    ∀ x ∈ [typesSection, functionsSection, crc32hash, annotation, numberSign, number, comment, undefined, lcIdent, ucIdent,
     lcIdentNS, ucIdentNS, eof, functionSign, newLine, tl2alias, tl2depName, tl2typeSign], x < 0 := by decide

/-- The character constants of `tllexer.go` and the section strings are the ones the model uses. -/
theorem char_constants_agree :
    lRoundBracket = cLRound.toNat ∧ rRoundBracket = cRRound.toNat ∧ lSquareBracket = cLSquare.toNat ∧
    rSquareBracket = cRSquare.toNat ∧ lCurlyBracket = cLCurly.toNat ∧ rCurlyBracket = cRCurly.toNat ∧
    lAngleBracket = cLAngle.toNat ∧ rAngleBracket = cRAngle.toNat ∧ colon = cColon.toNat ∧ semiColon = cSemi.toNat ∧
    dotSign = cDot.toNat ∧ commaSign = cComma.toNat ∧ percentSign = cPercent.toNat ∧ whiteSpace = cSpace.toNat ∧
    tab = cTab.toNat ∧ equalSign = cEqual.toNat ∧ questionMark = cQuestion.toNat ∧ asterisk = cAsterisk.toNat ∧
    plus = cPlus.toNat ∧ exclamation = cExcl.toNat ∧ verticalBar = cVBar.toNat ∧ underscore = cUnderscore.toNat ∧
    typesSectionBytes = [45, 45, 45, 116, 121, 112, 101, 115, 45, 45, 45] ∧
    functionsSectionBytes = [45, 45, 45, 102, 117, 110, 99, 116, 105, 111, 110, 115, 45, 45, 45] ∧
    tabSpacesBytes = [32, 32, 32, 32] := by decide

/-- Census of the explicit `panic` / `log.Panicf` calls in the lexer/parser files: exactly the five
sites that the model has as `panic` outcomes (`ParseTLFile` recombination check, `splitIdenNSFromToken`,
`expectOrPanic`, `skipWS`, `parseCommentBefore`).  A new site changes this list and breaks the obligation. -/
theorem panic_sites_census :
    parserPanicSites = ["tlparser_code.go:ParseTLFile:1", "tlparser_code.go:splitIdenNSFromToken:1",
      "tlparser_code.go:tokenIterator.expectOrPanic:1", "tlparser_code.go:tokenIterator.skipWS:1",
      "tlparser_comments.go:parseCommentBefore:1"] := by decide

/-! ### lexer -/

/-- The invariant `ParseTLFile` panics on: the token texts concatenated, followed by the unread rest,
are the input (and the rest is empty when lexing succeeds). -/
theorem lexer_recombines (o : LexOpts) (text : Bytes) (toks : List Token) (rest : Bytes)
    (h : generateTokens o text = .ok toks rest) : recombine toks rest = text ∧ rest = [] := by
  have := generateTokens_ok o text; rw [h] at this; exact ⟨this.1, this.2.1⟩

/-- The lexer never hits a failing slice/index expression. -/
theorem lexer_no_panic (o : LexOpts) (text : Bytes) : generateTokens o text ≠ .panic := by
  intro h; have := generateTokens_ok o text; rw [h] at this; exact this

/-- Every `nextToken` step consumes at least one byte: `generateTokens` terminates. -/
theorem lexer_terminates (o : LexOpts) (text : Bytes) : generateTokens o text ≠ .diverge := by
  intro h; have := generateTokens_ok o text; rw [h] at this; exact this

/-- Every token lies inside the text, its line start is not after it, and tokens are in source order. -/
theorem token_pos_in_range (o : LexOpts) (text : Bytes) (toks : List Token) (rest : Bytes)
    (h : generateTokens o text = .ok toks rest) :
    (∀ t ∈ toks, t.pos.off + t.val.length ≤ text.length ∧ t.pos.slo ≤ t.pos.off) ∧
    toks.Pairwise (fun a b => a.pos.off + a.val.length ≤ b.pos.off ∧ a.pos.slo ≤ b.pos.slo) := by
  have := generateTokens_ok o text; rw [h] at this; exact ⟨this.2.2.1.inRange, this.2.2.1.sorted⟩

/-- The token array ends with the (empty) eof token ("so we always have next token in array"). -/
theorem eof_token_last (o : LexOpts) (text : Bytes) (toks : List Token) (rest : Bytes)
    (h : generateTokens o text = .ok toks rest) :
    ∃ pre e, toks = pre ++ [e] ∧ e.ty = .eof ∧ e.val = [] := by
  have := generateTokens_ok o text; rw [h] at this; exact this.2.2.2

/-- A lexer error points inside the text. -/
theorem lex_error_pos_in_text (o : LexOpts) (text : Bytes) (toks : List Token) (e : PErr)
    (h : generateTokens o text = .err toks e) :
    e.begin.off ≤ e.end.off ∧ e.end.off ≤ text.length := by
  have := generateTokens_ok o text; rw [h] at this
  simp only [LexOK] at this
  simp only [PErr.begin, PErr.end]; omega

/-! ### parser -/

/-- `ParseTLFile` never panics: none of `front()`/`popFront()` on an exhausted iterator, `val[1:]` on
an empty string, a nil dereference, a slice out of range, `expectOrPanic`, `splitIdenNSFromToken`,
`skipWS` without eof, `parseCommentBefore` on a non-whitespace token, or the recombination check. -/
theorem parse_no_panic (o : LexOpts) (text : Bytes) : parseTLFile o text ≠ .panic := by
  intro h; have := parseTLFile_ok o text; rw [h] at this; exact this

/-- Every recursive call and every loop iteration of the parser consumes a token (all the length guards of
the model hold): `ParseTLFile` terminates. -/
theorem parse_terminates (o : LexOpts) (text : Bytes) : parseTLFile o text ≠ .diverge := by
  intro h; have := parseTLFile_ok o text; rw [h] at this; exact this

/-- The outcome is a schema or an error (lexer or parser) — nothing else. -/
theorem parse_total (o : LexOpts) (text : Bytes) :
    (∃ tl, parseTLFile o text = .ok tl) ∨ (∃ e, parseTLFile o text = .err e) ∨ (∃ e, parseTLFile o text = .lexErr e) := by
  have h1 := parse_no_panic o text
  have h2 := parse_terminates o text
  cases h : parseTLFile o text with
  | ok tl => exact Or.inl ⟨tl, rfl⟩
  | err e => exact Or.inr (Or.inl ⟨e, rfl⟩)
  | lexErr e => exact Or.inr (Or.inr ⟨e, rfl⟩)
  | panic => exact absurd h h1
  | diverge => exact absurd h h2

/-- The reported position of any error lies inside the text: `0 ≤ Begin ≤ End ≤ len(text)`. -/
theorem error_pos_in_text (o : LexOpts) (text : Bytes) (e : PErr)
    (h : parseTLFile o text = .err e ∨ parseTLFile o text = .lexErr e) :
    e.begin.off ≤ e.end.off ∧ e.end.off ≤ text.length := by
  have := parseTLFile_ok o text
  rcases h with h | h <;> rw [h] at this <;> simp only [ParseOK] at this <;>
    simp only [PErr.begin, PErr.end] <;> omega

/-- Printing an error never panics — for *any* position range, not only those the parser produces
(this is what `safeRange` is for). -/
theorem console_print_no_panic (fc : Bytes) (outer begin end_ : Pos) (errText file : Bytes) (isWarning : Bool) :
    consolePrint fc outer begin end_ errText file isWarning ≠ none := by
  obtain ⟨out, h⟩ := consolePrint_some fc outer begin end_ errText file isWarning
  rw [h]; simp

/-- For the errors the parser and lexer produce, none of the `safeRange` checks fails: the outer
position (start of the combinator) is not after the error token, line starts are ordered. -/
theorem error_context_not_corrupted (o : LexOpts) (text : Bytes) (e : PErr)
    (h : parseTLFile o text = .err e ∨ parseTLFile o text = .lexErr e) :
    contextCorrupted text e.outer e.begin e.end = false := by
  have := parseTLFile_ok o text
  rw [Bool.eq_false_iff]
  intro hc
  simp only [contextCorrupted, PErr.begin, PErr.end, decide_eq_true_eq] at hc
  rcases h with h | h <;> rw [h] at this <;> simp only [ParseOK] at this
  · omega
  · obtain ⟨h1, h2, h3⟩ := this
    rw [h3] at hc
    omega

/-- … hence for every error of the lexer or parser `ConsolePrint` renders the normal two-line form (source lines from
the start of the combinator, the offending token coloured, the arrow line with message, file, line and column) and
never the "beautiful error context corrupted" fallback. -/
theorem console_print_renders_error (o : LexOpts) (text : Bytes) (e : PErr) (errText file : Bytes) (w : Bool)
    (h : parseTLFile o text = .err e ∨ parseTLFile o text = .lexErr e) :
    e.consolePrint text errText file w =
      some (sl text e.outer.slo e.begin.slo ++ replaceTabs (sl text e.begin.slo e.begin.off) ++
        colorize (if w then colYellow else colRed) (replaceTabs (sl text e.begin.off e.end.off)) ++
        replaceTabs (upToLineEnd (sl text e.end.off text.length)) ++ [cLF] ++
        List.replicate (replaceTabs (sl text e.begin.slo e.begin.off)).length cSpace ++
        colorize colWhite ((if (List.replicate (replaceTabs (sl text e.begin.off e.end.off)).length (94 : UInt8)).isEmpty then [94]
          else List.replicate (replaceTabs (sl text e.begin.off e.end.off)).length (94 : UInt8)) ++ [cMinus, cMinus]) ++ [cSpace] ++
        (if w then colorize colYellow (strBytes "warning: ") else []) ++
        (errText ++ [cSpace] ++ file ++ strBytes " (line " ++ decBytes e.begin.line ++ strBytes " col " ++ decBytes e.begin.col ++ [cRRound]) ++
        [cLF]) :=
  consolePrint_pretty text e.outer e.begin e.end errText file w rfl (error_context_not_corrupted o text e h)

/-- The statements are not vacuous: the empty text parses to the empty schema, and a text consisting of a
NUL byte is rejected by the lexer with an error at offsets 0..1. -/
example : parseTLFile {} [] = .ok ⟨[], []⟩ := by
  simp [parseTLFile, generateTokens, lexLoop, advance, initState, validateTokens, illegalTok, recombine, parseFileLoop,
    checkToken, skipWS, TT.isWS, sliceBetween, sliceText]

example : parseTLFile {} [0] = .lexErr ⟨⟨.undefined, [0], ⟨1, 1, 0, 0⟩⟩, ⟨1, 1, 0, 0⟩⟩ := by
  rw [parseTLFile, generateTokens, lexLoop]
  rfl

end TLVerif.Props.C19
