import TLVerif.Udp.SysLemmas
import TLVerif.Udp.ReleaseLemmas
import TLVerif.Udp.ResendLemmas
/-!
# C36 (modelled part) — exactly-once, in-order, intact delivery of the sliding-window protocol

Theorems about the executable model `TLVerif/Udp/Window.lean` of the message-level logic of
pkg/rpc/udp/incoming.go (`receiveMessageChunk`, `moveWindowPrefix`, stream-like hand-over) and
outgoing.go (`AckChunk`, `AckPrefix`, `ackFrontChunk`, `unrefMessage` reference counting), composed with a network that
loses, duplicates and reorders datagrams.  The model is tied to the Go code differentially
(`udp.rcv` / `udp.snd` case lines drive one real `IncomingConnection` / `OutgoingConnection`).

Not modelled: timers; in the composed system `Sys` the sender may send *any* unacknowledged chunk of
its window at any time (which covers every policy of `GetChunksToSend`); `GetChunksToSend` itself, with
the send cursors, `OnResendTimeout` and the peer's resend request, is modelled separately in
`Udp/Resend.lean` (`SendX`) and tied through `udp.snd` lines, memory limits (a chunk refused for lack of memory behaves like a lost datagram),
datagram packing, encryption, handshake, restarts, 32-bit wrap-around of sequence numbers.
-/
namespace TLVerif.Props.C36Window
open TLVerif.Udp

/-! ## Receiver alone: every arrival sequence -/

/-- **Receiver characterisation.** After *any* sequence of arrivals (any order, duplicates, gaps,
numbers beyond the stream) the receive prefix is exactly the first sequence number that has not
arrived, and what has been handed over is exactly what an in-order reader of the chunk stream hands
over up to that prefix. -/
theorem recv_characterisation (chunks : List Chunk) (arrivals : List Nat) :
    let r := recvRun chunks arrivals
    (∀ i, i < r.ackPrefix → i ∈ arrivals) ∧
    (r.ackPrefix < chunks.length → r.ackPrefix ∉ arrivals) ∧
    r.ackPrefix ≤ chunks.length ∧
    (r.cur, r.delivered) = scan (chunks.take r.ackPrefix) := by
  intro r
  obtain ⟨arr, hm, hinv, hpost⟩ := recvRun_inv_aux chunks arrivals [] {} (rinv_init chunks) rfl
  refine ⟨?_, ?_, hinv.le, hinv.scn⟩
  · intro i hi
    have := (hm i).mp (hinv.below i hi)
    simpa using this.elim (fun h => by cases h) (fun h => h.1)
  · intro hlt hmem
    have : r.ackPrefix ∈ arr := (hm _).mpr (Or.inr ⟨hmem, hlt⟩)
    rcases hinv.arrd _ this with e | e
    · exact Nat.lt_irrefl _ e
    · have e2 : ((recvRun chunks arrivals).window.lookup (recvRun chunks arrivals).ackPrefix).isSome = true := e
      have hp : (recvRun chunks arrivals).window.lookup (recvRun chunks arrivals).ackPrefix = none := hpost
      rw [hp] at e2; simp at e2

/-- **Exactly once, in order, intact (receiver).** Whatever arrives in whatever order, the messages
handed over are a prefix of the submitted message stream: no message twice, none out of order, none
altered, none invented. -/
theorem recv_delivers_prefix (msgs : List (List Payload)) (hne : ∀ m ∈ msgs, m ≠ []) (arrivals : List Nat) :
    ∃ k, (recvRun (chunksOf msgs) arrivals).delivered = (msgs.map List.flatten).take k := by
  have h := (recv_characterisation (chunksOf msgs) arrivals).2.2.2
  have hd : (recvRun (chunksOf msgs) arrivals).delivered =
      (scan ((chunksOf msgs).take (recvRun (chunksOf msgs) arrivals).ackPrefix)).2 := by rw [← h]
  obtain ⟨k, hk⟩ := scanFrom_chunksFrom_take 0 (recvRun (chunksOf msgs) arrivals).ackPrefix msgs [] hne
  exact ⟨k, by rw [hd, scan_eq_scanFrom]; simpa [chunksOf] using hk⟩

/-- **Completeness (receiver).** Once every chunk has arrived at least once, every message has been
handed over. -/
theorem recv_complete (msgs : List (List Payload)) (hne : ∀ m ∈ msgs, m ≠ []) (arrivals : List Nat)
    (hall : ∀ s, s < (chunksOf msgs).length → s ∈ arrivals) :
    (recvRun (chunksOf msgs) arrivals).delivered = msgs.map List.flatten ∧
    (recvRun (chunksOf msgs) arrivals).cur = [] := by
  obtain ⟨_, h2, h3, h4⟩ := recv_characterisation (chunksOf msgs) arrivals
  have hp : (recvRun (chunksOf msgs) arrivals).ackPrefix = (chunksOf msgs).length := by
    rcases Nat.lt_or_ge (recvRun (chunksOf msgs) arrivals).ackPrefix (chunksOf msgs).length with hlt | hge
    · exact absurd (hall _ hlt) (h2 hlt)
    · exact Nat.le_antisymm h3 hge
  rw [hp, List.take_length, scan_chunksOf_all msgs hne] at h4
  have := Prod.mk.inj h4
  exact ⟨this.2, this.1⟩

/-- The receive prefix never moves backwards. -/
theorem recv_prefix_monotone (chunks : List Chunk) (arrivals : List Nat) (s : Nat) :
    (recvRun chunks arrivals).ackPrefix ≤ (recvRun chunks (arrivals ++ [s])).ackPrefix := by
  obtain ⟨arr, _, hinv, hpost⟩ := recvRun_inv_aux chunks arrivals [] {} (rinv_init chunks) rfl
  have := (arrive_inv chunks arr _ s hinv hpost).2.2
  simpa [recvRun, List.foldl_append] using this

/-! ## Sender alone: acknowledgement bookkeeping -/

/-- `AckChunk` and `AckPrefix` never move the acknowledged prefix backwards, never change the end of
the window, and mark as acknowledged only what the acknowledgement names. -/
theorem send_ack_sound (s : Send) (seq p : Nat) :
    (s.ackPrefix ≤ (s.ackChunk seq).ackPrefix ∧ (s.ackChunk seq).nextSeq = s.nextSeq ∧
      ∀ q, (s.ackChunk seq).acked q → s.acked q ∨ q = seq) ∧
    (s.ackPrefix ≤ (s.ackPrefixTo p).ackPrefix ∧ (s.ackPrefixTo p).nextSeq = s.nextSeq ∧
      ∀ q, (s.ackPrefixTo p).acked q → s.acked q ∨ q < p) := by
  obtain ⟨a1, a2, a3⟩ := ackChunk_spec s seq
  obtain ⟨b1, b2, b3⟩ := ackPrefixTo_spec s p
  exact ⟨⟨a3, a2, a1⟩, ⟨b3, b2, b1⟩⟩

/-- **Outgoing message buffers are released exactly once, exactly when fully acknowledged.** After any
sequence of slicing / `AckChunk` / `AckPrefix` operations, the list of messages handed to the
deallocator has no duplicates, and a message is in it iff it was sliced and none of its chunks is left
in the window. -/
theorem send_release_exactly_once (ops : List SOp) :
    (sendRun ops).released.Nodup ∧
    ∀ m, m ∈ (sendRun ops).released ↔ (m < (sendRun ops).nextMsg ∧ cnt (sendRun ops).window m = 0) :=
  ⟨(sendRun_relInv ops).nodup, (sendRun_relInv ops).rel⟩

/-- **A datagram carries consecutive sequence numbers.** A datagram only transmits its first sequence
number and a count, so the chunks `GetChunksToSend` (model: `SendX.getChunks`, Udp/Resend.lean — resend
ranges requested by the peer first, then timed-out / fresh chunks) collects must be numbered
`f, f+1, …`.  This holds for every sender state: any window, any acknowledged holes, any send cursors,
any (stale, overlapping, partly acknowledged, out-of-window) resend request. -/
theorem getChunks_contiguous (cfg : SendCfg) (x : SendX) :
    ∃ f, (x.getChunks cfg).2.seqs = List.range' f (x.getChunks cfg).2.seqs.length := by
  obtain ⟨f, n, h⟩ := getChunks_contig cfg x
  exact ⟨f, by rw [h]; simp⟩

/-! ## Sender + lossy, duplicating, reordering network + receiver: every schedule -/

/-- **Exactly once, in order, intact — at every moment of every schedule.** -/
theorem sys_delivered_prefix (acts : List Act) :
    ∃ k, (Sys.run acts).rcv.delivered = ((Sys.run acts).msgs.map List.flatten).take k := by
  have h := sinv_run acts
  have hd : (Sys.run acts).rcv.delivered =
      (scan ((chunksOf (Sys.run acts).msgs).take (Sys.run acts).rcv.ackPrefix)).2 := by rw [← h.rinv.scn]
  obtain ⟨k, hk⟩ := scanFrom_chunksFrom_take 0 (Sys.run acts).rcv.ackPrefix (Sys.run acts).msgs [] h.parts
  exact ⟨k, by rw [hd, scan_eq_scanFrom]; simpa [chunksOf] using hk⟩

/-- **Acknowledgement safety.** Whatever the sender regards as acknowledged has really arrived at the
receiver; in particular the acknowledged prefix never overtakes the received prefix. -/
theorem sys_ack_safe (acts : List Act) :
    (∀ q, (Sys.run acts).snd.acked q → q ∈ (Sys.run acts).arrived) ∧
    (Sys.run acts).snd.ackPrefix ≤ (Sys.run acts).rcv.ackPrefix := by
  have h := sinv_run acts
  refine ⟨h.acked, ?_⟩
  rcases Nat.lt_or_ge (Sys.run acts).rcv.ackPrefix (Sys.run acts).snd.ackPrefix with hlt | hge
  · exact absurd (h.acked _ (Or.inl hlt)) (rcv_prefix_not_arrived _ h)
  · exact hge

/-- **Settled ⇒ delivered.** In every reachable state in which the sender's window is empty
(everything submitted has been acknowledged — the condition under which the simulator stops), every
submitted message has been handed over exactly once, in order, intact, whatever was lost, duplicated
or reordered on the way. -/
theorem sys_all_acked_all_delivered (acts : List Act) (hw : (Sys.run acts).snd.window = []) :
    (Sys.run acts).rcv.delivered = (Sys.run acts).msgs.map List.flatten ∧ (Sys.run acts).rcv.cur = [] := by
  have h := sinv_run acts
  have hnext := h.next
  simp only [Send.nextSeq, hw, List.length_nil, Nat.add_zero] at hnext
  have hp : (Sys.run acts).rcv.ackPrefix = (chunksOf (Sys.run acts).msgs).length := by
    rcases Nat.lt_or_ge (Sys.run acts).rcv.ackPrefix (chunksOf (Sys.run acts).msgs).length with hlt | hge
    · exact absurd (h.acked _ (Or.inl (by omega))) (rcv_prefix_not_arrived _ h)
    · exact Nat.le_antisymm h.rinv.le hge
  have h4 := h.rinv.scn
  rw [hp, List.take_length, scan_chunksOf_all _ h.parts] at h4
  have := Prod.mk.inj h4
  exact ⟨this.2, this.1⟩

/-! ## Satisfiability: concrete schedules with loss, duplication and reordering -/

def exActs : List Act :=
  [.submit [[1, 2], [3]], .submit [[4]], .send 0, .send 1, .send 2, .lose 0, .dup 1, .deliver 2, .deliver 0,
   .sendAck 9 [1, 2], .deliver 1, .send 0, .deliver 1, .deliver 0, .sendAck 9 [], .deliver 0]

example : (Sys.run exActs).rcv.delivered = [[1, 2, 3], [4]] := by decide
example : (Sys.run exActs).snd.window = [] := by decide
example : (Sys.run exActs).snd.released = [0, 1] := by decide
example : (Sys.run (exActs.take 12)).rcv.delivered = [] ∧ (Sys.run (exActs.take 12)).snd.window.length = 3 := by decide
example : (recvRun (chunksOf [[[1], [2]], [[3]]]) [2, 1, 1, 0, 7]).delivered = [[1, 2], [3]] := by decide

/-- the stale resend request of the seeded scenario: five one-chunk messages sent, 1 and 4 acknowledged,
then the peer's old request for 0..3 is answered by two datagrams, [0] and [2,3] — never [0,2,3] -/
def exResend : SendX :=
  (((((({} : SendX).push [4]).push [4]).push [4]).push [4]).push [4])

def exResend2 : SendX :=
  ((((exResend.getChunks {}).1.getChunks {}).1.ackChunk 1).ackChunk 4).setResend [(0, 3)]

example : (exResend2.getChunks {}).2.seqs = [0] := by decide
example : ((exResend2.getChunks {}).1.getChunks {}).2.seqs = [2, 3] := by decide

end TLVerif.Props.C36Window
