import TLVerif.Codec.JsonAlt
/-!
# C06 — the JSON reader accepts the documented alternative forms and rejects invalid ones

One lemma per rule of the JSON mapping (DESIGN Appendix B), about the model `readJson` of the generated `ReadJSONGeneral`
(`TLVerif/Codec/Json.lean`, tied to the generated Go code by `checks/C06.py`).  All statements hold for every schema
descriptor `d`, every type instance of the named kind and every JSON tree; the hypotheses only select the kind of the type.
`lg` is `JSONReadContext.LegacyTypeNames`, `pk` the re-lexer of non-string dictionary keys.
-/
namespace TLVerif.Props.C06
open TLVerif.Codec TLVerif.Prim

variable (d : Desc) (lg : Bool) (pk : Bytes → Option Json)

/-! ## alternative forms accepted -/

/-- **omitted_is_empty** (primitives): an omitted member reads exactly like the explicit empty value `0` / `""` / `false`. -/
theorem omitted_is_empty_prim (k : PrimK) (hk : k ≠ .bit) : readPrimJ k none = readPrimJ k (some (emptyPrimJ k)) :=
  readPrimJ_nil_eq_empty k hk

/-- **omitted_is_empty** (struct members): inside any struct object, an absent plain field (unmasked, no nat arguments, not
true-typed) may be given explicitly with a value `ej` that its reader maps to the zero value: the struct reader returns the same
result. `rj` is the field reader (`readJson d lg pk fuel` in `readJson`). -/
theorem omitted_is_empty_member (fuel : Nat) (rj : Rj) (s : StructD) (params : List Nat) (kvs : List (Bytes × Json))
    (k : Bytes) (ej : Json) (hc : countKey k kvs = 0) (hfield : (findField s k s.fields 0).isSome = true)
    (H : ∀ f ∈ s.fields, strBytes f.name = k → fieldOmitted s f = false → f.plain ∧ rj f.ty [] (some ej) = jzeroVal d fuel f.ty) :
    readStructJ d fuel rj s params kvs = readStructJ d fuel rj s params (kvs ++ [(k, ej)]) :=
  readStructJ_omitted_empty d fuel rj s params kvs k ej hc hfield H

/-- the explicit empty value of every primitive (`0`, `""`, `false`) is such an `ej` -/
theorem omitted_is_empty_prim_value (ty : Nat) (k : PrimK) (hd : d.get? ty = some (.prim k)) (hk : k ≠ .bit) :
    EmptyOf d ty (emptyPrimJ k) := emptyOf_prim d ty k hd hk

/-- **omitted_is_empty** (structs): an omitted struct reads exactly like `{}`. -/
theorem omitted_is_empty_struct (fuel ty : Nat) (params : List Nat) (s : StructD) (hd : d.get? ty = some (.struct s))
    (ht : (s.isTypedef || s.isUnwrap) = false) :
    readJson d lg pk (fuel + 1) ty params none = readJson d lg pk (fuel + 1) ty params (some (.obj [])) :=
  readJson_struct_nil d lg pk fuel ty params s hd ht

/-- **omitted_is_empty** (Maybe): an omitted Maybe reads like `{}` (nothing). -/
theorem omitted_is_empty_maybe (fuel ty : Nat) (params : List Nat) (u : UnionD) (hd : d.get? ty = some (.union u))
    (hm : u.isMaybe = true) :
    readJson d lg pk (fuel + 1) ty params none = readJson d lg pk (fuel + 1) ty params (some (.obj [])) :=
  readJson_maybe_congr d lg pk fuel ty params u hd hm _ _ rfl

/-- an omitted tuple is accepted only when its size is 0 (so "omitted = empty" does not extend to non-empty tuples) -/
theorem omitted_tuple_nonzero_rejected (fuel ty : Nat) (params na : List Nat) (a : ArrayD) (hd : d.get? ty = some (.array a))
    (ht : a.isTuple = true) (n : Nat) (hn : (if a.dynamic then params[0]? else some a.count) = some n)
    (hna : natArgVals [] params a.elem.natArgs = some na) (hl : n ≠ 0) :
    readJson d lg pk (fuel + 1) ty params none = .error .rej :=
  readJson_tuple_nil d lg pk fuel ty params na a hd ht n hn hna hl

/-- **number_as_string**: an integer may be given as a string holding the same decimal text. -/
theorem number_as_string_int (signed : Bool) (bits : Nat) (t : List Char) (h : ∀ c ∈ t, c.toNat < 256) :
    readIntJ signed bits (some (.str (t.map (fun c => byteOf c.toNat)))) = readIntJ signed bits (some (.num t)) :=
  int_number_as_string signed bits t h

/-- **number_as_string**: a float may be given as a string holding the same decimal text. -/
theorem number_as_string_float (f : FloatFmt) (t : List Char) (h : ∀ c ∈ t, c.toNat < 256) :
    readFloatJ f (some (.str (t.map (fun c => byteOf c.toNat)))) = readFloatJ f (some (.num t)) :=
  float_number_as_string f t h

/-- **enum_as_object / union_as_string**: the bare type string and the object `{"type": t}` read the same, for every union. -/
theorem union_as_string (fuel ty : Nat) (params : List Nat) (u : UnionD) (hd : d.get? ty = some (.union u))
    (hm : u.isMaybe = false) (t : Bytes) :
    readJson d lg pk (fuel + 1) ty params (some (.str t)) =
      readJson d lg pk (fuel + 1) ty params (some (.obj [(kType, .str t)])) :=
  readJson_union_congr d lg pk fuel ty params u hd hm _ _ rfl

/-- member order of a union object does not matter -/
theorem union_value_first (fuel ty : Nat) (params : List Nat) (u : UnionD) (hd : d.get? ty = some (.union u))
    (hm : u.isMaybe = false) (t : Bytes) (v : Json) :
    readJson d lg pk (fuel + 1) ty params (some (.obj [(kValue, v), (kType, .str t)])) =
      readJson d lg pk (fuel + 1) ty params (some (.obj [(kType, .str t), (kValue, v)])) :=
  readJson_union_congr d lg pk fuel ty params u hd hm _ _ rfl

/-- **maybe_forms**: the six-row table of `Json2ReadMaybe` (ok absent/true/false × value absent/present). -/
theorem maybe_forms (v : Json) :
    readMaybeHead (some (.obj [])) = .ok (false, none) ∧
    readMaybeHead (some (.obj [(kValue, v)])) = .ok (true, some v) ∧
    readMaybeHead (some (.obj [(kOk, .bool true)])) = .ok (true, none) ∧
    readMaybeHead (some (.obj [(kOk, .bool true), (kValue, v)])) = .ok (true, some v) ∧
    readMaybeHead (some (.obj [(kOk, .bool false)])) = .ok (false, none) ∧
    readMaybeHead (some (.obj [(kOk, .bool false), (kValue, v)])) = .error .rej :=
  ⟨rfl, rfl, rfl, rfl, rfl, rfl⟩

/-- the Maybe reader looks at nothing but that table: `{"value": v}` ≡ `{"ok":true,"value":v}` (either order), `{}` ≡ `{"ok":false}` -/
theorem maybe_without_ok (fuel ty : Nat) (params : List Nat) (u : UnionD) (hd : d.get? ty = some (.union u))
    (hm : u.isMaybe = true) (v : Json) :
    readJson d lg pk (fuel + 1) ty params (some (.obj [(kValue, v)])) =
      readJson d lg pk (fuel + 1) ty params (some (.obj [(kOk, .bool true), (kValue, v)])) ∧
    readJson d lg pk (fuel + 1) ty params (some (.obj [(kValue, v), (kOk, .bool true)])) =
      readJson d lg pk (fuel + 1) ty params (some (.obj [(kOk, .bool true), (kValue, v)])) ∧
    readJson d lg pk (fuel + 1) ty params (some (.obj [(kOk, .bool false)])) =
      readJson d lg pk (fuel + 1) ty params (some (.obj [])) :=
  ⟨readJson_maybe_congr d lg pk fuel ty params u hd hm _ _ rfl,
   readJson_maybe_congr d lg pk fuel ty params u hd hm _ _ rfl,
   readJson_maybe_congr d lg pk fuel ty params u hd hm _ _ rfl⟩

/-- **masked_field_sets_local_bits**: one step — a present field under local mask `a`, bit `bit` sets that bit and continues
with the mask field itself (which may be masked in turn): the propagation is recursive through ancestor masks. -/
theorem masked_field_sets_local_bits_step (s : StructD) (params : List Nat) (fuel : Nat) (cur anc : Field) (vals : List (Option Val))
    (a bit : Nat) (hm : cur.mask = some (.field a, bit)) (ha : s.fields[a]? = some anc) :
    propagateMask s params (fuel + 1) cur vals = propagateMask s params fuel anc (setNatField vals a bit) :=
  propagateMask_local_step s params fuel cur anc vals a bit hm ha

/-- **masked_field_sets_local_bits**: whenever the propagation succeeds the bit is set in the mask field at the end, and no bit
that was set in any local mask field is ever cleared. -/
theorem masked_field_sets_local_bits (s : StructD) (params : List Nat) (fuel : Nat) (cur anc : Field) (vals vals' : List (Option Val))
    (a bit n : Nat) (hm : cur.mask = some (.field a, bit)) (ha : s.fields[a]? = some anc) (hn : natOf vals a = some n)
    (h : propagateMask s params (fuel + 1) cur vals = .ok vals') :
    (∃ m', natOf vals' a = some m' ∧ testBit m' bit = true) ∧
    (∀ i m b, natOf vals i = some m → testBit m b = true → ∃ m', natOf vals' i = some m' ∧ testBit m' b = true) :=
  ⟨propagateMask_sets_bit s params fuel cur anc vals vals' a bit n hm ha hn h,
   propagateMask_mono s params (fuel + 1) cur vals vals' h⟩

/-! ## invalid forms rejected -/

/-- **external_mask_zero_rejected** (types generated without TL2): a present field whose mask is a nat parameter or a constant
with the bit clear is an error — at the end of the recursion through local masks as well. -/
theorem external_mask_zero_rejected (s : StructD) (params : List Nat) (fuel : Nat) (cur : Field) (vals : List (Option Val))
    (m : NatArg) (bit mv : Nat) (hm : cur.mask = some (m, bit)) (hext : ∀ a, m ≠ .field a) (ht : s.hasTL2 = false)
    (hv : natArgVal vals params m = some mv) (hb : testBit mv bit = false) :
    propagateMask s params (fuel + 1) cur vals = .error .rej :=
  propagateMask_external_zero_rejected s params fuel cur vals m bit mv hm hext ht hv hb

/-- for TL2-enabled types, or when the bit is set, the propagation stops there without error -/
theorem external_mask_accepted (s : StructD) (params : List Nat) (fuel : Nat) (cur : Field) (vals : List (Option Val))
    (m : NatArg) (bit mv : Nat) (hm : cur.mask = some (m, bit)) (hext : ∀ a, m ≠ .field a)
    (hv : natArgVal vals params m = some mv) (hb : s.hasTL2 = true ∨ testBit mv bit = true) :
    propagateMask s params (fuel + 1) cur vals = .ok vals :=
  propagateMask_external_ok s params fuel cur vals m bit mv hm hext hv hb

/-- **true_false_with_bit_set_rejected** (only for types without TL2): a true-typed field given as `false` while its mask bit is
set (after all masks have their final values `vals1`) makes the struct reader fail. -/
theorem true_false_with_bit_set_rejected (fuel : Nat) (rj : Rj) (s : StructD) (params : List Nat)
    (kvs : List (Bytes × Json)) (slots : List Slot) (vals0 vals1 : List (Option Val))
    (h1 : rsPass1 d fuel rj s kvs s.fields = .ok (slots, vals0)) (h2 : rsProp s params slots vals0 = .ok vals1)
    (ht : s.hasTL2 = false) (f : Field) (hf : f ∈ s.fields) (hb : f.isBit = true)
    (hmem : memberOf s f kvs = some (.bool false)) (hm : presentOr f vals1 params = true) :
    readStructJ d fuel rj s params kvs = .error .rej :=
  readStructJ_true_false_rejected d fuel rj s params kvs slots vals0 vals1 h1 h2 ht f hf hb hmem hm

/-- **unknown_key_rejected**: an object with a member that is not a (non-omitted) field of the struct is rejected. -/
theorem unknown_key_rejected (fuel ty : Nat) (params : List Nat) (s : StructD) (hd : d.get? ty = some (.struct s))
    (ht : (s.isTypedef || s.isUnwrap) = false) (kvs : List (Bytes × Json)) (kv : Bytes × Json) (hm : kv ∈ kvs)
    (hu : findField s kv.1 s.fields 0 = none) :
    readJson d lg pk (fuel + 1) ty params (some (.obj kvs)) = .error .rej := by
  rw [readJson_struct_obj d lg pk fuel ty params s hd ht]
  exact readStructJ_rej_of_keys d fuel _ s params kvs (keysOk_false_of_unknown s kvs kv hm hu)

/-- **duplicate_key_rejected**: an object in which some key occurs twice is rejected (wherever the two occurrences are). -/
theorem duplicate_key_rejected (fuel ty : Nat) (params : List Nat) (s : StructD) (hd : d.get? ty = some (.struct s))
    (ht : (s.isTypedef || s.isUnwrap) = false) (k : Bytes) (a b c : List (Bytes × Json)) (j1 j2 : Json) :
    readJson d lg pk (fuel + 1) ty params (some (.obj (a ++ (k, j1) :: b ++ (k, j2) :: c))) = .error .rej := by
  rw [readJson_struct_obj d lg pk fuel ty params s hd ht]
  refine readStructJ_rej_of_keys d fuel _ s params _ (keysOk_false_of_dup s _ (k, j1) (by simp) ?_)
  exact countKey_dup k a b c j1 j2

/-- **array_len_must_match_nat**: a tuple whose JSON array length differs from its size parameter / constant is rejected. -/
theorem array_len_must_match_nat (fuel ty : Nat) (params na : List Nat) (a : ArrayD) (hd : d.get? ty = some (.array a))
    (ht : a.isTuple = true) (n : Nat) (hn : (if a.dynamic then params[0]? else some a.count) = some n)
    (hna : natArgVals [] params a.elem.natArgs = some na) (es : List Json) (hl : es.length ≠ n) :
    readJson d lg pk (fuel + 1) ty params (some (.arr es)) = .error .rej :=
  readJson_tuple_len d lg pk fuel ty params na a hd ht n hn hna es hl

/-- **maybe_okfalse_value_rejected**: `{"ok":false,"value":…}` is an error for every Maybe type, in either member order. -/
theorem maybe_okfalse_value_rejected (fuel ty : Nat) (params vparams : List Nat) (u : UnionD) (hd : d.get? ty = some (.union u))
    (hm : u.isMaybe = true) (hp : natArgVals [] params u.elemNatArgs = some vparams) (v : Json) :
    readJson d lg pk (fuel + 1) ty params (some (.obj [(kOk, .bool false), (kValue, v)])) = .error .rej ∧
    readJson d lg pk (fuel + 1) ty params (some (.obj [(kValue, v), (kOk, .bool false)])) = .error .rej :=
  ⟨readJson_maybe_rej d lg pk fuel ty params vparams u hd hm hp _ rfl,
   readJson_maybe_rej d lg pk fuel ty params vparams u hd hm hp _ rfl⟩

/-- **dict_as_pairs** — what the generated code does: a dictionary instance (`Dict` in the kernel) is read from a JSON object
only; the "array of {key,value} pairs" spelling is *rejected* (vectors of `dictionaryField`-like structs that the kernel does not
turn into `Dict` are ordinary arrays of objects and only have that spelling). -/
theorem dict_as_pairs_rejected (fuel ty : Nat) (params : List Nat) (a : ArrayD) (hd : d.get? ty = some (.dict a)) (es : List Json) :
    readJson d lg pk (fuel + 1) ty params (some (.arr es)) = .error .rej ∨
    readJson d lg pk (fuel + 1) ty params (some (.arr es)) = .error .desc :=
  readJson_dict_pairs_rejected d lg pk fuel ty params a hd es

/-! ## umbrella -/

/-- **alt_equiv**: `AltForm d ty j j'` is the inductive closure of the documented rewrites (numbers as decimal strings, enums as
objects / unions as type strings, member order of union objects, Maybe with or without `"ok"`, `{"ok":false}` ≡ `{}`, omitted
plain fields given explicitly as their empty value) under
reflexivity, symmetry, transitivity and every JSON context (typedef wrappers, array elements, struct members, union and Maybe
values). Related trees are read identically — same value or same error — for every schema, fuel and nat arguments. -/
theorem alt_equiv {ty : Nat} {j j' : Json} (h : AltForm d ty j j') :
    ∀ fuel params, readJson d lg pk fuel ty params (some j) = readJson d lg pk fuel ty params (some j') :=
  Codec.alt_equiv d lg pk h

/-- replacing one member's value by a value its field reader cannot tell apart does not change what the struct reader returns -/
theorem struct_member_congruence (fuel : Nat) (rj : Rj) (s : StructD) (params : List Nat)
    (a b : List (Bytes × Json)) (k : Bytes) (v v' : Json)
    (H : ∀ f ∈ s.fields, strBytes f.name = k → f.isBit = false ∧ ∀ na, rj f.ty na (some v) = rj f.ty na (some v')) :
    readStructJ d fuel rj s params (a ++ (k, v) :: b) = readStructJ d fuel rj s params (a ++ (k, v') :: b) :=
  readStructJ_member_congr d fuel rj s params a b k v v' H

/-- the hypotheses above are satisfiable by a non-trivial instance: a struct `x:float y:# = T` read from `{"y":"5","z":1}` is
rejected because of the unknown key, and `{"y":"5"}` is accepted with `y = 5` given as a string. -/
def dEx : Desc :=
  { insts := #[.prim .f32, .prim .u32,
      .struct { tag := 1, nparams := 0, fields := [{ name := "x", ty := 0, bare := true, mask := none, tl2bit := none, isBit := false, natArgs := [] },
                                                   { name := "y", ty := 1, bare := true, mask := none, tl2bit := none, isBit := false, natArgs := [] }] }],
    tlnames := #["float", "nat", "t"] }

/-- `AltForm` is inhabited non-trivially: inside the struct, member `y` given as the string "5" instead of the number 5 -/
example : AltForm dEx 2 (.obj [(strBytes "y", .num ['5'])]) (.obj [(strBytes "y", .str (asciiBytes ['5']))]) :=
  .member 2 _ [] [] (strBytes "y") _ _ rfl rfl
    (by intro f hf hk; simp at hf; rcases hf with rfl | rfl <;> first | rfl | (exact absurd hk (by decide)))
    (by
      intro f hf hk
      simp at hf
      rcases hf with rfl | rfl
      · exact absurd hk (by decide)
      · exact .numberAsString 1 .u32 ['5'] rfl rfl (by decide))

/-- omitted field `x:float` given explicitly as `0` -/
example : AltForm dEx 2 (.obj [(strBytes "y", .num ['5'])]) (.obj ([(strBytes "y", .num ['5'])] ++ [(strBytes "x", .num ['0'])])) :=
  .omittedEmpty 2 _ _ (strBytes "x") _ rfl rfl rfl rfl
    (by
      intro f hf hk _
      simp at hf
      rcases hf with rfl | rfl
      · exact ⟨⟨rfl, rfl, rfl, rfl⟩, emptyOf_prim dEx 0 .f32 rfl (by decide)⟩
      · exact absurd hk (by decide))

example : readJson dEx false parseJson 4 2 [] (some (.obj [(strBytes "y", .str (strBytes "5")), (strBytes "z", .num ['1'])])) = .error .rej := by rfl
example : readJson dEx false parseJson 4 2 [] (some (.obj [(strBytes "y", .str (strBytes "5"))])) = .ok (.struct [some (.nat 0), some (.nat 5)]) := by rfl

end TLVerif.Props.C06
