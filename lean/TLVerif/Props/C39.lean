import TLVerif.Rpccalls.ServerLimitsLemmas
import TLVerif.Generated.RpccallsFacts
/-!
# C39 — RPC server enforces worker and memory limits

Property theorems about the model of `pkg/rpc/server_workerpool.go` (`TLVerif/Rpccalls/WorkerPool.lean`) and
of the request-memory accounting of `pkg/rpc/server.go` over a minimal semaphore model
(`TLVerif/Rpccalls/ReqMem.lean`); helper lemmas in `ServerLimitsLemmas.lean`.

A history is a list of critical sections in mutex order, so "for all histories" covers every interleaving of
the receive loops (`Get`), the workers (`Put`), the GC ticker and `Close`.  `busy` is the set of workers handed
out by `Get` and not yet given back: a handler executes only inside such a worker (`worker.run` calls the
handler between receiving work and `Put`), so `busy.length` bounds the number of concurrently executing
handlers.  What is *not* here: `MaxWorkers = 0` (documented switch that runs handlers on the receive
goroutines, no pool), response memory, the fairness of the semaphore (C42).
-/
namespace TLVerif.Props.C39
open TLVerif.Rpccalls TLVerif.Facts.Rpccalls

/-- `workerPoolNew` never makes a pool that cannot work, and otherwise takes the configured limit -/
theorem pool_limit_configured (c : Int) : (Pool.new c).create = if c < 1 then 1 else c.toNat := rfl

/-- **worker limit.**  After every history: every created worker is either handed out or idle on the free list,
`created ≤ create`, hence at most `create` workers (handlers) are busy; the limit itself never changes. -/
theorem busy_le_create {c ops p evs} (h : PReach c ops p evs) :
    p.created = p.busy.length + p.free.length ∧ p.created ≤ p.create ∧ p.busy.length ≤ p.create ∧
    p.create = (Pool.new c).create := by
  have hi := preach_inv h
  have h1 := hi.acct
  have h2 := hi.limit
  exact ⟨h1, h2, by omega, preach_create h⟩

/-- **excess load waits instead of being admitted.**  With `create` handlers busy, a further `Get` on an open
pool does not return: it goes to `cond.Wait()` and nothing about the pool changes but the waiter count. -/
theorem get_blocks_when_full {c ops p evs} (h : PReach c ops p evs) (ho : p.closed = false)
    (hf : p.busy.length = p.create) :
    p.step .getEnter = ({ p with waiting := p.waiting + 1 }, [.blocked]) := by
  have hi := preach_inv h
  have h1 := hi.acct
  have h2 := hi.limit
  have hfree : p.free = [] := by
    have : p.free.length = 0 := by omega
    exact List.eq_nil_of_length_eq_zero this
  have hr : p.ready = false := by
    simp only [Pool.ready, ho, hfree, List.isEmpty_nil, Bool.not_true, Bool.or_false, Bool.false_or, decide_eq_false_iff_not]
    omega
  simp [Pool.step, hr]

/-- … and a waiting `Get` that re-checks (signalled or spuriously woken) while the pool is still full keeps waiting -/
theorem recheck_keeps_waiting_when_full {c ops p evs} (h : PReach c ops p evs) (ho : p.closed = false)
    (hf : p.busy.length = p.create) : p.step .recheck = (p, []) := by
  have hi := preach_inv h
  have h1 := hi.acct
  have h2 := hi.limit
  have hfree : p.free = [] := by
    have : p.free.length = 0 := by omega
    exact List.eq_nil_of_length_eq_zero this
  have hr : p.ready = false := by
    simp only [Pool.ready, ho, hfree, List.isEmpty_nil, Bool.not_true, Bool.or_false, Bool.false_or, decide_eq_false_iff_not]
    omega
  simp only [Pool.step, hr]
  split <;> simp

/-- a worker is handed out only while fewer than `create` are busy -/
theorem admitted_only_below_limit {c ops p evs op w n} (h : PReach c ops p evs) (_hg : op.guard p = true)
    (hm : PEv.got w n ∈ (p.step op).2) : p.busy.length < p.create ∧ (p.step op).1.busy.length = p.busy.length + 1 := by
  have hi := preach_inv h
  have h1 := hi.acct
  have h2 := hi.limit
  have take : ∀ k : Nat, ({ p with waiting := k } : Pool).ready = true → PEv.got w n ∈ ({ p with waiting := k } : Pool).take.2 →
      p.busy.length < p.create ∧ ({ p with waiting := k } : Pool).take.1.busy.length = p.busy.length + 1 := by
    intro k hr hm
    unfold Pool.take at hm ⊢
    by_cases hc : p.closed = true
    · simp [hc] at hm
    · simp only [hc, Bool.false_eq_true, if_false] at hm ⊢
      cases hl : p.free.getLast? with
      | some w' =>
        simp only [hl] at hm ⊢
        have hne : p.free ≠ [] := by intro e; simp [e] at hl
        have hpos : 0 < p.free.length := List.length_pos_iff.mpr hne
        exact ⟨by omega, by simp⟩
      | none =>
        simp only [hl] at hm ⊢
        have he : p.free = [] := by simpa using hl
        have : p.created < p.create := by
          simp only [Pool.ready, he, List.isEmpty_nil, Bool.not_true, Bool.or_false, Bool.or_eq_true, decide_eq_true_eq] at hr
          rcases hr with h | h
          · exact absurd h hc
          · exact h
        simp only [he, List.length_nil] at h1
        exact ⟨by omega, by simp⟩
  cases op with
  | getEnter =>
    simp only [Pool.step] at hm ⊢
    split at hm
    · rename_i hr
      simp only [hr, if_true]
      exact take p.waiting hr hm
    · simp at hm
  | recheck =>
    simp only [Pool.step] at hm ⊢
    split at hm
    · simp at hm
    · split at hm
      · rename_i hw hr
        simp only [hw, if_false, hr, if_true]
        exact take (p.waiting - 1) hr hm
      · simp at hm
  | put w' e =>
    simp only [Pool.step] at hm
    split at hm
    · simp at hm
    · simp only [Pool.gcLocked] at hm
      split at hm
      · split at hm <;> simp at hm
      · simp at hm
  | gc e =>
    simp only [Pool.step, Pool.gcLocked] at hm
    split at hm
    · split at hm <;> simp at hm
    · simp at hm
  | close =>
    simp only [Pool.step, List.mem_map] at hm
    obtain ⟨x, -, hx⟩ := hm
    simp at hx

/-- `Put` on an open pool makes the wait condition false: the waiter it signals is admitted (no handler slot is
lost while somebody waits) -/
theorem put_then_recheck_admits {c ops p evs w e} (h : PReach c ops p evs) (ho : p.closed = false)
    (hg : (POp.put w e).guard p = true) (hw : 0 < p.waiting) :
    ∃ w' n, PEv.got w' n ∈ ((p.step (.put w e)).1.step .recheck).2 := by
  have _ := h
  have _ := hg
  simp only [Pool.step, ho, Bool.false_eq_true, if_false]
  have hwait : (p.gcLocked e).1.waiting = p.waiting := by
    simp only [Pool.gcLocked]; split <;> (try split) <;> rfl
  have hcl : (p.gcLocked e).1.closed = false := by
    simp only [Pool.gcLocked]; split <;> (try split) <;> simp [ho]
  have hw' : ¬ ((p.gcLocked e).1.waiting = 0) := by rw [hwait]; omega
  simp only [hw', if_false]
  refine ⟨w, false, ?_⟩
  simp [Pool.ready, Pool.take, hcl]

/-- `Close` wakes everybody: every waiting `Get` returns `(nil, false)`; nothing is admitted afterwards -/
theorem closed_pool_admits_nothing {p : Pool} (hc : p.closed = true) :
    p.step .getEnter = (p, [.closedRet]) := by
  simp [Pool.step, Pool.ready, Pool.take, hc]

/-- **request memory limit.**  After every history of `acquireRequestSema` / `releaseRequestBuf` steps (any
interleaving of the receive loops and of the releases, any context cancellations), the semaphore counter is
exactly the sum of the memory of the admitted, unreleased requests, it is between 0 and the configured
limit, the limit never changes, and `Release` never panics ("released more than held"). -/
theorem reqmem_within_limit {size ops s evs} (hsz : 0 ≤ size) (h : SReach size ops s evs) :
    s.cur = sumHeld s.held ∧ 0 ≤ s.cur ∧ s.cur ≤ size ∧ s.size = size ∧ SEv.panic ∉ evs := by
  obtain ⟨hi, hs, hp⟩ := sreach_inv hsz h
  refine ⟨hi.acct, ?_, by rw [← hs]; exact hi.limit, hs, hp⟩
  rw [hi.acct]; exact sumHeld_nonneg hi.heldPos

theorem sumHeld_ge_length_mul {l : List (Nat × Int)} {b : Int} (h : ∀ x ∈ l, b ≤ x.2) : (l.length : Int) * b ≤ sumHeld l := by
  induction l with
  | nil => simp [sumHeld]
  | cons x t ih =>
    obtain ⟨i, n⟩ := x
    have h1 := h (i, n) (by simp)
    have h2 := ih (fun y hy => h y (by simp [hy]))
    simp only [List.length_cons, sumHeld]
    have : ((t.length + 1 : Nat) : Int) * b = (t.length : Int) * b + b := by
      rw [Int.natCast_add, Int.add_mul]; simp
    simp only at h1
    omega

/-- the request-memory limit also bounds the *number* of admitted requests: if every admitted request accounts at
least `b` bytes (`requestBufTake ≥ RequestBufSize`), at most `size / b` requests are admitted at any time -/
theorem admitted_requests_bounded {size ops s evs} {b : Int} (hsz : 0 ≤ size) (h : SReach size ops s evs)
    (hb : ∀ x ∈ s.held, b ≤ x.2) : (s.held.length : Int) * b ≤ size := by
  obtain ⟨h1, -, h3, -⟩ := reqmem_within_limit hsz h
  have := sumHeld_ge_length_mul hb
  omega

/-- **a failed acquire releases nothing.**  `hctx.reqTaken` is assigned only after `acquireRequestSema` succeeded, so
the handler context of a request whose `Acquire` failed (its connection was closed while it waited for memory, or it
could never fit) holds 0 bytes: releasing it (`releaseRequestBuf(hctx.reqTaken)`) is not a semaphore operation at
all.  In the model the memory a request holds is its entry in `held`; a request without one releases nothing.
Together with `reqmem_within_limit` — which ranges over *all* histories, including acquisitions that are
cancelled while queued and the release of their contexts — this is `Σ reqTaken over live hctx = cur ≤ limit`. -/
theorem failed_acquire_releases_nothing {s : Sem} {id : Nat} (h : heldAmount id s.held = none) :
    s.step (.release id) = (s, []) := by
  simp [Sem.step, h]

/-- a queued request that leaves on cancellation was never accounted: the step adds nothing for it to `held`, and
whatever the counter gains is exactly what `notifyWaiters` admitted from the queue behind it -/
theorem cancelled_waiter_never_accounted {size ops s evs} (hsz : 0 ≤ size) (h : SReach size ops s evs) (id : Nat) :
    (s.step (.cancel id)).1.cur = sumHeld (s.step (.cancel id)).1.held ∧ (s.step (.cancel id)).1.cur ≤ size := by
  have h' : SReach size (ops ++ [.cancel id]) (s.step (.cancel id)).1 (evs ++ (s.step (.cancel id)).2) := .snoc h rfl
  obtain ⟨a, -, c, -⟩ := reqmem_within_limit hsz h'
  exact ⟨a, c⟩

/-- a request is admitted (fast path) only if it fits under the limit together with everything accounted,
and only if nobody is queued before it -/
theorem admitted_only_if_fits {s : Sem} {id : Nat} {n : Int} :
    (SEv.admitted id ∈ (s.step (.tryAcq id n)).2 → s.cur + n ≤ s.size ∧ s.waiters = []) ∧
    (SEv.admitted id ∈ (s.step (.acquire id n)).2 → s.cur + n ≤ s.size ∧ s.waiters = []) := by
  constructor <;>
  · intro hm
    simp only [Sem.step] at hm
    split at hm
    · rename_i hf
      simp only [Sem.fits, ge_iff_le, Bool.and_eq_true, decide_eq_true_eq, List.isEmpty_iff] at hf
      exact ⟨by omega, hf.2⟩
    · first
      | (simp at hm; done)
      | (split at hm <;> simp at hm)

/-- excess load waits: a request that does not fit is queued (or, if it can never fit, left waiting for its
connection to close) and the accounted memory is unchanged -/
theorem not_fitting_waits {s : Sem} {id : Nat} {n : Int} (hf : s.fits n = false) :
    (s.step (.tryAcq id n)) = (s, [.tryFail id]) ∧
    (s.step (.acquire id n)).1.cur = s.cur ∧ (s.step (.acquire id n)).1.held = s.held ∧
    ((s.step (.acquire id n)).2 = [.doomed id] ∨ (s.step (.acquire id n)).2 = [.queued id]) := by
  refine ⟨by simp [Sem.step, hf], ?_, ?_, ?_⟩ <;> simp only [Sem.step, hf, Bool.false_eq_true, if_false] <;> split <;> simp

/-- `requestBufTake`: a request accounts at least for its body and at least for one pooled buffer -/
theorem requestBufTake_ge (buf body : Int) : body ≤ requestBufTake buf body ∧ buf ≤ requestBufTake buf body := by
  simp only [requestBufTake]; omega

/-- T1: the server's option floor — `ServerWithRequestMemoryLimit` never configures less than one maximal packet,
so a request of any legal size can be admitted (`Acquire` with `n > size` would wait for ever) -/
theorem max_packet_fits_limit : requestBufTake defaultServerRequestBufSize maxPacketLen ≤ max maxPacketLen defaultRequestMemoryLimit := by
  decide

/-- T1: structure of the code the model follows: `acquireRequestSema` is `TryAcquire` then `Acquire` on the same
semaphore, `requestBufTake` is a `max`, and the worker pool has no panic of its own (the one in `worker.run`
is the long-poll misuse check). -/
theorem code_shape :
    acquireRequestSemaCalls.filter (fun c => c == "TryAcquire" || c == "Acquire" || c == "ForceAcquire") = ["TryAcquire", "Acquire"] ∧
    requestBufTakeCalls = ["max"] ∧ workerPoolPanicSites = ["server_workerpool.go:worker.run:1"] ∧ defaultMaxWorkers = 1024 := by
  decide

/-! ### the hypotheses are satisfiable by non-trivial histories -/

theorem preach_of_run (c : Int) : ∀ (ops : List POp) (ops0 : List POp) (p0 : Pool) (e0 : List PEv), PReach c ops0 p0 e0 →
    (ops.foldl (fun (acc : Bool × Pool) op => (acc.1 && op.guard acc.2, (acc.2.step op).1)) (true, p0)).1 = true →
    ∃ p e, PReach c (ops0 ++ ops) p e := by
  intro ops
  induction ops with
  | nil => intro ops0 p0 e0 h _; exact ⟨p0, e0, by simpa using h⟩
  | cons op t ih =>
    intro ops0 p0 e0 h hg
    simp only [List.foldl_cons, Bool.true_and] at hg
    by_cases hgo : op.guard p0 = true
    · rw [hgo] at hg
      obtain ⟨p, e, hr⟩ := ih (ops0 ++ [op]) _ _ (.snoc h hgo) hg
      exact ⟨p, e, by simpa using hr⟩
    · simp only [Bool.not_eq_true] at hgo
      rw [hgo] at hg
      have : ∀ (l : List POp) (q : Pool), (l.foldl (fun (acc : Bool × Pool) op => (acc.1 && op.guard acc.2, (acc.2.step op).1)) (false, q)).1 = false := by
        intro l; induction l with
        | nil => intro q; rfl
        | cons x t ih => intro q; simp only [List.foldl_cons, Bool.false_and]; exact ih _
      rw [this] at hg; simp at hg

/-- three requests against two workers: the third waits, is admitted by the first `Put` -/
example : ∃ p e, PReach 2 [.getEnter, .getEnter, .getEnter, .put 0 false, .recheck, .gc true, .close] p e :=
  by simpa using preach_of_run 2 [.getEnter, .getEnter, .getEnter, .put 0 false, .recheck, .gc true, .close] [] _ _ .init (by decide)

example : ((Sem.new 100).run [.tryAcq 1 50, .tryAcq 2 60, .acquire 2 60, .acquire 3 200, .release 1]).2 =
    [.admitted 1, .tryFail 2, .queued 2, .doomed 3, .released 1, .woken 2] := by decide

end TLVerif.Props.C39
