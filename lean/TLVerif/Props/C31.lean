import TLVerif.Cpp.MaskedLemmas
import TLVerif.Cpp.ClassLemmas
/-!
# C31 — C++ generated serializers agree with the Go serializers

The property itself ("the C++ code generated for the schema reads the TL1 bytes written by the Go
code and writes back identical bytes, and rejects byte strings the Go code rejects") is about two
implementations; it is decided by translation validation (`checks/C31.py`: both generated codes are
driven on the same inputs). No theorem here speaks about C++ or Go code.

What is proved is the reference behaviour the two are compared against on the *flat* fragment
(`TLVerif.Cpp.Flat` + `TLVerif.Cpp.Masked`: structs whose fields are 4/8-byte scalars, TL1 strings,
`Bool`, exact tags, vectors and tuples of those, fields under a field mask of an earlier `#` field,
tuples sized by an earlier `#` field; strings through the proved `TLVerif.Prim` model), for **all**
descriptors and **all** byte strings. The third voice of the check (`tlmodel`, `cpp.r1 … DESC`)
executes exactly these definitions, so on this fragment "C++ = model" and "Go = model" are each tied
to the theorems:

* the only observation `ok out n` a correct reader/writer pair can give on input `bs` is
  `out = ` the consumed prefix of `bs` and `n = ` the number of unread bytes (`r1_ok_is_prefix`) —
  this is what "writes back identical bytes" means for arbitrary, not only Go-written, input;
* everything a writer produced is accepted with exactly that observation, whatever follows
  (`flat_written_roundtrip`), i.e. Go-written bytes are never rejected by a reader that follows the model;
* every strict prefix of the consumed part is rejected (`flat_truncation_rejected`).
-/
namespace TLVerif.Props.C31
open TLVerif.Prim TLVerif.Cpp

/-- Whatever the reader accepts is byte-for-byte the writer's output for the decoded value followed
by the unread rest: writing back what was read reproduces the consumed input exactly. -/
theorem flat_readback_is_consumed_prefix (d : MDesc) (bs : Bytes) (vs : List MVal) (rest : Bytes)
    (h : readM [] d bs = .ok (vs, rest)) : ∃ out, writeM [] d vs = some out ∧ bs = out ++ rest :=
  readM_canonical d [] bs vs rest h

/-- Everything the (typed) writer produces is accepted by the reader, yields the written value and
leaves exactly the bytes that followed. -/
theorem flat_accepts_written (d : MDesc) (vs : List MVal) (out rest : Bytes)
    (h : writeM [] d vs = some out) : readM [] d (out ++ rest) = .ok (vs, rest) :=
  readM_written d [] vs out rest h

/-- The driver observation on written bytes: same bytes back, unread = what followed. -/
theorem flat_written_roundtrip (d : MDesc) (vs : List MVal) (out rest : Bytes)
    (h : writeM [] d vs = some out) : r1m d (out ++ rest) = .ok out rest.length := by
  unfold r1m
  rw [readM_written d [] vs out rest h]
  simp [h]

/-- The driver observation on *any* input: if it is `ok out n` then `out` is the prefix of the input
of length `bs.length - n`; `werr` never happens after a successful read. -/
theorem r1_ok_is_prefix (d : MDesc) (bs : Bytes) :
    (∀ out n, r1m d bs = .ok out n → bs = out ++ bs.drop out.length ∧ n + out.length = bs.length) ∧
    r1m d bs ≠ .werr := by
  unfold r1m
  cases hr : readM [] d bs with
  | error e => simp
  | ok t =>
    obtain ⟨vs, rest⟩ := t
    obtain ⟨o, hw, hb⟩ := readM_canonical d [] bs vs rest hr
    simp only [hw]
    refine ⟨?_, by simp⟩
    intro out n h
    injection h with h1 h2
    subst h1; subst h2
    subst hb
    simp [Nat.add_comm]

/-- The result of reading depends only on the consumed prefix: replacing the unread rest by any
other bytes gives the same value and leaves the new rest. -/
theorem flat_read_prefix_independent (d : MDesc) (bs : Bytes) (vs : List MVal) (rest : Bytes)
    (h : readM [] d bs = .ok (vs, rest)) :
    ∃ out, bs = out ++ rest ∧ ∀ rest', readM [] d (out ++ rest') = .ok (vs, rest') := by
  obtain ⟨o, hw, hb⟩ := readM_canonical d [] bs vs rest h
  exact ⟨o, hb, fun rest' => readM_written d [] vs o rest' hw⟩

/-- Every strict prefix of the consumed part of an accepted input is rejected. -/
theorem flat_truncation_rejected (d : MDesc) (bs : Bytes) (vs : List MVal) (rest : Bytes)
    (h : readM [] d bs = .ok (vs, rest)) (n : Nat) (hn : n + rest.length < bs.length) :
    ∃ e, readM [] d (bs.take n) = .error e := by
  cases hr : readM [] d (bs.take n) with
  | error e => exact ⟨e, rfl⟩
  | ok t =>
    exfalso
    obtain ⟨vs', rest'⟩ := t
    obtain ⟨o', hw', hb'⟩ := readM_canonical d [] _ vs' rest' hr
    have hbs : bs = o' ++ (rest' ++ bs.drop n) := by
      have := (List.take_append_drop n bs).symm
      rw [hb', List.append_assoc] at this
      exact this
    have h2 := readM_written d [] vs' o' (rest' ++ bs.drop n) hw'
    rw [← hbs, h] at h2
    injection h2 with h2
    injection h2 with _ hrest
    have hl : rest.length = rest'.length + (bs.length - n) := by
      rw [hrest]; simp [List.length_append, List.length_drop]
    omega

/-- A descriptor without masks and nat-sized tuples behaves as the plain flat codec
(`TLVerif.Cpp.Flat.readS`): the masked layer adds nothing there. -/
theorem plain_is_flat (d : Desc) (prev : List MVal) (bs : Bytes) :
    readM prev (d.map fun k => ⟨none, .fixed k⟩) bs =
      (readS d bs).map fun (p : List FVal × Bytes) => (p.1.map some, p.2) := by
  induction d generalizing prev bs with
  | nil => simp [readM, readS, Except.map]
  | cons k ks ih =>
    simp only [List.map_cons, readM, present, resolve, if_true, readS]
    cases h1 : readF k bs with
    | error e => simp [Except.map]
    | ok t =>
      obtain ⟨v, r1⟩ := t
      simp only []
      rw [ih]
      cases h2 : readS ks r1 with
      | error e => simp [Except.map]
      | ok t2 => simp [Except.map]

/-! ### The three C++ defect classes lie outside the reference accept set (all inputs of each class) -/

/-- class `noncanon`: every medium-form (0xfe) header announcing a length ≤ 253 is rejected, whatever follows. -/
theorem class_noncanon_rejected (x1 x2 x3 : UInt8) (r : Bytes)
    (h : (x3.toNat <<< 16) + (x2.toNat <<< 8) + x1.toNat ≤ 253) :
    stringRead (254 :: x1 :: x2 :: x3 :: r) = .error .noncanon :=
  medium_form_short_rejected x1 x2 x3 r h

/-- class `booltag`: a `Bool` field whose 4 bytes are neither tag is rejected. -/
theorem class_booltag_rejected (a b : Bytes) (bs : Bytes) (hl : 4 ≤ bs.length)
    (h : bs.take 4 ≠ a ∧ bs.take 4 ≠ b) : readP (.alt a b) bs = .error .tag :=
  bad_bool_rejected a b bs hl h

/-- class `sanity`: a count of 4-byte elements that the remaining input cannot hold is rejected. -/
theorem class_sanity_rejected (n : Nat) (bs : Bytes) (h : bs.length < 4 * n) :
    ∃ e, readN (.raw 4) n bs = .error e :=
  overlong_vector_rejected n bs h

/-- The hypotheses are satisfiable by a non-trivial value: `m:# a:m.0?int s:m.1?string k:# t:k*[string]`
with mask 2 (a absent, s present) and k = 2 is written and observed back with two unread bytes. -/
example :
    let d : MDesc := [⟨none, .fixed (.one (.raw 4))⟩, ⟨some (0, 0), .fixed (.one (.raw 4))⟩,
                      ⟨some (0, 1), .fixed (.one .str)⟩, ⟨none, .fixed (.one (.raw 4))⟩, ⟨none, .dyn 3 .str⟩]
    let v : List MVal := [some (.one (.raw [2, 0, 0, 0])), none, some (.one (.str [104, 101, 108, 108, 111])),
                          some (.one (.raw [2, 0, 0, 0])), some (.tup [.str [66], .str []])]
    let out : Bytes := [2, 0, 0, 0, 5, 104, 101, 108, 108, 111, 0, 0, 2, 0, 0, 0, 1, 66, 0, 0, 0, 0, 0, 0]
    writeM [] d v = some out ∧ r1m d (out ++ [9, 9]) = .ok out 2 := by
  intro d v out
  have hw : writeM [] d v = some out := by decide
  exact ⟨hw, flat_written_roundtrip d v out [9, 9] hw⟩

/-- Reference verdicts on the witnesses of the three known C++ defect classes (known_findings.d/C31.json):
a non-minimal (medium-form) encoding of a 1-byte string, an invalid `Bool` tag and a vector count that
exceeds the input are all rejected by the reference reader. -/
example : r1m [⟨none, .fixed (.one .str)⟩] [0xfe, 1, 0, 0, 0x41, 0, 0, 0] = .err := by decide
example : r1m [⟨none, .fixed (.one (.alt [0x37, 0x97, 0x79, 0xbc] [0xb5, 0x75, 0x72, 0x99]))⟩] [1, 0, 0, 0] = .err := by
  decide
example : r1m [⟨none, .fixed (.vec (.raw 4))⟩] [3, 0, 0, 0, 1, 0, 0, 0] = .err := by decide

end TLVerif.Props.C31
