import TLVerif.Lint.WireLemmas
import TLVerif.Lint.Examples
/-! C28 — the backward-compatibility linter is sound for TL1 wire compatibility.

Structure of the argument (DESIGN §4 C28):
* `wireCompat old new` is a decidable relation on schema pairs defined without any reference to the linter
  (`TLVerif/Lint/Wire.lean`); `encTy s strict t v` is a TL1 encoder for the schema fragment. "A value of an old
  constructor whose field-mask values set only bits the old schema gives meaning to" is a value the STRICT old
  encoder accepts (`encTy old true t v = some bs`: a `#` field that is used only as a field mask may set only bits
  that some old field is guarded by).
* THEOREM (`wire_sound`, `wire_sound_function`): `wireCompat old new` ⇒ every such value is encoded by the new
  schema to exactly the same bytes — for all values, all nesting depths, all closed type expressions.
* PER PAIR (translation validation, `checks/C28.py`): for every pair the Go linter accepts, `wireCompat` is evaluated
  by the compiled model; for accepted pairs the bytes of pseudo-random old values are decoded and re-encoded under
  the new schema by the real dynamic interpreter (`internal/pure/onthefly`).
* The full-strength statement "lintCore accepts ⇒ wire compatible" FAILS on the real code: the witnesses below are
  accepted by the linter (model = Go, tied) and an old value encodes differently. -/
namespace TLVerif.Props.C28
open TLVerif.Lint

/-- decidable form of the side condition on the top-level reference: it does not use, bare, a type that has one
constructor in the old schema and several in the new one (such a reference has no meaning in the new schema;
references inside the old schema satisfy this by `wireCompat`). -/
def cleanRef (old new : Schema) (t : TypeRef) : Bool :=
  (typeOrder old).all (fun T => match typeCombs old T with
    | [c] => decide ((typeCombs new T).length ≤ 1) || !bareUse T c.name t
    | _ => true)

theorem clean_of_cleanRef {old new : Schema} {t : TypeRef} (h : cleanRef old new t = true) : Clean old new t := by
  intro T cn hb
  obtain ⟨c, hone, hname, hlen⟩ := hb
  have hT : T ∈ typeOrder old := mem_typeOrder_of_mem_typeCombs (c := c) (by simp [hone])
  have := (List.all_eq_true.mp h) T hT
  simp only [hone, Bool.or_eq_true, decide_eq_true_eq, Bool.not_eq_true'] at this
  rcases this with h1 | h1
  · omega
  · rw [← hname]; exact h1

/-- C28, semantic side, types: under `wireCompat`, the new schema encodes every old value (strictly valid under the
old schema) of every closed type expression exactly as the old schema does. -/
theorem wire_sound {old new : Schema} (h : wireCompat old new = true) (t : TypeRef) (hc : cleanRef old new t = true)
    (v : Val) (bs : Bytes) (hold : encTy old true t v = some bs) : encTy new false t v = some bs :=
  encTy_sim (wc_of_wireCompat h) v t bs (clean_of_cleanRef hc) hold

/-- C28, semantic side, functions: the call of an old function with old arguments is encoded identically by the
new version of the function. -/
theorem wire_sound_function {old new : Schema} (h : wireCompat old new = true) {f : Comb} (hf : f ∈ funcCombs old)
    (args : VList) (bs : Bytes) (hold : encFunc old true f args = some bs) :
    ∃ f', findFunc new f.name = some f' ∧ encFunc new false f' args = some bs := by
  have hw := wc_of_wireCompat h
  obtain ⟨f', ex, hfind, hcorr⟩ := hw.funcs f hf
  refine ⟨f', hfind, ?_⟩
  unfold encFunc at hold ⊢
  cases hb : encFields old true f Env.empty 0 f.fields args with
  | none => simp [hb] at hold
  | some body =>
    simp only [hb, Option.map_some, Option.some.injEq] at hold
    have hinv0 : Inv f ex Env.empty 0 := by intro _ _ _ _ _ _ hlt; omega
    have := encFields_sim hw args f f' ex hcorr (List.mem_filter.mp hf).1 Env.empty 0 f.fields body (by simp) hinv0
      (fun T cn _ => envClean_empty T cn) hb
    rw [hcorr.2.2.2.1, this, hcorr.2.1]
    simpa using hold

/-- arrays: same statement for `cnt` elements of a closed type. -/
theorem wire_sound_elems {old new : Schema} (h : wireCompat old new = true) (t : TypeRef) (hc : cleanRef old new t = true)
    (cnt : Nat) (vs : VList) (bs : Bytes)
    (hold : encElems old true t cnt vs = some bs) : encElems new false t cnt vs = some bs :=
  encElems_sim (wc_of_wireCompat h) vs t cnt bs (clean_of_cleanRef hc) hold

/-! ### the hypothesis is satisfiable, non-trivially -/

open TLVerif.Lint.Ex in
/-- `obj m:# a:m.0?int b:long` → `… c:m.3?string`: wire compatible, and a value with the mask bit set is covered. -/
example : wireCompat base (prelude ++ [foo, { obj with fields := obj.fields ++ [mfld "c" "m" 3 (ref "string")] }, getF]) = true ∧
    encTy base true (ref "Obj") (.ctor "obj" (.cons (.nat 1) (.cons (.prim [1, 2, 3, 4]) (.cons (.prim [0, 0, 0, 0, 0, 0, 0, 9]) .nil)))) =
      some [7, 0, 0, 0, 1, 0, 0, 0, 1, 2, 3, 4, 0, 0, 0, 0, 0, 0, 0, 9] := by decide

open TLVerif.Lint.Ex in
/-- `Foo` (used only boxed) gets a second constructor: wire compatible; the boxed reference `Foo` is clean. -/
example : wireCompat base (prelude ++ [foo, foo2, obj, getF]) = true ∧
    cleanRef base (prelude ++ [foo, foo2, obj, getF]) (ref "Foo") = true := by decide

/-! ### full-strength statement and its failure -/

/-- "if the linter accepts, every old value is encoded identically" (model level). -/
def LinterSound : Prop :=
  ∀ (old new : Schema), lintCore old new = .ok → ∀ t v bs, encTy old true t v = some bs → encTy new false t v = some bs

open TLVerif.Lint.Ex in
/-- L7: `bar p:%Foo` → `bar p:Foo` is accepted; the value `bar (foo 5)` gains the 4-byte tag of `foo`. -/
theorem linter_sound_fails : ¬ LinterSound := by
  intro h
  have := h l7Old l7New (by decide) (ref "Bar")
    (.ctor "bar" (.cons (.ctor "foo" (.cons (.prim [5, 0, 0, 0]) .nil)) .nil)) [3, 0, 0, 0, 5, 0, 0, 0] (by decide)
  revert this
  decide

open TLVerif.Lint.Ex in
/-- every witness of the known defects is accepted by `lintCore` and is not `wireCompat`. -/
theorem witnesses_accepted_not_compat :
    (lintCore l7Old l7New = .ok ∧ wireCompat l7Old l7New = false) ∧
    (lintCore l5Old l5New = .ok ∧ wireCompat l5Old l5New = false) ∧
    (lintCore l5rOld l5rNew = .ok ∧ wireCompat l5rOld l5rNew = false) ∧
    (lintCore repOld repElNew = .ok ∧ wireCompat repOld repElNew = false) ∧
    (lintCore repOld repScNew = .ok ∧ wireCompat repOld repScNew = false) ∧
    (lintCore tagOld tagNew = .ok ∧ wireCompat tagOld tagNew = false) ∧
    (lintCore sizeOld sizeNew = .ok ∧ wireCompat sizeOld sizeNew = false) ∧
    (lintCore constOld constNew = .ok ∧ wireCompat constOld constNew = false) := by decide

open TLVerif.Lint.Ex in
/-- tag change: the boxed value `bar (foo 5)` starts with a different constructor tag. -/
theorem tag_change_breaks_wire :
    encTy tagOld true (ref "Bar") (.ctor "bar" (.cons (.ctor "foo" (.cons (.prim [5, 0, 0, 0]) .nil)) .nil)) ≠
    encTy tagNew false (ref "Bar") (.ctor "bar" (.cons (.ctor "foo" (.cons (.prim [5, 0, 0, 0]) .nil)) .nil)) := by decide

open TLVerif.Lint.Ex in
/-- size field reused as a mask: the old value `foo n=1 xs=[7]` has no encoding under the new schema without the new field. -/
theorem size_bit_breaks_wire :
    encTy sizeOld true (ref "Foo") (.ctor "foo" (.cons (.nat 1) (.cons (.arr (.cons (.prim [7, 0, 0, 0]) .nil)) .nil))) =
      some [1, 0, 0, 0, 1, 0, 0, 0, 7, 0, 0, 0] ∧
    encTy sizeNew false (ref "Foo") (.ctor "foo" (.cons (.nat 1) (.cons (.arr (.cons (.prim [7, 0, 0, 0]) .nil)) .nil))) = none := by
  decide

end TLVerif.Props.C28
