import TLVerif.Lint.Wire
namespace TLVerif.Props.C28
open TLVerif.Lint
end TLVerif.Props.C28
