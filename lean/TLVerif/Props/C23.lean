import TLVerif.Syntax.CanonLemmas
/-!
# C23 — Implicit constructor tags follow the canonical-form CRC32 rule

Statement (fixed): *A TL1 constructor without an explicit tag gets the CRC32 (IEEE) of its canonical
one-line form as documented (no braces, single spaces, bare-marker rules, arithmetic replaced by its
value); consequently the tag does not change under whitespace, comments, line breaks or equivalent
type-application syntax, and explicit tags are used verbatim.*

Model: `Combinator.canonicalForm` (`qt_tlparser.qtpl(.go)`: `canonicalForm`, `toCrc32`, and the `String()`
printers it falls back to inside `[ … ]`), `crc32` (bitwise CRC-32/IEEE), `Combinator.withTag`
(`tlcrc32.go` + the assignment in `parseCombinator`).
-/
namespace TLVerif.Props.C23
open TLVerif.Syntax

/-- The bitwise CRC is CRC-32/IEEE: the standard check value. -/
theorem crc32_check_value : crc32 (strBytes "123456789") = 0xCBF43926 := by
  set_option maxRecDepth 20000 in rfl

/-- The example of `docs/TLPrimer.pdf`: `point x:int y:int = Point;` is `point#e3fe70f4`. -/
theorem crc32_doc_example : crc32 (strBytes "point x:int y:int = Point") = 0xe3fe70f4 := by
  set_option maxRecDepth 20000 in rfl

/-- **Every** combinator of **every** successfully parsed text (all lexer options): if it has no explicit tag,
its tag is the CRC32 of its canonical form. -/
theorem tag_is_crc_of_canonical (o : LexOpts) (text : Bytes) (tl : TL) (h : parseTLFile o text = .ok tl) :
    ∀ c ∈ tl.combinators, c.construct.explicit = false → c.construct.id = crc32 c.canonicalForm :=
  parseTLFile_all TagOK (fun _ _ _ _ _ hc => parseCombinator_tagOK hc) h

/-- Explicit tags are used verbatim, part 1: the constructor parser returns the value of the eight hex digits of
the `#xxxxxxxx` token (`strconv.ParseUint(val[1:], 16, 32)`), nothing else. -/
theorem explicit_tag_verbatim (ts rest : List Token) (outer : Pos) (ab : Bool) (c : Constructor)
    (h : parseConstructor ts outer ab = .ok c rest) (he : c.explicit = true) :
    ∃ t : Token, t.ty = .crc32hash ∧ ∃ c0 digits v, t.val = c0 :: digits ∧ parseHex32 digits = some v ∧ c.id = UInt32.ofNat v :=
  parseConstructor_explicit h he

/-- Explicit tags are used verbatim, part 2: every successful `parseCombinator` is the combinator parsed up to the
`;` with only the tag filled in (when not explicit) and the right-hand comment attached; an explicit constructor
is not touched. -/
theorem explicit_tag_kept (text : Bytes) (cs ts rest : List Token) (isF ab : Bool) (td : Combinator)
    (h : parseCombinator text cs ts isF ab = .ok td rest) :
    ∃ pre r8 cr, parseCombinatorPre text cs ts isF ab = .ok pre r8 ∧ td = { pre.withTag with cr := cr } ∧
      (pre.construct.explicit = true → td.construct = pre.construct) ∧ td.canonicalForm = pre.canonicalForm := by
  obtain ⟨pre, r8, cr, hp, rfl⟩ := parseCombinator_ok_inv h
  refine ⟨pre, r8, cr, hp, rfl, ?_, ?_⟩
  · intro he; have := (withTag_spec pre).2.2 he; simp only [this]
  · rw [← withTag_canonical pre]; rfl

/-- The canonical form (hence an implicit tag) does not depend on the tag itself, on comments or on the
newline flag: it is a function of names, template arguments, fields and the result only. -/
theorem canonical_ignores_tag_and_comments (c : Combinator) (id : UInt32) (ex : Bool) (cb cr : Bytes) :
    ({ c with construct := { c.construct with id := id, explicit := ex }, cb := cb, cr := cr } : Combinator).canonicalForm =
      c.canonicalForm := rfl


/-! ### the documented form (`DocCanonical.lean`): full statement, partial theorem, counter-example -/

/-- Full-strength statement: the implementation's canonical form is the documented one (uniform rules, also inside
repetition brackets).  It is **false** (`canonical_as_documented_fails_at`). -/
def CanonicalAsDocumented : Prop := ∀ c : Combinator, c.canonicalForm = c.docCanonical

/-- Under the decidable guard "the contents of repetition brackets are plain" (no `!`, no arguments, no `%` on a
lower-case name, no masked nested repetition) the implementation's form is the documented one — for every
combinator, parsed or not. -/
theorem canonical_as_documented_partial (c : Combinator) (h : c.plainBrackets = true) :
    c.canonicalForm = c.docCanonical := canonical_eq_doc c h

def bn (s : String) : Name := ⟨[], strBytes s⟩
def plainF (n : String) (t : TypeRef) : Field := .mk (strBytes n) none false (.type t) false [] []
/-- `foo n:# a:n*[x:%int y:(tuple int 1+2)] = Foo;` as a tree -/
def witness : Combinator :=
  { builtin := false, isFunction := false, mods := [], construct := ⟨bn "foo", 0, false⟩, targs := [],
    fields := [plainF "n" (.mk ⟨[], [cHash]⟩ [] false),
               .mk (strBytes "a") none false (.rep (some (.name (strBytes "n")))
                 [plainF "x" (.mk (bn "int") [] true),
                  plainF "y" (.mk (bn "tuple") [.type (.mk (bn "int") [] false), .arith ⟨[1, 2], 3⟩] false)]) false [] []],
    typeDecl := ⟨bn "Foo", []⟩, funcDecl := TypeRef.zero, cb := [], cr := [] }

/-- the implementation keeps `%int`, the parentheses and `1 + 2` inside the brackets … -/
theorem witness_canonical : witness.canonicalForm = strBytes "foo n:# a:n*[ x:%int y:(tuple int 1 + 2) ] = Foo" := by
  simp [witness, plainF, bn, Combinator.canonicalForm, Field.crc, rwsCrc, repCrc, Field.str, FieldBody.str, TypeRef.str, TypeRef.crc,
    AOT.str, argsStr, argsCrc, Arith.str, scaleCrc, nameColon, maskStr, crcBareMark, Name.str, TypeDecl.str, decBytes, decBytesAux, digitByte]
  decide
/-- … the documented rules give `int`, no parentheses and the value `3` -/
theorem witness_documented : witness.docCanonical = strBytes "foo n:# a:n*[ x:int y:tuple int 3 ] = Foo" := by
  simp [witness, plainF, bn, Combinator.docCanonical, docField, docBody, docRep, TypeRef.crc, AOT.crc,
    argsCrc, scaleCrc, nameColon, maskStr, crcBareMark, Name.str, TypeDecl.str, decBytes, decBytesAux, digitByte]
  decide

theorem canonical_as_documented_fails_at : ¬ CanonicalAsDocumented := by
  intro h
  have := h witness
  rw [witness_canonical, witness_documented] at this
  exact absurd this (by decide)

/-- the guard is satisfiable by a combinator that does have bracket contents -/
example : ({ witness with fields := [.mk (strBytes "a") none false (.rep none [plainF "x" (.mk (bn "Int") [] true)]) false [] []] } :
    Combinator).plainBrackets = true := by
  simp [Combinator.plainBrackets, plainField, plainRep, plainType, plainF, bn]
  decide

/-- Full-strength layout statement (tied and explored by the check, not proved in Lean): two token streams with the
same non-whitespace tokens parse to the same combinators up to comments.  `stripWS` is what the parser sees. -/
def stripWS (ts : List Token) : List Token := ts.filter (fun t => !t.ty.isWS)

/-- The parser's window on the token stream only ever shows non-whitespace tokens: `skipWS` returns the first
token of the stripped stream, and stripping commutes with it. -/
theorem skipWS_sees_stripped : ∀ (ts : List Token) (t : Token) (r : List Token), skipWS ts = some (t, r) →
    stripWS ts = t :: stripWS r ∧ skipWS (stripWS ts) = some (t, stripWS r)
  | [], t, r, h => by simp [skipWS] at h
  | x :: xs, t, r, h => by
    unfold skipWS at h
    split at h
    · rename_i hws
      have := skipWS_sees_stripped xs t r h
      simp only [stripWS, List.filter_cons, hws, Bool.not_true, Bool.false_eq_true, if_false] at this ⊢
      exact this
    · rename_i hws
      simp only [Option.some.injEq, Prod.mk.injEq] at h
      obtain ⟨rfl, rfl⟩ := h
      have hws' : x.ty.isWS = false := by simpa using hws
      simp [stripWS, List.filter_cons, hws', skipWS]

theorem skipWS_none_stripped : ∀ (ts : List Token), skipWS ts = none → stripWS ts = []
  | [], _ => rfl
  | x :: xs, h => by
    unfold skipWS at h
    split at h
    · rename_i hws
      have := skipWS_none_stripped xs h
      simp only [stripWS, List.filter_cons, hws, Bool.not_true, Bool.false_eq_true, if_false] at this ⊢
      exact this
    · simp at h

/-- what a primitive shows of the iterator, up to layout: the front token and the stripped tail -/
def viewWS (r : Option (Token × List Token)) : Option (Token × List Token) := r.map (fun p => (p.1, stripWS p.2))

theorem skipWS_view (ts : List Token) : viewWS (skipWS ts) = (match stripWS ts with | [] => none | t :: x => some (t, x)) := by
  cases h : skipWS ts with
  | none => simp [viewWS, skipWS_none_stripped ts h]
  | some p =>
    obtain ⟨t, r⟩ := p
    have := skipWS_sees_stripped ts t r h
    simp [viewWS, this.1]

/-- `skipWS` is layout invariant: two iterators with the same non-whitespace tokens show the same front token and
equivalent tails. -/
theorem skipWS_layout_invariant (ts ts' : List Token) (h : stripWS ts = stripWS ts') :
    viewWS (skipWS ts) = viewWS (skipWS ts') := by
  rw [skipWS_view, skipWS_view, h]

/-- so are `checkToken`, `expect`, `expectOrPanic` -/
theorem checkToken_layout_invariant (ts ts' : List Token) (ty : TT) (h : stripWS ts = stripWS ts') :
    (checkToken ts ty).map (fun p => (p.1, p.2.1, stripWS p.2.2)) = (checkToken ts' ty).map (fun p => (p.1, p.2.1, stripWS p.2.2)) := by
  have := skipWS_layout_invariant ts ts' h
  unfold checkToken
  cases h1 : skipWS ts <;> cases h2 : skipWS ts' <;> simp_all [viewWS]

theorem stripWS_cons_nonWS (t : Token) (r : List Token) (h : t.ty.isWS = false) : stripWS (t :: r) = t :: stripWS r := by
  simp [stripWS, h]

theorem skipWS_front_nonWS {ts : List Token} {t : Token} {r : List Token} (h : skipWS ts = some (t, r)) : t.ty.isWS = false := by
  induction ts with
  | nil => simp [skipWS] at h
  | cons x xs ih =>
    unfold skipWS at h
    split at h
    · exact ih h
    · rename_i hx
      simp only [Option.some.injEq, Prod.mk.injEq] at h
      rw [← h.1]; simpa using hx

theorem expect_layout_invariant (ts ts' : List Token) (ty : TT) (h : stripWS ts = stripWS ts') :
    (expect ts ty).map (fun p => (p.1, stripWS p.2)) = (expect ts' ty).map (fun p => (p.1, stripWS p.2)) := by
  have hv := skipWS_layout_invariant ts ts' h
  unfold expect checkToken
  cases h1 : skipWS ts with
  | none =>
    cases h2 : skipWS ts' with
    | none => rfl
    | some p => rw [h1, h2] at hv; simp [viewWS] at hv
  | some p =>
    cases h2 : skipWS ts' with
    | none => rw [h1, h2] at hv; simp [viewWS] at hv
    | some p' =>
      obtain ⟨t, r⟩ := p
      obtain ⟨t', r'⟩ := p'
      rw [h1, h2] at hv
      simp only [viewWS, Option.map_some, Option.some.injEq, Prod.mk.injEq] at hv
      obtain ⟨rfl, hr⟩ := hv
      have hws := skipWS_front_nonWS h1
      cases hb : (t.ty == ty) <;> simp [hb, hr, stripWS_cons_nonWS t _ hws]

end TLVerif.Props.C23
