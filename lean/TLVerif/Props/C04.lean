import TLVerif.Props.C03
/-!
# C04 — TL1-to-TL2 conversion preserves values

Statements about the models `readTL1`/`writeTL1` (`Codec/TL1.lean`) and `writeTL2`/`readTL2` (`Codec/TL2.lean`), tied to the
generated Go code by `checks/C04.py`.

`tl1_tl2_tl1`: every value decoded from TL1 bytes that satisfies `Good` survives TL1 → TL2 → TL1 as *the same value*.
`Good` no longer says anything about floats beyond their width: the generated TL2 writer tests floats with
`(x != 0 || 1/x < 0)` (`TypeRWPrimitive.nonZeroCondition`), so a float is left out iff its bit pattern is zero and `-0.0` is
written out (`float_empty_iff_zero_pattern`, `prim_negzero_preserved`, and the chain on the former witness bytes of lead L2,
`tl1_tl2_tl1_negzero_at`).  Before that change `-0.0` in a non-optional field came back as `+0.0`; the check's fixed
witness lines now must pass.

Guards that remain in `Good` and are genuinely needed (each is where the generated code, or Go's `int`, does not allow
more — see `Props/C03.lean`): the value has the shape of the type and numbers fit their width (automatic for decoded
values, not proved here); no `bit` reached through an alias / `Maybe` / array element and no optional field of an empty
non-`true` struct type (TL2-only constructs: they cannot occur in a TL1-origin schema); encodings shorter than 2^63 bytes.
That `readTL1` only produces `Good` values is explored by the tie on every run, not proved; hence `ConversionPreserves`
(the statement without the hypothesis) stays a `def`: no counter-example is known any more.
-/
namespace TLVerif.Props.C04
open TLVerif.Prim TLVerif.Codec

/-- presence of the fields read by `readFieldsWith` (the model of the generated `ReadTL1` field loop): entry `i` is `some`
exactly when the TL1 field mask says field `i` is present, given the values read before it -/
def PresenceOK (params : List Nat) : List Field → List (Option Val) → List (Option Val) → Prop
  | [], _, [] => True
  | f :: fs, acc, v :: vs => fieldPresent f acc params = some v.isSome ∧ PresenceOK params fs (acc ++ [v]) vs
  | _, _, _ => False

/-- **ReadTL1 mirrors the TL1 masks into the TL2 presence bits.** In the model a field's hidden TL2 presence bit is the
`isSome` of its entry (that is what `encField` tests); after `ReadTL1` it equals the TL1 mask bit of the field, for
local masks (`#` fields read earlier) and external masks (nat parameters) alike. -/
theorem read_tl1_sets_tl2masks (rd : Rd) (params : List Nat) :
    ∀ (fs : List Field) (acc : List (Option Val)) (bs : Bytes) (out : List (Option Val)) (rest : Bytes),
      readFieldsWith rd params fs acc bs = .ok (out, rest) →
      ∃ new, out = acc ++ new ∧ PresenceOK params fs acc new := by
  intro fs
  induction fs with
  | nil =>
    intro acc bs out rest h
    simp only [readFieldsWith] at h
    cases h
    exact ⟨[], by simp, trivial⟩
  | cons f fs ih =>
    intro acc bs out rest h
    simp only [readFieldsWith] at h
    split at h
    · rename_i na hp hn
      split at h
      · cases h
      · rename_i v bs' hr
        obtain ⟨new, hout, hpr⟩ := ih _ _ _ _ h
        exact ⟨some v :: new, by rw [hout]; simp, by simpa [PresenceOK, hp] using hpr⟩
    · rename_i na hp hn
      obtain ⟨new, hout, hpr⟩ := ih _ _ _ _ h
      exact ⟨none :: new, by rw [hout]; simp, by simpa [PresenceOK, hp] using hpr⟩
    · cases h

/-- A primitive survives the detour through TL2: whether the TL2 writer emits it or leaves it out as "empty", the TL2
reader ends up with the same value — provided it is not a float `-0.0` in an empty-test position (`goodPrim`). -/
theorem prim_tl1_tl2_tl1 (k : PrimK) (zie c : Bool) (v : Val) (r : Option Bytes)
    (hg : goodPrim k zie v = true) (he : encPrim k zie v = .ok r) (hlen : (optBytes r).length < 2 ^ 63) :
    (∀ b, r = some b → ∀ rest, readPrim2 k c (b ++ rest) = .ok (v, rest)) ∧ (r = none → zeroPrim k = v) := by
  obtain ⟨h1, h2⟩ := prim_roundtrip k zie c v r hg he hlen
  exact ⟨fun b hb rest => (h1 b hb).2 rest, fun hn => (h2 hn).symm⟩

/-- A float is "empty" for the TL2 writer exactly when its bit pattern is zero — like an integer. -/
theorem float_empty_iff_zero_pattern (n : Nat) :
    primEmpty .f32 (.nat n) = (n == 0) ∧ primEmpty .f64 (.nat n) = (n == 0) := ⟨rfl, rfl⟩

/-- **`-0.0` is preserved**: in an empty-test position the writer emits its four / eight bytes, the reader returns the
same pattern, so its TL1 encoding is unchanged (32- and 64-bit floats); only `+0.0` is left out. -/
theorem prim_negzero_preserved (c : Bool) (rest : Bytes) :
    encPrim .f32 true (.nat 0x80000000) = .ok (some [0, 0, 0, 0x80]) ∧
    readPrim2 .f32 c ([0, 0, 0, 0x80] ++ rest) = .ok (.nat 0x80000000, rest) ∧
    encPrim .f64 true (.nat 0x8000000000000000) = .ok (some [0, 0, 0, 0, 0, 0, 0, 0x80]) ∧
    readPrim2 .f64 c ([0, 0, 0, 0, 0, 0, 0, 0x80] ++ rest) = .ok (.nat 0x8000000000000000, rest) ∧
    encPrim .f32 true (.nat 0) = .ok none ∧ encPrim .f64 true (.nat 0) = .ok none := by
  have h32 := prim_roundtrip .f32 true c (.nat 0x80000000) (some [0, 0, 0, 0x80]) rfl rfl (by decide)
  have h64 := prim_roundtrip .f64 true c (.nat 0x8000000000000000) (some [0, 0, 0, 0, 0, 0, 0, 0x80]) rfl rfl (by decide)
  exact ⟨rfl, ((h32.1 _ rfl).2 rest), rfl, ((h64.1 _ rfl).2 rest), rfl, rfl⟩

/-- **TL1 → TL2 → TL1.** A value decoded from TL1 bytes that satisfies `Good` (no condition on floats other than their
width: `-0.0`, NaNs with payload, everything) is written in TL2, read back as *the same value* (so its JSON and every TL1
encoding of it are unchanged) and nothing is left over.  Remaining guards: see the header. -/
theorem tl1_tl2_tl1 (cfg : Cfg) (d : Desc) (fuel ty : Nat) (bare c : Bool) (params : List Nat)
    (bs rest w2 : Bytes) (v : Val)
    (_hr : readTL1 cfg d fuel ty bare params bs = .ok (v, rest))
    (hg : Good d fuel ty false v) (hw : writeTL2 d fuel ty false v = .ok w2) :
    readTL2 d fuel ty c w2 = .ok (v, []) ∧
      ∀ v', readTL2 d fuel ty c w2 = .ok (v', []) → writeTL1 d fuel ty bare params v' = writeTL1 d fuel ty bare params v := by
  have h := (Props.C03.tl2_roundtrip d fuel ty c v w2 [] hg hw).2
  rw [List.append_nil] at h
  refine ⟨h, fun v' hv' => ?_⟩
  rw [h] at hv'
  cases hv'
  rfl

/-- the statement without the hypothesis `Good`: TL1 bytes → value → TL2 bytes → value → the same TL1 bytes.
Not proved (it needs "`readTL1` only yields `Good` values", which the tie explores); no counter-example is known since `-0.0`
is written out. -/
def ConversionPreserves : Prop :=
  ∀ (d : Desc) (fuel ty : Nat) (bs w2 w1 : Bytes) (v v' : Val),
    readTL1 {} d fuel ty true [] bs = .ok (v, []) → writeTL2 d fuel ty false v = .ok w2 →
    readTL2 d fuel ty false w2 = .ok (v', []) → writeTL1 d fuel ty true [] v' = .ok w1 → w1 = bs

/-! ### the former counter-example now passes -/

/-- `s key:double = S;` (instance 0 = `double`, instance 1 = the struct, tag 1) -/
def dblDesc : Desc :=
  { insts := #[.prim .f64,
      .struct { tag := 1, nparams := 0, hasTL2 := true,
                fields := [{ name := "key", ty := 0, bare := true, mask := none, tl2bit := none, isBit := false, natArgs := [] }] }] }

/-- `key = -0.0` is `Good` (it used to be the excluded value) -/
theorem negzero_good : Good dblDesc 3 1 false (.struct [some (.nat 0x8000000000000000)]) := by
  refine ⟨fun r hr => ?_, ?_⟩
  · have : encTL2 dblDesc 3 1 false (.struct [some (.nat 0x8000000000000000)]) = .ok (some [9, 2, 0, 0, 0, 0, 0, 0, 0, 0x80]) := rfl
    rw [this] at hr; cases hr; decide
  · refine ⟨by decide, ⟨by decide, by decide, ?_⟩, trivial⟩
    refine ⟨fun r hr => ?_, ?_⟩
    · have : encTL2 dblDesc 2 0 true (.nat 0x8000000000000000) = .ok (some [0, 0, 0, 0, 0, 0, 0, 0x80]) := rfl
      rw [this] at hr; cases hr; decide
    · show goodPrim PrimK.f64 true (Val.nat 0x8000000000000000) = true
      rfl

/-- The chain on `-0.0` in a non-optional `double` field: the TL2 bytes carry the eight bytes of `-0.0`, the value read
back is the same, the TL1 bytes are reproduced. -/
theorem tl1_tl2_tl1_negzero_at :
    readTL1 {} dblDesc 3 1 true [] [0, 0, 0, 0, 0, 0, 0, 0x80] = .ok (.struct [some (.nat 0x8000000000000000)], []) ∧
    writeTL2 dblDesc 3 1 false (.struct [some (.nat 0x8000000000000000)]) = .ok [9, 2, 0, 0, 0, 0, 0, 0, 0, 0x80] ∧
    readTL2 dblDesc 3 1 false [9, 2, 0, 0, 0, 0, 0, 0, 0, 0x80] = .ok (.struct [some (.nat 0x8000000000000000)], []) ∧
    writeTL1 dblDesc 3 1 true [] (.struct [some (.nat 0x8000000000000000)]) = .ok [0, 0, 0, 0, 0, 0, 0, 0x80] := by
  refine ⟨rfl, rfl, ?_, rfl⟩
  exact (tl1_tl2_tl1 {} dblDesc 3 1 true false [] [0, 0, 0, 0, 0, 0, 0, 0x80] [] [9, 2, 0, 0, 0, 0, 0, 0, 0, 0x80]
    (.struct [some (.nat 0x8000000000000000)]) rfl negzero_good rfl).1

/-! the former witness line of lead L2 (`codec.x2 cases … cases.testDictAny 1 db4d2b25 01000000 0000000000000080 07000000`):
`cases.testDictAny dict:vector<dictionaryAnyField<double,int>>` with the single entry `-0.0 ↦ 7`.
Instances: 0 `double`, 1 `int`, 2 `dictionaryAnyField<double,int>`, 3 the array, 4 `vector<…>`, 5 `cases.testDictAny`. -/
def dictAnyDesc : Desc :=
  { insts := #[.prim .f64, .prim .i32,
      .struct { tag := 0xe466c347, nparams := 0, hasTL2 := true,
                fields := [{ name := "key", ty := 0, bare := true, mask := none, tl2bit := none, isBit := false, natArgs := [] },
                           { name := "value", ty := 1, bare := true, mask := none, tl2bit := none, isBit := false, natArgs := [] }] },
      .array { isTuple := false, dynamic := false, count := 0, nparams := 0, hasTL2 := true,
               elem := { name := "", ty := 2, bare := true, mask := none, tl2bit := none, isBit := false, natArgs := [] } },
      .struct { tag := 0x1cb5c415, nparams := 0, hasTL2 := true, isAlias := true, isTypedef := true, isUnwrap := true,
                fields := [{ name := "", ty := 3, bare := true, mask := none, tl2bit := none, isBit := false, natArgs := [] }] },
      .struct { tag := 0x252b4ddb, nparams := 0, hasTL2 := true,
                fields := [{ name := "dict", ty := 4, bare := true, mask := none, tl2bit := none, isBit := false, natArgs := [] }] }] }

def dictAnyBytes : Bytes :=
  [0xdb, 0x4d, 0x2b, 0x25, 1, 0, 0, 0, 0, 0, 0, 0, 0, 0, 0, 0x80, 7, 0, 0, 0]

def dictAnyVal : Val := .struct [some (.struct [some (.arr [.struct [some (.nat 0x8000000000000000), some (.nat 7)]])])]

def dictAnyTL2 : Bytes := [0x11, 2, 0x0f, 1, 0x0d, 6, 0, 0, 0, 0, 0, 0, 0, 0x80, 7, 0, 0, 0]

/-- on the old witness bytes: decode (boxed), convert, and the TL2 bytes contain `0000000000000080`; re-encoding the
value gives back the witness bytes -/
example :
    readTL1 {} dictAnyDesc 8 5 false [] dictAnyBytes = .ok (dictAnyVal, []) ∧
    writeTL2 dictAnyDesc 8 5 false dictAnyVal = .ok dictAnyTL2 ∧
    writeTL1 dictAnyDesc 8 5 false [] dictAnyVal = .ok dictAnyBytes := ⟨rfl, rfl, rfl⟩

/-- … and the TL2 bytes read back as the same value -/
example : readTL2 dictAnyDesc 8 5 false dictAnyTL2 = .ok (dictAnyVal, []) := by
  simp [readTL2, readStructObj, readFields2With, readField, nextBlock, readHead, readByte, readElems2With, readPrim2, readU32,
    readU64, dictAnyDesc, dictAnyTL2, dictAnyVal, Desc.get?, sliceBody, parseSize, tl2ParseSize, liftP, isTrueTy, isBitTy, testBit,
    structUI, Except.map, mediumMarker_eq]

end TLVerif.Props.C04
