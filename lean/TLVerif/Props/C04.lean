import TLVerif.Props.C03
/-!
# C04 — TL1-to-TL2 conversion preserves values

Statements about the models `readTL1`/`writeTL1` (`Codec/TL1.lean`) and `writeTL2`/`readTL2` (`Codec/TL2.lean`), tied to the
generated Go code by `checks/C04.py`.

Full-strength statement (`ConversionPreserves`): every value decoded from valid TL1 bytes survives TL1 → TL2 → TL1.
It is **false** for the generated code (`tl1_tl2_tl1_fails_at`): a non-optional `double`/`float` field holding `-0.0` is
"empty" for the TL2 writer (`x != 0` is a float comparison), is not written, and reads back as `+0.0`.
`tl1_tl2_tl1_partial` proves preservation under the guard `Good`, whose float condition is exactly "no `-0.0` in a
position where the writer tests emptiness" (the check evaluates that guard, as `noNegZero`, on every failing case).
-/
namespace TLVerif.Props.C04
open TLVerif.Prim TLVerif.Codec

/-- presence of the fields read by `readFieldsWith` (the model of the generated `ReadTL1` field loop): entry `i` is `some`
exactly when the TL1 field mask says field `i` is present, given the values read before it -/
def PresenceOK (params : List Nat) : List Field → List (Option Val) → List (Option Val) → Prop
  | [], _, [] => True
  | f :: fs, acc, v :: vs => fieldPresent f acc params = some v.isSome ∧ PresenceOK params fs (acc ++ [v]) vs
  | _, _, _ => False

/-- **ReadTL1 mirrors the TL1 masks into the TL2 presence bits.** In the model a field's hidden TL2 presence bit is the
`isSome` of its entry (that is what `encField` tests); after `ReadTL1` it equals the TL1 mask bit of the field, for
local masks (`#` fields read earlier) and external masks (nat parameters) alike. -/
theorem read_tl1_sets_tl2masks (rd : Rd) (params : List Nat) :
    ∀ (fs : List Field) (acc : List (Option Val)) (bs : Bytes) (out : List (Option Val)) (rest : Bytes),
      readFieldsWith rd params fs acc bs = .ok (out, rest) →
      ∃ new, out = acc ++ new ∧ PresenceOK params fs acc new := by
  intro fs
  induction fs with
  | nil =>
    intro acc bs out rest h
    simp only [readFieldsWith] at h
    cases h
    exact ⟨[], by simp, trivial⟩
  | cons f fs ih =>
    intro acc bs out rest h
    simp only [readFieldsWith] at h
    split at h
    · rename_i na hp hn
      split at h
      · cases h
      · rename_i v bs' hr
        obtain ⟨new, hout, hpr⟩ := ih _ _ _ _ h
        exact ⟨some v :: new, by rw [hout]; simp, by simpa [PresenceOK, hp] using hpr⟩
    · rename_i na hp hn
      obtain ⟨new, hout, hpr⟩ := ih _ _ _ _ h
      exact ⟨none :: new, by rw [hout]; simp, by simpa [PresenceOK, hp] using hpr⟩
    · cases h

/-- A primitive survives the detour through TL2: whether the TL2 writer emits it or leaves it out as "empty", the TL2
reader ends up with the same value — provided it is not a float `-0.0` in an empty-test position (`goodPrim`). -/
theorem prim_tl1_tl2_tl1 (k : PrimK) (zie c : Bool) (v : Val) (r : Option Bytes)
    (hg : goodPrim k zie v = true) (he : encPrim k zie v = .ok r) (hlen : (optBytes r).length < 2 ^ 63) :
    (∀ b, r = some b → ∀ rest, readPrim2 k c (b ++ rest) = .ok (v, rest)) ∧ (r = none → zeroPrim k = v) := by
  obtain ⟨h1, h2⟩ := prim_roundtrip k zie c v r hg he hlen
  exact ⟨fun b hb rest => (h1 b hb).2 rest, fun hn => (h2 hn).symm⟩

/-- `-0.0` is the value that is lost: the TL2 writer leaves it out, the reader's reset value is `+0.0`, and the TL1
encodings of the two differ (32- and 64-bit floats). -/
theorem prim_negzero_lost :
    encPrim .f32 true (.nat 0x80000000) = .ok none ∧ writePrim .f32 (.nat 0x80000000) ≠ writePrim .f32 (zeroPrim .f32) ∧
    encPrim .f64 true (.nat 0x8000000000000000) = .ok none ∧
      writePrim .f64 (.nat 0x8000000000000000) ≠ writePrim .f64 (zeroPrim .f64) := by
  refine ⟨rfl, ?_, rfl, ?_⟩
  · intro h
    simp [writePrim, zeroPrim, u32le, byteOf] at h
  · intro h
    simp [writePrim, zeroPrim, u64le, u32le, byteOf] at h

/-- **TL1 → TL2 → TL1 under the guard.** A value decoded from TL1 bytes that satisfies `Good` (in particular: no float
`-0.0` in an empty-test position) is written in TL2, read back as *the same value* (so its JSON and every TL1 encoding of
it are unchanged) and nothing is left over. -/
theorem tl1_tl2_tl1_partial (cfg : Cfg) (d : Desc) (fuel ty : Nat) (bare c : Bool) (params : List Nat)
    (bs rest w2 : Bytes) (v : Val)
    (_hr : readTL1 cfg d fuel ty bare params bs = .ok (v, rest))
    (hg : Good d fuel ty false v) (hw : writeTL2 d fuel ty false v = .ok w2) :
    readTL2 d fuel ty c w2 = .ok (v, []) ∧
      ∀ v', readTL2 d fuel ty c w2 = .ok (v', []) → writeTL1 d fuel ty bare params v' = writeTL1 d fuel ty bare params v := by
  have h := (Props.C03.tl2_roundtrip d fuel ty c v w2 [] hg hw).2
  rw [List.append_nil] at h
  refine ⟨h, fun v' hv' => ?_⟩
  rw [h] at hv'
  cases hv'
  rfl

/-! ### the counter-example -/

/-- `s key:double = S;` (instance 0 = `double`, instance 1 = the struct, tag 1) -/
def dblDesc : Desc :=
  { insts := #[.prim .f64,
      .struct { tag := 1, nparams := 0, hasTL2 := true,
                fields := [{ name := "key", ty := 0, bare := true, mask := none, tl2bit := none, isBit := false, natArgs := [] }] }] }

/-- the full-strength statement: TL1 bytes → value → TL2 bytes → value → the same TL1 bytes -/
def ConversionPreserves : Prop :=
  ∀ (d : Desc) (fuel ty : Nat) (bs w2 w1 : Bytes) (v v' : Val),
    readTL1 {} d fuel ty true [] bs = .ok (v, []) → writeTL2 d fuel ty false v = .ok w2 →
    readTL2 d fuel ty false w2 = .ok (v', []) → writeTL1 d fuel ty true [] v' = .ok w1 → w1 = bs

/-- Witness (tied by the fixed line of `checks/C04.py`): the TL1 bytes of `-0.0` come back as the bytes of `+0.0`. -/
theorem tl1_tl2_tl1_fails_at :
    readTL1 {} dblDesc 3 1 true [] [0, 0, 0, 0, 0, 0, 0, 0x80] = .ok (.struct [some (.nat 0x8000000000000000)], []) ∧
    writeTL2 dblDesc 3 1 false (.struct [some (.nat 0x8000000000000000)]) = .ok [0] ∧
    readTL2 dblDesc 3 1 false [0] = .ok (.struct [some (.nat 0)], []) ∧
    writeTL1 dblDesc 3 1 true [] (.struct [some (.nat 0)]) = .ok [0, 0, 0, 0, 0, 0, 0, 0] := by
  refine ⟨rfl, rfl, ?_, rfl⟩
  simp [readTL2, readStructObj, dblDesc, Desc.get?, sliceBody, parseSize, tl2ParseSize, liftP, zeroFieldsWith, zeroVal,
    fieldOptional, zeroPrim, mediumMarker_eq]

theorem conversion_fails : ¬ ConversionPreserves := by
  intro h
  obtain ⟨h1, h2, h3, h4⟩ := tl1_tl2_tl1_fails_at
  have := h dblDesc 3 1 _ _ _ _ _ h1 h2 h3 h4
  exact absurd this (by decide)

/-- the guard is satisfiable by a non-trivial value: `key = 1.0` -/
example : goodPrim .f64 true (.nat 0x3FF0000000000000) = true := rfl

end TLVerif.Props.C04
