import TLVerif.Rpccalls.ClientConnLemmas
import TLVerif.Rpccalls.ClientConnShutdown
import TLVerif.Generated.RpccallsFacts
/-!
# C38 — RPC calls receive exactly their own responses

Property theorems about the model of the `clientConn` call bookkeeping (`TLVerif/Rpccalls/ClientConn.lean`;
helper lemmas in `ClientConnLemmas.lean`).  A history is a list of critical sections (`Op`) in the order in
which they took `pc.mu`; `Reach ops σ evs` says that the history `ops` runs without panic from the initial
connection to the state `σ` and produces the observable events `evs` — so "for all `ops`" is "for every
interleaving of the concurrent callers, the send loop, the receive loop and the connect loop".

What is *not* here: the atomicity of the sections (that is the mutex; data-race freedom is explored by the
`-race` end-to-end runs of the check, not proved), the TCP/crypto transport (C35) and the server side.
-/
namespace TLVerif.Props.C38
open TLVerif.Rpccalls TLVerif.Facts.Rpccalls

/-- `Reach` is precisely "the executable model `run` succeeds" (the function the `tlmodel` driver iterates). -/
theorem reach_iff_run {ops σ evs} : Reach ops σ evs ↔ run Conn.init ops = .ok (σ, evs) :=
  Rpccalls.reach_iff_run

/-- **finish_delivers_own** (one step).  In any reachable state, if a step delivers a *response packet*
(`rpcReqResultHeader`/`rpcReqResultError` whose header carries query id `hq`) to the call context `o`,
then `hq` is that call context's own query id `q`, the step is the processing of exactly that packet
(so the delivered payload / error code is the packet's), and `o` was registered with id `q`. -/
theorem finish_delivers_own {ops σ evs op σ' e o cb q hq p} (hr : Reach ops σ evs) (hs : step σ op = .ok (σ', e)) :
    (Ev.deliver o cb q (.resp hq p) ∈ e → hq = q ∧ op = .resp q p ∧ ∃ f dl, Op.setup o q f dl cb ∈ ops) ∧
    (Ev.deliver o cb q (.rpcErr hq p) ∈ e → hq = q ∧ op = .rerr q p ∧ ∃ f dl, Op.setup o q f dl cb ∈ ops) := by
  have inv := reach_inv hr
  obtain ⟨h1, -, -⟩ := step_events hs
  constructor
  · intro hm
    obtain ⟨k, c, hkc, rfl, rfl, rfl, hw⟩ := h1 _ _ _ _ hm
    have hk := inv.key k c hkc
    have hh := inv.hist k c hkc
    rcases hw with ⟨p', hr', hop, -⟩ | ⟨p', hr', -⟩ | ⟨hr', -⟩
    · simp only [Res.resp.injEq] at hr'
      obtain ⟨rfl, rfl⟩ := hr'
      exact ⟨hk.symm, by rw [hk]; exact hop, _, _, hh⟩
    · simp at hr'
    · rcases hr' with ⟨h, -⟩ | ⟨h, -⟩ | ⟨h, -⟩ <;> simp at h
  · intro hm
    obtain ⟨k, c, hkc, rfl, rfl, rfl, hw⟩ := h1 _ _ _ _ hm
    have hk := inv.key k c hkc
    have hh := inv.hist k c hkc
    rcases hw with ⟨p', hr', -⟩ | ⟨p', hr', hop, -⟩ | ⟨hr', -⟩
    · simp at hr'
    · simp only [Res.rpcErr.injEq] at hr'
      obtain ⟨rfl, rfl⟩ := hr'
      exact ⟨hk.symm, by rw [hk]; exact hop, _, _, hh⟩
    · rcases hr' with ⟨h, -⟩ | ⟨h, -⟩ | ⟨h, -⟩ <;> simp at h

/-- **own response, over whole histories.**  Whatever is ever delivered to a call context `o` whose own
query id is `q`: (a) `o` was registered with `q` by a `setupCallLocked` of the history; (b) if it is a response
or an RPC error read from the wire, the packet carried `q` and was a packet of the history; (c) otherwise it is
one of the three connection errors, produced by the tear-down of the connection (`disc`/`gc` step). -/
theorem response_goes_to_its_query {ops σ evs o cb q r} (hr : Reach ops σ evs) (hm : Ev.deliver o cb q r ∈ evs) :
    (∃ f dl, Op.setup o q f dl cb ∈ ops) ∧
    (∀ hq p, r = .resp hq p → hq = q ∧ Op.resp q p ∈ ops) ∧
    (∀ hq code, r = .rpcErr hq code → hq = q ∧ Op.rerr q code ∈ ops) ∧
    ((∀ hq p, r ≠ .resp hq p) → (∀ hq p, r ≠ .rpcErr hq p) →
      (r = .sideEffect ∨ r = .noSideEffect ∨ r = .deadline) ∧ ((∃ g, Op.disc g ∈ ops) ∨ Op.gc ∈ ops)) := by
  induction hr with
  | init => simp at hm
  | @snoc ops σ evs op σ' e hr hs ih =>
    simp only [List.mem_append] at hm
    rcases hm with hm | hm
    · obtain ⟨a, b, c, d⟩ := ih hm
      refine ⟨?_, ?_, ?_, ?_⟩
      · obtain ⟨f, dl, h⟩ := a; exact ⟨f, dl, List.mem_append_left _ h⟩
      · intro hq p hr'; obtain ⟨h1, h2⟩ := b hq p hr'; exact ⟨h1, List.mem_append_left _ h2⟩
      · intro hq p hr'; obtain ⟨h1, h2⟩ := c hq p hr'; exact ⟨h1, List.mem_append_left _ h2⟩
      · intro n1 n2
        obtain ⟨h1, h2⟩ := d n1 n2
        refine ⟨h1, ?_⟩
        rcases h2 with ⟨g, h2⟩ | h2
        · exact Or.inl ⟨g, List.mem_append_left _ h2⟩
        · exact Or.inr (List.mem_append_left _ h2)
    · have inv := reach_inv hr
      obtain ⟨h1, -, -⟩ := step_events hs
      obtain ⟨k, c, hkc, rfl, rfl, rfl, hw⟩ := h1 _ _ _ _ hm
      have hk := inv.key k c hkc
      have hh := inv.hist k c hkc
      refine ⟨⟨_, _, List.mem_append_left _ hh⟩, ?_, ?_, ?_⟩
      · intro hq p hr'
        rcases hw with ⟨p', hr'', hop, -⟩ | ⟨p', hr'', -⟩ | ⟨hr'', -⟩
        · rw [hr'] at hr''
          simp only [Res.resp.injEq] at hr''
          obtain ⟨rfl, rfl⟩ := hr''
          exact ⟨hk.symm, by rw [hk, hop]; simp⟩
        · rw [hr'] at hr''; simp at hr''
        · rw [hr'] at hr''; rcases hr'' with ⟨h, -⟩ | ⟨h, -⟩ | ⟨h, -⟩ <;> simp at h
      · intro hq p hr'
        rcases hw with ⟨p', hr'', -⟩ | ⟨p', hr'', hop, -⟩ | ⟨hr'', -⟩
        · rw [hr'] at hr''; simp at hr''
        · rw [hr'] at hr''
          simp only [Res.rpcErr.injEq] at hr''
          obtain ⟨rfl, rfl⟩ := hr''
          exact ⟨hk.symm, by rw [hk, hop]; simp⟩
        · rw [hr'] at hr''; rcases hr'' with ⟨h, -⟩ | ⟨h, -⟩ | ⟨h, -⟩ <;> simp at h
      · intro n1 n2
        rcases hw with ⟨p', hr'', -⟩ | ⟨p', hr'', -⟩ | ⟨hr'', hop⟩
        · exact absurd hr'' (n1 _ _)
        · exact absurd hr'' (n2 _ _)
        · refine ⟨?_, ?_⟩
          · rcases hr'' with ⟨h, -⟩ | ⟨h, -⟩ | ⟨h, -⟩ <;> simp [h]
          · rcases hop with ⟨g, rfl⟩ | ⟨rfl, -⟩
            · exact Or.inl ⟨g, by simp⟩
            · exact Or.inr (by simp)

/-- a call's own cancellation: `cancelCall` hands back only the call context registered under the cancelled id -/
theorem cancel_returns_own {ops σ evs o q u} (hr : Reach ops σ evs) (hm : Ev.cancelled o q u ∈ evs) :
    Op.cancel q ∈ ops ∧ ∃ f dl cb, Op.setup o q f dl cb ∈ ops := by
  induction hr with
  | init => simp at hm
  | @snoc ops σ evs op σ' e hr hs ih =>
    simp only [List.mem_append] at hm
    rcases hm with hm | hm
    · obtain ⟨a, f, dl, cb, b⟩ := ih hm
      exact ⟨List.mem_append_left _ a, f, dl, cb, List.mem_append_left _ b⟩
    · have inv := reach_inv hr
      obtain ⟨-, h2, -⟩ := step_events hs
      obtain ⟨k, c, rfl, hl, rfl, rfl, rfl⟩ := h2 _ _ _ hm
      have hkc := lookup_mem hl
      have hk := inv.key k c hkc
      exact ⟨by rw [hk]; simp, _, _, _, List.mem_append_left _ (inv.hist k c hkc)⟩

/-- completions (result delivered, or call context handed back by cancel) of a call context never exceed the
number of times it was registered — for every history, with no assumption at all -/
theorem completions_le_setups {ops σ evs} (hr : Reach ops σ evs) (o : Nat) : nCompl o evs ≤ nSetup o ops := by
  have := (reach_inv hr).count o
  omega

/-- every caller uses its own call context: no context is registered twice -/
def OwnersDistinct (ops : List Op) : Prop := ∀ o, nSetup o ops ≤ 1

/-- **at_most_once.**  If every call uses its own call context, each call completes at most once: its result
channel receives at most one result (so the buffered channel of capacity 1 never blocks the connection under
the lock), and a call that got its context back from cancel never also gets a result. -/
theorem at_most_once {ops σ evs} (hr : Reach ops σ evs) (hd : OwnersDistinct ops) (o : Nat) : nCompl o evs ≤ 1 :=
  Nat.le_trans (completions_le_setups hr o) (hd o)

/-- a completed call is no longer registered (with distinct owners): nothing can be delivered to it later -/
theorem completed_is_unregistered {ops σ evs} (hr : Reach ops σ evs) (hd : OwnersDistinct ops) (o : Nat)
    (hc : 1 ≤ nCompl o evs) : nOwner o σ.calls = 0 := by
  have := (reach_inv hr).count o
  have := hd o
  omega

/-- **inFlight_eq_sentCount.**  Along histories that respect the protocol guard (`Op.wb`: fresh query ids;
responses only for requests that were written to the connection) `inFlight` equals the number of registered
calls whose request was handed to the send loop. -/
theorem inFlight_eq_sentCount {ops σ evs} (h : GReach ops σ evs) : σ.inFlight = sentCount σ.calls :=
  (greach_ginv h).inFlight

/-- … hence the `pc.inFlight < 0` panic is unreachable (three sites: cancelCallImpl, finishCall,
massCancelRequestsLocked) … -/
theorem inFlight_panic_unreachable {ops σ evs op} (h : GReach ops σ evs) (hwb : op.wb σ = true) :
    step σ op ≠ .error .inFlightNeg := by
  obtain ⟨r, hr⟩ := gstep_no_panic (greach_ginv h) hwb
  rw [hr]; simp

/-- … and so are "double sent" and "wrong request in queue": no critical section panics at all. -/
theorem no_panic {ops σ evs op} (h : GReach ops σ evs) (hwb : op.wb σ = true) : ∃ σ' e, step σ op = .ok (σ', e) := by
  obtain ⟨⟨σ', e⟩, hr⟩ := gstep_no_panic (greach_ginv h) hwb
  exact ⟨σ', e, hr⟩

/-- The same three facts with the guard stated on the history alone (`Op.twb`, no model state): every call is set
up with a query id never used before on this connection, and a response / RPC error for `q` arrives only after
the request `q` was written to the connection (or for an id the client never used). -/
theorem inFlight_eq_sentCount_trace {ops σ evs} (h : TReach ops σ evs) : σ.inFlight = sentCount σ.calls :=
  inFlight_eq_sentCount h.greach

theorem no_panic_trace {ops σ evs} {op : Op} (h : TReach ops σ evs) (hwb : op.twb ops evs) :
    ∃ σ' e, step σ op = .ok (σ', e) :=
  no_panic h.greach (twb_wb (treach_inv h) hwb)

/-- under that guard a request that is still registered as unsent has never been written to the connection,
and everything written belongs to a call that was set up (so a well-behaved peer has nothing else to answer) -/
theorem unsent_never_written {ops σ evs k c} (h : TReach ops σ evs) (hm : (k, c) ∈ σ.calls) (hu : c.unsent = true) :
    Ev.pkt (.req k) ∉ evs := (treach_inv h).unsentNotWritten k c hm hu

theorem written_was_set_up {ops σ evs q} (h : TReach ops σ evs) (hm : Ev.pkt (.req q) ∈ evs) : q ∈ setupQids ops :=
  (treach_inv h).writtenSetup q hm

/-- **a request is written at most once** (so a well-behaved server produces at most one response per call):
under the history-level guard, `rpcInvokeReqHeader{q}` goes to the connection at most once in the whole history -/
theorem request_written_at_most_once {ops σ evs} (h : TReach ops σ evs) (q : Nat) :
    evs.count (Ev.pkt (.req q)) ≤ 1 := treach_written_once h q

/-- graceful shutdown (`rpcServerWantsFin` received): when the last in-flight call of a shut-down connection
finishes or is cancelled, that very critical section takes the connection out to close it -/
theorem shutdown_closes_when_drained {σ σ' e} {op : Op} (hs : step σ op = .ok (σ', e))
    (hop : (∃ q, op = .cancel q) ∨ (∃ q p, op = .resp q p) ∨ (∃ q p, op = .rerr q p))
    (hc : σ.hasConn = true) (hsd : σ.isShutdown = true) (hn : σ'.inFlight = 0) (hchg : σ'.inFlight ≠ σ.inFlight) :
    Ev.closeConn ∈ e ∧ σ'.hasConn = false := by
  have fin : ∀ q r, finishStep σ q r = .ok (σ', e) → Ev.closeConn ∈ e ∧ σ'.hasConn = false := by
    intro q r h
    unfold finishStep at h
    split at h
    · simp only [Except.ok.injEq, Prod.mk.injEq] at h; obtain ⟨rfl, -⟩ := h; exact absurd rfl hchg
    · dsimp only at h
      split at h
      · simp at h
      · split at h
        · simp only [Except.ok.injEq, Prod.mk.injEq] at h; obtain ⟨rfl, rfl⟩ := h; simp
        · rename_i hcond
          simp only [Except.ok.injEq, Prod.mk.injEq] at h; obtain ⟨rfl, rfl⟩ := h
          simp only at hn
          simp [hc, hsd, hn] at hcond
  rcases hop with ⟨q, rfl⟩ | ⟨q, p, rfl⟩ | ⟨q, p, rfl⟩
  · simp only [step] at hs
    unfold cancelStep at hs
    split at hs
    · simp only [Except.ok.injEq, Prod.mk.injEq] at hs; obtain ⟨rfl, -⟩ := hs; exact absurd rfl hchg
    · dsimp only at hs
      split at hs
      · simp only [Except.ok.injEq, Prod.mk.injEq] at hs; obtain ⟨rfl, -⟩ := hs; exact absurd rfl hchg
      · split at hs
        · simp at hs
        · split at hs
          · rename_i hcond; simp [hc] at hcond
          · split at hs
            · simp only [Except.ok.injEq, Prod.mk.injEq] at hs; obtain ⟨rfl, rfl⟩ := hs; simp
            · rename_i hcond
              split at hs <;>
              · simp only [Except.ok.injEq, Prod.mk.injEq] at hs; obtain ⟨rfl, rfl⟩ := hs
                simp only at hn
                simp [hsd, hn] at hcond
  · exact fin q _ (by simpa [step] using hs)
  · exact fin q _ (by simpa [step] using hs)

/-- **graceful shutdown never strands a connection.**  In every history in which the connect loop behaves as
`goConnect` does (`Op.cwb`: `setClientConn` only after the previous connection's `continueRunningImpl`), a
connection that is in graceful shutdown (`rpcServerWantsFin` processed) and still open has something in flight.
Equivalently: the critical section that takes `inFlight` to 0 — `finishCall` for a response or an RPC error,
`cancelCallImpl` for an explicit cancel **or for a local deadline** — takes the connection out to close it
(`shutdown_closes_when_drained` is the one-step form).  Otherwise nothing would ever close it: requests queued
after the FIN are not sent while `isShutdown`, and the server's `CloseWait` waits for this close. -/
theorem shutdown_drained_is_closed {ops σ evs} (h : CReach ops σ evs) (hc : σ.hasConn = true)
    (hs : σ.isShutdown = true) : σ.inFlight ≠ 0 := creach_shutInv h hc hs

/-- … and with the protocol guard as well, what keeps such a connection open is a registered call whose request
was handed to the send loop (so it ends by response, error, cancel or its deadline — and then closes it) -/
theorem shutdown_open_has_sent_call {ops σ evs} (h : CReach ops σ evs) (hg : GReach ops σ evs)
    (hc : σ.hasConn = true) (hs : σ.isShutdown = true) : ∃ k c, (k, c) ∈ σ.calls ∧ c.unsent = false := by
  have h0 := shutdown_drained_is_closed h hc hs
  have h1 := inFlight_eq_sentCount hg
  have hpos : 0 < sentCount σ.calls := by omega
  simp only [sentCount, List.countP_pos_iff] at hpos
  obtain ⟨⟨k, c⟩, hm, hu⟩ := hpos
  exact ⟨k, c, hm, by simpa using hu⟩

/-- what `goConnect` does once the connection is gone: `continueRunningImpl`, `setClientConn`, `sendLoop` -/
def reconnectOps (good : Bool) : List Op := [.disc good, .connect, .send]

/-- **queued calls are sent after the reconnect.**  From every state reached under the protocol guard, with the
client open, one turn of the connect loop does not panic and leaves no registered call behind: each one either
completes in that turn (sent ones with "closed after request sent", fail-fast and expired ones with their
error) or its request is written to the new connection — in particular every call that was queued while the
old connection was in graceful shutdown. -/
theorem reconnect_sends_queued {ops σ evs} (h : GReach ops σ evs) (ho : σ.isOpen = true) (good : Bool) :
    ∃ σ' e, run σ (reconnectOps good) = .ok (σ', e) ∧
      ∀ k c, (k, c) ∈ σ.calls → (∃ r, Ev.deliver c.owner c.cb c.qid r ∈ e) ∨ Ev.pkt (.req k) ∈ e := by
  obtain ⟨σ1, e1, h1⟩ := no_panic (op := .disc good) h rfl
  have g1 : GReach (ops ++ [.disc good]) σ1 (evs ++ e1) := .snoc h rfl h1
  obtain ⟨σ2, e2, h2⟩ := no_panic (op := .connect) g1 rfl
  have g2 : GReach (ops ++ [.disc good] ++ [.connect]) σ2 (evs ++ e1 ++ e2) := .snoc g1 rfl h2
  obtain ⟨σ3, e3, h3⟩ := no_panic (op := .send) g2 rfl
  refine ⟨σ3, e1 ++ (e2 ++ e3), by simp [reconnectOps, run, h1, h2, h3], ?_⟩
  -- the tear-down
  have inv1 := reach_inv g1.reach
  have ginv1 := greach_ginv g1
  simp only [step] at h1
  cases hm : massCancel σ with
  | error p => simp [hm] at h1
  | ok r =>
    obtain ⟨σm, em⟩ := r
    simp only [hm, Except.ok.injEq, Prod.mk.injEq] at h1
    obtain ⟨hσ1, he1⟩ := h1
    obtain ⟨kept, n, hl, hcalls, -, hwq, hopen, -, -⟩ := massCancel_spec hm
    have hshut := massCancel_flags hm
    obtain ⟨-, -, m3, -⟩ := massLoop_spec hl
    have c1 : σ1.calls = kept := by rw [← hσ1]; split <;> simp [hcalls]
    have w1 : σ1.writeQ = requeue kept := by rw [← hσ1]; split <;> simp [hwq]
    have o1 : σ1.isOpen = true := by rw [← hσ1]; split <;> simp [hopen, ho]
    have s1 : σ1.isShutdown = false := by rw [← hσ1]; split <;> simp [hshut]
    -- the new connection
    simp only [step, o1, Bool.not_true, Bool.false_eq_true, if_false, Except.ok.injEq, Prod.mk.injEq] at h2
    obtain ⟨hσ2, -⟩ := h2
    have c2 : σ2.calls = kept := by rw [← hσ2]; exact c1
    have w2 : σ2.writeQ = requeue kept := by rw [← hσ2]; exact w1
    have s2 : σ2.isShutdown = false := by rw [← hσ2]; exact s1
    have hc2 : σ2.hasConn = true := by rw [← hσ2]
    have ginv2 := greach_ginv g2
    intro k c hkc
    rcases m3 k c hkc with hk | hd
    · -- re-queued: written by the send loop
      right
      have hreq : WQ.req c.owner c.qid ∈ σ2.writeQ := by rw [w2]; exact mem_requeue_of_mem hk
      have hkey : c.qid = k := inv1.key k c (by rw [c1]; exact hk)
      have hlook : lookup k σ2.calls = some c := by
        rw [c2]; exact lookup_of_mem_nodup (by rw [← c1]; exact inv1.nodup) hk
      simp only [step] at h3
      rcases sendStep_spec h3 with ⟨-, hw3, -, -, he3⟩ | ⟨out, -, -, hmv, -, -, he3⟩
      · -- the send loop had something to do, so this branch is impossible
        exfalso
        unfold sendStep at h3
        have hne : σ2.writeQ.isEmpty = false := by
          cases hq : σ2.writeQ with
          | nil => rw [hq] at hreq; simp at hreq
          | cons a t => rfl
        simp only [hc2, Bool.not_true, Bool.false_eq_true, if_false, s2, Bool.not_false, Bool.true_and, hne,
          Bool.or_true] at h3
        cases hmv : moveReqs σ2.writeQ σ2.calls σ2.inFlight with
        | error p => simp [hmv] at h3
        | ok r =>
          obtain ⟨a, b, d⟩ := r
          simp only [hmv, Except.ok.injEq, Prod.mk.injEq] at h3
          obtain ⟨hσ3, -⟩ := h3
          rw [← hσ3] at hw3
          simp only at hw3
          rw [← hw3] at hreq
          simp at hreq
      · have hout := moveReqs_all_out ginv2.wq ginv2.wqNodup hmv c.owner c.qid hreq (by rw [hkey]; exact ⟨c, hlook⟩)
        rw [hkey] at hout
        have : Ev.pkt (.req k) ∈ e3 := by
          rcases he3 with rfl | rfl
          · simp only [List.mem_map]; exact ⟨_, hout, rfl⟩
          · simp only [List.mem_append, List.mem_map]; exact Or.inl ⟨_, hout, rfl⟩
        simp [this]
    · left
      exact ⟨massRes σ.isOpen c, List.mem_append_left _ (by rw [← he1]; exact List.mem_append_left _ hd)⟩

/-- the history of the seeded defect `C38-shutdown-last-call-times-out`, on the model: the server sends its FIN
while call 5 is in flight, call 5 ends by its own (passed) local deadline — that section closes the connection —
call 6 is queued meanwhile (and by `reconnect_sends_queued` is written to the next connection) -/
example : (match run Conn.init [.connect, .setup 1 5 false .past false, .send, .sfin, .setup 2 6 false .none false,
      .cancel 5] with
    | .ok (σ, evs) => decide (Ev.closeConn ∈ evs) && decide (Ev.cancelled 1 5 false ∈ evs) && !σ.hasConn &&
        (lookup 6 σ.calls).isSome && decide (Ev.pkt (.req 6) ∉ evs)
    | .error _ => false) = true := by decide

/-- The guard is needed, i.e. the unguarded statement is false *for the code as it is*: a response that
arrives for a registered call whose request was not yet handed to the send loop is accounted by `finishCall`
as if it had been sent (the `cctx.req != nil` case is commented out in the source), `inFlight` becomes −1 and
the client panics.  (Query ids are sequential per client, so a peer can predict them.) -/
theorem early_response_panics :
    run Conn.init [.setup 1 5 false .none false, .resp 5 1] = .error .inFlightNeg := by rfl

/-- Full-strength statement without the response guard, and its refutation. -/
def NoPanicUnguarded : Prop := ∀ ops σ evs op, Reach ops σ evs → ∃ r, step σ op = .ok r

theorem no_panic_unguarded_fails : ¬ NoPanicUnguarded := by
  intro h
  have hr : Reach [.setup 1 5 false .none false] _ _ := Rpccalls.reach_iff_run.mpr rfl
  obtain ⟨r, hr⟩ := h _ _ _ (.resp 5 1) hr
  cases hr

/-- reusing a query id while an old request with that id is still queued trips "wrong request in queue" -/
theorem qid_reuse_panics :
    run Conn.init [.setup 1 1 false .none false, .cancel 1, .setup 2 1 false .none false, .connect, .send]
      = .error .wrongRequest := by rfl

/-- closing the client side: `close()` followed by the connect loop's `massCancelRequestsLocked` -/
def closeOps : List Op := [.close, .gc]

/-- **close_completes_all.**  From every state reached under the protocol guard, closing the client completes
*every* registered call — sent ones with "closed after request sent", unsent ones with "closed before request
sent" — leaves no call registered, and does not panic. -/
theorem close_completes_all {ops σ evs} (h : GReach ops σ evs) :
    ∃ σ' e, run σ closeOps = .ok (σ', e) ∧ σ'.calls = [] ∧ σ'.isOpen = false ∧
      ∀ k c, (k, c) ∈ σ.calls →
        Ev.deliver c.owner c.cb c.qid (if c.unsent then .noSideEffect else .sideEffect) ∈ e := by
  obtain ⟨σ1, e1, h1⟩ := no_panic (op := .close) h rfl
  have g1 : GReach (ops ++ [.close]) σ1 (evs ++ e1) := .snoc h rfl h1
  obtain ⟨σ2, e2, h2⟩ := no_panic (op := .gc) g1 rfl
  have hc1 : σ1.calls = σ.calls ∧ σ1.isOpen = false := by
    simp only [step] at h1
    obtain ⟨a, -, -, b, -⟩ := dropStep_spec h1
    exact ⟨a, b⟩
  refine ⟨σ2, e1 ++ e2, ?_, ?_⟩
  · simp [closeOps, run, h1, h2]
  · simp only [step, hc1.2, Bool.not_false, if_true] at h2
    obtain ⟨kept, n, hl, hc, -, -, ho, -⟩ := massCancel_spec h2
    obtain ⟨m1, -, m3, -⟩ := massLoop_spec hl
    have hk : kept = [] := by
      cases kept with
      | nil => rfl
      | cons x t => have := (m1 x (by simp)).2.2.2.1; rw [hc1.2] at this; simp at this
    refine ⟨by rw [hc, hk], by rw [ho, hc1.2], ?_⟩
    intro k c hkc
    rw [← hc1.1] at hkc
    rcases m3 k c hkc with h | h
    · rw [hk] at h; simp at h
    · have : massRes σ1.isOpen c = if c.unsent then .noSideEffect else .sideEffect := by
        simp only [massRes, hc1.2]; cases c.unsent <;> simp
      rw [this] at h
      exact List.mem_append_right _ h

/-- **the other side closes** (connection torn down by the peer or by an error): `continueRunningImpl`
completes every call whose request was handed to the send loop with "closed after request sent"; what stays
registered is unsent (it is re-queued for the next connection, or completes by its own deadline/cancel),
and `inFlight` is back to what the remaining calls account for. -/
theorem disconnect_completes_sent {ops σ evs g σ' e} (hr : Reach ops σ evs) (hs : step σ (.disc g) = .ok (σ', e)) :
    (∀ k c, (k, c) ∈ σ.calls → c.unsent = false → Ev.deliver c.owner c.cb c.qid .sideEffect ∈ e) ∧
    (∀ k c, (k, c) ∈ σ.calls → c.unsent = true → (c.failNoConn = true ∨ σ.isOpen = false) →
        Ev.deliver c.owner c.cb c.qid .noSideEffect ∈ e) ∧
    (∀ k c, (k, c) ∈ σ'.calls → c.unsent = true ∧ (k, c) ∈ σ.calls) := by
  have _ := hr
  simp only [step] at hs
  cases hm : massCancel σ with
  | error p => simp [hm] at hs
  | ok r =>
    obtain ⟨σ1, evs1⟩ := r
    simp only [hm, Except.ok.injEq, Prod.mk.injEq] at hs
    obtain ⟨rfl, rfl⟩ := hs
    obtain ⟨kept, n, hl, hc, -⟩ := massCancel_spec hm
    obtain ⟨m1, -, m3, -⟩ := massLoop_spec hl
    have hcalls : (if g = true then σ1 else { σ1 with waiting := true }).calls = kept := by
      split <;> simp [hc]
    refine ⟨?_, ?_, ?_⟩
    · intro k c hkc hu
      rcases m3 k c hkc with h | h
      · have := (m1 _ h).2.1; simp [hu] at this
      · simp only [massRes, hu, Bool.not_false, if_true] at h
        exact List.mem_append_left _ h
    · intro k c hkc hu hf
      rcases m3 k c hkc with h | h
      · obtain ⟨-, -, h3, h4, -⟩ := m1 _ h
        rcases hf with hf | hf
        · simp [hf] at h3
        · simp [hf] at h4
      · have : massRes σ.isOpen c = .noSideEffect := by
          simp only [massRes, hu, Bool.not_true, Bool.false_eq_true, if_false]
          rcases hf with hf | hf <;> simp [hf]
        rw [this] at h
        exact List.mem_append_left _ h
    · intro k c hkc
      rw [hcalls] at hkc
      exact ⟨(m1 _ hkc).2.1, (m1 _ hkc).1⟩

/-- a closed client connection accepts no new call, and stays closed -/
theorem closed_rejects_setup {σ : Conn} (hc : σ.isOpen = false) (o q : Nat) (f : Bool) (dl : Deadline) (cb : Bool) :
    step σ (.setup o q f dl cb) = .ok (σ, [.ret 1]) := by
  simp [step, setupStep, hc]

/-- requests are written to the connection only for registered calls that wait in the queue, by the send loop -/
theorem request_written_only_when_pending {ops σ evs op σ' e q} (_hr : Reach ops σ evs) (hs : step σ op = .ok (σ', e))
    (hm : Ev.pkt (.req q) ∈ e) : op = .send ∧ q ∈ reqQids σ.writeQ ∧ ∃ c, lookup q σ.calls = some c := by
  obtain ⟨-, -, h3⟩ := step_events hs
  obtain ⟨a, b, c⟩ := h3 q hm
  exact ⟨a, b, lookup_isSome_of_mem_keys c⟩

/-- T1: the panics of `client_conn.go` are exactly the five sites the model has (`Panic`), and the only
iteration over a map (whose order the model determinises) is the one in `massCancelRequestsLocked`. -/
theorem panic_sites_modelled :
    clientConnPanicSites = ["client_conn.go:clientConn.cancelCallImpl:1", "client_conn.go:clientConn.finishCall:1",
      "client_conn.go:clientConn.massCancelRequestsLocked:1", "client_conn.go:clientConn.moveRequestsToSendLocked:2"] ∧
    clientConnMapRanges = ["client_conn.go:clientConn.massCancelRequestsLocked:1"] := by
  constructor <;> rfl

/-! ### the hypotheses are satisfiable by non-trivial histories -/

/-- guarded execution (decidable) -/
def grun (σ : Conn) : List Op → Option (Conn × List Ev)
  | [] => some (σ, [])
  | op :: ops =>
    if op.wb σ then
      match step σ op with
      | .error _ => none
      | .ok (σ1, e1) => (grun σ1 ops).map (fun r => (r.1, e1 ++ r.2))
    else none

theorem greach_of_grun_aux {ops1 σ1 e1} (h1 : GReach ops1 σ1 e1) :
    ∀ {ops σ evs}, grun σ1 ops = some (σ, evs) → GReach (ops1 ++ ops) σ (e1 ++ evs) := by
  intro ops
  induction ops generalizing ops1 σ1 e1 with
  | nil => intro σ evs h; simp only [grun, Option.some.injEq, Prod.mk.injEq] at h; obtain ⟨rfl, rfl⟩ := h; simpa using h1
  | cons op t ih =>
    intro σ evs h
    simp only [grun] at h
    split at h
    · rename_i hwb
      split at h
      · simp at h
      · rename_i σa ea hs
        cases hr : grun σa t with
        | none => simp [hr] at h
        | some r =>
          simp only [hr, Option.map_some, Option.some.injEq, Prod.mk.injEq] at h
          obtain ⟨rfl, rfl⟩ := h
          have := ih (.snoc h1 hwb hs) (σ := r.1) (evs := r.2) (by rw [hr])
          simpa using this
    · simp at h

theorem greach_of_grun {ops σ evs} (h : grun Conn.init ops = some (σ, evs)) : GReach ops σ evs := by
  simpa using greach_of_grun_aux .init h

/-- decidable form of `Op.twb` -/
def twbB (ops : List Op) (evs : List Ev) : Op → Bool
  | .setup _ q _ _ _ => !(setupQids ops).contains q
  | .resp q _ => evs.contains (.pkt (.req q)) || !(setupQids ops).contains q
  | .rerr q _ => evs.contains (.pkt (.req q)) || !(setupQids ops).contains q
  | _ => true

theorem twb_of_twbB {ops evs} {op : Op} (h : twbB ops evs op = true) : op.twb ops evs := by
  cases op <;> simp_all [Op.twb, twbB]

/-- history-level guarded execution (decidable) -/
def trun (ops : List Op) (σ : Conn) (evs : List Ev) : List Op → Option (Conn × List Ev)
  | [] => some (σ, evs)
  | op :: rest =>
    if twbB ops evs op then
      match step σ op with
      | .error _ => none
      | .ok (σ1, e1) => trun (ops ++ [op]) σ1 (evs ++ e1) rest
    else none

theorem treach_of_trun {ops0 σ0 e0} (h0 : TReach ops0 σ0 e0) :
    ∀ {rest σ evs}, trun ops0 σ0 e0 rest = some (σ, evs) → TReach (ops0 ++ rest) σ evs := by
  intro rest
  induction rest generalizing ops0 σ0 e0 with
  | nil => intro σ evs h; simp only [trun, Option.some.injEq, Prod.mk.injEq] at h; obtain ⟨rfl, rfl⟩ := h; simpa using h0
  | cons op t ih =>
    intro σ evs h
    simp only [trun] at h
    by_cases hok : twbB ops0 e0 op = true
    · simp only [hok, if_true] at h
      cases hs : step σ0 op with
      | error p => simp [hs] at h
      | ok r =>
        obtain ⟨σa, ea⟩ := r
        simp only [hs] at h
        have := ih (.snoc h0 (twb_of_twbB hok) hs) h
        simpa using this
    · simp [hok] at h

/-- three concurrent calls, one answered, one cancelled after being sent, one failed by the disconnect -/
def demoOps : List Op :=
  [.connect, .setup 1 5 false .none false, .setup 2 6 false .future true, .setup 3 7 true .none false, .send,
   .resp 6 66, .cancel 5, .send, .sfin, .disc true]

def demoVal : Conn × List Ev := (grun Conn.init demoOps).get (by rfl)

theorem demo_eq : grun Conn.init demoOps = some demoVal := (Option.some_get _).symm

/-- the same history satisfies the history-level guard -/
def demoValT : Conn × List Ev := (trun [] Conn.init [] demoOps).get (by rfl)

example : ∃ σ evs, TReach demoOps σ evs := by
  have h : trun [] Conn.init [] demoOps = some demoValT := (Option.some_get _).symm
  exact ⟨demoValT.1, demoValT.2, treach_of_trun (ops0 := []) .init h⟩

example : ∃ σ evs, GReach demoOps σ evs ∧ OwnersDistinct demoOps ∧
    Ev.deliver 2 true 6 (.resp 6 66) ∈ evs ∧ Ev.cancelled 1 5 false ∈ evs ∧ Ev.deliver 3 false 7 .sideEffect ∈ evs := by
  refine ⟨demoVal.1, demoVal.2, greach_of_grun demo_eq, ?_, ?_⟩
  · intro o
    by_cases h1 : o = 1
    · subst h1; decide
    · by_cases h2 : o = 2
      · subst h2; decide
      · by_cases h3 : o = 3
        · subst h3; decide
        · have : ∀ b : Bool, (b = true → False) → b = false := by intro b; cases b <;> simp
          simp only [nSetup, demoOps, List.countP_cons, List.countP_nil, isSetupOf]
          have e1 : (1 == o) = false := by simp; omega
          have e2 : (2 == o) = false := by simp; omega
          have e3 : (3 == o) = false := by simp; omega
          simp [e1, e2, e3]
  · decide

end TLVerif.Props.C38
