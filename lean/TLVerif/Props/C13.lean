import TLVerif.Codec.TL2Evolution
/-!
# C13 — TL2 readers tolerate schema evolution and non-minimal encodings

Per-rule theorems about the reader model `readTL2` (`Codec/TL2.lean`, tied to the generated Go readers by
`checks/C13.py`).  Each admissible re-encoding rule is a theorem; the evolution theorems are stated for one object body,
for **any** number of known and appended fields (so across every mask-byte boundary), and for arbitrary field codecs that
round trip (`FieldCodecs`) — `model_codecs` shows the model's own codecs qualify on the values covered by C03.
What is *not* a single theorem: the closure `ReEnc*` over whole nested encodings (a rewrite deep inside a value); the
check explores it (nested re-encodings with all rules mixed) on every run.
-/
namespace TLVerif.Props.C13
open TLVerif.Prim TLVerif.Codec

/-- Non-minimal size: the huge form `FF` + 8 little-endian bytes is accepted for every size below 2^63. -/
theorem huge_size_accepted (n : Nat) (rest : Bytes) (h : n < 2 ^ 63) :
    parseSize (255 :: (le64 n ++ rest)) = .ok (n, rest) ∧ parseSize (tl2WriteSize n ++ rest) = .ok (n, rest) :=
  ⟨parseSize_huge n rest h, parseSize_min n rest h⟩

/-- Re-encoding rule "huge-form size of an object": every sized type (struct, union, array, dictionary) decodes an object
framed with the huge size form exactly as the minimally framed one (same value or same error, same rest). -/
theorem reenc_huge_object (d : Desc) (fuel ty : Nat) (c : Bool) (body rest : Bytes)
    (ho : objectLike d ty = true) (h : body.length < 2 ^ 63) :
    readTL2 d (fuel + 1) ty c (255 :: (le64 body.length ++ (body ++ rest))) =
      readTL2 d (fuel + 1) ty c (tl2WriteSize body.length ++ (body ++ rest)) :=
  readTL2_huge_size d fuel ty c body rest ho h

/-- An object whose declared size exceeds the remaining input is rejected. -/
theorem oversize_rejected (d : Desc) (fuel ty : Nat) (c : Bool) (bs r : Bytes) (sz : Nat)
    (ho : objectLike d ty = true) (hp : parseSize bs = .ok (sz, r)) (h : r.length < sz) :
    readTL2 d (fuel + 1) ty c bs = .error .rej :=
  readTL2_oversize d fuel ty c bs r sz ho hp h

/-- Readers of sized types depend on their input only through the sliced body: bytes after the object are never looked at. -/
theorem slice_ignores_rest (body rest : Bytes) (h : body.length < 2 ^ 63) :
    sliceBody (tl2WriteSize body.length ++ (body ++ rest)) = .ok (body, rest) :=
  sliceBody_obj body rest h

/-- An explicitly written zero primitive decodes to the zero value (what an omitted field is reset to). -/
theorem explicit_zero_prim (k : PrimK) (hk : k ≠ .bit) (c : Bool) (rest : Bytes) :
    ∃ b, primTL2 k (zeroPrim k) = .ok b ∧ readPrim2 k c (b ++ rest) = .ok (zeroPrim k, rest) :=
  Codec.explicit_zero_prim k hk c rest

/-- Fields missing at the end of a body (it ended before them) are empty. -/
theorem missing_tail_is_empty (rd : Rd2) (skip : Nat → Bool → Bytes → Except CErr Bytes) (z : Nat → Val) (isTrue : Nat → Bool)
    (gs : List Field) (hwf : ∀ g ∈ gs, g.isBit = true → fieldOptional g = true)
    (i : Nat) (block : UInt8) (hA : BlockAgree i block 0) :
    readFields2With rd skip z isTrue i block gs [] = .ok (zeroFieldsWith z gs) :=
  fields_missing_tail rd skip z isTrue gs hwf i block 0 hA

/-- Explicit zero mask bytes (any number of them) decode like the truncated body. -/
theorem padded_mask_same (rd : Rd2) (skip : Nat → Bool → Bytes → Except CErr Bytes) (z : Nat → Val) (isTrue : Nat → Bool)
    (gs : List Field) (hwf : ∀ g ∈ gs, g.isBit = true → fieldOptional g = true)
    (i : Nat) (block : UInt8) (n : Nat) (hA : BlockAgree i block 0) :
    readFields2With rd skip z isTrue i block gs (List.replicate n 0) = readFields2With rd skip z isTrue i block gs [] := by
  have h0 := fields_missing_tail rd skip z isTrue gs hwf i block 0 hA
  rw [List.replicate_zero] at h0
  rw [fields_missing_tail rd skip z isTrue gs hwf i block n hA, h0]

/-- **New bytes, old reader** (field loop): a body written for `fs` followed by any appended fields is read with `fs` as
the values of `fs`. -/
theorem unknown_tail_skipped {good : Nat → Bool → Val → Prop} {enc : Enc} {rd : Rd2} {z : Nat → Val}
    {skip : Nat → Bool → Bytes → Except CErr Bytes} {plainTrue isTrue : Nat → Bool}
    (H : FieldCodecs good enc rd z)
    (HT : ∀ ty r, plainTrue ty = true → enc ty true (z ty) = .ok r → r = none)
    (Hpt : ∀ ty, plainTrue ty = true → isTrue ty = true) (ss : List (Option Bytes))
    (fs : List Field) (vs : List (Option Val)) (rs : List (Option Bytes))
    (hg : GoodFields good z plainTrue isTrue fs vs) (he : encFieldsWith enc fs vs = .ok rs)
    (i : Nat) (block : UInt8) (hA : BlockAgree i block (bodyLoop i (rs ++ ss)).1) :
    readFields2With rd skip z isTrue i block fs (bodyLoop i (rs ++ ss)).2 = .ok vs :=
  fields_roundtrip_ext H HT Hpt ss fs vs rs hg he i block hA

/-- **Old bytes, new reader** (field loop): a body written for `fs` is read with `fs ++ gs` as the values of `fs` followed
by empty appended fields. -/
theorem fields_ignore_tail {good : Nat → Bool → Val → Prop} {enc : Enc} {rd : Rd2} {z : Nat → Val}
    {skip : Nat → Bool → Bytes → Except CErr Bytes} {plainTrue isTrue : Nat → Bool}
    (H : FieldCodecs good enc rd z)
    (HT : ∀ ty r, plainTrue ty = true → enc ty true (z ty) = .ok r → r = none)
    (Hpt : ∀ ty, plainTrue ty = true → isTrue ty = true)
    (gs : List Field) (hwf : ∀ g ∈ gs, g.isBit = true → fieldOptional g = true)
    (fs : List Field) (vs : List (Option Val)) (rs : List (Option Bytes))
    (hg : GoodFields good z plainTrue isTrue fs vs) (he : encFieldsWith enc fs vs = .ok rs)
    (i : Nat) (block : UInt8) (hA : BlockAgree i block (bodyLoop i rs).1) :
    readFields2With rd skip z isTrue i block (fs ++ gs) (bodyLoop i rs).2 = .ok (vs ++ zeroFieldsWith z gs) :=
  fields_old_to_new H HT Hpt gs hwf fs vs rs hg he i block hA

/-- **New bytes, old reader**, whole object including size, first mask byte and variant index. -/
theorem struct_unknown_tail_skipped {good : Nat → Bool → Val → Prop} {enc : Enc} {rd : Rd2} {z : Nat → Val}
    {skip : Nat → Bool → Bytes → Except CErr Bytes} {plainTrue isTrue : Nat → Bool}
    (H : FieldCodecs good enc rd z)
    (HT : ∀ ty r, plainTrue ty = true → enc ty true (z ty) = .ok r → r = none)
    (Hpt : ∀ ty, plainTrue ty = true → isTrue ty = true)
    (ui : Nat) (hui : ui < 2 ^ 63) (fs : List Field) (vs : List (Option Val)) (rs ss : List (Option Bytes))
    (hg : GoodFields good z plainTrue isTrue fs vs) (he : encFieldsWith enc fs vs = .ok rs)
    (hne : bodyTL2 ui (rs ++ ss) ≠ []) (hlen : (bodyTL2 ui (rs ++ ss)).length < 2 ^ 63) (rest : Bytes) :
    readStructObj rd skip z isTrue fs ui (tl2WriteSize (bodyTL2 ui (rs ++ ss)).length ++ (bodyTL2 ui (rs ++ ss) ++ rest)) =
      .ok (vs, rest) :=
  struct_new_to_old H HT Hpt ui hui fs vs rs ss hg he hne hlen rest

/-- The model's own field codecs satisfy the hypotheses of the evolution theorems on the values covered by C03. -/
theorem model_codecs (d : Desc) (fuel : Nat) :
    FieldCodecs (Good d fuel) (encTL2 d fuel) (readTL2 d fuel) (zeroVal d fuel) ∧
    (∀ ty r, isPlainTrue d ty = true → encTL2 d fuel ty true (zeroVal d fuel ty) = .ok r → r = none) ∧
    (∀ ty, isPlainTrue d ty = true → isTrueTy d ty = true) :=
  ⟨⟨tl2_roundtrip_gen d fuel, enc_false_some d fuel⟩, fun ty r => plainTrue_enc d fuel ty r, isPlainTrue_isTrue d⟩

/-- the hypotheses are satisfiable: a one-field struct `a:int32` read by a reader that also knows `b:int32` -/
example : BlockAgree 0 (2 : UInt8) 2 := by
  intro _ k h1 h2
  rfl

end TLVerif.Props.C13
