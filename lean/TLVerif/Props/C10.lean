import TLVerif.Codec.BytesVariant
import TLVerif.Codec.BytesVariantCanon
import TLVerif.Codec.KeyOrder
import TLVerif.Codec.TL1Example
/-!
# C10 — `[]byte` variants behave like string variants (TL1)

Model: `TLVerif/Codec/BytesVariant.lean` (`readTL1M`: the TL1 reader with the storage discipline of
dictionaries as a parameter; `.map` = string variant, `.slice` = `[]byte` variant, in which the dictionary
instances selected by `sl` — those that have a bytes version — are slices; the theorems hold for every `sl`).  The writer is shared
(`writeTL1` writes the element list in order; a map's element list is kept sorted by `dictNormalize`).

* `readTL1M_map_eq` — the `.map` instance *is* `readTL1`, the model every C01/C02/C08 theorem is about;
* `dictNormalize_of_ascending` — a dictionary whose keys are strictly ascending is stored unchanged by a map;
* `bytes_variant_agrees_on_canonical` — **C10 (TL1 read)**: on every input that the strict reader accepts
  (all dictionaries, at every nesting depth, strictly ascending — the "canonical inputs" of the property),
  the string variant and the `[]byte` variant return the same value and the same rest; hence (shared writer)
  they re-encode to the same bytes (`bytes_variant_rewrites_equal`);
* `strict_accepts_example` / `canonical_example` — the hypothesis is met by a concrete non-trivial input
  (a two-entry dictionary) and the conclusion computed on it;
* `bytes_variant_canonical` — the `[]byte` variant re-encodes *every* accepted input byte for byte (dictionaries included:
  a slice keeps order and duplicates), `string_variant_canonical_on_canonical_input` — so does the string variant on
  canonical input (C02 extended to dictionary-bearing types under the property's hypothesis);
* `variants_differ_on_duplicate_key` — the hypothesis is needed: a concrete input with a repeated key on
  which the two variants return different values (the `[]byte` variant keeps both entries).

The tie (`checks/C10.py`): `codec.x1m` runs `readTL1M .slice` against `CreateObjectBytes()` on *all* explored
inputs (canonical or not) and `readTL1M .strict` on the canonical ones (every output of a string-variant writer
must be accepted: the hypothesis of the theorem is met by what the property calls canonical).
-/
namespace TLVerif.Props.C10
open TLVerif.Prim TLVerif.Codec

/-! ## the `.map` instance is the TL1 model -/

theorem readTL1M_map_eq (sl : Nat → Bool) (cfg : Cfg) (d : Desc) : ∀ fuel, readTL1M .map sl cfg d fuel = readTL1 cfg d fuel := by
  intro fuel
  induction fuel with
  | zero => rfl
  | succ fuel ih =>
    funext ty bare params bs
    simp only [readTL1M, readTL1, ih]
    cases d.get? ty with
    | none => rfl
    | some inst =>
      cases inst with
      | prim k => rfl
      | struct s => rfl
      | union u => rfl
      | array a => rfl
      | dict a =>
        simp only
        cases natArgVals [] params a.elem.natArgs with
        | none => rfl
        | some na =>
          simp only
          cases readU32 bs with
          | error e => rfl
          | ok p =>
            obtain ⟨n, bs1⟩ := p
            simp only
            split
            · rfl
            · cases dictKeyPrim d a with
              | none => rfl
              | some k =>
                simp only
                cases readElemsWith (readTL1 cfg d fuel) a.elem na n bs1 with
                | error e => rfl
                | ok q => obtain ⟨vs, r⟩ := q; rfl

/-! ## ascending dictionaries are fixed points of the map normalisation -/

/-- `e` is above every element of `acc` (what `dictInsert` needs to append at the end) -/
def allBelow (k : PrimK) (e : Val) (acc : List Val) : Prop :=
  ∀ x ∈ acc, keyLt k (elemKey x) (elemKey e) = true ∧ keyLt k (elemKey e) (elemKey x) = false

theorem dictInsert_append (k : PrimK) (e : Val) : ∀ acc, allBelow k e acc → dictInsert k e acc = acc ++ [e] := by
  intro acc
  induction acc with
  | nil => intro _; rfl
  | cons x xs ih =>
    intro h
    obtain ⟨h1, h2⟩ := h x (by simp)
    simp only [dictInsert, h2, h1, Bool.false_eq_true, if_false, if_true, List.cons_append]
    rw [ih (fun y hy => h y (by simp [hy]))]

theorem keyBelowAll_spec (k : PrimK) (x : Val) : ∀ ys, keyBelowAll k x ys = true →
    ∀ y ∈ ys, keyLt k (elemKey x) (elemKey y) = true ∧ keyLt k (elemKey y) (elemKey x) = false := by
  intro ys
  induction ys with
  | nil => intro _ y hy; cases hy
  | cons z zs ih =>
    intro h y hy
    simp only [keyBelowAll, Bool.and_eq_true, Bool.not_eq_true'] at h
    rcases List.mem_cons.mp hy with rfl | hy
    · exact ⟨h.1.1, h.1.2⟩
    · exact ih h.2 y hy

theorem dictFold_ascending (k : PrimK) : ∀ (vs acc : List Val),
    dictAscending k vs = true → (∀ e ∈ vs, allBelow k e acc) →
    vs.foldl (fun acc e => dictInsert k e acc) acc = acc ++ vs := by
  intro vs
  induction vs with
  | nil => intro acc _ _; simp
  | cons v vs ih =>
    intro acc hs hb
    simp only [dictAscending, Bool.and_eq_true] at hs
    simp only [List.foldl_cons]
    rw [dictInsert_append k v acc (hb v (by simp))]
    rw [ih (acc ++ [v]) hs.2]
    · simp
    · intro e he x hx
      rcases List.mem_append.mp hx with hx | hx
      · exact hb e (by simp [he]) x hx
      · have : x = v := by simpa using hx
        subst this
        exact keyBelowAll_spec k x vs hs.1 e he

/-- a dictionary whose keys are strictly ascending is stored unchanged by the map-backed variant -/
theorem dictNormalize_of_ascending (k : PrimK) (vs : List Val) (h : dictAscending k vs = true) :
    dictNormalize k vs = vs := by
  unfold dictNormalize
  rw [dictFold_ascending k vs [] h (fun _ _ x hx => by cases hx)]
  simp

theorem dictStore_strict (b b' : Bool) (k : PrimK) (vs vs' : List Val) (h : dictStore .strict b k vs = .ok vs') :
    dictStore .map b' k vs = .ok vs' ∧ dictStore .slice b' k vs = .ok vs' := by
  simp only [dictStore] at h ⊢
  split at h
  · rename_i ha
    injection h with h; subst h
    exact ⟨by rw [dictNormalize_of_ascending k vs ha], by rw [dictNormalize_of_ascending k vs ha]; simp⟩
  · cases h

/-! ## monotonicity of the structural loops in the recursive reader -/

/-- whatever `r1` accepts, `r2` accepts with the same result -/
def RdLe (r1 r2 : Rd) : Prop :=
  ∀ ty bare na bs v rest, r1 ty bare na bs = .ok (v, rest) → r2 ty bare na bs = .ok (v, rest)

theorem readFields_mono {r1 r2 : Rd} (h : RdLe r1 r2) (params : List Nat) :
    ∀ (fields : List Field) (acc : List (Option Val)) (bs : Bytes) (out : List (Option Val)) (rest : Bytes),
      readFieldsWith r1 params fields acc bs = .ok (out, rest) →
      readFieldsWith r2 params fields acc bs = .ok (out, rest) := by
  intro fields
  induction fields with
  | nil => intro acc bs out rest h1; simpa [readFieldsWith] using h1
  | cons f fs ih =>
    intro acc bs out rest h1
    simp only [readFieldsWith] at h1 ⊢
    split at h1
    · rename_i na hp hn
      cases hr : r1 f.ty f.bare na bs with
      | error e => simp [hr] at h1
      | ok p =>
        obtain ⟨v, bs'⟩ := p
        simp only [hr] at h1
        simp only [h _ _ _ _ _ _ hr]
        exact ih _ _ _ _ h1
    · rename_i x hp hn
      exact ih _ _ _ _ h1
    · cases h1

theorem readElems_mono {r1 r2 : Rd} (h : RdLe r1 r2) (f : Field) (na : List Nat) :
    ∀ (n : Nat) (bs : Bytes) (vs : List Val) (rest : Bytes),
      readElemsWith r1 f na n bs = .ok (vs, rest) → readElemsWith r2 f na n bs = .ok (vs, rest) := by
  intro n
  induction n with
  | zero => intro bs vs rest h1; simpa [readElemsWith] using h1
  | succ n ih =>
    intro bs vs rest h1
    simp only [readElemsWith] at h1 ⊢
    cases hr : r1 f.ty f.bare na bs with
    | error e => simp [hr] at h1
    | ok p =>
      obtain ⟨v, bs'⟩ := p
      simp only [hr] at h1
      simp only [h _ _ _ _ _ _ hr]
      cases hr2 : readElemsWith r1 f na n bs' with
      | error e => simp [hr2] at h1
      | ok q =>
        obtain ⟨ws, bs''⟩ := q
        simp only [hr2] at h1
        simp only [ih _ _ _ hr2]
        exact h1

/-- the strict reader is below the reader of mode `m`, as soon as an accepted dictionary is stored alike -/
theorem strict_le (m : DictMode) (sl sl' : Nat → Bool)
    (hm : ∀ b b' k vs vs', dictStore .strict b k vs = .ok vs' → dictStore m b' k vs = .ok vs')
    (cfg : Cfg) (d : Desc) : ∀ fuel, RdLe (readTL1M .strict sl cfg d fuel) (readTL1M m sl' cfg d fuel) := by
  intro fuel
  induction fuel with
  | zero => intro ty bare na bs v rest h; simp [readTL1M] at h
  | succ fuel ih =>
    intro ty bare params bs v rest h
    simp only [readTL1M] at h ⊢
    cases hg : d.get? ty with
    | none => simp only [hg] at h; cases h
    | some inst =>
      simp only [hg] at h ⊢
      cases inst with
      | prim k => exact h
      | struct s =>
        simp only at h ⊢
        cases hb : (if bare = true then Except.ok bs else readExactTag s.tag bs) with
        | error e => simp [hb] at h
        | ok bs1 =>
          simp only [hb] at h ⊢
          cases hr : readFieldsWith (readTL1M .strict sl cfg d fuel) params s.fields [] bs1 with
          | error e => simp [hr] at h
          | ok p =>
            obtain ⟨fs, r⟩ := p
            simp only [hr] at h
            simp only [readFields_mono ih params _ _ _ _ _ hr]
            exact h
      | union u =>
        simp only at h ⊢
        cases hu : readU32 bs with
        | error e => simp [hu] at h
        | ok p =>
          obtain ⟨tag, bs1⟩ := p
          simp only [hu] at h ⊢
          split at h
          · rename_i i vi na hf hn
            cases hr : readTL1M .strict sl cfg d fuel vi true na bs1 with
            | error e => simp [hr] at h
            | ok q =>
              obtain ⟨w, r⟩ := q
              simp only [hr] at h
              simp only [ih _ _ _ _ _ _ hr]
              exact h
          · cases h
          · cases h
      | array a =>
        simp only at h ⊢
        cases hn : natArgVals [] params a.elem.natArgs with
        | none => simp [hn] at h
        | some na =>
          simp only [hn] at h ⊢
          by_cases ht : a.isTuple = true
          · simp only [ht, if_true] at h ⊢
            cases hc : (if a.dynamic = true then params[0]? else some a.count) with
            | none => simp [hc] at h
            | some n =>
              simp only [hc] at h ⊢
              split at h
              · cases h
              · rename_i hs
                simp only [hs]
                cases hr : readElemsWith (readTL1M .strict sl cfg d fuel) a.elem na n bs with
                | error e => simp [hr, Except.map] at h
                | ok q =>
                  obtain ⟨vs, r⟩ := q
                  rw [hr] at h
                  rw [readElems_mono ih _ _ _ _ _ _ hr]
                  exact h
          · simp only [ht, Bool.false_eq_true, if_false] at h ⊢
            cases hu : readU32 bs with
            | error e => simp [hu] at h
            | ok p =>
              obtain ⟨n, bs1⟩ := p
              simp only [hu] at h ⊢
              split at h
              · cases h
              · rename_i hs
                simp only [hs]
                cases hr : readElemsWith (readTL1M .strict sl cfg d fuel) a.elem na n bs1 with
                | error e => simp [hr, Except.map] at h
                | ok q =>
                  obtain ⟨vs, r⟩ := q
                  rw [hr] at h
                  rw [readElems_mono ih _ _ _ _ _ _ hr]
                  exact h
      | dict a =>
        simp only at h ⊢
        cases hn : natArgVals [] params a.elem.natArgs with
        | none => simp [hn] at h
        | some na =>
          simp only [hn] at h ⊢
          cases hu : readU32 bs with
          | error e => simp [hu] at h
          | ok p =>
            obtain ⟨n, bs1⟩ := p
            simp only [hu] at h ⊢
            split at h
            · cases h
            · rename_i hs
              simp only [hs]
              cases hk : dictKeyPrim d a with
              | none => simp [hk] at h
              | some k =>
                simp only [hk] at h ⊢
                cases hr : readElemsWith (readTL1M .strict sl cfg d fuel) a.elem na n bs1 with
                | error e => simp [hr] at h
                | ok q =>
                  obtain ⟨vs, r⟩ := q
                  simp only [hr] at h
                  simp only [readElems_mono ih _ _ _ _ _ _ hr]
                  cases hst : dictStore .strict (sl ty) k vs with
                  | error e => simp [hst] at h
                  | ok vs' =>
                    simp only [hst] at h
                    simp only [hm _ (sl' ty) k vs vs' hst]
                    exact h

/-! ## the property -/

/-- **C10 (TL1 read)**: on canonical input — accepted by the strict reader, i.e. every dictionary at every
depth has strictly ascending keys — the string variant (`readTL1`) and the `[]byte` variant
(`readTL1M .slice`) decode the same value and leave the same rest. -/
theorem bytes_variant_agrees_on_canonical (sl sl' : Nat → Bool) (cfg : Cfg) (d : Desc) (fuel ty : Nat) (bare : Bool)
    (params : List Nat) (bs : Bytes) (v : Val) (rest : Bytes)
    (h : readTL1M .strict sl cfg d fuel ty bare params bs = .ok (v, rest)) :
    readTL1 cfg d fuel ty bare params bs = .ok (v, rest) ∧
    readTL1M .slice sl' cfg d fuel ty bare params bs = .ok (v, rest) := by
  constructor
  · rw [← readTL1M_map_eq sl]
    exact strict_le .map sl sl (fun b b' k vs vs' hh => (dictStore_strict b b' k vs vs' hh).1) cfg d fuel _ _ _ _ _ _ h
  · exact strict_le .slice sl sl' (fun b b' k vs vs' hh => (dictStore_strict b b' k vs vs' hh).2) cfg d fuel _ _ _ _ _ _ h

/-- consequently both variants re-encode a canonical input to the same bytes (the writer is shared) -/
theorem bytes_variant_rewrites_equal (sl sl' : Nat → Bool) (cfg : Cfg) (d : Desc) (fuel ty : Nat) (bare : Bool)
    (params : List Nat) (bs : Bytes) (v : Val) (rest : Bytes)
    (h : readTL1M .strict sl cfg d fuel ty bare params bs = .ok (v, rest)) :
    ∃ v1 v2 r1 r2, readTL1 cfg d fuel ty bare params bs = .ok (v1, r1) ∧
      readTL1M .slice sl' cfg d fuel ty bare params bs = .ok (v2, r2) ∧ r1 = r2 ∧
      ∀ bare', writeTL1 d fuel ty bare' params v1 = writeTL1 d fuel ty bare' params v2 := by
  obtain ⟨h1, h2⟩ := bytes_variant_agrees_on_canonical sl sl' cfg d fuel ty bare params bs v rest h
  exact ⟨v, v, rest, rest, h1, h2, rfl, fun _ => rfl⟩

/-- **C10 (the `[]byte` variant is canonical, dictionaries included)**: on a reference-closed set of instances without the
TL2 `bit` primitive, whatever the slice-backed reader accepts is, byte for byte, the shared writer's output for the decoded
value followed by the unread rest — for *every* input, also with repeated or descending keys (contrast
`C02.tl1_canonical_fails_at_dict` for the map-backed string variant). -/
theorem bytes_variant_canonical (cfg : Cfg) (d : Desc) (S : Nat → Bool) (hcl : d.closed S = true)
    (hnb : d.allOn S (fun i => !i.isBitPrim) = true)
    (fuel ty : Nat) (bare : Bool) (params : List Nat) (bs : Bytes) (v : Val) (rest : Bytes) (hS : S ty = true)
    (h : readTL1M .slice (fun _ => true) cfg d fuel ty bare params bs = .ok (v, rest)) :
    ∃ pre, bs = pre ++ rest ∧ writeTL1 d fuel ty bare params v = .ok pre := by
  obtain ⟨pre, w, e, hw, r⟩ := readTL1M_slice_canon cfg d S hcl hnb fuel _ _ _ _ _ _ hS h
  exact ⟨pre, e, by rw [hw, r]⟩

/-- consequence for the *string* variant: on canonical input (strict reader accepts) it is canonical too, dictionaries
included — it decodes the value the `[]byte` variant decodes, and the shared writer gives back the consumed bytes. This is
C02's statement extended to dictionary-bearing types, under exactly the property's "canonical input" hypothesis. -/
theorem string_variant_canonical_on_canonical_input (cfg : Cfg) (d : Desc) (S : Nat → Bool) (hcl : d.closed S = true)
    (hnb : d.allOn S (fun i => !i.isBitPrim) = true)
    (fuel ty : Nat) (bare : Bool) (params : List Nat) (bs : Bytes) (v : Val) (rest : Bytes) (hS : S ty = true)
    (h : readTL1M .strict (fun _ => true) cfg d fuel ty bare params bs = .ok (v, rest)) :
    readTL1 cfg d fuel ty bare params bs = .ok (v, rest) ∧
    ∃ pre, bs = pre ++ rest ∧ writeTL1 d fuel ty bare params v = .ok pre := by
  obtain ⟨h1, h2⟩ := bytes_variant_agrees_on_canonical (fun _ => true) (fun _ => true) cfg d fuel ty bare params bs v rest h
  exact ⟨h1, bytes_variant_canonical cfg d S hcl hnb fuel ty bare params bs v rest hS h2⟩

/-- the order in which the string variant writes keys is asymmetric for every key kind (signed and unsigned integers,
byte strings, booleans) … -/
theorem key_order_asymm (k : PrimK) (a b : Val) (h : keyLt k a b = true) : keyLt k b a = false := keyLt_asymm k a b h

/-- … so the strict reader's guard — the "canonical input" hypothesis of the theorems above — is nothing more than
"every key strictly below every later key" -/
theorem canonical_guard_is_strict_ascent (k : PrimK) (vs : List Val) : dictAscending k vs = dictPairwiseLt k vs :=
  dictAscending_eq_pairwiseLt k vs

/-! ## non-vacuity and necessity of the hypothesis -/

/-- the hypothesis is satisfiable: a two-entry `dictionary<int,int>` with ascending keys 1 < 2 -/
theorem strict_accepts_example :
    readTL1M .strict (fun _ => true) {} Ex.dictD 3 2 true [] [2,0,0,0, 1,0,0,0, 7,0,0,0, 2,0,0,0, 3,0,0,0]
      = .ok (.arr [.struct [some (.nat 1), some (.nat 7)], .struct [some (.nat 2), some (.nat 3)]], []) := by rfl

theorem canonical_example :
    readTL1 {} Ex.dictD 3 2 true [] [2,0,0,0, 1,0,0,0, 7,0,0,0, 2,0,0,0, 3,0,0,0]
      = readTL1M .slice (fun _ => true) {} Ex.dictD 3 2 true [] [2,0,0,0, 1,0,0,0, 7,0,0,0, 2,0,0,0, 3,0,0,0] := by
  obtain ⟨h1, h2⟩ := bytes_variant_agrees_on_canonical _ (fun _ => true) _ _ _ _ _ _ _ _ _ strict_accepts_example
  rw [h1, h2]

/-- the hypothesis is needed: with a repeated key the map keeps the last entry, the slice keeps both,
and the two variants re-encode to different bytes — exactly the inputs the property excludes. -/
theorem variants_differ_on_duplicate_key :
    readTL1 {} Ex.dictD 3 2 true [] [2,0,0,0, 1,0,0,0, 2,0,0,0, 1,0,0,0, 3,0,0,0]
      = .ok (.arr [.struct [some (.nat 1), some (.nat 3)]], []) ∧
    readTL1M .slice (fun _ => true) {} Ex.dictD 3 2 true [] [2,0,0,0, 1,0,0,0, 2,0,0,0, 1,0,0,0, 3,0,0,0]
      = .ok (.arr [.struct [some (.nat 1), some (.nat 2)], .struct [some (.nat 1), some (.nat 3)]], []) ∧
    readTL1M .strict (fun _ => true) {} Ex.dictD 3 2 true [] [2,0,0,0, 1,0,0,0, 2,0,0,0, 1,0,0,0, 3,0,0,0] = .error .rej := by
  refine ⟨by rfl, by rfl, by rfl⟩

/-- same for keys out of order: accepted by both variants, stored differently -/
theorem variants_differ_on_unsorted_keys :
    readTL1 {} Ex.dictD 3 2 true [] [2,0,0,0, 5,0,0,0, 2,0,0,0, 1,0,0,0, 3,0,0,0]
      = .ok (.arr [.struct [some (.nat 1), some (.nat 3)], .struct [some (.nat 5), some (.nat 2)]], []) ∧
    readTL1M .slice (fun _ => true) {} Ex.dictD 3 2 true [] [2,0,0,0, 5,0,0,0, 2,0,0,0, 1,0,0,0, 3,0,0,0]
      = .ok (.arr [.struct [some (.nat 5), some (.nat 2)], .struct [some (.nat 1), some (.nat 3)]], []) := by
  refine ⟨by rfl, by rfl⟩

/-- `bytes_variant_canonical` at work on the repeated-key input the map-backed variant cannot re-encode: the slice value
(both entries kept) is written back to exactly the bytes read -/
theorem bytes_variant_canonical_example :
    ∃ pre, ([2,0,0,0, 1,0,0,0, 2,0,0,0, 1,0,0,0, 3,0,0,0] : Bytes) = pre ++ [] ∧
      writeTL1 Ex.dictD 3 2 true []
        (.arr [.struct [some (.nat 1), some (.nat 2)], .struct [some (.nat 1), some (.nat 3)]]) = .ok pre :=
  bytes_variant_canonical {} Ex.dictD allInsts (by decide) (by decide) 3 2 true [] _ _ _ rfl
    variants_differ_on_duplicate_key.2.1

/-- `bytes_variant_canonical` applies to the dictionary descriptor: closed, no `bit` -/
example : Ex.dictD.closed allInsts = true ∧ Ex.dictD.allOn allInsts (fun i => !i.isBitPrim) = true := by decide

end TLVerif.Props.C10
