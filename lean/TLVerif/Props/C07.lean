import TLVerif.Codec.ResultLemmas
import TLVerif.Props.C02
import TLVerif.Props.C04
/-!
# C07 — function result transcoders are mutually consistent

Model: `TLVerif/Codec/Result.lean` (`transcode`, `decodeResult`, `encodeResult`, `readResultTL2`, `writeResultTL2`), tied to the
generated Go transcoders `ReadResult<SRC>WriteResult<DST>` (and, on the implementation side, to the typed methods
`ReadResult*` / `WriteResult*`) by `checks/C07.py`.

## What is stated

* **Composition** (`transcode_is_decode_then_encode` and the six `transcode_<src>_<dst>`): each transcoder is the source
  format's reader at the result type — with the nat arguments computed from the request (`result_args_from_request`) —
  followed by the target format's writer.  In the model this holds *by definition* (`transcode` is written as the Go template is
  written: declare `ret`, read, write); the theorems spell the six instances out with the concrete readers / writers and
  are what the differential run ties to the six generated methods.  The error branches are covered:
  `transcode_without_tl2` (no TL2 code: nothing is read), `transcode_read_error`, `transcode_tl1_of_tl2_origin`.
* **TL1 → TL2 → TL1** (`result_tl1_tl2_tl1_partial`): reproduces the consumed result bytes.  Inherited guards, stated
  explicitly: from C02 (`tl1_canonical_on`) a reference-closed set of instances around the result type without map-backed
  dictionary and without `bit`; from C03/C04 (`tl2_roundtrip_gen`) `Good` **at `zeroIfEmpty = true`** — the result is itself
  written with the empty optimisation (a function returning `Double` used to lose `-0.0` at top level; the generated code now
  tests floats with `(x != 0 || 1/x < 0)`, see `result_tl1_tl2_tl1_negzero_at`); the encoding must be shorter than 2^63 bytes.  `Good` excludes exactly the inherited
  counter-examples: `bit` behind an alias / Maybe, optional field of an empty struct.
* **TL1 → JSON → TL1** (`result_tl1_json_tl1_partial`): C05 proves the JSON round trip for primitives only (composite
  types are explored by its tie), so the statement inherits it as the explicit hypothesis `JsonRoundTripsAt` (C05's
  `JsonRoundTrip` at one value) next to C02's guard; `result_tl1_json_tl1_bool` discharges the hypothesis for functions
  returning `Bool` (the content of `Props.C05.prim_roundtrip_bool`; that module cannot be imported next to the TL2 lemmas,
  two helper lemmas share a name).  Full strength fails on the real code:
  `result_tl1_json_tl1_fails_at_nan_payload` (L3); the former L2 witness (`-0.0`) round-trips through JSON since the
  generator repair (`result_tl1_json_tl1_neg_zero_roundtrips`).
  The JSON payload is a tree: Go's printer / the model's parser are outside these statements (tied, see the check).
-/
namespace TLVerif.Props.C07
open TLVerif.Prim TLVerif.Codec

/-- the four TL2 transcoders of a function without TL2 code fail before reading -/
def tl2Missing (f : FnD) (src dst : Fmt) : Bool := (src == .tl2 || dst == .tl2) && !f.s.hasTL2

/-! ## composition -/

/-- **Every transcoder is decode-then-encode** at the result type with the request's nat arguments. Definitional in the model. -/
theorem transcode_is_decode_then_encode (cfg : Cfg) (d : Desc) (fuel : Nat) (f : FnD) (req : Val) (src dst : Fmt) (p : Payload)
    (na : List Nat) (hg : tl2Missing f src dst = false) (hna : resultArgs f req = some na) :
    transcode cfg d fuel f req src dst p =
      match decodeResult cfg d fuel f na src p with
      | .error e => .error e
      | .ok (v, rest) => (encodeResult d fuel f na src dst v).map (fun q => (q, rest)) := by
  unfold tl2Missing at hg
  unfold transcode
  rw [hg]
  simp only [Bool.false_eq_true, if_false, hna]
  cases decodeResult cfg d fuel f na src p with
  | error e => rfl
  | ok vr =>
    obtain ⟨v, rest⟩ := vr
    simp only
    cases encodeResult d fuel f na src dst v <;> rfl

/-- `ReadResultTL1WriteResultJSON` = boxed `ReadTL1` of the result type, then its `WriteJSON` -/
theorem transcode_tl1_json (cfg : Cfg) (d : Desc) (fuel : Nat) (f : FnD) (req : Val) (bs : Bytes) (na : List Nat)
    (ho : f.s.originTL2 = false) (hna : resultArgs f req = some na) :
    transcode cfg d fuel f req .tl1 .json (.bytes bs) =
      match readTL1 cfg d fuel f.s.resultTy false na bs with
      | .error e => .error e
      | .ok (v, rest) => (writeJson d fuel f.s.resultTy na v).map (fun j => (.json j, rest)) := by
  rw [transcode_is_decode_then_encode cfg d fuel f req .tl1 .json _ na rfl hna]
  simp only [decodeResult, ho, Bool.false_eq_true, if_false, encodeResult]
  cases readTL1 cfg d fuel f.s.resultTy false na bs with
  | error e => rfl
  | ok vr =>
    obtain ⟨v, rest⟩ := vr
    simp only
    cases writeJson d fuel f.s.resultTy na v <;> rfl

/-- `ReadResultJSONWriteResultTL1` = `ReadJSON` of the result type, then its boxed `WriteTL1` (fields present for TL1 only hold zeros) -/
theorem transcode_json_tl1 (cfg : Cfg) (d : Desc) (fuel : Nat) (f : FnD) (req : Val) (j : Json) (na : List Nat)
    (ho : f.s.originTL2 = false) (hna : resultArgs f req = some na) :
    transcode cfg d fuel f req .json .tl1 (.json j) =
      match readJson d false parseJson fuel f.s.resultTy na (some j) with
      | .error e => .error e
      | .ok v =>
        match jfillTL1 d fuel f.s.resultTy na v with
        | .error e => .error e
        | .ok v' => (writeTL1 d fuel f.s.resultTy false na v').map (fun b => (.bytes b, [])) := by
  rw [transcode_is_decode_then_encode cfg d fuel f req .json .tl1 _ na rfl hna]
  simp only [decodeResult, encodeResult, writeResultTL1, ho, Bool.false_eq_true, if_false]
  cases readJson d false parseJson fuel f.s.resultTy na (some j) with
  | error e => rfl
  | ok v =>
    simp only [Except.map]
    cases jfillTL1 d fuel f.s.resultTy na v with
    | error e => rfl
    | ok v' =>
      dsimp only
      cases writeTL1 d fuel f.s.resultTy false na v' <;> rfl

/-- `ReadResultTL1WriteResultTL2` -/
theorem transcode_tl1_tl2 (cfg : Cfg) (d : Desc) (fuel : Nat) (f : FnD) (req : Val) (bs : Bytes) (na : List Nat)
    (ho : f.s.originTL2 = false) (ht : f.s.hasTL2 = true) (hna : resultArgs f req = some na) :
    transcode cfg d fuel f req .tl1 .tl2 (.bytes bs) =
      match readTL1 cfg d fuel f.s.resultTy false na bs with
      | .error e => .error e
      | .ok (v, rest) => (writeResultTL2 d fuel f v).map (fun b => (.bytes b, rest)) := by
  rw [transcode_is_decode_then_encode cfg d fuel f req .tl1 .tl2 _ na (by simp [tl2Missing, ht]) hna]
  simp only [decodeResult, ho, Bool.false_eq_true, if_false, encodeResult]
  cases readTL1 cfg d fuel f.s.resultTy false na bs with
  | error e => rfl
  | ok vr =>
    obtain ⟨v, rest⟩ := vr
    have : (Fmt.tl1 == Fmt.json) = false := rfl
    simp only [this, Bool.false_eq_true, if_false]
    cases writeResultTL2 d fuel f v <;> rfl

/-- `ReadResultTL2WriteResultTL1` -/
theorem transcode_tl2_tl1 (cfg : Cfg) (d : Desc) (fuel : Nat) (f : FnD) (req : Val) (bs : Bytes) (na : List Nat)
    (ho : f.s.originTL2 = false) (ht : f.s.hasTL2 = true) (hna : resultArgs f req = some na) :
    transcode cfg d fuel f req .tl2 .tl1 (.bytes bs) =
      match readResultTL2 d fuel f bs with
      | .error e => .error e
      | .ok (v, rest) => (writeTL1Z d fuel f.s.resultTy false na v).map (fun b => (.bytes b, rest)) := by
  rw [transcode_is_decode_then_encode cfg d fuel f req .tl2 .tl1 _ na (by simp [tl2Missing, ht]) hna]
  simp only [decodeResult, encodeResult, writeResultTL1, ho, Bool.false_eq_true, if_false]
  cases readResultTL2 d fuel f bs with
  | error e => rfl
  | ok vr =>
    obtain ⟨v, rest⟩ := vr
    simp only
    cases writeTL1Z d fuel f.s.resultTy false na v <;> rfl

/-- `ReadResultTL2WriteResultJSON` -/
theorem transcode_tl2_json (cfg : Cfg) (d : Desc) (fuel : Nat) (f : FnD) (req : Val) (bs : Bytes) (na : List Nat)
    (ht : f.s.hasTL2 = true) (hna : resultArgs f req = some na) :
    transcode cfg d fuel f req .tl2 .json (.bytes bs) =
      match readResultTL2 d fuel f bs with
      | .error e => .error e
      | .ok (v, rest) => (writeJson d fuel f.s.resultTy na v).map (fun j => (.json j, rest)) := by
  rw [transcode_is_decode_then_encode cfg d fuel f req .tl2 .json _ na (by simp [tl2Missing, ht]) hna]
  simp only [decodeResult, encodeResult]
  cases readResultTL2 d fuel f bs with
  | error e => rfl
  | ok vr =>
    obtain ⟨v, rest⟩ := vr
    simp only
    cases writeJson d fuel f.s.resultTy na v <;> rfl

/-- `ReadResultJSONWriteResultTL2` (a field the JSON reader made present for TL1 only is absent for TL2) -/
theorem transcode_json_tl2 (cfg : Cfg) (d : Desc) (fuel : Nat) (f : FnD) (req : Val) (j : Json) (na : List Nat)
    (ht : f.s.hasTL2 = true) (hna : resultArgs f req = some na) :
    transcode cfg d fuel f req .json .tl2 (.json j) =
      match readJson d false parseJson fuel f.s.resultTy na (some j) with
      | .error e => .error e
      | .ok v => (writeResultTL2 d fuel f (dropHidden v)).map (fun b => (.bytes b, [])) := by
  rw [transcode_is_decode_then_encode cfg d fuel f req .json .tl2 _ na (by simp [tl2Missing, ht]) hna]
  simp only [decodeResult, encodeResult]
  cases readJson d false parseJson fuel f.s.resultTy na (some j) with
  | error e => rfl
  | ok v =>
    have : (Fmt.json == Fmt.json) = true := rfl
    simp only [Except.map, this, if_true]
    cases writeResultTL2 d fuel f (dropHidden v) <;> rfl

/-! ## error branches -/

/-- a function generated without TL2 code: the four TL2 transcoders answer an error whatever the input (nothing is read) -/
theorem transcode_without_tl2 (cfg : Cfg) (d : Desc) (fuel : Nat) (f : FnD) (req : Val) (src dst : Fmt) (p : Payload)
    (ht : f.s.hasTL2 = false) (h2 : src = .tl2 ∨ dst = .tl2) :
    transcode cfg d fuel f req src dst p = .error .rej := by
  unfold transcode
  have : ((src == .tl2 || dst == .tl2) && !f.s.hasTL2) = true := by
    rcases h2 with h | h <;> subst h <;> simp [ht]
  rw [this]
  rfl

/-- a reader error is the transcoder's error: nothing is written -/
theorem transcode_read_error (cfg : Cfg) (d : Desc) (fuel : Nat) (f : FnD) (req : Val) (src dst : Fmt) (p : Payload)
    (na : List Nat) (e : CErr) (hg : tl2Missing f src dst = false) (hna : resultArgs f req = some na)
    (hd : decodeResult cfg d fuel f na src p = .error e) :
    transcode cfg d fuel f req src dst p = .error e := by
  rw [transcode_is_decode_then_encode cfg d fuel f req src dst p na hg hna, hd]

/-- TL2-origin functions have no TL1 result code: the TL1-source transcoders fail on every input -/
theorem transcode_tl1_of_tl2_origin (cfg : Cfg) (d : Desc) (fuel : Nat) (f : FnD) (req : Val) (dst : Fmt) (bs : Bytes)
    (na : List Nat) (ho : f.s.originTL2 = true) (hg : tl2Missing f .tl1 dst = false) (hna : resultArgs f req = some na) :
    transcode cfg d fuel f req .tl1 dst (.bytes bs) = .error .rej :=
  transcode_read_error cfg d fuel f req .tl1 dst _ na .rej hg hna (by simp [decodeResult, ho])

/-! ## the nat arguments of the result come from the request -/

/-- constants are themselves, `field i` is the value of the request's `#` field `i` (0 when that field is masked out) -/
theorem result_args_from_request (f : FnD) (fs : List (Option Val)) :
    resultArgs f (.struct fs) = natArgVals fs [] f.s.resultNatArgs ∧
    (∀ n, natArgVal fs [] (.num n) = some n) ∧
    (∀ i n, fs[i]? = some (some (.nat n)) → natArgVal fs [] (.field i) = some n) ∧
    (∀ i, fs[i]? = some none → natArgVal fs [] (.field i) = some 0) := by
  refine ⟨rfl, fun _ => rfl, ?_, ?_⟩
  · intro i n h; simp [natArgVal, h]
  · intro i h; simp [natArgVal, h]

/-- `f a:# b:# = T b a`: the arguments are taken in the order the result type names them, not in request order -/
example : resultArgs { s := { tag := 1, nparams := 0, fields := [], isFunction := true, resultNatArgs := [.field 1, .field 0, .num 7] } }
    (.struct [some (.nat 3), some (.nat 5)]) = some [5, 3, 7] := by rfl

/-! ## TL1 → TL2 → TL1 -/

/-- `WriteResultTL2` ∘ `ReadResultTL2` on covered values (`Good` at `zeroIfEmpty = true`) -/
theorem result_tl2_wrapper_roundtrip (d : Desc) (fuel : Nat) (f : FnD) (hal : f.resultAlias = false) (v : Val) (w rest : Bytes)
    (hg : Good d fuel f.s.resultTy true v) (hw : writeResultTL2 d fuel f v = .ok w) (hsz : w.length < 2 ^ 63) :
    readResultTL2 d fuel f (w ++ rest) = .ok (v, rest) :=
  resultTL2_roundtrip d fuel f hal v w rest hg hw hsz

/-- **TL1 → TL2 → TL1 reproduces the result bytes** (partial: guards of C02 and C03/C04, see the header).
`bs` = result bytes followed by anything (`rest` is what `ReadResultTL1` leaves). -/
theorem result_tl1_tl2_tl1_partial (cfg : Cfg) (d : Desc) (S : Nat → Bool) (hcl : d.closed S = true)
    (hnd : d.allOn S (fun i => !i.isDict) = true) (hnb : d.allOn S (fun i => !i.isBitPrim) = true)
    (fuel : Nat) (f : FnD) (req : Val) (na : List Nat) (bs rest : Bytes) (v : Val)
    (hal : f.resultAlias = false) (ho : f.s.originTL2 = false) (ht : f.s.hasTL2 = true)
    (hna : resultArgs f req = some na) (hS : S f.s.resultTy = true)
    (hr : readTL1 cfg d fuel f.s.resultTy false na bs = .ok (v, rest))
    (hg : Good d fuel f.s.resultTy true v) :
    ∃ w2 pre, bs = pre ++ rest ∧
      transcode cfg d fuel f req .tl1 .tl2 (.bytes bs) = .ok (.bytes w2, rest) ∧
      (w2.length < 2 ^ 63 → ∀ rest2,
        transcode cfg d fuel f req .tl2 .tl1 (.bytes (w2 ++ rest2)) = .ok (.bytes pre, rest2)) := by
  obtain ⟨pre, hpre, hw1⟩ := Props.C02.tl1_canonical_on cfg d S hcl hnd hnb fuel _ _ _ _ _ _ hS hr
  obtain ⟨r, he⟩ := good_enc_ok d fuel f.s.resultTy true v hg
  have hw2 : writeResultTL2 d fuel f v = .ok (optBytes (objTL2 false (bodyTL2 0 [r]))) := by
    simp [writeResultTL2, hal, he]
  refine ⟨optBytes (objTL2 false (bodyTL2 0 [r])), pre, hpre, ?_, ?_⟩
  · rw [transcode_tl1_tl2 cfg d fuel f req bs na ho ht hna, hr]
    simp only [hw2]
    rfl
  · intro hsz rest2
    rw [transcode_tl2_tl1 cfg d fuel f req _ na ho ht hna,
      resultTL2_roundtrip d fuel f hal v _ rest2 hg hw2 hsz]
    simp only [writeTL1Z_of_writeTL1 d fuel _ _ _ _ _ hw1]
    rfl

/-! ### the former inherited counter-example: `-0.0` (now preserved) -/

/-- the full-strength statement (not proved: it needs the guards of `result_tl1_tl2_tl1_partial`; the `-0.0` counter-example is gone) -/
def ResultTL1TL2TL1 : Prop :=
  ∀ (cfg : Cfg) (d : Desc) (fuel : Nat) (f : FnD) (req : Val) (bs w2 rest : Bytes), f.resultAlias = false →
    transcode cfg d fuel f req .tl1 .tl2 (.bytes bs) = .ok (.bytes w2, rest) →
    ∃ pre, bs = pre ++ rest ∧ transcode cfg d fuel f req .tl2 .tl1 (.bytes w2) = .ok (.bytes pre, [])

/-- `double ? = Double; @read f = Double;` — instance 0 `double`, 1 the boxed typedef `Double` (tag 1), 2 the function -/
def dblFn : Desc :=
  { insts := #[.prim .f64,
      .struct { tag := 1, nparams := 0, hasTL2 := true, isAlias := true, isTypedef := true, isUnwrap := true,
                fields := [{ name := "", ty := 0, bare := true, mask := none, tl2bit := none, isBit := false, natArgs := [] }] },
      .struct { tag := 2, nparams := 0, hasTL2 := true, isFunction := true, resultTy := 1, fields := [] }],
    tlnames := #["double", "double", "f"] }

def dblF : FnD := { s := { tag := 2, nparams := 0, hasTL2 := true, isFunction := true, resultTy := 1, fields := [] } }

/-- **`-0.0` at the top of a result** (the former counter-example L2). A function returning `Double`: the result is written with
`zeroIfEmpty`, and since the generated code tests floats with `(x != 0 || 1/x < 0)` the result `-0.0` is not empty: it travels
as its eight bytes and comes back as `-0.0`. -/
theorem result_tl1_tl2_tl1_negzero_at :
    transcode {} dblFn 4 dblF (.struct []) .tl1 .tl2 (.bytes [1, 0, 0, 0, 0, 0, 0, 0, 0, 0, 0, 0x80]) =
      .ok (.bytes [9, 2, 0, 0, 0, 0, 0, 0, 0, 0x80], []) ∧
    transcode {} dblFn 4 dblF (.struct []) .tl2 .tl1 (.bytes [9, 2, 0, 0, 0, 0, 0, 0, 0, 0x80]) =
      .ok (.bytes [1, 0, 0, 0, 0, 0, 0, 0, 0, 0, 0, 0x80], []) := by
  constructor
  · rfl
  · simp [transcode, dblF, resultArgs, natArgVals, decodeResult, readResultTL2, sliceBody, parseSize, tl2ParseSize, liftP,
      readHead, readByte, readTL2, readPrim2, readU64, readU32, testBit, zeroVal, dblFn, Desc.get?,
      zeroPrim, encodeResult, writeResultTL1, writeTL1Z, writeFieldsZWith, fieldPresent,
      writePrim, u32le, u64le, byteOf, Except.map, mediumMarker_eq]

/-- `-0.0` at the top of the result is `Good` at `zeroIfEmpty = true` (it used to be the excluded value), like `1.0` -/
example : goodPrim .f64 true (.nat 0x8000000000000000) = true ∧ goodPrim .f64 true (.nat 0x3FF0000000000000) = true := ⟨rfl, rfl⟩

/-- the same function, result `1.0`: both transcoders, bytes reproduced -/
example :
    transcode {} dblFn 4 dblF (.struct []) .tl1 .tl2 (.bytes [1, 0, 0, 0, 0, 0, 0, 0, 0, 0, 0xF0, 0x3F]) =
      .ok (.bytes [9, 2, 0, 0, 0, 0, 0, 0, 0xF0, 0x3F], []) := by rfl

/-! ## TL1 → JSON → TL1 -/

/-- C05's round-trip statement at one value: the JSON written reads back to a value with the same TL1 encoding.
C05 proves it for primitives (`prim_roundtrip_*`), refutes it for `-0.0` / NaN payloads, and explores the rest by its tie. -/
def JsonRoundTripsAt (d : Desc) (fuel ty : Nat) (na : List Nat) (v : Val) : Prop :=
  ∀ j, writeJson d fuel ty na v = .ok j →
    ∃ v' v'', readJson d false parseJson fuel ty na (some j) = .ok v' ∧ jfillTL1 d fuel ty na v' = .ok v'' ∧
      writeTL1 d fuel ty false na v'' = writeTL1 d fuel ty false na v

/-- **TL1 → JSON → TL1 reproduces the result bytes** (partial: C02's guard, and C05's round trip at the decoded value as an
explicit hypothesis). -/
theorem result_tl1_json_tl1_partial (cfg : Cfg) (d : Desc) (S : Nat → Bool) (hcl : d.closed S = true)
    (hnd : d.allOn S (fun i => !i.isDict) = true) (hnb : d.allOn S (fun i => !i.isBitPrim) = true)
    (fuel : Nat) (f : FnD) (req : Val) (na : List Nat) (bs rest : Bytes) (v : Val) (j : Json)
    (ho : f.s.originTL2 = false) (hna : resultArgs f req = some na) (hS : S f.s.resultTy = true)
    (hr : readTL1 cfg d fuel f.s.resultTy false na bs = .ok (v, rest))
    (hj : writeJson d fuel f.s.resultTy na v = .ok j)
    (hrt : JsonRoundTripsAt d fuel f.s.resultTy na v) :
    ∃ pre, bs = pre ++ rest ∧
      transcode cfg d fuel f req .tl1 .json (.bytes bs) = .ok (.json j, rest) ∧
      transcode cfg d fuel f req .json .tl1 (.json j) = .ok (.bytes pre, []) := by
  obtain ⟨pre, hpre, hw1⟩ := Props.C02.tl1_canonical_on cfg d S hcl hnd hnb fuel _ _ _ _ _ _ hS hr
  obtain ⟨v', v'', h1, h2, h3⟩ := hrt j hj
  refine ⟨pre, hpre, ?_, ?_⟩
  · rw [transcode_tl1_json cfg d fuel f req bs na ho hna, hr]
    simp only [hj]
    rfl
  · rw [transcode_json_tl1 cfg d fuel f req j na ho hna, h1]
    simp only [h2, h3, hw1]
    rfl

/-- the hypothesis is met by `Bool` results: `true` / `false` are written and read back as themselves -/
theorem json_roundtrips_at_bool (d : Desc) (fuel ty : Nat) (na : List Nat) (ft tt : Nat) (b : Bool)
    (hty : d.get? ty = some (.prim (.bool ft tt))) : JsonRoundTripsAt d (fuel + 1) ty na (.bool b) := by
  intro j hj
  have hw : writeJson d (fuel + 1) ty na (.bool b) = .ok (.bool b) := by
    simp only [writeJson, hty]
    rfl
  rw [hw] at hj
  cases hj
  refine ⟨.bool b, .bool b, ?_, ?_, rfl⟩
  · simp only [readJson, hty]
    rfl
  · simp [jfillTL1, hty]

/-- **Functions returning `Bool`** (e.g. `memcache.add … = Bool`): TL1 → JSON → TL1 reproduces the four result bytes, no
hypothesis about JSON left. -/
theorem result_tl1_json_tl1_bool (cfg : Cfg) (d : Desc) (S : Nat → Bool) (hcl : d.closed S = true)
    (hnd : d.allOn S (fun i => !i.isDict) = true) (hnb : d.allOn S (fun i => !i.isBitPrim) = true)
    (fuel : Nat) (f : FnD) (req : Val) (na : List Nat) (bs rest : Bytes) (v : Val) (ft tt : Nat)
    (ho : f.s.originTL2 = false) (hna : resultArgs f req = some na) (hS : S f.s.resultTy = true)
    (hty : d.get? f.s.resultTy = some (.prim (.bool ft tt)))
    (hr : readTL1 cfg d (fuel + 1) f.s.resultTy false na bs = .ok (v, rest)) :
    ∃ pre b, bs = pre ++ rest ∧
      transcode cfg d (fuel + 1) f req .tl1 .json (.bytes bs) = .ok (.json (.bool b), rest) ∧
      transcode cfg d (fuel + 1) f req .json .tl1 (.json (.bool b)) = .ok (.bytes pre, []) := by
  have hv : ∃ b, v = .bool b := by
    simp only [readTL1, hty, readPrim] at hr
    split at hr
    · cases hr
    · split at hr
      · cases hr; exact ⟨false, rfl⟩
      · split at hr
        · cases hr; exact ⟨true, rfl⟩
        · cases hr
  obtain ⟨b, rfl⟩ := hv
  have hj : writeJson d (fuel + 1) f.s.resultTy na (.bool b) = .ok (.bool b) := by
    simp only [writeJson, hty]; rfl
  obtain ⟨pre, h1, h2, h3⟩ := result_tl1_json_tl1_partial cfg d S hcl hnd hnb (fuel + 1) f req na bs rest _ _ ho hna hS hr hj
    (json_roundtrips_at_bool d fuel _ na ft tt b hty)
  exact ⟨pre, b, h1, h2, h3⟩

/-! ### the inherited counter-example (NaN payloads) and the repaired one (`-0.0`) -/

/-- the full-strength statement (JSON payload = the tree the first transcoder wrote) -/
def ResultTL1JSONTL1 : Prop :=
  ∀ (cfg : Cfg) (d : Desc) (fuel : Nat) (f : FnD) (req : Val) (bs rest : Bytes) (j : Json),
    transcode cfg d fuel f req .tl1 .json (.bytes bs) = .ok (.json j, rest) →
    ∃ pre, bs = pre ++ rest ∧ transcode cfg d fuel f req .json .tl1 (.json j) = .ok (.bytes pre, [])

/-- `t x:float = T; @read g = T;` — instance 0 `float`, 1 the struct (tag 1), 2 the function -/
def fltFn : Desc :=
  { insts := #[.prim .f32,
      .struct { tag := 1, nparams := 0, fields := [{ name := "x", ty := 0, bare := true, mask := none, tl2bit := none, isBit := false, natArgs := [] }] },
      .struct { tag := 2, nparams := 0, isFunction := true, resultTy := 1, fields := [] }],
    tlnames := #["float", "t", "g"] }

def fltF : FnD := { s := { tag := 2, nparams := 0, isFunction := true, resultTy := 1, fields := [] } }

/-- evaluation of `ReadResultJSONWriteResultTL1` step by step (`jfillTL1` does not reduce by `rfl`) -/
theorem json_tl1_eval (cfg : Cfg) (d : Desc) (fuel : Nat) (f : FnD) (req : Val) (j : Json) (na : List Nat) (v v' : Val) (b : Bytes)
    (ho : f.s.originTL2 = false) (hna : resultArgs f req = some na)
    (h1 : readJson d false parseJson fuel f.s.resultTy na (some j) = .ok v)
    (h2 : jfillTL1 d fuel f.s.resultTy na v = .ok v') (h3 : writeTL1 d fuel f.s.resultTy false na v' = .ok b) :
    transcode cfg d fuel f req .json .tl1 (.json j) = .ok (.bytes b, []) := by
  rw [transcode_json_tl1 cfg d fuel f req j na ho hna, h1]
  dsimp only
  rw [h2]
  dsimp only
  rw [h3]
  rfl

theorem jfill_flt (n : Nat) : jfillTL1 fltFn 4 fltF.s.resultTy [] (.struct [some (.nat n)]) = .ok (.struct [some (.nat n)]) := by
  simp [jfillTL1, jfillTL1.go, fltFn, fltF, Desc.get?, fieldPresent, natArgVals, unhide, Except.map]

/-- former finding L2, repaired in the generator (a float is empty iff its bit pattern is zero): `x = -0.0` is written as `-0` and
reads back with its sign bit — the old witness now round-trips. -/
theorem result_tl1_json_tl1_neg_zero_roundtrips :
    transcode {} fltFn 4 fltF (.struct []) .tl1 .json (.bytes [1, 0, 0, 0, 0, 0, 0, 0x80]) =
      .ok (.json (.obj [(strBytes "x", .num ['-', '0'])]), []) ∧
    transcode {} fltFn 4 fltF (.struct []) .json .tl1 (.json (.obj [(strBytes "x", .num ['-', '0'])])) =
      .ok (.bytes [1, 0, 0, 0, 0, 0, 0, 0x80], []) :=
  ⟨by rfl, json_tl1_eval {} fltFn 4 fltF _ _ [] _ _ _ rfl rfl (by rfl) (jfill_flt 0x80000000) (by rfl)⟩

/-- **L3.** A NaN with a payload is written as `"NaN"` and reads back as Go's canonical NaN. -/
theorem result_tl1_json_tl1_fails_at_nan_payload :
    transcode {} fltFn 4 fltF (.struct []) .tl1 .json (.bytes [1, 0, 0, 0, 1, 0, 0xC0, 0x7F]) =
      .ok (.json (.obj [(strBytes "x", .str (strBytes "NaN"))]), []) ∧
    transcode {} fltFn 4 fltF (.struct []) .json .tl1 (.json (.obj [(strBytes "x", .str (strBytes "NaN"))])) =
      .ok (.bytes [1, 0, 0, 0, 0, 0, 0xC0, 0x7F], []) :=
  ⟨by rfl, json_tl1_eval {} fltFn 4 fltF _ _ [] _ _ _ rfl rfl (by rfl) (jfill_flt 0x7FC00000) (by rfl)⟩

theorem result_tl1_json_tl1_fails : ¬ ResultTL1JSONTL1 := by
  intro h
  obtain ⟨h1, h2⟩ := result_tl1_json_tl1_fails_at_nan_payload
  obtain ⟨pre, hp, ht⟩ := h _ _ _ _ _ _ _ _ h1
  rw [h2] at ht
  injection ht with ht
  injection ht with ht _
  injection ht with ht
  subst ht
  simp at hp

/-- inside the guard the same function round-trips: `x = 1.5` -/
example :
    transcode {} fltFn 4 fltF (.struct []) .tl1 .json (.bytes [1, 0, 0, 0, 0, 0, 0xC0, 0x3F]) =
      .ok (.json (.obj [(strBytes "x", .num ['1', '.', '5'])]), []) ∧
    transcode {} fltFn 4 fltF (.struct []) .json .tl1 (.json (.obj [(strBytes "x", .num ['1', '.', '5'])])) =
      .ok (.bytes [1, 0, 0, 0, 0, 0, 0xC0, 0x3F], []) :=
  ⟨by rfl, json_tl1_eval {} fltFn 4 fltF _ _ [] _ _ _ rfl rfl (by rfl) (jfill_flt 0x3FC00000) (by rfl)⟩

/-- the hypotheses of the partial theorems are satisfiable on these descriptors: the result types reach no dictionary and no `bit` -/
example : dblFn.closed (dblFn.reach 1) = true ∧ dblFn.allOn (dblFn.reach 1) (fun i => !i.isDict) = true ∧
    dblFn.allOn (dblFn.reach 1) (fun i => !i.isBitPrim) = true ∧ dblFn.reach 1 1 = true := by decide

end TLVerif.Props.C07
