import TLVerif.Lint.CoreLemmas
import TLVerif.Lint.Examples
/-! C29 — the linter accepts documented safe schema evolutions.
All statements are about `lintCore`, the model of `tlcodegen.CheckBackwardCompatibility` (tied to the Go code by the
differential run of `checks/C29.py`). `lintCore old new = .ok` means "CheckBackwardCompatibility returns nil".
Hypotheses are decidable: pairwise different names, and "no index panic inside checkNatUsages"
(`(layout s).panicked = false`, which holds for every schema whose references have at most as many arguments as the
referenced type has template arguments). -/
namespace TLVerif.Props.C29
open TLVerif.Lint

/-- every schema is compatible with itself. -/
theorem lint_refl (s : Schema) (hd : consDistinct s) (hp : (layout s).panicked = false) : lintCore s s = .ok :=
  lintCore_refl s hd hp

/-- any number of combinators inserted anywhere (new types, new constructors, new functions): accepted as soon as
(1) a type that was a single constructor and becomes a union is used only boxed — at every position of every
reference of the old schema, `[ ]` repeats included (`usedBareSomewhere`, defined independently of the linter) —
and (2) every new function has no arguments or a first argument of type `#`. -/
theorem accepts_insertions {old new : Schema} (hsub : old.Sublist new) (hd : allDistinct new)
    (hp : (layout old).panicked = false ∧ (layout new).panicked = false)
    (hbox : ∀ T c, typeCombs old T = [c] → (typeCombs new T).length > 1 → usedBareSomewhere old c = false)
    (hnew : ∀ f ∈ funcCombs new, (findFunc old f.name).isSome = false → firstArgOk f = true) :
    lintCore old new = .ok :=
  lintCore_accepts_insertions hsub hd.cons hd.func hp
    (fun T c h1 h2 => boxCheckAll_ok_of_onlyBoxed (hbox T c h1 h2)) hnew

/-- append a constructor to a type that is already a union (no condition on its uses). -/
theorem accepts_append_constructor_to_union (pre post : Schema) (k : Comb) (hk : isTypeComb k = true)
    (hunion : (typeCombs (pre ++ post) k.tyName).length ≠ 1)
    (hd : allDistinct (pre ++ k :: post))
    (hp : (layout (pre ++ post)).panicked = false ∧ (layout (pre ++ k :: post)).panicked = false) :
    lintCore (pre ++ post) (pre ++ k :: post) = .ok := by
  apply lintCore_accepts_insert_one pre post k hd.cons hd.func hp
  · intro _ c heq
    rw [heq] at hunion
    simp at hunion
  · intro hf
    simp [isTypeComb, hf] at hk

/-- append a constructor to a single-constructor type that is used only boxed. -/
theorem accepts_append_constructor_boxed (pre post : Schema) (k c : Comb) (hk : isTypeComb k = true)
    (hone : typeCombs (pre ++ post) k.tyName = [c]) (hboxed : usedBareSomewhere (pre ++ post) c = false)
    (hd : allDistinct (pre ++ k :: post))
    (hp : (layout (pre ++ post)).panicked = false ∧ (layout (pre ++ k :: post)).panicked = false) :
    lintCore (pre ++ post) (pre ++ k :: post) = .ok := by
  apply lintCore_accepts_insert_one pre post k hd.cons hd.func hp
  · intro _ c' heq
    rw [hone] at heq
    simp only [List.cons.injEq, and_true] at heq
    subst heq
    exact hboxed
  · intro hf
    simp [isTypeComb, hf] at hk

/-- add a new type (a constructor of a type name that did not exist). -/
theorem accepts_new_type (pre post : Schema) (k : Comb) (hk : isTypeComb k = true)
    (hnew : typeCombs (pre ++ post) k.tyName = [])
    (hd : allDistinct (pre ++ k :: post))
    (hp : (layout (pre ++ post)).panicked = false ∧ (layout (pre ++ k :: post)).panicked = false) :
    lintCore (pre ++ post) (pre ++ k :: post) = .ok := by
  apply accepts_append_constructor_to_union pre post k hk _ hd hp
  rw [hnew]; simp

/-- add a new function without arguments or whose first argument is a field mask (`#`). -/
theorem accepts_new_function (pre post : Schema) (k : Comb) (hk : k.isFunc = true) (hfirst : firstArgOk k = true)
    (hd : allDistinct (pre ++ k :: post))
    (hp : (layout (pre ++ post)).panicked = false ∧ (layout (pre ++ k :: post)).panicked = false) :
    lintCore (pre ++ post) (pre ++ k :: post) = .ok := by
  apply lintCore_accepts_insert_one pre post k hd.cons hd.func hp
  · intro h; simp [isTypeComb, hk] at h
  · intro _; exact hfirst

/-- append a field guarded by an unused bit of an existing field mask: `oc` (a constructor or a function, at any
position) gets one more field `f` with mask `m.name.(m.bit)`, where `m.name` is a local field of type `#` (the
first field with that name, index `k`), the bit is used by no existing field of `oc` (`directBits`), the mask field
is not passed to any type in later fields / the result (`passedAsArg`), and the new field's name is not a name the
combinator refers to. -/
theorem accepts_append_masked_field (pre post : Schema) (oc : Comb) (f : Field) (m : Mask)
    (hnb : isTypeComb oc = true ∨ oc.isFunc = true)
    (hd : allDistinct (pre ++ oc :: post))
    (hp : (layout (pre ++ oc :: post)).panicked = false ∧
          (layout (pre ++ { oc with fields := oc.fields ++ [f] } :: post)).panicked = false)
    (hm : f.mask = some m) (hfresh : f.name ∉ usedNames oc)
    (hnt : firstIdx (fun a : TArg => a.name == m.name) oc.targs = none)
    {k : Nat} (hk : firstIdx (fun g : Field => g.name == m.name) oc.fields = some k)
    {fm : Field} (hfm : oc.fields[k]? = some fm) (hty : fm.ty.name = "#")
    (hfree : m.bit ∉ directBits oc k fm.name)
    (hnopass : ∀ t ∈ laterRefs oc k, passedAsArg fm.name t = false) :
    lintCore (pre ++ oc :: post) (pre ++ { oc with fields := oc.fields ++ [f] } :: post) = .ok := by
  have hdn : allDistinct (pre ++ { oc with fields := oc.fields ++ [f] } :: post) := by
    unfold allDistinct at hd ⊢
    simpa [List.map_append, List.map_cons] using hd
  apply lintCore_accepts_replace pre post oc { oc with fields := oc.fields ++ [f] } ⟨rfl, rfl, rfl, rfl⟩ hdn hp
  have hoc : oc ∈ natCombs (pre ++ oc :: post) := by
    rcases hnb with h | h
    · exact mem_natCombs_of_type (T := oc.tyName) (mem_typeCombs.mpr ⟨by simp, h, rfl⟩)
    · exact mem_natCombs_of_func hd.func (List.mem_filter.mpr ⟨by simp, h⟩)
  exact checkComb_ok_of_appended_masked hd hoc hm hfresh hnt hk hfm hty hfree hnopass

/-! Hypotheses are satisfiable by non-trivial values. -/

open TLVerif.Lint.Ex in
example : lintCore base base = .ok := lint_refl base (by decide) (by decide)

open TLVerif.Lint.Ex in
/-- `obj m:# a:m.0?int b:long` gets `c:m.3?string`. -/
example : lintCore base (prelude ++ [foo, { obj with fields := obj.fields ++ [mfld "c" "m" 3 (ref "string")] }, getF]) = .ok :=
  accepts_append_masked_field (prelude ++ [foo]) [getF] obj (mfld "c" "m" 3 (ref "string")) ⟨"m", 3⟩
    (Or.inl (by decide)) (by decide) (by decide) rfl (by decide) (by decide) (k := 0) (by decide) (fm := fld "m" (ref "#"))
    rfl (by decide) (by decide) (by decide)

open TLVerif.Lint.Ex in
/-- `Foo` (used only boxed) gets a second constructor. -/
example : lintCore base (prelude ++ [foo, foo2, obj, getF]) = .ok :=
  accepts_append_constructor_boxed (prelude ++ [foo]) [obj, getF] foo2 foo (by decide) rfl (by decide) (by decide) (by decide)

end TLVerif.Props.C29
