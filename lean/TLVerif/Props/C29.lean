import TLVerif.Lint.Core
namespace TLVerif.Props.C29
open TLVerif.Lint
end TLVerif.Props.C29
