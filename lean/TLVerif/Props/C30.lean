import TLVerif.Lint.Core
namespace TLVerif.Props.C30
open TLVerif.Lint
end TLVerif.Props.C30
