import TLVerif.Lint.CoreLemmas
import TLVerif.Lint.Examples
/-! C30 — the linter rejects documented unsafe schema evolutions, wherever in the schema the edit occurs.
Statements are about `lintCore` (model of `CheckBackwardCompatibility`, tied by `checks/C30.py`).
`lintCore old new ≠ .ok` = "the new schema is not accepted" (an error is returned, or — see `fewer_args_panics` —
the Go code panics). Position independence is explicit: combinators are found through `∈ typeCombs …`/`∈ funcCombs …`
(any position in the schema), fields through an index, nodes of a type through a path.

FULL-STRENGTH STATEMENT (as in the property): every edit of the listed kinds is rejected wherever it occurs.
It FAILS on the real code for four kinds of position (defects, proved below as `…_fails`):
  * a bare use that is not on the "first non-arithmetic argument" spine of a reference (`checkBoxUsage`),
  * anything inside `[ ]` repeats (never visited by `checkAllTypeRefs`, never compared by `compareTypes`),
  * the bare flag `%` of a reference (never compared),
  * a reference that loses an argument (index panic instead of an error).
The `_partial` theorems hold under the exact guards that exclude those. -/
namespace TLVerif.Props.C30
open TLVerif.Lint

/-! ### removals -/

/-- removes a constructor (anywhere). -/
theorem rejects_removed_constructor (pre post : Schema) (c : Comb) (hc : isTypeComb c = true)
    (hd : consDistinct (pre ++ c :: post)) : lintCore (pre ++ c :: post) (pre ++ post) ≠ .ok :=
  lintCore_ne_ok_of_removed_cons pre post c hc hd

/-- removes a function (anywhere). -/
theorem rejects_removed_function (pre post : Schema) (o : Comb) (ho : o.isFunc = true)
    (hd : funcDistinct (pre ++ o :: post)) : lintCore (pre ++ o :: post) (pre ++ post) ≠ .ok :=
  lintCore_ne_ok_of_removed_func pre post o ho hd

/-- general form: an old constructor without a same-named constructor in the same type of the new schema. -/
theorem rejects_missing_constructor {old new : Schema} {T : String} {c : Comb} (hc : c ∈ typeCombs old T)
    (hmiss : ∀ d ∈ typeCombs new T, d.name ≠ c.name) : lintCore old new ≠ .ok := by
  apply lintCore_ne_ok_of_cons hc
  have : findLast (fun d => d.name == c.name) (typeCombs new T) = none :=
    findLast_none.mpr (fun d hd => by simpa using hmiss d hd)
  rw [this]; trivial

/-- removes a field or a template argument of a constructor (the edited constructor `c'` is wherever it is). -/
theorem rejects_fewer_fields_or_targs {old new : Schema} {T : String} {c c' : Comb}
    (hc : c ∈ typeCombs old T) (hc' : c' ∈ typeCombs new T) (hname : c'.name = c.name) (hd : consDistinct new)
    (hless : c'.fields.length < c.fields.length ∨ c'.targs.length < c.targs.length) : lintCore old new ≠ .ok := by
  apply lintCore_ne_ok_of_cons_edit hc hc' hname hd
  rcases hless with h | h
  · rw [checkComb_fewer_fields h]; simp
  · exact checkComb_fewer_targs h

/-- the same for functions. -/
theorem rejects_fewer_fields_function {old new : Schema} {o f : Comb}
    (ho : o ∈ funcCombs old) (hf : f ∈ funcCombs new) (hname : f.name = o.name)
    (hdo : funcDistinct old) (hdn : funcDistinct new)
    (hless : f.fields.length < o.fields.length) : lintCore old new ≠ .ok := by
  apply lintCore_ne_ok_of_func_edit ho hf hname hdo hdn
  rw [checkComb_fewer_fields hless]; simp

/-! ### existing fields: type, mask reference, mask bit, mask added / removed -/

/-- what `compareTypes` guarantees when it accepts: at EVERY path of the old type tree the new tree has a node
of the same kind, with the same constant, resp. a head name that is "the same" (equal, or a local name mapped to
the same field / template argument index). Contrapositive: a change of a head name, a constant, or of the kind of
an argument at any depth (1st, 2nd, 3rd … argument, nested) is rejected. -/
theorem compare_accepts_only_same_nodes {nm om : String → Option Int} {t' t : TypeRef}
    (h : cmpType nm om t' t = .ok) (p : List Nat) : nodeOk nm om (nodeAt t' p) (nodeAt t p) :=
  cmpType_ok_nodeAt nm om t' t h p

/-- changes the type of an existing field: if at some path the old tree has head `n` and the new tree has no node,
a constant, or a head `n'` that is not the same (`headBad`), the edit is rejected — for a field at any index `i` of
a constructor at any position. -/
theorem rejects_changed_field_type_partial {old new : Schema} {T : String} {c c' : Comb}
    (hc : c ∈ typeCombs old T) (hc' : c' ∈ typeCombs new T) (hname : c'.name = c.name) (hd : consDistinct new)
    {i : Nat} (hi : i < c.fields.length) (p : List Nat)
    (hdiff : ∀ nf, c'.fields[i]? = some nf →
      ¬ nodeOk (mapping c') (mapping c) (nodeAt nf.ty p) (nodeAt (c.fields[i]).ty p)) :
    lintCore old new ≠ .ok := by
  apply lintCore_ne_ok_of_cons_edit hc hc' hname hd
  apply checkComb_ne_ok_of_field hi
  intro nf hnf hok
  exact hdiff nf hnf (cmpType_ok_nodeAt _ _ _ _ (fieldCheck_eq_ok.mp hok).1 p)

/-- changes the mask reference or the mask bit of an existing field, adds a mask to it or removes its mask. -/
theorem rejects_changed_mask {old new : Schema} {T : String} {c c' : Comb}
    (hc : c ∈ typeCombs old T) (hc' : c' ∈ typeCombs new T) (hname : c'.name = c.name) (hd : consDistinct new)
    {i : Nat} (hi : i < c.fields.length)
    (hdiff : ∀ nf, c'.fields[i]? = some nf →
      (nf.mask.isSome ≠ (c.fields[i]).mask.isSome) ∨
      (∃ a b, nf.mask = some a ∧ (c.fields[i]).mask = some b ∧
        (a.bit ≠ b.bit ∨ ((mapping c') a.name).getD 0 ≠ ((mapping c) b.name).getD 0))) :
    lintCore old new ≠ .ok := by
  apply lintCore_ne_ok_of_cons_edit hc hc' hname hd
  apply checkComb_ne_ok_of_field hi
  intro nf hnf hok
  have hm := maskCheck_eq_ok.mp (fieldCheck_eq_ok.mp hok).2
  rcases hdiff nf hnf with h | ⟨a, b, ha, hb, h⟩
  · rcases hm with ⟨h1, h2⟩ | ⟨a, b, h1, h2, _⟩
    · simp [h1, h2] at h
    · simp [h1, h2] at h
  · rcases hm with ⟨h1, _⟩ | ⟨a', b', h1, h2, h3, h4⟩
    · simp [ha] at h1
    · rw [ha] at h1; rw [hb] at h2
      cases h1; cases h2
      rcases h with h | h
      · exact h h4
      · exact h h3

/-! ### appended fields -/

/-- appends an unmasked field to a constructor (one of possibly several appended fields, at any of the new indices). -/
theorem rejects_appended_unmasked_field {old new : Schema} {T : String} {c c' : Comb}
    (hc : c ∈ typeCombs old T) (hc' : c' ∈ typeCombs new T) (hname : c'.name = c.name) (hd : consDistinct new)
    {f : Field} (hmem : f ∈ c'.fields.drop c.fields.length) (hm : f.mask = none) : lintCore old new ≠ .ok := by
  apply lintCore_ne_ok_of_cons_edit hc hc' hname hd
  have hnf : (c'.isFunc && c.isFunc) = false := by
    have := (mem_typeCombs.mp hc).2.1
    simp only [isTypeComb, Bool.and_eq_true, Bool.not_eq_true'] at this
    simp [this.2]
  exact checkComb_ne_ok_of_unmasked_appended hnf hmem hm

/-- reuses a mask bit already given meaning: an appended field guarded by bit `m.bit` of the local `#` field
`m.name` (index `k`) while an existing later field of the constructor is guarded by the same bit. -/
theorem rejects_reused_mask_bit {old new : Schema} {T : String} {c c' : Comb}
    (hc : c ∈ typeCombs old T) (hc' : c' ∈ typeCombs new T) (hname : c'.name = c.name)
    (hdo : allDistinct old) (hdn : consDistinct new)
    {f : Field} (hmem : f ∈ c'.fields.drop c.fields.length) {m : Mask} (hm : f.mask = some m)
    (hnt : firstIdx (fun a : TArg => a.name == m.name) c'.targs = none)
    {k : Nat} (hk : firstIdx (fun g : Field => g.name == m.name) c'.fields = some k)
    {fm : Field} (hfm : c.fields[k]? = some fm) (hty : fm.ty.name = "#")
    (hbit : m.bit ∈ directBits c k fm.name) : lintCore old new ≠ .ok := by
  apply lintCore_ne_ok_of_cons_edit hc hc' hname hdn
  have hnf : (c'.isFunc && c.isFunc) = false := by
    have := (mem_typeCombs.mp hc).2.1
    simp only [isTypeComb, Bool.and_eq_true, Bool.not_eq_true'] at this
    simp [this.2]
  exact checkComb_ne_ok_of_reused_bit hnf hdo (mem_natCombs_of_type hc) hname hmem hm hnt hk hfm hty hbit

/-! ### a type used bare becomes a union -/

/-- full-strength statement for this kind: whenever a single-constructor type that is used bare ANYWHERE
(`usedBareSomewhere`: any node of any reference, repeats included) gets more constructors, the linter rejects. -/
def UnionStatement : Prop :=
  ∀ (old new : Schema) (T : String) (c : Comb), typeCombs old T = [c] → (typeCombs new T).length > 1 →
    usedBareSomewhere old c = true → lintCore old new ≠ .ok

/-- partial: the bare use (`%T` or the constructor name) is a node on the first-non-arithmetic-argument spine of a
field type or function result that is not inside a repeat. -/
theorem rejects_bare_type_to_union_partial {old new : Schema} {T : String} {c d : Comb}
    (hone : typeCombs old T = [c]) (hmany : (typeCombs new T).length > 1) (hd : d ∈ old)
    {t : TypeRef} (ht : t = d.result ∨ ∃ f ∈ d.fields, t = f.ty)
    {p : List Nat} {n : String} {b : Bool} (hnode : nodeAt t p = some (.ty n b)) (hspine : onFirstSpine t p = true)
    (huse : ((n == c.tyName && b) || n == c.name) = true) : lintCore old new ≠ .ok := by
  have hb := boxUsage_of_spine c.tyName c.name t p n b hnode hspine huse
  apply lintCore_ne_ok_of_union hone hmany hd
  rcases ht with rfl | ⟨f, hf, rfl⟩
  · exact Or.inl hb
  · exact Or.inr ⟨f, hf, hb⟩

open TLVerif.Lint.Ex in
/-- L5: the bare use in the SECOND argument of `(pair int %Foo)` is not seen: the statement fails. -/
theorem union_statement_fails : ¬ UnionStatement := by
  intro h
  exact h l5Old l5New "Foo" foo rfl (by decide) (by decide) (by decide)

open TLVerif.Lint.Ex in
/-- L5, inside a repeat `n*[%Foo]`. -/
theorem union_in_repeat_accepted : lintCore l5rOld l5rNew = .ok ∧ usedBareSomewhere l5rOld foo = true := by decide

/-! ### defects of "changes the type of an existing field" -/

/-- full-strength statement: any change of a field's type (here: of its bare flag) is rejected. -/
def BareChangeStatement : Prop :=
  ∀ (old new : Schema) (T : String) (c c' : Comb), c ∈ typeCombs old T → c' ∈ typeCombs new T → c'.name = c.name →
    consDistinct new → (∃ (i : Nat) (nf of : Field), c'.fields[i]? = some nf ∧ c.fields[i]? = some of ∧ nf.ty.bare ≠ of.ty.bare) →
    lintCore old new ≠ .ok

open TLVerif.Lint.Ex in
/-- L7: `p:%Foo` → `p:Foo` is accepted. -/
theorem bare_change_statement_fails : ¬ BareChangeStatement := by
  intro h
  refine h l7Old l7New "Bar" (cons "bar" 3 "Bar" [] [fld "p" (bref "Foo")]) (cons "bar" 3 "Bar" [] [fld "p" (ref "Foo")])
    (mem_typeCombs.mpr ⟨by simp [l7Old], by decide, rfl⟩) (mem_typeCombs.mpr ⟨by simp [l7New], by decide, rfl⟩)
    rfl (by decide) ⟨0, _, _, rfl, rfl, by decide⟩ (by decide)

/-- the general reason: the verdict of `compareTypes` does not depend on any `%` flag, at any position. -/
theorem compare_ignores_bare (nm om : String → Option Int) (t' t : TypeRef) :
    cmpType nm om (eraseBare t') (eraseBare t) = cmpType nm om t' t := cmpType_eraseBare nm om t' t

open TLVerif.Lint.Ex in
/-- the element type and the scale of a `[ ]` repeat are never compared. -/
theorem repeat_changes_accepted : lintCore repOld repElNew = .ok ∧ lintCore repOld repScNew = .ok := by decide

open TLVerif.Lint.Ex in
/-- a reference that loses a type argument: the Go code panics (index out of range) instead of returning an error. -/
theorem fewer_args_panics : lintCore fewOld fewNew = .panic := by decide

/-! ### the guards are satisfiable -/

open TLVerif.Lint.Ex in
/-- `obj m:# a:m.0?int b:long` → new field `c:m.0?int` reuses bit 0. -/
example : lintCore base (prelude ++ [foo, { obj with fields := obj.fields ++ [mfld "c" "m" 0 (ref "int")] }, getF]) ≠ .ok :=
  rejects_reused_mask_bit (T := "Obj") (c := obj) (c' := { obj with fields := obj.fields ++ [mfld "c" "m" 0 (ref "int")] })
    (mem_typeCombs.mpr ⟨by simp [base], by decide, rfl⟩) (mem_typeCombs.mpr ⟨by simp, by decide, rfl⟩)
    rfl (by decide) (by decide) (f := mfld "c" "m" 0 (ref "int")) (by simp [obj]) (m := ⟨"m", 0⟩) rfl
    (by decide) (k := 0) (by decide) (fm := fld "m" (ref "#")) rfl (by decide) (by decide)

open TLVerif.Lint.Ex in
/-- `bar p:(pair %Foo int)` (first argument): seen, rejected. -/
example : lintCore (prelude ++ [pair, foo, cons "bar" 3 "Bar" [] [fld "p" (.mk "pair" false (.ty (bref "Foo") (.ty (ref "int") .nil)))]])
    (prelude ++ [pair, foo, foo2, cons "bar" 3 "Bar" [] [fld "p" (.mk "pair" false (.ty (bref "Foo") (.ty (ref "int") .nil)))]]) ≠ .ok :=
  rejects_bare_type_to_union_partial (T := "Foo") (c := foo)
    (d := cons "bar" 3 "Bar" [] [fld "p" (.mk "pair" false (.ty (bref "Foo") (.ty (ref "int") .nil)))])
    rfl (by decide) (by simp [prelude])
    (t := .mk "pair" false (.ty (bref "Foo") (.ty (ref "int") .nil))) (Or.inr ⟨_, List.mem_cons_self, rfl⟩)
    (p := [0]) (n := "Foo") (b := true) (by decide) (by decide) (by decide)

end TLVerif.Props.C30
