import TLVerif.Tool.TagsLemmas
import TLVerif.Generated.ToolFacts
/-!
# C24 — Accepted schemas have unique non-zero constructor tags

Statement (fixed): every schema accepted by either generator has pairwise distinct, non-zero tags over all
TL1 constructors and functions and all explicit TL2 magics, and every schema that violates this is rejected.

The theorems are about the model `TLVerif/Tool/Tags.lean` of
`internal/pure/kernel.go checkTagCollisions`, `internal/tlcodegen/tlgen.go checkTagCollisions` and of the magic
rules of the TL2 parser.  They hold for *all* tag lists.  The `*_calls_*` facts (regenerated from the source on
every run) say that the checks are still invoked, before any instantiation / generation.
-/
namespace TLVerif.Props.C24
open TLVerif.Tool TLVerif.Facts.Tool

/-- Legacy generator (`tlgen`): accepted ⇔ all TL1 tags non-zero and pairwise distinct. -/
theorem legacy_check_iff (l : List Tag) :
    legacyCheckTags l = .ok () ↔ (∀ t ∈ l, t ≠ 0) ∧ l.Nodup := by
  unfold legacyCheckTags
  cases h : tl1Loop [] 0 l with
  | error e =>
    simp only [reduceCtorEq, false_iff]
    intro ⟨h0, hn⟩
    have := (tl1Loop_ok_iff l [] 0 (l.reverse ++ [])).mpr ⟨rfl, h0, by simp, hn⟩
    rw [h] at this; cases this
  | ok s =>
    have := (tl1Loop_ok_iff l [] 0 s).mp h
    simp only [true_iff]
    exact ⟨this.2.1, this.2.2.2⟩

/-- Kernel (`tl2gen`): accepted ⇔ all TL1 tags non-zero and the TL1 tags together with the *non-zero* TL2
magics are pairwise distinct.  (A zero `Magic` field means "no magic written"; see `schema_verdict_iff`.) -/
theorem kernel_check_iff (tl1 tl2 : List Tag) :
    kernelCheckTags tl1 tl2 = .ok () ↔ (∀ t ∈ tl1, t ≠ 0) ∧ (tl1 ++ tl2.filter (· ≠ 0)).Nodup := by
  unfold kernelCheckTags
  cases h : tl1Loop [] 0 tl1 with
  | error e =>
    simp only [reduceCtorEq, false_iff]
    intro ⟨h0, hn⟩
    have := (tl1Loop_ok_iff tl1 [] 0 (tl1.reverse ++ [])).mpr ⟨rfl, h0, by simp, (List.nodup_append.mp hn).1⟩
    rw [h] at this; cases this
  | ok s =>
    obtain ⟨hs, h0, _, hn⟩ := (tl1Loop_ok_iff tl1 [] 0 s).mp h
    simp only [List.append_nil] at hs
    simp only []
    cases h2 : tl2Loop s tl2 with
    | error e =>
      simp only [reduceCtorEq, false_iff]
      intro ⟨_, hnn⟩
      obtain ⟨_, hb, hd⟩ := List.nodup_append.mp hnn
      have := (tl2Loop_ok_iff tl2 s _).mpr ⟨rfl, (by
        intro t ht hts; subst hs
        exact hd t (List.mem_reverse.mp hts) t ht rfl), hb⟩
      rw [h2] at this; cases this
    | ok s2 =>
      obtain ⟨_, hd, hb⟩ := (tl2Loop_ok_iff tl2 s s2).mp h2
      simp only [true_iff]
      refine ⟨h0, List.nodup_append.mpr ⟨hn, hb, ?_⟩⟩
      intro a ha b hb' e; subst e; subst hs
      exact hd a hb' (List.mem_reverse.mpr ha)

theorem kernel_eq_legacy_on_tl1 (l : List Tag) : kernelCheckTags l [] = legacyCheckTags l := by
  unfold kernelCheckTags legacyCheckTags
  cases tl1Loop [] 0 l <;> simp only [tl2Loop]

theorem parseTL2Magics_ok_iff (tl2 : List TL2Decl) : ∀ (idx : Nat) (ms : List Tag),
    parseTL2Magics idx tl2 = .ok ms ↔
      (∀ d ∈ tl2, d.magic ≠ some 0) ∧ (∀ d ∈ tl2, d.isFunction = true → d.magic.isSome = true) ∧
      ms = tl2.map (fun d => d.magic.getD 0) := by
  induction tl2 with
  | nil => intro idx ms; simp [parseTL2Magics]
  | cons d rest ih =>
    intro idx ms
    unfold parseTL2Magics parseTL2Magic
    rcases d with ⟨f, m⟩
    cases m with
    | none =>
      cases f
      · simp only [Bool.false_eq_true, if_false]
        cases hr : parseTL2Magics (idx + 1) rest with
        | error e =>
          simp only [reduceCtorEq, false_iff]
          rintro ⟨h1, h2, h3⟩
          have := (ih (idx + 1) (rest.map fun d => d.magic.getD 0)).mpr
            ⟨fun d hd => h1 d (List.mem_cons_of_mem _ hd), fun d hd => h2 d (List.mem_cons_of_mem _ hd), rfl⟩
          rw [hr] at this; cases this
        | ok ms' =>
          obtain ⟨h1, h2, h3⟩ := (ih (idx + 1) ms').mp hr
          simp only [Except.ok.injEq, List.mem_cons, forall_eq_or_imp, List.map_cons, Option.getD_none]
          constructor
          · intro e; subst e; subst h3
            exact ⟨⟨by simp, h1⟩, ⟨by simp, h2⟩, rfl⟩
          · rintro ⟨_, _, e⟩; subst h3; exact e.symm
      · simp
    | some m =>
      by_cases hm : m = 0
      · simp [hm]
      · simp only [hm, if_false]
        cases hr : parseTL2Magics (idx + 1) rest with
        | error e =>
          simp only [reduceCtorEq, false_iff]
          rintro ⟨h1, h2, h3⟩
          have := (ih (idx + 1) (rest.map fun d => d.magic.getD 0)).mpr
            ⟨fun d hd => h1 d (List.mem_cons_of_mem _ hd), fun d hd => h2 d (List.mem_cons_of_mem _ hd), rfl⟩
          rw [hr] at this; cases this
        | ok ms' =>
          obtain ⟨h1, h2, h3⟩ := (ih (idx + 1) ms').mp hr
          simp only [Except.ok.injEq, List.mem_cons, forall_eq_or_imp, List.map_cons, Option.getD_some]
          constructor
          · intro e; subst e; subst h3
            exact ⟨⟨by simp [hm], h1⟩, ⟨by simp, h2⟩, rfl⟩
          · rintro ⟨_, _, e⟩; subst h3; exact e.symm

/-- when no explicit magic is zero, the non-zero `Magic` fields are exactly the explicit magics -/
theorem filter_magics (tl2 : List TL2Decl) (h : ∀ d ∈ tl2, d.magic ≠ some 0) :
    (tl2.map (fun d => d.magic.getD 0)).filter (· ≠ 0) = explicitMagics tl2 := by
  induction tl2 with
  | nil => rfl
  | cons d rest ih =>
    have ih' := ih (fun d hd => h d (List.mem_cons_of_mem _ hd))
    have hd := h d (by simp)
    unfold explicitMagics at *
    rcases d with ⟨f, m⟩
    cases m with
    | none => simpa using ih'
    | some m =>
      have : m ≠ 0 := fun e => hd (by simp [e])
      simp [this]; simpa using ih'

/-- **C24, full strength, for the kernel path (`tl2gen`, every language).**  A schema set whose TL1 combinators
have effective tags `tl1` and whose TL2 combinators are `tl2` passes the tag rules iff
all TL1 tags are non-zero, no explicit TL2 magic is zero, every TL2 function has a magic, and the TL1 tags together with
all explicit TL2 magics are pairwise distinct. -/
theorem schema_verdict_iff (tl1 : List Tag) (tl2 : List TL2Decl) :
    schemaVerdict tl1 tl2 = .ok () ↔
      (∀ t ∈ tl1, t ≠ 0) ∧ (∀ m ∈ explicitMagics tl2, m ≠ 0) ∧
      (∀ d ∈ tl2, d.isFunction = true → d.magic.isSome = true) ∧ (tl1 ++ explicitMagics tl2).Nodup := by
  have hz : (∀ m ∈ explicitMagics tl2, m ≠ 0) ↔ (∀ d ∈ tl2, d.magic ≠ some 0) := by
    unfold explicitMagics
    simp only [List.mem_filterMap, forall_exists_index, and_imp]
    constructor
    · intro h d hd e; exact h 0 d hd e rfl
    · intro h m d hd e em; subst em; exact h d hd e
  unfold schemaVerdict
  cases hp : parseTL2Magics 0 tl2 with
  | error e =>
    simp only [reduceCtorEq, false_iff]
    rintro ⟨_, h2, h3, _⟩
    have := (parseTL2Magics_ok_iff tl2 0 _).mpr ⟨hz.mp h2, h3, rfl⟩
    rw [hp] at this; cases this
  | ok ms =>
    obtain ⟨h1, h2, h3⟩ := (parseTL2Magics_ok_iff tl2 0 ms).mp hp
    simp only []
    rw [kernel_check_iff, h3, filter_magics tl2 h1]
    constructor
    · rintro ⟨a, b⟩; exact ⟨a, hz.mpr h1, h2, b⟩
    · rintro ⟨a, _, _, b⟩; exact ⟨a, b⟩

/-- First half of the property: an accepted schema has pairwise distinct non-zero tags over all TL1
combinators and all explicit TL2 magics. -/
theorem accepted_tags_distinct_nonzero (tl1 : List Tag) (tl2 : List TL2Decl)
    (h : schemaVerdict tl1 tl2 = .ok ()) :
    (∀ t ∈ tl1 ++ explicitMagics tl2, t ≠ 0) ∧ (tl1 ++ explicitMagics tl2).Pairwise (· ≠ ·) := by
  obtain ⟨h1, h2, _, h4⟩ := (schema_verdict_iff tl1 tl2).mp h
  refine ⟨?_, h4⟩
  intro t ht; rcases List.mem_append.mp ht with ht | ht
  · exact h1 t ht
  · exact h2 t ht

/-- Second half: a zero tag or any repeated tag (TL1/TL1, TL1/TL2 or TL2/TL2) is rejected with an error. -/
theorem violating_rejected (tl1 : List Tag) (tl2 : List TL2Decl)
    (h : (0 : Tag) ∈ tl1 ++ explicitMagics tl2 ∨ ¬ (tl1 ++ explicitMagics tl2).Nodup) :
    ∃ e, schemaVerdict tl1 tl2 = .error e := by
  cases hv : schemaVerdict tl1 tl2 with
  | error e => exact ⟨e, rfl⟩
  | ok u =>
    obtain ⟨h1, h2⟩ := accepted_tags_distinct_nonzero tl1 tl2 hv
    rcases h with h | h
    · exact absurd rfl (h1 0 h)
    · exact absurd h2 h

/-- Same two halves for the legacy generator. -/
theorem legacy_accepted_tags_distinct_nonzero (l : List Tag) (h : legacyCheckTags l = .ok ()) :
    (∀ t ∈ l, t ≠ 0) ∧ l.Pairwise (· ≠ ·) := (legacy_check_iff l).mp h

theorem legacy_violating_rejected (l : List Tag) (h : (0 : Tag) ∈ l ∨ ¬ l.Nodup) :
    ∃ e, legacyCheckTags l = .error e := by
  cases hv : legacyCheckTags l with
  | error e => exact ⟨e, rfl⟩
  | ok u =>
    obtain ⟨h1, h2⟩ := (legacy_check_iff l).mp hv
    rcases h with h | h
    · exact absurd rfl (h1 0 h)
    · exact absurd h2 h

/-- The error that is reported names a real defect of the list: a zero tag at the reported index, or a
non-zero tag that occurs at least twice. -/
theorem legacy_error_sound (l : List Tag) (e : TagErr) (h : legacyCheckTags l = .error e) :
    (∃ i, e = .zero i ∧ l[i]? = some 0) ∨ (∃ t, e = .dup t ∧ t ≠ 0 ∧ 2 ≤ l.count t) := by
  unfold legacyCheckTags at h
  cases hl : tl1Loop [] 0 l with
  | ok s => rw [hl] at h; cases h
  | error e' =>
    rw [hl] at h; cases h
    rcases tl1Loop_err l [] 0 e hl with ⟨i, he, _, hz⟩ | ⟨t, he, h0, _, hc⟩
    · left; exact ⟨i, he, by simpa using hz⟩
    · right; refine ⟨t, he, h0, ?_⟩
      rcases hc with hc | hc
      · cases hc
      · exact hc

/-! ### Legacy generator fed TL2 files — the property FAILS there (known finding)

Full-strength statement kept visible; it is false because `tlcodegen.checkTagCollisions` never looks at TL2 magics. -/

/-- what C24 demands of the legacy generator when `.tl2` files are passed to it -/
def LegacyFullStrength : Prop :=
  ∀ (tl1 : List Tag) (tl2 : List TL2Decl), legacySchemaVerdict tl1 tl2 = .ok () →
    (∀ t ∈ tl1 ++ explicitMagics tl2, t ≠ 0) ∧ (tl1 ++ explicitMagics tl2).Nodup

/-- counter-example: `a#00000001 = A;` together with the TL2 type `b#00000001 = ;` is accepted -/
theorem legacy_full_fails_at : ¬ LegacyFullStrength := by
  intro h
  have := (h [1] [⟨false, some 1⟩] (by rfl)).2
  exact absurd this (by decide)

/-- what does hold: everything accepted has non-zero tags, distinct among the TL1 combinators … -/
theorem legacy_schema_partial_nonzero (tl1 : List Tag) (tl2 : List TL2Decl)
    (h : legacySchemaVerdict tl1 tl2 = .ok ()) :
    (∀ t ∈ tl1 ++ explicitMagics tl2, t ≠ 0) ∧ tl1.Nodup := by
  unfold legacySchemaVerdict at h
  cases hp : parseTL2Magics 0 tl2 with
  | error e => rw [hp] at h; cases h
  | ok ms =>
    rw [hp] at h; simp only [] at h
    obtain ⟨h1, _, _⟩ := (parseTL2Magics_ok_iff tl2 0 ms).mp hp
    obtain ⟨a, b⟩ := (legacy_check_iff tl1).mp h
    refine ⟨?_, b⟩
    intro t ht; rcases List.mem_append.mp ht with ht | ht
    · exact a t ht
    · unfold explicitMagics at ht
      obtain ⟨d, hd, e⟩ := List.mem_filterMap.mp ht
      intro e0; subst e0; exact h1 d hd e

/-- … and the full statement under the exact guard "no TL2 combinator carries an explicit magic". -/
theorem legacy_schema_partial (tl1 : List Tag) (tl2 : List TL2Decl) (guard : explicitMagics tl2 = [])
    (h : legacySchemaVerdict tl1 tl2 = .ok ()) :
    (∀ t ∈ tl1 ++ explicitMagics tl2, t ≠ 0) ∧ (tl1 ++ explicitMagics tl2).Nodup := by
  obtain ⟨a, b⟩ := legacy_schema_partial_nonzero tl1 tl2 h
  rw [guard] at *
  simpa using ⟨by simpa using a, b⟩

/-- the guard is satisfiable by a non-trivial schema -/
example : explicitMagics [⟨false, none⟩, ⟨false, none⟩] = [] ∧
    legacySchemaVerdict [5, 6] [⟨false, none⟩, ⟨false, none⟩] = .ok () := ⟨rfl, rfl⟩

/-- hypotheses are satisfiable by non-trivial values, and the error branches are reachable -/
example : schemaVerdict [0x11111111, 0x22222222] [⟨false, none⟩, ⟨true, some 0x33333333⟩, ⟨false, none⟩] = .ok () := by rfl
example : schemaVerdict [0x11111111, 0x22222222] [⟨false, some 0x11111111⟩] = .error (.dup 0x11111111) := by rfl
example : schemaVerdict [0x11111111, 0] [] = .error (.zero 1) := by rfl
example : schemaVerdict [] [⟨true, none⟩] = .error (.tl2nomagic 0) := by rfl
example : schemaVerdict [] [⟨false, some 5⟩, ⟨false, some 0⟩] = .error (.tl2zero 1) := by rfl
example : legacyCheckTags [3, 4, 3] = .error (.dup 3) := by rfl

/-! ## T1 facts: the checks are still called, and before anything is instantiated or generated -/

theorem kernel_calls_check : "checkTagCollisions" ∈ kernelCompileCalls ∧
    kernelCompileCalls.idxOf "checkTagCollisions" < kernelCompileCalls.idxOf "getInstance" := by decide

theorem legacy_calls_check : "checkTagCollisions" ∈ legacyGenerateCodeCalls ∧
    legacyGenerateCodeCalls.idxOf "checkTagCollisions" < legacyGenerateCodeCalls.idxOf "buildMapDescriptors" := by decide

/-- every `tl2gen` output language compiles the kernel first (`Compile` precedes all generation calls) -/
theorem generators_compile_first :
    gengoGenerateCalls.head? = some "Compile" ∧ gentloGenerateCalls.head? = some "Compile" ∧
    gencanonicalGenerateCalls.head? = some "Compile" ∧ gentljsonhtmlGenerateCalls.head? = some "Compile" ∧
    genphpGenerateCalls.idxOf "Compile" < genphpGenerateCalls.idxOf "generateCode" := by decide

end TLVerif.Props.C24
