import TLVerif.Packet.ConnLemmas
/-!
# C35 — Packet stream framing round-trips and detects corruption

Property theorems only (helper lemmas live in `TLVerif/Packet/*Lemmas.lean`).  All statements are about the model
of `pkg/rpc/packetconn.go` + `crypto.go` in `TLVerif/Packet/{Basic,Reader,Script}.lean`, over the constants
extracted from the repository on this run (`Generated/PacketFacts.lean`), for an arbitrary environment `e : Env`
(two CRC functions, a keyed block map); what is needed from the environment is an explicit hypothesis.

Vocabulary: a *history* is a list of `Step`s (mode changes made by both ends just before a packet, the packet,
how it is flushed); `flat` turns it into the flat script the driver and the harness execute; `finalW` runs the
writer model on it and flushes; `WState.wire` are the bytes on the connection; `readLoop (chunkSrc e)` is the
reading loop over the model of `cryptoReader` fed with an arbitrary list of chunks; `schedOfOps` tells the reading
end when to make the mode changes (after as many packets as the writer had written).
-/
namespace TLVerif.Props.C35
open TLVerif.Packet TLVerif.Facts.Packet

/-- **frames_roundtrip (unencrypted).** For every history without encryption switch that the reading side can
accept (`StepsOK`: sizes, handshake packet types for the first two packets, no pong), from every injected start
state, the writer model succeeds, and for EVERY segmentation `cs` of the wire bytes the reading loop returns exactly
the written packets (types and bodies, in order; valid pings as pings) followed by a clean EOF. -/
theorem frames_roundtrip_plain (e : Env) (n0 : Nat) (m0 : Mode) (hm0 : m0.enc = false) (ss : List Step)
    (hok : StepsOK e (freshW n0 m0) ss) (hne : NoEncSteps ss) (f : Nat) :
    ∃ wf, finalW e (flat ss) (freshW n0 m0) = some wf ∧
      ∀ cs : List Bytes, cs.flatten = wf.wire e →
        readLoop (chunkSrc e) e (schedOfOps e (flat ss) (freshW n0 m0)) (ss.length + (f + 1)) ⟨n0, m0⟩ { chunks := cs } =
          (ss.map stepEv, some .eof) :=
  roundtrip_plain_chunks e n0 m0 hm0 ss hok hne f

/-- **frames_roundtrip (with the encrypted handshake).** `pre` is exchanged in the clear; just before the packet
of `es` both ends turn AES-CBC on (key, IV); `post` follows. Under the block-cipher law (`dec k (enc k b) = b` on
blocks) the wire is the clear prefix followed by the CBC encryption of the padded rest, and for EVERY segmentation
of it the reading loop (which decrypts whole blocks as they arrive) returns exactly the written packets. -/
theorem frames_roundtrip_encrypted (e : Env) (he : e.CipherOK) (n0 : Nat) (m0 : Mode) (hm0 : m0.enc = false)
    (pre : List Step) (es : EncStep) (post : List Step)
    (hok : StepsOK e (freshW n0 m0) (pre ++ es.step :: post))
    (hpre : NoEncSteps pre) (h1 : NoEnc es.ms1) (h2 : NoEnc es.ms2) (hpost : NoEncSteps post) (f : Nat) :
    ∃ wf, finalW e (flat (pre ++ es.step :: post)) (freshW n0 m0) = some wf ∧
      wf.wire e = stepsBytes e (freshW n0 m0) pre ++ cbcEnc e es.key es.iv (encTail e (freshW n0 m0) pre es post) ∧
      ∀ cs : List Bytes, cs.flatten = wf.wire e →
        readLoop (chunkSrc e) e (schedOfOps e (flat (pre ++ es.step :: post)) (freshW n0 m0))
            (pre.length + ((post.length + (f + 1)) + 1)) ⟨n0, m0⟩ { chunks := cs } =
          ((pre ++ es.step :: post).map stepEv, some .eof) :=
  roundtrip_enc_chunks e he n0 m0 hm0 pre es post hok hpre h1 h2 hpost f

/-- **chunk_invariant.** For ANY byte stream (well-formed or not), any schedule of mode changes and any reader
state, the result of the reading loop is a function of the concatenation of the chunks. The side condition
concerns only a reader that has read nothing yet: the stream it is about to parse must not start with one of the
four memcached commands (which `readFullOrMagic` recognises per `Read`; see `chunk_dependence_magic`). -/
theorem chunk_invariant (e : Env) (sched : Nat → List ModeOp) (fuel : Nat) (st : RState) (cs₁ cs₂ : List Bytes)
    (hcs : cs₁.flatten = cs₂.flatten)
    (hQ : st.n = 0 → ∀ r, applyModeOps (pureSrc e) st cs₁.flatten (sched st.n) = some r → NoMagic r.2) :
    readLoop (chunkSrc e) e sched fuel st { chunks := cs₁ } = readLoop (chunkSrc e) e sched fuel st { chunks := cs₂ } :=
  Packet.chunk_invariant e sched fuel st cs₁ cs₂ hcs hQ

/-- The chunked, decrypt-as-it-arrives reader refines the reader over the whole remaining decrypted stream. -/
theorem reader_refines_stream (e : Env) (sched : Nat → List ModeOp) (fuel : Nat) (st : RState) (cs : List Bytes)
    (hQ : st.n = 0 → ∀ r, applyModeOps (pureSrc e) st cs.flatten (sched st.n) = some r → NoMagic r.2) :
    readLoop (chunkSrc e) e sched fuel st { chunks := cs } = readLoop (pureSrc e) e sched fuel st cs.flatten :=
  readLoop_chunk_eq_pure e sched fuel st _ _ (CRelB_init e cs _) hQ

/-- The memcached special case really is chunk dependent (outside the property: such a stream is never
produced by a packet writer, whose third byte is always 0). -/
theorem chunk_dependence_magic (e : Env) :
    readLoop (chunkSrc e) e (fun _ => []) 1 {} { chunks := [[115, 116, 97, 116, 115, 10], [0, 0, 0, 0, 0, 0]] } ≠
    readLoop (chunkSrc e) e (fun _ => []) 1 {} { chunks := [[115, 116, 97, 116, 115, 10, 0, 0, 0, 0, 0, 0]] } := by
  have h1 : readLoop (chunkSrc e) e (fun _ => []) 1 {} { chunks := [[115, 116, 97, 116, 115, 10], [0, 0, 0, 0, 0, 0]] } =
      ([], some .eof) := by rfl
  have h2 : readLoop (chunkSrc e) e (fun _ => []) 1 {} { chunks := [[115, 116, 97, 116, 115, 10, 0, 0, 0, 0, 0, 0]] } =
      ([], some .size) := by rfl
  rw [h1, h2]
  decide

/-- CBC over the abstract block map: whole-block plaintext survives encryption and decryption. -/
theorem cbc_roundtrip (e : Env) (he : e.CipherOK) (k iv p : Bytes) (hiv : iv.length = blockSize)
    (hp : p.length % blockSize = 0) : cbcDec e k iv (cbcEnc e k iv p) = p :=
  cbcDec_cbcEnc e k he iv p hiv hp

/-- The writer never leaves the model on an admissible history (in particular `FlushUnlocked` never needs more
than the 12 constant padding bytes), and the logical plaintext stream grows by exactly the frames and paddings. -/
theorem writer_total (e : Env) (w : WState) (ss : List Step) (hok : StepsOK e w ss) (hi : EInv w) :
    runW e (flat ss) w = some (wSteps e w ss) ∧ (wSteps e w ss).L = w.L ++ stepsBytes e w ss :=
  ⟨(runW_steps e w ss hok hi).1, (runW_steps e w ss hok hi).2.1⟩

/-- 32-bit words survive serialisation. -/
theorem word_roundtrip (n : Nat) (rest : Bytes) : word (le32 n ++ rest) = n % 4294967296 :=
  Packet.word_le32 n rest

end TLVerif.Props.C35
