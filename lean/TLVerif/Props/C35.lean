import TLVerif.Packet.BasicLemmas
/-!
# C35 — Packet stream framing round-trips and detects corruption
-/
namespace TLVerif.Props.C35
open TLVerif.Packet TLVerif.Facts.Packet

/-- 32-bit words survive serialisation. -/
theorem word_roundtrip (n : Nat) (rest : Bytes) : word (le32 n ++ rest) = n % 4294967296 :=
  Packet.word_le32 n rest

end TLVerif.Props.C35
