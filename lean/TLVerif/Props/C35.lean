import TLVerif.Packet.ToyEnv
import TLVerif.Packet.CrcLemmas
/-!
# C35 — Packet stream framing round-trips and detects corruption

Property theorems only (helper lemmas live in `TLVerif/Packet/*Lemmas.lean`).  All statements are about the model
of `pkg/rpc/packetconn.go` + `crypto.go` in `TLVerif/Packet/{Basic,Reader,Script}.lean`, over the constants
extracted from the repository on this run (`Generated/PacketFacts.lean`), for an arbitrary environment `e : Env`
(two CRC functions, a keyed block map); what is needed from the environment is an explicit hypothesis.

Vocabulary: a *history* is a list of `Step`s (mode changes made by both ends just before a packet, the packet,
how it is flushed); `flat` turns it into the flat script the driver and the harness execute; `finalW` runs the
writer model on it and flushes; `WState.wire` are the bytes on the connection; `readLoop (chunkSrc e)` is the
reading loop over the model of `cryptoReader` fed with an arbitrary list of chunks; `schedOfOps` tells the reading
end when to make the mode changes (after as many packets as the writer had written).
-/
namespace TLVerif.Props.C35
open TLVerif.Packet TLVerif.Facts.Packet

/-- **frames_roundtrip (unencrypted).** For every history without encryption switch that the reading side can
accept (`StepsOK`: sizes, handshake packet types for the first two packets, no pong), from every injected start
state, the writer model succeeds, and for EVERY segmentation `cs` of the wire bytes the reading loop returns exactly
the written packets (types and bodies, in order; valid pings as pings) followed by a clean EOF. -/
theorem frames_roundtrip_plain (e : Env) (n0 : Nat) (m0 : Mode) (hm0 : m0.enc = false) (ss : List Step)
    (hok : StepsOK e (freshW n0 m0) ss) (hne : NoEncSteps ss) (f : Nat) :
    ∃ wf, finalW e (flat ss) (freshW n0 m0) = some wf ∧
      ∀ cs : List Bytes, cs.flatten = wf.wire e →
        readLoop (chunkSrc e) e (schedOfOps e (flat ss) (freshW n0 m0)) (ss.length + (f + 1)) ⟨n0, m0⟩ { chunks := cs } =
          (ss.map stepEv, some .eof) :=
  roundtrip_plain_chunks e n0 m0 hm0 ss hok hne f

/-- **frames_roundtrip (with the encrypted handshake).** `pre` is exchanged in the clear; just before the packet
of `es` both ends turn AES-CBC on (key, IV); `post` follows. Under the block-cipher law (`dec k (enc k b) = b` on
blocks) the wire is the clear prefix followed by the CBC encryption of the padded rest, and for EVERY segmentation
of it the reading loop (which decrypts whole blocks as they arrive) returns exactly the written packets. -/
theorem frames_roundtrip_encrypted (e : Env) (he : e.CipherOK) (n0 : Nat) (m0 : Mode) (hm0 : m0.enc = false)
    (pre : List Step) (es : EncStep) (post : List Step)
    (hok : StepsOK e (freshW n0 m0) (pre ++ es.step :: post))
    (hpre : NoEncSteps pre) (h1 : NoEnc es.ms1) (h2 : NoEnc es.ms2) (hpost : NoEncSteps post) (f : Nat) :
    ∃ wf, finalW e (flat (pre ++ es.step :: post)) (freshW n0 m0) = some wf ∧
      wf.wire e = stepsBytes e (freshW n0 m0) pre ++ cbcEnc e es.key es.iv (encTail e (freshW n0 m0) pre es post) ∧
      ∀ cs : List Bytes, cs.flatten = wf.wire e →
        readLoop (chunkSrc e) e (schedOfOps e (flat (pre ++ es.step :: post)) (freshW n0 m0))
            (pre.length + ((post.length + (f + 1)) + 1)) ⟨n0, m0⟩ { chunks := cs } =
          ((pre ++ es.step :: post).map stepEv, some .eof) :=
  roundtrip_enc_chunks e he n0 m0 hm0 pre es post hok hpre h1 h2 hpost f

/-- **chunk_invariant.** For ANY byte stream (well-formed or not), any schedule of mode changes and any reader
state, the result of the reading loop is a function of the concatenation of the chunks. The side condition
concerns only a reader that has read nothing yet: the stream it is about to parse must not start with one of the
four memcached commands (which `readFullOrMagic` recognises per `Read`; see `chunk_dependence_magic`). -/
theorem chunk_invariant (e : Env) (sched : Nat → List ModeOp) (fuel : Nat) (st : RState) (cs₁ cs₂ : List Bytes)
    (hcs : cs₁.flatten = cs₂.flatten)
    (hQ : st.n = 0 → ∀ r, applyModeOps (pureSrc e) st cs₁.flatten (sched st.n) = some r → NoMagic r.2) :
    readLoop (chunkSrc e) e sched fuel st { chunks := cs₁ } = readLoop (chunkSrc e) e sched fuel st { chunks := cs₂ } :=
  Packet.chunk_invariant e sched fuel st cs₁ cs₂ hcs hQ

/-- The chunked, decrypt-as-it-arrives reader refines the reader over the whole remaining decrypted stream. -/
theorem reader_refines_stream (e : Env) (sched : Nat → List ModeOp) (fuel : Nat) (st : RState) (cs : List Bytes)
    (hQ : st.n = 0 → ∀ r, applyModeOps (pureSrc e) st cs.flatten (sched st.n) = some r → NoMagic r.2) :
    readLoop (chunkSrc e) e sched fuel st { chunks := cs } = readLoop (pureSrc e) e sched fuel st cs.flatten :=
  readLoop_chunk_eq_pure e sched fuel st _ _ (CRelB_init e cs _) hQ

/-- The memcached special case really is chunk dependent (outside the property: such a stream is never
produced by a packet writer, whose third byte is always 0). -/
theorem chunk_dependence_magic (e : Env) :
    readLoop (chunkSrc e) e (fun _ => []) 1 {} { chunks := [[115, 116, 97, 116, 115, 10], [0, 0, 0, 0, 0, 0]] } ≠
    readLoop (chunkSrc e) e (fun _ => []) 1 {} { chunks := [[115, 116, 97, 116, 115, 10, 0, 0, 0, 0, 0, 0]] } := by
  have h1 : readLoop (chunkSrc e) e (fun _ => []) 1 {} { chunks := [[115, 116, 97, 116, 115, 10], [0, 0, 0, 0, 0, 0]] } =
      ([], some .eof) := by rfl
  have h2 : readLoop (chunkSrc e) e (fun _ => []) 1 {} { chunks := [[115, 116, 97, 116, 115, 10, 0, 0, 0, 0, 0, 0]] } =
      ([], some .size) := by rfl
  rw [h1, h2]
  decide

/-- CBC over the abstract block map: whole-block plaintext survives encryption and decryption. -/
theorem cbc_roundtrip (e : Env) (he : e.CipherOK) (k iv p : Bytes) (hiv : iv.length = blockSize)
    (hp : p.length % blockSize = 0) : cbcDec e k iv (cbcEnc e k iv p) = p :=
  cbcDec_cbcEnc e k he iv p hiv hp

/-- The writer never leaves the model on an admissible history (in particular `FlushUnlocked` never needs more
than the 12 constant padding bytes), and the logical plaintext stream grows by exactly the frames and paddings. -/
theorem writer_total (e : Env) (w : WState) (ss : List Step) (hok : StepsOK e w ss) (hi : EInv w) :
    runW e (flat ss) w = some (wSteps e w ss) ∧ (wSteps e w ss).L = w.L ++ stepsBytes e w ss :=
  ⟨(runW_steps e w ss hok hi).1, (runW_steps e w ss hok hi).2.1⟩

/-- **accepted_packet_has_valid_crc_and_seq.** Whatever the reader accepts from a (decrypted) stream is, after at
most three crypto padding words (none before the first packet), byte for byte the writer's frame for the delivered
type and body in the reader's current state: length word = body length + overhead, sequence word = the expected
sequence number, CRC (current table) of header and body, zero alignment; followed by the unread rest. Conversely
(`frame_accepted`) every such frame is accepted. -/
theorem accepted_packet_has_valid_crc_and_seq (e : Env) (st : RState) (t : Bytes) (ev : Ev) (st1 : RState) (rest : Bytes)
    (hr : readPacket (pureSrc e) e st t = .ok (ev, st1, rest)) :
    ∃ j tip body, j ≤ 3 ∧ (st.n = 0 → j = 0) ∧
      t = padWords j ++ (le32 (body.length + packetOverhead) ++ le32 (seqWord st.n) ++ le32 tip ++ body ++
            le32 (e.crc st.mode (le32 (body.length + packetOverhead) ++ le32 (seqWord st.n) ++ le32 tip ++ body)) ++
            zeros (alignOf st.mode body.length) ++ rest) ∧
      ev = evOf tip body ∧ st1 = { st with n := st.n + 1 } ∧ PktOK st tip body := by
  obtain ⟨j, tip, body, h1, h2, h3, h4, h5, h6⟩ := readPacket_accepts e st t ev st1 rest hr
  exact ⟨j, tip, body, h1, h2, by rw [h3]; simp [frame, header, List.append_assoc], h4, h5, h6⟩

/-- the converse: a frame for an admissible packet is accepted and delivered exactly -/
theorem frame_accepted (e : Env) (st : RState) (j tip : Nat) (body rest : Bytes) (h : PktOK st tip body)
    (hj : j ≤ 3) (hj0 : st.n = 0 → j = 0) :
    readPacket (pureSrc e) e st (padWords j ++ (frame e st.mode st.n tip body ++ rest)) =
      .ok (evOf tip body, { st with n := st.n + 1 }, rest) :=
  readPacket_frame e st j tip body rest h hj hj0

/-- A frame with any single byte after the length word changed is never accepted (at the level of the decrypted
stream, both modes), provided the checksum detects single-byte changes. -/
theorem flipped_frame_rejected (e : Env) (hc : e.CrcDetects) (st : RState) (tip : Nat) (body rest : Bytes) (i : Nat)
    (y : UInt8) (hlen : body.length ≤ maxPacketLen - packetOverhead) (hi4 : 4 ≤ i)
    (hi : i < (frame e st.mode st.n tip body).length) (hy : y ≠ (frame e st.mode st.n tip body)[i]) :
    ∃ er, readPacket (pureSrc e) e st ((frame e st.mode st.n tip body).set i y ++ rest) = .error er :=
  flip_rejected e hc st tip body rest i y hlen hi4 hi hy

/-- **corrupt_detected_partial.** Unencrypted history `A ++ s :: B` (not starting at the very first packet of the
connection unless `A` is non-empty); on the wire, one byte of the frame of `s` outside its length word is changed.
Then for EVERY segmentation of the corrupted bytes the reader delivers exactly the packets of `A`, intact and in
order, and stops with an error at the corrupted packet. Hypothesis: the checksum detects single-byte changes.

Full-strength statement (NOT a theorem, see `corrupt_detected_full`): the same for a change in the length word,
and for any changed ciphertext byte of an AES-CBC stream. There the reader compares a CRC over a different span /
over a garbled block, and acceptance is not excluded by any property of CRC-32: it is detected with probability
1 - 2^-32 only. Explored by the correspondence run, not proved. -/
theorem corrupt_detected_partial (e : Env) (hc : e.CrcDetects) (n0 : Nat) (m0 : Mode) (hm0 : m0.enc = false)
    (A : List Step) (s : Step) (B : List Step)
    (hok : StepsOK e (freshW n0 m0) (A ++ s :: B)) (hne : NoEncSteps (A ++ s :: B)) (hpos : n0 + A.length ≠ 0)
    (i : Nat) (y : UInt8) (hi4 : 4 ≤ i)
    (hi : i < (frame e (wModes (wSteps e (freshW n0 m0) A) s.modes).mode (wSteps e (freshW n0 m0) A).n s.tip s.body).length)
    (hy : y ≠ (frame e (wModes (wSteps e (freshW n0 m0) A) s.modes).mode (wSteps e (freshW n0 m0) A).n s.tip s.body)[i]) :
    ∃ wf, finalW e (flat (A ++ s :: B)) (freshW n0 m0) = some wf ∧
      ∃ er, ∀ (cs : List Bytes) (f : Nat),
        cs.flatten = (wf.wire e).set ((stepsBytes e (freshW n0 m0) A).length + i) y →
        readLoop (chunkSrc e) e (schedOfOps e (flat (A ++ s :: B)) (freshW n0 m0)) (A.length + (f + 1)) ⟨n0, m0⟩
            { chunks := cs } = (A.map stepEv, some er) :=
  corrupt_detected_chunks e hc n0 m0 hm0 A s B hok hne hpos i y hi4 hi hy

/-- The checksum hypothesis holds for the executable bitwise CRC-32 (IEEE and Castagnoli polynomials) that the model
driver runs and that the correspondence run compares with `hash/crc32` byte for byte. -/
theorem real_crc_detects : realEnv.CrcDetects := Packet.real_crc_detects

/-- `corrupt_detected_partial` for the driver's environment, with no hypothesis left about the checksum. -/
theorem corrupt_detected_real (n0 : Nat) (m0 : Mode) (hm0 : m0.enc = false)
    (A : List Step) (s : Step) (B : List Step)
    (hok : StepsOK realEnv (freshW n0 m0) (A ++ s :: B)) (hne : NoEncSteps (A ++ s :: B)) (hpos : n0 + A.length ≠ 0)
    (i : Nat) (y : UInt8) (hi4 : 4 ≤ i)
    (hi : i < (frame realEnv (wModes (wSteps realEnv (freshW n0 m0) A) s.modes).mode (wSteps realEnv (freshW n0 m0) A).n s.tip s.body).length)
    (hy : y ≠ (frame realEnv (wModes (wSteps realEnv (freshW n0 m0) A) s.modes).mode (wSteps realEnv (freshW n0 m0) A).n s.tip s.body)[i]) :
    ∃ wf, finalW realEnv (flat (A ++ s :: B)) (freshW n0 m0) = some wf ∧
      ∃ er, ∀ (cs : List Bytes) (f : Nat),
        cs.flatten = (wf.wire realEnv).set ((stepsBytes realEnv (freshW n0 m0) A).length + i) y →
        readLoop (chunkSrc realEnv) realEnv (schedOfOps realEnv (flat (A ++ s :: B)) (freshW n0 m0)) (A.length + (f + 1))
            ⟨n0, m0⟩ { chunks := cs } = (A.map stepEv, some er) :=
  corrupt_detected_chunks realEnv Packet.real_crc_detects n0 m0 hm0 A s B hok hne hpos i y hi4 hi hy

/-- The full-strength corruption statement, kept visible: every single-byte change of the wire after the handshake,
in any mode, is reported as an error. It is *not* provable from `CrcDetects` (length word, CBC ciphertext). -/
def corrupt_detected_full (e : Env) : Prop :=
  ∀ (ops : List Op) (n0 : Nat) (m0 : Mode) (wf : WState) (k : Nat) (y : UInt8) (cs : List Bytes) (fuel : Nat),
    2 ≤ n0 → finalW e ops (freshW n0 m0) = some wf → (hk : k < (wf.wire e).length) → y ≠ (wf.wire e)[k] →
    cs.flatten = (wf.wire e).set k y →
    (readLoop (chunkSrc e) e (schedOfOps e ops (freshW n0 m0)) fuel ⟨n0, m0⟩ { chunks := cs }).2 ≠ some .eof

/-! ### the hypotheses are satisfiable -/

/-- an environment with a block cipher law and a single-byte-detecting checksum exists -/
example : toyEnv.CipherOK ∧ toyEnv.CrcDetects := ⟨toy_cipher, toy_crc⟩

/-- a handshake-shaped history: nonce in the clear, then protocol 1 + AES on + handshake packet + CRC32-C,
then two data packets (one not flushed, one odd-sized) -/
def exampleKey : Bytes := List.replicate 32 7
def exampleIv : Bytes := List.replicate 16 9
def examplePre : List Step := [{ tip := packetTypeRPCNonce, body := [1, 2, 3, 4] }]
def exampleEnc : EncStep :=
  { ms1 := [.setProto 1], key := exampleKey, iv := exampleIv, ms2 := [], tip := packetTypeRPCHandshake, body := [5, 6, 7, 8, 9] }
def examplePost : List Step :=
  [{ modes := [.setCrcC], flush := false, tip := 77, body := [1, 2, 3] }, { tip := 78, body := [], extra := 2 }]

example : StepsOK toyEnv (freshW 0 {}) (examplePre ++ exampleEnc.step :: examplePost) ∧
    NoEncSteps examplePre ∧ NoEnc exampleEnc.ms1 ∧ NoEnc exampleEnc.ms2 ∧ NoEncSteps examplePost := by
  refine ⟨?_, ?_, ?_, ?_, ?_⟩
  · simp only [examplePre, examplePost, exampleEnc, EncStep.step, List.cons_append, List.nil_append, StepsOK, ModesOK,
      ModeOK, and_true, true_and]
    decide
  · simp [NoEncSteps, NoEnc, examplePre]
  · simp [NoEnc, exampleEnc, ModeOp.isEnc]
  · simp [NoEnc, exampleEnc]
  · simp [NoEncSteps, NoEnc, examplePost, ModeOp.isEnc]

/-- 32-bit words survive serialisation. -/
theorem word_roundtrip (n : Nat) (rest : Bytes) : word (le32 n ++ rest) = n % 4294967296 :=
  Packet.word_le32 n rest

end TLVerif.Props.C35
