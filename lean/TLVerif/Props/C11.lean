import TLVerif.Codec.TL1Lemmas
import TLVerif.Codec.TL1Canon
import TLVerif.Props.C33
/-!
# C11 — wire formats match an independent reference codec (TL1 part)

The reference implementation of the documented TL1 format **is** the Lean codec `TLVerif/Codec/TL1.lean`
(`readTL1` / `writeTL1` over a schema descriptor).  In the check `checks/C11.py` it is driven by the descriptor
that the random schema generator `checks/schemagen.py` computes from its own AST (never by the kernel's type
resolution) and compared, byte for byte and on the accepted set, with the code `tl2gen` generates.

This file makes the reference's conformance to the documents reviewable: each lemma states one rule of
`docs/tldoc.ru.md` outright, as an equation about `readTL1`/`writeTL1` (so whatever else the model does, it
does *this*):

* numbers are little-endian, 4 or 8 bytes (`nat_little_endian`, `long_little_endian`, `read_nat_little_endian`);
* strings: 1-byte / `0xfe`+3 / `0xff`+7 length header, the bytes, zero padding to 4 (`string_layout`, from C33);
* boxed = constructor tag ++ bare (`boxed_is_tag_then_bare`, `boxed_read_is_tag_then_bare`);
* a constructor body is its fields in order (`struct_is_fields_in_order`); a field under a mask is present iff
  the bit of the mask value is set and otherwise occupies no bytes (`field_present_iff_mask_bit`,
  `field_absent_writes_nothing`, `read_field_skipped_iff_bit_clear`);
* `vector` / `# [T]` = 32-bit count ++ elements; `n*[T]` / `tuple` = elements only, count supplied from outside
  (`vector_is_count_then_elements`, `tuple_is_elements_only`, …);
* a union value = tag of the variant's constructor ++ its fields; an unknown tag is rejected
  (`union_is_variant_tag_then_fields`, `union_read_selects_by_tag`, `union_read_rejects_unknown_tag`);
* `Bool` = one of its two constructor tags (`bool_is_tag`, `bool_read_only_its_tags`);
* dictionaries = count ++ `{key,value}` elements (`dict_is_count_then_pairs`); `Maybe` (`maybe_layout`);
* the worked examples of the document evaluate to the documented bytes (`int_example`, `point_example`,
  `masked_point_example`, `string_example`).

NOTE (TL2): the check now also ties generated TL2 code against `Codec/TL2.lean` driven by the generator's descriptor
(`checks/C11.py`, sparse values over wide constructors). The TL2 *shape lemmas* (varlen sizes, per-object presence masks with the
variant-index bit, packed bit arrays, counted arrays, key/value dictionaries; DESIGN Appendix A) are still to be stated here
over `Codec/TL2.lean`; `Props/C33.lean` has the varlen size lemmas, `Props/C03.lean`/`C13.lean` the round-trip / evolution theorems.
-/
namespace TLVerif.Props.C11
open TLVerif.Prim TLVerif.Codec

/-! ## primitives -/

/-- 32-bit numbers (`#`, `int`, `float` bit pattern): four bytes, least significant first. -/
theorem nat_little_endian (n : Nat) :
    (u32le n).map UInt8.toNat = [n % 256, n / 256 % 256, n / 65536 % 256, n / 16777216 % 256] := by
  simp [u32le, byteOf, Nat.shiftRight_eq_div_pow]

/-- 64-bit numbers (`long`, `double` bit pattern): eight bytes, least significant first. -/
theorem long_little_endian (n : Nat) :
    (u64le n).map UInt8.toNat = [n % 256, n / 256 % 256, n / 65536 % 256, n / 16777216 % 256,
      n / 4294967296 % 256, n / 1099511627776 % 256, n / 281474976710656 % 256, n / 72057594037927936 % 256] := by
  simp only [u64le, u32le, byteOf, Nat.shiftRight_eq_div_pow, List.map_cons, List.map_nil,
    UInt8.toNat_ofNat', Nat.reducePow, List.cons_append, List.nil_append, Nat.div_div_eq_div_mul, Nat.reduceMul]

/-- the writer of a 32-bit primitive emits exactly those four bytes, bare (a primitive has no boxed form of its own) -/
theorem nat_write (d : Desc) (fuel ty : Nat) (bare : Bool) (params : List Nat) (n : Nat) (k : PrimK)
    (hk : k = .u32 ∨ k = .i32 ∨ k = .f32) (h : d.get? ty = some (.prim k)) :
    writeTL1 d (fuel + 1) ty bare params (.nat n) = .ok (u32le n) := by
  rcases hk with rfl | rfl | rfl <;> simp [writeTL1, h, writePrim]

theorem long_write (d : Desc) (fuel ty : Nat) (bare : Bool) (params : List Nat) (n : Nat) (k : PrimK)
    (hk : k = .u64 ∨ k = .i64 ∨ k = .f64) (h : d.get? ty = some (.prim k)) :
    writeTL1 d (fuel + 1) ty bare params (.nat n) = .ok (u64le n) := by
  rcases hk with rfl | rfl | rfl <;> simp [writeTL1, h, writePrim]

/-- reading a 32-bit number: four bytes, least significant first; fewer than four bytes is an unexpected EOF -/
theorem read_nat_little_endian (cfg : Cfg) (d : Desc) (fuel ty : Nat) (bare : Bool) (params : List Nat)
    (h : d.get? ty = some (.prim .u32)) :
    (∀ a b c e rest, readTL1 cfg d (fuel + 1) ty bare params (a :: b :: c :: e :: rest) =
        .ok (.nat (a.toNat + 256 * b.toNat + 65536 * c.toNat + 16777216 * e.toNat), rest)) ∧
    (∀ bs, bs.length < 4 → readTL1 cfg d (fuel + 1) ty bare params bs = .error .eof) := by
  refine ⟨fun a b c e rest => ?_, fun bs hl => ?_⟩
  · simp only [readTL1, h, readPrim, readU32, Nat.shiftLeft_eq, Nat.reducePow, Except.map]
    congr 3; omega
  · simp only [readTL1, h, readPrim]
    match bs, hl with
    | [], _ => rfl
    | [_], _ => rfl
    | [_, _], _ => rfl
    | [_, _, _], _ => rfl
    | _ :: _ :: _ :: _ :: _, hl => simp at hl; omega

/-- strings: the writer of the model is `basictl.StringWrite`, whose layout is the documented one
(`Props.C33.string_header_layout`): header, the bytes, then zero bytes up to a multiple of four. -/
theorem string_layout (d : Desc) (fuel ty : Nat) (bare : Bool) (params : List Nat) (s : Bytes)
    (h : d.get? ty = some (.prim .str)) (hl : s.length < 2 ^ 24) :
    ∃ hdr pad, writeTL1 d (fuel + 1) ty bare params (.str s) = .ok (hdr ++ s ++ zeros pad) ∧
      (hdr ++ s ++ zeros pad).length % 4 = 0 ∧ pad < 4 ∧
      (s.length ≤ 253 → hdr = [byteOf s.length]) ∧
      (253 < s.length → hdr = [254, byteOf s.length, byteOf (s.length >>> 8), byteOf (s.length >>> 16)]) := by
  obtain ⟨h1, h2, _⟩ := Props.C33.string_header_layout s.length
  have hw : ∀ hdr p, stringWriteLen s.length = some (hdr, p) → p < 4 →
      writeTL1 d (fuel + 1) ty bare params (.str s) = .ok (hdr ++ s ++ zeros ((4 - p) % 4)) := by
    intro hdr p e hp
    simp only [writeTL1, h, writePrim, stringWrite, e]
    have : stringWritePadding p = zeros ((4 - p) % 4) := by
      match p, hp with
      | 0, _ => rfl
      | 1, _ => rfl
      | 2, _ => rfl
      | 3, _ => rfl
    rw [this]
  by_cases c : s.length ≤ 253
  · have e := h1 c
    refine ⟨[byteOf s.length], (4 - (s.length + 1) % 4) % 4, hw _ _ e (Nat.mod_lt _ (by decide)), ?_, by omega, fun _ => rfl, fun c' => by omega⟩
    simp [zeros]; omega
  · have e := h2 (by omega) hl
    refine ⟨_, (4 - s.length % 4) % 4, hw _ _ e (Nat.mod_lt _ (by decide)), ?_, by omega, fun c' => by omega, fun _ => rfl⟩
    simp [zeros]; omega

/-- `Bool` is written as the tag of `boolTrue` or of `boolFalse` -/
theorem bool_is_tag (d : Desc) (fuel ty : Nat) (bare : Bool) (params : List Nat) (f t : Nat) (b : Bool)
    (h : d.get? ty = some (.prim (.bool f t))) :
    writeTL1 d (fuel + 1) ty bare params (.bool b) = .ok (u32le (if b then t else f)) := by
  simp [writeTL1, h, writePrim]

/-- …and the reader accepts exactly these two words -/
theorem bool_read_only_its_tags (cfg : Cfg) (d : Desc) (fuel ty : Nat) (bare : Bool) (params : List Nat) (f t w : Nat) (rest : Bytes)
    (h : d.get? ty = some (.prim (.bool f t))) (hw : w < 4294967296) :
    readTL1 cfg d (fuel + 1) ty bare params (u32le w ++ rest) =
      if w = f then .ok (.bool false, rest) else if w = t then .ok (.bool true, rest) else .error .rej := by
  simp only [readTL1, h, readPrim, readU32_u32le_lt hw]

/-! ## constructors: boxed = tag ++ bare, body = fields in order, masks -/

/-- boxed form of a constructor = its 32-bit tag, then the bare form -/
theorem boxed_is_tag_then_bare (d : Desc) (fuel ty : Nat) (s : StructD) (params : List Nat) (v : Val) (b : Bytes)
    (hg : d.get? ty = some (.struct s)) (h : writeTL1 d fuel ty true params v = .ok b) :
    writeTL1 d fuel ty false params v = .ok (u32le s.tag ++ b) :=
  writeTL1_boxed_of_bare hg h

/-- reading boxed = reading exactly the tag, then reading bare; another first word is rejected, not skipped -/
theorem boxed_read_is_tag_then_bare (cfg : Cfg) (d : Desc) (fuel ty : Nat) (s : StructD) (params : List Nat) (bs : Bytes)
    (hg : d.get? ty = some (.struct s)) (ht : s.tag < 4294967296) :
    readTL1 cfg d (fuel + 1) ty false params (u32le s.tag ++ bs) = readTL1 cfg d (fuel + 1) ty true params bs ∧
    ∀ w, w < 4294967296 → w ≠ s.tag → readTL1 cfg d (fuel + 1) ty false params (u32le w ++ bs) = .error .rej := by
  constructor
  · simp only [readTL1, hg, Bool.false_eq_true, if_false, if_true, readExactTag_ok ht]
  · intro w hw hne
    have : w % 4294967296 ≠ s.tag := by rw [Nat.mod_eq_of_lt hw]; exact hne
    simp only [readTL1, hg, Bool.false_eq_true, if_false, readExactTag_wrong this]

/-- a field is present iff the bit of its mask value is set (`m.b?T`: bit `b` of `m`, i.e. `m / 2^b` is odd);
a field without a mask is always present -/
theorem field_present_iff_mask_bit (f : Field) (acc : List (Option Val)) (params : List Nat) :
    (f.mask = none → fieldPresent f acc params = some true) ∧
    (∀ a bit m, f.mask = some (a, bit) → natArgVal acc params a = some m →
      fieldPresent f acc params = some (m / 2 ^ bit % 2 == 1)) := by
  constructor
  · intro h; simp [fieldPresent, h]
  · intro a bit m h hm
    simp [fieldPresent, h, hm, testBit]

/-- the mask value is: a constant, the value of the earlier `#` field (0 when that field is itself absent), or the
nat parameter handed in from outside -/
theorem mask_value_sources (acc : List (Option Val)) (params : List Nat) :
    (∀ n, natArgVal acc params (.num n) = some n) ∧
    (∀ i, natArgVal acc params (.param i) = params[i]?) ∧
    (∀ i n, acc[i]? = some (some (.nat n)) → natArgVal acc params (.field i) = some n) ∧
    (∀ i, acc[i]? = some none → natArgVal acc params (.field i) = some 0) := by
  refine ⟨fun _ => rfl, fun _ => rfl, fun i n h => ?_, fun i h => ?_⟩ <;> simp [natArgVal, h]

/-- writer: a field whose bit is clear occupies no bytes -/
theorem field_absent_writes_nothing (wr : Wr) (params : List Nat) (all : List (Option Val)) (f : Field) (fs : List Field)
    (v : Option Val) (vs : List (Option Val)) (na : List Nat)
    (hp : fieldPresent f all params = some false) (hn : natArgVals all params f.natArgs = some na) :
    writeFieldsWith wr params all (f :: fs) (v :: vs) = writeFieldsWith wr params all fs vs := by
  simp [writeFieldsWith, hp, hn]

/-- writer: a constructor body is the encodings of its present fields, in declaration order, with the nat arguments
of each field evaluated from the constants / earlier `#` fields / outer parameters -/
theorem struct_is_fields_in_order (wr : Wr) (params : List Nat) (all : List (Option Val)) (f : Field) (fs : List Field)
    (x : Val) (vs : List (Option Val)) (na : List Nat) (b bs : Bytes)
    (hp : fieldPresent f all params = some true) (hn : natArgVals all params f.natArgs = some na)
    (h1 : wr f.ty f.bare na x = .ok b) (h2 : writeFieldsWith wr params all fs vs = .ok bs) :
    writeFieldsWith wr params all (f :: fs) (some x :: vs) = .ok (b ++ bs) := by
  simp [writeFieldsWith, hp, hn, h1, h2]

/-- the struct writer is the field loop over all fields, after the tag when boxed -/
theorem struct_write_unfold (d : Desc) (fuel ty : Nat) (s : StructD) (bare : Bool) (params : List Nat) (fs : List (Option Val)) (b : Bytes)
    (hg : d.get? ty = some (.struct s)) (h : writeFieldsWith (writeTL1 d fuel) params fs s.fields fs = .ok b) :
    writeTL1 d (fuel + 1) ty bare params (.struct fs) = .ok ((if bare then [] else u32le s.tag) ++ b) := by
  simp [writeTL1, hg, h]

/-- reader: a field whose bit is clear consumes nothing and is recorded as absent; a present field is read by the
reader of its type with its nat arguments, and reading continues after it -/
theorem read_field_skipped_iff_bit_clear (rd : Rd) (params : List Nat) (f : Field) (fs : List Field)
    (acc : List (Option Val)) (bs : Bytes) (na : List Nat) (hn : natArgVals acc params f.natArgs = some na) :
    (fieldPresent f acc params = some false →
      readFieldsWith rd params (f :: fs) acc bs = readFieldsWith rd params fs (acc ++ [none]) bs) ∧
    (fieldPresent f acc params = some true → ∀ v bs', rd f.ty f.bare na bs = .ok (v, bs') →
      readFieldsWith rd params (f :: fs) acc bs = readFieldsWith rd params fs (acc ++ [some v]) bs') := by
  constructor
  · intro hp; simp [readFieldsWith, hp, hn]
  · intro hp v bs' h; simp [readFieldsWith, hp, hn, h]

/-! ## arrays -/

/-- elements are simply concatenated -/
theorem elements_concatenate (wr : Wr) (f : Field) (na : List Nat) (v : Val) (vs : List Val) (b bs : Bytes)
    (h1 : wr f.ty f.bare na v = .ok b) (h2 : writeElemsWith wr f na vs = .ok bs) :
    writeElemsWith wr f na (v :: vs) = .ok (b ++ bs) ∧ writeElemsWith wr f na [] = .ok [] := by
  simp [writeElemsWith, h1, h2]

/-- `vector T` / `# [T]`: 32-bit element count, then the elements -/
theorem vector_is_count_then_elements (d : Desc) (fuel ty : Nat) (a : ArrayD) (bare : Bool) (params na : List Nat) (es : List Val) (b : Bytes)
    (hg : d.get? ty = some (.array a)) (ht : a.isTuple = false) (hn : natArgVals [] params a.elem.natArgs = some na)
    (hl : es.length < 2 ^ 32) (h : writeElemsWith (writeTL1 d fuel) a.elem na es = .ok b) :
    writeTL1 d (fuel + 1) ty bare params (.arr es) = .ok (u32le es.length ++ b) := by
  have : ¬ es.length ≥ 2 ^ 32 := by omega
  simp [writeTL1, hg, ht, hn, this, h, Except.map]

/-- reading a vector: the count word, then exactly that many elements (with `--checkLengthSanity` a count larger than a
quarter of the remaining input is reported as unexpected EOF before anything is allocated) -/
theorem vector_read_is_count_then_elements (cfg : Cfg) (d : Desc) (fuel ty : Nat) (a : ArrayD) (bare : Bool) (params na : List Nat)
    (n : Nat) (bs : Bytes) (hg : d.get? ty = some (.array a)) (ht : a.isTuple = false)
    (hn : natArgVals [] params a.elem.natArgs = some na) (hl : n < 4294967296) :
    readTL1 cfg d (fuel + 1) ty bare params (u32le n ++ bs) =
      if sanityOk cfg bs n then (readElemsWith (readTL1 cfg d fuel) a.elem na n bs).map (fun (vs, r) => (.arr vs, r))
      else .error .eof := by
  simp only [readTL1, hg, hn, ht, Bool.false_eq_true, if_false, readU32_u32le_lt hl]
  by_cases c : sanityOk cfg bs n <;> simp [c]

/-- `n*[T]` / `tuple T n`: the elements only — the count is not on the wire, it is the constant, the `#` field or the
nat parameter the schema names -/
theorem tuple_is_elements_only (d : Desc) (fuel ty : Nat) (a : ArrayD) (bare : Bool) (params na : List Nat) (es : List Val) (n : Nat)
    (hg : d.get? ty = some (.array a)) (ht : a.isTuple = true) (hn : natArgVals [] params a.elem.natArgs = some na)
    (hc : (if a.dynamic then params[0]? else some a.count) = some n) (hl : es.length = n) :
    writeTL1 d (fuel + 1) ty bare params (.arr es) = writeElemsWith (writeTL1 d fuel) a.elem na es := by
  simp [writeTL1, hg, ht, hn, hc, hl]

/-- a value whose length differs from the count the schema supplies is refused by the writer (never written short or long) -/
theorem tuple_write_needs_exact_count (d : Desc) (fuel ty : Nat) (a : ArrayD) (bare : Bool) (params na : List Nat) (es : List Val) (n : Nat)
    (hg : d.get? ty = some (.array a)) (ht : a.isTuple = true) (hn : natArgVals [] params a.elem.natArgs = some na)
    (hc : (if a.dynamic then params[0]? else some a.count) = some n) (hl : es.length ≠ n) :
    writeTL1 d (fuel + 1) ty bare params (.arr es) = .error .shape := by
  simp [writeTL1, hg, ht, hn, hc, hl]

/-- reading a fixed tuple: exactly `count` elements, no count word -/
theorem tuple_read_is_elements_only (cfg : Cfg) (d : Desc) (fuel ty : Nat) (a : ArrayD) (bare : Bool) (params na : List Nat) (bs : Bytes)
    (hg : d.get? ty = some (.array a)) (ht : a.isTuple = true) (hd : a.dynamic = false)
    (hn : natArgVals [] params a.elem.natArgs = some na) :
    readTL1 cfg d (fuel + 1) ty bare params bs =
      (readElemsWith (readTL1 cfg d fuel) a.elem na a.count bs).map (fun (vs, r) => (.arr vs, r)) := by
  simp [readTL1, hg, ht, hd, hn]

/-- map-backed dictionaries travel as a vector of `{key,value}` elements: count, then the pairs -/
theorem dict_is_count_then_pairs (d : Desc) (fuel ty : Nat) (a : ArrayD) (bare : Bool) (params na : List Nat) (es : List Val) (b : Bytes)
    (hg : d.get? ty = some (.dict a)) (hn : natArgVals [] params a.elem.natArgs = some na)
    (hl : es.length < 2 ^ 32) (h : writeElemsWith (writeTL1 d fuel) a.elem na es = .ok b) :
    writeTL1 d (fuel + 1) ty bare params (.arr es) = .ok (u32le es.length ++ b) := by
  have : ¬ es.length ≥ 2 ^ 32 := by omega
  simp [writeTL1, hg, hn, this, h, Except.map]

/-! ## unions -/

/-- a union value is the *boxed* form of the chosen constructor: its tag, then its fields (a union has no bare form:
the `bare` flag of the reference is irrelevant) -/
theorem union_is_variant_tag_then_fields (d : Desc) (fuel ty : Nat) (u : UnionD) (s : StructD) (bare : Bool) (params na : List Nat)
    (i vi : Nat) (nm : String) (x : Val) (b : Bytes)
    (hg : d.get? ty = some (.union u)) (hv : u.variants[i]? = some (vi, nm)) (hs : d.get? vi = some (.struct s))
    (hn : natArgVals [] params u.elemNatArgs = some na) (h : writeTL1 d fuel vi true na x = .ok b) :
    writeTL1 d (fuel + 1) ty bare params (.union i x) = .ok (u32le s.tag ++ b) := by
  simp [writeTL1, hg, hv, hn, writeTL1_boxed_of_bare hs h]

/-- reading a union: the first word selects the constructor whose tag it is, whose fields follow -/
theorem union_read_selects_by_tag (cfg : Cfg) (d : Desc) (fuel ty : Nat) (u : UnionD) (bare : Bool) (params na : List Nat)
    (w i vi : Nat) (bs : Bytes) (hg : d.get? ty = some (.union u)) (hw : w < 4294967296)
    (hf : findVariant d w u.variants 0 = some (i, vi)) (hn : natArgVals [] params u.elemNatArgs = some na) :
    readTL1 cfg d (fuel + 1) ty bare params (u32le w ++ bs) =
      (readTL1 cfg d fuel vi true na bs).map (fun (v, r) => (.union i v, r)) := by
  simp only [readTL1, hg, readU32_u32le_lt hw, hf, hn]
  cases readTL1 cfg d fuel vi true na bs with
  | error e => rfl
  | ok p => rfl

/-- a first word that is no constructor's tag is rejected -/
theorem union_read_rejects_unknown_tag (cfg : Cfg) (d : Desc) (fuel ty : Nat) (u : UnionD) (bare : Bool) (params : List Nat)
    (w : Nat) (bs : Bytes) (hg : d.get? ty = some (.union u)) (hw : w < 4294967296)
    (hf : findVariant d w u.variants 0 = none) :
    readTL1 cfg d (fuel + 1) ty bare params (u32le w ++ bs) = .error .rej := by
  simp only [readTL1, hg, readU32_u32le_lt hw, hf]

/-! ## the worked examples of docs/tldoc.ru.md, evaluated by the reference -/

def fld (name : String) (ty : Nat) (bare : Bool := true) (mask : Option (NatArg × Nat) := none)
    (natArgs : List NatArg := []) : Field :=
  { name, ty, bare, mask, tl2bit := none, isBit := false, natArgs }

/-- 0 `int`, 1 `Int` (`int#a8509bda ? = Int`), 2 `point#e3fe70f4 x:int y:int = Point`,
3 `pointB#e3fe70f5 x:Int y:Int = PointB`, 4 `#`, 5 `point fields_mask:# x:fields_mask.0?int y:fields_mask.1?int z:fields_mask.2?int`,
6 `string`, 7 `resultFalse#27930a7b`, 8 `resultTrue#3f9c8ef8 int`, 9 `Maybe int`, 10 `vector int`, 11 `Vector int` (#1cb5c415),
12 `3*[point]`, 13 `triangle color:int a:3*[point]` -/
def docD : Desc := { insts := #[
  .prim .i32,
  .struct { tag := 0xa8509bda, nparams := 0, fields := [fld "" 0] },
  .struct { tag := 0xe3fe70f4, nparams := 0, fields := [fld "x" 0, fld "y" 0] },
  .struct { tag := 0xe3fe70f5, nparams := 0, fields := [fld "x" 1 (bare := false), fld "y" 1 (bare := false)] },
  .prim .u32,
  .struct { tag := 0x1, nparams := 0, fields := [fld "fields_mask" 4, fld "x" 0 (mask := some (.field 0, 0)),
    fld "y" 0 (mask := some (.field 0, 1)), fld "z" 0 (mask := some (.field 0, 2))] },
  .prim .str,
  .struct { tag := 0x27930a7b, nparams := 0, fields := [], isUnionElement := true },
  .struct { tag := 0x3f9c8ef8, nparams := 0, fields := [fld "" 0], isUnionElement := true, unionIndex := 1 },
  .union { variants := [(7, "resultFalse"), (8, "resultTrue")], elemNatArgs := [], nparams := 0, isEnum := false, isMaybe := true, hasTL2 := false },
  .array { isTuple := false, dynamic := false, count := 0, nparams := 0, elem := fld "" 0, hasTL2 := false },
  .struct { tag := 0x1cb5c415, nparams := 0, fields := [fld "" 10] },
  .array { isTuple := true, dynamic := false, count := 3, nparams := 0, elem := fld "" 2, hasTL2 := false },
  .struct { tag := 0x2, nparams := 0, fields := [fld "color" 0, fld "a" 12] } ] }

/-- «При сериализации int 5 получится [05 00 00 00]», «Int 5 → [da 9b 50 a8] [05 00 00 00]» -/
theorem int_example :
    writeTL1 docD 5 0 true [] (.nat 5) = .ok [5, 0, 0, 0] ∧
    writeTL1 docD 5 1 false [] (.struct [some (.nat 5)]) = .ok [0xda, 0x9b, 0x50, 0xa8, 5, 0, 0, 0] := by
  constructor <;> rfl

/-- «point 5 0 → [05 00 00 00] [00 00 00 00]», «Point 5 0 → [f4 70 fe e3] …», «PointB 5 0 → [f5 70 fe e3] [da 9b 50 a8] [05 …] [da 9b 50 a8] [00 …]»,
and the reader inverts each of them -/
theorem point_example :
    writeTL1 docD 5 2 true [] (.struct [some (.nat 5), some (.nat 0)]) = .ok [5, 0, 0, 0, 0, 0, 0, 0] ∧
    writeTL1 docD 5 2 false [] (.struct [some (.nat 5), some (.nat 0)]) = .ok [0xf4, 0x70, 0xfe, 0xe3, 5, 0, 0, 0, 0, 0, 0, 0] ∧
    writeTL1 docD 5 3 false [] (.struct [some (.struct [some (.nat 5)]), some (.struct [some (.nat 0)])]) =
      .ok [0xf5, 0x70, 0xfe, 0xe3, 0xda, 0x9b, 0x50, 0xa8, 5, 0, 0, 0, 0xda, 0x9b, 0x50, 0xa8, 0, 0, 0, 0] ∧
    readTL1 {} docD 5 2 false [] [0xf4, 0x70, 0xfe, 0xe3, 5, 0, 0, 0, 0, 0, 0, 0, 9] = .ok (.struct [some (.nat 5), some (.nat 0)], [9]) := by
  refine ⟨?_, ?_, ?_, ?_⟩ <;> rfl

/-- «point 7 5 0 2 → [07 …] [05 …] [00 …] [02 …]», «point 1 5 0 0 → [01 00 00 00] [05 00 00 00]», «point 0 … → [00 00 00 00]»:
absent fields occupy no bytes; the reader leaves them absent -/
theorem masked_point_example :
    writeTL1 docD 5 5 true [] (.struct [some (.nat 7), some (.nat 5), some (.nat 0), some (.nat 2)]) =
      .ok [7, 0, 0, 0, 5, 0, 0, 0, 0, 0, 0, 0, 2, 0, 0, 0] ∧
    writeTL1 docD 5 5 true [] (.struct [some (.nat 1), some (.nat 5), none, none]) = .ok [1, 0, 0, 0, 5, 0, 0, 0] ∧
    writeTL1 docD 5 5 true [] (.struct [some (.nat 0), none, none, none]) = .ok [0, 0, 0, 0] ∧
    readTL1 {} docD 5 5 true [] [5, 0, 0, 0, 8, 0, 0, 0, 9, 0, 0, 0] = .ok (.struct [some (.nat 5), some (.nat 8), none, some (.nat 9)], []) := by
  refine ⟨?_, ?_, ?_, ?_⟩ <;> rfl

/-- «[04 k e y] [s 00 00 00]» — a 4-byte string: one length byte, the bytes, padding to a multiple of four -/
theorem string_example :
    writeTL1 docD 5 6 true [] (.str [0x6b, 0x65, 0x79, 0x73]) = .ok [4, 0x6b, 0x65, 0x79, 0x73, 0, 0, 0] ∧
    writeTL1 docD 5 6 true [] (.str []) = .ok [0, 0, 0, 0] ∧
    readTL1 {} docD 5 6 true [] [3, 0x6b, 0x65, 0x79] = .ok (.str [0x6b, 0x65, 0x79], []) ∧
    readTL1 {} docD 5 6 true [] [2, 0x6b, 0x65, 1] = .error .rej := by
  refine ⟨?_, ?_, ?_, ?_⟩ <;> rfl

/-- `Maybe int`: `resultFalse` is its tag alone, `resultTrue x` is its tag then `x`; «vector int [5, 0] → [02 …] [05 …] [00 …]»,
«Vector int [5, 0] → [15 c4 b5 1c] [02 …] …»; «triangle 127 [(point 5 0) (point 1 3) (point 6 4)]» has no count on the wire -/
theorem maybe_layout :
    writeTL1 docD 5 9 false [] (.union 0 (.struct [])) = .ok [0x7b, 0x0a, 0x93, 0x27] ∧
    writeTL1 docD 5 9 false [] (.union 1 (.struct [some (.nat 5)])) = .ok [0xf8, 0x8e, 0x9c, 0x3f, 5, 0, 0, 0] ∧
    readTL1 {} docD 5 9 false [] [0xf8, 0x8e, 0x9c, 0x3f, 5, 0, 0, 0] = .ok (.union 1 (.struct [some (.nat 5)]), []) ∧
    readTL1 {} docD 5 9 false [] [0xf9, 0x8e, 0x9c, 0x3f, 5, 0, 0, 0] = .error .rej ∧
    writeTL1 docD 5 10 true [] (.arr [.nat 5, .nat 0]) = .ok [2, 0, 0, 0, 5, 0, 0, 0, 0, 0, 0, 0] ∧
    writeTL1 docD 5 11 false [] (.struct [some (.arr [.nat 5, .nat 0])]) = .ok [0x15, 0xc4, 0xb5, 0x1c, 2, 0, 0, 0, 5, 0, 0, 0, 0, 0, 0, 0] ∧
    writeTL1 docD 5 13 true [] (.struct [some (.nat 127), some (.arr [.struct [some (.nat 5), some (.nat 0)],
        .struct [some (.nat 1), some (.nat 3)], .struct [some (.nat 6), some (.nat 4)]])]) =
      .ok [0x7f, 0, 0, 0, 5, 0, 0, 0, 0, 0, 0, 0, 1, 0, 0, 0, 3, 0, 0, 0, 6, 0, 0, 0, 4, 0, 0, 0] := by
  refine ⟨?_, ?_, ?_, ?_, ?_, ?_, ?_⟩ <;> rfl

end TLVerif.Props.C11
