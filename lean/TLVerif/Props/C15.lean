import TLVerif.Tool.WalkLemmas
import TLVerif.Tool.OutDirLemmas
import TLVerif.Tool.CycleName
import TLVerif.Generated.ToolCycleFacts
import TLVerif.Generated.ToolMapsFacts
import TLVerif.Generated.ToolMapsExpect
/-!
# C15 — Code generation is deterministic

Statement (fixed): generating code twice from the same schema files and options produces byte-identical output,
regardless of scheduling (GOMAXPROCS), map iteration order and the order in which the input files or directories are
listed on the command line.

Proved here (skeleton of the argument): (1) the input walk is invariant under permutation of the roots
(`walk_perm_invariant`), (2) the concurrent, map-ordered file writing phase of `OutDir.Write` yields the same file system,
write set and delete set for every processing order (`write_order_irrelevant`), (3) every `range` over a map in the
generator packages is a site that has been classified (sorted afterwards / commutative / output-irrelevant) in
`expect/maprange.json` (`maprange_census_classified`, over the census regenerated from the source on every run).
Determinism of the generator *internals* is exploration (`checks/C15.py`: repeated runs, GOMAXPROCS 1/2/16, permuted and
duplicated input paths, all languages, byte comparison).
-/
namespace TLVerif.Props.C15
open TLVerif.Tool List

/-- **Input walk.** Listing the same roots in another order gives the same file list (same failure, too), provided
that among the collected files equal canonical forms mean equal paths. -/
theorem walk_perm_invariant (listing : String → Option (List String)) (canon : String → String) (ext : String)
    (r₁ r₂ : List String) (h : r₁ ~ r₂)
    (hinj : ∀ ps, collectPairs listing canon ext r₁ = some ps →
      ∀ a ∈ ps, ∀ b ∈ ps, a.canonical = b.canonical → a = b) :
    walkDeterministic listing canon ext r₁ = walkDeterministic listing canon ext r₂ := by
  obtain ⟨hn, hp⟩ := collectPairs_perm listing canon ext h
  unfold walkDeterministic
  cases h1 : collectPairs listing canon ext r₁ with
  | none => rw [hn.mp h1]
  | some p₁ =>
    cases h2 : collectPairs listing canon ext r₂ with
    | none => have := hn.mpr h2; rw [h1] at this; cases this
    | some p₂ =>
      simp only [Option.map_some]
      rw [sort_perm_eq (hp p₁ p₂ h1 h2) (hinj p₁ h1)]

/-- On a platform where the canonical form determines the path (Linux: `canon = id`; in general any injective
`canon`) the invariance is unconditional — duplicated roots included. -/
theorem walk_perm_invariant_of_injective (listing : String → Option (List String)) (canon : String → String)
    (hc : ∀ p q, canon p = canon q → p = q) (ext : String) (r₁ r₂ : List String) (h : r₁ ~ r₂) :
    walkDeterministic listing canon ext r₁ = walkDeterministic listing canon ext r₂ := by
  apply walk_perm_invariant listing canon ext r₁ r₂ h
  intro ps hps a ha b hb hab
  have sa := collectPairs_shape listing canon ext r₁ ps hps a ha
  have sb := collectPairs_shape listing canon ext r₁ ps hps b hb
  have : a.common = b.common := hc _ _ (by rw [← sa, ← sb, hab])
  cases a; cases b; simp_all

/-- The result is ordered by canonical path and consists exactly of the collected files. -/
theorem walk_sorted (listing : String → Option (List String)) (canon : String → String) (ext : String)
    (roots : List String) (ps : List WalkPair) (_h : collectPairs listing canon ext roots = some ps) :
    (ps.mergeSort pairLe).Pairwise (fun a b => a.canonical ≤ b.canonical) ∧ ps.mergeSort pairLe ~ ps := by
  refine ⟨?_, mergeSort_perm ps pairLe⟩
  have := pairwise_mergeSort pairLe_trans pairLe_total ps
  exact this.imp (fun {a b} hab => by simpa [pairLe] using hab)

theorem alookup_perm {c₁ c₂ : List (Path × String)} (h : c₁ ~ c₂) (hnd : (keys c₁).Nodup) (p : Path) :
    alookup p c₁ = alookup p c₂ := by
  have hpk : keys c₁ ~ keys c₂ := by unfold keys; exact h.map _
  have hnd2 : (keys c₂).Nodup := hpk.nodup_iff.mp hnd
  cases h1 : alookup p c₁ with
  | some v => exact (alookup_of_mem hnd2 (h.subset (alookup_mem h1))).symm
  | none =>
    cases h2 : alookup p c₂ with
    | none => rfl
    | some v =>
      have := alookup_of_mem hnd (h.symm.subset (alookup_mem h2))
      rw [h1] at this; cases this

/-- **Scheduling / map order.** `OutDir.Write` feeds the entries of the `Code` map, in Go's random map order, to
`NumCPU` workers.  Whatever order the entries are processed in, the outcome, every file of the resulting file system,
the set of written files, the set of deleted files and the counters are the same. -/
theorem write_order_irrelevant (fmt : Path → String → String) (fs : FS) (marker : Path)
    (c₁ c₂ : List (Path × String)) (h : c₁ ~ c₂) (hnd : (keys c₁).Nodup) :
    (write fmt fs c₁ marker).outcome = (write fmt fs c₂ marker).outcome ∧
    (∀ p, (write fmt fs c₁ marker).fs.lookup p = (write fmt fs c₂ marker).fs.lookup p) ∧
    (∀ p, p ∈ (write fmt fs c₁ marker).written ↔ p ∈ (write fmt fs c₂ marker).written) ∧
    (∀ p, p ∈ (write fmt fs c₁ marker).deleted ↔ p ∈ (write fmt fs c₂ marker).deleted) ∧
    (write fmt fs c₁ marker).notTouched + (write fmt fs c₁ marker).written.length =
      (write fmt fs c₂ marker).notTouched + (write fmt fs c₂ marker).written.length := by
  have hpk : keys c₁ ~ keys c₂ := by unfold keys; exact h.map _
  have hnd2 : (keys c₂).Nodup := hpk.nodup_iff.mp hnd
  have hk : ∀ p, p ∈ keys c₁ ↔ p ∈ keys c₂ := fun p => hpk.mem_iff
  by_cases hc : refuseCond fs marker
  · rw [write_refused fmt fs c₁ marker hc, write_refused fmt fs c₂ marker hc]; simp
  · refine ⟨?_, ?_, ?_, ?_, ?_⟩
    · rw [write_ok fmt fs c₁ marker hc, write_ok fmt fs c₂ marker hc]
    · intro p
      rw [write_ok_lookup fmt fs c₁ marker hnd hc p, write_ok_lookup fmt fs c₂ marker hnd2 hc p, alookup_perm h hnd p]
    · intro p
      rw [write_ok_written fmt fs c₁ marker hnd hc p, write_ok_written fmt fs c₂ marker hnd2 hc p]
      simp only [alookup_perm h hnd p]
    · intro p
      rw [write_ok_deleted fmt fs c₁ marker hc p, write_ok_deleted fmt fs c₂ marker hc p, hk p]
    · rw [write_ok_count fmt fs c₁ marker hc, write_ok_count fmt fs c₂ marker hc, h.length_eq]

/-- … and the write logs of two processing orders are permutations of each other (every file written at most once). -/
theorem write_log_perm (fmt : Path → String → String) (fs : FS) (marker : Path)
    (c₁ c₂ : List (Path × String)) (h : c₁ ~ c₂) (hnd : (keys c₁).Nodup) :
    (write fmt fs c₁ marker).written ~ (write fmt fs c₂ marker).written := by
  have hpk : keys c₁ ~ keys c₂ := by unfold keys; exact h.map _
  have hnd2 : (keys c₂).Nodup := hpk.nodup_iff.mp hnd
  exact (perm_ext_iff_of_nodup (write_written_nodup fmt fs c₁ marker hnd) (write_written_nodup fmt fs c₂ marker hnd2)).mpr
    (write_order_irrelevant fmt fs marker c₁ c₂ h hnd).2.2.1

/-! ## Package names of merged import cycles (`--split-internal`)

The order of `ins.Types` after cycles are merged depends on map iteration; the directory / package name
`internal/cycle_<hash>` must not. -/

theorem sortedElements_perm_invariant (t₁ t₂ : List String) (h : t₁ ~ t₂) : sortedElements t₁ = sortedElements t₂ := by
  unfold sortedElements
  apply Perm.eq_of_pairwise (le := fun a b => decide (a ≤ b) = true)
  · intro a b _ _ hab hba
    exact String.le_antisymm (by simpa using hab) (by simpa using hba)
  · exact pairwise_mergeSort (fun a b c hab hbc => by
      simp only [decide_eq_true_eq] at *; exact String.le_trans hab hbc)
      (fun a b => by simp only [Bool.or_eq_true, decide_eq_true_eq]; exact String.le_total a b) t₁
  · exact pairwise_mergeSort (fun a b c hab hbc => by
      simp only [decide_eq_true_eq] at *; exact String.le_trans hab hbc)
      (fun a b => by simp only [Bool.or_eq_true, decide_eq_true_eq]; exact String.le_total a b) t₂
  · exact (mergeSort_perm t₁ _).trans (h.trans (mergeSort_perm t₂ _).symm)

/-- **The cycle package name is a function of the set of types**: whatever order the merging left them in (any hash). -/
theorem cycle_name_perm_invariant (hash : String → String) (t₁ t₂ : List String) (h : t₁ ~ t₂) :
    cycleName hash t₁ = cycleName hash t₂ := by
  unfold cycleName; rw [sortedElements_perm_invariant t₁ t₂ h]

/-- T1: the generator still feeds `sortedElements()` (through `strings.Join`) into `sha1.Sum` when it names a cycle, and
`sortedElements` still sorts what it collected (call-order facts regenerated from the source on every run). -/
theorem cycle_hash_uses_sorted_elements :
    isInfixB ["Sum", "Join", "sortedElements", "EncodeToString"] TLVerif.Facts.ToolCycle.gengoGenerateCodeCalls = true ∧
    TLVerif.Facts.ToolCycle.gengoGenerateCodeCalls.count "Sum" = 1 ∧
    TLVerif.Facts.ToolCycle.gengoSortedElementsCalls = ["append", "Sort"] := by decide

/-! ## T1: census of `range`-over-map sites in the generator packages

`Facts.ToolMaps.mapRangeSites` is regenerated from the source on every run (`file:function:count` for every function
that ranges over a map-typed expression in internal/pure, internal/puregen/**, internal/tlast, internal/tlcodegen, internal/utils);
`Facts.ToolMapsExpect.classified` is generated from `expect/maprange.json`, where each site has been read and classified.
A new or changed site is not in the table and breaks this obligation. -/
theorem maprange_census_classified :
    ∀ s ∈ TLVerif.Facts.ToolMaps.mapRangeSites, s ∈ TLVerif.Facts.ToolMapsExpect.classified.map (·.1) := by decide

theorem maprange_classes_valid :
    ∀ c ∈ TLVerif.Facts.ToolMapsExpect.classified, c.2 ∈ ["sorted", "commutative", "irrelevant"] := by decide

end TLVerif.Props.C15
