import TLVerif.Codec.ReuseLemmas
import TLVerif.Generated.ReuseFacts
/-!
C09 — decoding into a REUSED object equals decoding into a fresh one (TL1), and `Reset` makes an object equal to a fresh one.

The model `Codec/Reuse.lean` keeps what the generated Go object keeps between two reads (storage of masked-out fields, of
the non-current union variants, slice elements between `len` and `cap`, the dirty state left by a failed read) and
reads IN PLACE the way `qt_struct/qt_union/qt_brackets/qt_dict/qt_maybe.qtpl` do.  `abs : Mem → Val` forgets the stale
storage: it is what the TL1 writer and every other observer is given.  The theorems hold for EVERY descriptor (no
well-formedness hypothesis), every fuel, every input and every old state — also ill-shaped ones; `Mem.shaped` below is
the invariant that tells which states are reachable, it is not needed as a hypothesis.

TL2 and JSON readers have no memory-level model: for them C09 is tie-only (checks/C09.py `reuse-mixed`).
-/
namespace TLVerif.Props.C09
open TLVerif.Prim TLVerif.Codec TLVerif.Codec.Reuse

/-- Reading into ANY old object: value, unread rest and error are those of the fresh read `readTL1`. -/
theorem read_into_any_eq_fresh (cfg : Cfg) (d : Desc) (fuel ty : Nat) (bare : Bool) (params : List Nat) (old : Mem) (bs : Bytes) :
    obs (readInto cfg d fuel ty bare params old bs) = readTL1 cfg d fuel ty bare params bs :=
  readInto_obs cfg d fuel ty bare params old bs

/-- the same in `Except` form: `(readIntoE … old bs).map (abs × id) = readTL1 … bs` -/
def readIntoE (cfg : Cfg) (d : Desc) (fuel ty : Nat) (bare : Bool) (params : List Nat) (old : Mem) (bs : Bytes) :
    Except CErr (Mem × Bytes) :=
  match readInto cfg d fuel ty bare params old bs with
  | (m, .ok r) => .ok (m, r)
  | (_, .error e) => .error e

theorem read_into_any_eq_fresh_except (cfg : Cfg) (d : Desc) (fuel ty : Nat) (bare : Bool) (params : List Nat) (old : Mem) (bs : Bytes) :
    (readIntoE cfg d fuel ty bare params old bs).map (fun p => (abs p.1, p.2)) = readTL1 cfg d fuel ty bare params bs := by
  rw [← read_into_any_eq_fresh cfg d fuel ty bare params old bs]
  unfold readIntoE
  cases readInto cfg d fuel ty bare params old bs with
  | mk m r => cases r <;> rfl

/-! ### histories -/

/-- one operation on the object: a decode (with its own recursion budget, as the driver gives it) or `Reset()` -/
inductive HStep where
  | read (fuel : Nat) (bs : Bytes)
  | reset (fuel : Nat)

/-- what the caller sees after an operation: result of the decode / the object after `Reset` -/
inductive HObs where
  | read (r : RRes)
  | reset (v : Val)

variable (cfg : Cfg) (d : Desc) (ty : Nat) (bare : Bool) (params : List Nat)

/-- one operation applied to the object `old`: the object left behind (dirty after an error) and the observation -/
def applyStep (old : Mem) : HStep → Mem × HObs
  | .read fuel bs =>
    let r := readInto cfg d fuel ty bare params old bs
    (r.1, .read (obs r))
  | .reset fuel =>
    let m := resetMem d fuel ty old
    (m, .reset (abs m))

/-- a history of operations on ONE object -/
def history : Mem → List HStep → Mem × List HObs
  | old, [] => (old, [])
  | old, s :: rest =>
    let a := applyStep cfg d ty bare params old s
    let h := history a.1 rest
    (h.1, a.2 :: h.2)

/-- the same operation applied to a freshly created object -/
def freshStep : HStep → HObs
  | .read fuel bs => .read (readTL1 cfg d fuel ty bare params bs)
  | .reset fuel => .reset (abs (freshMem d fuel ty))

/-- `Reset` is only claimed for types whose zero value is a finite term (T3: evaluated for every factory item, `codec.z1`) -/
def resetsOk : List HStep → Prop
  | [] => True
  | .reset fuel :: rest => (Z.zeroVal d fuel ty).isSome ∧ resetsOk rest
  | _ :: rest => resetsOk rest

/-- Every observation of a history on one object — whatever that object held before — is the observation the same
operation gives on a fresh object. -/
theorem history_independent (old : Mem) (steps : List HStep) (h : resetsOk d ty steps) :
    (history cfg d ty bare params old steps).2 = steps.map (freshStep cfg d ty bare params) := by
  induction steps generalizing old with
  | nil => rfl
  | cons s rest ih =>
    cases s with
    | read fuel bs =>
      simp only [history, applyStep, List.map_cons, freshStep]
      rw [ih _ h, read_into_any_eq_fresh]
    | reset fuel =>
      obtain ⟨hz, hr⟩ := h
      simp only [history, applyStep, List.map_cons, freshStep]
      rw [ih _ hr]
      obtain ⟨z, hz⟩ := Option.isSome_iff_exists.mp hz
      rw [reset_abs d fuel ty old z hz, fresh_abs d fuel ty z hz]

/-- in particular the last observation is the fresh decode of the last input -/
theorem history_last (old : Mem) (steps : List HStep) (fuel : Nat) (bs : Bytes) (h : resetsOk d ty steps) :
    (history cfg d ty bare params old (steps ++ [.read fuel bs])).2.getLast? =
      some (.read (readTL1 cfg d fuel ty bare params bs)) := by
  have hr : resetsOk d ty (steps ++ [.read fuel bs]) := by
    induction steps with
    | nil => trivial
    | cons s rest ih => cases s with
      | read f b => exact ih h
      | reset f => exact ⟨h.1, ih h.2⟩
  rw [history_independent cfg d ty bare params old _ hr]
  simp [freshStep]

/-- `Reset` makes any object equal to a fresh one: both are the zero value `Z.zeroVal`. -/
theorem reset_eq_fresh (d : Desc) (fuel ty : Nat) (old : Mem) (z : Val) (h : Z.zeroVal d fuel ty = some z) :
    abs (resetMem d fuel ty old) = abs (freshMem d fuel ty) ∧ abs (freshMem d fuel ty) = z :=
  ⟨by rw [reset_abs d fuel ty old z h, fresh_abs d fuel ty z h], fresh_abs d fuel ty z h⟩

/-! ### shape of memory states

`Reuse.shaped d m ty` (ReuseLemmas.lean) is Go's static typing of the object: a struct cell holds field storages of the field
types, a union cell an index in range and variant storages, a slice cell elements and stale cells of the element type
(a fixed array exactly `count` of them), `nil` anywhere, missing trailing storage read as `nil`.  The theorems above hold
for every `old`, shaped or not (the accessors of the model are total), so the predicate is not a hypothesis of anything;
it is an invariant of histories: created objects are shaped, `Reset` and every read — successful or failed — keep it. -/

theorem fresh_shaped (d : Desc) (fuel ty : Nat) : shaped d (freshMem d fuel ty) ty = true := fresh_shaped' d fuel ty

theorem reset_shaped (d : Desc) (fuel ty : Nat) (old : Mem) (h : shaped d old ty = true) :
    shaped d (resetMem d fuel ty old) ty = true := reset_shaped' d fuel ty old h

/-- the object left behind by a read (also by a failed one: the dirty object) is shaped -/
theorem read_into_shaped (cfg : Cfg) (d : Desc) (fuel ty : Nat) (bare : Bool) (params : List Nat) (old : Mem) (bs : Bytes)
    (h : shaped d old ty = true) : shaped d (readInto cfg d fuel ty bare params old bs).1 ty = true :=
  read_into_shaped' cfg d fuel ty bare params old bs h

theorem history_shaped (old : Mem) (steps : List HStep) (h : shaped d old ty = true) :
    shaped d (history cfg d ty bare params old steps).1 ty = true := by
  induction steps generalizing old with
  | nil => exact h
  | cons s rest ih =>
    cases s with
    | read fuel bs => exact ih _ (read_into_shaped cfg d fuel ty bare params old bs h)
    | reset fuel => exact ih _ (reset_shaped d fuel ty old h)

/-! ### a concrete dirty object -/

def fld (name : String) (ty : Nat) (bare : Bool := true) (mask : Option (NatArg × Nat) := none) : Field :=
  { name, ty, bare, mask, tl2bit := none, isBit := false, natArgs := [] }

/-- `s m:# a:m.0?# u:U v:(vector #) = S;  a x:# = U;  b = U;` -/
def exDesc : Desc := { insts := #[
  .prim .u32,
  .struct { tag := 1, nparams := 0, fields := [fld "m" 0, fld "a" 0 (mask := some (.field 0, 0)), fld "u" 2 (bare := false), fld "v" 5] },
  .union { variants := [(3, "a"), (4, "b")], elemNatArgs := [], nparams := 0, isEnum := false, isMaybe := false, hasTL2 := false },
  .struct { tag := 10, nparams := 0, fields := [fld "x" 0] },
  .struct { tag := 11, nparams := 0, fields := [] },
  .array { isTuple := false, dynamic := false, count := 0, nparams := 0, elem := fld "" 0, hasTL2 := false }] }

/-- a dirty object: masked-out field `a` holds garbage 99, the union is at variant `a` with x = 7, the vector has 3
elements and one more stale cell behind them -/
def exDirty : Mem :=
  .struct [(true, .nat 0), (false, .nat 99), (true, .union 0 [.struct [(true, .nat 7)], .nil]),
           (true, .vec [.nat 1, .nat 2, .nat 3] [.nat 4])]

/-- `m = 0` (so `a` is absent), `u = b`, `v = [5]` -/
def exInput : Bytes := [0,0,0,0, 11,0,0,0, 1,0,0,0, 5,0,0,0]

/-- The hypotheses are satisfiable and the conclusion is not trivial: after the read the object still holds the stale
variant `a` (x = 7) and the stale slice cells 2, 3, 4 behind the one-element vector, the masked-out `a` was reset from 99
to 0 — and the observation is exactly the fresh decode. -/
theorem dirty_example :
    readInto {} exDesc 5 1 true [] exDirty exInput =
      (.struct [(true, .nat 0), (false, .nat 0), (true, .union 1 [.struct [(true, .nat 7)], .struct []]),
                (true, .vec [.nat 5] [.nat 2, .nat 3, .nat 4])], .ok []) ∧
    obs (readInto {} exDesc 5 1 true [] exDirty exInput) = readTL1 {} exDesc 5 1 true [] exInput ∧
    readTL1 {} exDesc 5 1 true [] exInput =
      .ok (.struct [some (.nat 0), none, some (.union 1 (.struct [])), some (.arr [.nat 5])], []) ∧
    abs exDirty = .struct [some (.nat 0), none, some (.union 0 (.struct [some (.nat 7)])), some (.arr [.nat 1, .nat 2, .nat 3])] ∧
    shaped exDesc exDirty 1 = true :=
  ⟨by rfl, read_into_any_eq_fresh .., by rfl, by rfl, by rfl⟩

/-! ### T1: template sites the model relies on (regenerated from `internal/puregen/gengo/qt_*.qtpl.go` on every run) -/

open TLVerif.Facts.Reuse in
/-- `readFields`: exactly one mask test with an `else`, and `TypeResettingCode` is emitted after the in-place
`EnsureRecursive; TypeReadingCode` of the same field: the `some false` branch of `readFieldsInto` (`rs f.ty o`). -/
theorem struct_else_branch_resets :
    structReadElseSites = 1 ∧
    (structReadFieldsCalls.filter (· == "TypeReadingCode")).length = 1 ∧
    (structReadFieldsCalls.filter (· == "TypeResettingCode")).length = 1 ∧
    (structReadFieldsCalls.filter (· == "EnsureRecursive")).length = 1 ∧
    ((structReadFieldsCalls.dropWhile (· != "EnsureRecursive")).dropWhile (· != "TypeReadingCode")).contains "TypeResettingCode" = true := by
  decide

open TLVerif.Facts.Reuse in
/-- `Reset()` of a struct runs `TypeResettingCode` for its fields (`resetFieldsWith`) -/
theorem struct_reset_resets : (structResetFieldsCalls.filter (· == "TypeResettingCode")).length = 1 := by decide

open TLVerif.Facts.Reuse in
/-- vectors and dynamic tuples: one capacity test and one re-slice per reader (`reslice`) -/
theorem vector_reslices :
    vectorCapTestSites = 1 ∧ vectorResliceSites = 1 ∧ tupleCapTestSites = 2 ∧ tupleResliceSites = 2 ∧ dictSliceResliceSites = 1 := by
  decide

open TLVerif.Facts.Reuse in
/-- map dictionaries are cleared by all three readers (TL1, TL2, JSON) before the refill, and by `Reset` -/
theorem dict_cleared : dictClearSites = 3 ∧ dictResetClearSites = 1 := by decide

open TLVerif.Facts.Reuse in
/-- the union readers assign `item.index` (TL1, TL2, JSON, ResetTo/Set), `Maybe` clears `Ok` in Reset and both TL2 paths -/
theorem union_index_assigned : unionIndexAssignSites = 5 ∧ maybeOkFalseSites = 3 := by decide

end TLVerif.Props.C09
