import TLVerif.Codec.TL1Canon
import TLVerif.Codec.TL1Example
/-!
# C02 — TL1 readers accept only canonical encodings

Model: `TLVerif/Codec/TL1.lean` (`readTL1`/`writeTL1` over a schema descriptor), tied to the generated
Go code by the differential run of `checks/C01.py`.  Helper lemmas: `TLVerif/Codec/TL1Canon.lean`.

Full-strength statement (`TL1CanonicalStatement`): whatever the reader accepts is, byte for byte, the
writer's output for the decoded value followed by the unread rest.  It is **false** for two kinds of
instance, both shown by concrete counter-examples below:

* map-backed dictionaries (`Inst.dict`): Go decodes into `map[K]V`, so duplicate / unsorted keys are
  accepted and re-encoded sorted and deduplicated (`tl1_canonical_fails_at_dict`);
* a lone TL2 `bit` primitive (`Inst.prim .bit`): the model reader returns `false` consuming nothing
  and the model TL1 writer refuses it (`tl1_canonical_fails_at_bit`); it never occurs as a TL1 type of
  its own in exported descriptors, the guard `Desc.noBit` states that.

Proved: `tl1_canonical_on`: the statement for every type of a set `S` of instances that is closed under
type references (`Desc.closed`, decidable; e.g. `d.reach ty`) and contains neither a dictionary nor `bit`
— so a dictionary somewhere in a schema does not spoil the theorem for the types that cannot reach it
(real descriptors do contain dictionaries and an unreferenced `bit` instance); `tl1_canonical` is the
whole-descriptor special case (`Desc.noDict`, `Desc.noBit`);
`tl1_canonical_dict_partial(_on)` (dictionaries allowed): the re-encoding exists and is not longer than
what was consumed.
-/
namespace TLVerif.Props.C02
open TLVerif.Prim TLVerif.Codec

/-- the full-strength statement, for a given configuration and descriptor -/
def TL1CanonicalStatement (cfg : Cfg) (d : Desc) : Prop :=
  ∀ (fuel ty : Nat) (bare : Bool) (params : List Nat) (bs : Bytes) (v : Val) (rest : Bytes),
    readTL1 cfg d fuel ty bare params bs = .ok (v, rest) →
    ∃ pre, bs = pre ++ rest ∧ writeTL1 d fuel ty bare params v = .ok pre

/-- **C02** on a reference-closed set `S` of instances containing no dictionary and no `bit`:
every type in `S` satisfies the full-strength statement. -/
theorem tl1_canonical_on (cfg : Cfg) (d : Desc) (S : Nat → Bool) (hcl : d.closed S = true)
    (hnd : d.allOn S (fun i => !i.isDict) = true) (hnb : d.allOn S (fun i => !i.isBitPrim) = true)
    (fuel ty : Nat) (bare : Bool) (params : List Nat) (bs : Bytes) (v : Val) (rest : Bytes)
    (hS : S ty = true) (h : readTL1 cfg d fuel ty bare params bs = .ok (v, rest)) :
    ∃ pre, bs = pre ++ rest ∧ writeTL1 d fuel ty bare params v = .ok pre := by
  obtain ⟨pre, w, e, hw, r⟩ := readTL1_canonR ByteRel.eq cfg d S hcl hnb (Or.inl hnd) fuel _ _ _ _ _ _ hS h
  exact ⟨pre, e, by rw [hw, r]⟩

/-- **C02** for descriptors without map-backed dictionaries (and without a TL2 `bit` instance). -/
theorem tl1_canonical (cfg : Cfg) (d : Desc) (hnd : d.noDict = true) (hnb : d.noBit = true) :
    TL1CanonicalStatement cfg d := by
  intro fuel ty bare params bs v rest h
  exact tl1_canonical_on cfg d allInsts (Desc.closed_all d) (Desc.allOn_all hnd _) (Desc.allOn_all hnb _)
    fuel ty bare params bs v rest rfl h

/-- **C02**, general version (dictionaries allowed): the decoded value (with dictionaries normalised
by `dictNormalize`: sorted by key, a later duplicate replacing an earlier one) is accepted by the writer, and its
encoding is not longer than the consumed prefix. -/
theorem tl1_canonical_dict_partial_on (cfg : Cfg) (d : Desc) (S : Nat → Bool) (hcl : d.closed S = true)
    (hnb : d.allOn S (fun i => !i.isBitPrim) = true)
    (fuel ty : Nat) (bare : Bool) (params : List Nat) (bs : Bytes) (v : Val) (rest : Bytes)
    (hS : S ty = true) (h : readTL1 cfg d fuel ty bare params bs = .ok (v, rest)) :
    ∃ pre, bs = pre ++ rest ∧ ∃ w, writeTL1 d fuel ty bare params v = .ok w ∧ w.length ≤ pre.length := by
  obtain ⟨pre, w, e, hw, r⟩ :=
    readTL1_canonR ByteRel.le cfg d S hcl hnb (Or.inr (fun _ _ => Iff.rfl)) fuel _ _ _ _ _ _ hS h
  exact ⟨pre, e, w, hw, r⟩

/-- whole-descriptor version of `tl1_canonical_dict_partial_on` -/
theorem tl1_canonical_dict_partial (cfg : Cfg) (d : Desc) (hnb : d.noBit = true)
    (fuel ty : Nat) (bare : Bool) (params : List Nat) (bs : Bytes) (v : Val) (rest : Bytes)
    (h : readTL1 cfg d fuel ty bare params bs = .ok (v, rest)) :
    ∃ pre, bs = pre ++ rest ∧ ∃ w, writeTL1 d fuel ty bare params v = .ok w ∧ w.length ≤ pre.length :=
  tl1_canonical_dict_partial_on cfg d allInsts (Desc.closed_all d) (Desc.allOn_all hnb _)
    fuel ty bare params bs v rest rfl h

/-- the unread rest is a suffix of the input -/
theorem tl1_read_prefix (cfg : Cfg) (d : Desc) (hnb : d.noBit = true)
    (fuel ty : Nat) (bare : Bool) (params : List Nat) (bs : Bytes) (v : Val) (rest : Bytes)
    (h : readTL1 cfg d fuel ty bare params bs = .ok (v, rest)) : ∃ pre, bs = pre ++ rest := by
  obtain ⟨pre, e, _⟩ := tl1_canonical_dict_partial cfg d hnb fuel ty bare params bs v rest h
  exact ⟨pre, e⟩

/-! ## counter-examples to the unguarded statement -/

/-- dictionary `{1→2, 1→3}` (duplicate key) is accepted, decoded to `{1→3}`, whose encoding differs. -/
theorem tl1_canonical_fails_at_dict : ¬ TL1CanonicalStatement {} Ex.dictD := by
  intro h
  have hr : readTL1 {} Ex.dictD 3 2 true [] [2,0,0,0, 1,0,0,0, 2,0,0,0, 1,0,0,0, 3,0,0,0]
      = .ok (.arr [.struct [some (.nat 1), some (.nat 3)]], []) := by rfl
  obtain ⟨pre, e, hw⟩ := h _ _ _ _ _ _ _ hr
  have hw' : writeTL1 Ex.dictD 3 2 true [] (.arr [.struct [some (.nat 1), some (.nat 3)]])
      = .ok [1,0,0,0, 1,0,0,0, 3,0,0,0] := by rfl
  rw [hw'] at hw
  injection hw with hw
  rw [← hw] at e
  simp at e

/-- a lone `bit` reads as `false` from no bytes but is refused by the TL1 writer. -/
theorem tl1_canonical_fails_at_bit : ¬ TL1CanonicalStatement {} Ex.bitD := by
  intro h
  have hr : readTL1 {} Ex.bitD 1 0 true [] [] = .ok (.bool false, []) := by rfl
  obtain ⟨pre, _, hw⟩ := h _ _ _ _ _ _ _ hr
  have hw' : writeTL1 Ex.bitD 1 0 true [] (.bool false) = .error .shape := by rfl
  rw [hw'] at hw
  cases hw

/-! ## corollaries: what is rejected -/

/-- no variant of the union has tag `tag` -/
def noVariantWithTag (d : Desc) (tag : Nat) (vs : List (Nat × String)) : Bool :=
  vs.all (fun p => match d.get? p.1 with | some (.struct s) => s.tag != tag | _ => true)

theorem findVariant_none_of (d : Desc) (tag : Nat) :
    ∀ (vs : List (Nat × String)) (j : Nat), noVariantWithTag d tag vs = true → findVariant d tag vs j = none := by
  intro vs
  induction vs with
  | nil => intro j _; rfl
  | cons p vs ih =>
    intro j h
    obtain ⟨vi, nm⟩ := p
    simp only [noVariantWithTag, List.all_cons, Bool.and_eq_true] at h
    obtain ⟨h1, h2⟩ := h
    simp only [findVariant]
    cases hg : d.get? vi with
    | none => simp only; exact ih _ h2
    | some inst =>
      cases inst with
      | struct s =>
        simp only [hg, bne_iff_ne, ne_eq] at h1
        simp only [if_neg h1]; exact ih _ h2
      | prim k => simp only; exact ih _ h2
      | union u => simp only; exact ih _ h2
      | array a => simp only; exact ih _ h2
      | dict a => simp only; exact ih _ h2

/-- a union whose input starts with a tag matching no variant is rejected (`.rej`, not EOF, nothing decoded) -/
theorem rejects_unknown_tag (cfg : Cfg) (d : Desc) (fuel ty : Nat) (bare : Bool) (params : List Nat) (u : UnionD)
    (tag : Nat) (rest : Bytes) (hg : d.get? ty = some (.union u))
    (hno : noVariantWithTag d (tag % 4294967296) u.variants = true) :
    readTL1 cfg d (fuel + 1) ty bare params (u32le tag ++ rest) = .error .rej := by
  simp only [readTL1, hg, readU32_u32le, findVariant_none_of d _ _ _ hno]

/-- a boxed struct whose input starts with another tag is rejected -/
theorem rejects_wrong_struct_tag (cfg : Cfg) (d : Desc) (fuel ty : Nat) (params : List Nat) (s : StructD)
    (tag : Nat) (rest : Bytes) (hg : d.get? ty = some (.struct s)) (hne : tag % 4294967296 ≠ s.tag) :
    readTL1 cfg d (fuel + 1) ty false params (u32le tag ++ rest) = .error .rej := by
  simp only [readTL1, hg, Bool.false_eq_true, if_false, readExactTag_wrong hne]

/-- `Bool`: any tag other than the two constructor tags is rejected -/
theorem rejects_bad_bool (cfg : Cfg) (d : Desc) (fuel ty : Nat) (bare : Bool) (params : List Nat) (f t : Nat)
    (tag : Nat) (rest : Bytes) (hg : d.get? ty = some (.prim (.bool f t)))
    (hf : tag % 4294967296 ≠ f) (ht : tag % 4294967296 ≠ t) :
    readTL1 cfg d (fuel + 1) ty bare params (u32le tag ++ rest) = .error .rej := by
  simp only [readTL1, hg, readPrim, readU32_u32le, if_neg hf, if_neg ht]

/-- strings: what is accepted is exactly `stringWrite` of the decoded string; together with
`Props.C33.string_read_canonical` this is "non-minimal length forms and non-zero padding are rejected" -/
theorem string_only_canonical (cfg : Cfg) (d : Desc) (fuel ty : Nat) (bare : Bool) (params : List Nat)
    (bs : Bytes) (v : Val) (rest : Bytes) (hg : d.get? ty = some (.prim .str))
    (h : readTL1 cfg d (fuel + 1) ty bare params bs = .ok (v, rest)) :
    ∃ s pre, v = .str s ∧ stringWrite s = some pre ∧ bs = pre ++ rest := by
  simp only [readTL1, hg, readPrim] at h
  cases h1 : stringRead bs with
  | error e => rw [h1] at h; cases h
  | ok p =>
    obtain ⟨s, r⟩ := p
    rw [h1] at h; injection h with h; injection h with h2 h3
    subst h2; subst h3
    obtain ⟨pre, hw, e⟩ := string_read_canonical _ _ _ h1
    exact ⟨s, pre, rfl, hw, e⟩

/-- a string with a non-minimal length form (`fe 01 00 00 'a'…`: medium header for length 1) is rejected -/
example : readTL1 {} Ex.demo 1 3 true [] [0xfe, 1, 0, 0, 0x61, 0, 0, 0] = .error .rej := by rfl
/-- a string with non-zero padding is rejected -/
example : readTL1 {} Ex.demo 1 3 true [] [1, 0x61, 0, 1] = .error .rej := by rfl

/-! ## the hypotheses are satisfiable on a non-trivial descriptor -/

example : Ex.demo.noDict = true ∧ Ex.demo.noBit = true := by decide
example : readTL1 {} Ex.demo 3 4 false [] (Ex.demoBytes ++ [9, 9]) = .ok (Ex.demoVal, [9, 9]) := by rfl
example : writeTL1 Ex.demo 3 4 false [] Ex.demoVal = .ok Ex.demoBytes := by rfl
example : ∃ pre, Ex.demoBytes ++ [9, 9] = pre ++ [9, 9] ∧ writeTL1 Ex.demo 3 4 false [] Ex.demoVal = .ok pre :=
  tl1_canonical {} Ex.demo (by decide) (by decide) 3 4 false [] _ _ _ (by rfl)
/-- a schema with a dictionary: the struct `holder` (index 3) cannot reach it, and the theorem applies to it -/
example : Ex.mixedD.noDict = false ∧ Ex.mixedD.closed (Ex.mixedD.reach 3) = true ∧
    Ex.mixedD.allOn (Ex.mixedD.reach 3) (fun i => !i.isDict) = true ∧
    Ex.mixedD.allOn (Ex.mixedD.reach 3) (fun i => !i.isBitPrim) = true ∧ Ex.mixedD.reach 3 3 = true := by decide
example : readTL1 {} Ex.unionD 2 3 false [] [0xc, 0, 0, 0] = .error .rej :=
  rejects_unknown_tag {} Ex.unionD 1 3 false [] _ 0xc [] rfl (by decide)

end TLVerif.Props.C02
