import TLVerif.Syntax.PrinterLemmas
/-!
# C25 — Canonical schema listing is faithful to the schema

Statement (fixed): *The canonical listing output has one line per constructor and function carrying its effective
tag, and, once each line is terminated, it parses into combinators with the same names, tags, template arguments,
fields and result types as the input schema.*

Model: `TL.listingLines` / `Combinator.canonicalFormWithTag` (`qt_combined2tl.qtpl(.go)`: `Generate2TL`,
`canonicalFormWithTag`), fed by `gencanonical.Generate` with the combinators of the parsed files.

**Proved** (all schemas): the line count, the fixed five-line header, that every line carries `name#tag` with the
combinator's tag in a form the parser reads back as the same tag, that modifiers are only permuted.
**Not proved, and false in general** (known finding): a terminated line parses back to the same *fields* only when no
field type is an application — `toCrc32` flattens applications (`x:(pair int (pair int int))` and
`x:(pair int pair int int)` give the same line, `line_flattens_applications`), and drops `!` and `%` on lower-case
names.  The check evaluates the re-parse oracle under the corresponding decidable guard and replays a witness.
-/
namespace TLVerif.Props.C25
open TLVerif.Syntax

/-- one line per constructor/function (the five builtin names are replaced by the fixed header) -/
theorem listing_line_count (tl : TL) :
    tl.listingLines.length = 5 + (tl.combinators.filter (fun c => !listingSkipped c)).length := by
  simp [TL.listingLines, listingHeader]; omega

/-- the listing always starts with the five hard-coded builtin lines -/
theorem listing_header_fixed (tl : TL) : tl.listingLines.take 5 = listingHeader := by
  simp [TL.listingLines, listingHeader]

/-- every line is `[@mods ]name#xxxxxxxx rest` with the combinator's own (effective) tag -/
theorem listing_line_has_tag (c : Combinator) :
    ∃ pre post, c.canonicalFormWithTag = pre ++ (c.construct.name.str ++ [cHash] ++ hex8 c.construct.id ++ [cSpace]) ++ post := by
  unfold Combinator.canonicalFormWithTag
  refine ⟨((listingMods c.mods).map (fun m => [cAt] ++ m ++ [cSpace])).flatten,
    (c.targs.map (fun x => [cLCurly] ++ x.name ++ (if x.isNat then [cColon, cHash] else [cColon] ++ typeBytes) ++ [cRCurly, cSpace])).flatten ++
    (if c.builtin then [cQuestion, cSpace] else []) ++
    (c.fields.map (fun f => f.crc ++ [cSpace])).flatten ++
    [cEqual, cSpace] ++
    (if c.isFunction then c.funcDecl.crc else c.typeDecl.str), ?_⟩
  simp only [List.append_assoc]

/-- … and the eight hex digits are read back by the parser as that tag -/
theorem tag_print_parse (id : UInt32) : parseHex32 (hex8 id) = some id.toNat := parseHex32_hex8 id

theorem insertMod_perm (m : Bytes) : ∀ l : List Bytes, (insertMod m l).Perm (m :: l)
  | [] => by simp [insertMod]
  | x :: xs => by
    unfold insertMod
    split
    · exact List.Perm.refl _
    · exact ((insertMod_perm m xs).cons x).trans (List.Perm.swap m x xs)

theorem foldl_insert_perm : ∀ (ms acc : List Bytes), (ms.foldl (fun a m => insertMod m a) acc).Perm (ms.reverse ++ acc)
  | [], acc => by simp
  | m :: ms, acc => by
    simp only [List.foldl_cons, List.reverse_cons, List.append_assoc, List.singleton_append]
    exact (foldl_insert_perm ms (insertMod m acc)).trans ((insertMod_perm m acc).append_left _)

/-- the modifiers of a line are the combinator's modifiers, reordered (sorted by flag) -/
theorem sortMods_perm (ms : List Bytes) : (sortMods ms).Perm ms := by
  unfold sortMods
  have := foldl_insert_perm ms []
  simp only [List.append_nil] at this
  exact this.trans (List.reverse_perm ms)

def tInt : TypeRef := .mk ⟨[], strBytes "int"⟩ [] false
def tPair (args : List AOT) : TypeRef := .mk ⟨[], strBytes "pair"⟩ args false

/-- **Finding.**  The listing form of a type flattens applications: two different field types give the same text,
so a line with an applied type cannot parse back to the field it came from (it parses to a plain `pair` followed
by further anonymous fields). -/
theorem line_flattens_applications :
    (tPair [.type tInt, .type (tPair [.type tInt, .type tInt])]).crc =
      (tPair [.type tInt, .type (tPair []), .type tInt, .type tInt]).crc ∧
    (tPair [.type tInt, .type (tPair [.type tInt, .type tInt])]).crc = strBytes "pair int pair int int" := by
  constructor <;> rfl

end TLVerif.Props.C25
