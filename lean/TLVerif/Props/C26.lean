import TLVerif.Tlomig.GenTloLemmas
import TLVerif.Tlomig.TlsLemmas
/-!
C26 — TLO output describes the schema faithfully.

Full-strength statement: for every accepted TL1 schema `cs` (the combinators `Kernel.TL1()` hands to `GenerateTLO`)
and timestamp, the produced TLO lists every constructor and every function exactly once with its tag and name, every
type exactly once with arity, parameter kinds, constructor count and name = XOR of its constructor tags, and the
bytes decode back to the same description.

Two parts of it fail on the unchanged code (both reproduced by the check on every run, see known_findings.d/C26.json):
* a builtin wrapper declared with a non-standard tag (`int#deadbeef ? = Int;`, accepted by the kernel) is listed
  with the hard-coded tag: `builtin_tag_fails_at`;
* a user type named `Type` (accepted by the kernel) is merged into the predeclared pseudo-type entry, whose name
  starts at `typeTag`: `type_name_xor_fails_for_Type`.
The theorems below are therefore stated under the exact decidable guards `builtinsStandard` / `T ≠ "#", "Type"`;
without the guards the weaker, still exact, forms `constructors_listed_once` / `type_entry_faithful` hold.
-/
namespace TLVerif.Props.C26
open TLVerif.Tlomig TLVerif.Prim

/-- everything `generateTLO` returns, in one place -/
theorem generateTLO_ok (ts now : UInt32) (cs : Schema) (out : SchemaV4) (h : generateTLO ts now cs = .ok out) :
    ∃ k f, convAll ⟨cs, buildTypes cs⟩ cs = .ok (k, f) ∧
      out = { version := ts, date := if ts = 0 then now else ts,
              typesNum := u32 (sortedTypes (buildTypes cs)).length, types := sortedTypes (buildTypes cs),
              constructorNum := u32 k.length, constructors := k,
              functionsNum := u32 (sortBy (fun a b => bytesLt a.id b.id) f).length,
              functions := sortBy (fun a b => bytesLt a.id b.id) f } ∧
      hasDup ((sortedTypes (buildTypes cs)).map (·.name)) = false := by
  unfold generateTLO at h
  simp only at h
  split at h
  · contradiction
  · rename_i k f hc
    split at h
    · contradiction
    · rename_i hd
      simp only [Except.ok.injEq] at h
      exact ⟨k, f, hc, h.symm, by simpa using hd⟩

/-- counts equal the list lengths; version and date are the requested timestamp -/
theorem counts_and_timestamps (ts now : UInt32) (cs : Schema) (out : SchemaV4)
    (h : generateTLO ts now cs = .ok out) :
    out.typesNum = u32 out.types.length ∧ out.constructorNum = u32 out.constructors.length ∧
    out.functionsNum = u32 out.functions.length ∧ out.version = ts ∧ (ts ≠ 0 → out.date = ts) := by
  obtain ⟨k, f, _, ho, _⟩ := generateTLO_ok ts now cs out h
  subst ho
  refine ⟨rfl, rfl, rfl, rfl, ?_⟩
  intro hne
  simp [hne]

/-- Constructors: the list of (tag, name) headers is, in declaration order, exactly the list of the schema's
constructors (and builtin-named combinators, listed under the builtin tag): none missing, none twice, none invented. -/
theorem constructors_listed_once (ts now : UInt32) (cs : Schema) (out : SchemaV4)
    (h : generateTLO ts now cs = .ok out) :
    out.constructors.map hdr = cs.filterMap ctorEntry := by
  obtain ⟨k, f, hc, ho, _⟩ := generateTLO_ok ts now cs out h
  subst ho
  exact (convAll_hdrs _ cs k f hc).1

/-- Functions: the headers are a permutation of the schema's functions (each exactly once). -/
theorem functions_listed_once (ts now : UInt32) (cs : Schema) (out : SchemaV4)
    (h : generateTLO ts now cs = .ok out) :
    (out.functions.map hdr).Perm (cs.filterMap funEntry) := by
  obtain ⟨k, f, hc, ho, _⟩ := generateTLO_ok ts now cs out h
  subst ho
  rw [← (convAll_hdrs _ cs k f hc).2]
  exact (sortBy_perm _ f).map hdr

/-- Functions are sorted by id (byte-wise, as Go compares strings): no later id is smaller than an earlier one. -/
theorem functions_sorted (ts now : UInt32) (cs : Schema) (out : SchemaV4)
    (h : generateTLO ts now cs = .ok out) :
    out.functions.Pairwise (fun a b => bytesLt b.id a.id = false) := by
  obtain ⟨k, f, _, ho, _⟩ := generateTLO_ok ts now cs out h
  subst ho
  exact sortBy_sorted (fun a b => bytesLt a.id b.id) (fun a b => bytesLt_asymm a.id b.id)
    (fun a b c => bytesLt_trans a.id b.id c.id) f

/-- guard: builtin wrappers carry the tags `GenerateTLO` hard-codes, and no function is named like a builtin -/
def builtinsStandard (cs : Schema) : Bool :=
  cs.all (fun c => match builtinTag c.name with
    | some t => t == c.tag && !c.isFunction
    | none => true)

theorem ctorEntry_standard (c : Comb) (h : (match builtinTag c.name with
    | some t => t == c.tag && !c.isFunction
    | none => true) = true) :
    ctorEntry c = (if c.isFunction then none else some (combHdr c)) ∧
    funEntry c = (if c.isFunction then some (combHdr c) else none) := by
  unfold ctorEntry funEntry
  split at h
  · rename_i t ht
    simp only [Bool.and_eq_true, beq_iff_eq, Bool.not_eq_true'] at h
    obtain ⟨h1, h2⟩ := h
    subst h1
    simp [ht, h2, combHdr]
  · rename_i hn
    simp [hn]

theorem filterMap_standard (cs : Schema) (h : builtinsStandard cs = true) :
    cs.filterMap ctorEntry = (cs.filter (fun c => !c.isFunction)).map combHdr ∧
    cs.filterMap funEntry = (cs.filter (fun c => c.isFunction)).map combHdr := by
  induction cs with
  | nil => simp
  | cons c cs ih =>
    simp only [builtinsStandard, List.all_cons, Bool.and_eq_true] at h
    obtain ⟨hc, hrest⟩ := h
    obtain ⟨e1, e2⟩ := ctorEntry_standard c hc
    obtain ⟨i1, i2⟩ := ih (by simpa [builtinsStandard] using hrest)
    simp only [List.filterMap_cons, e1, e2, List.filter_cons]
    cases hf : c.isFunction <;> simp [i1, i2]

/-- C26 (constructors and functions), under the guard: every constructor of the schema is listed exactly once
with *its* tag and name, in declaration order, and the functions are a permutation of the schema's functions. -/
theorem constructor_tag_name (ts now : UInt32) (cs : Schema) (out : SchemaV4)
    (h : generateTLO ts now cs = .ok out) (hb : builtinsStandard cs = true) :
    out.constructors.map hdr = (cs.filter (fun c => !c.isFunction)).map combHdr ∧
    (out.functions.map hdr).Perm ((cs.filter (fun c => c.isFunction)).map combHdr) := by
  obtain ⟨e1, e2⟩ := filterMap_standard cs hb
  exact ⟨e1 ▸ constructors_listed_once ts now cs out h, e2 ▸ functions_listed_once ts now cs out h⟩

/-- Types are listed exactly once: the type list is a permutation of the values of a map with pairwise distinct
keys, each entry carries its key as id, and the keys are `#`, `Type` and the declared type names. -/
theorem types_listed_once (ts now : UInt32) (cs : Schema) (out : SchemaV4)
    (h : generateTLO ts now cs = .ok out) :
    out.types.Perm ((buildTypes cs).map (·.2)) ∧ (keys (buildTypes cs)).Nodup ∧
    (∀ T, T ∈ keys (buildTypes cs) ↔ (T = "#" ∨ T = "Type" ∨ ∃ c ∈ cs, c.isFunction = false ∧ c.typeName = T)) := by
  obtain ⟨k, f, _, ho, _⟩ := generateTLO_ok ts now cs out h
  subst ho
  refine ⟨(sortBy_perm _ _).map _, keys_buildTypes_nodup cs, ?_⟩
  intro T
  have key : lookupType (buildTypes cs) T = none ↔
      ¬ (T = "#" ∨ T = "Type" ∨ ∃ c ∈ cs, c.isFunction = false ∧ c.typeName = T) := by
    unfold buildTypes
    rw [lookup_fold]
    have hinit : lookupType initTypes T = none ↔ ¬ (T = "#" ∨ T = "Type") := by
      unfold initTypes
      rw [lookupType_cons, lookupType_cons, lookupType_nil]
      by_cases h1 : T = "#"
      · subst h1; simp
      · by_cases h2 : T = "Type"
        · subst h2; simp
        · have e1 : ("#" == T) = false := by simpa using fun e => h1 e.symm
          have e2 : ("Type" == T) = false := by simpa using fun e => h2 e.symm
          simp [e1, e2, h1, h2]
    cases hl : lookupType initTypes T with
    | some t0 =>
      have : T = "#" ∨ T = "Type" := by
        by_cases hn : T = "#" ∨ T = "Type"
        · exact hn
        · rw [hinit.mpr hn] at hl
          cases hl
      simp only [reduceCtorEq, false_iff, Classical.not_not]
      rcases this with e | e
      · exact Or.inl e
      · exact Or.inr (Or.inl e)
    | none =>
      have hn := hinit.mp hl
      have hn1 : ¬ T = "#" := fun e => hn (Or.inl e)
      have hn2 : ¬ T = "Type" := fun e => hn (Or.inr e)
      simp only [hn1, hn2, false_or]
      cases hc : ctorsOf cs T with
      | nil =>
        simp only [true_iff]
        intro hex
        obtain ⟨c, hm, hf, ht⟩ := hex
        have : c ∈ ctorsOf cs T := by
          simp [ctorsOf, isCtorOf, hm, hf, ht]
        rw [hc] at this
        cases this
      | cons c rest =>
        simp only [reduceCtorEq, false_iff, Classical.not_not]
        have : c ∈ ctorsOf cs T := by rw [hc]; exact List.mem_cons_self
        simp only [ctorsOf, isCtorOf, List.mem_filter, Bool.and_eq_true, Bool.not_eq_true', beq_iff_eq] at this
        exact ⟨c, this.1, this.2.1, this.2.2⟩
  constructor
  · intro hmem
    by_cases hr : (T = "#" ∨ T = "Type" ∨ ∃ c ∈ cs, c.isFunction = false ∧ c.typeName = T)
    · exact hr
    · exact absurd hmem ((lookup_none_iff _ _).mp (key.mpr hr))
  · intro hr
    by_cases hmem : T ∈ keys (buildTypes cs)
    · exact hmem
    · exact absurd hr (key.mp ((lookup_none_iff _ _).mpr hmem))

/-- the entry of a declared type `T` (other than the two predeclared pseudo-types): it is in the list, carries id `T`,
constructor count, the arity and parameter kinds of its first constructor, and name = XOR of its constructor tags -/
theorem type_entry_faithful (ts now : UInt32) (cs : Schema) (out : SchemaV4)
    (h : generateTLO ts now cs = .ok out) (T : String) (h1 : T ≠ "#") (h2 : T ≠ "Type")
    (c : Comb) (rest : List Comb) (hc : ctorsOf cs T = c :: rest) :
    ∃ t, lookupType (buildTypes cs) T = some t ∧ t ∈ out.types ∧ t.id = strBytes T ∧
      t.name = xorTags (ctorsOf cs T) ∧ t.constructorsNum = u32 (ctorsOf cs T).length ∧
      t.arity = u32 c.typeArgs.length ∧ t.paramsType = paramsTypeOf c.targs 0 := by
  obtain ⟨k, f, _, ho, _⟩ := generateTLO_ok ts now cs out h
  subst ho
  have e1 : ("#" == T) = false := by simpa using fun e => h1 e.symm
  have e2 : ("Type" == T) = false := by simpa using fun e => h2 e.symm
  have hinit : lookupType initTypes T = none := by
    unfold initTypes
    rw [lookupType_cons, lookupType_cons, lookupType_nil]
    simp [e1, e2]
  have hl : lookupType (buildTypes cs) T = some (applyAll (c :: rest) (freshType c)) := by
    unfold buildTypes
    rw [lookup_fold, hinit, hc]
  have hT : c.typeName = T := by
    have : c ∈ ctorsOf cs T := by rw [hc]; exact List.mem_cons_self
    simp only [ctorsOf, isCtorOf, List.mem_filter, Bool.and_eq_true, beq_iff_eq] at this
    exact this.2.2
  refine ⟨_, hl, ?_, ?_, ?_, ?_, ?_, ?_⟩
  · have hm := lookup_mem _ _ _ hl
    exact ((sortBy_perm _ _).map (·.2)).mem_iff.mpr (List.mem_map.mpr ⟨_, hm, rfl⟩)
  · rw [(applyAll_fixed _ _).1]; simp [freshType, hT]
  · rw [applyAll_name, hc]; rfl
  · rw [applyAll_count, hc]; simp [freshType]
  · rw [(applyAll_fixed _ _).2.1]; rfl
  · rw [(applyAll_fixed _ _).2.2]; rfl

/-- C26 (parameter kinds): in the entry of a declared type, bit `i` (`i < 64`) of `params_type` is set iff the
`i`-th template argument of the type's first constructor exists and is a `#` -/
theorem type_param_kinds (ts now : UInt32) (cs : Schema) (out : SchemaV4)
    (h : generateTLO ts now cs = .ok out) (T : String) (h1 : T ≠ "#") (h2 : T ≠ "Type")
    (c : Comb) (rest : List Comb) (hc : ctorsOf cs T = c :: rest) (i : Nat) (hi : i < 64) :
    ∃ t ∈ out.types, t.id = strBytes T ∧
      t.paramsType.toNat.testBit i = ((c.targs[i]?).map (·.isNat)).getD false := by
  obtain ⟨t, _, hin, hid, _, _, _, hp⟩ := type_entry_faithful ts now cs out h T h1 h2 c rest hc
  refine ⟨t, hin, hid, ?_⟩
  rw [hp, paramsTypeOf_testBit c.targs 0 i hi]
  simp

/-- C26 (types): the name of every declared type is the XOR of its constructor tags -/
theorem type_name_is_xor_of_tags (ts now : UInt32) (cs : Schema) (out : SchemaV4)
    (h : generateTLO ts now cs = .ok out) (T : String) (h1 : T ≠ "#") (h2 : T ≠ "Type")
    (c : Comb) (hm : c ∈ cs) (hf : c.isFunction = false) (ht : c.typeName = T) :
    ∃ t ∈ out.types, t.id = strBytes T ∧ t.name = (ctorsOf cs T).foldl (fun a c => a ^^^ c.tag) 0 := by
  have hmem : c ∈ ctorsOf cs T := by simp [ctorsOf, isCtorOf, hm, hf, ht]
  cases hc : ctorsOf cs T with
  | nil => rw [hc] at hmem; cases hmem
  | cons c0 rest =>
    obtain ⟨t, _, hin, hid, hname, _⟩ := type_entry_faithful ts now cs out h T h1 h2 c0 rest hc
    exact ⟨t, hin, hid, by rw [hname, hc]; rfl⟩


/-! ### the bytes decode back -/

/-- C26 (bytes): for every `tls.schema_v4` value whose conditional `tls.arg` fields are zero when their flag bit is
clear, the reader applied to the writer's output (followed by anything) returns the value and leaves the rest. -/
theorem tlo_roundtrip (s : SchemaV4) (bs rest : Bytes) (h : encSchema s = some bs) (hw : wfSchema s = true) :
    decodeSchema (bs ++ rest) = .ok (s, rest) :=
  schema_roundtrip s bs rest h hw

/-- type entries alone (no side condition): name, id, constructor count, flags, arity and parameter kinds of every
listed type survive the byte encoding -/
theorem tlo_types_decode_back (ts : List TlsType) (bs rest : Bytes) (h : encTypes ts = some bs) :
    decTypes ts.length (bs ++ rest) = .ok (ts, rest) :=
  types_roundtrip ts bs rest h

/-- the TLO bytes of a generated schema decode back to the generated description; `wfSchema out` is decidable and is
evaluated by the model driver on every generated schema of a run (it holds by construction: `GenerateTLO` sets
`VarNum`/`ExistVarNum` only together with their flag bits) -/
theorem tlo_bytes_decode_back (ts now : UInt32) (cs : Schema) (out : SchemaV4) (bs : Bytes)
    (_h : generateTLO ts now cs = .ok out) (hw : wfSchema out = true) (he : encSchema out = some bs) :
    decodeSchema bs = .ok (out, []) := by
  have := schema_roundtrip out bs [] he hw
  simpa using this

/-! ### the two counter-examples on the unchanged code (witnesses replayed by the check on every run) -/

def mkCtor (name : String) (tag : UInt32) (typeName : String) : Comb :=
  { isFunction := false, name := name, tag := tag, modifiers := [], targs := [], fields := [],
    typeName := typeName, typeArgs := [], funcDecl := .mk "" false [] }

/-- `foo = Type;` (accepted by the kernel) -/
def typeNamedType : Schema := [mkCtor "foo" 240305603 "Type"]

/-- full-strength type statement without the guard `T ≠ "Type"`: every listed entry of a declared type has
name = XOR of its constructor tags -/
def TypeNameIsXor (cs : Schema) : Prop :=
  ∀ T c, c ∈ cs → c.isFunction = false → c.typeName = T →
    (lookupType (buildTypes cs) T).map (·.name) = some ((ctorsOf cs T).foldl (fun a c => a ^^^ c.tag) 0)

/-- it fails for a user type named `Type`: the entry's name is `typeTag ^ tag(foo)`, not `tag(foo)` -/
theorem type_name_xor_fails_for_Type : ¬ TypeNameIsXor typeNamedType := by
  intro h
  have h1 := h "Type" (mkCtor "foo" 240305603 "Type") List.mem_cons_self rfl rfl
  have h2 : (lookupType (buildTypes typeNamedType) "Type").map (·.name) = some (typeTag32 ^^^ 240305603) := by decide
  have h3 : (ctorsOf typeNamedType "Type").foldl (fun a c => a ^^^ c.tag) 0 = (240305603 : UInt32) := by decide
  rw [h2, h3] at h1
  have : (typeTag32 ^^^ (240305603 : UInt32)) ≠ 240305603 := by decide
  exact this (Option.some.inj h1)

/-- `int#deadbeef ? = Int;` (accepted by the kernel) -/
def nonStandardInt : Schema := [mkCtor "int" 3735928559 "Int"]

/-- full-strength constructor statement without the guard: the listed tags are the declared tags -/
def ConstructorTagsAreDeclared (cs : Schema) : Prop :=
  (cs.filterMap ctorEntry).map (·.1) = (cs.filter (fun c => !c.isFunction)).map (·.tag)

/-- it fails for a builtin wrapper with a non-standard tag: the hard-coded tag is listed -/
theorem builtin_tag_fails_at : ¬ ConstructorTagsAreDeclared nonStandardInt := by
  unfold ConstructorTagsAreDeclared
  have h1 : (nonStandardInt.filterMap ctorEntry).map (·.1) = [intTag32] := by decide
  have h2 : (nonStandardInt.filter (fun c => !c.isFunction)).map (·.tag) = [(3735928559 : UInt32)] := by decide
  rw [h1, h2]
  decide

/-- the guards are satisfiable by a non-trivial schema (builtin, union, function) -/
def exampleSchema : Schema :=
  [mkCtor "int" 2823855066 "Int", mkCtor "a.x" 1 "a.T", mkCtor "a.y" 2 "a.T",
   { mkCtor "f.get" 7 "" with isFunction := true, funcDecl := .mk "a.T" false [] }]

example : builtinsStandard exampleSchema = true := by decide
example : (lookupType (buildTypes exampleSchema) "a.T").map (fun t => (t.name, t.constructorsNum)) = some (3, 2) := by decide
example : (exampleSchema.filterMap funEntry).map (·.1) = [7] := by decide

end TLVerif.Props.C26
