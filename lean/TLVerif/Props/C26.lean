import TLVerif.Tlomig.GenTloLemmas
import TLVerif.Tlomig.TlsLemmas
/-! C26 — TLO output describes the schema faithfully. -/
namespace TLVerif.Props.C26
open TLVerif.Tlomig

/-- counts equal the list lengths; version and date are the requested timestamp -/
theorem counts_and_timestamps (ts now : UInt32) (cs : Schema) (out : SchemaV4)
    (h : generateTLO ts now cs = .ok out) :
    out.typesNum = u32 out.types.length ∧ out.constructorNum = u32 out.constructors.length ∧
    out.functionsNum = u32 out.functions.length ∧ out.version = ts ∧ (ts ≠ 0 → out.date = ts) := by
  unfold generateTLO at h
  simp only [bind, Except.bind] at h
  split at h
  · contradiction
  · rename_i v heq
    split at h
    · simp [throw, throwThe, MonadExceptOf.throw] at h
    · simp only [pure, Except.pure, Except.ok.injEq] at h
      subst h
      refine ⟨rfl, rfl, rfl, rfl, ?_⟩
      intro hne
      simp [hne]

end TLVerif.Props.C26
