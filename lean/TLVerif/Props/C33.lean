import TLVerif.Prim.TL1StringLemmas
import TLVerif.Prim.TL2SizeLemmas
/-!
# C33 — TL primitive codecs are exact

Property theorems only (helper lemmas live in `TLVerif/Prim/*Lemmas.lean`).  All statements are
about the model of `pkg/basictl` in `TLVerif/Prim/TL1String.lean` and `TL2Size.lean`, instantiated
with the constants extracted from the repository on this run (`Generated/PrimFacts.lean`).
-/
namespace TLVerif.Props.C33
open TLVerif.Prim TLVerif.Facts.Prim

/-- Every string shorter than 2^56 is written (no panic). -/
theorem string_write_total (s : Bytes) (h : s.length ≤ maxHugeStringLen) :
    ∃ bs, stringWrite s = some bs := Prim.string_write_total s h

/-- Written strings read back exactly, consuming exactly the written bytes (any suffix is left). -/
theorem string_roundtrip (s rest bs : Bytes) (h : stringWrite s = some bs) :
    stringRead (bs ++ rest) = .ok (s, rest) := Prim.string_roundtrip s rest bs h

/-- The reader accepts *only* canonical encodings: whatever it accepts is byte-for-byte the writer's
output for the decoded value, followed by the unread rest. This contains "non-minimal length forms
are rejected" and "non-zero padding is rejected". -/
theorem string_read_canonical (r s rest : Bytes) (h : stringRead r = .ok (s, rest)) :
    ∃ bs, stringWrite s = some bs ∧ r = bs ++ rest := Prim.string_read_canonical r s rest h

/-- Every strict prefix of a written string is reported as unexpected EOF. -/
theorem string_truncation_eof (s bs : Bytes) (n : Nat) (h : stringWrite s = some bs) (hn : n < bs.length) :
    stringRead (bs.take n) = .error .eof := Prim.string_truncation_eof s bs n h hn

/-- Documented layout: total length is a multiple of four. -/
theorem string_write_aligned (s bs : Bytes) (h : stringWrite s = some bs) : bs.length % 4 = 0 :=
  Prim.string_write_aligned s bs h

/-- Documented layout of the three header forms (lengths and markers), over the extracted constants. -/
theorem string_header_layout (l : Nat) :
    (l ≤ 253 → stringWriteLen l = some ([byteOf l], (l + 1) % 4)) ∧
    (253 < l → l < 2^24 → stringWriteLen l = some ([254, byteOf l, byteOf (l >>> 8), byteOf (l >>> 16)], l % 4)) ∧
    (2^24 ≤ l → l < 2^56 → stringWriteLen l = some ([255, byteOf l, byteOf (l >>> 8), byteOf (l >>> 16),
        byteOf (l >>> 24), byteOf (l >>> 32), byteOf (l >>> 40), byteOf (l >>> 48)], l % 4)) := by
  have ht := tiny_eq; have hm := maxMedium_eq; have hh := maxHuge_eq
  have hmm := mediumMarker_eq; have hhm := hugeMarker_eq
  refine ⟨fun h => ?_, fun h1 h2 => ?_, fun h1 h2 => ?_⟩
  · unfold stringWriteLen; rw [if_pos (by omega)]
  · unfold stringWriteLen; rw [if_neg (by omega), if_pos (by omega), hmm]; rfl
  · unfold stringWriteLen; rw [if_neg (by omega), if_neg (by omega), if_neg (by omega), hhm]; rfl

/-- TL2 varlen sizes read back exactly with the exact consumed length. -/
theorem tl2_size_roundtrip (l : Nat) (rest : Bytes) (h : l < 2^63) :
    tl2ParseSize (tl2WriteSize l ++ rest) = .ok (l, rest) := Prim.tl2_size_roundtrip l rest h

/-- The non-minimal (huge) form is accepted for every length. -/
theorem tl2_huge_form_accepted (l : Nat) (rest : Bytes) (h : l < 2^63) :
    tl2ParseSize (byteOf hugeStringMarker :: le64 l ++ rest) = .ok (l, rest) :=
  Prim.tl2_huge_form_accepted l rest h

/-- `TL2PutSize`, `TL2CalculateSize` and `TL2WriteSize` agree. -/
theorem tl2_put_calc_write_agree (l : Nat) :
    (tl2PutSize l).1 = tl2WriteSize l ∧ (tl2PutSize l).2 = (tl2WriteSize l).length ∧
    tl2CalculateSize l = (tl2WriteSize l).length :=
  ⟨tl2_put_eq_write l, tl2_put_count l, tl2_calc_eq_len l⟩

/-- Documented layout of the three size forms. -/
theorem tl2_size_layout (l : Nat) :
    (l < 254 → tl2WriteSize l = [byteOf l]) ∧
    (254 ≤ l → l < 254 + 65536 → tl2WriteSize l = [254, byteOf (l - 254), byteOf ((l - 254) >>> 8)]) ∧
    (254 + 65536 ≤ l → tl2WriteSize l = 255 :: le64 l) := by
  have hmm := mediumMarker_eq; have hhm := hugeMarker_eq
  refine ⟨fun h => ?_, fun h1 h2 => ?_, fun h1 => ?_⟩
  · unfold tl2WriteSize; rw [if_pos (by omega)]
  · unfold tl2WriteSize; rw [if_neg (by omega), if_pos (by simp only [Nat.shiftLeft_eq, Nat.reducePow]; omega), hmm]; rfl
  · unfold tl2WriteSize; rw [if_neg (by omega), if_neg (by simp only [Nat.shiftLeft_eq, Nat.reducePow]; omega), hhm]; rfl

/-- Truncated sizes are unexpected EOF. -/
theorem tl2_size_truncation_eof (l n : Nat) (hn : n < (tl2WriteSize l).length) :
    tl2ParseSize ((tl2WriteSize l).take n) = .error .eof := Prim.tl2_size_truncation_eof l n hn

/-- TL2 strings round-trip. -/
theorem string_tl2_roundtrip (s rest : Bytes) (h : s.length < 2^63) :
    stringReadTL2 (stringWriteTL2 s ++ rest) = .ok (s, rest) := Prim.string_tl2_roundtrip s rest h

/-- Bit vectors unpack to the same values, consuming exactly the written bytes. The reader's
definition (`unpackBlock`: element `j` of a block is bit `j` of its byte) *is* the documented
LSB-first layout, so this also states that the writer follows it. -/
theorem bits_roundtrip (v : List Bool) (rest : Bytes) :
    bitsRead v.length (bitsWrite v ++ rest) = .ok (v, rest) := Prim.bits_roundtrip v rest

/-- 8 values per byte. -/
theorem bits_write_length (v : List Bool) : (bitsWrite v).length = (v.length + 7) / 8 :=
  Prim.bits_write_length v

/-- Bit `j` of a packed block is element `j` (least significant bit first). -/
theorem bits_lsb_first (v : List Bool) (j : Nat) (hj : j < v.length) :
    ((packBlock v >>> j) % 2 == 1) = v[j] := Prim.packBlock_bit v j hj

/-! Non-vacuity: the hypotheses are met by concrete non-trivial values. -/
example : stringWrite [1, 2, 3, 4, 5] = some [5, 1, 2, 3, 4, 5, 0, 0] := by decide
example : stringRead [5, 1, 2, 3, 4, 5, 0, 0, 9] = .ok ([1, 2, 3, 4, 5], [9]) := by rfl
example : stringRead [5, 1, 2, 3, 4, 5, 0, 1, 9] = .error .padding := by rfl
example : stringRead [254, 5, 0, 0, 1, 2, 3, 4, 5, 0, 0, 0] = .error .noncanon := by rfl

end TLVerif.Props.C33
