import TLVerif.Codec.Registry
import TLVerif.Codec.TL1
/-!
# C17 — runtime registry consistent with the schema

`registry d` is the model of the generated meta package; `registryOK` is the decidable certificate (names
unique, non-zero tags unique) evaluated by the check on every descriptor the current kernel exports (T3).
Under it, lookups by name and by tag return exactly the registered item, and every boxed TL1 encoding of a
struct item starts with its tag (for a union: with the tag of the active variant).
-/
namespace TLVerif.Props.C17
open TLVerif.Codec TLVerif.Prim

theorem find_of_nodup {α β} [DecidableEq β] (key : α → β) (l : List α) (x : α)
    (hn : (l.map key).Nodup) (hx : x ∈ l) : l.find? (fun y => key y == key x) = some x := by
  induction l with
  | nil => cases hx
  | cons a t ih =>
    simp only [List.map_cons, List.nodup_cons] at hn
    rw [List.find?_cons]
    by_cases h : key a = key x
    · have hax : a = x := by
        rcases List.mem_cons.mp hx with h1 | h1
        · exact h1.symm
        · exact absurd (List.mem_map.mpr ⟨x, h1, h.symm⟩) hn.1
      simp [h, hax]
    · have hx' : x ∈ t := by
        rcases List.mem_cons.mp hx with h1 | h1
        · exact absurd (by rw [h1]) h
        · exact h1
      have hb : (key a == key x) = false := by simp [h]
      rw [hb]; exact ih hn.2 hx'

/-- Creating by name returns the registered item. -/
theorem byName_finds (r : List RegItem) (it : RegItem) (ok : registryOK r = true) (h : it ∈ r) :
    byName r it.name = some it := by
  unfold registryOK at ok
  simp only [Bool.and_eq_true, decide_eq_true_eq] at ok
  exact find_of_nodup (·.name) r it ok.1 h

/-- Creating by (non-zero) tag returns the registered item. -/
theorem byTag_finds (r : List RegItem) (it : RegItem) (ok : registryOK r = true) (h : it ∈ r) (ht : it.tag ≠ 0) :
    byTag r it.tag = some it := by
  unfold registryOK at ok
  simp only [Bool.and_eq_true, decide_eq_true_eq] at ok
  have hmem : it ∈ r.filter (·.tag != 0) := by simp [List.mem_filter, h, ht]
  have := find_of_nodup (·.tag) (r.filter (·.tag != 0)) it ok.2 hmem
  unfold byTag
  rw [List.find?_filter] at this
  rw [← this]
  congr 1
  funext x
  by_cases hx : x.tag = it.tag
  · simp [hx, ht]
  · simp [hx]

/-- Names and non-zero tags are pairwise distinct (this *is* the certificate, unfolded). -/
theorem names_and_tags_unique (r : List RegItem) (ok : registryOK r = true) :
    (r.map (·.name)).Nodup ∧ ((r.filter (·.tag != 0)).map (·.tag)).Nodup := by
  unfold registryOK at ok
  simpa only [Bool.and_eq_true, decide_eq_true_eq] using ok

/-- Every boxed TL1 encoding of a struct item starts with the reported tag. -/
theorem boxed_starts_with_tag (d : Desc) (fuel ty : Nat) (params : List Nat) (v : Val) (s : StructD) (bs : Bytes)
    (hs : d.get? ty = some (.struct s)) (hw : writeTL1 d fuel ty false params v = .ok bs) :
    ∃ body, bs = u32le s.tag ++ body := by
  cases fuel with
  | zero => simp [writeTL1] at hw
  | succ n =>
    simp only [writeTL1, hs] at hw
    cases v with
    | struct fs =>
      simp only at hw
      cases hf : writeFieldsWith (writeTL1 d n) params fs s.fields fs with
      | error e => simp [hf] at hw
      | ok b =>
        simp only [hf, Bool.false_eq_true, if_false] at hw
        injection hw with hw
        exact ⟨b, hw.symm⟩
    | _ => simp at hw

example : registryOK [{ name := "a.b", tag := 7, isFunction := false, hasTL1 := true, hasTL2 := false, idx := 3 },
                      { name := "a.C", tag := 0, isFunction := false, hasTL1 := true, hasTL2 := true, idx := 4 }] = true := by decide

end TLVerif.Props.C17
