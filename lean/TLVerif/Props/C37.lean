import TLVerif.Acks.AcksBuildLemmas
import TLVerif.Acks.AcksCanonLemmas
import TLVerif.Acks.HeapLemmas
/-!
# C37 — UDP acknowledgement bookkeeping is exact

Property theorems only (helper lemmas: `TLVerif/Acks/AcksLemmas.lean`, `AcksBuildLemmas.lean`).  All statements
are about the model of `pkg/rpc/udp/acks.go` in `TLVerif/Acks/Acks.lean`, with `MaxAckSet` regenerated from the
source (`Generated/AcksFacts.lean`).

Quantifier: *all* histories `ops : List (from, to)` from *any* initial prefix, under the explicit wrap-free guard
`WrapFree ops` (`from ≤ to` and `to < 2^32 - 1` for every recorded range) — `guard_needed_*` show the guard is tight.
-/
namespace TLVerif.Props.C37
open TLVerif.Acks TLVerif.Facts.Acks

/-- The state after a history that starts from `AcksToSend{ackPrefix: p0}` (`p0 = 0` is `AcksToSend{}`). -/
def after (p0 : Nat) (ops : List (Nat × Nat)) : AcksToSend := run ⟨p0, []⟩ ops

/-- The union of the recorded ranges (an initial prefix `p0` stands for everything below it). -/
def recorded (p0 : Nat) (ops : List (Nat × Nat)) (n : Nat) : Prop := n < p0 ∨ inOps ops n

/-- T1: the one fact about the constant the bounds below need. -/
theorem maxAckSet_pos : 1 ≤ maxAckSet := by decide

theorem inv_initial (p0 : Nat) (h : p0 ≤ 4294967295) : Inv ⟨p0, []⟩ := ⟨h, trivial⟩

/-- `Inv` read in the usual way: prefix < every range start (in particular `prefix < first.from`), every range
non-empty and wrap-free, and ranges pairwise sorted, disjoint and non-adjacent (`r.to + 1 < s.from` for `r` before `s`). -/
theorem inv_meaning (a : AcksToSend) (hi : Inv a) :
    (∀ r ∈ a.ranges, a.ackPrefix < r.ackFrom ∧ r.ackFrom ≤ r.ackTo ∧ r.ackTo < 4294967295) ∧
    a.ranges.Pairwise (fun r s => r.ackTo + 1 < s.ackFrom) := by
  obtain ⟨_, hs⟩ := hi
  have key : ∀ (l : List Range) (lo : Nat), sortedFrom lo l →
      (∀ r ∈ l, lo < r.ackFrom ∧ r.ackFrom ≤ r.ackTo ∧ r.ackTo < 4294967295) ∧
      l.Pairwise (fun r s => r.ackTo + 1 < s.ackFrom) := by
    intro l
    induction l with
    | nil => intro lo _; simp
    | cons r rest ih =>
      intro lo h
      obtain ⟨h1, h2, h3, h4⟩ := h
      obtain ⟨i1, i2⟩ := ih (r.ackTo + 1) h4
      refine ⟨?_, List.pairwise_cons.mpr ⟨fun s hs => (i1 s hs).1, i2⟩⟩
      intro s hs
      rcases List.mem_cons.mp hs with he | he
      · subst he; exact ⟨h1, h2, h3⟩
      · have := i1 s he; exact ⟨by omega, this.2.1, this.2.2⟩
  exact key a.ranges a.ackPrefix hs

/-- One `AddAckRange` preserves the invariant. -/
theorem invariant_preserved (a : AcksToSend) (f t : Nat) (hi : Inv a) (hft : f ≤ t) (ht : t < 4294967295) :
    Inv (addAckRange a f t) := (addAckRange_spec a f t hi hft ht).1

/-- One `AddAckRange` adds exactly the recorded range to the represented set. -/
theorem add_set (a : AcksToSend) (f t : Nat) (hi : Inv a) (hft : f ≤ t) (ht : t < 4294967295) (n : Nat) :
    (addAckRange a f t).mem n ↔ (a.mem n ∨ (f ≤ n ∧ n ≤ t)) := (addAckRange_spec a f t hi hft ht).2 n

/-- After any history the set is kept as a prefix plus sorted, disjoint, non-adjacent ranges. -/
theorem invariant_after_history (p0 : Nat) (ops : List (Nat × Nat)) (hp : p0 ≤ 4294967295) (hw : WrapFree ops) :
    Inv (after p0 ops) := (run_spec ops _ (inv_initial p0 hp) hw).1

/-- After any history the acknowledgement set equals the union of the recorded ranges. -/
theorem set_eq_union (p0 : Nat) (ops : List (Nat × Nat)) (hp : p0 ≤ 4294967295) (hw : WrapFree ops) (n : Nat) :
    (after p0 ops).mem n ↔ recorded p0 ops n := by
  have := (run_spec ops _ (inv_initial p0 hp) hw).2 n
  unfold after recorded
  rw [this]
  simp [AcksToSend.mem]

/-- The acknowledgement header never acknowledges an unrecorded number. -/
theorem buildAck_sound (p0 : Nat) (ops : List (Nat × Nat)) (hp : p0 ≤ 4294967295) (hw : WrapFree ops) (n : Nat)
    (h : ackedBy (buildAck (after p0 ops)) n) : recorded p0 ops n :=
  (set_eq_union p0 ops hp hw n).mp (Acks.buildAck_sound _ (invariant_after_history p0 ops hp hw) n h)

/-- Exact content of the header: `prefix-1` (absent for prefix 0), the first range, and the first `MaxAckSet`
numbers of the remaining ranges in ascending order (absent when empty). -/
theorem buildAck_exact (p0 : Nat) (ops : List (Nat × Nat)) (hp : p0 ≤ 4294967295) (hw : WrapFree ops) :
    buildAck (after p0 ops) =
      { pfx := if (after p0 ops).ackPrefix > 0 then some ((after p0 ops).ackPrefix - 1) else none
        range := (after p0 ops).ranges.head?.map fun r => (r.ackFrom, r.ackTo)
        set := nonEmptyOpt ((enumRanges (after p0 ops).ranges.tail).take maxAckSet) } :=
  buildAck_eq _ (invariant_after_history p0 ops hp hw)

/-- The explicit acknowledgement set is never flagged empty and never longer than `MaxAckSet`. -/
theorem buildAck_set_bound (p0 : Nat) (ops : List (Nat × Nat)) (hp : p0 ≤ 4294967295) (hw : WrapFree ops) (s : List Nat)
    (h : (buildAck (after p0 ops)).set = some s) : s.length ≤ maxAckSet ∧ s ≠ [] :=
  Acks.buildAck_set_bound _ (invariant_after_history p0 ops hp hw) s h

/-- Conversely a recorded number *is* acknowledged when it is below the prefix, in the first range, or the ranges
after the first hold at most `MaxAckSet` numbers. -/
theorem buildAck_complete (p0 : Nat) (ops : List (Nat × Nat)) (hp : p0 ≤ 4294967295) (hw : WrapFree ops) (n : Nat)
    (hr : recorded p0 ops n)
    (hfit : n < (after p0 ops).ackPrefix ∨ (∃ r, (after p0 ops).ranges.head? = some r ∧ r.mem n) ∨
      (enumRanges (after p0 ops).ranges.tail).length ≤ maxAckSet) :
    ackedBy (buildAck (after p0 ops)) n :=
  Acks.buildAck_complete _ (invariant_after_history p0 ops hp hw) n ((set_eq_union p0 ops hp hw n).mpr hr) hfit

/-- The resend request never requests a recorded number. -/
theorem buildNack_sound (p0 : Nat) (ops : List (Nat × Nat)) (hp : p0 ≤ 4294967295) (hw : WrapFree ops) (n : Nat)
    (h : requestedBy (buildNegativeAck (after p0 ops)) n) : ¬ recorded p0 ops n := fun hr =>
  buildNegativeAck_sound _ (invariant_after_history p0 ops hp hw) maxAckSet_pos n h ((set_eq_union p0 ops hp hw n).mpr hr)

/-- Exact content of the resend request: the first `MaxAckSet` holes below the last range, in order. -/
theorem buildNack_exact (p0 : Nat) (ops : List (Nat × Nat)) (hp : p0 ≤ 4294967295) (hw : WrapFree ops) :
    buildNegativeAck (after p0 ops) = (allGaps (after p0 ops)).take maxAckSet :=
  buildNegativeAck_eq _ (invariant_after_history p0 ops hp hw) maxAckSet_pos

/-- At most `MaxAckSet` resend ranges, each a non-empty wrap-free interval. -/
theorem buildNack_bound (p0 : Nat) (ops : List (Nat × Nat)) (hp : p0 ≤ 4294967295) (hw : WrapFree ops) :
    (buildNegativeAck (after p0 ops)).length ≤ maxAckSet ∧
    ∀ g ∈ buildNegativeAck (after p0 ops), g.1 ≤ g.2 ∧ g.2 < 4294967295 := by
  have hi := invariant_after_history p0 ops hp hw
  rw [buildNack_exact p0 ops hp hw]
  exact ⟨by simp [List.length_take]; omega, fun g hg => allGaps_nonempty _ hi g (List.mem_of_mem_take hg)⟩

/-- Conversely every unrecorded number below some recorded range is requested when there are at most
`MaxAckSet` ranges. -/
theorem buildNack_complete (p0 : Nat) (ops : List (Nat × Nat)) (hp : p0 ≤ 4294967295) (hw : WrapFree ops)
    (hfit : (after p0 ops).ranges.length ≤ maxAckSet) (n : Nat) (hn : ¬ recorded p0 ops n)
    (hb : ∃ r ∈ (after p0 ops).ranges, n ≤ r.ackTo) : requestedBy (buildNegativeAck (after p0 ops)) n :=
  buildNegativeAck_complete _ (invariant_after_history p0 ops hp hw) maxAckSet_pos hfit n
    (fun hm => hn ((set_eq_union p0 ops hp hw n).mp hm)) hb

/-- The repository's own `checkInvariantsCommon` never reports an error after any history. -/
theorem checkInvariants_silent (p0 : Nat) (ops : List (Nat × Nat)) (hp : p0 ≤ 4294967295) (hw : WrapFree ops) :
    checkInvariantsCommon (after p0 ops) = 0 :=
  checkInvariantsCommon_zero _ (invariant_after_history p0 ops hp hw)

/-! ### Exactness beyond the statement: the state is a function of the recorded set -/

/-- The representation is canonical: two histories that record the same numbers end in the *same* state
(same prefix, same ranges), whatever the order, batching or duplication of the recorded ranges. -/
theorem state_determined_by_set (p0 p0' : Nat) (ops ops' : List (Nat × Nat)) (hp : p0 ≤ 4294967295) (hp' : p0' ≤ 4294967295)
    (hw : WrapFree ops) (hw' : WrapFree ops') (h : ∀ n, recorded p0 ops n ↔ recorded p0' ops' n) :
    after p0 ops = after p0' ops' :=
  state_unique _ _ (invariant_after_history p0 ops hp hw) (invariant_after_history p0' ops' hp' hw') (fun n => by
    rw [set_eq_union p0 ops hp hw n, set_eq_union p0' ops' hp' hw' n]; exact h n)

/-- Reordered arrival (any permutation of the history) gives the same state, hence the same headers. -/
theorem order_irrelevant (p0 : Nat) (ops ops' : List (Nat × Nat)) (hp : p0 ≤ 4294967295) (hw : WrapFree ops)
    (hperm : ops.Perm ops') : after p0 ops = after p0 ops' := by
  have hw' : WrapFree ops' := fun op ho => hw op (hperm.mem_iff.mpr ho)
  refine state_determined_by_set p0 p0 ops ops' hp hp hw hw' (fun n => ?_)
  unfold recorded inOps
  constructor
  · rintro (h | ⟨op, ho, hn⟩)
    · exact Or.inl h
    · exact Or.inr ⟨op, hperm.mem_iff.mp ho, hn⟩
  · rintro (h | ⟨op, ho, hn⟩)
    · exact Or.inl h
    · exact Or.inr ⟨op, hperm.mem_iff.mpr ho, hn⟩

/-- Recording a range again (a retransmitted packet) changes nothing. -/
theorem duplicate_irrelevant (p0 : Nat) (ops : List (Nat × Nat)) (op : Nat × Nat) (hp : p0 ≤ 4294967295) (hw : WrapFree ops)
    (hin : op ∈ ops) : after p0 (ops ++ [op]) = after p0 ops := by
  have hw' : WrapFree (ops ++ [op]) := by
    intro o ho
    rcases List.mem_append.mp ho with h | h
    · exact hw o h
    · simp only [List.mem_singleton] at h; subst h; exact hw o hin
  refine state_determined_by_set p0 p0 _ _ hp hp hw' hw (fun n => ?_)
  unfold recorded inOps
  constructor
  · rintro (h | ⟨o, ho, hn⟩)
    · exact Or.inl h
    · rcases List.mem_append.mp ho with h | h
      · exact Or.inr ⟨o, h, hn⟩
      · simp only [List.mem_singleton] at h; subst h; exact Or.inr ⟨o, hin, hn⟩
  · rintro (h | ⟨o, ho, hn⟩)
    · exact Or.inl h
    · exact Or.inr ⟨o, List.mem_append.mpr (Or.inl ho), hn⟩

/-- The acknowledged prefix never moves backwards (no guard needed). -/
theorem prefix_monotone (a : AcksToSend) (ops : List (Nat × Nat)) : a.ackPrefix ≤ (run a ops).ackPrefix :=
  run_prefix_mono ops a

/-- `HaveHoles` is exact: it is true iff some unrecorded number lies below a recorded one. -/
theorem haveHoles_exact (p0 : Nat) (ops : List (Nat × Nat)) (hp : p0 ≤ 4294967295) (hw : WrapFree ops) :
    haveHoles (after p0 ops) = true ↔ ∃ n m, n < m ∧ ¬ recorded p0 ops n ∧ recorded p0 ops m := by
  rw [haveHoles_iff _ (invariant_after_history p0 ops hp hw)]
  constructor
  · rintro ⟨n, m, h1, h2, h3⟩
    exact ⟨n, m, h1, fun h => h2 ((set_eq_union p0 ops hp hw n).mpr h), (set_eq_union p0 ops hp hw m).mp h3⟩
  · rintro ⟨n, m, h1, h2, h3⟩
    exact ⟨n, m, h1, fun h => h2 ((set_eq_union p0 ops hp hw n).mp h), (set_eq_union p0 ops hp hw m).mpr h3⟩

/-! ### Pointer level -/

/-- The pointer-level model of `AddAckRange` (`Heap.lean`: node heap, `prevRange`/`tmpRange` cursors, in-place node
mutation, `firstRange`/`prevRange.next` redirection — the model the correspondence run executes) read back as a list is
the list-level model all theorems above are about.  For every history of `uint32` pairs, no guard. -/
theorem heap_refines (p0 : Nat) (ops : List (Nat × Nat)) : (hRun (Heap.empty p0) ops).abs = after p0 ops :=
  hRun_abs p0 ops

/-- … and the heap stays a well-formed acyclic chain of distinct allocated nodes (so the fuel of the loops never runs out). -/
theorem heap_wellformed (p0 : Nat) (ops : List (Nat × Nat)) :
    HeapInv (hRun (Heap.empty p0) ops) (after p0 ops).ranges :=
  (hRun_refines ops (Heap.empty p0) [] (heapInv_empty p0)).1

/-! ### The guard is tight, and satisfiable -/

/-- Without `to < 2^32-1` a recorded range can vanish: `AddAckRange(0, 2^32-1)` on the empty structure leaves it empty. -/
theorem guard_needed_set : ¬ ((after 0 [(0, 4294967295)]).mem 0 ↔ recorded 0 [(0, 4294967295)] 0) := by
  have h1 : after 0 [(0, 4294967295)] = ⟨0, []⟩ := by decide
  rw [h1]
  intro h
  have : recorded 0 [(0, 4294967295)] 0 := Or.inr ⟨(0, 4294967295), by simp, by simp⟩
  have := h.mpr this
  simp [AcksToSend.mem] at this

/-- Without the guard the ranges stop being sorted/disjoint. -/
theorem guard_needed_inv : ¬ Inv (after 0 [(5, 4294967295), (7, 7)]) := by decide

/-- … and the resend request then asks for recorded numbers (5 and 6). -/
theorem guard_needed_nack : buildNegativeAck (after 0 [(5, 4294967295), (7, 7)]) = [(0, 4), (0, 6)] := by decide

example : WrapFree [(5, 7), (1, 1), (0, 0), (9, 9), (8, 8)] ∧
    after 0 [(5, 7), (1, 1), (0, 0), (9, 9), (8, 8)] = ⟨2, [⟨5, 9⟩]⟩ := by decide

example : buildNegativeAck (after 0 [(5, 7), (1, 1), (9, 9)]) = [(0, 0), (2, 4), (8, 8)] := by decide

example : buildAck (after 0 [(5, 7), (1, 1), (9, 9)]) = ⟨none, some (1, 1), some [5, 6, 7, 9]⟩ := by
  rw [buildAck_exact 0 _ (by decide) (by decide)]; decide

end TLVerif.Props.C37
