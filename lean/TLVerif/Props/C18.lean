import TLVerif.Codec.RandomTerm
import TLVerif.Codec.TL1Example
/-!
# C18 — random value generation yields valid, reproducible values

Model: `TLVerif/Codec/Random.lean` — `basictl.RandGenerator` over an explicit word stream `src : Nat → Nat` (one
64-bit word per `Rand` call) and the generated `FillRandom` methods, driven by the kernel descriptor plus the two
generator decisions `FillRandom` depends on (`FieldX.recursive`, nat-field usage; exported per run by `go/hginfo`).
Lemmas: `RandomLemmas.lean` (writers accept), `RandomTerm.lean` (termination).  Tie: `checks/C18.py` (`codec.rnd`).

* `fill_terminates`, `fill_preserves_depth` — for **every** stream: on a reference-closed instance set satisfying the
  decidable guard `Desc.fillGuard` (rank certificate for the references that pass no `IncreaseDepth` site; what is still
  followed once the depth limit is reached — unconditional fields, first variants, tuple elements — is a finite
  recursion: `satFinite`), the driver's recursion budget `fillFuel d` is never exhausted and the generator returns with
  `curDepth`/`maxDepth` exactly as it found them.  Measure: `(maxDepth − curDepth, rank)`, then the `satFinite` depth.
  The `IncreaseDepth` sites assumed by the model are counted in the templates on every run (`increase_sites`, T1).
  Since `IncreaseDepth` was made unconditional in the repository (fix of the former known finding C18-leak:
  a saturating increase followed by the unconditional decrease lowered the depth) the guard no longer has to exclude
  nested increase sites at the limit: `leak_shape_terminates` is the positive statement for the shape that used to
  diverge, `increase_decrease_neutral` the one-line reason.
* The full-strength statement `FillAlwaysTerminates` is still **false** for the generated code, two ways (reproduced on
  the real code by the check, known findings): `fill_diverges_nonproductive` (L8), `fill_diverges_union`
  (`FillRandom` of a union never calls `IncreaseDepth`).
* `fill_valid` — whatever `FillRandom` returns is accepted by the TL1 writer, bare and boxed (never `.error .shape`,
  never `.error .desc`), under the decidable side conditions `Inst.fillOk`.
* `fill_functional` — the value is a function of the stream (and of nothing else: the model takes no previous object;
  the check compares a fresh and a previously filled object on the implementation).
-/
namespace TLVerif.Props.C18
open TLVerif.Prim TLVerif.Codec TLVerif.Facts

/-! ### T1: side conditions on the constants and template sites extracted from the working tree -/

/-- the weight table of `RandomUint` is cumulative and ends at `1 << probabilityBits` -/
theorem weights_cumulative :
    Rand.w0 ≤ Rand.w1to2 ∧ Rand.w1to2 ≤ Rand.w3to4 ∧ Rand.w3to4 ≤ Rand.w5to8 ∧ Rand.w5to8 ≤ Rand.w9to16 ∧
    Rand.w9to16 ≤ Rand.w17to24 ∧ Rand.w17to24 ≤ Rand.w25to32 ∧ Rand.w25to32 = 2 ^ Rand.probabilityBits := by decide

theorem depth_range : 1 ≤ Rand.minDepth ∧ Rand.minDepth ≤ Rand.maxDepth := by decide

/-- `LimitValue` masks with `limit − 1`: `limit` is a power of two -/
theorem limit_pow2 : Rand.limitValue = 2 ^ 10 := by decide

theorem letters_count : lettersB.length = 64 := by decide

/-- where the FillRandom templates emit `rg.IncreaseDepth()` / `rg.DecreaseDepth()`: struct (TL2-origin loop + TL1 loop, around
recursive fields), the three bracket shapes, the two dictionary shapes; none in union and maybe — as the model assumes -/
theorem increase_sites :
    Rand.structIncSites = 2 ∧ Rand.structDecSites = 2 ∧ Rand.bracketsIncSites = 3 ∧ Rand.bracketsDecSites = 3 ∧
    Rand.dictIncSites = 2 ∧ Rand.dictDecSites = 2 ∧ Rand.unionIncSites = 0 ∧ Rand.maybeIncSites = 0 := by decide

/-! ### termination -/

/-- the full-strength statement: random filling of a factory object terminates for every schema, stream -/
def FillAlwaysTerminates : Prop :=
  ∀ (d : Desc) (gi : GenInfo) (ty : Nat) (src : Nat → Nat), ∃ fuel, fillRandom d gi fuel ty src ≠ .error .fuel

theorem newRG_depth (src : Nat → Nat) : (newRG src).cur = 0 ∧ 2 ≤ (newRG src).maxDepth ∧ (newRG src).maxDepth ≤ 5 := by
  refine ⟨rfl, ?_, ?_⟩
  · show 2 ≤ _ % (Rand.maxDepth - Rand.minDepth + 1) + Rand.minDepth
    have : Rand.minDepth = 2 := rfl
    omega
  · show _ % (Rand.maxDepth - Rand.minDepth + 1) + Rand.minDepth ≤ 5
    have h1 : Rand.minDepth = 2 := rfl
    have h2 : Rand.maxDepth = 5 := rfl
    rw [h1, h2]
    have := Nat.mod_lt (src 0 % 18446744073709551616 % 4294967296) (show 0 < 5 - 2 + 1 by decide)
    omega

/-- **C18, termination (partial)**: under the guard, for every stream, any fuel `≥ fillFuel d` is enough, and the
generator returns with `curDepth = 0` -/
theorem fill_terminates (d : Desc) (gi : GenInfo) (rk : List Nat) (S : Nat → Bool) (hcl : d.closed S = true)
    (hg : d.fillGuard gi rk S = true) (ty : Nat) (hS : S ty = true) (hty : (d.get? ty).isSome = true)
    (fuel : Nat) (hf : fillFuel d ≤ fuel) (src : Nat → Nat) :
    fillRandom d gi fuel ty src ≠ .error .fuel ∧
      ∀ v rg', fillRandom d gi fuel ty src = .ok (v, rg') → rg'.cur = 0 := by
  simp only [Desc.fillGuard, Bool.and_eq_true] at hg
  obtain ⟨h0, h1, h2⟩ := newRG_depth src
  have hb : rkAt rk ty ≤ d.insts.size := by
    cases hg' : d.get? ty with
    | none => simp [hg'] at hty
    | some inst => simpa using Desc.allOnI_get hg.1.1 hg' hS
  have hfuel : (newRG src).maxDepth * (d.insts.size + 1) + rkAt rk ty + 1 ≤ fuel := by
    have : (newRG src).maxDepth * (d.insts.size + 1) ≤ 5 * (d.insts.size + 1) := Nat.mul_le_mul_right _ h2
    have e : fillFuel d = (5 + 3) * (d.insts.size + 1) := rfl
    omega
  obtain ⟨g1, g2⟩ := fillTL1_term d gi rk S hcl hg.1.1 hg.1.2 hg.2 fuel (newRG src).maxDepth ty [] (newRG src) hS
    (by omega) (by omega) hfuel
  exact ⟨g1, fun v rg' h => by rw [(g2 v rg' h).1]; exact h0⟩

/-- **depth discipline**: under the guard, `FillRandom` leaves the generator's depth counters exactly as it found them
(for every stream; nothing to show when the run reports a descriptor fault) -/
theorem fill_preserves_depth (d : Desc) (gi : GenInfo) (rk : List Nat) (S : Nat → Bool) (hcl : d.closed S = true)
    (hg : d.fillGuard gi rk S = true) (ty : Nat) (hS : S ty = true) (hty : (d.get? ty).isSome = true)
    (fuel : Nat) (hf : fillFuel d ≤ fuel) (src : Nat → Nat) (v : Val) (rg' : RG)
    (h : fillRandom d gi fuel ty src = .ok (v, rg')) :
    rg'.cur = (newRG src).cur ∧ rg'.maxDepth = (newRG src).maxDepth := by
  simp only [Desc.fillGuard, Bool.and_eq_true] at hg
  obtain ⟨h0, h1, h2⟩ := newRG_depth src
  have hb : rkAt rk ty ≤ d.insts.size := by
    cases hg' : d.get? ty with
    | none => simp [hg'] at hty
    | some inst => simpa using Desc.allOnI_get hg.1.1 hg' hS
  have hfuel : (newRG src).maxDepth * (d.insts.size + 1) + rkAt rk ty + 1 ≤ fuel := by
    have : (newRG src).maxDepth * (d.insts.size + 1) ≤ 5 * (d.insts.size + 1) := Nat.mul_le_mul_right _ h2
    have e : fillFuel d = (5 + 3) * (d.insts.size + 1) := rfl
    omega
  exact (fillTL1_term d gi rk S hcl hg.1.1 hg.1.2 hg.2 fuel (newRG src).maxDepth ty [] (newRG src) hS
    (by omega) (by omega) hfuel).2 v rg' h

/-! ### counter-examples to the full-strength statement -/

namespace Ex
open TLVerif.Codec.Ex

/-- gengo marks `x` of `loopA x:loopA = LoopA` recursive (a pointer), so `IncreaseDepth` *is* called on every level -/
def loopGi : GenInfo := fun _ _ => { recursive := true }

/-- `zero = Peano; succ a:Peano = Peano;`  0: the union, 1: zero, 2: succ -/
def peanoD : Desc := { insts := #[
  .union { variants := [(1, "zero"), (2, "succ")], elemNatArgs := [], nparams := 0, isEnum := false, isMaybe := false, hasTL2 := false },
  .struct { tag := 0x1, nparams := 0, fields := [], isUnionElement := true, unionIndex := 0 },
  .struct { tag := 0x2, nparams := 0, fields := [ fld "a" 0 (bare := false) ], isUnionElement := true, unionIndex := 1 } ] }

/-- no field of it is recursive for gengo's struct pass: the cycle is broken by a pointer in the *union* -/
def noGi : GenInfo := fun _ _ => {}

/-- the stream that always answers with all bits set -/
def ones : Nat → Nat := fun _ => 18446744073709551615

/-- `leak m:(tuple (tuple int 2) 2) c:(vector leak) = Leak;`  0 int, 1 inner tuple, 2 outer tuple, 3 vector, 4 the struct -/
def leakD : Desc := { insts := #[
  .prim .i32,
  .array { isTuple := true, dynamic := false, count := 2, nparams := 0, elem := fld "" 0, hasTL2 := false },
  .array { isTuple := true, dynamic := false, count := 2, nparams := 0, elem := fld "" 1, hasTL2 := false },
  .array { isTuple := false, dynamic := false, count := 0, nparams := 0, elem := fld "" 4, hasTL2 := false },
  .struct { tag := 0x3, nparams := 0, fields := [ fld "m" 2, fld "c" 3 ] } ] }

/-- generator state with the all-ones stream, `maxDepth = 5` -/
def rgAt (cur pos : Nat) : RG := { maxDepth := 5, cur := cur, src := ones, pos := pos }

end Ex

/-- (L8) `loopA x:loopA`: no fuel suffices, for any stream — the recursion draws nothing, raising the depth does not stop it -/
theorem loop_get : Codec.Ex.loopD.get? 0 = some (.struct { tag := 0x5, nparams := 0, fields := [ Codec.Ex.fld "x" 0 ] }) := rfl

theorem loop_never_fills : ∀ (fuel : Nat) (rg : RG), fillTL1 Codec.Ex.loopD Ex.loopGi fuel 0 [] rg = .error .fuel := by
  intro fuel
  induction fuel with
  | zero => intro rg; rfl
  | succ fuel ih =>
    intro rg
    simp only [fillTL1, loop_get]
    simp [Codec.Ex.fld, fillFieldsWith, fieldPresent, natArgVals, structGx, fillValue, Ex.loopGi, ih]

theorem fill_diverges_nonproductive : ¬ FillAlwaysTerminates := by
  intro h
  obtain ⟨fuel, hf⟩ := h Codec.Ex.loopD Ex.loopGi 0 (fun _ => 0)
  exact hf (loop_never_fills fuel _)

/-- `RandomUint` on the all-ones stream below the depth limit: 32 bits kept, the value is odd -/
theorem randomUint_ones (cur pos : Nat) (h : cur < 5) :
    randomUint (Ex.rgAt cur pos) = (4294967295, Ex.rgAt cur (pos + 2)) := by
  unfold randomUint
  rw [if_neg (by simp only [Ex.rgAt]; omega)]
  have hv : 18446744073709551615 % 18446744073709551616 % 4294967296 %
      2 ^ bitCount (18446744073709551615 % 18446744073709551616 % 4294967296) = 4294967295 := by decide
  simp only [RG.uint32, RG.raw, Ex.rgAt, Ex.ones, hv]

def Ex.peanoU : UnionD :=
  { variants := [(1, "zero"), (2, "succ")], elemNatArgs := [], nparams := 0, isEnum := false, isMaybe := false, hasTL2 := false }

def Ex.peanoSucc : StructD :=
  { tag := 0x2, nparams := 0, fields := [ Codec.Ex.fld "a" 0 (bare := false) ], isUnionElement := true, unionIndex := 1 }

theorem peano_get0 : Ex.peanoD.get? 0 = some (.union Ex.peanoU) := rfl

theorem peano_get2 : Ex.peanoD.get? 2 = some (.struct Ex.peanoSucc) := rfl

/-- recursion through a union never raises the depth: on the all-ones stream `succ` is chosen forever -/
theorem peano_never_fills : ∀ (fuel : Nat),
    (∀ pos, fillTL1 Ex.peanoD Ex.noGi fuel 0 [] (Ex.rgAt 0 pos) = .error .fuel) ∧
    (∀ pos, fillTL1 Ex.peanoD Ex.noGi fuel 2 [] (Ex.rgAt 0 pos) = .error .fuel) := by
  intro fuel
  induction fuel with
  | zero => exact ⟨fun _ => rfl, fun _ => rfl⟩
  | succ fuel ih =>
    refine ⟨?_, ?_⟩
    · intro pos
      simp only [fillTL1, peano_get0, randomUint_ones 0 pos (by decide)]
      simp [Ex.peanoU, natArgVals, ih.2]
    · intro pos
      simp only [fillTL1, peano_get2]
      simp [Ex.peanoSucc, Codec.Ex.fld, fillFieldsWith, fieldPresent, natArgVals, structGx, fillValue, Ex.noGi, ih.1]

theorem newRG_ones : newRG Ex.ones = Ex.rgAt 0 1 := rfl

theorem fill_diverges_union : ¬ FillAlwaysTerminates := by
  intro h
  obtain ⟨fuel, hf⟩ := h Ex.peanoD Ex.noGi 0 Ex.ones
  apply hf
  unfold fillRandom
  rw [newRG_ones]
  exact (peano_never_fills fuel).1 1

/-! the former depth leak (known finding C18-leak, repaired in the repository: `IncreaseDepth` no longer saturates) -/

/-- an increase followed by a decrease is the identity at every depth, the limit included -/
theorem increase_decrease_neutral (rg : RG) : rg.inc.dec.cur = rg.cur ∧ rg.inc.dec.maxDepth = rg.maxDepth := by
  have := dec_inc (rg := rg) (rg2 := rg.inc) (RG.same_refl _)
  exact ⟨this.1, this.2⟩

/-- `leak m:(tuple (tuple int 2) 2) c:(vector leak)` — the shape that never terminated for half of the seeds —
satisfies the guard … -/
theorem leak_shape_guard : Ex.leakD.closed allInsts = true ∧
    Ex.leakD.fillGuard Ex.noGi (Ex.leakD.computeFillRanks Ex.noGi) allInsts = true := by decide

/-- … hence terminates for every stream, leaving the depth as it was -/
theorem leak_shape_terminates (src : Nat → Nat) (fuel : Nat) (hf : fillFuel Ex.leakD ≤ fuel) :
    fillRandom Ex.leakD Ex.noGi fuel 4 src ≠ .error .fuel ∧
      ∀ v rg', fillRandom Ex.leakD Ex.noGi fuel 4 src = .ok (v, rg') → rg'.cur = 0 :=
  fill_terminates Ex.leakD Ex.noGi _ allInsts leak_shape_guard.1 leak_shape_guard.2 4 rfl rfl fuel hf src

/-- the former control, one tuple level less -/
def Ex.okD : Desc := { insts := #[
  .prim .i32,
  .array { isTuple := true, dynamic := false, count := 2, nparams := 0, elem := Codec.Ex.fld "" 0, hasTL2 := false },
  .array { isTuple := false, dynamic := false, count := 0, nparams := 0, elem := Codec.Ex.fld "" 3, hasTL2 := false },
  .struct { tag := 0x4, nparams := 0, fields := [ Codec.Ex.fld "m" 1, Codec.Ex.fld "c" 2 ] } ] }

example : Ex.okD.fillGuard Ex.noGi (Ex.okD.computeFillRanks Ex.noGi) allInsts = true := by decide
example : Ex.peanoD.allOnI allInsts (Inst.fillRanked Ex.noGi (Ex.peanoD.computeFillRanks Ex.noGi)) = false := by decide

/-! ### validity and determinism -/

/-- **C18, validity**: the TL1 writer accepts (bare and boxed) whatever `FillRandom` produced -/
theorem fill_valid (d : Desc) (gi : GenInfo) (S : Nat → Bool) (hcl : d.closed S = true)
    (hok : d.allOnI S (Inst.fillOk d gi) = true) (fuel ty : Nat) (hS : S ty = true) (src : Nat → Nat) (v : Val) (rg' : RG)
    (h : fillRandom d gi fuel ty src = .ok (v, rg')) (bare : Bool) :
    ∃ bs, writeTL1 d (fuel + 1) ty bare [] v = .ok bs :=
  fillTL1_writable d gi S hcl hok fuel ty [] (newRG src) v rg' hS h bare

/-- **C18, reproducibility**: the result is a function of the stream -/
theorem fill_functional (d : Desc) (gi : GenInfo) (fuel ty : Nat) (src src' : Nat → Nat) (h : ∀ i, src i = src' i) :
    fillRandom d gi fuel ty src = fillRandom d gi fuel ty src' := by
  have : src = src' := funext h
  rw [this]

/-- the guards are satisfiable by a recursive type: `list flag:# head:flag.0?int tail:flag.0?list` with `tail` marked
recursive (instances: 0 `#`, 1 `int`, 2 the struct) -/
def listD : Desc := { insts := #[ .prim .u32, .prim .i32,
  .struct { tag := 0x7, nparams := 0, fields := [ Codec.Ex.fld "flag" 0, Codec.Ex.fld "head" 1 (mask := some (.field 0, 0)),
    Codec.Ex.fld "tail" 2 (mask := some (.field 0, 0)) ] } ] }

def listGi : GenInfo := fun ty i =>
  if ty = 2 ∧ i = 0 then { usedAsMask := true, usedBits := 1 } else if ty = 2 ∧ i = 2 then { recursive := true } else {}

example : listD.closed allInsts = true ∧ listD.fillGuard listGi (listD.computeFillRanks listGi) allInsts = true ∧
    listD.allOnI allInsts (Inst.fillOk listD listGi) = true := by decide

end TLVerif.Props.C18
