import TLVerif.Codec.RandomTerm
import TLVerif.Codec.TL1Example
/-!
# C18 — random value generation yields valid, reproducible values

Model: `TLVerif/Codec/Random.lean` — `basictl.RandGenerator` over an explicit word stream `src : Nat → Nat` (one
64-bit word per `Rand` call) and the generated `FillRandom` methods, driven by the kernel descriptor plus the two
generator decisions `FillRandom` depends on (`FieldX.recursive`, nat-field usage; exported per run by `go/hginfo`).
Lemmas: `RandomLemmas.lean` (writers accept), `RandomTerm.lean` (termination).  Tie: `checks/C18.py` (`codec.rnd`).

* `fill_terminates` — for **every** stream: on a reference-closed instance set satisfying the decidable guard
  `Desc.fillGuard` (rank certificate for the references that do not pass an `IncreaseDepth` site; every body that can run
  right after a *saturating* `IncreaseDepth` is `quiet`), the driver's recursion budget `fillFuel d` is never exhausted.
  Measure: `(maxDepth − curDepth, rank)`; `fillTL1_term` also states the invariant "every call returns with
  `curDepth`/`maxDepth` unchanged".  The `IncreaseDepth` sites assumed by the model are counted in the templates on
  every run (`increase_sites`, T1).
* The full-strength statement `FillAlwaysTerminates` is **false** for the generated code, three ways (all reproduced on
  the real code by the check, known findings): `fill_diverges_nonproductive` (L8), `fill_diverges_union`
  (`FillRandom` of a union never calls `IncreaseDepth`), `fill_diverges_leak` (`DecreaseDepth` after a saturated
  `IncreaseDepth` lowers the depth; `saturated_increase_leaks` is the one-line reason).
* `fill_valid` — whatever `FillRandom` returns is accepted by the TL1 writer, bare and boxed (never `.error .shape`,
  never `.error .desc`), under the decidable side conditions `Inst.fillOk`.
* `fill_functional` — the value is a function of the stream (and of nothing else: the model takes no previous object;
  the check compares a fresh and a previously filled object on the implementation).
-/
namespace TLVerif.Props.C18
open TLVerif.Prim TLVerif.Codec TLVerif.Facts

/-! ### T1: side conditions on the constants and template sites extracted from the working tree -/

/-- the weight table of `RandomUint` is cumulative and ends at `1 << probabilityBits` -/
theorem weights_cumulative :
    Rand.w0 ≤ Rand.w1to2 ∧ Rand.w1to2 ≤ Rand.w3to4 ∧ Rand.w3to4 ≤ Rand.w5to8 ∧ Rand.w5to8 ≤ Rand.w9to16 ∧
    Rand.w9to16 ≤ Rand.w17to24 ∧ Rand.w17to24 ≤ Rand.w25to32 ∧ Rand.w25to32 = 2 ^ Rand.probabilityBits := by decide

theorem depth_range : 1 ≤ Rand.minDepth ∧ Rand.minDepth ≤ Rand.maxDepth := by decide

/-- `LimitValue` masks with `limit − 1`: `limit` is a power of two -/
theorem limit_pow2 : Rand.limitValue = 2 ^ 10 := by decide

theorem letters_count : lettersB.length = 64 := by decide

/-- where the FillRandom templates emit `rg.IncreaseDepth()` / `rg.DecreaseDepth()`: struct (TL2-origin loop + TL1 loop, around
recursive fields), the three bracket shapes, the two dictionary shapes; none in union and maybe — as the model assumes -/
theorem increase_sites :
    Rand.structIncSites = 2 ∧ Rand.structDecSites = 2 ∧ Rand.bracketsIncSites = 3 ∧ Rand.bracketsDecSites = 3 ∧
    Rand.dictIncSites = 2 ∧ Rand.dictDecSites = 2 ∧ Rand.unionIncSites = 0 ∧ Rand.maybeIncSites = 0 := by decide

/-! ### termination -/

/-- the full-strength statement: random filling of a factory object terminates for every schema, stream -/
def FillAlwaysTerminates : Prop :=
  ∀ (d : Desc) (gi : GenInfo) (ty : Nat) (src : Nat → Nat), ∃ fuel, fillRandom d gi fuel ty src ≠ .error .fuel

theorem newRG_depth (src : Nat → Nat) : (newRG src).cur = 0 ∧ 2 ≤ (newRG src).maxDepth ∧ (newRG src).maxDepth ≤ 5 := by
  refine ⟨rfl, ?_, ?_⟩
  · show 2 ≤ _ % (Rand.maxDepth - Rand.minDepth + 1) + Rand.minDepth
    have : Rand.minDepth = 2 := rfl
    omega
  · show _ % (Rand.maxDepth - Rand.minDepth + 1) + Rand.minDepth ≤ 5
    have h1 : Rand.minDepth = 2 := rfl
    have h2 : Rand.maxDepth = 5 := rfl
    rw [h1, h2]
    have := Nat.mod_lt (src 0 % 18446744073709551616 % 4294967296) (show 0 < 5 - 2 + 1 by decide)
    omega

/-- **C18, termination (partial)**: under the guard, for every stream, any fuel `≥ fillFuel d` is enough, and the
generator returns with `curDepth = 0` -/
theorem fill_terminates (d : Desc) (gi : GenInfo) (rk : List Nat) (S : Nat → Bool) (hcl : d.closed S = true)
    (hg : d.fillGuard gi rk S = true) (ty : Nat) (hS : S ty = true) (hty : (d.get? ty).isSome = true)
    (fuel : Nat) (hf : fillFuel d ≤ fuel) (src : Nat → Nat) :
    fillRandom d gi fuel ty src ≠ .error .fuel ∧
      ∀ v rg', fillRandom d gi fuel ty src = .ok (v, rg') → rg'.cur = 0 := by
  simp only [Desc.fillGuard, Bool.and_eq_true] at hg
  obtain ⟨h0, h1, h2⟩ := newRG_depth src
  have hb : rkAt rk ty ≤ d.insts.size := by
    cases hg' : d.get? ty with
    | none => simp [hg'] at hty
    | some inst => simpa using Desc.allOnI_get hg.1.1 hg' hS
  have hfuel : (newRG src).maxDepth * (d.insts.size + 1) + rkAt rk ty + 1 ≤ fuel := by
    have : (newRG src).maxDepth * (d.insts.size + 1) ≤ 5 * (d.insts.size + 1) := Nat.mul_le_mul_right _ h2
    have e : fillFuel d = (5 + 3) * (d.insts.size + 1) := rfl
    omega
  obtain ⟨g1, g2⟩ := fillTL1_term d gi rk S hcl hg.1.1 hg.1.2 hg.2 fuel (newRG src).maxDepth ty [] (newRG src) hS
    (by omega) (by omega) hfuel
  exact ⟨g1, fun v rg' h => by rw [(g2 v rg' h).1]; exact h0⟩

/-- **depth discipline**: under the guard, `FillRandom` leaves the generator's depth counters exactly as it found them
(for every stream; nothing to show when the run reports a descriptor fault) -/
theorem fill_preserves_depth (d : Desc) (gi : GenInfo) (rk : List Nat) (S : Nat → Bool) (hcl : d.closed S = true)
    (hg : d.fillGuard gi rk S = true) (ty : Nat) (hS : S ty = true) (hty : (d.get? ty).isSome = true)
    (fuel : Nat) (hf : fillFuel d ≤ fuel) (src : Nat → Nat) (v : Val) (rg' : RG)
    (h : fillRandom d gi fuel ty src = .ok (v, rg')) :
    rg'.cur = (newRG src).cur ∧ rg'.maxDepth = (newRG src).maxDepth := by
  simp only [Desc.fillGuard, Bool.and_eq_true] at hg
  obtain ⟨h0, h1, h2⟩ := newRG_depth src
  have hb : rkAt rk ty ≤ d.insts.size := by
    cases hg' : d.get? ty with
    | none => simp [hg'] at hty
    | some inst => simpa using Desc.allOnI_get hg.1.1 hg' hS
  have hfuel : (newRG src).maxDepth * (d.insts.size + 1) + rkAt rk ty + 1 ≤ fuel := by
    have : (newRG src).maxDepth * (d.insts.size + 1) ≤ 5 * (d.insts.size + 1) := Nat.mul_le_mul_right _ h2
    have e : fillFuel d = (5 + 3) * (d.insts.size + 1) := rfl
    omega
  exact (fillTL1_term d gi rk S hcl hg.1.1 hg.1.2 hg.2 fuel (newRG src).maxDepth ty [] (newRG src) hS
    (by omega) (by omega) hfuel).2 v rg' h

/-- the reason of the third counter-example, in one line: at the limit, an increase followed by a decrease lowers the depth -/
theorem saturated_increase_leaks (rg : RG) (h : rg.cur = rg.maxDepth) (hp : 0 < rg.cur) : rg.inc.dec.cur = rg.cur - 1 := by
  have e : rg.inc = rg := by unfold RG.inc; rw [if_neg (by simpa using h)]
  rw [e]; unfold RG.dec; rw [if_pos (by omega)]

/-! ### counter-examples to the full-strength statement -/

namespace Ex
open TLVerif.Codec.Ex

/-- gengo marks `x` of `loopA x:loopA = LoopA` recursive (a pointer), so `IncreaseDepth` *is* called on every level -/
def loopGi : GenInfo := fun _ _ => { recursive := true }

/-- `zero = Peano; succ a:Peano = Peano;`  0: the union, 1: zero, 2: succ -/
def peanoD : Desc := { insts := #[
  .union { variants := [(1, "zero"), (2, "succ")], elemNatArgs := [], nparams := 0, isEnum := false, isMaybe := false, hasTL2 := false },
  .struct { tag := 0x1, nparams := 0, fields := [], isUnionElement := true, unionIndex := 0 },
  .struct { tag := 0x2, nparams := 0, fields := [ fld "a" 0 (bare := false) ], isUnionElement := true, unionIndex := 1 } ] }

/-- no field of it is recursive for gengo's struct pass: the cycle is broken by a pointer in the *union* -/
def noGi : GenInfo := fun _ _ => {}

/-- the stream that always answers with all bits set -/
def ones : Nat → Nat := fun _ => 18446744073709551615

/-- `leak m:(tuple (tuple int 2) 2) c:(vector leak) = Leak;`  0 int, 1 inner tuple, 2 outer tuple, 3 vector, 4 the struct -/
def leakD : Desc := { insts := #[
  .prim .i32,
  .array { isTuple := true, dynamic := false, count := 2, nparams := 0, elem := fld "" 0, hasTL2 := false },
  .array { isTuple := true, dynamic := false, count := 2, nparams := 0, elem := fld "" 1, hasTL2 := false },
  .array { isTuple := false, dynamic := false, count := 0, nparams := 0, elem := fld "" 4, hasTL2 := false },
  .struct { tag := 0x3, nparams := 0, fields := [ fld "m" 2, fld "c" 3 ] } ] }

/-- generator state with the all-ones stream, `maxDepth = 5` -/
def rgAt (cur pos : Nat) : RG := { maxDepth := 5, cur := cur, src := ones, pos := pos }

end Ex

/-- (L8) `loopA x:loopA`: no fuel suffices, for any stream — the recursion draws nothing and `IncreaseDepth` saturates -/
theorem loop_get : Codec.Ex.loopD.get? 0 = some (.struct { tag := 0x5, nparams := 0, fields := [ Codec.Ex.fld "x" 0 ] }) := rfl

theorem loop_never_fills : ∀ (fuel : Nat) (rg : RG), fillTL1 Codec.Ex.loopD Ex.loopGi fuel 0 [] rg = .error .fuel := by
  intro fuel
  induction fuel with
  | zero => intro rg; rfl
  | succ fuel ih =>
    intro rg
    simp only [fillTL1, loop_get]
    simp [Codec.Ex.fld, fillFieldsWith, fieldPresent, natArgVals, structGx, fillValue, Ex.loopGi, ih]

theorem fill_diverges_nonproductive : ¬ FillAlwaysTerminates := by
  intro h
  obtain ⟨fuel, hf⟩ := h Codec.Ex.loopD Ex.loopGi 0 (fun _ => 0)
  exact hf (loop_never_fills fuel _)

/-- `RandomUint` on the all-ones stream below the depth limit: 32 bits kept, the value is odd -/
theorem randomUint_ones (cur pos : Nat) (h : cur < 5) :
    randomUint (Ex.rgAt cur pos) = (4294967295, Ex.rgAt cur (pos + 2)) := by
  unfold randomUint
  rw [if_neg (by simp only [Ex.rgAt]; omega)]
  have hv : 18446744073709551615 % 18446744073709551616 % 4294967296 %
      2 ^ bitCount (18446744073709551615 % 18446744073709551616 % 4294967296) = 4294967295 := by decide
  simp only [RG.uint32, RG.raw, Ex.rgAt, Ex.ones, hv]

def Ex.peanoU : UnionD :=
  { variants := [(1, "zero"), (2, "succ")], elemNatArgs := [], nparams := 0, isEnum := false, isMaybe := false, hasTL2 := false }

def Ex.peanoSucc : StructD :=
  { tag := 0x2, nparams := 0, fields := [ Codec.Ex.fld "a" 0 (bare := false) ], isUnionElement := true, unionIndex := 1 }

theorem peano_get0 : Ex.peanoD.get? 0 = some (.union Ex.peanoU) := rfl

theorem peano_get2 : Ex.peanoD.get? 2 = some (.struct Ex.peanoSucc) := rfl

/-- recursion through a union never raises the depth: on the all-ones stream `succ` is chosen forever -/
theorem peano_never_fills : ∀ (fuel : Nat),
    (∀ pos, fillTL1 Ex.peanoD Ex.noGi fuel 0 [] (Ex.rgAt 0 pos) = .error .fuel) ∧
    (∀ pos, fillTL1 Ex.peanoD Ex.noGi fuel 2 [] (Ex.rgAt 0 pos) = .error .fuel) := by
  intro fuel
  induction fuel with
  | zero => exact ⟨fun _ => rfl, fun _ => rfl⟩
  | succ fuel ih =>
    refine ⟨?_, ?_⟩
    · intro pos
      simp only [fillTL1, peano_get0, randomUint_ones 0 pos (by decide)]
      simp [Ex.peanoU, natArgVals, ih.2]
    · intro pos
      simp only [fillTL1, peano_get2]
      simp [Ex.peanoSucc, Codec.Ex.fld, fillFieldsWith, fieldPresent, natArgVals, structGx, fillValue, Ex.noGi, ih.1]

theorem newRG_ones : newRG Ex.ones = Ex.rgAt 0 1 := rfl

theorem fill_diverges_union : ¬ FillAlwaysTerminates := by
  intro h
  obtain ⟨fuel, hf⟩ := h Ex.peanoD Ex.noGi 0 Ex.ones
  apply hf
  unfold fillRandom
  rw [newRG_ones]
  exact (peano_never_fills fuel).1 1

/-! the depth leak -/

def Ex.leakInner : ArrayD := { isTuple := true, dynamic := false, count := 2, nparams := 0, elem := Codec.Ex.fld "" 0, hasTL2 := false }
def Ex.leakOuter : ArrayD := { isTuple := true, dynamic := false, count := 2, nparams := 0, elem := Codec.Ex.fld "" 1, hasTL2 := false }
def Ex.leakVec : ArrayD := { isTuple := false, dynamic := false, count := 0, nparams := 0, elem := Codec.Ex.fld "" 4, hasTL2 := false }
def Ex.leakS : StructD := { tag := 0x3, nparams := 0, fields := [ Codec.Ex.fld "m" 2, Codec.Ex.fld "c" 3 ] }

theorem leak_get0 : Ex.leakD.get? 0 = some (.prim .i32) := rfl
theorem leak_get1 : Ex.leakD.get? 1 = some (.array Ex.leakInner) := rfl
theorem leak_get2 : Ex.leakD.get? 2 = some (.array Ex.leakOuter) := rfl
theorem leak_get3 : Ex.leakD.get? 3 = some (.array Ex.leakVec) := rfl
theorem leak_get4 : Ex.leakD.get? 4 = some (.struct Ex.leakS) := rfl

theorem rgAt_inc4 (p : Nat) : (Ex.rgAt 4 p).inc = Ex.rgAt 5 p := rfl
theorem rgAt_inc5 (p : Nat) : (Ex.rgAt 5 p).inc = Ex.rgAt 5 p := rfl
theorem rgAt_inc3 (p : Nat) : (Ex.rgAt 3 p).inc = Ex.rgAt 4 p := rfl
theorem rgAt_dec5 (p : Nat) : (Ex.rgAt 5 p).dec = Ex.rgAt 4 p := rfl
theorem rgAt_dec4 (p : Nat) : (Ex.rgAt 4 p).dec = Ex.rgAt 3 p := rfl
theorem rgAt_int31 (c p : Nat) : (Ex.rgAt c p).int31 = (2147483647, Ex.rgAt c (p + 1)) := by
  simp [RG.int31, RG.raw, Ex.rgAt, Ex.ones]

/-- the value of `m` -/
def Ex.leakM : Val := .arr [.arr [.nat 2147483647, .nat 2147483647], .arr [.nat 2147483647, .nat 2147483647]]

/-- filling `m:(tuple (tuple int 2) 2)` one below the limit: the inner `IncreaseDepth` saturates, the two `DecreaseDepth`
bring the depth from 4 to 3 -/
theorem leak_m (f pos : Nat) :
    fillTL1 Ex.leakD Ex.noGi f 2 [] (Ex.rgAt 4 pos) = .error .fuel ∨
    fillTL1 Ex.leakD Ex.noGi f 2 [] (Ex.rgAt 4 pos) = .ok (Ex.leakM, Ex.rgAt 3 (pos + 4)) := by
  match f with
  | 0 => left; rfl
  | 1 => left; simp [fillTL1, leak_get2, Ex.leakOuter, Codec.Ex.fld, natArgVals, fillElemsWith]
  | 2 =>
    left
    simp [fillTL1, leak_get2, leak_get1, Ex.leakOuter, Ex.leakInner, Codec.Ex.fld, natArgVals, fillElemsWith]
  | f + 3 =>
    right
    simp [fillTL1, leak_get2, leak_get1, leak_get0, Ex.leakOuter, Ex.leakInner, Codec.Ex.fld, natArgVals, fillElemsWith,
      fillPrim, rgAt_inc4, rgAt_inc5, rgAt_dec5, rgAt_dec4, rgAt_int31, Ex.leakM]

theorem randomSize_ones4 (pos : Nat) : randomSize (Ex.rgAt 4 pos) = (1023, Ex.rgAt 4 (pos + 2)) := by
  unfold randomSize
  rw [randomUint_ones 4 pos (by decide)]
  have : limitVal 4294967295 = 1023 := by decide
  simp only [this]

/-- at depth 4 of 5 the struct is entered again and again at depth 4: the vector never sees the limit -/
theorem leak_never_fills : ∀ (fuel : Nat),
    (∀ pos, fillTL1 Ex.leakD Ex.noGi fuel 4 [] (Ex.rgAt 4 pos) = .error .fuel) ∧
    (∀ pos, fillTL1 Ex.leakD Ex.noGi fuel 3 [] (Ex.rgAt 3 pos) = .error .fuel) := by
  intro fuel
  induction fuel with
  | zero => exact ⟨fun _ => rfl, fun _ => rfl⟩
  | succ fuel ih =>
    refine ⟨?_, ?_⟩
    · intro pos
      simp only [fillTL1, leak_get4]
      rcases leak_m fuel pos with h | h
      · simp [Ex.leakS, Codec.Ex.fld, fillFieldsWith, fieldPresent, natArgVals, structGx, fillValue, Ex.noGi, h]
      · simp [Ex.leakS, Codec.Ex.fld, fillFieldsWith, fieldPresent, natArgVals, structGx, fillValue, Ex.noGi, h, ih.2]
    · intro pos
      simp only [fillTL1, leak_get3]
      simp [Ex.leakVec, Codec.Ex.fld, natArgVals, rgAt_inc3, randomSize_ones4, fillElemsWith, ih.1]

theorem rgAt_inc (c p : Nat) (h : c < 5) : (Ex.rgAt c p).inc = Ex.rgAt (c + 1) p := by
  unfold RG.inc Ex.rgAt
  rw [if_pos (by simp only; omega)]

theorem rgAt_dec (c p : Nat) : (Ex.rgAt (c + 1) p).dec = Ex.rgAt c p := by
  unfold RG.dec Ex.rgAt
  rw [if_pos (by simp only; omega)]
  rfl

/-- lower down nothing saturates: `m` is filled and the depth is what it was -/
theorem leak_m_low (c : Nat) (hc : c ≤ 3) (f pos : Nat) :
    fillTL1 Ex.leakD Ex.noGi f 2 [] (Ex.rgAt c pos) = .error .fuel ∨
    fillTL1 Ex.leakD Ex.noGi f 2 [] (Ex.rgAt c pos) = .ok (Ex.leakM, Ex.rgAt c (pos + 4)) := by
  have h1 : c < 5 := by omega
  have h2 : c + 1 < 5 := by omega
  match f with
  | 0 => left; rfl
  | 1 => left; simp [fillTL1, leak_get2, Ex.leakOuter, Codec.Ex.fld, natArgVals, fillElemsWith]
  | 2 =>
    left
    simp [fillTL1, leak_get2, leak_get1, Ex.leakOuter, Ex.leakInner, Codec.Ex.fld, natArgVals, fillElemsWith]
  | f + 3 =>
    right
    simp [fillTL1, leak_get2, leak_get1, leak_get0, Ex.leakOuter, Ex.leakInner, Codec.Ex.fld, natArgVals, fillElemsWith,
      fillPrim, rgAt_inc c _ h1, rgAt_inc (c + 1) _ h2, rgAt_dec, rgAt_int31, Ex.leakM]

theorem randomSize_ones (c pos : Nat) (h : c < 5) : randomSize (Ex.rgAt c pos) = (1023, Ex.rgAt c (pos + 2)) := by
  unfold randomSize
  rw [randomUint_ones c pos h]
  have : limitVal 4294967295 = 1023 := by decide
  simp only [this]

/-- one level up: if the struct never fills at depth `c + 1`, it never fills at depth `c ≤ 3` -/
theorem leak_step (c : Nat) (hc : c ≤ 3)
    (h : ∀ fuel pos, fillTL1 Ex.leakD Ex.noGi fuel 4 [] (Ex.rgAt (c + 1) pos) = .error .fuel) :
    ∀ fuel pos, fillTL1 Ex.leakD Ex.noGi fuel 4 [] (Ex.rgAt c pos) = .error .fuel := by
  intro fuel pos
  match fuel with
  | 0 => rfl
  | fuel + 1 =>
    simp only [fillTL1, leak_get4]
    rcases leak_m_low c hc fuel pos with hm | hm
    · simp [Ex.leakS, Codec.Ex.fld, fillFieldsWith, fieldPresent, natArgVals, structGx, fillValue, Ex.noGi, hm]
    · have hv : fillTL1 Ex.leakD Ex.noGi fuel 3 [] (Ex.rgAt c (pos + 4)) = .error .fuel := by
        match fuel with
        | 0 => rfl
        | g + 1 =>
          simp only [fillTL1, leak_get3]
          simp [Ex.leakVec, Codec.Ex.fld, natArgVals, rgAt_inc c _ (by omega), randomSize_ones (c + 1) _ (by omega),
            fillElemsWith, h]
      simp [Ex.leakS, Codec.Ex.fld, fillFieldsWith, fieldPresent, natArgVals, structGx, fillValue, Ex.noGi, hm, hv]

/-- (leak) `leak m:(tuple (tuple int 2) 2) c:(vector leak)` on the all-ones stream: no fuel suffices -/
theorem fill_diverges_leak : ¬ FillAlwaysTerminates := by
  intro h
  obtain ⟨fuel, hf⟩ := h Ex.leakD Ex.noGi 4 Ex.ones
  apply hf
  unfold fillRandom
  rw [newRG_ones]
  have h4 : ∀ fuel pos, fillTL1 Ex.leakD Ex.noGi fuel 4 [] (Ex.rgAt 4 pos) = .error .fuel := fun f p => (leak_never_fills f).1 p
  have h3 := leak_step 3 (by decide) h4
  have h2 := leak_step 2 (by decide) h3
  have h1 := leak_step 1 (by decide) h2
  have h0 := leak_step 0 (by decide) h1
  exact h0 fuel 1

/-- the control: with one tuple level less nothing saturates and the guard of `fill_terminates` holds -/
def Ex.okD : Desc := { insts := #[
  .prim .i32,
  .array { isTuple := true, dynamic := false, count := 2, nparams := 0, elem := Codec.Ex.fld "" 0, hasTL2 := false },
  .array { isTuple := false, dynamic := false, count := 0, nparams := 0, elem := Codec.Ex.fld "" 3, hasTL2 := false },
  .struct { tag := 0x4, nparams := 0, fields := [ Codec.Ex.fld "m" 1, Codec.Ex.fld "c" 2 ] } ] }

example : Ex.okD.fillGuard Ex.noGi (Ex.okD.computeFillRanks Ex.noGi) allInsts = true := by decide
example : Ex.leakD.allOnI allInsts (Inst.capFree Ex.leakD Ex.noGi) = false := by decide
example : Ex.peanoD.allOnI allInsts (Inst.fillRanked Ex.noGi (Ex.peanoD.computeFillRanks Ex.noGi)) = false := by decide

/-! ### validity and determinism -/

/-- **C18, validity**: the TL1 writer accepts (bare and boxed) whatever `FillRandom` produced -/
theorem fill_valid (d : Desc) (gi : GenInfo) (S : Nat → Bool) (hcl : d.closed S = true)
    (hok : d.allOnI S (Inst.fillOk d gi) = true) (fuel ty : Nat) (hS : S ty = true) (src : Nat → Nat) (v : Val) (rg' : RG)
    (h : fillRandom d gi fuel ty src = .ok (v, rg')) (bare : Bool) :
    ∃ bs, writeTL1 d (fuel + 1) ty bare [] v = .ok bs :=
  fillTL1_writable d gi S hcl hok fuel ty [] (newRG src) v rg' hS h bare

/-- **C18, reproducibility**: the result is a function of the stream -/
theorem fill_functional (d : Desc) (gi : GenInfo) (fuel ty : Nat) (src src' : Nat → Nat) (h : ∀ i, src i = src' i) :
    fillRandom d gi fuel ty src = fillRandom d gi fuel ty src' := by
  have : src = src' := funext h
  rw [this]

/-- the guards are satisfiable by a recursive type: `list flag:# head:flag.0?int tail:flag.0?list` with `tail` marked
recursive (instances: 0 `#`, 1 `int`, 2 the struct) -/
def listD : Desc := { insts := #[ .prim .u32, .prim .i32,
  .struct { tag := 0x7, nparams := 0, fields := [ Codec.Ex.fld "flag" 0, Codec.Ex.fld "head" 1 (mask := some (.field 0, 0)),
    Codec.Ex.fld "tail" 2 (mask := some (.field 0, 0)) ] } ] }

def listGi : GenInfo := fun ty i =>
  if ty = 2 ∧ i = 0 then { usedAsMask := true, usedBits := 1 } else if ty = 2 ∧ i = 2 then { recursive := true } else {}

example : listD.closed allInsts = true ∧ listD.fillGuard listGi (listD.computeFillRanks listGi) allInsts = true ∧
    listD.allOnI allInsts (Inst.fillOk listD listGi) = true := by decide

end TLVerif.Props.C18
