import TLVerif.Udp.MonitorLemmas
/-!
# C36 — UDP transport delivers every message intact exactly once

**What is a theorem here and what is not.**  The transport (pkg/rpc/udp/transport.go, incoming.go,
outgoing.go) is *not* modelled in this file.  The theorems below are about the *monitor*
`TLVerif.Udp.run` that the check runs (compiled, as `tlmodel`) over the event trace of every explored
simulator schedule: whenever it accepts a trace ending in `settle`, the trace satisfies the property
statement of C36, expressed with specification functions (`submits`, `delivers`, `acksOf`, `memAcq`,
`memRel`, `allocs`, `frees`) that do not mention the monitor's state.  Coverage of schedules is
exploration (see checks/C36.py).  The modelled part of the protocol itself (sliding windows,
reassembly, acknowledgement flow) is in `Props/C36Window.lean`.

Property statement, full strength, for one simulator run with trace `pre ++ [settle]`:
* delivered multiset = submitted multiset (items are (src, dst, contents): each message exactly once,
  intact, at the right destination), and at no point in time has an item been delivered more often
  than it was submitted (no early, no double delivery);
* for every connection the observed prefixes never move backwards;
* for every transport and every point in time, released ≤ acquired ≤ released + limit; all memory is
  released at the end; message buffers are released at most once and all of them by the end.
-/
namespace TLVerif.Props.C36
open TLVerif.Udp

/-- Decomposition of an accepted trace that ends in `settle`. -/
theorem accepted_split (cfg : Cfg) (pre : List Event) (st : St) (h : run cfg (pre ++ [.settle]) = .ok st) :
    ∃ s, run cfg pre = .ok s ∧ step cfg s .settle = .ok st ∧ Inv cfg pre s := by
  obtain ⟨s, hp, hq⟩ := runFrom_prefix_ok cfg {} st pre [.settle] h
  refine ⟨s, hp, ?_, inv_run cfg pre s hp⟩
  simp only [runFrom] at hq
  cases hs : step cfg s .settle with
  | ok s' => rw [hs] at hq; simpa using hq
  | error r => rw [hs] at hq; cases hq

/-- Every prefix of an accepted trace is accepted and satisfies the invariant. -/
theorem prefix_inv (cfg : Cfg) (tr p : List Event) (st : St) (h : run cfg tr = .ok st) (hp : p <+: tr) :
    ∃ s, run cfg p = .ok s ∧ Inv cfg p s := by
  obtain ⟨q, rfl⟩ := hp
  obtain ⟨s, hs, _⟩ := runFrom_prefix_ok cfg {} st p q h
  exact ⟨s, hs, inv_run cfg p s hs⟩

/-- Exactly once, intact: the delivered items are a permutation of the submitted items. -/
theorem accepted_delivery_exactly_once (cfg : Cfg) (pre : List Event) (st : St)
    (h : run cfg (pre ++ [.settle]) = .ok st) (hd : cfg.delivery = true) :
    (delivers pre).Perm (submits pre) := by
  obtain ⟨s, _, hst, hinv⟩ := accepted_split cfg pre st h
  have hpend := (settle_checks cfg s st hst).1 hd
  apply List.perm_iff_count.mpr
  intro x
  have := hinv.pend hd x
  rw [hpend] at this
  simpa using this

/-- At every point of an accepted trace nothing has been delivered more often than submitted
(no delivery of something never sent or corrupted, no delivery before submission, no duplicate). -/
theorem accepted_no_early_or_double_delivery (cfg : Cfg) (tr p : List Event) (st : St)
    (h : run cfg tr = .ok st) (hd : cfg.delivery = true) (hp : p <+: tr) (x : Item) :
    (delivers p).count x ≤ (submits p).count x := by
  obtain ⟨s, _, hinv⟩ := prefix_inv cfg tr p st h hp
  have := hinv.pend hd x
  omega

/-- Acknowledged / received prefixes of every connection never move backwards. -/
theorem accepted_acks_monotone (cfg : Cfg) (tr : List Event) (st : St) (h : run cfg tr = .ok st)
    (ha : cfg.acks = true) (k : PKey) : (acksOf k tr).Pairwise (· ≤ ·) :=
  ((inv_run cfg tr st h).acks ha k).1

/-- Memory accounting: at every point, released ≤ acquired and the outstanding amount is within the limit. -/
theorem accepted_memory_within_limit (cfg : Cfg) (tr p : List Event) (st : St) (h : run cfg tr = .ok st)
    (hp : p <+: tr) (t : Nat) : memRel t p ≤ memAcq t p ∧ memAcq t p - memRel t p ≤ cfg.limit := by
  obtain ⟨s, _, hinv⟩ := prefix_inv cfg tr p st h hp
  have := hinv.mem t
  omega

/-- All acquired memory is released by the time of `settle`. -/
theorem accepted_memory_released (cfg : Cfg) (pre : List Event) (st : St)
    (h : run cfg (pre ++ [.settle]) = .ok st) (t : Nat) : memAcq t pre = memRel t pre := by
  obtain ⟨s, _, hst, hinv⟩ := accepted_split cfg pre st h
  have hz := (settle_checks cfg s st hst).2.1 t
  have := (hinv.mem t).1
  omega

/-- Buffers (incoming and outgoing): never released more often than allocated, never allocated while
live; every incoming message buffer (kind 0) is released by `settle` when `cfg.live`. -/
theorem accepted_buffers_balanced (cfg : Cfg) (pre : List Event) (st : St)
    (h : run cfg (pre ++ [.settle]) = .ok st) :
    (∀ p, p <+: pre → ∀ i, frees i p ≤ allocs i p ∧ allocs i p ≤ frees i p + 1) ∧
    (cfg.live = true → ∀ i, allocs (0, i) pre = frees (0, i) pre) := by
  obtain ⟨s, hrun, hst, hinv⟩ := accepted_split cfg pre st h
  refine ⟨?_, ?_⟩
  · intro p hp i
    obtain ⟨s', _, hinv'⟩ := prefix_inv cfg pre p s hrun hp
    have := hinv'.live i
    omega
  · intro hl i
    have hlive := (settle_checks cfg s st hst).2.2 hl i
    have := (hinv.live (0, i)).1
    omega

/-- **Soundness of the monitor** (DESIGN §4 C36): an accepted trace ending in `settle` satisfies the
whole property statement. -/
theorem accepted_trace_sound (cfg : Cfg) (pre : List Event) (st : St)
    (h : run cfg (pre ++ [.settle]) = .ok st) :
    Event.settle ∉ pre ∧
    (cfg.delivery = true → (delivers pre).Perm (submits pre) ∧
      ∀ p, p <+: pre → ∀ x, (delivers p).count x ≤ (submits p).count x) ∧
    (cfg.acks = true → ∀ k, (acksOf k pre).Pairwise (· ≤ ·)) ∧
    (∀ p, p <+: pre → ∀ t, memRel t p ≤ memAcq t p ∧ memAcq t p - memRel t p ≤ cfg.limit) ∧
    (∀ t, memAcq t pre = memRel t pre) ∧
    (∀ p, p <+: pre → ∀ i, frees i p ≤ allocs i p ∧ allocs i p ≤ frees i p + 1) ∧
    (cfg.live = true → ∀ i, allocs (0, i) pre = frees (0, i) pre) := by
  obtain ⟨s, hrun, hst, hinv⟩ := accepted_split cfg pre st h
  have hns := step_settled cfg s st _ hst
  refine ⟨hinv.nosettle hns, ?_, ?_, ?_, accepted_memory_released cfg pre st h,
    (accepted_buffers_balanced cfg pre st h).1, (accepted_buffers_balanced cfg pre st h).2⟩
  · intro hd
    exact ⟨accepted_delivery_exactly_once cfg pre st h hd,
      fun p hp x => accepted_no_early_or_double_delivery cfg pre p s hrun hd hp x⟩
  · intro ha k; exact accepted_acks_monotone cfg pre s hrun ha k
  · intro p hp t; exact accepted_memory_within_limit cfg pre p s hrun hp t

/-! ### The monitor is not vacuous: violations are rejected -/

/-- A trace in which, at some point, an item has been delivered more often than submitted is rejected
(whatever follows). -/
theorem rejects_double_delivery (cfg : Cfg) (tr p : List Event) (x : Item) (hd : cfg.delivery = true)
    (hp : p <+: tr) (hx : (submits p).count x < (delivers p).count x) : ∃ r, run cfg tr = .error r := by
  cases h : run cfg tr with
  | error r => exact ⟨r, rfl⟩
  | ok st =>
    have := accepted_no_early_or_double_delivery cfg tr p st h hd hp x
    omega

/-- A trace that settles while a submitted item has not been delivered is rejected. -/
theorem rejects_lost_message (cfg : Cfg) (pre : List Event) (x : Item) (hd : cfg.delivery = true)
    (hx : (delivers pre).count x < (submits pre).count x) : ∃ r, run cfg (pre ++ [.settle]) = .error r := by
  cases h : run cfg (pre ++ [.settle]) with
  | error r => exact ⟨r, rfl⟩
  | ok st =>
    have := (List.perm_iff_count.mp (accepted_delivery_exactly_once cfg pre st h hd)) x
    omega

/-- A trace whose outstanding memory exceeds the limit at some point is rejected. -/
theorem rejects_over_limit (cfg : Cfg) (tr p : List Event) (t : Nat) (hp : p <+: tr)
    (hx : cfg.limit < memAcq t p - memRel t p) : ∃ r, run cfg tr = .error r := by
  cases h : run cfg tr with
  | error r => exact ⟨r, rfl⟩
  | ok st =>
    have := accepted_memory_within_limit cfg tr p st h hp t
    omega

/-! ### Satisfiability: a non-trivial trace is accepted, its mutations are rejected -/

def exCfg : Cfg := { limit := 510, delivery := true, acks := true, live := true }

def exTrace : List Event :=
  [.submit (0, 1, [0, 0, 220]), .alloc (1, 0), .acquire 1 220, .alloc (0, 0), .ackPrefix (1, 1) 1, .ackPrefix (1, 1) 7,
   .deliver (0, 1, [0, 0, 220]), .free (0, 0), .release 1 220, .ackPrefix (0, 0) 8, .free (1, 0), .settle]

example : ∃ st, run exCfg exTrace = .ok st ∧ st.settled = true := ⟨_, rfl, rfl⟩
example : run exCfg (exTrace.take 6 ++ [.settle]) = .error .pendingAtSettle := rfl
example : run exCfg (exTrace.take 7 ++ [.deliver (0, 1, [0, 0, 220])]) = .error .badDelivery := rfl
example : run exCfg (exTrace.take 6 ++ [.deliver (0, 1, [1, 0, 0, 0, 0])]) = .error .badDelivery := rfl
example : run exCfg (exTrace.take 6 ++ [.ackPrefix (1, 1) 6]) = .error .ackBackwards := rfl
example : run exCfg (exTrace.take 4 ++ [.acquire 1 291]) = .error .overLimit := rfl
example : run exCfg (exTrace.take 8 ++ [.free (0, 0)]) = .error .badFree := rfl
example : run exCfg (exTrace.take 7 ++ [.release 1 220, .settle]) = .error .liveAtSettle := rfl

end TLVerif.Props.C36
