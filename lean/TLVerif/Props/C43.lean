import TLVerif.Codec.AccessLemmas
import TLVerif.Codec.Access2
/-!
# C43 — generated field accessors control presence consistently

Model: `TLVerif/Codec/Access.lean` (`AObj.set`, `AObj.clear`, `AObj.isSet`, `AObj.tl1Present` over the state of one
generated struct: field values, the hidden TL2 presence bits, the nat parameters passed by pointer), tied to the generated
`Set*/Clear*/IsSet*` methods by `checks/C43.py` (reflection).  Lemmas: `TLVerif/Codec/AccessLemmas.lean`.

Two notions of presence live in a generated object: the TL1 field mask (`tl1Present`: what `WriteTL1` consults) and the
hidden `tl2mask` bit (`isSet` when the type has TL2 code: what `IsSet*`, the TL2 writer and the JSON writer consult).

* `set_then_isSet`, `set_emitted_tl1`, `set_stores`: after `Set<F>(v)` the field is reported present, the TL1 writer's
  presence test holds and the stored value is `v`; `setFalse_*` for `Set<F>(false)` of `true`-typed fields;
  `clear_then_notSet`, `clear_absent_tl1`, `clear_resets`.
* frame: `set_frame_vals/_tl2/_params/_maskBits`, `clear_frame_*`: no other value, no other hidden bit, no other parameter
  and no other bit of the field's own mask changes.
* `AccessorsKeepPresenceConsistent` — the full-strength statement "IsSet / TL2 / JSON presence and TL1 presence agree
  for every field after every accessor call (if they did before)" — is **false** for the generated code
  (`accessors_inconsistent_at_shared_bit`, `…_at_mask_of_mask`, `…_at_conditional_mask`: the three shapes found in
  `cases.tl`, known finding `C43-shared-mask`); `set_keeps_consistent_partial` / `clear_keeps_consistent_partial` prove it
  under the exact decidable guard `independent` (no other field on the same mask bit, the field is not itself a mask).

TL2 / JSON *bytes* are not modelled here (the models of those writers belong to C03/C05); their dependence on the hidden
bit is what the check observes through round trips of the real object (oracle part of `codec.acc`).
-/
namespace TLVerif.Props.C43
open TLVerif.Codec

/-- the accessor of field `i` (descriptor `f`) exists and can be called on `o` -/
structure Callable (o : AObj) (fields : List Field) (i : Nat) (f : Field) : Prop where
  hf : fields[i]? = some f
  acc : f.hasAccessor = true
  tl2len : ∀ t, f.tl2bit = some t → i < o.tl2.length
  mask : ∀ a bit, f.mask = some (a, bit) → o.assignable i a

variable {o : AObj} {fields : List Field} {i : Nat} {f : Field}

theorem newMask_true (f : Field) (m bit : Nat) : newMask f true m bit = setBitN m bit := by
  simp [newMask]

theorem mask_of_no_tl2 (c : Callable o fields i f) (ht : f.tl2bit = none) : ∃ a bit, f.mask = some (a, bit) := by
  have := c.acc
  unfold Field.hasAccessor at this
  cases hm : f.mask with
  | none => simp [hm, ht] at this
  | some p => exact ⟨p.1, p.2, rfl⟩

/-- **set ⇒ reported present** -/
theorem set_then_isSet (c : Callable o fields i f) (v : Val) : (o.set fields i v true).isSet fields i = true := by
  simp only [AObj.isSet, c.hf]
  cases ht : f.tl2bit with
  | some t =>
    simp only
    rw [set_tl2 c.hf, ht]
    simp only [List.getElem?_set_self (c.tl2len t ht)]
    cases f.isBit <;> rfl
  | none =>
    obtain ⟨a, bit, hm⟩ := mask_of_no_tl2 c ht
    simp only [hm]
    rw [set_maskVal_self c.hf v true hm (c.mask a bit hm), newMask_true, testBit_setBitN_self]

/-- **set ⇒ emitted by the TL1 writer** (its presence test holds) -/
theorem set_emitted_tl1 (c : Callable o fields i f) (v : Val) : (o.set fields i v true).tl1Present fields i = true := by
  simp only [AObj.tl1Present, c.hf]
  cases hm : f.mask with
  | none => rfl
  | some p =>
    obtain ⟨a, bit⟩ := p
    simp only
    rw [set_maskVal_self c.hf v true hm (c.mask a bit hm), newMask_true, testBit_setBitN_self]

/-- **set stores the value** (fields with storage) -/
theorem set_stores (c : Callable o fields i f) (hb : f.isBit = false) (hi : i < o.vals.length) (v : Val) (b : Bool) :
    (o.set fields i v b).vals[i]? = some (some v) := by
  rw [set_eq c.hf]
  have hs : (o.stored f i v).vals[i]? = some (some v) := by
    simp only [AObj.stored, hb, Bool.false_eq_true, if_false, List.getElem?_set_self hi]
  cases hm : f.mask with
  | none => cases f.tl2bit <;> simpa using hs
  | some p =>
    obtain ⟨a, bit⟩ := p
    have := withMask_vals_ne (o.stored f i v) a (newMask f b ((o.stored f i v).maskVal a) bit)
      (assignable_ne_self (c.mask a bit hm))
    rw [hs] at this
    cases f.tl2bit <;> simpa using this

/-- `Set<F>(false)` of a `true`-typed field: reported absent -/
theorem setFalse_then_notSet (c : Callable o fields i f) (hb : f.isBit = true) (v : Val) :
    (o.set fields i v false).isSet fields i = false := by
  simp only [AObj.isSet, c.hf]
  cases ht : f.tl2bit with
  | some t =>
    simp only
    rw [set_tl2 c.hf, ht]
    simp only [List.getElem?_set_self (c.tl2len t ht), hb, if_true]
  | none =>
    obtain ⟨a, bit, hm⟩ := mask_of_no_tl2 c ht
    simp only [hm]
    rw [set_maskVal_self c.hf v false hm (c.mask a bit hm)]
    simp only [newMask, hb, Bool.not_false, Bool.and_self, if_true, testBit_clearBitN_self]

/-- … and not emitted by the TL1 writer (conditional fields) -/
theorem setFalse_absent_tl1 (c : Callable o fields i f) (hb : f.isBit = true) {a : NatArg} {bit : Nat}
    (hm : f.mask = some (a, bit)) (v : Val) : (o.set fields i v false).tl1Present fields i = false := by
  simp only [AObj.tl1Present, c.hf]
  simp only [hm]
  rw [set_maskVal_self c.hf v false hm (c.mask a bit hm)]
  simp only [newMask, hb, Bool.not_false, Bool.and_self, if_true, testBit_clearBitN_self]

/-- **clear ⇒ reported absent** -/
theorem clear_then_notSet (c : Callable o fields i f) : (o.clear fields i).isSet fields i = false := by
  simp only [AObj.isSet, c.hf]
  cases ht : f.tl2bit with
  | some t =>
    simp only
    rw [clear_tl2 c.hf, ht]
    simp only [List.getElem?_set_self (c.tl2len t ht)]
  | none =>
    obtain ⟨a, bit, hm⟩ := mask_of_no_tl2 c ht
    simp only [hm]
    rw [clear_maskVal_self c.hf hm (c.mask a bit hm), testBit_clearBitN_self]

/-- **clear ⇒ omitted by the TL1 writer** (conditional fields) -/
theorem clear_absent_tl1 (c : Callable o fields i f) {a : NatArg} {bit : Nat} (hm : f.mask = some (a, bit)) :
    (o.clear fields i).tl1Present fields i = false := by
  simp only [AObj.tl1Present, c.hf]
  simp only [hm]
  rw [clear_maskVal_self c.hf hm (c.mask a bit hm), testBit_clearBitN_self]

/-- **clear resets the value** -/
theorem clear_resets (c : Callable o fields i f) (hi : i < o.vals.length) : (o.clear fields i).vals[i]? = some none := by
  rw [clear_eq c.hf]
  have hs : (({ o with vals := o.vals.set i none } : AObj)).vals[i]? = some none := by
    simp only [List.getElem?_set_self hi]
  cases hm : f.mask with
  | none => cases f.tl2bit <;> simpa using hs
  | some p =>
    obtain ⟨a, bit⟩ := p
    have := withMask_vals_ne ({ o with vals := o.vals.set i none } : AObj) a
      (clearBitN (({ o with vals := o.vals.set i none } : AObj).maskVal a) bit) (assignable_ne_self (c.mask a bit hm))
    rw [hs] at this
    cases f.tl2bit <;> simpa using this

/-! ### frame: nothing else changes -/

/-- no other field value changes, except the `#` field that is the mask of `F` -/
theorem set_frame_vals (c : Callable o fields i f) (v : Val) (b : Bool) {k : Nat} (hk : k ≠ i)
    (hmk : ∀ a bit, f.mask = some (a, bit) → a ≠ .field k) : (o.set fields i v b).vals[k]? = o.vals[k]? :=
  set_vals_ne c.hf v b hk hmk

/-- no other hidden presence bit changes -/
theorem set_frame_tl2 (c : Callable o fields i f) (v : Val) (b : Bool) {k : Nat} (hk : k ≠ i) :
    (o.set fields i v b).tl2[k]? = o.tl2[k]? := by
  rw [set_tl2 c.hf]
  cases f.tl2bit with
  | none => rfl
  | some t => simp only [List.getElem?_set_ne (Ne.symm hk)]

/-- no other nat parameter changes -/
theorem set_frame_params (c : Callable o fields i f) (v : Val) (b : Bool) {p : Nat}
    (hmk : ∀ a bit, f.mask = some (a, bit) → a ≠ .param p) : (o.set fields i v b).params[p]? = o.params[p]? :=
  set_params_ne c.hf v b hmk

/-- in the mask of `F` only the bit of `F` changes; other masks (that are not the field `F` itself) do not change -/
theorem set_frame_maskBits (c : Callable o fields i f) (v : Val) (b : Bool) {a' : NatArg} {bit' : Nat}
    (h1 : a' ≠ .field i) (h2 : ∀ a bit, f.mask = some (a, bit) → ¬ (a' = a ∧ bit' = bit)) :
    testBit ((o.set fields i v b).maskVal a') bit' = testBit (o.maskVal a') bit' := by
  cases hm : f.mask with
  | none => rw [set_maskVal_ne c.hf v b h1 (fun a bit h => by rw [hm] at h; cases h)]
  | some p =>
    obtain ⟨a, bit⟩ := p
    by_cases e : a' = a
    · subst e
      have hb : bit' ≠ bit := fun e => h2 a' bit hm ⟨rfl, e⟩
      rw [set_maskVal_self c.hf v b hm (c.mask a' bit hm)]
      unfold newMask
      split
      · exact testBit_clearBitN_ne _ hb
      · exact testBit_setBitN_ne _ hb
    · rw [set_maskVal_ne c.hf v b h1 (fun a2 bit2 h => by rw [hm] at h; injection h with h; injection h with h _; rw [← h]; exact e)]

theorem clear_frame_vals (c : Callable o fields i f) {k : Nat} (hk : k ≠ i)
    (hmk : ∀ a bit, f.mask = some (a, bit) → a ≠ .field k) : (o.clear fields i).vals[k]? = o.vals[k]? :=
  clear_vals_ne c.hf hk hmk

theorem clear_frame_tl2 (c : Callable o fields i f) {k : Nat} (hk : k ≠ i) : (o.clear fields i).tl2[k]? = o.tl2[k]? := by
  rw [clear_tl2 c.hf]
  cases f.tl2bit with
  | none => rfl
  | some t => simp only [List.getElem?_set_ne (Ne.symm hk)]

theorem clear_frame_params (c : Callable o fields i f) {p : Nat}
    (hmk : ∀ a bit, f.mask = some (a, bit) → a ≠ .param p) : (o.clear fields i).params[p]? = o.params[p]? :=
  clear_params_ne c.hf hmk

theorem clear_frame_maskBits (c : Callable o fields i f) {a' : NatArg} {bit' : Nat}
    (h1 : a' ≠ .field i) (h2 : ∀ a bit, f.mask = some (a, bit) → ¬ (a' = a ∧ bit' = bit)) :
    testBit ((o.clear fields i).maskVal a') bit' = testBit (o.maskVal a') bit' := by
  cases hm : f.mask with
  | none => rw [clear_maskVal_ne c.hf h1 (fun a bit h => by rw [hm] at h; cases h)]
  | some p =>
    obtain ⟨a, bit⟩ := p
    by_cases e : a' = a
    · subst e
      have hb : bit' ≠ bit := fun e => h2 a' bit hm ⟨rfl, e⟩
      rw [clear_maskVal_self c.hf hm (c.mask a' bit hm)]
      exact testBit_clearBitN_ne _ hb
    · rw [clear_maskVal_ne c.hf h1 (fun a2 bit2 h => by rw [hm] at h; injection h with h; injection h with h _; rw [← h]; exact e)]


/-! ### consistency of the two notions of presence -/

/-- `IsSet` (= TL2 / JSON presence when the type has TL2 code) and the TL1 presence of field `k` agree -/
def agreesAt (o : AObj) (fields : List Field) (k : Nat) : Bool := o.isSet fields k == o.tl1Present fields k

/-- they agree for every conditional field that has accessors (true after `ReadTL1`) -/
def consistent (o : AObj) (fields : List Field) : Bool :=
  (List.range fields.length).all fun k =>
    match fields[k]? with
    | some g => !(g.hasAccessor && g.mask.isSome) || agreesAt o fields k
    | none => true

/-- **the full-strength statement**: every callable accessor keeps the two notions of presence consistent -/
def AccessorsKeepPresenceConsistent : Prop :=
  ∀ (fields : List Field) (o : AObj) (i : Nat) (f : Field) (op : AccOp),
    Callable o fields i f → consistent o fields = true → consistent (o.apply fields i op) fields = true

/-- guard of the partial theorem: no other field is conditional on the same bit of the same mask, and no field is
conditional on a bit of field `i` itself -/
def independent (fields : List Field) (i : Nat) : Bool :=
  match fields[i]? with
  | none => true
  | some f =>
    (List.range fields.length).all fun k =>
      k == i || match fields[k]? with
        | some g =>
          (match g.mask with
           | none => true
           | some (a', bit') =>
             decide (a' ≠ NatArg.field i) &&
             (match f.mask with
              | some (a, bit) => !(decide (a' = a) && decide (bit' = bit))
              | none => true))
        | none => true

theorem independent_get (hf : fields[i]? = some f) (hind : independent fields i = true) {k : Nat} {g : Field}
    (hg : fields[k]? = some g) (hk : k ≠ i) {a' : NatArg} {bit' : Nat} (hm : g.mask = some (a', bit')) :
    a' ≠ .field i ∧ ∀ a bit, f.mask = some (a, bit) → ¬ (a' = a ∧ bit' = bit) := by
  unfold independent at hind
  rw [hf] at hind
  have hlt : k < fields.length := (List.getElem?_eq_some_iff.mp hg).1
  have := List.all_eq_true.mp hind k (List.mem_range.mpr hlt)
  have hki : (k == i) = false := by simpa using hk
  simp only [hki, Bool.false_or, hg, hm, Bool.and_eq_true, decide_eq_true_eq] at this
  refine ⟨this.1, ?_⟩
  intro a bit hfm
  have h2 := this.2
  rw [hfm] at h2
  have h3 : ¬a' = a ∨ ¬bit' = bit := by simpa using h2
  intro h4
  rcases h3 with h3 | h3
  · exact h3 h4.1
  · exact h3 h4.2

/-- the field itself agrees after `Set` (whatever the arguments) -/
theorem set_agrees_self (c : Callable o fields i f) (v : Val) (b : Bool) {a : NatArg} {bit : Nat} (hm : f.mask = some (a, bit)) :
    agreesAt (o.set fields i v b) fields i = true := by
  have hmv := set_maskVal_self c.hf v b hm (c.mask a bit hm)
  have htb : testBit (newMask f b (o.maskVal a) bit) bit = !(f.isBit && !b) := by
    unfold newMask
    cases hh : (f.isBit && !b)
    · simp only [Bool.false_eq_true, if_false, testBit_setBitN_self, Bool.not_false]
    · simp only [if_true, testBit_clearBitN_self, Bool.not_true]
  simp only [agreesAt, AObj.isSet, AObj.tl1Present, c.hf, hm, hmv, htb]
  cases ht : f.tl2bit with
  | none => simp
  | some t =>
    simp only
    rw [set_tl2 c.hf, ht]
    simp only [List.getElem?_set_self (c.tl2len t ht)]
    cases f.isBit <;> cases b <;> rfl

theorem clear_agrees_self (c : Callable o fields i f) {a : NatArg} {bit : Nat} (hm : f.mask = some (a, bit)) :
    agreesAt (o.clear fields i) fields i = true := by
  have hmv := clear_maskVal_self c.hf hm (c.mask a bit hm)
  simp only [agreesAt, AObj.isSet, AObj.tl1Present, c.hf, hm, hmv, testBit_clearBitN_self]
  cases ht : f.tl2bit with
  | none => simp
  | some t =>
    simp only
    rw [clear_tl2 c.hf, ht]
    simp only [List.getElem?_set_self (c.tl2len t ht)]
    rfl

/-- another conditional field keeps its agreement, under `independent` -/
theorem set_agrees_other (c : Callable o fields i f) (hind : independent fields i = true) (v : Val) (b : Bool)
    {k : Nat} {g : Field} (hg : fields[k]? = some g) (hk : k ≠ i) {a' : NatArg} {bit' : Nat} (hm : g.mask = some (a', bit')) :
    agreesAt (o.set fields i v b) fields k = agreesAt o fields k := by
  obtain ⟨h1, h2⟩ := independent_get c.hf hind hg hk hm
  have hb := set_frame_maskBits c v b h1 h2
  have ht := set_frame_tl2 c v b hk
  simp only [agreesAt, AObj.isSet, AObj.tl1Present, hg, hm, hb, ht]

theorem clear_agrees_other (c : Callable o fields i f) (hind : independent fields i = true)
    {k : Nat} {g : Field} (hg : fields[k]? = some g) (hk : k ≠ i) {a' : NatArg} {bit' : Nat} (hm : g.mask = some (a', bit')) :
    agreesAt (o.clear fields i) fields k = agreesAt o fields k := by
  obtain ⟨h1, h2⟩ := independent_get c.hf hind hg hk hm
  have hb := clear_frame_maskBits c h1 h2
  have ht := clear_frame_tl2 c hk
  simp only [agreesAt, AObj.isSet, AObj.tl1Present, hg, hm, hb, ht]

/-- **C43, partial** (`Set`): under `independent`, `Set<F>` keeps IsSet / TL2 / JSON presence equal to TL1 presence for
every conditional field -/
theorem set_keeps_consistent_partial (c : Callable o fields i f) (hind : independent fields i = true) (v : Val) (b : Bool)
    (hc : consistent o fields = true) : consistent (o.set fields i v b) fields = true := by
  unfold consistent at hc ⊢
  rw [List.all_eq_true] at hc ⊢
  intro k hk
  have hck := hc k hk
  cases hg : fields[k]? with
  | none => rfl
  | some g =>
    simp only [hg] at hck ⊢
    cases hm : g.mask with
    | none => simp
    | some p =>
      obtain ⟨a', bit'⟩ := p
      by_cases e : k = i
      · subst e
        have : g = f := by have := c.hf; rw [hg] at this; injection this
        subst this
        rw [set_agrees_self c v b hm]; simp
      · rw [set_agrees_other c hind v b hg e hm]
        simpa [hm] using hck

/-- **C43, partial** (`Clear`) -/
theorem clear_keeps_consistent_partial (c : Callable o fields i f) (hind : independent fields i = true)
    (hc : consistent o fields = true) : consistent (o.clear fields i) fields = true := by
  unfold consistent at hc ⊢
  rw [List.all_eq_true] at hc ⊢
  intro k hk
  have hck := hc k hk
  cases hg : fields[k]? with
  | none => rfl
  | some g =>
    simp only [hg] at hck ⊢
    cases hm : g.mask with
    | none => simp
    | some p =>
      obtain ⟨a', bit'⟩ := p
      by_cases e : k = i
      · subst e
        have : g = f := by have := c.hf; rw [hg] at this; injection this
        subst this
        rw [clear_agrees_self c hm]; simp
      · rw [clear_agrees_other c hind hg e hm]
        simpa [hm] using hck

/-- the object `ReadTL1` produces is consistent (both presence notions are computed from the same mask test) -/
theorem ofRead_agrees (fields : List Field) (vals : List (Option Val)) (params : List Nat) {k : Nat} {g : Field}
    (hg : fields[k]? = some g) {a : NatArg} {bit : Nat} (hm : g.mask = some (a, bit))
    (hv : ∃ m, natArgVal vals params a = some m ∧ (AObj.ofRead fields vals params).maskVal a = m) :
    agreesAt (AObj.ofRead fields vals params) fields k = true := by
  obtain ⟨m, h1, h2⟩ := hv
  simp only [agreesAt, AObj.isSet, AObj.tl1Present, hg, hm, h2]
  cases ht : g.tl2bit with
  | none => simp
  | some t =>
    simp only [AObj.ofRead, List.getElem?_map, hg, Option.map_some, fieldPresent, hm, h1, Option.map_some]
    simp

/-! ### TL2-origin structs: presence is the hidden bit alone -/

/-- what the TL2 / JSON writers see of a field with a presence bit: absent iff the bit is clear -/
theorem toVal2Fields_get (z : Nat → Val) :
    ∀ (fields : List Field) (vals : List (Option Val)) (tl2 : List Bool) (i : Nat) (f : Field) (v : Option Val) (b : Bool),
      fields[i]? = some f → f.tl2bit.isSome = true → vals[i]? = some v → tl2[i]? = some b →
      (toVal2Fields z fields vals tl2)[i]? =
        some (if b then (if f.isBit then some (z f.ty) else some (match v with | some x => x | none => z f.ty)) else none) := by
  intro fields
  induction fields with
  | nil => intro vals tl2 i f v b h; simp at h
  | cons g gs ih =>
    intro vals tl2 i f v b hf ht hv hb
    cases vals with
    | nil => simp at hv
    | cons w ws =>
      cases tl2 with
      | nil => simp at hb
      | cons c cs =>
        cases i with
        | zero =>
          simp only [List.getElem?_cons_zero, Option.some.injEq] at hf hv hb
          subst hf; subst hv; subst hb
          simp only [toVal2Fields, ht, if_true, List.getElem?_cons_zero]
          rfl
        | succ i =>
          simp only [List.getElem?_cons_succ] at hf hv hb
          simp only [toVal2Fields, List.getElem?_cons_succ]
          exact ih ws cs i f v b hf ht hv hb

/-- **TL2-origin `bit` field**: after `Set<F>(false)` the field is reported absent and the TL2 / JSON writers see it
absent (whatever it was before) -/
theorem setFalse_absent_tl2origin (d : Desc) (c : Callable o fields i f) (hb : f.isBit = true) {t : Nat}
    (ht : f.tl2bit = some t) (hi : i < o.vals.length) (v : Val) :
    (o.set fields i v false).isSet fields i = false ∧
    ∃ vs, (o.set fields i v false).toVal2 d fields = .struct vs ∧ vs[i]? = some none := by
  refine ⟨setFalse_then_notSet c hb v, _, rfl, ?_⟩
  have hl : i < o.tl2.length := c.tl2len t ht
  have htl : (o.set fields i v false).tl2[i]? = some false := by
    rw [set_tl2 c.hf, ht]
    simp only [List.getElem?_set_self hl, hb, if_true]
  have hvl : ∃ w, (o.set fields i v false).vals[i]? = some w := by
    have : i < (o.set fields i v false).vals.length := by
      rw [set_eq c.hf]
      cases hm : f.mask with
      | none => cases f.tl2bit <;> simp [AObj.stored, hb, hi]
      | some p =>
        obtain ⟨a, bit⟩ := p
        cases a <;> cases f.tl2bit <;> simp [AObj.stored, AObj.withMask, hb, hi]
    exact ⟨_, List.getElem?_eq_getElem this⟩
  obtain ⟨w, hw⟩ := hvl
  have := toVal2Fields_get (zeroVal d (d.insts.size + 1)) fields _ _ i f w false c.hf (by rw [ht]; rfl) hw htl
  simpa using this

/-! ### the full-strength statement fails: three shapes, all present in `cases.tl` -/

namespace Ex

def fld (name : String) (ty : Nat) (mask : Option (NatArg × Nat)) (tl2bit : Option Nat) (isBit : Bool) : Field :=
  { name, ty, bare := true, mask, tl2bit, isBit, natArgs := [] }

/-- `cases.testLocalFieldmask f1:# f2:f1.0?# f3:f2.1?true f4:f2.1?true` (type indices irrelevant here) -/
def localMask : List Field :=
  [fld "f1" 0 none none false, fld "f2" 0 (some (.field 0, 0)) (some 0) false,
   fld "f3" 1 (some (.field 1, 1)) (some 1) true, fld "f4" 1 (some (.field 1, 1)) (some 2) true]

/-- `{f1: 1, f2: 0}` as `ReadTL1` leaves it -/
def localObj : AObj := AObj.ofRead localMask [some (.nat 1), some (.nat 0), none, none] []

/-- `{f1: 1, f2: 2}`: f3 and f4 present -/
def localObj2 : AObj := AObj.ofRead localMask [some (.nat 1), some (.nat 2), some (.struct []), some (.struct [])] []

/-- `cases.testRecursiveFieldMask f0:# f1:f0.0?# f2:f1.1?# …` (the `true`-typed fields omitted) -/
def recMask : List Field :=
  [fld "f0" 0 none none false, fld "f1" 0 (some (.field 0, 0)) (some 0) false, fld "f2" 0 (some (.field 1, 1)) (some 1) false]

/-- `{f0: 0}` -/
def recObj : AObj := AObj.ofRead recMask [some (.nat 0), none, none] []

end Ex

/-- (a) two fields on the same mask bit: `SetF3(true)` makes `f4` present for the TL1 writer, `IsSetF4()` stays false -/
theorem accessors_inconsistent_at_shared_bit : ¬ AccessorsKeepPresenceConsistent := by
  intro h
  have c : Callable Ex.localObj Ex.localMask 2 (Ex.fld "f3" 1 (some (.field 1, 1)) (some 1) true) :=
    { hf := rfl, acc := rfl, tl2len := fun _ _ => by decide,
      mask := fun a bit hm => by
        injection hm with hm; injection hm with h1 _; subst h1
        exact ⟨by decide, by decide⟩ }
  have := h Ex.localMask Ex.localObj 2 _ (.set (.struct []) true) c (by decide)
  revert this
  decide

/-- (b) a field that is itself a mask: after `ClearF2()` on `{f1:1, f2:2}` the TL1 writer omits f3/f4, `IsSetF3()` is still true -/
theorem accessors_inconsistent_at_mask_of_mask : ¬ AccessorsKeepPresenceConsistent := by
  intro h
  have c : Callable Ex.localObj2 Ex.localMask 1 (Ex.fld "f2" 0 (some (.field 0, 0)) (some 0) false) :=
    { hf := rfl, acc := rfl, tl2len := fun _ _ => by decide,
      mask := fun a bit hm => by
        injection hm with hm; injection hm with h1 _; subst h1
        exact ⟨by decide, by decide⟩ }
  have := h Ex.localMask Ex.localObj2 1 _ .clear c (by decide)
  revert this
  decide

/-- the guard is not vacuous: `SetF2` of the first example shape without the shared-bit siblings is `independent` -/
example : independent [Ex.fld "f1" 0 none none false, Ex.fld "f2" 0 (some (.field 0, 0)) (some 0) false,
    Ex.fld "f3" 1 (some (.field 0, 1)) (some 1) true] 1 = true := by decide

/-- (c) a conditional mask: `SetF2(v)` on `{f0:0}` sets bit 1 of `f1` but not bit 0 of `f0`: `f2` is reported present and
passes the TL1 writer's own test, but its mask `f1` is not emitted — the bytes written cannot be read back.
(`independent` holds here: this shape is outside what the presence-agreement statement can see, it is tied and recorded
by the check as part of the same known finding.) -/
theorem set_does_not_set_ancestor_mask :
    (Ex.recObj.set Ex.recMask 2 (.nat 7) true).isSet Ex.recMask 2 = true ∧
    (Ex.recObj.set Ex.recMask 2 (.nat 7) true).tl1Present Ex.recMask 2 = true ∧
    (Ex.recObj.set Ex.recMask 2 (.nat 7) true).tl1Present Ex.recMask 1 = false := by
  decide

end TLVerif.Props.C43
