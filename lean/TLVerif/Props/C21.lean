import TLVerif.Syntax.PrinterLemmas
/-!
# C21 — TL1 schema printer round-trips through the parser

Statement (fixed): *Printing any parsed TL1 schema and parsing the printed text yields the same combinators: names,
tags (explicit and implicit), annotations, template arguments, fields with masks, repetitions and types, and
result types.*

Model: `TL.str` / `Combinator.str` / … (`String()` templates of `qt_tlparser.qtpl(.go)`), `parseTLFile`.

**What is a theorem here and what is not.**  The full statement is `RoundTrip` below; it is *not* proved in Lean
(it needs the completeness of lexer+parser on the printer's output) and, as stated, it is false for the
implementation: an explicit tag `#00000000` is not printed (`if c.IDExplicit && c.ID != 0`), so the printed text
is the one of the same combinator with an *implicit* tag (`zero_tag_print_collision`, known finding).  Proved:
the lexeme-level round trips the statement rests on (tags: `tag_print_parse`; numbers in arithmetic, masks and
scales: `number_print_parse`), the collision, and that a non-zero explicit tag is printed.  Everything else is
established by the differential tie (model printer = Go printer; model parser = Go parser) and the round-trip
oracle evaluated on the implementation.
-/
namespace TLVerif.Props.C21
open TLVerif.Syntax

/-- `%08x` of a tag is read back by `strconv.ParseUint(…, 16, 32)` as the same tag: explicit non-zero tags
survive print → parse. -/
theorem tag_print_parse (id : UInt32) : parseHex32 (hex8 id) = some id.toNat := parseHex32_hex8 id

/-- decimal numbers printed by the templates (`DUL`) are read back by `strconv.ParseUint(…, 10, 32)` as the same
number: arithmetic operands, mask bits and scale factors survive print → parse. -/
theorem number_print_parse (n : Nat) (h : n < 4294967296) : parseU32 (decBytes n) = some n := parseU32_decBytes n h

/-- A non-zero explicit tag is printed as `name#xxxxxxxx`. -/
theorem explicit_tag_printed (c : Constructor) (he : c.explicit = true) (h0 : c.id ≠ 0) :
    c.str = c.name.str ++ [cHash] ++ hex8 c.id := by
  unfold Constructor.str
  simp [he, h0]

/-- erase what the property does not talk about: comments and the newline flag -/
def eraseComb (c : Combinator) : Combinator := { c with cb := [], cr := [] }

/-- The property at full strength for the model (fields compared through their printed form and tag, which
determine them for parsed trees).  NOT proved; false at explicit zero tags, see below. -/
def RoundTrip : Prop :=
  ∀ (text : Bytes) (tl : TL), parseTLFile {} text = .ok tl →
    ∃ tl', parseTLFile {} tl.str = .ok tl' ∧
      tl'.combinators.map (fun c => (c.str, c.construct.id, c.construct.explicit)) =
      tl.combinators.map (fun c => (c.str, c.construct.id, c.construct.explicit))

/-- **Finding.**  A combinator with the explicit tag `#00000000` prints exactly like the same combinator with no
explicit tag: whatever the parser does with the printed text, it cannot return both, so the explicit zero tag
(and the fact that it was explicit) is lost; the re-parsed combinator gets the CRC32 of the canonical form. -/
theorem zero_tag_print_collision (c : Combinator) (he : c.construct.explicit = true) (h0 : c.construct.id = 0) :
    c.str = ({ c with construct := { c.construct with explicit := false } } : Combinator).str ∧
    ({ c with construct := { c.construct with explicit := false } } : Combinator).construct.explicit ≠ c.construct.explicit := by
  constructor
  · unfold Combinator.str Constructor.str
    simp [he, h0]
  · simp [he]

/-- the guard of the finding is not vacuous, and outside it the tag is printed -/
example : (⟨⟨[], strBytes "foo"⟩, 0, true⟩ : Constructor).str = strBytes "foo" := by decide
example : (⟨⟨[], strBytes "foo"⟩, 1, true⟩ : Constructor).str = strBytes "foo#00000001" := by decide

end TLVerif.Props.C21
