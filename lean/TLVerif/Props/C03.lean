import TLVerif.Codec.TL2RoundTrip
/-!
# C03 — TL2 binary round trip of generated Go code

All statements are about the model `TLVerif/Codec/TL2.lean` of the generated TL2 code (tied to the Go code on every run by
`checks/C03.py`).  Helper lemmas: `Codec/TL2Lemmas.lean` (layout = write), `Codec/TL2RoundTrip.lean` (read ∘ write).

Full-strength statement (`RoundTripAll`): for every descriptor, TL2-enabled type and well-shaped value, writing succeeds,
reading the bytes back succeeds and consumes exactly them, and re-writing gives the same bytes.
It is **false** for the generated code as it stands (`roundtrip_all_fails`, witness: an alias of `bit`; also `Maybe<bit>`):
the writer emits no byte for the `bit`, the reader consumes one.  `tl2_roundtrip` proves it under the explicit guard
`Good` (`Codec/TL2RoundTrip.lean`), whose only non-shape conditions are: no `bit` reached through an alias / `Maybe` /
array element, no optional field of an empty non-`true` struct type, encodings shorter than 2^63 bytes.  Floats are raw
bit patterns and every pattern is covered: the writer leaves a float out iff its pattern is zero (`(x != 0 || 1/x < 0)`
in the generated code), so `-0.0` is written and read back like any other value (see C04).
-/
namespace TLVerif.Props.C03
open TLVerif.Prim TLVerif.Codec

/-- **The layout pass agrees with the write pass.** For every descriptor, type, value and `optimizeEmpty` flag, the size
`CalculateLayout` computes (with the Go counters `currentSize` / `lastUsedByte`, mask bytes every 8 fields, truncation to
the last used byte) is the length of what `InternalWriteTL2` emits, and "field left out" coincides; model errors coincide. -/
theorem layout_agrees_write (d : Desc) (fuel ty : Nat) (zie : Bool) (v : Val) :
    layoutTL2 d fuel ty zie v = (encTL2 d fuel ty zie v).map (Option.map List.length) :=
  layout_agrees_enc d fuel ty zie v

/-- The Go panic "tl2: mismatch between calculate and write" is unreachable: the two-pass writer is the direct encoder. -/
theorem write_never_panics (d : Desc) (fuel ty : Nat) (v : Val) :
    writeTL2Checked d fuel ty v =
      (match encTL2 d fuel ty false v with
       | .ok b => .ok (optBytes b)
       | .error e => .err e) := by
  unfold writeTL2Checked
  rw [layout_agrees_enc]
  cases encTL2 d fuel ty false v with
  | error e => rfl
  | ok b =>
    simp only [Except.map]
    cases b with
    | none => rfl
    | some bs => simp [lenOpt, optBytes]

/-- Writing is total on the covered values: no shape, descriptor or fuel error, no panic. -/
theorem write_total (d : Desc) (fuel ty : Nat) (v : Val) (hg : Good d fuel ty false v) :
    ∃ bs, writeTL2 d fuel ty false v = .ok bs ∧ writeTL2Checked d fuel ty v = .ok bs := by
  obtain ⟨r, hr⟩ := good_enc_ok d fuel ty false v hg
  refine ⟨optBytes r, ?_, ?_⟩
  · unfold writeTL2; rw [hr]
  · rw [write_never_panics, hr]

/-- One struct body, for any field codecs that round trip (`FieldCodecs`): the reader recovers every field from the
bytes the writer emitted — any number of fields (any number of mask bytes), trailing unused mask bytes dropped, a body
that ends early read as "all remaining fields absent". -/
theorem body_roundtrip {good : Nat → Bool → Val → Prop} {enc : Enc} {rd : Rd2} {z : Nat → Val}
    {skip : Nat → Bool → Bytes → Except CErr Bytes} {plainTrue isTrue : Nat → Bool}
    (H : FieldCodecs good enc rd z)
    (HT : ∀ ty r, plainTrue ty = true → enc ty true (z ty) = .ok r → r = none)
    (Hpt : ∀ ty, plainTrue ty = true → isTrue ty = true)
    (ui : Nat) (hui : ui < 2 ^ 63) (fs : List Field) (vs : List (Option Val)) (rs : List (Option Bytes))
    (hg : GoodFields good z plainTrue isTrue fs vs) (he : encFieldsWith enc fs vs = .ok rs)
    (hne : bodyTL2 ui rs ≠ []) :
    ∃ block cur1, readHead (bodyTL2 ui rs) = .ok (block, ui, cur1) ∧ (block.toNat % 2 == 1) = (ui != 0) ∧
      readFields2With rd skip z isTrue 0 block fs cur1 = .ok vs :=
  Codec.body_roundtrip H HT Hpt ui hui fs vs rs hg he hne

/-- Primitives: what is written reads back with the exact rest; what is left out is the zero value. -/
theorem tl2_roundtrip_prim (k : PrimK) (zie c : Bool) (v : Val) (r : Option Bytes)
    (hg : goodPrim k zie v = true) (he : encPrim k zie v = .ok r) (hlen : (optBytes r).length < 2 ^ 63) :
    (∀ b, r = some b → b ≠ [] ∧ ∀ rest, readPrim2 k c (b ++ rest) = .ok (v, rest)) ∧ (r = none → v = zeroPrim k) :=
  prim_roundtrip k zie c v r hg he hlen

/-- **Round trip.** For every descriptor, every type and every covered value: the bytes `WriteTL2` produces are non-empty,
`ReadTL2` accepts them, consumes exactly them (any suffix is left) and returns the value. -/
theorem tl2_roundtrip (d : Desc) (fuel ty : Nat) (c : Bool) (v : Val) (bs rest : Bytes)
    (hg : Good d fuel ty false v) (hw : writeTL2 d fuel ty false v = .ok bs) :
    bs ≠ [] ∧ readTL2 d fuel ty c (bs ++ rest) = .ok (v, rest) := by
  unfold writeTL2 at hw
  cases he : encTL2 d fuel ty false v with
  | error e => rw [he] at hw; cases hw
  | ok r =>
    rw [he] at hw
    cases hw
    have hs := enc_false_some d fuel ty v r he
    cases r with
    | none => simp at hs
    | some b =>
      have := (tl2_roundtrip_gen d fuel ty false c v (some b) hg he).1 b rfl
      exact ⟨this.1, this.2 rest⟩

/-- Re-writing what was read back gives identical bytes. -/
theorem tl2_rewrite_identical (d : Desc) (fuel ty : Nat) (c : Bool) (v v' : Val) (bs rest rest' : Bytes)
    (hg : Good d fuel ty false v) (hw : writeTL2 d fuel ty false v = .ok bs)
    (hr : readTL2 d fuel ty c (bs ++ rest) = .ok (v', rest')) :
    rest' = rest ∧ writeTL2 d fuel ty false v' = .ok bs := by
  have := (tl2_roundtrip d fuel ty c v bs rest hg hw).2
  rw [this] at hr
  cases hr
  exact ⟨rfl, hw⟩

/-! ### the part of the domain where the generated code does not round trip -/

/-- descriptor of `y.flag <=> bit;` (instance 0 = `bit`, instance 1 = the alias) -/
def bitAliasDesc : Desc :=
  { insts := #[.prim .bit,
      .struct { tag := 0, nparams := 0, isAlias := true, isTypedef := true, hasTL2 := true, originTL2 := true,
                fields := [{ name := "", ty := 0, bare := true, mask := none, tl2bit := none, isBit := true, natArgs := [] }] }] }

/-- the full-strength statement: whatever the writer emits for a value reads back as that value -/
def RoundTripAll : Prop :=
  ∀ (d : Desc) (fuel ty : Nat) (v : Val) (bs : Bytes),
    writeTL2 d fuel ty false v = .ok bs → readTL2 d fuel ty false bs = .ok (v, [])

/-- Witness (tied by the fixed lines of `checks/C03.py`, schema `checks/data/tl2bit.tl2`): `true` of type `y.flag` is written
as zero bytes, and reading zero bytes fails with `io.ErrUnexpectedEOF`. -/
theorem bit_alias_roundtrip_fails :
    writeTL2 bitAliasDesc 2 1 false (.struct [some (.bool true)]) = .ok [] ∧
    readTL2 bitAliasDesc 2 1 false [] = .error .eof := by
  refine ⟨rfl, ?_⟩
  simp [readTL2, bitAliasDesc, Desc.get?, readPrim2, readByte, Except.map]

theorem roundtrip_all_fails : ¬ RoundTripAll := by
  intro h
  have := h bitAliasDesc 2 1 (.struct [some (.bool true)]) [] bit_alias_roundtrip_fails.1
  rw [bit_alias_roundtrip_fails.2] at this
  cases this

/-! ### the guard is satisfiable by non-trivial values -/

/-- `p = a:int32 b:string c?:int32` -/
def exDesc : Desc :=
  { insts := #[.prim .i32, .prim .str,
      .struct { tag := 0, nparams := 0, hasTL2 := true,
                fields := [{ name := "a", ty := 0, bare := true, mask := none, tl2bit := none, isBit := false, natArgs := [] },
                           { name := "b", ty := 1, bare := true, mask := none, tl2bit := none, isBit := false, natArgs := [] },
                           { name := "c", ty := 0, bare := true, mask := none, tl2bit := some 0, isBit := false, natArgs := [] }] }] }

def exVal : Val := .struct [some (.nat 7), some (.str [104, 105]), none]

example : writeTL2 exDesc 3 2 false exVal = .ok [8, 6, 7, 0, 0, 0, 2, 104, 105] := rfl

example : Good exDesc 3 2 false exVal := by
  refine ⟨fun r hr => ?_, ?_⟩
  · have : encTL2 exDesc 3 2 false exVal = .ok (some [8, 6, 7, 0, 0, 0, 2, 104, 105]) := rfl
    rw [this] at hr; cases hr; decide
  · refine ⟨by decide, ?_⟩
    refine ⟨⟨by decide, by decide, ?_⟩, ⟨by decide, by decide, ?_⟩, ⟨by decide, by decide, ?_⟩, trivial⟩
    · refine ⟨fun r hr => ?_, ?_⟩
      · have : encTL2 exDesc 2 0 true (.nat 7) = .ok (some [7, 0, 0, 0]) := rfl
        rw [this] at hr; cases hr; decide
      · show goodPrim PrimK.i32 true (Val.nat 7) = true
        rfl
    · refine ⟨fun r hr => ?_, ?_⟩
      · have : encTL2 exDesc 2 1 true (.str [104, 105]) = .ok (some [2, 104, 105]) := rfl
        rw [this] at hr; cases hr; decide
      · show goodPrim PrimK.str true (Val.str [104, 105]) = true
        rfl
    · trivial

end TLVerif.Props.C03
