import TLVerif.Sema.SemaphoreLemmas
import TLVerif.Generated.SemaFacts
/-!
# C42 — Weighted semaphore never over-admits and never loses wakeups

Statement (fixed): *Under any concurrent schedule of acquire, try-acquire, release, forced acquire and
resize, the weight held through non-forced acquisitions never pushes the total above the size at admission
time, and whenever capacity allows the first waiter to proceed it is eventually admitted.*

Model: `TLVerif/Sema/Semaphore.lean`.  Every mutex-protected critical section of
`internal/vkgo/pkg/semaphore/semaphore.go` is one atomic `step`; a concurrent schedule is an arbitrary
`List Op` (a blocking `Acquire` contributes `Op.acquire` and, only if its context is cancelled,
`Op.cancel` at an arbitrary later position).  All theorems quantify over **all** states / **all** histories.

"Eventually admitted" is proved in its strongest form, as a state invariant (`NoLost`): between any two
critical sections there is no first waiter that the capacity would allow to proceed — so the wait is zero steps.

**History.** Up to repository commit 616a0ec3 `Acquire`'s cancellation branch tested `isFront && s.size > s.cur` before
calling `notifyWaiters`; a cancelled front waiter that left a waiter of weight 0 behind while `size = cur` kept that
waiter asleep although it fitted (found by this check; `sema.h 1 t1,a1,a0,c0`).  The code now tests `>=`, the model's
`stepCancel` follows it, and the full-strength statement `NoLostWakeupFull` is a theorem (`no_lost_wakeup`), under the
only remaining guard: no `Release` of more than is held (the documented misuse, which panics after having decremented
`cur` and without waking anybody).  The old behaviour is kept as the counter-example `no_lost_wakeup_fails_with_strict_gt`.
-/
namespace TLVerif.Props.C42
open TLVerif.Sema

/-! ## Shape of the code the model was written from (T1, regenerated from the source on every run) -/

/-- The ordered callee lists of the methods of `semaphore.go`, extracted from the working tree, are the ones the
model encodes: every method is one `Lock … Unlock` section (`Acquire`: fast-path / doomed / enqueue exits of the first
section, then the cancellation section); exactly `SetSize`, `Release` (after the over-release `panic`) and `Acquire`'s
cancellation section call `notifyWaiters`; `ForceAcquire`, `TryAcquire`, `Observe` wake nobody; arrivals are
`PushBack`ed and `notifyWaiters` takes from the `Front`, `Remove`s and `close`s; `WaitEmpty` is `Acquire` then `Release`.
If the source changes shape this theorem (hence the check) breaks and the model must be revisited. -/
theorem code_shape :
    Facts.Sema.callsSetSize = ["Lock", "notifyWaiters", "Unlock"] ∧
    Facts.Sema.callsForceAcquire = ["panic", "Lock", "Unlock"] ∧
    Facts.Sema.callsObserve = ["Lock", "Unlock"] ∧
    Facts.Sema.callsTryAcquire = ["panic", "Lock", "Len", "Unlock"] ∧
    Facts.Sema.callsRelease = ["panic", "Lock", "Unlock", "panic", "notifyWaiters", "Unlock"] ∧
    Facts.Sema.callsNotifyWaiters = ["Front", "Remove", "close"] ∧
    Facts.Sema.callsAcquire = ["panic", "Lock", "Len", "Unlock", "Unlock", "Done", "Err", "make", "PushBack", "Unlock",
      "Done", "Err", "Lock", "Front", "Remove", "notifyWaiters", "Unlock"] ∧
    Facts.Sema.callsWaitEmpty = ["Acquire", "Release"] := by decide

/-! ## Part 1 — never over-admits -/

/-- **admit_within_size.** In *every* state and for *every* operation, each non-forced admission performed by
the step (`cur += n` on behalf of an `Acquire` fast path, a `TryAcquire`, or a waiter woken by
`notifyWaiters`) leaves `cur` at most the `size` in force at that moment — which is the size of the
post-state (`SetSize` stores the new size before it wakes anybody). -/
theorem admit_within_size (s : State) (op : Op) :
    ∀ e ∈ (step s op).2.adm, e.curAfter ≤ e.size ∧ e.size = (step s op).1.size :=
  step_adm_ok s op

/-- The same over all histories from all initial states: every admission event anywhere in the trace. -/
theorem admit_within_size_history (s : State) (ops : List Op) :
    ∀ x ∈ trace s ops, ∀ e ∈ x.2.2.adm, e.curAfter ≤ e.size ∧ e.size = (step x.1 x.2.1).1.size :=
  trace_mem_adm_ok s ops

/-- **Accounting.** The events are complete and their `curAfter` are the true running totals: starting from
`base s op` (= `cur` after the operation's own `Release`/`ForceAcquire` arithmetic) the admission events chain up
to the post-state `cur`.  So `cur` never changes except by a release, a forced acquisition, or a listed
admission, each of which is bounded by `admit_within_size`. -/
theorem cur_accounting (s : State) (op : Op) :
    Chain (base s op) (step s op).2.adm (step s op).1.cur ∧
    (step s op).1.cur = base s op + admSum (step s op).2.adm :=
  ⟨step_chain s op, chain_sum _ _ _ (step_chain s op)⟩

/-- A step that is not `ForceAcquire` never pushes the total above the (new) size: afterwards
`cur ≤ max (old cur) (new size)`. -/
theorem nonforced_never_pushes_above (s : State) (op : Op) (hf : ∀ n, op ≠ .force n) :
    (step s op).1.cur ≤ max s.cur (step s op).1.size := by
  have hch := step_chain s op
  have hok := step_adm_ok s op
  -- either no admission happened (cur = base ≤ old cur) or the last admission bounds cur
  have hbase : base s op ≤ s.cur := by
    cases op with
    | release n => simp only [base]; split <;> omega
    | force n => exact absurd rfl (hf n)
    | _ => simp [base]
  have hb : ∀ e ∈ (step s op).2.adm, e.curAfter ≤ (step s op).1.size := fun e he => by
    have := hok e he; unfold AdmOK at this; omega
  have := chain_bound _ _ _ _ hch hb
  omega

/-- History form: in a history without `ForceAcquire` whose `SetSize` arguments never exceed `M`, started in a state
with `cur ≤ M` and `size ≤ M` (e.g. `NewWeighted(size)` with `M = max size 0`), the total never exceeds `M` —
for every schedule, including cancellations and shrinking resizes. -/
theorem cur_bounded_without_force (M : Int) (s : State) (ops : List Op) (hc : s.cur ≤ M) (hs : s.size ≤ M)
    (hops : ∀ op ∈ ops, (∀ n, op ≠ .force n) ∧ (∀ n, op = .setSize n → n ≤ M)) :
    (exec s ops).cur ≤ M ∧ (exec s ops).size ≤ M := by
  induction ops generalizing s with
  | nil => exact ⟨hc, hs⟩
  | cons op ops ih =>
    have hop := hops op (List.mem_cons_self ..)
    have h1 := nonforced_never_pushes_above s op hop.1
    have h2 : (step s op).1.size ≤ M := by
      rw [step_size]
      cases op with
      | setSize n => exact hop.2 n rfl
      | _ => exact hs
    exact ih _ (by omega) h2 (fun o ho => hops o (List.mem_cons_of_mem _ ho))

/-! ## Part 2 — never loses wake-ups -/

/-- **Full-strength statement**: for every initial size and every history (= every concurrent schedule) that contains
no over-release, after *every* prefix of the history there is no first waiter that the capacity would allow to proceed. -/
def NoLostWakeupFull : Prop :=
  ∀ (size : Int) (ops : List Op), CleanRun (init size) ops → ∀ k, NoLost (exec (init size) (ops.take k))

/-- **no_lost_wakeup** (main theorem). -/
theorem no_lost_wakeup : NoLostWakeupFull :=
  fun size _ hc k => exec_noLost _ _ (init_noLost size) (cleanRun_take _ _ k hc)

/-- Step form: from any state satisfying the invariant, every step that is not an over-release re-establishes it
(weight 0, cancellations of any ticket, shrinking resizes, forced acquisitions included). -/
theorem no_lost_wakeup_step (s : State) (op : Op) (h : NoLost s) (hc : ¬ OverRelease s op) :
    NoLost (step s op).1 := step_noLost s op h hc

/-- The guard cannot be dropped: an over-release leaves a fitting waiter asleep (`cur` is decremented before the
panic and `notifyWaiters` is skipped).  `NewWeighted(1)`: `TryAcquire(1)`, `Acquire(1)` blocks, `Release(2)` panics
with `cur = -1`; the waiter of weight 1 fits into `size − cur = 2` and sleeps. -/
theorem over_release_guard_needed : ¬ NoLost (exec (init 1) [.tryAcquire 1, .acquire 1, .release 2]) := by decide

/-! ### Historical counter-example: the strict test `s.size > s.cur` (code before 616a0ec3) -/

/-- `NewWeighted(1)`; `TryAcquire(1)`; `Acquire(1)` blocks (ticket 0); `Acquire(0)` queues behind it (ticket 1); the
context of ticket 0 is cancelled.  With the strict test ticket 1 fits (`0 ≤ size − cur = 0`) and is not woken. -/
def strictGtHistory : List Op := [.tryAcquire 1, .acquire 1, .acquire 0, .cancel 0]

theorem no_lost_wakeup_fails_with_strict_gt : ¬ NoLost (execStrictGt (init 1) strictGtHistory) := by decide

/-- …while the repaired step wakes it in that very history. -/
theorem strict_gt_history_now_fine :
    NoLost (exec (init 1) strictGtHistory) ∧ (exec (init 1) strictGtHistory).waiters = [] := by decide

/-- With the strict test the waiter could sleep for ever with nothing held: after this history `cur = size = 0`,
a weight-0 waiter is queued and `TryAcquire(0)` fails although a fresh `NewWeighted(0)` admits it. -/
def strictGtHangingHistory : List Op :=
  [.tryAcquire 1, .acquire 1, .acquire 0, .setSize 0, .release 1, .cancel 0]

theorem strict_gt_hanging_state :
    (execStrictGt (init 1) strictGtHangingHistory).cur = 0 ∧ (execStrictGt (init 1) strictGtHangingHistory).size = 0 ∧
    (execStrictGt (init 1) strictGtHangingHistory).waiters = [⟨1, 0⟩] ∧
    (step (execStrictGt (init 1) strictGtHangingHistory) (.tryAcquire 0)).2.res = .no ∧
    (exec (init 1) strictGtHangingHistory).waiters = [] := by decide

/-- The old branch lost the invariant exactly in the gap (front cancelled, `size = cur`, next weight 0)… -/
theorem strict_gt_gap_breaks (s : State) (id : Nat) (hz : ZeroGap s id) : ¬ NoLost (stepCancelStrictGt s id).1 :=
  zeroGap_breaks_strictGt s id hz

/-- …and is identical to the repaired one everywhere else. -/
theorem strict_gt_differs_only_in_gap (s : State) (id : Nat) (h : ¬ (isFront s id = true ∧ s.size = s.cur)) :
    stepCancelStrictGt s id = stepCancel s id := stepCancelStrictGt_eq s id h

/-- Self-stabilisation: `Release` (that does not panic) and `SetSize` re-establish the invariant from *any*
state, in particular after an over-release. -/
theorem release_restores (s : State) (n : Int) (h0 : 0 ≤ n) (h1 : n ≤ s.cur) : NoLost (step s (.release n)).1 := by
  simp only [step, stepRelease]
  split
  · omega
  · split
    · rename_i h; omega
    · exact afterNotify_noLost _ _

theorem setSize_restores (s : State) (n : Int) : NoLost (step s (.setSize n)).1 := afterNotify_noLost _ _

/-- **Wake-up exactly when capacity allows.** A `Release` (resp. `SetSize`) after which the first waiter fits admits
it in the same critical section, as the first admission, at the running total `cur − n + weight`. -/
theorem release_admits_front (s : State) (n : Int) (w : Waiter) (ws : List Waiter) (hw : s.waiters = w :: ws)
    (h0 : 0 ≤ n) (h1 : n ≤ s.cur) (hfit : (w.n : Int) ≤ s.size - (s.cur - n)) :
    ∃ rest, (step s (.release n)).2.adm = ⟨some w.id, w.n, s.cur - n + w.n, s.size⟩ :: rest :=
  Sema.release_admits_front s n w ws hw h0 h1 hfit

theorem setSize_admits_front (s : State) (n : Int) (w : Waiter) (ws : List Waiter) (hw : s.waiters = w :: ws)
    (hfit : (w.n : Int) ≤ n - s.cur) :
    ∃ rest, (step s (.setSize n)).2.adm = ⟨some w.id, w.n, s.cur + w.n, n⟩ :: rest :=
  Sema.setSize_admits_front s n w ws hw hfit

/-- **cancel_preserves.** Cancelling a waiter keeps the invariant (unconditionally), never changes
`size`, changes `cur` only through the admissions it lists, and removes exactly that ticket from the queue:
the woken tickets followed by the remaining queue are the old queue without the cancelled ticket, in order. -/
theorem cancel_preserves (s : State) (id : Nat) (h : NoLost s) :
    NoLost (step s (.cancel id)).1 ∧
    (step s (.cancel id)).1.size = s.size ∧
    Chain s.cur (step s (.cancel id)).2.adm (step s (.cancel id)).1.cur ∧
    (step s (.cancel id)).2.adm.map Adm.key ++ (step s (.cancel id)).1.waiters.map Waiter.key =
      (s.waiters.filter (fun w => !(w.id == id))).map Waiter.key := by
  refine ⟨stepCancel_noLost s id h, ?_, step_chain s (.cancel id), step_queue s (.cancel id)⟩
  simp only [step, stepCancel]
  split
  · by_cases hnf : (isFront s id = true ∧ s.size ≥ s.cur)
    · simp only [hnf, and_self, if_true]; rfl
    · simp only [hnf, if_false]
  · split <;> rfl

/-- A cancelled ticket is never admitted by its own cancellation step (its weight does not enter `cur`). -/
theorem cancel_not_admitted (s : State) (id : Nat) : id ∉ admTickets (step s (.cancel id)).2 :=
  Sema.cancel_not_admitted s id

/-- "On failure, returns ctx.Err() and leaves the semaphore unchanged": an `Acquire` that blocks and whose context
is cancelled before any other critical section restores `size`, `cur`, the queue and the parked set exactly,
and wakes nobody. -/
theorem failed_acquire_unchanged (s : State) (n : Int) (h : WF s)
    (hres : (step s (.acquire n)).2.res = .blocked ∨ (step s (.acquire n)).2.res = .doomed) :
    let s2 := (step (step s (.acquire n)).1 (.cancel s.next)).1
    s2.size = s.size ∧ s2.cur = s.cur ∧ s2.waiters = s.waiters ∧ s2.doomed = s.doomed ∧
    (step (step s (.acquire n)).1 (.cancel s.next)).2 = ⟨.err, []⟩ :=
  Sema.failed_acquire_unchanged s n h hres

/-! ## Part 2b — every blocked `Acquire` call has exactly one outcome -/

/-- Well-formedness (arrival order, tickets below `next`) holds in every reachable state. -/
theorem reachable_wf (size : Int) (ops : List Op) : WF (exec (init size) ops) := exec_wf _ _ (wf_init size)

/-- **acquire_returns_once.** In any state, if a blocked ticket stops being blocked in a step then *either* the step
admitted it (`Acquire` returns nil; the admission is one of the events bounded by `admit_within_size`) *or* the step
is its own cancellation, which returns `ctx.Err()` and does not admit it — never both; and a ticket that is no
longer blocked never becomes blocked again. -/
theorem acquire_returns_once (s : State) (op : Op) (t : Nat) :
    (Blocked s t → ¬ Blocked (step s op).1 t →
      (t ∈ admTickets (step s op).2 ∧ op ≠ .cancel t) ∨
      (op = .cancel t ∧ (step s op).2.res = .err ∧ t ∉ admTickets (step s op).2)) ∧
    (t < s.next → ¬ Blocked s t → ¬ Blocked (step s op).1 t) :=
  ⟨blocked_leaves_once s op t, never_reblocked s op t⟩

/-! ## Part 3 — FIFO -/

/-- The queue of every reachable state is in ticket (= arrival) order. -/
theorem queue_in_arrival_order (size : Int) (ops : List Op) : Sorted (exec (init size) ops) :=
  exec_sorted _ _ (sorted_init size)

/-- **fifo_admission.** In every state whose queue is in arrival order (hence every reachable state), every ticket
admitted by a step is older than every ticket still waiting afterwards: nobody is overtaken. In particular the
`Acquire`/`TryAcquire` fast path only succeeds when nobody waits. -/
theorem fifo_admission (s : State) (op : Op) (h : Sorted s) :
    ∀ a ∈ (step s op).2.adm, ∀ t, a.ticket = some t → ∀ w ∈ (step s op).1.waiters, t < w.id :=
  step_no_overtaking s op h

/-- **fifo_history.** At every step of every history of a fresh semaphore, each admitted ticket is older than
every ticket that is still waiting after that step: a waiter is never overtaken by a later arrival. -/
theorem fifo_history (size : Int) (ops : List Op) :
    ∀ x ∈ trace (init size) ops, ∀ e ∈ x.2.2.adm, ∀ b, e.ticket = some b →
      ∀ w ∈ (step x.1 x.2.1).1.waiters, b < w.id :=
  trace_no_overtaking _ _ (sorted_init size)

/-- Queue conservation per operation: arrivals go to the back, admissions are taken from the front, and
nothing else moves. -/
theorem queue_conservation (s : State) (op : Op) :
    match op with
    | .acquire n =>
        ((step s op).2.res = .blocked ∧ (step s op).1.waiters = s.waiters ++ [⟨s.next, n.toNat⟩]) ∨
        ((step s op).2.res ≠ .blocked ∧ (step s op).1.waiters = s.waiters ∧
          ((step s op).2.res = .ok → s.waiters = []))
    | .tryAcquire _ => (step s op).1.waiters = s.waiters ∧ ((step s op).2.res = .yes → s.waiters = [])
    | .force _ | .observe => (step s op).1.waiters = s.waiters
    | .release _ | .setSize _ =>
        (step s op).2.adm.map Adm.key ++ (step s op).1.waiters.map Waiter.key = s.waiters.map Waiter.key
    | .cancel id =>
        (step s op).2.adm.map Adm.key ++ (step s op).1.waiters.map Waiter.key =
          (s.waiters.filter (fun w => !(w.id == id))).map Waiter.key :=
  step_queue s op

/-! ## `WaitEmpty` (not in the property's operation list; modelled as the composition it is) -/

/-- `WaitEmpty` is `Acquire(ctx, s.size)` followed by `Release(s.size)` with `s.size` read again (both reads outside the
mutex).  On an idle semaphore the two critical sections restore the state (only the ticket counter moves). -/
theorem waitEmpty_idle_neutral (s : State) (hw : s.waiters = []) (hc : s.cur = 0) (h0 : 0 ≤ s.size) :
    (step (step s (.acquire s.size)).1 (.release s.size)).1 = { s with next := s.next + 1 } := by
  have h1 : (step s (.acquire s.size)).1 = { s with next := s.next + 1, cur := s.cur + s.size } := by
    simp only [step, stepAcquire]
    rw [if_neg (by omega), if_pos ⟨by show s.size - s.cur ≥ s.size; omega, by simp [hw]⟩]
  rw [h1]
  simp only [step, stepRelease]
  rw [if_neg (by omega), if_neg (by show ¬ (s.cur + s.size - s.size < 0); omega)]
  simp only [afterNotify, hw, notify, hc]
  have : (0 : Int) + s.size - s.size = 0 := by omega
  simp only [this]

/-- Observations on the real code (reproduced by the tie, `sema.h 1 t1,w,s5`): because the second read of `s.size` may
differ from the first, a `WaitEmpty` that waited across a growing `SetSize` releases more than it acquired and panics
("released more than held")… -/
example : (step (exec (init 1) [.tryAcquire 1, .acquire 1, .setSize 5]) (.release 5)).2.res = .panic := by decide
/-- …and across a shrinking `SetSize` it releases less: weight stays in `cur` for ever although nobody holds it. -/
example : (exec (init 2) [.acquire 2, .setSize 1, .release 1]).cur = 1 := by decide

/-! ## Range of the model -/

/-- The model computes in ℤ, the code in `int64`.  After any history of a fresh semaphore, `cur` plus the queued
weight is at most the sum of the non-negative arguments of `Acquire`/`TryAcquire`/`ForceAcquire`, and `cur` is at
least minus the sum of the `Release` arguments: a history whose arguments sum below 2^63 cannot overflow `cur`. -/
theorem no_overflow_bound (size : Int) (ops : List Op) :
    (exec (init size) ops).cur + qsum (exec (init size) ops).waiters ≤ accSum ops ∧
    - relSum ops ≤ (exec (init size) ops).cur ∧ 0 ≤ qsum (exec (init size) ops).waiters := by
  have h := exec_magnitude (init size) ops
  have hq := qsum_nonneg (exec (init size) ops).waiters
  have h0 : (init size).cur = 0 := rfl
  have h1 : qsum (init size).waiters = 0 := rfl
  rw [h0, h1] at h
  exact ⟨by omega, by omega, hq⟩

/-! ## Hypotheses are satisfiable by non-trivial values -/

example : CleanRun (init 2) [.acquire 2, .acquire 1, .acquire 1, .cancel 1, .force 1, .release 3, .setSize 0] := by
  decide
example : (exec (init 2) [.acquire 2, .acquire 1, .acquire 1, .cancel 1, .force 1, .release 3]).waiters = [] := by
  decide
example : CleanRun (init 1) [.tryAcquire 1, .acquire 1, .acquire 0, .cancel 0, .release 1] := by decide
example : ZeroGap (exec (init 1) [.tryAcquire 1, .acquire 1, .acquire 0]) 0 := by decide

end TLVerif.Props.C42
