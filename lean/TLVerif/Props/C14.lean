import TLVerif.Tool.DeconflictLemmas
/-!
# C14 — Every accepted schema yields Go code that builds; generator never panics

Statement (fixed): for every input schema set and generation option set, the Go generator either reports an error or
writes code that compiles together with the runtime library; it never panics, and a schema it rejects is reported
with a message rather than partially written code.

Only the *naming mechanism* (`internal/puregen/deconflicter.go`) is a theorem here: it terminates and hands out pairwise
distinct names that avoid everything already reserved.  "Compiles" is decided by the Go compiler on the explored
schemas (see `checks/C14.py`); the exploration shows that the set of reserved identifiers is too small (known finding:
a field called `string`, `reset`, `readJSON`, … collides with a generated method), which is a defect of the *callers*
of the deconflicter, not of the mechanism proved below.
-/
namespace TLVerif.Props.C14
open TLVerif.Tool

/-- The Go loop has no termination argument in the source; with `n` reserved names it stops after at most `n+1`
probes (pigeonhole), for every name and every state. -/
theorem deconflict_terminates (d : Deconflicter) (s : String) : ∃ r, (d.deconflictName s).1 = some r := by
  obtain ⟨r, hr⟩ := findFree_terminates d.usedNames s
  exact ⟨r, by unfold Deconflicter.deconflictName; rw [hr]⟩

/-- The returned name was not reserved before, is reserved afterwards, and nothing else changes. -/
theorem deconflict_fresh (d d' : Deconflicter) (s r : String) (h : d.deconflictName s = (some r, d')) :
    r ∉ d.usedNames ∧ d'.usedNames = r :: d.usedNames := by
  unfold Deconflicter.deconflictName at h
  cases hf : findFree d.usedNames s 0 (d.usedNames.length + 1) with
  | none => rw [hf] at h; simp at h
  | some x =>
    rw [hf] at h
    simp only [Prod.mk.injEq, Option.some.injEq] at h
    obtain ⟨hx, hd⟩ := h
    subst hx; subst hd
    obtain ⟨j, _, _, hn, _⟩ := findFree_some d.usedNames s _ 0 x hf
    exact ⟨hn, rfl⟩

/-- It is the *first* free name of the sequence `s, s0, s1, s2, …`. -/
theorem deconflict_first_free (d d' : Deconflicter) (s r : String) (h : d.deconflictName s = (some r, d')) :
    ∃ j, r = candidate s j ∧ ∀ i, i < j → candidate s i ∈ d.usedNames := by
  unfold Deconflicter.deconflictName at h
  cases hf : findFree d.usedNames s 0 (d.usedNames.length + 1) with
  | none => rw [hf] at h; simp at h
  | some x =>
    rw [hf] at h
    simp only [Prod.mk.injEq, Option.some.injEq] at h
    obtain ⟨hx, _⟩ := h
    subst hx
    obtain ⟨j, _, hr, _, hall⟩ := findFree_some d.usedNames s _ 0 x hf
    refine ⟨j, by simpa using hr, fun i hi => by simpa using hall i hi⟩

/-- A name that is not reserved is returned unchanged. -/
theorem deconflict_keeps_free_name (d : Deconflicter) (s : String) (h : s ∉ d.usedNames) :
    (d.deconflictName s).1 = some s := by
  unfold Deconflicter.deconflictName
  have : findFree d.usedNames s 0 (d.usedNames.length + 1) = some s := by
    have hc : candidate s 0 ∉ d.usedNames := h
    unfold findFree; rw [if_neg hc]; rfl
  rw [this]

/-- **All names handed out by one deconflicter are pairwise distinct and differ from everything reserved before**
(for any sequence of requests, from any state); every request is answered. -/
theorem deconflict_all_distinct (names : List String) : ∀ (d : Deconflicter),
    (∀ o ∈ (d.deconflictAll names).1, o.isSome = true) ∧
    ((d.deconflictAll names).1.filterMap id).Nodup ∧
    (∀ r ∈ (d.deconflictAll names).1.filterMap id, r ∉ d.usedNames) ∧
    (∀ u ∈ d.usedNames, u ∈ (d.deconflictAll names).2.usedNames) := by
  induction names with
  | nil => intro d; simp [Deconflicter.deconflictAll]
  | cons s rest ih =>
    intro d
    obtain ⟨x, hx⟩ := deconflict_terminates d s
    have hpair : d.deconflictName s = (some x, (d.deconflictName s).2) := by
      rw [← hx]
    obtain ⟨hfresh, hused⟩ := deconflict_fresh d _ s x hpair
    obtain ⟨i1, i2, i3, i4⟩ := ih (d.deconflictName s).2
    have e1 : (d.deconflictAll (s :: rest)).1 = some x :: ((d.deconflictName s).2.deconflictAll rest).1 := by
      simp only [Deconflicter.deconflictAll]; rw [← hx]
    have e2 : (d.deconflictAll (s :: rest)).2 = ((d.deconflictName s).2.deconflictAll rest).2 := by
      simp only [Deconflicter.deconflictAll]
    rw [e1, e2]
    refine ⟨?_, ?_, ?_, ?_⟩
    · intro o ho
      rcases List.mem_cons.mp ho with e | e
      · subst e; rfl
      · exact i1 o e
    · simp only [List.filterMap_cons, id]
      refine List.nodup_cons.mpr ⟨?_, i2⟩
      intro hm
      exact i3 x hm (by rw [hused]; simp)
    · simp only [List.filterMap_cons, id]
      intro r hr
      rcases List.mem_cons.mp hr with e | e
      · subst e; exact hfresh
      · intro hu; exact i3 r e (by rw [hused]; exact List.mem_cons_of_mem _ hu)
    · intro u hu
      exact i4 u (by rw [hused]; exact List.mem_cons_of_mem _ hu)

/-- Starting from a fresh deconflicter after `FillGolangIdentifies`, no later name equals `Write`, `Read`, `WriteTL2` or `ReadTL2`. -/
theorem names_avoid_golang_identifiers (names : List String) :
    ∀ r ∈ ((Deconflicter.mk []).fillGolangIdentifies.deconflictAll names).1.filterMap id, r ∉ golangIdentifiers := by
  intro r hr hg
  have h3 := (deconflict_all_distinct names (Deconflicter.mk []).fillGolangIdentifies).2.2.1 r hr
  apply h3
  -- the four identifiers are free in the empty deconflicter, hence reserved verbatim
  have hfill : (Deconflicter.mk []).fillGolangIdentifies.usedNames = ["ReadTL2", "WriteTL2", "Read", "Write"] := by
    simp only [Deconflicter.fillGolangIdentifies, golangIdentifiers, Deconflicter.deconflictAll,
      Deconflicter.deconflictName, List.length_nil, findFree, candidate]
    decide
  rw [hfill]
  simp only [golangIdentifiers, List.mem_cons, List.not_mem_nil, or_false] at hg ⊢
  rcases hg with e | e | e | e <;> simp [e]

/-- the hypotheses are satisfiable by a non-trivial state, and the renaming branch is reachable -/
example : ((Deconflicter.mk ["Foo", "Foo0", "Bar"]).deconflictName "Foo").1 = some (candidate "Foo" 2) := by
  simp [Deconflicter.deconflictName, findFree, candidate]
  decide

end TLVerif.Props.C14
