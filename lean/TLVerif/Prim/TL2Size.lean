import TLVerif.Prim.TL1String
/-!
Model of `pkg/basictl/basictl2.go`: `TL2ParseSize`, `TL2WriteSize`, `TL2PutSize`,
`TL2CalculateSize`, `StringWriteTL2`, `StringReadTL2`, `VectorBitContentWriteTL2/ReadTL2`.
Go `int` is 64-bit; lengths are `Nat` with the `int(uint64(l)) != l` panic unreachable for
non-negative 64-bit ints, so writer functions take `l < 2^63`.
-/
namespace TLVerif.Prim
open TLVerif.Facts.Prim

def le16 (n : Nat) : Bytes := [byteOf n, byteOf (n >>> 8)]
def le64 (n : Nat) : Bytes :=
  [byteOf n, byteOf (n >>> 8), byteOf (n >>> 16), byteOf (n >>> 24),
   byteOf (n >>> 32), byteOf (n >>> 40), byteOf (n >>> 48), byteOf (n >>> 56)]

/-- `TL2WriteSize` (appended to an empty buffer) -/
def tl2WriteSize (l : Nat) : Bytes :=
  if l < mediumStringMarker then [byteOf l]
  else if l < mediumStringMarker + (1 <<< 16) then byteOf mediumStringMarker :: le16 (l - mediumStringMarker)
  else byteOf hugeStringMarker :: le64 l

/-- `TL2CalculateSize` -/
def tl2CalculateSize (l : Nat) : Nat :=
  if l < mediumStringMarker then 1
  else if l < mediumStringMarker + (1 <<< 16) then 3
  else 9

/-- `TL2PutSize`: bytes stored at the front of the buffer, and the count returned -/
def tl2PutSize (l : Nat) : Bytes × Nat :=
  if l < mediumStringMarker then ([byteOf l], 1)
  else if l < mediumStringMarker + (1 <<< 16) then
    (byteOf mediumStringMarker :: le16 (l - mediumStringMarker), 3)
  else (byteOf hugeStringMarker :: le64 l, 9)

/-- `TL2ParseSize` -/
def tl2ParseSize (r : Bytes) : Except RErr (Nat × Bytes) :=
  match r with
  | [] => .error .eof
  | b0 :: r1 =>
    if b0.toNat < mediumStringMarker then .ok (b0.toNat, r1)
    else if b0.toNat = mediumStringMarker then
      match r1 with
      | x1 :: x2 :: r3 => .ok (mediumStringMarker + (x1.toNat + (x2.toNat <<< 8)), r3)
      | _ => .error .eof
    else
      match r1 with
      | x1 :: x2 :: x3 :: x4 :: x5 :: x6 :: x7 :: x8 :: r9 =>
        let l := x1.toNat + (x2.toNat <<< 8) + (x3.toNat <<< 16) + (x4.toNat <<< 24)
                 + (x5.toNat <<< 32) + (x6.toNat <<< 40) + (x7.toNat <<< 48) + (x8.toNat <<< 56)
        if l > 9223372036854775807 then .error .tooLong else .ok (l, r9)
      | _ => .error .eof

/-- `StringWriteTL2` -/
def stringWriteTL2 (s : Bytes) : Bytes := tl2WriteSize s.length ++ s

/-- `StringReadTL2` -/
def stringReadTL2 (r : Bytes) : Except RErr (Bytes × Bytes) :=
  match tl2ParseSize r with
  | .error e => .error e
  | .ok (l, r) => if r.length < l then .error .eof else .ok (r.take l, r.drop l)

/-- one packed block: bit `j` set iff `bs[j]` (at most 8 entries) -/
def packBlock : List Bool → Nat
  | [] => 0
  | b :: t => (if b then 1 else 0) + 2 * packBlock t

/-- `VectorBitContentWriteTL2` -/
def bitsWrite (v : List Bool) : Bytes :=
  if h : v.length ≤ 8 then
    (if v.isEmpty then [] else [byteOf (packBlock v)])
  else byteOf (packBlock (v.take 8)) :: bitsWrite (v.drop 8)
termination_by v.length
decreasing_by simp; omega

def unpackBlock (b : UInt8) (n : Nat) : List Bool :=
  (List.range n).map (fun j => (b.toNat >>> j) % 2 == 1)

/-- `VectorBitContentReadTL2` for a vector of `n` entries -/
def bitsRead (n : Nat) (r : Bytes) : Except RErr (List Bool × Bytes) :=
  if n = 0 then .ok ([], r)
  else match r with
    | [] => .error .eof
    | b :: r' =>
      if h : n ≤ 8 then .ok (unpackBlock b n, r')
      else match bitsRead (n - 8) r' with
        | .error e => .error e
        | .ok (v, r'') => .ok (unpackBlock b 8 ++ v, r'')
termination_by n
decreasing_by omega

end TLVerif.Prim
