import TLVerif.Prim.TL2Size
import TLVerif.Prim.TL1StringLemmas
namespace TLVerif.Prim
open TLVerif.Facts.Prim


theorem le64_decode (l : Nat) (hl : l < 2^64) :
    (l % 256) + (((l >>> 8) % 256) <<< 8) + (((l >>> 16) % 256) <<< 16) + (((l >>> 24) % 256) <<< 24)
    + (((l >>> 32) % 256) <<< 32) + (((l >>> 40) % 256) <<< 40) + (((l >>> 48) % 256) <<< 48)
    + (((l >>> 56) % 256) <<< 56) = l := by
  simp only [Nat.shiftRight_eq_div_pow, Nat.shiftLeft_eq, Nat.reducePow] at *; omega

theorem tl2_huge_form_accepted (l : Nat) (rest : Bytes) (h : l < 2^63) :
    tl2ParseSize (byteOf hugeStringMarker :: le64 l ++ rest) = .ok (l, rest) := by
  have hmm := mediumMarker_eq; have hhm := hugeMarker_eq
  have e0 : hugeStringMarker % 256 = hugeStringMarker := by omega
  have e1 : ¬ (hugeStringMarker < mediumStringMarker) := by omega
  have e2 : ¬ (hugeStringMarker = mediumStringMarker) := by omega
  have hd := le64_decode l (by omega)
  have e3 : ¬ (l > 9223372036854775807) := by omega
  simp [tl2ParseSize, le64, e0, e1, e2, hd, e3]

theorem tl2_size_roundtrip (l : Nat) (rest : Bytes) (h : l < 2^63) :
    tl2ParseSize (tl2WriteSize l ++ rest) = .ok (l, rest) := by
  have hmm := mediumMarker_eq; have hhm := hugeMarker_eq
  unfold tl2WriteSize
  by_cases h1 : l < mediumStringMarker
  · rw [if_pos h1]
    have e : l % 256 = l := by omega
    simp [tl2ParseSize, e, h1]
  · rw [if_neg h1]
    by_cases h2 : l < mediumStringMarker + (1 <<< 16)
    · rw [if_pos h2]
      have e1 : ¬ (mediumStringMarker < mediumStringMarker) := by omega
      have e2 : mediumStringMarker % 256 = mediumStringMarker := by omega
      have hd : (l - mediumStringMarker) % 256 + ((((l - mediumStringMarker) >>> 8) % 256) <<< 8)
          = l - mediumStringMarker := by
        simp only [Nat.shiftRight_eq_div_pow, Nat.shiftLeft_eq, Nat.reducePow] at *; omega
      simp [tl2ParseSize, le16, e1, e2, hd]
      omega
    · rw [if_neg h2]; exact tl2_huge_form_accepted l rest h

theorem tl2_put_eq_write (l : Nat) : (tl2PutSize l).1 = tl2WriteSize l := by
  unfold tl2PutSize tl2WriteSize; split <;> (try split) <;> rfl

theorem tl2_put_count (l : Nat) : (tl2PutSize l).2 = (tl2WriteSize l).length := by
  unfold tl2PutSize tl2WriteSize; split <;> (try split) <;> rfl

theorem tl2_calc_eq_len (l : Nat) : tl2CalculateSize l = (tl2WriteSize l).length := by
  unfold tl2CalculateSize tl2WriteSize; split <;> (try split) <;> rfl

theorem tl2_size_truncation_eof (l n : Nat) (hn : n < (tl2WriteSize l).length) :
    tl2ParseSize ((tl2WriteSize l).take n) = .error .eof := by
  have hmm := mediumMarker_eq; have hhm := hugeMarker_eq
  unfold tl2WriteSize at *
  by_cases h1 : l < mediumStringMarker
  · rw [if_pos h1] at hn ⊢
    simp only [List.length_cons, List.length_nil] at hn
    have : n = 0 := by omega
    subst this; rfl
  · rw [if_neg h1] at hn ⊢
    by_cases h2 : l < mediumStringMarker + (1 <<< 16)
    · rw [if_pos h2] at hn ⊢
      simp only [le16, List.length_cons, List.length_nil] at hn
      have e1 : ¬ (mediumStringMarker < mediumStringMarker) := by omega
      have e2 : mediumStringMarker % 256 = mediumStringMarker := by omega
      have : n = 0 ∨ n = 1 ∨ n = 2 := by omega
      rcases this with h | h | h <;> subst h <;> simp [tl2ParseSize, le16, e1, e2]
    · rw [if_neg h2] at hn ⊢
      simp only [le64, List.length_cons, List.length_nil] at hn
      have e0 : hugeStringMarker % 256 = hugeStringMarker := by omega
      have e1 : ¬ (hugeStringMarker < mediumStringMarker) := by omega
      have e2 : ¬ (hugeStringMarker = mediumStringMarker) := by omega
      have : n = 0 ∨ n = 1 ∨ n = 2 ∨ n = 3 ∨ n = 4 ∨ n = 5 ∨ n = 6 ∨ n = 7 ∨ n = 8 := by omega
      rcases this with h | h | h | h | h | h | h | h | h <;> subst h <;>
        simp [tl2ParseSize, le64, e0, e1, e2]

theorem string_tl2_roundtrip (s rest : Bytes) (h : s.length < 2^63) :
    stringReadTL2 (stringWriteTL2 s ++ rest) = .ok (s, rest) := by
  unfold stringReadTL2 stringWriteTL2
  rw [List.append_assoc, tl2_size_roundtrip _ _ h]
  simp

/-! bit vectors -/

theorem packBlock_lt (v : List Bool) : packBlock v < 2 ^ v.length := by
  induction v with
  | nil => simp [packBlock]
  | cons b t ih =>
    simp only [packBlock, List.length_cons, Nat.pow_succ]
    split <;> omega

theorem packBlock_bit (v : List Bool) (j : Nat) (hj : j < v.length) :
    ((packBlock v >>> j) % 2 == 1) = v[j] := by
  induction v generalizing j with
  | nil => simp at hj
  | cons b t ih =>
    cases j with
    | zero =>
      simp only [packBlock, Nat.shiftRight_zero, List.getElem_cons_zero]
      cases b <;> simp <;> omega
    | succ j =>
      simp only [List.length_cons] at hj
      simp only [packBlock, Nat.shiftRight_succ_inside, List.getElem_cons_succ]
      have : ((if b = true then 1 else 0) + 2 * packBlock t) / 2 = packBlock t := by
        cases b <;> simp <;> omega
      rw [this]; exact ih j (by omega)

theorem unpack_pack (v : List Bool) (h : v.length ≤ 8) :
    unpackBlock (byteOf (packBlock v)) v.length = v := by
  unfold unpackBlock
  have hlt := packBlock_lt v
  have : 2 ^ v.length ≤ 256 := by
    calc 2 ^ v.length ≤ 2 ^ 8 := Nat.pow_le_pow_right (by omega) h
      _ = 256 := rfl
  have e : (byteOf (packBlock v)).toNat = packBlock v := by
    simp; omega
  rw [e]
  apply List.ext_getElem
  · simp
  · intro i h1 h2
    simp only [List.getElem_map, List.getElem_range]
    exact packBlock_bit v i h2

theorem bits_roundtrip (v : List Bool) (rest : Bytes) :
    bitsRead v.length (bitsWrite v ++ rest) = .ok (v, rest) := by
  induction hn : v.length using Nat.strongRecOn generalizing v with
  | _ n ih =>
    subst hn
    rw [bitsWrite, bitsRead.eq_def]
    by_cases h0 : v.length = 0
    · have : v = [] := List.length_eq_zero_iff.mp h0
      subst this; simp
    · rw [if_neg h0]
      by_cases h8 : v.length ≤ 8
      · have hne : v.isEmpty = false := by
          cases v with
          | nil => simp at h0
          | cons _ _ => rfl
        simp only [h8, dite_true, hne, Bool.false_eq_true, if_false, List.cons_append, List.nil_append]
        rw [unpack_pack v h8]
      · simp only [h8, dite_false, List.cons_append]
        have hl : (v.drop 8).length = v.length - 8 := by simp
        have := ih (v.drop 8).length (by omega) (v.drop 8) rfl
        rw [hl] at this
        rw [this]
        have ht : (v.take 8).length = 8 := by simp; omega
        have := unpack_pack (v.take 8) (by omega)
        rw [ht] at this
        simp only [this, List.take_append_drop]

theorem bits_write_length (v : List Bool) : (bitsWrite v).length = (v.length + 7) / 8 := by
  induction hn : v.length using Nat.strongRecOn generalizing v with
  | _ n ih =>
    subst hn
    rw [bitsWrite]
    by_cases h8 : v.length ≤ 8
    · simp only [h8, dite_true]
      cases v with
      | nil => rfl
      | cons a t => simp at h8 ⊢; omega
    · simp only [h8, dite_false, List.length_cons]
      have hl : (v.drop 8).length = v.length - 8 := by simp
      rw [ih _ (by omega) (v.drop 8) rfl, hl]; omega

end TLVerif.Prim
