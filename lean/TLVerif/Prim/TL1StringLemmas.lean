import TLVerif.Prim.TL1String
namespace TLVerif.Prim
open TLVerif.Facts.Prim

/-! Side conditions on the *extracted* constants (T1): if the repo changes one of them these
`rfl`s stop checking. -/
theorem tiny_eq : tinyStringLen = 253 := rfl
theorem mediumMarker_eq : mediumStringMarker = 254 := rfl
theorem hugeMarker_eq : hugeStringMarker = 255 := rfl
theorem maxMedium_eq : maxMediumStringLen = 2^24 - 1 := rfl
theorem maxHuge_eq : maxHugeStringLen = 2^56 - 1 := rfl

@[simp] theorem byteOf_toNat (n : Nat) : (byteOf n).toNat = n % 256 := by
  simp [byteOf]

theorem padLen_write (p : Nat) : (stringWritePadding (p % 4)).length = paddingLen p := by
  have h : p % 4 = 0 ∨ p % 4 = 1 ∨ p % 4 = 2 ∨ p % 4 = 3 := by omega
  rcases h with h | h | h | h <;> simp [h, stringWritePadding, paddingLen]

theorem writePadding_zeros (p : Nat) : stringWritePadding p = zeros (stringWritePadding p).length := by
  unfold stringWritePadding zeros
  split <;> rfl

theorem header_roundtrip (l : Nat) (hdr : Bytes) (p : Nat) (rest : Bytes)
    (h : stringWriteLen l = some (hdr, p)) :
    ∃ p', stringReadHeader (hdr ++ rest) = .ok (l, p', rest) ∧ p' % 4 = p := by
  have ht := tiny_eq; have hm := maxMedium_eq; have hh := maxHuge_eq
  have hmm := mediumMarker_eq; have hhm := hugeMarker_eq
  unfold stringWriteLen at h
  by_cases h1 : l ≤ tinyStringLen
  · rw [if_pos h1] at h
    injection h with h; injection h with h2 h3; subst h2; subst h3
    refine ⟨l + 1, ?_, rfl⟩
    have e : l % 256 = l := by omega
    simp [stringReadHeader, e, h1]
  · rw [if_neg h1] at h
    by_cases h2 : l ≤ maxMediumStringLen
    · rw [if_pos h2] at h
      injection h with h; injection h with h3 h4; subst h3; subst h4
      refine ⟨l, ?_, rfl⟩
      have hl : (((l >>> 16) % 256) <<< 16) + (((l >>> 8) % 256) <<< 8) + l % 256 = l := by
        simp only [Nat.shiftRight_eq_div_pow, Nat.shiftLeft_eq, Nat.reducePow]; omega
      have e1 : ¬ (mediumStringMarker ≤ tinyStringLen) := by omega
      have e2 : mediumStringMarker % 256 = mediumStringMarker := by omega
      simp [stringReadHeader, hl, e1, e2, h1]
    · rw [if_neg h2] at h
      by_cases h3 : l > maxHugeStringLen
      · rw [if_pos h3] at h; exact absurd h (by simp)
      · rw [if_neg h3] at h
        injection h with h; injection h with h4 h5; subst h4; subst h5
        refine ⟨l, ?_, rfl⟩
        have hl : (((l >>> 48) % 256) <<< 48) + (((l >>> 40) % 256) <<< 40) + (((l >>> 32) % 256) <<< 32)
            + (((l >>> 24) % 256) <<< 24) + (((l >>> 16) % 256) <<< 16) + (((l >>> 8) % 256) <<< 8)
            + l % 256 = l := by
          simp only [Nat.shiftRight_eq_div_pow, Nat.shiftLeft_eq, Nat.reducePow]; omega
        have e0 : hugeStringMarker % 256 = hugeStringMarker := by omega
        have e1 : ¬ (hugeStringMarker ≤ tinyStringLen) := by omega
        have e2 : ¬ (hugeStringMarker = mediumStringMarker) := by omega
        have e3 : ¬ (l > 9223372036854775807) := by omega
        simp [stringReadHeader, hl, e0, e1, e2, e3, h2]



theorem all_zero_zeros (n : Nat) : (zeros n).all (· == 0) = true := by
  simp [zeros]

theorem string_roundtrip (s rest bs : Bytes) (h : stringWrite s = some bs) :
    stringRead (bs ++ rest) = .ok (s, rest) := by
  unfold stringWrite at h
  cases hw : stringWriteLen s.length with
  | none => simp [hw] at h
  | some hp =>
    obtain ⟨hdr, p⟩ := hp
    simp only [hw] at h
    injection h with h; subst h
    obtain ⟨p', hr, hp'⟩ := header_roundtrip _ _ _ (s ++ stringWritePadding p ++ rest) hw
    unfold stringRead
    simp only [List.append_assoc] at hr ⊢
    rw [hr]
    have hpad : (stringWritePadding p).length = paddingLen p' := by
      rw [← hp']; exact padLen_write p'
    simp only [List.length_append]
    rw [if_neg (by omega), if_neg (by omega)]
    have e1 : ((s ++ (stringWritePadding p ++ rest)).drop s.length).take (paddingLen p')
        = stringWritePadding p := by
      rw [List.drop_left', ← hpad, List.take_left']
      all_goals rfl
    rw [e1, writePadding_zeros p, all_zero_zeros]
    simp only [if_true]
    have e2 : (s ++ (stringWritePadding p ++ rest)).take s.length = s := List.take_left' rfl
    have e3 : (s ++ (stringWritePadding p ++ rest)).drop (s.length + paddingLen p') = rest := by
      rw [← List.append_assoc, ← hpad, ← List.length_append]; exact List.drop_left' rfl
    rw [← writePadding_zeros p, e2, e3]


theorem byteOf_eq_of_mod {n : Nat} {x : UInt8} (h : n % 256 = x.toNat) : byteOf n = x := by
  apply UInt8.toNat_inj.mp
  simp [h]

theorem header_inverse (r r' : Bytes) (l p : Nat) (h : stringReadHeader r = .ok (l, p, r')) :
    ∃ hdr, stringWriteLen l = some (hdr, p % 4) ∧ r = hdr ++ r' := by
  have ht := tiny_eq; have hm := maxMedium_eq; have hh := maxHuge_eq
  have hmm := mediumMarker_eq; have hhm := hugeMarker_eq
  unfold stringReadHeader at h
  match r, h with
  | [], h => simp at h
  | b0 :: r1, h =>
    simp only at h
    by_cases h1 : b0.toNat ≤ tinyStringLen
    · rw [if_pos h1] at h
      injection h with h; injection h with h2 h3; injection h3 with h3 h4
      subst h2; subst h3; subst h4
      refine ⟨[b0], ?_, rfl⟩
      unfold stringWriteLen
      rw [if_pos h1]
      simp [byteOf]
    · rw [if_neg h1] at h
      have hb := b0.toNat_lt
      by_cases h2 : b0.toNat = mediumStringMarker
      · rw [if_pos h2] at h
        match r1, h with
        | x1 :: x2 :: x3 :: r4, h =>
          simp only at h
          have b1 := x1.toNat_lt; have b2 := x2.toNat_lt; have b3 := x3.toNat_lt
          split at h
          · simp at h
          · next h3 =>
            injection h with h; injection h with h4 h5; injection h5 with h5 h6
            subst h5; subst h6
            simp only [Nat.shiftLeft_eq, Nat.reducePow] at h3 h4
            refine ⟨[b0, x1, x2, x3], ?_, rfl⟩
            unfold stringWriteLen
            rw [if_neg (by omega), if_pos (by omega)]
            have e0 : byteOf mediumStringMarker = b0 := byteOf_eq_of_mod (by omega)
            have e1 : byteOf l = x1 := byteOf_eq_of_mod (by omega)
            have e2 : byteOf (l >>> 8) = x2 := byteOf_eq_of_mod (by
              simp only [Nat.shiftRight_eq_div_pow, Nat.reducePow]; omega)
            have e3 : byteOf (l >>> 16) = x3 := byteOf_eq_of_mod (by
              simp only [Nat.shiftRight_eq_div_pow, Nat.reducePow]; omega)
            rw [e0, e1, e2, e3]
            simp only [Nat.shiftLeft_eq, Nat.reducePow, h4]
        | [], h => simp at h
        | [_], h => simp at h
        | [_, _], h => simp at h
      · rw [if_neg h2] at h
        match r1, h with
        | x1 :: x2 :: x3 :: x4 :: x5 :: x6 :: x7 :: r8, h =>
          simp only at h
          have b1 := x1.toNat_lt; have b2 := x2.toNat_lt; have b3 := x3.toNat_lt
          have b4 := x4.toNat_lt; have b5 := x5.toNat_lt; have b6 := x6.toNat_lt
          have b7 := x7.toNat_lt
          split at h
          · simp at h
          · next h3 =>
            split at h
            · simp at h
            · next h3' =>
              injection h with h; injection h with h4 h5; injection h5 with h5 h6
              subst h5; subst h6
              simp only [Nat.shiftLeft_eq, Nat.reducePow] at h3 h3' h4
              refine ⟨[b0, x1, x2, x3, x4, x5, x6, x7], ?_, rfl⟩
              unfold stringWriteLen
              rw [if_neg (by omega), if_neg (by omega), if_neg (by omega)]
              have e0 : byteOf hugeStringMarker = b0 := byteOf_eq_of_mod (by omega)
              have e1 : byteOf l = x1 := byteOf_eq_of_mod (by omega)
              have e2 : byteOf (l >>> 8) = x2 := byteOf_eq_of_mod (by
                simp only [Nat.shiftRight_eq_div_pow, Nat.reducePow]; omega)
              have e3 : byteOf (l >>> 16) = x3 := byteOf_eq_of_mod (by
                simp only [Nat.shiftRight_eq_div_pow, Nat.reducePow]; omega)
              have e4 : byteOf (l >>> 24) = x4 := byteOf_eq_of_mod (by
                simp only [Nat.shiftRight_eq_div_pow, Nat.reducePow]; omega)
              have e5 : byteOf (l >>> 32) = x5 := byteOf_eq_of_mod (by
                simp only [Nat.shiftRight_eq_div_pow, Nat.reducePow]; omega)
              have e6 : byteOf (l >>> 40) = x6 := byteOf_eq_of_mod (by
                simp only [Nat.shiftRight_eq_div_pow, Nat.reducePow]; omega)
              have e7 : byteOf (l >>> 48) = x7 := byteOf_eq_of_mod (by
                simp only [Nat.shiftRight_eq_div_pow, Nat.reducePow]; omega)
              rw [e0, e1, e2, e3, e4, e5, e6, e7]
              simp only [Nat.shiftLeft_eq, Nat.reducePow, h4]
        | [], h => simp at h
        | [_], h => simp at h
        | [_, _], h => simp at h
        | [_, _, _], h => simp at h
        | [_, _, _, _], h => simp at h
        | [_, _, _, _, _], h => simp at h
        | [_, _, _, _, _, _], h => simp at h


theorem eq_zeros_of_all (l : Bytes) (h : l.all (· == 0) = true) : l = zeros l.length := by
  induction l with
  | nil => rfl
  | cons a t ih =>
    simp only [List.all_cons, Bool.and_eq_true, beq_iff_eq] at h
    simp only [zeros, List.length_cons, List.replicate_succ]
    rw [h.1]; congr 1; exact ih h.2

theorem header_trunc (l : Nat) (hdr : Bytes) (p n : Nat) (h : stringWriteLen l = some (hdr, p))
    (hn : n < hdr.length) : stringReadHeader (hdr.take n) = .error .eof := by
  have ht := tiny_eq; have hm := maxMedium_eq; have hh := maxHuge_eq
  have hmm := mediumMarker_eq; have hhm := hugeMarker_eq
  unfold stringWriteLen at h
  by_cases h1 : l ≤ tinyStringLen
  · rw [if_pos h1] at h
    injection h with h; injection h with h2 h3; subst h2
    simp only [List.length_cons, List.length_nil] at hn
    have : n = 0 := by omega
    subst this; rfl
  · rw [if_neg h1] at h
    by_cases h2 : l ≤ maxMediumStringLen
    · rw [if_pos h2] at h
      injection h with h; injection h with h3 h4; subst h3
      simp only [List.length_cons, List.length_nil] at hn
      have e1 : ¬ (mediumStringMarker ≤ tinyStringLen) := by omega
      have e2 : mediumStringMarker % 256 = mediumStringMarker := by omega
      have : n = 0 ∨ n = 1 ∨ n = 2 ∨ n = 3 := by omega
      rcases this with h | h | h | h <;> subst h <;> simp [stringReadHeader, e1, e2]
    · rw [if_neg h2] at h
      by_cases h3 : l > maxHugeStringLen
      · rw [if_pos h3] at h; exact absurd h (by simp)
      · rw [if_neg h3] at h
        injection h with h; injection h with h4 h5; subst h4
        simp only [List.length_cons, List.length_nil] at hn
        have e0 : hugeStringMarker % 256 = hugeStringMarker := by omega
        have e1 : ¬ (hugeStringMarker ≤ tinyStringLen) := by omega
        have e2 : ¬ (hugeStringMarker = mediumStringMarker) := by omega
        have : n = 0 ∨ n = 1 ∨ n = 2 ∨ n = 3 ∨ n = 4 ∨ n = 5 ∨ n = 6 ∨ n = 7 := by omega
        rcases this with h | h | h | h | h | h | h | h <;> subst h <;>
          simp [stringReadHeader, e0, e1, e2]


theorem string_read_canonical (r s rest : Bytes) (h : stringRead r = .ok (s, rest)) :
    ∃ bs, stringWrite s = some bs ∧ r = bs ++ rest := by
  unfold stringRead at h
  cases hh : stringReadHeader r with
  | error e => simp [hh] at h
  | ok t =>
    obtain ⟨l, p, r'⟩ := t
    simp only [hh] at h
    by_cases c1 : r'.length < l
    · simp [c1] at h
    · rw [if_neg c1] at h
      by_cases c2 : r'.length < l + paddingLen p
      · simp [c2] at h
      · simp only [c2, if_false] at h
        cases c3 : ((r'.drop l).take (paddingLen p)).all (· == 0) with
        | false => simp [c3] at h
        | true =>
          simp only [c3, if_true] at h
          injection h with h; injection h with hs hrest
          obtain ⟨hdr, hw, hr⟩ := header_inverse r r' l p hh
          have hl : s.length = l := by rw [← hs]; simp; omega
          have hz := eq_zeros_of_all _ c3
          have hzl : ((r'.drop l).take (paddingLen p)).length = paddingLen p := by
            simp; omega
          rw [hzl] at hz
          refine ⟨hdr ++ s ++ stringWritePadding (p % 4), ?_, ?_⟩
          · unfold stringWrite; rw [hl, hw]
          · rw [hr, writePadding_zeros, padLen_write, ← hz, ← hs, ← hrest]
            simp only [List.append_assoc]
            congr 1
            rw [← List.drop_drop]
            simp only [List.take_append_drop]

theorem string_truncation_eof (s bs : Bytes) (n : Nat) (h : stringWrite s = some bs)
    (hn : n < bs.length) : stringRead (bs.take n) = .error .eof := by
  unfold stringWrite at h
  cases hw : stringWriteLen s.length with
  | none => simp [hw] at h
  | some hp =>
    obtain ⟨hdr, p⟩ := hp
    simp only [hw] at h
    injection h with h; subst h
    by_cases c : n < hdr.length
    · have : (hdr ++ s ++ stringWritePadding p).take n = hdr.take n := by
        rw [List.append_assoc, List.take_append_of_le_length (by omega)]
      rw [this]; unfold stringRead; rw [header_trunc _ _ _ _ hw c]
    · have e : (hdr ++ s ++ stringWritePadding p).take n
          = hdr ++ (s ++ stringWritePadding p).take (n - hdr.length) := by
        rw [List.append_assoc, List.take_append]
        rw [List.take_of_length_le (by omega)]
      obtain ⟨p', hr, hp'⟩ := header_roundtrip _ _ _ ((s ++ stringWritePadding p).take (n - hdr.length)) hw
      rw [e]; unfold stringRead; rw [hr]
      have hpad : (stringWritePadding p).length = paddingLen p' := by
        rw [← hp']; exact padLen_write p'
      simp only [List.length_append] at hn
      have hlen : ((s ++ stringWritePadding p).take (n - hdr.length)).length < s.length + paddingLen p' := by
        simp only [List.length_take, List.length_append]; omega
      simp only
      by_cases c1 : ((s ++ stringWritePadding p).take (n - hdr.length)).length < s.length
      · rw [if_pos c1]
      · rw [if_neg c1, if_pos hlen]

theorem string_write_total (s : Bytes) (h : s.length ≤ maxHugeStringLen) : ∃ bs, stringWrite s = some bs := by
  have ht := tiny_eq; have hm := maxMedium_eq; have hh := maxHuge_eq
  unfold stringWrite stringWriteLen
  by_cases h1 : s.length ≤ tinyStringLen
  · simp [h1]
  · by_cases h2 : s.length ≤ maxMediumStringLen
    · simp [h1, h2]
    · have : ¬ s.length > maxHugeStringLen := by omega
      simp [h1, h2, this]

theorem string_write_aligned (s bs : Bytes) (h : stringWrite s = some bs) : bs.length % 4 = 0 := by
  have ht := tiny_eq; have hm := maxMedium_eq; have hh := maxHuge_eq
  unfold stringWrite stringWriteLen at h
  by_cases h1 : s.length ≤ tinyStringLen
  · simp only [h1, if_true] at h
    injection h with h; subst h
    have := padLen_write (s.length + 1)
    simp only [List.length_append, List.length_cons, List.length_nil, this, paddingLen]; omega
  · by_cases h2 : s.length ≤ maxMediumStringLen
    · simp only [h1, h2, if_true, if_false] at h
      injection h with h; subst h
      have := padLen_write (s.length)
      simp only [List.length_append, List.length_cons, List.length_nil, this, paddingLen]; omega
    · by_cases h3 : s.length > maxHugeStringLen
      · simp [h1, h2, h3] at h
      · simp only [h1, h2, h3, if_false] at h
        injection h with h; subst h
        have := padLen_write (s.length)
        simp only [List.length_append, List.length_cons, List.length_nil, this, paddingLen]; omega
end TLVerif.Prim
