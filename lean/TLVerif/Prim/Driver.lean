import TLVerif.Util.Hex
import TLVerif.Prim.TL2Size
/-! Line-protocol handler for the `prim` family: every line is a self-contained case. -/
namespace TLVerif.Prim
open TLVerif.Util

def errStr (e : RErr) : String :=
  match e with
  | .eof => "err eof"
  | _ => "err rej"

def bitsOfString (s : String) : List Bool := s.toList.map (· == '1')
def stringOfBits (v : List Bool) : String :=
  if v.isEmpty then "-" else String.ofList (v.map (fun b => if b then '1' else '0'))

def handle (op : String) (args : List String) : String :=
  match op, args with
  | "sw", [h] =>
    match bytesOfHex h with
    | none => "bad-op"
    | some s => match stringWrite s with
      | none => "panic"
      | some bs => "ok " ++ hexOfBytes bs
  | "swlen", [n] =>
    match n.toNat? with
    | none => "bad-op"
    | some l => match stringWriteLen l with
      | none => "panic"
      | some (hdr, p) => s!"ok {hexOfBytes hdr} {p}"
  | "sr", [h] =>
    match bytesOfHex h with
    | none => "bad-op"
    | some r => match stringRead r with
      | .error e => errStr e
      | .ok (s, rest) => s!"ok {hexOfBytes s} {r.length - rest.length}"
  | "sz", [n] =>
    match n.toNat? with
    | none => "bad-op"
    | some l =>
      let (pb, pc) := tl2PutSize l
      s!"ok {hexOfBytes (tl2WriteSize l)} {tl2CalculateSize l} {hexOfBytes pb} {pc}"
  | "szr", [h] =>
    match bytesOfHex h with
    | none => "bad-op"
    | some r => match tl2ParseSize r with
      | .error e => errStr e
      | .ok (l, rest) => s!"ok {l} {r.length - rest.length}"
  | "s2w", [h] =>
    match bytesOfHex h with
    | none => "bad-op"
    | some s => "ok " ++ hexOfBytes (stringWriteTL2 s)
  | "s2r", [h] =>
    match bytesOfHex h with
    | none => "bad-op"
    | some r => match stringReadTL2 r with
      | .error e => errStr e
      | .ok (s, rest) => s!"ok {hexOfBytes s} {r.length - rest.length}"
  | "bw", [b] => "ok " ++ hexOfBytes (bitsWrite (if b == "-" then [] else bitsOfString b))
  | "br", [n, h] =>
    match n.toNat?, bytesOfHex h with
    | some n, some r => match bitsRead n r with
      | .error e => errStr e
      | .ok (v, rest) => s!"ok {stringOfBits v} {r.length - rest.length}"
    | _, _ => "bad-op"
  | "nw", [n] =>
    match n.toNat? with
    | some v => "ok " ++ hexOfBytes (natWrite (UInt32.ofNat v))
    | none => "bad-op"
  | "nr", [h] =>
    match bytesOfHex h with
    | none => "bad-op"
    | some r => match natRead r with
      | .error e => errStr e
      | .ok (v, rest) => s!"ok {v.toNat} {r.length - rest.length}"
  | _, _ => "bad-op"

end TLVerif.Prim
