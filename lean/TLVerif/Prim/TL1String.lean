import TLVerif.Generated.PrimFacts
/-!
Model of `pkg/basictl/basictl.go`: `StringWriteLen`, `StringWritePadding`, `StringWrite`,
`StringRead` (and their `Bytes` twins, which have the same observable behaviour), `NatRead`,
`NatWrite`, `paddingLen`.  Byte strings are `List UInt8`; Go `int` is modelled as `Nat`
(every quantity here is a length, never negative; the `l64 > math.MaxInt` branch is kept).
The constants come from the regenerated facts file.
-/
namespace TLVerif.Prim
open TLVerif.Facts.Prim

abbrev Bytes := List UInt8

inductive RErr where
  | eof        -- io.ErrUnexpectedEOF
  | noncanon   -- non-canonical length form
  | padding    -- errBadPadding
  | tooLong    -- length not representable as int
  | tag        -- wrong tag / bool tag
  | other
  deriving DecidableEq, Repr, Inhabited

def RErr.name : RErr → String
  | .eof => "eof" | .noncanon => "noncanon" | .padding => "padding"
  | .tooLong => "toolong" | .tag => "tag" | .other => "other"

/-- Go `byte(x)` for a non-negative `x`. -/
def byteOf (n : Nat) : UInt8 := UInt8.ofNat n

/-- `paddingLen(l) = int(-uint(l) % 4)` -/
def paddingLen (p : Nat) : Nat := (4 - p % 4) % 4

def zeros (n : Nat) : Bytes := List.replicate n 0

/-- `StringWriteLen`: header bytes and the padding selector `uint64(p) % 4`; `none` is the
Go panic for lengths above 2^56-1. -/
def stringWriteLen (l : Nat) : Option (Bytes × Nat) :=
  if l ≤ tinyStringLen then
    some ([byteOf l], (l + 1) % 4)
  else if l ≤ maxMediumStringLen then
    some ([byteOf mediumStringMarker, byteOf l, byteOf (l >>> 8), byteOf (l >>> 16)], l % 4)
  else if l > maxHugeStringLen then none
  else
    some ([byteOf hugeStringMarker, byteOf l, byteOf (l >>> 8), byteOf (l >>> 16), byteOf (l >>> 24),
           byteOf (l >>> 32), byteOf (l >>> 40), byteOf (l >>> 48)], l % 4)

/-- `StringWritePadding` -/
def stringWritePadding (p : Nat) : Bytes :=
  match p with
  | 1 => [0, 0, 0]
  | 2 => [0, 0]
  | 3 => [0]
  | _ => []

/-- `StringWrite` / `StringWriteBytes` (appended to an empty buffer). -/
def stringWrite (s : Bytes) : Option Bytes :=
  match stringWriteLen s.length with
  | none => none
  | some (hdr, p) => some (hdr ++ s ++ stringWritePadding p)

/-- header decoding part of `StringRead`: returns (l, p, rest-after-header) -/
def stringReadHeader (r : Bytes) : Except RErr (Nat × Nat × Bytes) :=
  match r with
  | [] => .error .eof
  | b0 :: r1 =>
    if b0.toNat ≤ tinyStringLen then
      .ok (b0.toNat, b0.toNat + 1, r1)
    else if b0.toNat = mediumStringMarker then
      match r1 with
      | x1 :: x2 :: x3 :: r4 =>
        let l := (x3.toNat <<< 16) + (x2.toNat <<< 8) + x1.toNat
        if l ≤ tinyStringLen then .error .noncanon else .ok (l, l, r4)
      | _ => .error .eof
    else
      match r1 with
      | x1 :: x2 :: x3 :: x4 :: x5 :: x6 :: x7 :: r8 =>
        let l := (x7.toNat <<< 48) + (x6.toNat <<< 40) + (x5.toNat <<< 32) + (x4.toNat <<< 24)
                 + (x3.toNat <<< 16) + (x2.toNat <<< 8) + x1.toNat
        if l > 9223372036854775807 then .error .tooLong
        else if l ≤ maxMediumStringLen then .error .noncanon else .ok (l, l, r8)
      | _ => .error .eof

/-- `StringRead`: value and remaining input. -/
def stringRead (r : Bytes) : Except RErr (Bytes × Bytes) :=
  match stringReadHeader r with
  | .error e => .error e
  | .ok (l, p, r) =>
    if r.length < l then .error .eof
    else
      let pad := paddingLen p
      if r.length < l + pad then .error .eof
      else if ((r.drop l).take pad).all (· == 0) then .ok (r.take l, r.drop (l + pad))
      else .error .padding

/-- `NatWrite` -/
def natWrite (v : UInt32) : Bytes :=
  [v.toUInt8, (v >>> 8).toUInt8, (v >>> 16).toUInt8, (v >>> 24).toUInt8]

/-- `NatRead` -/
def natRead (r : Bytes) : Except RErr (UInt32 × Bytes) :=
  match r with
  | a :: b :: c :: d :: rest =>
    .ok (a.toUInt32 ||| (b.toUInt32 <<< 8) ||| (c.toUInt32 <<< 16) ||| (d.toUInt32 <<< 24), rest)
  | _ => .error .eof

end TLVerif.Prim
