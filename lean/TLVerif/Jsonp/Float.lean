import TLVerif.Jsonp.Reader
/-!
Executable specification of what `JSONWriteFloat32/64` and `Json2ReadFloat32/64` ask of `strconv` for
*finite* values (the standard library itself is not analysed; this model is tied to it differentially):

* `roundToFloat`   : IEEE-754 round-to-nearest-even of an exact non-negative rational to a bit pattern
                     (what `strconv.ParseFloat` computes for decimal input; overflow is its `ErrRange`);
* `parseFloatText` : `strconv.ParseFloat(s, bitSize)` on decimal text (`readFloat`'s grammar, no hex, no `_`);
* `formatFloat`    : `strconv.AppendFloat(_, v, 'f', -1, bitSize)`: the shortest digit string — nearest to `v`,
                     ties to the even digit — whose `%f` rendering `ParseFloat` maps back to `v`.
                     The search accepts a candidate exactly when the model parser maps its rendering back to the
                     pattern, so "what was written reads back bit-exactly" holds for the model by construction;
                     that Go prints the same digits is what the differential run checks.
All arithmetic is exact (`Nat`/`Int`).
-/
namespace TLVerif.Jsonp

structure FloatFmt where
  ebits : Nat
  mbits : Nat

def fmt32 : FloatFmt := ⟨8, 23⟩
def fmt64 : FloatFmt := ⟨11, 52⟩

/-- the common denominator: a finite pattern with exponent field `e` and mantissa `m` has magnitude
`(m + [e≠0]·2^mbits) · 2^max(e,1) / scale` -/
def FloatFmt.scale (f : FloatFmt) : Nat := 2 ^ (2 ^ (f.ebits - 1) - 1 + f.mbits)

def FloatFmt.expField (f : FloatFmt) (bits : Nat) : Nat := bits / 2 ^ f.mbits % 2 ^ f.ebits
def FloatFmt.mantField (f : FloatFmt) (bits : Nat) : Nat := bits % 2 ^ f.mbits
def FloatFmt.signBit (f : FloatFmt) (bits : Nat) : Bool := bits / 2 ^ (f.mbits + f.ebits) % 2 = 1
/-- the pattern without its sign bit -/
def FloatFmt.absBits (f : FloatFmt) (bits : Nat) : Nat := bits % 2 ^ (f.mbits + f.ebits)

/-- exact magnitude of a finite pattern (sign dropped) as `num / f.scale` -/
def FloatFmt.magNum (f : FloatFmt) (abits : Nat) : Nat :=
  let e := f.expField abits
  let m := f.mantField abits
  if e = 0 then m * 2 else (m + 2 ^ f.mbits) * 2 ^ e

/-- round-to-nearest-even of `num/den` (`den > 0`) to the magnitude bits of the format; `none` on overflow -/
def roundToFloat (f : FloatFmt) (num den : Nat) : Option Nat :=
  if num = 0 then some 0
  else
    let a := num * f.scale
    let t := a / (den * 2 ^ f.mbits)
    let e := max 1 (Nat.log2 t)
    let d := den * 2 ^ e
    let q0 := a / d
    let r := a % d
    let q := if 2 * r > d ∨ (2 * r = d ∧ q0 % 2 = 1) then q0 + 1 else q0
    let bits := (e - 1) * 2 ^ f.mbits + q
    if bits ≥ (2 ^ f.ebits - 1) * 2 ^ f.mbits then none else some bits

/-- `10^e` applied to a fraction -/
def scale10 (num den : Nat) (e : Int) : Nat × Nat :=
  if e ≥ 0 then (num * 10 ^ e.toNat, den) else (num, den * 10 ^ (-e).toNat)

/-- a run of decimal digits: value, count, and the rest -/
def takeDigits : Bytes → Nat → Nat → Nat × Nat × Bytes
  | [], v, n => (v, n, [])
  | c :: t, v, n => if isDigit c then takeDigits t (v * 10 + (c.toNat - 48)) (n + 1) else (v, n, c :: t)

/-- the exponent accumulator of `readFloat`: stops growing at 10000 -/
def takeExpDigits : Bytes → Nat → Nat → Nat × Nat × Bytes
  | [], v, n => (v, n, [])
  | c :: t, v, n =>
    if isDigit c then takeExpDigits t (if v < 10000 then v * 10 + (c.toNat - 48) else v) (n + 1) else (v, n, c :: t)

/-- `readFloat` + exact value for decimal text: sign, digits `D`, power of ten `p` (value `D·10^p`);
`none` is a syntax error (`ParseFloat` demands the whole string) -/
def parseDecimal (s : Bytes) : Option (Bool × Nat × Int) :=
  let (neg, s1) := match s with
    | c :: t => if c == 0x2B then (false, t) else if c == 0x2D then (true, t) else (false, c :: t)
    | [] => (false, [])
  let (vi, ni, s2) := takeDigits s1 0 0
  let (v, nf, nd, s3) := match s2 with
    | c :: t => if c == 0x2E then (let (v, n, r) := takeDigits t vi 0; (v, n, ni + n, r)) else (vi, 0, ni, c :: t)
    | [] => (vi, 0, ni, [])
  if nd = 0 then none
  else
    match s3 with
    | [] => some (neg, v, - (nf : Int))
    | c :: t =>
      if c == 0x65 || c == 0x45 then
        let (eneg, t1) := match t with
          | c :: t' => if c == 0x2B then (false, t') else if c == 0x2D then (true, t') else (false, c :: t')
          | [] => (false, [])
        let (e, ne, t2) := takeExpDigits t1 0 0
        if ne = 0 then none
        else match t2 with
          | [] => some (neg, v, (if eneg then - (e : Int) else (e : Int)) - (nf : Int))
          | _ => none
      else none

/-- `strconv.ParseFloat(s, bitSize)` on decimal text: the full bit pattern; `none` for syntax and range errors -/
def parseFloatText (f : FloatFmt) (s : Bytes) : Option Nat :=
  match parseDecimal s with
  | none => none
  | some (neg, d, p) =>
    let (num, den) := scale10 d 1 p
    match roundToFloat f num den with
    | none => none
    | some b => some (if neg then b + 2 ^ (f.mbits + f.ebits) else b)

/-- decimal digits of `n`, most significant first (`[]` for 0) -/
def digitsOf (n : Nat) : List Nat :=
  if _h : n = 0 then [] else digitsOf (n / 10) ++ [n % 10]
termination_by n
decreasing_by omega

def stripTrailingZeros (ds : List Nat) : List Nat := (ds.reverse.dropWhile (· == 0)).reverse

/-- `fmtF` with `prec = max(nd - dp, 0)`: digits `ds` (no trailing zeros), value `0.ds × 10^dp` -/
def fmtF (neg : Bool) (ds : List Nat) (dp : Int) : Bytes :=
  let ch (d : Nat) : UInt8 := byteOf (48 + d)
  let intPart : Bytes :=
    if dp > 0 then (ds.take dp.toNat).map ch ++ List.replicate (dp.toNat - ds.length) 0x30 else [0x30]
  let fracPart : Bytes :=
    if (ds.length : Int) > dp then
      0x2E :: (List.replicate (-dp).toNat 0x30 ++ (ds.drop dp.toNat).map ch)
    else []
  (if neg then [0x2D] else []) ++ intPart ++ fracPart

/-- smallest `k` with `num/den < 10^k` (for `0 < num`), searched from the bit lengths -/
def decExponent (num den : Nat) : Int :=
  -- 10^k > num/den.  Start below and walk up; the start is at most a few steps off.
  let est : Int := ((Nat.log2 num : Int) - (Nat.log2 den : Int) - 1) * 30103 / 100000 - 1
  let rec up (fuel : Nat) (k : Int) : Int :=
    match fuel with
    | 0 => k
    | fuel + 1 =>
      let (n, d) := scale10 num den (-k)
      if n < d then k else up fuel (k + 1)
  up 8 est

/-- rendering of the candidate `c · 10^(k-n)` -/
def renderCandidate (neg : Bool) (c : Nat) (k : Int) (n : Nat) : Bytes :=
  let ds := digitsOf c
  fmtF neg (stripTrailingZeros ds) ((ds.length : Int) + (k - n))

/-- the search of `formatFloat` over the number of digits -/
def shortestSearch (f : FloatFmt) (neg : Bool) (bits num den : Nat) (k : Int) : Nat → Nat → Option Bytes
  | 0, _ => none
  | fuel + 1, n =>
    let (sn, sd) := scale10 num den ((n : Int) - k)
    let t := sn / sd
    let r := sn % sd
    let lo := renderCandidate neg t k n
    let hi := renderCandidate neg (t + 1) k n
    let okLo := t ≠ 0 ∧ parseFloatText f lo = some bits
    let okHi := parseFloatText f hi = some bits
    if okLo ∧ okHi then
      some (if 2 * r < sd ∨ (2 * r = sd ∧ t % 2 = 0) then lo else hi)
    else if okLo then some lo
    else if okHi then some hi
    else shortestSearch f neg bits num den k fuel (n + 1)

/-- `strconv.AppendFloat(nil, v, 'f', -1, bitSize)` for a finite pattern; `none` if 20 digits do not suffice
(never observed; 9 resp. 17 are known to suffice) -/
def formatFloat (f : FloatFmt) (bits : Nat) : Option Bytes :=
  let neg := f.signBit bits
  let num := f.magNum (f.absBits bits)
  if num = 0 then some (fmtF neg [] 0)
  else shortestSearch f neg bits num f.scale (decExponent num f.scale) 20 1

/-- `JSONWriteFloat32/64`: the special strings, else `AppendFloat(…,'f',-1,bitSize)` -/
def writeFloat (f : FloatFmt) (bits : Nat) : Option Bytes :=
  match writeFloatSpecial (floatClass f.ebits f.mbits bits) with
  | some t => some t
  | none => formatFloat f bits

/-- `Json2ReadFloat32/64` on decimal text: number token or string token, parsed by `ParseFloat`.
`none` = not decimal text the model covers (specials, hex floats, underscores): see `readFloatSpecial`. -/
def decimalAlphabet (s : Bytes) : Bool :=
  s.all (fun c => isDigit c || c == 0x2E || c == 0x65 || c == 0x45 || c == 0x2B || c == 0x2D)

def readFloat (f : FloatFmt) (data : Bytes) : Option (ROut Nat) :=
  match readNumberText data with
  | none => some .err
  | some (s, pos) =>
    if decimalAlphabet s then
      match parseFloatText f s with
      | none => some .err
      | some b => some (.ok b pos)
    else none

end TLVerif.Jsonp
