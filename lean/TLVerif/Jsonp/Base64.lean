import TLVerif.Jsonp.Utf8
/-!
Model of Go's `encoding/base64` `StdEncoding` as used by `JSONWriteString` (`Encode`) and by
`jlexer.Lexer.Bytes` (`Decode`): standard alphabet, `=` padding, non-strict decoding that skips
`\r` and `\n` (the decoder is `decodeQuantum` run to the end of the input; the 8- and 4-character
fast paths of `Decode` compute the same function).
-/
namespace TLVerif.Jsonp

/-- `encodeStd[n]` -/
def b64char (n : Nat) : UInt8 :=
  if n < 26 then byteOf (65 + n)
  else if n < 52 then byteOf (97 + (n - 26))
  else if n < 62 then byteOf (48 + (n - 52))
  else if n = 62 then 43 else 47

/-- `decodeMap[c]` (`none` is `0xff`) -/
def b64val (c : UInt8) : Option Nat :=
  let n := c.toNat
  if 65 ≤ n ∧ n ≤ 90 then some (n - 65)
  else if 97 ≤ n ∧ n ≤ 122 then some (n - 97 + 26)
  else if 48 ≤ n ∧ n ≤ 57 then some (n - 48 + 52)
  else if n = 43 then some 62
  else if n = 47 then some 63
  else none

/-- `StdEncoding.Encode` -/
def b64encode : Bytes → Bytes
  | [] => []
  | [a] => [b64char (a.toNat / 4), b64char (a.toNat % 4 * 16), 61, 61]
  | [a, b] => [b64char (a.toNat / 4), b64char (a.toNat % 4 * 16 + b.toNat / 16), b64char (b.toNat % 16 * 4), 61]
  | a :: b :: c :: t =>
    b64char (a.toNat / 4) :: b64char (a.toNat % 4 * 16 + b.toNat / 16)
      :: b64char (b.toNat % 16 * 4 + c.toNat / 64) :: b64char (c.toNat % 64) :: b64encode t

def isNL (c : UInt8) : Bool := c == 10 || c == 13

/-- skip over newlines -/
def skipNL : Bytes → Bytes
  | [] => []
  | c :: t => if isNL c then skipNL t else c :: t

/-- `StdEncoding.Decode`: `acc` are the sextets of the current quantum read so far (`dbuf[0..j)`).
`none` is a `CorruptInputError`. -/
def b64decodeAux : Bytes → List Nat → Option Bytes
  | [], acc => if acc.isEmpty then some [] else none
  | c :: t, acc =>
    match b64val c with
    | some v =>
      match acc with
      | [v0, v1, v2] =>
        match b64decodeAux t [] with
        | none => none
        | some r => some (byteOf (v0 * 4 + v1 / 16) :: byteOf (v1 % 16 * 16 + v2 / 4) :: byteOf (v2 % 4 * 64 + v) :: r)
      | _ => b64decodeAux t (acc ++ [v])
    | none =>
      if isNL c then b64decodeAux t acc
      else if c == 61 then
        match acc with
        | [v0, v1] =>
          match skipNL t with
          | c2 :: t2 => if c2 == 61 ∧ skipNL t2 = [] then some [byteOf (v0 * 4 + v1 / 16)] else none
          | [] => none
        | [v0, v1, v2] =>
          if skipNL t = [] then some [byteOf (v0 * 4 + v1 / 16), byteOf (v1 % 16 * 16 + v2 / 4)] else none
        | _ => none
      else none

def b64decode (src : Bytes) : Option Bytes := b64decodeAux src []

end TLVerif.Jsonp
