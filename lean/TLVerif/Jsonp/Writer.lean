import TLVerif.Generated.JsonpFacts
import TLVerif.Jsonp.Base64
/-!
Model of the JSON primitive writers of `pkg/basictl/basictl.go`:
`JSONWriteString` / `JSONWriteStringBytes` (one function: the two Go copies differ only in the argument
type), `JSONWriteUint32/Int32/Uint64/Int64` (`strconv.AppendUint/AppendInt` base 10) and
`jsonWriteFloatSpecial`.  The writers append to `w`; the model returns the appended bytes.
`safeSet`, `hex`, `binaryJSONStringStart/End` come from the regenerated facts file.

The loop is modelled twice: `escapeLoop` emits every unescaped byte where it stands (the theorems are stated about
it); `escapeGo` keeps the `start`/`i` bookkeeping of the Go loop (copy the pending run `s[start:i]` before every
escape and at the end, reset `start`), is what the driver executes, and is proved equal to `escapeLoop`.
-/
namespace TLVerif.Jsonp
open TLVerif.Facts.Jsonp

/-- bytes of an ASCII string constant -/
def asciiBytes (s : String) : Bytes := s.toList.map (fun c => UInt8.ofNat c.toNat)

/-- `safeSet[b]` for `b < utf8.RuneSelf` -/
def safe (b : Nat) : Bool := safeSet.getD b false

/-- `hex[n]` -/
def hexChar (n : Nat) : UInt8 := (asciiBytes hexDigits).getD n 0

def b64Start : Bytes := asciiBytes binaryJSONStringStart
def b64End : Bytes := asciiBytes binaryJSONStringEnd

/-- what is appended after the backslash for a non-safe ASCII byte -/
def escAscii (b : UInt8) : Bytes :=
  if b == 0x5C || b == 0x22 then [b]
  else if b == 0x0A then [0x6E]
  else if b == 0x0D then [0x72]
  else if b == 0x09 then [0x74]
  else [0x75, 0x30, 0x30, hexChar (b.toNat / 16), hexChar (b.toNat % 16)]

/-- the loop of `JSONWriteString` over `s[i:]` -/
def escapeLoop (s : Bytes) : Bytes :=
  match s with
  | [] => []
  | b :: t =>
    if b.toNat < 0x80 then
      if safe b.toNat then b :: escapeLoop t
      else 0x5C :: (escAscii b ++ escapeLoop t)
    else
      let cs := decodeRune (b :: t)
      if cs.1 = runeError ∧ cs.2 = 1 then
        [0x5C, 0x75, 0x66, 0x66, 0x66, 0x64] ++ escapeLoop t
      else if cs.1 = 0x2028 ∨ cs.1 = 0x2029 then
        [0x5C, 0x75, 0x32, 0x30, 0x32, hexChar (cs.1 % 16)] ++ escapeLoop (t.drop (cs.2 - 1))
      else
        b :: (t.take (cs.2 - 1) ++ escapeLoop (t.drop (cs.2 - 1)))
termination_by s.length
decreasing_by all_goals (simp only [List.length_cons, List.length_drop]; omega)

/-- `JSONWriteString(nil, s)` -/
def writeString (s : Bytes) : Bytes :=
  if !utf8Valid s then b64Start ++ b64encode s ++ b64End
  else 0x22 :: (escapeLoop s ++ [0x22])

/-- The same loop with the `start`/`i` bookkeeping of the Go code: `run = s[start:]`, `n = i - start`,
`cur = s[i:]` (so the pending run `s[start:i]` is `run.take n`); the result is what is appended to `w` from here on,
including the final `if start < len(s) { w = append(w, s[start:]...) }`. -/
def escapeGo (run : Bytes) (n : Nat) (cur : Bytes) : Bytes :=
  match cur with
  | [] => if run ≠ [] then run else []
  | b :: t =>
    if b.toNat < 0x80 then
      if safe b.toNat then escapeGo run (n + 1) t                       -- i++; continue
      else
        (if 0 < n then run.take n else [])                              -- if start < i { w = append(w, s[start:i]...) }
          ++ (0x5C :: (escAscii b ++ escapeGo t 0 t))                   -- i++; start = i
    else
      let cs := decodeRune (b :: t)
      if cs.1 = runeError ∧ cs.2 = 1 then
        (if 0 < n then run.take n else []) ++ ([0x5C, 0x75, 0x66, 0x66, 0x66, 0x64] ++ escapeGo t 0 t)
      else if cs.1 = 0x2028 ∨ cs.1 = 0x2029 then
        (if 0 < n then run.take n else [])
          ++ ([0x5C, 0x75, 0x32, 0x30, 0x32, hexChar (cs.1 % 16)] ++ escapeGo (t.drop (cs.2 - 1)) 0 (t.drop (cs.2 - 1)))
      else escapeGo run (n + cs.2) (t.drop (cs.2 - 1))                   -- i += size
termination_by cur.length
decreasing_by all_goals (simp only [List.length_cons, List.length_drop]; omega)

/-- `JSONWriteString(nil, s)` as the Go code computes it (proved equal to `writeString`) -/
def writeStringGo (s : Bytes) : Bytes :=
  if !utf8Valid s then b64Start ++ b64encode s ++ b64End
  else 0x22 :: (escapeGo s 0 s ++ [0x22])

/-- decimal digits of `n`, most significant first (`strconv.AppendUint(_, n, 10)`) -/
def formatUint (n : Nat) : Bytes :=
  if h : n < 10 then [byteOf (48 + n)]
  else formatUint (n / 10) ++ [byteOf (48 + n % 10)]
termination_by n
decreasing_by omega

/-- `strconv.AppendInt(_, v, 10)` -/
def formatInt (v : Int) : Bytes :=
  if v < 0 then 0x2D :: formatUint (-v).toNat else formatUint v.toNat

/-- classification of a float bit pattern as `jsonWriteFloatSpecial` sees it -/
inductive FloatClass where
  | nan | pinf | ninf | finite
  deriving DecidableEq, Repr

/-- class of an IEEE-754 pattern with `ebits` exponent bits and `mbits` mantissa bits -/
def floatClass (ebits mbits : Nat) (bits : Nat) : FloatClass :=
  let e := bits / 2 ^ mbits % 2 ^ ebits
  let m := bits % 2 ^ mbits
  let neg := bits / 2 ^ (mbits + ebits) % 2 = 1
  if e = 2 ^ ebits - 1 then
    if m ≠ 0 then .nan else if neg then .ninf else .pinf
  else .finite

/-- `jsonWriteFloatSpecial`: the appended text, `none` when the value is finite -/
def writeFloatSpecial (c : FloatClass) : Option Bytes :=
  match c with
  | .nan => some (asciiBytes "\"NaN\"")
  | .pinf => some (asciiBytes "\"+Inf\"")
  | .ninf => some (asciiBytes "\"-Inf\"")
  | .finite => none

end TLVerif.Jsonp
