import TLVerif.Util.Hex
import TLVerif.Jsonp.Float
/-! Line-protocol handler for the `jsonp` family: every line is a self-contained case.
Numbers travel as big-endian hex bit patterns so that neither side parses decimal text on the way in. -/
namespace TLVerif.Jsonp
open TLVerif.Util

/-- big-endian value of a byte string -/
def beNat (bs : Bytes) : Nat := bs.foldl (fun acc b => acc * 256 + b.toNat) 0

/-- `n` bytes of hex as a bit pattern -/
def bitsArg (nbytes : Nat) (h : String) : Option Nat :=
  match bytesOfHex h with
  | some bs => if bs.length = nbytes then some (beNat bs) else none
  | none => none

/-- `n` big-endian bytes of `v` -/
def beBytes (n : Nat) (v : Nat) : Bytes := (List.range n).map (fun i => byteOf (v / 256 ^ (n - 1 - i)))

/-- two's complement -/
def toSigned (bits : Nat) (v : Nat) : Int := if v < 2 ^ (bits - 1) then (v : Int) else (v : Int) - (2 ^ bits : Nat)

def className : FloatClass → String
  | .nan => "nan" | .pinf => "+inf" | .ninf => "-inf" | .finite => "finite"

def outBytes (r : ROut Bytes) : String :=
  match r with
  | .ok v p => s!"ok {hexOfBytes v} {p}"
  | .err => "err"
  | .lexerr => "lexerr"

def handle (op : String) (args : List String) : String :=
  match op, args with
  | "ws", [h] =>
    match bytesOfHex h with
    | none => "bad-op"
    | some s => "ok " ++ hexOfBytes (writeStringGo s)
  | "wu32", [h] => match bitsArg 4 h with
    | some v => "ok " ++ hexOfBytes (formatUint v)
    | none => "bad-op"
  | "wu64", [h] => match bitsArg 8 h with
    | some v => "ok " ++ hexOfBytes (formatUint v)
    | none => "bad-op"
  | "wi32", [h] => match bitsArg 4 h with
    | some v => "ok " ++ hexOfBytes (formatInt (toSigned 32 v))
    | none => "bad-op"
  | "wi64", [h] => match bitsArg 8 h with
    | some v => "ok " ++ hexOfBytes (formatInt (toSigned 64 v))
    | none => "bad-op"
  | "wf32", [h] => match bitsArg 4 h with
    | some v => match writeFloat fmt32 v with
      | some t => "ok " ++ hexOfBytes t
      | none => "nofmt"
    | none => "bad-op"
  | "wf64", [h] => match bitsArg 8 h with
    | some v => match writeFloat fmt64 v with
      | some t => "ok " ++ hexOfBytes t
      | none => "nofmt"
    | none => "bad-op"
  | "rfn32", [h] => match bytesOfHex h with
    | none => "bad-op"
    | some d => match readFloat fmt32 d with
      | some (.ok b p) => s!"ok {hexOfBytes (beBytes 4 b)} {p}"
      | some _ => "err"
      | none => "unmodelled"
  | "rfn64", [h] => match bytesOfHex h with
    | none => "bad-op"
    | some d => match readFloat fmt64 d with
      | some (.ok b p) => s!"ok {hexOfBytes (beBytes 8 b)} {p}"
      | some _ => "err"
      | none => "unmodelled"
  | "rs", [h] =>
    match bytesOfHex h with
    | none => "bad-op"
    | some d => outBytes (readString d)
  | "ru32", [h] => match bytesOfHex h with
    | none => "bad-op"
    | some d => match readUint 32 d with | .ok v p => s!"ok {v} {p}" | _ => "err"
  | "ru64", [h] => match bytesOfHex h with
    | none => "bad-op"
    | some d => match readUint 64 d with | .ok v p => s!"ok {v} {p}" | _ => "err"
  | "ri32", [h] => match bytesOfHex h with
    | none => "bad-op"
    | some d => match readInt 32 d with | .ok v p => s!"ok {v} {p}" | _ => "err"
  | "ri64", [h] => match bytesOfHex h with
    | none => "bad-op"
    | some d => match readInt 64 d with | .ok v p => s!"ok {v} {p}" | _ => "err"
  | "rf", [h] => match bytesOfHex h with
    | none => "bad-op"
    | some d => match readFloatSpecial d with
      | some (c, p) => s!"ok {className c} {p}"
      | none => "other"
  | "b64e", [h] => match bytesOfHex h with
    | none => "bad-op"
    | some d => "ok " ++ hexOfBytes (b64encode d)
  | "b64d", [h] => match bytesOfHex h with
    | none => "bad-op"
    | some d => match b64decode d with
      | some v => "ok " ++ hexOfBytes v
      | none => "err"
  | "u8", [h] => match bytesOfHex h with
    | none => "bad-op"
    | some d => let r := decodeRune d; s!"ok {if utf8Valid d then 1 else 0} {r.1} {r.2}"
  | "ue", [h] => match bitsArg 4 h with
    | some v => "ok " ++ hexOfBytes (encodeRune v)
    | none => "bad-op"
  | "u16", [a, b] => match bitsArg 4 a, bitsArg 4 b with
    | some x, some y => s!"ok {utf16Decode x (some y)} {if isSurrogate x then 1 else 0}"
    | _, _ => "bad-op"
  | _, _ => "bad-op"

end TLVerif.Jsonp
