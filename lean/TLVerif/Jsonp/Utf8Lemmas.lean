import TLVerif.Jsonp.Utf8
/-! Lemmas about the UTF-8 model: Go's table-driven `utf8.Valid`/`DecodeRune` against the Unicode
definition (a string is well-formed iff it is a concatenation of encodings of scalar values). -/
namespace TLVerif.Jsonp

theorem byteOf_toNat (n : Nat) : (byteOf n).toNat = n % 256 := by simp [byteOf]

theorem byteOf_eq {n : Nat} {b : UInt8} (h : n % 256 = b.toNat) : byteOf n = b := by
  apply UInt8.toNat_inj.mp; simp [byteOf, h]

theorem first_cases (b : Nat) (h : 0x80 ≤ b) :
    (first b = 0xF1 ∧ (b < 0xC2 ∨ 0xF5 ≤ b)) ∨ (first b = 0x02 ∧ 0xC2 ≤ b ∧ b < 0xE0) ∨ (first b = 0x13 ∧ b = 0xE0)
    ∨ (first b = 0x03 ∧ ((0xE1 ≤ b ∧ b ≤ 0xEC) ∨ b = 0xEE ∨ b = 0xEF)) ∨ (first b = 0x23 ∧ b = 0xED)
    ∨ (first b = 0x34 ∧ b = 0xF0) ∨ (first b = 0x04 ∧ 0xF1 ≤ b ∧ b ≤ 0xF3) ∨ (first b = 0x44 ∧ b = 0xF4) := by
  unfold first
  repeat' split
  all_goals omega

theorem encodeRune2 (c : Nat) (h1 : 0x80 ≤ c) (h2 : c ≤ 0x7FF) :
    encodeRune c = [byteOf (0xC0 + c / 64), byteOf (0x80 + c % 64)] := by
  unfold encodeRune
  rw [if_neg (by omega), if_pos (by omega)]

theorem encodeRune3 (c : Nat) (h1 : 0x800 ≤ c) (h2 : c < 0xD800 ∨ (0xDFFF < c ∧ c ≤ 0xFFFF)) :
    encodeRune c = [byteOf (0xE0 + c / 4096), byteOf (0x80 + c / 64 % 64), byteOf (0x80 + c % 64)] := by
  unfold encodeRune
  rw [if_neg (by omega), if_neg (by omega), if_pos (by omega)]

theorem encodeRune4 (c : Nat) (h1 : 0x10000 ≤ c) (h2 : c ≤ 0x10FFFF) :
    encodeRune c = [byteOf (0xF0 + c / 262144), byteOf (0x80 + c / 4096 % 64), byteOf (0x80 + c / 64 % 64), byteOf (0x80 + c % 64)] := by
  unfold encodeRune maxRune
  rw [if_neg (by omega), if_neg (by omega), if_neg (by omega), if_pos (by omega)]

theorem first_val (b k : Nat) (h : (k = 0xF0 ∧ b < 0x80) ∨ (k = 0x02 ∧ 0xC2 ≤ b ∧ b < 0xE0) ∨ (k = 0x13 ∧ b = 0xE0)
    ∨ (k = 0x03 ∧ ((0xE1 ≤ b ∧ b ≤ 0xEC) ∨ b = 0xEE ∨ b = 0xEF)) ∨ (k = 0x23 ∧ b = 0xED)
    ∨ (k = 0x34 ∧ b = 0xF0) ∨ (k = 0x04 ∧ 0xF1 ≤ b ∧ b ≤ 0xF3) ∨ (k = 0x44 ∧ b = 0xF4)) : first b = k := by
  unfold first
  repeat' split
  all_goals omega

theorem encode_spec (c : Nat) (hs : isScalar c) (t : Bytes) :
    utf8Valid (encodeRune c ++ t) = utf8Valid t ∧ decodeRune (encodeRune c ++ t) = (c, (encodeRune c).length) := by
  unfold isScalar at hs
  by_cases h1 : c ≤ 0x7F
  · have e : encodeRune c = [byteOf c] := by unfold encodeRune; rw [if_pos h1]
    have e0 : (byteOf c).toNat = c := by rw [byteOf_toNat]; omega
    rw [e]
    constructor
    · simp only [List.cons_append, List.nil_append]; rw [utf8Valid]; simp [e0]; omega
    · simp only [List.cons_append, List.nil_append]; unfold decodeRune
      simp [e0, first_val c 0xF0 (by omega)]
  by_cases h2 : c ≤ 0x7FF
  · rw [encodeRune2 c (by omega) h2]
    have e0 : (byteOf (0xC0 + c / 64)).toNat = 0xC0 + c / 64 := by rw [byteOf_toNat]; omega
    have e1 : (byteOf (0x80 + c % 64)).toNat = 0x80 + c % 64 := by rw [byteOf_toNat]; omega
    have hf := first_val (0xC0 + c / 64) 0x02 (by omega)
    constructor
    · simp only [List.cons_append, List.nil_append]; rw [utf8Valid]
      simp [e0, e1, hf, acceptLo, acceptHi]
      rw [if_neg (by omega)]
      simp [show ¬ (128 + c % 64 < 128) by omega, show ¬ (191 < 128 + c % 64) by omega]
    · simp only [List.cons_append, List.nil_append]; unfold decodeRune
      simp [e0, e1, hf, acceptLo, acceptHi]
      rw [if_neg (by omega), if_neg (by omega)]
      simp only [Prod.mk.injEq, and_true]; omega
  by_cases h3 : c ≤ 0xFFFF
  · rw [encodeRune3 c (by omega) (by omega)]
    have e0 : (byteOf (0xE0 + c / 4096)).toNat = 0xE0 + c / 4096 := by rw [byteOf_toNat]; omega
    have e1 : (byteOf (0x80 + c / 64 % 64)).toNat = 0x80 + c / 64 % 64 := by rw [byteOf_toNat]; omega
    have e2 : (byteOf (0x80 + c % 64)).toNat = 0x80 + c % 64 := by rw [byteOf_toNat]; omega
    obtain ⟨k, hf, hk⟩ : ∃ k, first (0xE0 + c / 4096) = k ∧
        ((k = 0x13 ∧ c < 0x1000) ∨ (k = 0x03 ∧ 0x1000 ≤ c ∧ (c < 0xD000 ∨ 0xE000 ≤ c)) ∨ (k = 0x23 ∧ 0xD000 ≤ c ∧ c < 0xD800)) := by
      by_cases c < 0x1000
      · exact ⟨0x13, first_val _ _ (by omega), by omega⟩
      · by_cases 0xD000 ≤ c ∧ c < 0xD800
        · exact ⟨0x23, first_val _ _ (by omega), by omega⟩
        · exact ⟨0x03, first_val _ _ (by omega), by omega⟩
    rcases hk with ⟨rfl, hc⟩ | ⟨rfl, hc⟩ | ⟨rfl, hc⟩
    all_goals
      constructor
      · simp only [List.cons_append, List.nil_append]; rw [utf8Valid]
        simp [e0, e1, e2, hf, acceptLo, acceptHi, notCont]
        rw [if_neg (by omega)]
        cases utf8Valid t <;> simp <;> omega
      · simp only [List.cons_append, List.nil_append]; unfold decodeRune
        simp [e0, e1, e2, hf, acceptLo, acceptHi, notCont]
        rw [if_neg (by omega), if_neg (by omega), if_neg (by omega)]
        simp only [Prod.mk.injEq, and_true]; clear e0 e1 e2 hf; omega
  · have h4 : c ≤ 0x10FFFF := by omega
    rw [encodeRune4 c (by omega) h4]
    have e0 : (byteOf (0xF0 + c / 262144)).toNat = 0xF0 + c / 262144 := by rw [byteOf_toNat]; omega
    have e1 : (byteOf (0x80 + c / 4096 % 64)).toNat = 0x80 + c / 4096 % 64 := by rw [byteOf_toNat]; omega
    have e2 : (byteOf (0x80 + c / 64 % 64)).toNat = 0x80 + c / 64 % 64 := by rw [byteOf_toNat]; omega
    have e3 : (byteOf (0x80 + c % 64)).toNat = 0x80 + c % 64 := by rw [byteOf_toNat]; omega
    obtain ⟨k, hf, hk⟩ : ∃ k, first (0xF0 + c / 262144) = k ∧
        ((k = 0x34 ∧ c < 0x40000) ∨ (k = 0x04 ∧ 0x40000 ≤ c ∧ c < 0x100000) ∨ (k = 0x44 ∧ 0x100000 ≤ c)) := by
      by_cases c < 0x40000
      · exact ⟨0x34, first_val _ _ (by omega), by omega⟩
      · by_cases 0x100000 ≤ c
        · exact ⟨0x44, first_val _ _ (by omega), by omega⟩
        · exact ⟨0x04, first_val _ _ (by omega), by omega⟩
    rcases hk with ⟨rfl, hc⟩ | ⟨rfl, hc⟩ | ⟨rfl, hc⟩
    all_goals
      constructor
      · simp only [List.cons_append, List.nil_append]; rw [utf8Valid]
        simp [e0, e1, e2, e3, hf, acceptLo, acceptHi, notCont]
        rw [if_neg (by omega)]
        cases utf8Valid t <;> simp <;> omega
      · simp only [List.cons_append, List.nil_append]; unfold decodeRune
        simp [e0, e1, e2, e3, hf, acceptLo, acceptHi, notCont]
        rw [if_neg (by omega), if_neg (by omega), if_neg (by omega), if_neg (by omega)]
        simp only [Prod.mk.injEq, and_true]; clear e0 e1 e2 e3 hf; omega
/-- decomposition of a valid string that starts with a non-ASCII byte -/
theorem valid_multibyte (b : UInt8) (t : Bytes) (hb : 0x80 ≤ b.toNat) (hv : utf8Valid (b :: t) = true) :
    ∃ c rest, isScalar c ∧ 0x80 ≤ c ∧ b :: t = encodeRune c ++ rest ∧ utf8Valid rest = true
      ∧ decodeRune (b :: t) = (c, (encodeRune c).length) ∧ 2 ≤ (encodeRune c).length := by
  have hb2 := b.toNat_lt
  rcases first_cases b.toNat hb with ⟨hf, _⟩ | ⟨hf, h1, h2⟩ | ⟨hf, h1⟩ | ⟨hf, h1⟩ | ⟨hf, h1⟩ | ⟨hf, h1⟩ | ⟨hf, h1, h2⟩ | ⟨hf, h1⟩
  · unfold utf8Valid at hv
    simp [hf, show ¬ b.toNat < 128 by omega] at hv
  · -- two bytes
    unfold utf8Valid at hv
    simp only [hf, show ¬ b.toNat < 128 by omega, ↓reduceIte] at hv
    match t, hv with
    | [], hv => simp at hv
    | c1 :: t1, hv =>
      simp [acceptLo, acceptHi] at hv
      have hc1 := c1.toNat_lt
      refine ⟨(b.toNat % 32) * 64 + c1.toNat % 64, t1, ?_, by omega, ?_, hv.2, ?_, ?_⟩
      · unfold isScalar; omega
      · rw [encodeRune2 _ (by omega) (by omega)]
        simp only [List.cons_append, List.nil_append]
        rw [byteOf_eq (b := b) (by omega), byteOf_eq (b := c1) (by omega)]
      · rw [encodeRune2 _ (by omega) (by omega)]
        unfold decodeRune
        simp [hf, acceptLo, acceptHi]
        rw [if_neg (by omega), if_neg (by omega)]
      · rw [encodeRune2 _ (by omega) (by omega)]; simp
  iterate 3
    · unfold utf8Valid at hv
      simp only [hf, show ¬ b.toNat < 128 by omega, ↓reduceIte] at hv
      match t, hv with
      | [], hv => simp at hv
      | [c1], hv => simp at hv
      | c1 :: c2 :: t2, hv =>
        simp [acceptLo, acceptHi, notCont] at hv
        have hc1 := c1.toNat_lt
        have hc2 := c2.toNat_lt
        refine ⟨(b.toNat % 16) * 4096 + (c1.toNat % 64) * 64 + c2.toNat % 64, t2, ?_, by omega, ?_, hv.2.2, ?_, ?_⟩
        · unfold isScalar; omega
        · rw [encodeRune3 _ (by omega) (by omega)]
          simp only [List.cons_append, List.nil_append]
          rw [byteOf_eq (b := b) (by omega), byteOf_eq (b := c1) (by omega), byteOf_eq (b := c2) (by omega)]
        · rw [encodeRune3 _ (by omega) (by omega)]
          unfold decodeRune
          simp [hf, acceptLo, acceptHi, notCont]
          rw [if_neg (by omega), if_neg (by omega), if_neg (by omega)]
        · rw [encodeRune3 _ (by omega) (by omega)]; simp
  iterate 3
    · unfold utf8Valid at hv
      simp only [hf, show ¬ b.toNat < 128 by omega, ↓reduceIte] at hv
      match t, hv with
      | [], hv => simp at hv
      | [c1], hv => simp at hv
      | [c1, c2], hv => simp at hv
      | c1 :: c2 :: c3 :: t3, hv =>
        simp [acceptLo, acceptHi, notCont] at hv
        have hc1 := c1.toNat_lt
        have hc2 := c2.toNat_lt
        have hc3 := c3.toNat_lt
        refine ⟨(b.toNat % 8) * 262144 + (c1.toNat % 64) * 4096 + (c2.toNat % 64) * 64 + c3.toNat % 64, t3, ?_, by omega, ?_,
          hv.2.2.2, ?_, ?_⟩
        · unfold isScalar; omega
        · rw [encodeRune4 _ (by omega) (by omega)]
          simp only [List.cons_append, List.nil_append]
          rw [byteOf_eq (b := b) (by omega), byteOf_eq (b := c1) (by omega), byteOf_eq (b := c2) (by omega),
            byteOf_eq (b := c3) (by omega)]
        · rw [encodeRune4 _ (by omega) (by omega)]
          unfold decodeRune
          simp [hf, acceptLo, acceptHi, notCont]
          rw [if_neg (by omega), if_neg (by omega), if_neg (by omega), if_neg (by omega)]
        · rw [encodeRune4 _ (by omega) (by omega)]; simp

theorem valid_ascii (b : UInt8) (t : Bytes) (h : b.toNat < 0x80) : utf8Valid (b :: t) = utf8Valid t := by
  rw [utf8Valid]; simp [h]

theorem encodeRune_ascii (b : UInt8) (h : b.toNat < 0x80) : encodeRune b.toNat = [b] := by
  unfold encodeRune
  rw [if_pos (by omega), byteOf_eq (b := b) (by have := b.toNat_lt; omega)]

/-- Unicode's definition of well-formed UTF-8: a concatenation of encoded scalar values -/
inductive WellFormedUtf8 : Bytes → Prop
  | nil : WellFormedUtf8 []
  | cons (c : Nat) (t : Bytes) : isScalar c → WellFormedUtf8 t → WellFormedUtf8 (encodeRune c ++ t)

theorem encodeRune_length_pos (c : Nat) : 1 ≤ (encodeRune c).length := by
  unfold encodeRune; repeat' split
  all_goals simp

theorem wellFormed_of_valid (n : Nat) : ∀ s : Bytes, s.length ≤ n → utf8Valid s = true → WellFormedUtf8 s := by
  induction n with
  | zero => intro s hl _; have : s = [] := List.eq_nil_of_length_eq_zero (by omega); subst this; exact .nil
  | succ n ih =>
    intro s hl hv
    match s, hl, hv with
    | [], _, _ => exact .nil
    | b :: t, hl, hv =>
      by_cases hb : b.toNat < 0x80
      · rw [valid_ascii b t hb] at hv
        have := WellFormedUtf8.cons b.toNat t (by unfold isScalar; omega) (ih t (by simp at hl; omega) hv)
        rwa [encodeRune_ascii b hb] at this
      · obtain ⟨c, rest, hs, _, he, hvr, _, h2⟩ := valid_multibyte b t (by omega) hv
        rw [he]
        refine .cons c rest hs (ih rest ?_ hvr)
        have : (b :: t).length = (encodeRune c ++ rest).length := by rw [he]
        simp at this hl; omega

/-- Go's `utf8.Valid` decides exactly Unicode well-formedness -/
theorem utf8Valid_iff (s : Bytes) : utf8Valid s = true ↔ WellFormedUtf8 s := by
  constructor
  · exact wellFormed_of_valid s.length s (Nat.le_refl _)
  · intro h
    induction h with
    | nil => rfl
    | cons c t hs _ ih => rw [(encode_spec c hs t).1]; exact ih

end TLVerif.Jsonp
