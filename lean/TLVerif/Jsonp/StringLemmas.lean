import TLVerif.Jsonp.Reader
import TLVerif.Jsonp.Base64Lemmas
/-! Lemmas about the string writer and the string reader: RFC 8259 grammar and denotation of what
`JSONWriteString` emits, `jlexer` unescaping against the RFC denotation, the full write/read round trip. -/
namespace TLVerif.Jsonp
open TLVerif.Facts.Jsonp

/-! T1 side conditions on the regenerated tables -/
set_option maxRecDepth 4000 in
theorem safe_plain : ∀ n, n < 128 → safe n = true → 0x20 ≤ n ∧ n ≠ 0x22 ∧ n ≠ 0x5C := by decide

theorem hexChar_val : ∀ n, n < 16 → hexVal4 (hexChar n) = some n := by decide

theorem b64Start_eq : b64Start = [0x7B, 0x22, 0x62, 0x61, 0x73, 0x65, 0x36, 0x34, 0x22, 0x3A, 0x22] := by decide
theorem b64End_eq : b64End = [0x22, 0x7D] := by decide

/-- value of a two-character escape `\e` (RFC 8259 section 7) -/
def escValue (e : UInt8) : Option Nat :=
  if e = 0x22 then some 0x22 else if e = 0x5C then some 0x5C else if e = 0x2F then some 0x2F
  else if e = 0x62 then some 8 else if e = 0x66 then some 12 else if e = 0x6E then some 10
  else if e = 0x72 then some 13 else if e = 0x74 then some 9 else none

/-- RFC 8259 section 7, semantics: the string body `raw` (between the quotes) denotes the UTF-8 text `u`.
Escapes of unpaired surrogates denote nothing. -/
inductive JDec : Bytes → Bytes → Prop
  | nil : JDec [] []
  | plain (b : UInt8) (t u : Bytes) : plainByte b → JDec t u → JDec (b :: t) (b :: u)
  | multi (c : Nat) (t u : Bytes) : isScalar c → 0x80 ≤ c → JDec t u → JDec (encodeRune c ++ t) (encodeRune c ++ u)
  | esc (e : UInt8) (v : Nat) (t u : Bytes) : escValue e = some v → JDec t u → JDec (0x5C :: e :: t) (byteOf v :: u)
  | uesc (h1 h2 h3 h4 : UInt8) (x1 x2 x3 x4 : Nat) (t u : Bytes) :
      hexVal4 h1 = some x1 → hexVal4 h2 = some x2 → hexVal4 h3 = some x3 → hexVal4 h4 = some x4 →
      isSurrogate (((x1 * 16 + x2) * 16 + x3) * 16 + x4) = false → JDec t u →
      JDec (0x5C :: 0x75 :: h1 :: h2 :: h3 :: h4 :: t) (encodeRune (((x1 * 16 + x2) * 16 + x3) * 16 + x4) ++ u)
  | upair (h1 h2 h3 h4 l1 l2 l3 l4 : UInt8) (x1 x2 x3 x4 y1 y2 y3 y4 : Nat) (t u : Bytes) :
      hexVal4 h1 = some x1 → hexVal4 h2 = some x2 → hexVal4 h3 = some x3 → hexVal4 h4 = some x4 →
      hexVal4 l1 = some y1 → hexVal4 l2 = some y2 → hexVal4 l3 = some y3 → hexVal4 l4 = some y4 →
      0xD800 ≤ ((x1 * 16 + x2) * 16 + x3) * 16 + x4 → ((x1 * 16 + x2) * 16 + x3) * 16 + x4 < 0xDC00 →
      0xDC00 ≤ ((y1 * 16 + y2) * 16 + y3) * 16 + y4 → ((y1 * 16 + y2) * 16 + y3) * 16 + y4 < 0xE000 →
      JDec t u →
      JDec (0x5C :: 0x75 :: h1 :: h2 :: h3 :: h4 :: 0x5C :: 0x75 :: l1 :: l2 :: l3 :: l4 :: t)
        (encodeRune ((((x1 * 16 + x2) * 16 + x3) * 16 + x4 - 0xD800) * 1024
          + (((y1 * 16 + y2) * 16 + y3) * 16 + y4 - 0xDC00) + 0x10000) ++ u)

/-- RFC 8259 section 7, grammar: `*char` over UTF-8 bytes -/
inductive JChars : Bytes → Prop
  | nil : JChars []
  | plain (b : UInt8) (t : Bytes) : plainByte b → JChars t → JChars (b :: t)
  | multi (c : Nat) (t : Bytes) : isScalar c → 0x80 ≤ c → JChars t → JChars (encodeRune c ++ t)
  | esc (e : UInt8) (v : Nat) (t : Bytes) : escValue e = some v → JChars t → JChars (0x5C :: e :: t)
  | uesc (h1 h2 h3 h4 : UInt8) (x1 x2 x3 x4 : Nat) (t : Bytes) :
      hexVal4 h1 = some x1 → hexVal4 h2 = some x2 → hexVal4 h3 = some x3 → hexVal4 h4 = some x4 →
      JChars t → JChars (0x5C :: 0x75 :: h1 :: h2 :: h3 :: h4 :: t)

/-- a JSON string: quotation-mark *char quotation-mark -/
def IsJsonString (bs : Bytes) : Prop := ∃ body, bs = 0x22 :: (body ++ [0x22]) ∧ JChars body

theorem JDec.chars {raw u : Bytes} (h : JDec raw u) : JChars raw := by
  induction h with
  | nil => exact .nil
  | plain b t u hb _ ih => exact .plain b t hb ih
  | multi c t u hs hc _ ih => exact .multi c t hs hc ih
  | esc e v t u he _ ih => exact .esc e v t he ih
  | uesc h1 h2 h3 h4 x1 x2 x3 x4 t u a1 a2 a3 a4 _ _ ih => exact .uesc h1 h2 h3 h4 x1 x2 x3 x4 t a1 a2 a3 a4 ih
  | upair h1 h2 h3 h4 l1 l2 l3 l4 x1 x2 x3 x4 y1 y2 y3 y4 t u a1 a2 a3 a4 b1 b2 b3 b4 _ _ _ _ _ ih =>
    exact .uesc h1 h2 h3 h4 x1 x2 x3 x4 _ a1 a2 a3 a4 (.uesc l1 l2 l3 l4 y1 y2 y3 y4 t b1 b2 b3 b4 ih)


theorem ne_of_toNat_ne {a b : UInt8} (h : a.toNat ≠ b.toNat) : a ≠ b := fun e => h (by rw [e])

theorem beq_false_of_toNat_ne {a b : UInt8} (h : a.toNat ≠ b.toNat) : (a == b) = false := by
  simp; exact ne_of_toNat_ne h

/-- the escape emitted for a non-safe ASCII byte denotes that byte -/
theorem escAscii_denotes (b : UInt8) (hb : b.toNat < 0x80) (t u : Bytes) (h : JDec t u) :
    JDec (0x5C :: (escAscii b ++ t)) (b :: u) := by
  unfold escAscii
  by_cases h1 : b = 0x5C
  · subst h1; exact .esc 0x5C 0x5C t u (by decide) h
  by_cases h2 : b = 0x22
  · subst h2; exact .esc 0x22 0x22 t u (by decide) h
  by_cases h3 : b = 0x0A
  · subst h3; exact .esc 0x6E 10 t u (by decide) h
  by_cases h4 : b = 0x0D
  · subst h4; exact .esc 0x72 13 t u (by decide) h
  by_cases h5 : b = 0x09
  · subst h5; exact .esc 0x74 9 t u (by decide) h
  simp [h1, h2, h3, h4, h5]
  have := JDec.uesc 0x30 0x30 (hexChar (b.toNat / 16)) (hexChar (b.toNat % 16)) 0 0 (b.toNat / 16) (b.toNat % 16) t u
    (by decide) (by decide) (hexChar_val _ (by omega)) (hexChar_val _ (by omega))
    (by unfold isSurrogate; simp; omega) h
  have e : ((0 * 16 + 0) * 16 + b.toNat / 16) * 16 + b.toNat % 16 = b.toNat := by omega
  rw [e, encodeRune_ascii b hb] at this
  simpa using this


theorem split_prefix (b : UInt8) (t e rest : Bytes) (he : b :: t = e ++ rest) (h : 1 ≤ e.length) :
    t.drop (e.length - 1) = rest ∧ b :: t.take (e.length - 1) = e := by
  cases e with
  | nil => simp at h
  | cons x e' =>
    simp only [List.cons_append, List.cons.injEq] at he
    obtain ⟨rfl, rfl⟩ := he
    simp

theorem escape_denotes_aux (n : Nat) : ∀ s : Bytes, s.length ≤ n → utf8Valid s = true → JDec (escapeLoop s) s := by
  induction n with
  | zero =>
    intro s hl _
    have : s = [] := List.eq_nil_of_length_eq_zero (by omega)
    subst this; rw [escapeLoop]; exact .nil
  | succ n ih =>
    intro s hl hv
    match s, hl, hv with
    | [], _, _ => rw [escapeLoop]; exact .nil
    | b :: t, hl, hv =>
      have hlt : t.length ≤ n := by simp at hl; omega
      rw [escapeLoop]
      by_cases hb : b.toNat < 0x80
      · rw [if_pos hb]
        rw [valid_ascii b t hb] at hv
        by_cases hs : safe b.toNat = true
        · rw [if_pos hs]
          have := safe_plain b.toNat hb hs
          exact .plain b _ _ ⟨this.1, hb, this.2.1, this.2.2⟩ (ih t hlt hv)
        · rw [if_neg hs]
          exact escAscii_denotes b hb _ _ (ih t hlt hv)
      · rw [if_neg hb]
        obtain ⟨c, rest, hs, hc, he, hvr, hd, h2⟩ := valid_multibyte b t (by omega) hv
        obtain ⟨hdrop, htake⟩ := split_prefix b t _ rest he (by omega)
        have hrl : rest.length ≤ n := by
          have : (b :: t).length = (encodeRune c ++ rest).length := by rw [he]
          simp at this hl; omega
        simp only [hd]
        rw [if_neg (by omega)]
        by_cases hl2 : c = 0x2028 ∨ c = 0x2029
        · rw [if_pos hl2, hdrop, he]
          have := JDec.uesc 0x32 0x30 0x32 (hexChar (c % 16)) 2 0 2 (c % 16) _ _
            (by decide) (by decide) (by decide) (hexChar_val _ (by omega))
            (by unfold isSurrogate; simp; omega) (ih rest hrl hvr)
          have e : ((2 * 16 + 0) * 16 + 2) * 16 + c % 16 = c := by omega
          rw [e] at this
          simpa using this
        · rw [if_neg hl2, hdrop]
          have := JDec.multi c _ _ hs hc (ih rest hrl hvr)
          rw [← he] at this
          rw [← htake] at this
          simpa using this

/-- for valid UTF-8, what the escaping loop emits denotes (RFC 8259) exactly the input text -/
theorem escape_denotes (s : Bytes) (hv : utf8Valid s = true) : JDec (escapeLoop s) s :=
  escape_denotes_aux s.length s (Nat.le_refl _) hv


/-! ### the jlexer model on RFC-conformant string bodies -/

theorem unescape_cons_plain (b : UInt8) (t : Bytes) (hb : b ≠ 0x5C) :
    unescape (b :: t) = (unescape t).map (b :: ·) := by
  rw [unescape]
  simp [hb]
  cases unescape t <;> rfl

theorem unescape_plain_prefix (p t u : Bytes) (hp : ∀ b ∈ p, b ≠ 0x5C) (h : unescape t = some u) :
    unescape (p ++ t) = some (p ++ u) := by
  induction p with
  | nil => simpa using h
  | cons b p ih =>
    rw [List.cons_append, unescape_cons_plain b _ (hp b (by simp)), ih (fun x hx => hp x (by simp [hx]))]
    rfl

theorem encodeRune_high (c : Nat) (hs : isScalar c) (hc : 0x80 ≤ c) : ∀ b ∈ encodeRune c, 0x80 ≤ b.toNat := by
  unfold isScalar at hs
  intro b hb
  by_cases h2 : c ≤ 0x7FF
  · rw [encodeRune2 c hc h2] at hb
    simp only [List.mem_cons, List.not_mem_nil, or_false] at hb
    rcases hb with rfl | rfl <;> (rw [byteOf_toNat]; omega)
  by_cases h3 : c ≤ 0xFFFF
  · rw [encodeRune3 c (by omega) (by omega)] at hb
    simp only [List.mem_cons, List.not_mem_nil, or_false] at hb
    rcases hb with rfl | rfl | rfl <;> (rw [byteOf_toNat]; omega)
  · rw [encodeRune4 c (by omega) (by omega)] at hb
    simp only [List.mem_cons, List.not_mem_nil, or_false] at hb
    rcases hb with rfl | rfl | rfl | rfl <;> (rw [byteOf_toNat]; omega)

theorem escValue_decode (e : UInt8) (v : Nat) (t : Bytes) (h : escValue e = some v) :
    decodeEscape (0x5C :: e :: t) = some (v, 2) ∧ v < 0x80 := by
  unfold escValue at h
  unfold decodeEscape
  repeat' split at h
  all_goals first | (subst_vars; simp at h; subst h; simp) | simp at h

/-- `jlexer`'s unescaping computes the RFC 8259 denotation -/
theorem unescape_of_denotes {raw u : Bytes} (h : JDec raw u) : unescape raw = some u := by
  induction h with
  | nil => rw [unescape]
  | plain b t u hb _ ih =>
    rw [unescape_cons_plain b t (ne_of_toNat_ne hb.2.2.2), ih]; rfl
  | multi c t u hs hc _ ih =>
    exact unescape_plain_prefix _ _ _ (fun b hb => ne_of_toNat_ne (by have := encodeRune_high c hs hc b hb; simp; omega)) ih
  | esc e v t u he _ ih =>
    obtain ⟨hd, hv⟩ := escValue_decode e v t he
    rw [unescape]
    simp only [beq_self_eq_true, ↓reduceIte, hd, Nat.add_one_sub_one, List.drop_succ_cons, List.drop_zero, ih]
    unfold encodeRune; rw [if_pos (by omega)]; rfl
  | uesc h1 h2 h3 h4 x1 x2 x3 x4 t u a1 a2 a3 a4 hsur _ ih =>
    rw [unescape]
    have hd : decodeEscape (0x5C :: 0x75 :: h1 :: h2 :: h3 :: h4 :: t) = some (((x1 * 16 + x2) * 16 + x3) * 16 + x4, 6) := by
      simp [decodeEscape, getu4, a1, a2, a3, a4, hsur]
    simp [hd, ih]
  | upair h1 h2 h3 h4 l1 l2 l3 l4 x1 x2 x3 x4 y1 y2 y3 y4 t u a1 a2 a3 a4 b1 b2 b3 b4 c1 c2 c3 c4 _ ih =>
    rw [unescape]
    have hd : decodeEscape (0x5C :: 0x75 :: h1 :: h2 :: h3 :: h4 :: 0x5C :: 0x75 :: l1 :: l2 :: l3 :: l4 :: t) =
        some ((((x1 * 16 + x2) * 16 + x3) * 16 + x4 - 0xD800) * 1024
          + (((y1 * 16 + y2) * 16 + y3) * 16 + y4 - 0xDC00) + 0x10000, 12) := by
      have hs : isSurrogate (((x1 * 16 + x2) * 16 + x3) * 16 + x4) = true := by unfold isSurrogate; simp; omega
      simp [decodeEscape, getu4, a1, a2, a3, a4, b1, b2, b3, b4, hs, utf16Decode, c1, c2, c3, c4, runeError]
    simp [hd, ih]


theorem scan_plain (b : UInt8) (t : Bytes) (h1 : b ≠ 0x22) (h2 : b ≠ 0x5C) :
    scanString (b :: t) = (scanString t).map (fun p => (b :: p.1, p.2)) := by
  rw [scanString.eq_def]
  simp [h1, h2]
  cases scanString t <;> rfl

theorem scan_pair (c : UInt8) (t : Bytes) :
    scanString (0x5C :: c :: t) = (scanString t).map (fun p => (0x5C :: c :: p.1, p.2)) := by
  rw [scanString.eq_def]
  simp
  cases scanString t <;> rfl

theorem scan_plain_prefix (p t raw rest : Bytes) (hp : ∀ b ∈ p, b ≠ 0x22 ∧ b ≠ 0x5C) (h : scanString t = some (raw, rest)) :
    scanString (p ++ t) = some (p ++ raw, rest) := by
  induction p with
  | nil => simpa using h
  | cons b p ih =>
    rw [List.cons_append, scan_plain b _ (hp b (by simp)).1 (hp b (by simp)).2, ih (fun x hx => hp x (by simp [hx]))]
    rfl

theorem hex_plain (h : UInt8) (x : Nat) (hx : hexVal4 h = some x) : h ≠ 0x22 ∧ h ≠ 0x5C := by
  have e1 : hexVal4 0x22 = none := by decide
  have e2 : hexVal4 0x5C = none := by decide
  constructor <;> (intro e; subst e; simp_all)

/-- `fetchString` finds the closing quote of an RFC-conformant string body -/
theorem scan_of_chars {raw : Bytes} (h : JChars raw) (rest : Bytes) :
    scanString (raw ++ 0x22 :: rest) = some (raw, rest) := by
  induction h with
  | nil => rw [scanString.eq_def]; simp
  | plain b t hb _ ih =>
    rw [List.cons_append, scan_plain b _ (ne_of_toNat_ne hb.2.2.1) (ne_of_toNat_ne hb.2.2.2), ih]; rfl
  | multi c t hs hc _ ih =>
    rw [List.append_assoc]
    exact scan_plain_prefix _ _ _ _ (fun b hb => by
      have := encodeRune_high c hs hc b hb
      exact ⟨ne_of_toNat_ne (by simp; omega), ne_of_toNat_ne (by simp; omega)⟩) ih
  | esc e v t _ _ ih =>
    rw [List.cons_append, List.cons_append, scan_pair, ih]; rfl
  | uesc h1 h2 h3 h4 x1 x2 x3 x4 t a1 a2 a3 a4 _ ih =>
    simp only [List.cons_append]
    rw [scan_pair, scan_plain h1 _ (hex_plain h1 x1 a1).1 (hex_plain h1 x1 a1).2,
      scan_plain h2 _ (hex_plain h2 x2 a2).1 (hex_plain h2 x2 a2).2,
      scan_plain h3 _ (hex_plain h3 x3 a3).1 (hex_plain h3 x3 a3).2,
      scan_plain h4 _ (hex_plain h4 x4 a4).1 (hex_plain h4 x4 a4).2, ih]
    rfl


theorem writeString_valid (s : Bytes) (hv : utf8Valid s = true) : writeString s = 0x22 :: (escapeLoop s ++ [0x22]) := by
  unfold writeString; simp [hv]

theorem writeString_invalid (s : Bytes) (hv : utf8Valid s = false) :
    writeString s = [0x7B, 0x22, 0x62, 0x61, 0x73, 0x65, 0x36, 0x34, 0x22, 0x3A, 0x22] ++ b64encode s ++ [0x22, 0x7D] := by
  unfold writeString; simp [hv, b64Start_eq, b64End_eq]

theorem unescape_plain (p : Bytes) (hp : ∀ b ∈ p, b ≠ 0x5C) : unescape p = some p := by
  have := unescape_plain_prefix p [] [] hp (by rw [unescape])
  simpa using this

theorem readString_valid (s rest : Bytes) (hv : utf8Valid s = true) :
    readString (writeString s ++ rest) = .ok s (writeString s).length := by
  have hd := escape_denotes s hv
  have hscan := scan_of_chars hd.chars rest
  have hun := unescape_of_denotes hd
  rw [writeString_valid s hv]
  unfold readString
  simp only [List.cons_append, List.append_assoc, List.nil_append]
  rw [fetchToken]
  simp [isWS, hscan, hun]
  omega


theorem plain_ne (c : UInt8) (h : plainByte c) : c ≠ 0x22 ∧ c ≠ 0x5C :=
  ⟨ne_of_toNat_ne h.2.2.1, ne_of_toNat_ne h.2.2.2⟩

/-- the base64 object form is accepted for any content (valid UTF-8 or not) -/
theorem readString_b64_form (s rest : Bytes) :
    readString ([0x7B, 0x22, 0x62, 0x61, 0x73, 0x65, 0x36, 0x34, 0x22, 0x3A, 0x22] ++ b64encode s ++ [0x22, 0x7D] ++ rest)
      = .ok s (([0x7B, 0x22, 0x62, 0x61, 0x73, 0x65, 0x36, 0x34, 0x22, 0x3A, 0x22] ++ b64encode s ++ [0x22, 0x7D] : Bytes)).length := by
  have hp := b64encode_plain s
  have hscan : scanString (b64encode s ++ 0x22 :: 0x7D :: rest) = some (b64encode s, 0x7D :: rest) := by
    have := scan_plain_prefix (b64encode s) (0x22 :: 0x7D :: rest) [] (0x7D :: rest) (fun b hb => plain_ne b (hp b hb))
      (by rw [scanString.eq_def]; simp)
    simpa using this
  have hun : unescape (b64encode s) = some (b64encode s) := unescape_plain _ (fun b hb => (plain_ne b (hp b hb)).2)
  have hb64 := b64_roundtrip s
  have hkey : scanString (0x62 :: 0x61 :: 0x73 :: 0x65 :: 0x36 :: 0x34 :: 0x22 :: 0x3A :: 0x22 :: (b64encode s ++ 0x22 :: 0x7D :: rest))
      = some ([0x62, 0x61, 0x73, 0x65, 0x36, 0x34], 0x3A :: 0x22 :: (b64encode s ++ 0x22 :: 0x7D :: rest)) := by
    have := scan_plain_prefix [0x62, 0x61, 0x73, 0x65, 0x36, 0x34] (0x22 :: 0x3A :: 0x22 :: (b64encode s ++ 0x22 :: 0x7D :: rest)) []
      (0x3A :: 0x22 :: (b64encode s ++ 0x22 :: 0x7D :: rest)) (by decide) (by rw [scanString.eq_def]; simp)
    simpa using this
  unfold readString
  simp only [List.cons_append, List.append_assoc, List.nil_append]
  rw [fetchToken]
  simp [isWS]
  rw [readB64Object, fetchToken]
  simp [isWS, hkey]
  rw [fetchToken, fetchToken]
  simp [isWS, hscan, hun, hb64]
  rw [readB64Object, fetchToken]
  simp [isWS]
  omega

theorem readString_invalid (s rest : Bytes) (hv : utf8Valid s = false) :
    readString (writeString s ++ rest) = .ok s (writeString s).length := by
  rw [writeString_invalid s hv]; exact readString_b64_form s rest

/-- C34 (strings): the generated reader, run on what `JSONWriteString` wrote followed by anything, returns exactly the
written bytes and stops right after them — for every byte string -/
theorem readString_writeString (s rest : Bytes) : readString (writeString s ++ rest) = .ok s (writeString s).length := by
  cases hv : utf8Valid s
  · exact readString_invalid s rest hv
  · exact readString_valid s rest hv

/-! ### the Go loop with `start`/`i` bookkeeping refines to the per-byte loop -/

theorem decodeRune_size_pos (b : UInt8) (t : Bytes) : 1 ≤ (decodeRune (b :: t)).2 := by
  unfold decodeRune
  simp only
  repeat' split
  all_goals simp

theorem take_pending (run : Bytes) (n : Nat) : (if 0 < n then run.take n else []) = run.take n := by
  by_cases h : 0 < n
  · rw [if_pos h]
  · have : n = 0 := by omega
    subst this; simp

theorem escapeGo_eq_aux (k : Nat) : ∀ (cur run : Bytes) (n : Nat), cur.length ≤ k → cur = run.drop n →
    escapeGo run n cur = run.take n ++ escapeLoop cur := by
  induction k with
  | zero =>
    intro cur run n hl hc
    have : cur = [] := List.eq_nil_of_length_eq_zero (by omega)
    subst this
    rw [escapeGo, escapeLoop]
    have ht : run.take n = run := by
      have := List.take_append_drop n run
      rw [← hc] at this; simpa using this
    rw [ht]
    by_cases hr : run = [] <;> simp [hr]
  | succ k ih =>
    intro cur run n hl hc
    match cur, hl, hc with
    | [], _, hc =>
      rw [escapeGo, escapeLoop]
      have ht : run.take n = run := by
        have := List.take_append_drop n run
        rw [← hc] at this; simpa using this
      rw [ht]
      by_cases hr : run = [] <;> simp [hr]
    | b :: t, hl, hc =>
      have hlt : t.length ≤ k := by simp at hl; omega
      have hsplit : ∀ m, run.take (n + m) = run.take n ++ (b :: t).take m := by
        intro m; rw [List.take_add, ← hc]
      have hdrop : ∀ m, run.drop (n + m) = (b :: t).drop m := by
        intro m; rw [← List.drop_drop, ← hc]
      rw [escapeGo, escapeLoop]
      by_cases hb : b.toNat < 0x80
      · rw [if_pos hb, if_pos hb]
        by_cases hs : safe b.toNat = true
        · rw [if_pos hs, if_pos hs, ih t run (n + 1) hlt (by rw [hdrop 1]; rfl), hsplit 1]
          simp
        · rw [if_neg hs, if_neg hs, take_pending, ih t t 0 hlt rfl]
          simp
      · rw [if_neg hb, if_neg hb]
        simp only
        have hpos := decodeRune_size_pos b t
        by_cases h1 : (decodeRune (b :: t)).1 = runeError ∧ (decodeRune (b :: t)).2 = 1
        · rw [if_pos h1, if_pos h1, take_pending, ih t t 0 hlt rfl]; simp
        · rw [if_neg h1, if_neg h1]
          have hdl : (t.drop ((decodeRune (b :: t)).2 - 1)).length ≤ k := by
            rw [List.length_drop]; omega
          by_cases h2 : (decodeRune (b :: t)).1 = 0x2028 ∨ (decodeRune (b :: t)).1 = 0x2029
          · rw [if_pos h2, if_pos h2, take_pending, ih _ _ 0 hdl rfl]; simp
          · rw [if_neg h2, if_neg h2]
            obtain ⟨m, hm⟩ : ∃ m, (decodeRune (b :: t)).2 = m + 1 := ⟨(decodeRune (b :: t)).2 - 1, by omega⟩
            rw [hm] at hdl ⊢
            simp only [Nat.add_one_sub_one] at hdl ⊢
            rw [ih (t.drop m) run (n + (m + 1)) hdl (by rw [hdrop (m + 1)]; rfl), hsplit (m + 1)]
            simp

/-- the Go loop with its `start`/`i` bookkeeping emits exactly what the per-byte loop emits -/
theorem escapeGo_eq (s : Bytes) : escapeGo s 0 s = escapeLoop s := by
  have := escapeGo_eq_aux s.length s s 0 (Nat.le_refl _) rfl
  simpa using this

theorem writeStringGo_eq (s : Bytes) : writeStringGo s = writeString s := by
  unfold writeStringGo writeString
  rw [escapeGo_eq]

end TLVerif.Jsonp
