import TLVerif.Jsonp.StringLemmas
/-! Lemmas about the integer writers and readers: decimal print/parse round trip for all values. -/
namespace TLVerif.Jsonp

def digitsVal (s : Bytes) : Nat := s.foldl (fun acc c => acc * 10 + (c.toNat - 48)) 0

theorem digitsVal_append_single (s : Bytes) (c : UInt8) : digitsVal (s ++ [c]) = digitsVal s * 10 + (c.toNat - 48) := by
  simp [digitsVal, List.foldl_append]

theorem isDigit_byteOf (d : Nat) (h : d < 10) : isDigit (byteOf (48 + d)) = true := by
  simp [isDigit, byteOf_toNat]; omega

theorem formatUint_spec (n : Nat) : (formatUint n).all isDigit = true ∧ digitsVal (formatUint n) = n ∧ formatUint n ≠ [] := by
  induction n using Nat.strongRecOn with
  | _ n ih =>
    rw [formatUint]
    split
    · rename_i h
      refine ⟨?_, ?_, by simp⟩
      · simp [isDigit_byteOf n h]
      · simp [digitsVal, byteOf_toNat]; omega
    · rename_i h
      obtain ⟨h1, h2, h3⟩ := ih (n / 10) (by omega)
      refine ⟨?_, ?_, by simp⟩
      · simp only [List.all_append, h1, Bool.true_and]
        simp [isDigit_byteOf (n % 10) (by omega)]
      · rw [digitsVal_append_single, h2, byteOf_toNat]; omega

theorem parseUint_formatUint (n bits : Nat) (h : n < 2 ^ bits) : parseUint (formatUint n) bits = some n := by
  obtain ⟨h1, h2, h3⟩ := formatUint_spec n
  unfold parseUint
  have : (formatUint n).isEmpty = false := by simpa using h3
  rw [this]
  simp only [Bool.false_eq_true, ↓reduceIte, h1]
  change (if digitsVal (formatUint n) < 2 ^ bits then some (digitsVal (formatUint n)) else none) = some n
  rw [h2]; simp [h]

theorem digit_facts (c : UInt8) (h : isDigit c = true) :
    c ≠ 0x3A ∧ c ≠ 0x2C ∧ isWS c = false ∧ c ≠ 0x22 ∧ c ≠ 0x7B ∧ c ≠ 0x5B ∧ c ≠ 0x7D ∧ c ≠ 0x5D ∧ c ≠ 0x5C := by
  simp [isDigit] at h
  refine ⟨?_, ?_, ?_, ?_, ?_, ?_, ?_, ?_, ?_⟩
  all_goals first
    | (apply ne_of_toNat_ne; simp; omega)
    | (simp only [isWS, Bool.or_eq_false_iff]
       refine ⟨⟨⟨?_, ?_⟩, ?_⟩, ?_⟩ <;> (apply beq_false_of_toNat_ne; simp; omega))

theorem tokenEnd_facts (e : UInt8) (h : isTokenEnd e = true) :
    isDigit e = false ∧ e ≠ 0x2E ∧ e ≠ 0x65 ∧ e ≠ 0x45 ∧ e ≠ 0x2B ∧ e ≠ 0x2D := by
  simp only [isTokenEnd, Bool.or_eq_true, beq_iff_eq] at h
  rcases h with ((((((((h | h) | h) | h) | h) | h) | h) | h) | h) | h <;> (subst h; decide)

theorem scanNumber_digits (ds rest : Bytes) (hd : ds.all isDigit = true) (hasE hasDot : Bool) :
    scanNumber hasE false hasDot (ds ++ rest) =
      (ds ++ (scanNumber hasE false hasDot rest).1, (scanNumber hasE false hasDot rest).2) := by
  induction ds with
  | nil => simp
  | cons d ds ih =>
    simp only [List.all_cons, Bool.and_eq_true] at hd
    simp [scanNumber, hd.1, ih hd.2]

theorem scanNumber_end (rest : Bytes) (hr : rest = [] ∨ ∃ e r, rest = e :: r ∧ isTokenEnd e = true) (hasE hasDot : Bool) :
    scanNumber hasE false hasDot rest = ([], rest) := by
  rcases hr with rfl | ⟨e, r, rfl, he⟩
  · simp [scanNumber]
  · obtain ⟨h1, h2, h3, h4, h5, h6⟩ := tokenEnd_facts e he
    simp [scanNumber, h1, h2, h3, h4]

/-- a number token made of digits (optionally after a minus sign) is lexed whole -/
theorem readNumberText_digits (ds rest : Bytes) (hd : ds.all isDigit = true) (hne : ds ≠ [])
    (hr : rest = [] ∨ ∃ e r, rest = e :: r ∧ isTokenEnd e = true) :
    readNumberText (ds ++ rest) = some (ds, ds.length) ∧
    readNumberText (0x2D :: (ds ++ rest)) = some (0x2D :: ds, ds.length + 1) := by
  have hs := scanNumber_digits ds rest hd false false
  rw [scanNumber_end rest hr] at hs
  simp only [List.append_nil] at hs
  constructor
  · match ds, hne, hd, hs with
    | d :: ds', _, hd, _ =>
      simp only [List.all_cons, Bool.and_eq_true] at hd
      obtain ⟨f1, f2, f3, f4, f5, f6, f7, f8, _⟩ := digit_facts d hd.1
      have hs' := scanNumber_digits ds' rest hd.2 false false
      rw [scanNumber_end rest hr] at hs'
      simp only [List.append_nil] at hs'
      unfold readNumberText
      rw [List.cons_append, fetchToken]
      simp [f1, f2, f3, f4, f5, f6, f7, f8, hd.1, hs']
      rcases hr with rfl | ⟨e, r, rfl, he⟩
      · simp
      · simp [he]; omega
  · unfold readNumberText
    rw [fetchToken]
    simp [isWS, isDigit, hs]
    rcases hr with rfl | ⟨e, r, rfl, he⟩
    · simp
    · simp [he]; omega

/-- a quoted run of digits (optionally signed) is read as that text -/
theorem readNumberText_quoted (p rest : Bytes) (hp : ∀ b ∈ p, b ≠ 0x22 ∧ b ≠ 0x5C) :
    readNumberText (0x22 :: (p ++ 0x22 :: rest)) = some (p, p.length + 2) := by
  have hscan : scanString (p ++ 0x22 :: rest) = some (p, rest) := by
    have := scan_plain_prefix p (0x22 :: rest) [] rest hp (by rw [scanString.eq_def]; simp)
    simpa using this
  have hun := unescape_plain p (fun b hb => (hp b hb).2)
  unfold readNumberText
  rw [fetchToken]
  simp [isWS, hscan, hun]
  omega


theorem digits_plain (ds : Bytes) (hd : ds.all isDigit = true) : ∀ b ∈ ds, b ≠ 0x22 ∧ b ≠ 0x5C := by
  intro b hb
  have := digit_facts b (List.all_eq_true.mp hd b hb)
  exact ⟨this.2.2.2.1, this.2.2.2.2.2.2.2.2⟩

theorem parseInt_formatInt (bits : Nat) (v : Int) (hb1 : 1 ≤ bits) (hb2 : bits ≤ 64)
    (hlo : -(2 ^ (bits - 1) : Int) ≤ v) (hhi : v < (2 ^ (bits - 1) : Int)) :
    parseInt (formatInt v) bits = some v := by
  have hpow : (2 : Int) ^ (bits - 1) = ((2 ^ (bits - 1) : Nat) : Int) := by simp
  have hle : 2 ^ (bits - 1) < 2 ^ 64 := Nat.pow_lt_pow_right (by omega) (by omega)
  unfold formatInt
  by_cases hneg : v < 0
  · rw [if_pos hneg]
    have hn : (-v).toNat ≤ 2 ^ (bits - 1) := by omega
    unfold parseInt
    simp [parseUint_formatUint (-v).toNat 64 (by omega)]
    omega
  · rw [if_neg hneg]
    have hn : v.toNat < 2 ^ (bits - 1) := by omega
    obtain ⟨h1, _, h3⟩ := formatUint_spec v.toNat
    have hp := parseUint_formatUint v.toNat 64 (by omega)
    match hf : formatUint v.toNat, h3, h1 with
    | c :: t, _, h1 =>
      rw [hf] at hp
      simp only [List.all_cons, Bool.and_eq_true] at h1
      have hc : c ≠ 0x2B ∧ c ≠ 0x2D := by
        have := h1.1; simp [isDigit] at this
        exact ⟨ne_of_toNat_ne (by simp; omega), ne_of_toNat_ne (by simp; omega)⟩
      unfold parseInt
      simp [hc.1, hc.2, hp]
      omega

/-- C34 (unsigned integers): the text written by `JSONWriteUint32/64` is read back as the same number by
`Json2ReadUint32/64`, both as a number token (followed by the end of input or any token-ending character) and quoted -/
theorem readUint_formatUint (bits n : Nat) (h : n < 2 ^ bits) (rest : Bytes)
    (hr : rest = [] ∨ ∃ e r, rest = e :: r ∧ isTokenEnd e = true) :
    readUint bits (formatUint n ++ rest) = .ok n (formatUint n).length := by
  obtain ⟨h1, _, h3⟩ := formatUint_spec n
  unfold readUint
  rw [(readNumberText_digits _ rest h1 h3 hr).1]
  simp [parseUint_formatUint n bits h]

theorem readUint_quoted (bits n : Nat) (h : n < 2 ^ bits) (rest : Bytes) :
    readUint bits (0x22 :: (formatUint n ++ 0x22 :: rest)) = .ok n ((formatUint n).length + 2) := by
  obtain ⟨h1, _, _⟩ := formatUint_spec n
  unfold readUint
  rw [readNumberText_quoted _ rest (digits_plain _ h1)]
  simp [parseUint_formatUint n bits h]

theorem formatInt_shape (v : Int) : (v < 0 ∧ formatInt v = 0x2D :: formatUint (-v).toNat) ∨ (0 ≤ v ∧ formatInt v = formatUint v.toNat) := by
  unfold formatInt
  by_cases h : v < 0
  · left; exact ⟨h, by rw [if_pos h]⟩
  · right; exact ⟨by omega, by rw [if_neg h]⟩

/-- C34 (signed integers): same for `JSONWriteInt32/64` and `Json2ReadInt32/64` -/
theorem readInt_formatInt (bits : Nat) (v : Int) (hb1 : 1 ≤ bits) (hb2 : bits ≤ 64)
    (hlo : -(2 ^ (bits - 1) : Int) ≤ v) (hhi : v < (2 ^ (bits - 1) : Int)) (rest : Bytes)
    (hr : rest = [] ∨ ∃ e r, rest = e :: r ∧ isTokenEnd e = true) :
    readInt bits (formatInt v ++ rest) = .ok v (formatInt v).length := by
  have hp := parseInt_formatInt bits v hb1 hb2 hlo hhi
  unfold readInt
  rcases formatInt_shape v with ⟨_, hf⟩ | ⟨_, hf⟩
  · obtain ⟨h1, _, h3⟩ := formatUint_spec (-v).toNat
    rw [hf] at hp ⊢
    rw [List.cons_append, (readNumberText_digits _ rest h1 h3 hr).2]
    simp [hp]
  · obtain ⟨h1, _, h3⟩ := formatUint_spec v.toNat
    rw [hf] at hp ⊢
    rw [(readNumberText_digits _ rest h1 h3 hr).1]
    simp [hp]

theorem readInt_quoted (bits : Nat) (v : Int) (hb1 : 1 ≤ bits) (hb2 : bits ≤ 64)
    (hlo : -(2 ^ (bits - 1) : Int) ≤ v) (hhi : v < (2 ^ (bits - 1) : Int)) (rest : Bytes) :
    readInt bits (0x22 :: (formatInt v ++ 0x22 :: rest)) = .ok v ((formatInt v).length + 2) := by
  have hp := parseInt_formatInt bits v hb1 hb2 hlo hhi
  have hplain : ∀ b ∈ formatInt v, b ≠ 0x22 ∧ b ≠ 0x5C := by
    rcases formatInt_shape v with ⟨_, hf⟩ | ⟨_, hf⟩
    · rw [hf]; intro b hb
      simp only [List.mem_cons] at hb
      rcases hb with rfl | hb
      · decide
      · exact digits_plain _ (formatUint_spec _).1 b hb
    · rw [hf]; exact digits_plain _ (formatUint_spec _).1
  unfold readInt
  rw [readNumberText_quoted _ rest hplain]
  simp [hp]


/-- RFC 8259 section 6 restricted to integers: `[ minus ] int`, `int = zero / ( digit1-9 *DIGIT )` -/
def IsJsonUInt (bs : Bytes) : Prop :=
  bs = [0x30] ∨ ∃ d ds, bs = d :: ds ∧ 0x31 ≤ d.toNat ∧ d.toNat ≤ 0x39 ∧ ds.all isDigit = true

def IsJsonInt (bs : Bytes) : Prop := IsJsonUInt bs ∨ ∃ body, bs = 0x2D :: body ∧ IsJsonUInt body

theorem formatUint_json (n : Nat) : IsJsonUInt (formatUint n) ∧ (n ≠ 0 → formatUint n ≠ [0x30]) := by
  induction n using Nat.strongRecOn with
  | _ n ih =>
    rw [formatUint]
    split
    · rename_i h
      by_cases h0 : n = 0
      · subst h0; exact ⟨Or.inl rfl, fun h => absurd rfl h⟩
      · refine ⟨Or.inr ⟨byteOf (48 + n), [], rfl, ?_, ?_, rfl⟩, ?_⟩
        · rw [byteOf_toNat]; omega
        · rw [byteOf_toNat]; omega
        · intro _ he
          have : (byteOf (48 + n)).toNat = (0x30 : UInt8).toNat := by
            simp only [List.cons.injEq, and_true] at he; rw [he]
          rw [byteOf_toNat] at this; simp at this; omega
    · rename_i h
      obtain ⟨hj, hnz⟩ := ih (n / 10) (by omega)
      have hd : isDigit (byteOf (48 + n % 10)) = true := isDigit_byteOf _ (by omega)
      rcases hj with h0 | ⟨d, ds, he, h1, h2, h3⟩
      · exact absurd h0 (hnz (by omega))
      · rw [he]
        refine ⟨Or.inr ⟨d, ds ++ [byteOf (48 + n % 10)], rfl, h1, h2, ?_⟩, ?_⟩
        · simp [h3, hd]
        · intro _ hc; simp at hc

theorem formatInt_json (v : Int) : IsJsonInt (formatInt v) := by
  rcases formatInt_shape v with ⟨_, hf⟩ | ⟨_, hf⟩
  · rw [hf]; exact Or.inr ⟨_, rfl, (formatUint_json _).1⟩
  · rw [hf]; exact Or.inl (formatUint_json _).1

end TLVerif.Jsonp
