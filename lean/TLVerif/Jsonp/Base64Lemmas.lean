import TLVerif.Jsonp.Base64
import TLVerif.Jsonp.Utf8Lemmas
/-! Lemmas about the base64 model: `Decode ∘ Encode = id` for every byte string; the output alphabet. -/
namespace TLVerif.Jsonp

theorem b64char_toNat (n : Nat) (h : n < 64) :
    (b64char n).toNat = if n < 26 then 65 + n else if n < 52 then 97 + (n - 26) else if n < 62 then 48 + (n - 52)
      else if n = 62 then 43 else 47 := by
  unfold b64char
  repeat' split
  all_goals first | (rw [byteOf_toNat]; omega) | rfl

theorem b64val_char (n : Nat) (h : n < 64) : b64val (b64char n) = some n := by
  unfold b64val
  simp only [b64char_toNat n h]
  repeat' split
  all_goals first | omega | (simp only [Option.some.injEq]; omega)


theorem b64val_pad : b64val 61 = none := by decide

theorem dec_quantum (v0 v1 v2 v3 : Nat) (h0 : v0 < 64) (h1 : v1 < 64) (h2 : v2 < 64) (h3 : v3 < 64) (t : Bytes) :
    b64decodeAux (b64char v0 :: b64char v1 :: b64char v2 :: b64char v3 :: t) [] =
      match b64decodeAux t [] with
      | none => none
      | some r => some (byteOf (v0 * 4 + v1 / 16) :: byteOf (v1 % 16 * 16 + v2 / 4) :: byteOf (v2 % 4 * 64 + v3) :: r) := by
  simp [b64decodeAux, b64val_char, h0, h1, h2, h3]
  cases b64decodeAux t [] <;> rfl

theorem dec_pad2 (v0 v1 : Nat) (h0 : v0 < 64) (h1 : v1 < 64) :
    b64decodeAux [b64char v0, b64char v1, 61, 61] [] = some [byteOf (v0 * 4 + v1 / 16)] := by
  simp [b64decodeAux, b64val_char, h0, h1, b64val_pad, isNL, skipNL]

theorem dec_pad1 (v0 v1 v2 : Nat) (h0 : v0 < 64) (h1 : v1 < 64) (h2 : v2 < 64) :
    b64decodeAux [b64char v0, b64char v1, b64char v2, 61] [] =
      some [byteOf (v0 * 4 + v1 / 16), byteOf (v1 % 16 * 16 + v2 / 4)] := by
  simp [b64decodeAux, b64val_char, h0, h1, h2, b64val_pad, isNL, skipNL]

/-- base64: decoding what `StdEncoding.Encode` produced gives the bytes back, for every byte string -/
theorem b64_roundtrip (s : Bytes) : b64decode (b64encode s) = some s := by
  unfold b64decode
  induction s using b64encode.induct with
  | case1 => simp [b64encode, b64decodeAux]
  | case2 a =>
    have := a.toNat_lt
    rw [b64encode, dec_pad2 _ _ (by omega) (by omega), byteOf_eq (b := a) (by omega)]
  | case3 a b =>
    have := a.toNat_lt; have := b.toNat_lt
    rw [b64encode, dec_pad1 _ _ _ (by omega) (by omega) (by omega), byteOf_eq (b := a) (by omega),
      byteOf_eq (b := b) (by omega)]
  | case4 a b c t ih =>
    have := a.toNat_lt; have := b.toNat_lt; have := c.toNat_lt
    rw [b64encode, dec_quantum _ _ _ _ (by omega) (by omega) (by omega) (by omega), ih]
    simp only
    rw [byteOf_eq (b := a) (by omega), byteOf_eq (b := b) (by omega), byteOf_eq (b := c) (by omega)]

/-- a byte that may stand unescaped in a JSON string and is ASCII -/
def plainByte (c : UInt8) : Prop := 0x20 ≤ c.toNat ∧ c.toNat < 0x80 ∧ c.toNat ≠ 0x22 ∧ c.toNat ≠ 0x5C

theorem b64char_plain (n : Nat) (h : n < 64) : plainByte (b64char n) := by
  unfold plainByte
  rw [b64char_toNat n h]
  repeat' split
  all_goals omega

theorem b64encode_plain (s : Bytes) : ∀ c ∈ b64encode s, plainByte c := by
  have hp : plainByte 61 := by unfold plainByte; decide
  induction s using b64encode.induct with
  | case1 => simp [b64encode]
  | case2 a =>
    have := a.toNat_lt
    intro c hc
    simp only [b64encode, List.mem_cons, List.not_mem_nil, or_false] at hc
    rcases hc with rfl | rfl | rfl | rfl
    · exact b64char_plain _ (by omega)
    · exact b64char_plain _ (by omega)
    · exact hp
    · exact hp
  | case3 a b =>
    have := a.toNat_lt; have := b.toNat_lt
    intro c hc
    simp only [b64encode, List.mem_cons, List.not_mem_nil, or_false] at hc
    rcases hc with rfl | rfl | rfl | rfl
    · exact b64char_plain _ (by omega)
    · exact b64char_plain _ (by omega)
    · exact b64char_plain _ (by omega)
    · exact hp
  | case4 a b c t ih =>
    have := a.toNat_lt; have := b.toNat_lt; have := c.toNat_lt
    intro x hx
    simp only [b64encode, List.mem_cons] at hx
    rcases hx with rfl | rfl | rfl | rfl | hx
    · exact b64char_plain _ (by omega)
    · exact b64char_plain _ (by omega)
    · exact b64char_plain _ (by omega)
    · exact b64char_plain _ (by omega)
    · exact ih x hx

end TLVerif.Jsonp
