import TLVerif.Jsonp.Writer
/-!
Model of the JSON primitive *readers* that generated code uses: the `Json2ReadString`,
`Json2ReadStringBytes`, `Json2ReadUint32/Int32/Int64/Uint64` and (for the three documented special
strings only) `Json2ReadFloat32/64` helpers of `internal/puregen/gengo/qt_helpers.qtpl`, run on a fresh
`jlexer.Lexer{Data: data}`, together with the parts of `github.com/mailru/easyjson/jlexer` they call
(`FetchToken`, `fetchString`/`findStringLen`, `unescapeStringToken`/`decodeEscape`/`getu4`,
`fetchNumber`, `Delim`, `IsDelim`, `UnsafeFieldName`, `WantColon`, `WantComma`, `Bytes`) and
`strconv.ParseUint/ParseInt` in base 10.

Every lexer error is sticky (`fatalError`), and every helper reports it, so a lexer error is modelled as
`none`/`.err`; the one exception (kept): `Json2ReadString` on a string token does not look at `in.Ok()`,
so a bad escape yields a nil error with an empty value and a failed lexer: outcome `.lexerr`.

`findStringLen` looks backwards from each `"` and counts backslashes; the model scans forwards over
`\x` pairs, which finds the same closing quote.
-/
namespace TLVerif.Jsonp

/-- hex digit value as in `getu4` -/
def hexVal4 (c : UInt8) : Option Nat :=
  let n := c.toNat
  if 48 ≤ n ∧ n ≤ 57 then some (n - 48)
  else if 97 ≤ n ∧ n ≤ 102 then some (n - 97 + 10)
  else if 65 ≤ n ∧ n ≤ 70 then some (n - 65 + 10)
  else none

/-- `getu4`: `none` is `-1` -/
def getu4 (s : Bytes) : Option Nat :=
  match s with
  | 0x5C :: 0x75 :: a :: b :: c :: d :: _ =>
    match hexVal4 a, hexVal4 b, hexVal4 c, hexVal4 d with
    | some x, some y, some z, some w => some (((x * 16 + y) * 16 + z) * 16 + w)
    | _, _, _, _ => none
  | _ => none

/-- `decodeEscape(data)`, `data` starts with the backslash: `(rune, bytesProcessed)` -/
def decodeEscape (data : Bytes) : Option (Nat × Nat) :=
  match data with
  | _ :: c :: _ =>
    if c == 0x22 || c == 0x2F || c == 0x5C then some (c.toNat, 2)
    else if c == 0x62 then some (8, 2)
    else if c == 0x66 then some (12, 2)
    else if c == 0x6E then some (10, 2)
    else if c == 0x72 then some (13, 2)
    else if c == 0x74 then some (9, 2)
    else if c == 0x75 then
      match getu4 data with
      | none => none
      | some rr =>
        if isSurrogate rr then
          let dec := utf16Decode rr (getu4 (data.drop 6))
          if dec ≠ runeError then some (dec, 12) else some (runeError, 6)
        else some (rr, 6)
    else none
  | _ => none

/-- `unescapeStringToken` applied to the raw token bytes -/
def unescape (data : Bytes) : Option Bytes :=
  match data with
  | [] => some []
  | b :: t =>
    if b == 0x5C then
      match decodeEscape (b :: t) with
      | none => none
      | some (r, n) =>
        match unescape (t.drop (n - 1)) with
        | none => none
        | some u => some (encodeRune r ++ u)
    else
      match unescape t with
      | none => none
      | some u => some (b :: u)
termination_by data.length
decreasing_by all_goals (simp only [List.length_cons, List.length_drop]; omega)

/-- `fetchString` after the opening quote: raw token bytes and the input after the closing quote -/
def scanString : Bytes → Option (Bytes × Bytes)
  | [] => none
  | b :: t =>
    if b == 0x22 then some ([], t)
    else if b == 0x5C then
      match t with
      | [] => none
      | c :: t' =>
        match scanString t' with
        | none => none
        | some (raw, rest) => some (b :: c :: raw, rest)
    else
      match scanString t with
      | none => none
      | some (raw, rest) => some (b :: raw, rest)

/-- `isTokenEnd` -/
def isTokenEnd (c : UInt8) : Bool :=
  c == 0x20 || c == 0x09 || c == 0x0D || c == 0x0A || c == 0x5B || c == 0x5D || c == 0x7B || c == 0x7D
    || c == 0x2C || c == 0x3A

def isDigit (c : UInt8) : Bool := 0x30 ≤ c.toNat && c.toNat ≤ 0x39

/-- the loop of `fetchNumber` after the first character: token tail and the rest -/
def scanNumber (hasE afterE hasDot : Bool) : Bytes → Bytes × Bytes
  | [] => ([], [])
  | c :: t =>
    if isDigit c then let r := scanNumber hasE false hasDot t; (c :: r.1, r.2)
    else if c == 0x2E && !hasDot then let r := scanNumber hasE afterE true t; (c :: r.1, r.2)
    else if (c == 0x65 || c == 0x45) && !hasE then let r := scanNumber true true true t; (c :: r.1, r.2)
    else if (c == 0x2B || c == 0x2D) && afterE then let r := scanNumber hasE false hasDot t; (c :: r.1, r.2)
    else ([], c :: t)

inductive Tok where
  | str (raw : Bytes)
  | delim (c : UInt8)
  | num (text : Bytes)
  deriving Repr

/-- the part of the lexer state that outlives a token -/
structure LexSt where
  wantSep : UInt8 := 0
  firstElement : Bool := false

def isWS (c : UInt8) : Bool := c == 0x20 || c == 0x09 || c == 0x0D || c == 0x0A

/-- `FetchToken`: token, new state, remaining input; `none` is a fatal error (including `io.EOF` and the
`null`/`true`/`false` keywords, which no reader modelled here accepts). -/
def fetchToken (st : LexSt) : Bytes → Option (Tok × LexSt × Bytes)
  | [] => none
  | c :: t =>
    if c == 0x3A || c == 0x2C then
      if st.wantSep == c then fetchToken { st with wantSep := 0 } t else none
    else if isWS c then fetchToken st t
    else if c == 0x22 then
      if st.wantSep != 0 then none
      else match scanString t with
        | none => none
        | some (raw, rest) => some (.str raw, st, rest)
    else if c == 0x7B || c == 0x5B then
      if st.wantSep != 0 then none else some (.delim c, { st with firstElement := true }, t)
    else if c == 0x7D || c == 0x5D then
      if !st.firstElement && st.wantSep != 0x2C then none
      else some (.delim c, { st with wantSep := 0 }, t)
    else if isDigit c || c == 0x2D then
      if st.wantSep != 0 then none
      else
        let r := scanNumber false false false t
        match r.2 with
        | [] => some (.num (c :: r.1), st, [])
        | e :: rest => if isTokenEnd e then some (.num (c :: r.1), st, e :: rest) else none
    else none

/-- outcome of a reader: value and number of bytes consumed (`in.GetPos()`) -/
inductive ROut (α : Type) where
  | ok (v : α) (pos : Nat)
  | err                      -- the helper returned an error
  | lexerr                   -- nil error, but the lexer is in the failed state
  deriving Repr

/-- the `for !in.IsDelim('}')` loop of `Json2ReadString` with the final `in.Delim('}')`.
`fuel` bounds the number of members (every iteration consumes input). -/
def readB64Object (fuel : Nat) (st : LexSt) (data : Bytes) (found : Option Bytes) : Option (Bytes × Bytes) :=
  match fuel with
  | 0 => none
  | fuel + 1 =>
    match fetchToken st data with
    | none => none
    | some (.delim c, _, rest) =>
      if c == 0x7D then (match found with | some v => some (v, rest) | none => none) else none
    | some (.num _, _, _) => none
    | some (.str key, st1, rest) =>
      -- key := in.UnsafeFieldName(true) : raw bytes, not unescaped;  in.WantColon()
      if key ≠ [0x62, 0x61, 0x73, 0x65, 0x36, 0x34] then none
      else if found.isSome then none
      else
        match fetchToken { st1 with wantSep := 0x3A, firstElement := false } rest with
        | some (.str raw, st2, rest2) =>
          match unescape raw with
          | none => none
          | some tok =>
            match b64decode tok with
            | none => none
            | some v => readB64Object fuel { st2 with wantSep := 0x2C, firstElement := false } rest2 (some v)
        | _ => none

/-- `Json2ReadString` / `Json2ReadStringBytes` on a fresh lexer over `data` -/
def readString (data : Bytes) : ROut Bytes :=
  match fetchToken {} data with
  | none => .err
  | some (.str raw, _, rest) =>
    match unescape raw with
    | none => .lexerr
    | some s => .ok s (data.length - rest.length)
  | some (.delim c, st, rest) =>
    if c == 0x7B then
      match readB64Object (data.length + 1) st rest none with
      | none => .err
      | some (v, rest2) => .ok v (data.length - rest2.length)
    else .err
  | some (.num _, _, _) => .err

/-- `strconv.ParseUint(s, 10, bits)`: `none` for syntax and range errors -/
def parseUint (s : Bytes) (bits : Nat) : Option Nat :=
  if s.isEmpty then none
  else if s.all isDigit then
    let n := s.foldl (fun acc c => acc * 10 + (c.toNat - 48)) 0
    if n < 2 ^ bits then some n else none
  else none

/-- `strconv.ParseInt(s, 10, bits)` -/
def parseInt (s : Bytes) (bits : Nat) : Option Int :=
  match s with
  | [] => none
  | c :: t =>
    let neg := c == 0x2D
    let body := if c == 0x2B || c == 0x2D then t else c :: t
    match parseUint body 64 with
    | none => none
    | some un =>
      if !neg && un ≥ 2 ^ (bits - 1) then none
      else if neg && un > 2 ^ (bits - 1) then none
      else some (if neg then - (un : Int) else (un : Int))

/-- the number helpers: a string token is unescaped and parsed, a number token is parsed -/
def readNumberText (data : Bytes) : Option (Bytes × Nat) :=
  match fetchToken {} data with
  | some (.str raw, _, rest) =>
    match unescape raw with
    | none => none
    | some s => some (s, data.length - rest.length)
  | some (.num text, _, rest) => some (text, data.length - rest.length)
  | _ => none

/-- `Json2ReadUint32` (`bits = 32`) / `Json2ReadUint64` (`bits = 64`) -/
def readUint (bits : Nat) (data : Bytes) : ROut Nat :=
  match readNumberText data with
  | none => .err
  | some (s, pos) => match parseUint s bits with
    | none => .err
    | some v => .ok v pos

/-- `Json2ReadInt32` / `Json2ReadInt64` -/
def readInt (bits : Nat) (data : Bytes) : ROut Int :=
  match readNumberText data with
  | none => .err
  | some (s, pos) => match parseInt s bits with
    | none => .err
    | some v => .ok v pos

/-- ASCII lower-casing as in `commonPrefixLenIgnoreCase` -/
def lowerAZ (c : UInt8) : UInt8 := if 65 ≤ c.toNat ∧ c.toNat ≤ 90 then c + 32 else c

/-- `commonPrefixLenIgnoreCase(s, prefix)` -/
def commonPrefixLenIgnoreCase : Bytes → Bytes → Nat
  | c :: s, p :: ps => if lowerAZ c == p then 1 + commonPrefixLenIgnoreCase s ps else 0
  | _, _ => 0

/-- `strconv.ParseFloat` on the inputs that `special()` accepts in full: `some` class, `none` for everything
else (finite numbers and syntax errors are `strconv`'s business, not modelled). -/
def parseFloatSpecial (s : Bytes) : Option FloatClass :=
  match s with
  | [] => none
  | c :: t =>
    if c == 0x2B || c == 0x2D || c == 0x69 || c == 0x49 then
      let signed := c == 0x2B || c == 0x2D
      let body := if signed then t else c :: t
      let n0 := commonPrefixLenIgnoreCase body (asciiBytes "infinity")
      let n := if 3 < n0 ∧ n0 < 8 then 3 else n0
      if (n = 3 ∨ n = 8) ∧ body.length = n then some (if c == 0x2D then .ninf else .pinf) else none
    else if c == 0x6E || c == 0x4E then
      if commonPrefixLenIgnoreCase (c :: t) (asciiBytes "nan") = 3 ∧ t.length = 2 then some .nan else none
    else none

/-- `Json2ReadFloat32/64` restricted to string tokens holding a special value -/
def readFloatSpecial (data : Bytes) : Option (FloatClass × Nat) :=
  match fetchToken {} data with
  | some (.str raw, _, rest) =>
    match unescape raw with
    | none => none
    | some s => match parseFloatSpecial s with
      | none => none
      | some c => some (c, data.length - rest.length)
  | _ => none

end TLVerif.Jsonp
