import TLVerif.Jsonp.StringLemmas
/-! Lemmas about the float specials: the three documented strings are JSON strings and are read back by
`Json2ReadFloat32/64` (through `strconv.ParseFloat`'s `special`) as the same class. -/
namespace TLVerif.Jsonp

theorem nanText_eq : asciiBytes "\"NaN\"" = [0x22, 0x4E, 0x61, 0x4E, 0x22] := by decide
theorem pinfText_eq : asciiBytes "\"+Inf\"" = [0x22, 0x2B, 0x49, 0x6E, 0x66, 0x22] := by decide
theorem ninfText_eq : asciiBytes "\"-Inf\"" = [0x22, 0x2D, 0x49, 0x6E, 0x66, 0x22] := by decide

theorem readFloatSpecial_quoted (p rest : Bytes) (c : FloatClass) (hp : ∀ b ∈ p, b ≠ 0x22 ∧ b ≠ 0x5C)
    (hc : parseFloatSpecial p = some c) :
    readFloatSpecial (0x22 :: (p ++ 0x22 :: rest)) = some (c, p.length + 2) := by
  have hscan : scanString (p ++ 0x22 :: rest) = some (p, rest) := by
    have := scan_plain_prefix p (0x22 :: rest) [] rest hp (by rw [scanString.eq_def]; simp)
    simpa using this
  have hun := unescape_plain p (fun b hb => (hp b hb).2)
  unfold readFloatSpecial
  rw [fetchToken]
  simp [isWS, hscan, hun, hc]
  omega

theorem plainText_json (p : Bytes) (hp : ∀ b ∈ p, plainByte b) : JChars p := by
  induction p with
  | nil => exact .nil
  | cons b p ih => exact .plain b p (hp b (by simp)) (ih (fun x hx => hp x (by simp [hx])))

/-- NaN and the infinities are written as JSON strings that the float readers decode to the same class,
whatever follows -/
theorem float_special_roundtrip (c : FloatClass) (hc : c ≠ .finite) (rest : Bytes) :
    ∃ t, writeFloatSpecial c = some t ∧ readFloatSpecial (t ++ rest) = some (c, t.length) ∧ IsJsonString t := by
  cases c with
  | finite => exact absurd rfl hc
  | nan =>
    refine ⟨_, rfl, ?_, ?_⟩
    · rw [nanText_eq]
      exact readFloatSpecial_quoted [0x4E, 0x61, 0x4E] rest .nan (by decide) (by decide)
    · rw [nanText_eq]
      exact ⟨[0x4E, 0x61, 0x4E], rfl, plainText_json _ (by unfold plainByte; decide)⟩
  | pinf =>
    refine ⟨_, rfl, ?_, ?_⟩
    · rw [pinfText_eq]
      exact readFloatSpecial_quoted [0x2B, 0x49, 0x6E, 0x66] rest .pinf (by decide) (by decide)
    · rw [pinfText_eq]
      exact ⟨[0x2B, 0x49, 0x6E, 0x66], rfl, plainText_json _ (by unfold plainByte; decide)⟩
  | ninf =>
    refine ⟨_, rfl, ?_, ?_⟩
    · rw [ninfText_eq]
      exact readFloatSpecial_quoted [0x2D, 0x49, 0x6E, 0x66] rest .ninf (by decide) (by decide)
    · rw [ninfText_eq]
      exact ⟨[0x2D, 0x49, 0x6E, 0x66], rfl, plainText_json _ (by unfold plainByte; decide)⟩

/-- the classification used by `jsonWriteFloatSpecial`, spelled out on the IEEE-754 fields -/
theorem floatClass_spec (ebits mbits bits : Nat) :
    let e := bits / 2 ^ mbits % 2 ^ ebits
    let m := bits % 2 ^ mbits
    let neg := bits / 2 ^ (mbits + ebits) % 2 = 1
    (floatClass ebits mbits bits = .finite ↔ e ≠ 2 ^ ebits - 1) ∧
    (floatClass ebits mbits bits = .nan ↔ e = 2 ^ ebits - 1 ∧ m ≠ 0) ∧
    (floatClass ebits mbits bits = .pinf ↔ e = 2 ^ ebits - 1 ∧ m = 0 ∧ ¬ neg) ∧
    (floatClass ebits mbits bits = .ninf ↔ e = 2 ^ ebits - 1 ∧ m = 0 ∧ neg) := by
  intro e m neg
  unfold floatClass
  by_cases h1 : e = 2 ^ ebits - 1 <;> by_cases h2 : m = 0 <;> by_cases h3 : neg <;> simp_all [e, m, neg]

end TLVerif.Jsonp
