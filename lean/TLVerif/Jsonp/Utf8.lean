/-!
Model of the parts of Go's `unicode/utf8` and `unicode/utf16` that `pkg/basictl` JSON writers and the
`jlexer` string reader depend on: `utf8.Valid`/`ValidString`, `utf8.DecodeRune(InString)`,
`utf8.EncodeRune`, `utf16.IsSurrogate`, `utf16.DecodeRune`.

Bytes are `UInt8`, runes and all arithmetic are `Nat` (`x & 7` is written `x % 8`, `x >> 4` is `x / 16`,
`a<<6 | b` with disjoint bit ranges is written `a * 64 + b`): the standard library is written with
masks and shifts, the model with the equal `Nat` arithmetic so that `omega` can reason about it.
The `first` table of the standard library is written by ranges.  The length tests `n < size` are written on
`t.take 4` (sizes are at most 4), so that the compiled driver does not walk the whole string at every rune.
-/
namespace TLVerif.Jsonp

abbrev Bytes := List UInt8

/-- Go `byte(x)` for a non-negative `x`. -/
def byteOf (n : Nat) : UInt8 := UInt8.ofNat n

def runeError : Nat := 0xFFFD
def maxRune : Nat := 0x10FFFF

/-- `utf8.first[b]` (codes: as=0xF0, xx=0xF1, s1=0x02, s2=0x13, s3=0x03, s4=0x23, s5=0x34, s6=0x04, s7=0x44). -/
def first (b : Nat) : Nat :=
  if b < 0x80 then 0xF0
  else if b < 0xC2 then 0xF1
  else if b < 0xE0 then 0x02
  else if b = 0xE0 then 0x13
  else if b = 0xED then 0x23
  else if b < 0xF0 then 0x03
  else if b = 0xF0 then 0x34
  else if b < 0xF4 then 0x04
  else if b = 0xF4 then 0x44
  else 0xF1

/-- `utf8.acceptRanges[a].lo` -/
def acceptLo (a : Nat) : Nat :=
  if a = 1 then 0xA0 else if a = 3 then 0x90 else if a = 0 ∨ a = 2 ∨ a = 4 then 0x80 else 0

/-- `utf8.acceptRanges[a].hi` -/
def acceptHi (a : Nat) : Nat :=
  if a = 2 then 0x9F else if a = 4 then 0x8F else if a = 0 ∨ a = 1 ∨ a = 3 then 0xBF else 0

/-- continuation byte outside `locb..hicb` -/
def notCont (c : Nat) : Bool := c < 0x80 || 0xBF < c

/-- `utf8.Valid` / `utf8.ValidString` (the 8-byte ASCII fast path is the same function). -/
def utf8Valid : Bytes → Bool
  | [] => true
  | pi :: t =>
    if pi.toNat < 0x80 then utf8Valid t
    else
      let x := first pi.toNat
      if x = 0xF1 then false
      else
        let size := x % 8
        if (t.take 4).length + 1 < size then false
        else
          match t with
          | [] => false
          | c1 :: t1 =>
            if c1.toNat < acceptLo (x / 16) || acceptHi (x / 16) < c1.toNat then false
            else if size = 2 then utf8Valid t1
            else
              match t1 with
              | [] => false
              | c2 :: t2 =>
                if notCont c2.toNat then false
                else if size = 3 then utf8Valid t2
                else
                  match t2 with
                  | [] => false
                  | c3 :: t3 =>
                    if notCont c3.toNat then false else utf8Valid t3

/-- `utf8.DecodeRune` / `DecodeRuneInString`: `(rune, size)`. -/
def decodeRune (p : Bytes) : Nat × Nat :=
  match p with
  | [] => (runeError, 0)
  | p0 :: t =>
    let x := first p0.toNat
    if x ≥ 0xF0 then
      (if x = 0xF1 then runeError else p0.toNat, 1)
    else
      let sz := x % 8
      if (t.take 4).length + 1 < sz then (runeError, 1)
      else
        match t with
        | [] => (runeError, 1)
        | b1 :: t1 =>
          if b1.toNat < acceptLo (x / 16) || acceptHi (x / 16) < b1.toNat then (runeError, 1)
          else if sz ≤ 2 then ((p0.toNat % 32) * 64 + b1.toNat % 64, 2)
          else
            match t1 with
            | [] => (runeError, 1)
            | b2 :: t2 =>
              if notCont b2.toNat then (runeError, 1)
              else if sz ≤ 3 then ((p0.toNat % 16) * 4096 + (b1.toNat % 64) * 64 + b2.toNat % 64, 3)
              else
                match t2 with
                | [] => (runeError, 1)
                | b3 :: _ =>
                  if notCont b3.toNat then (runeError, 1)
                  else ((p0.toNat % 8) * 262144 + (b1.toNat % 64) * 4096 + (b2.toNat % 64) * 64 + b3.toNat % 64, 4)

/-- `utf8.EncodeRune` for a non-negative rune (out of range and surrogates give U+FFFD). -/
def encodeRune (r : Nat) : Bytes :=
  if r ≤ 0x7F then [byteOf r]
  else if r ≤ 0x7FF then [byteOf (0xC0 + r / 64), byteOf (0x80 + r % 64)]
  else if r < 0xD800 ∨ (0xDFFF < r ∧ r ≤ 0xFFFF) then
    [byteOf (0xE0 + r / 4096), byteOf (0x80 + r / 64 % 64), byteOf (0x80 + r % 64)]
  else if r > 0xFFFF ∧ r ≤ maxRune then
    [byteOf (0xF0 + r / 262144), byteOf (0x80 + r / 4096 % 64), byteOf (0x80 + r / 64 % 64), byteOf (0x80 + r % 64)]
  else [0xEF, 0xBF, 0xBD]

/-- `utf16.IsSurrogate` -/
def isSurrogate (r : Nat) : Bool := 0xD800 ≤ r && r < 0xE000

/-- `utf16.DecodeRune(r1, r2)`; `r2 = none` stands for the `-1` that `getu4` returns. -/
def utf16Decode (r1 : Nat) (r2 : Option Nat) : Nat :=
  match r2 with
  | none => runeError
  | some r2 =>
    if 0xD800 ≤ r1 ∧ r1 < 0xDC00 ∧ 0xDC00 ≤ r2 ∧ r2 < 0xE000 then
      (r1 - 0xD800) * 1024 + (r2 - 0xDC00) + 0x10000
    else runeError

/-- A Unicode scalar value: a code point that is not a surrogate. -/
def isScalar (c : Nat) : Prop := c < 0xD800 ∨ (0xDFFF < c ∧ c ≤ 0x10FFFF)

instance (c : Nat) : Decidable (isScalar c) := by unfold isScalar; infer_instance

end TLVerif.Jsonp
