import TLVerif.Jsonp.Float
import TLVerif.Jsonp.NumLemmas
/-! Lemmas about the finite-float model: what the digit search returns is parsed back to the same pattern (by
construction of the search), is an RFC 8259 number without exponent, and is lexed as one number token. -/
namespace TLVerif.Jsonp

/-- whatever the digit search returns is read back by the parser model as the pattern it was asked for -/
theorem shortestSearch_sound (f : FloatFmt) (neg : Bool) (bits num den : Nat) (k : Int) :
    ∀ fuel n t, shortestSearch f neg bits num den k fuel n = some t → parseFloatText f t = some bits := by
  intro fuel
  induction fuel with
  | zero => intro n t h; simp [shortestSearch] at h
  | succ fuel ih =>
    intro n t h
    rw [shortestSearch] at h
    simp only at h
    split at h
    · rename_i hc
      injection h with h
      split at h
      · subst h; exact hc.1.2
      · subst h; exact hc.2
    · split at h
      · rename_i hc; injection h with h; subst h; exact hc.2
      · split at h
        · rename_i hc; injection h with h; subst h; exact hc
        · exact ih _ _ h


theorem zero_pattern (f : FloatFmt) (bits : Nat) (hb : bits < 2 ^ (1 + (f.mbits + f.ebits)))
    (hz : f.magNum (f.absBits bits) = 0) :
    bits = if f.signBit bits then 2 ^ (f.mbits + f.ebits) else 0 := by
  have hP : 0 < 2 ^ (f.mbits + f.ebits) := Nat.pow_pos (by decide)
  have hM : 0 < 2 ^ f.mbits := Nat.pow_pos (by decide)
  have hE : 0 < 2 ^ f.ebits := Nat.pow_pos (by decide)
  have ha : f.absBits bits < 2 ^ f.mbits * 2 ^ f.ebits := by
    unfold FloatFmt.absBits; rw [← Nat.pow_add]; exact Nat.mod_lt _ hP
  -- the magnitude is zero only for exponent field 0 and mantissa 0
  unfold FloatFmt.magNum at hz
  simp only at hz
  have hq : f.absBits bits / 2 ^ f.mbits < 2 ^ f.ebits := (Nat.div_lt_iff_lt_mul hM).mpr (by rw [Nat.mul_comm]; exact ha)
  have habs : f.absBits bits = 0 := by
    by_cases he : f.expField (f.absBits bits) = 0
    · rw [if_pos he] at hz
      have hm : f.mantField (f.absBits bits) = 0 := by omega
      unfold FloatFmt.expField at he
      rw [Nat.mod_eq_of_lt hq] at he
      unfold FloatFmt.mantField at hm
      have := Nat.div_add_mod (f.absBits bits) (2 ^ f.mbits)
      rw [he, hm] at this; simp at this; exact this.symm
    · rw [if_neg he] at hz
      have : 0 < (f.mantField (f.absBits bits) + 2 ^ f.mbits) * 2 ^ f.expField (f.absBits bits) :=
        Nat.mul_pos (by omega) (Nat.pow_pos (by decide))
      omega
  have hdm := Nat.div_add_mod bits (2 ^ (f.mbits + f.ebits))
  have hs : bits / 2 ^ (f.mbits + f.ebits) < 2 := by
    apply (Nat.div_lt_iff_lt_mul hP).mpr
    have : 2 ^ (1 + (f.mbits + f.ebits)) = 2 ^ (f.mbits + f.ebits) * 2 := by rw [Nat.add_comm 1, Nat.pow_succ]
    omega
  unfold FloatFmt.absBits at habs
  unfold FloatFmt.signBit
  rw [habs] at hdm
  generalize bits / 2 ^ (f.mbits + f.ebits) = s at hdm hs ⊢
  by_cases h1 : s = 1
  · subst h1; simp; omega
  · have h0 : s = 0 := by omega
    subst h0; simp; omega

theorem parse_zero_text (f : FloatFmt) (neg : Bool) :
    parseFloatText f (fmtF neg [] 0) = some (if neg then 2 ^ (f.mbits + f.ebits) else 0) := by
  cases neg <;> simp [fmtF, parseFloatText, parseDecimal, takeDigits, isDigit, scale10, roundToFloat]

/-- **finite floats, by construction of the search**: the text the model of `AppendFloat(…,'f',-1,bitSize)` produces
is mapped back to the same bit pattern by the model of `ParseFloat(…, bitSize)` -/
theorem formatFloat_sound (f : FloatFmt) (bits : Nat) (hb : bits < 2 ^ (1 + (f.mbits + f.ebits))) (t : Bytes)
    (h : formatFloat f bits = some t) : parseFloatText f t = some bits := by
  unfold formatFloat at h
  simp only at h
  split at h
  · rename_i hz
    injection h with h; subst h
    rw [parse_zero_text]
    exact congrArg some (zero_pattern f bits hb hz).symm
  · exact shortestSearch_sound _ _ _ _ _ _ _ _ _ h


/-! ### shape of the written text: an RFC 8259 number without exponent, lexed whole by `fetchNumber` -/

/-- RFC 8259 section 6 without `exp`: `[ minus ] int [ frac ]` -/
def IsJsonFixed (t : Bytes) : Prop :=
  ∃ sgn ip fp, t = sgn ++ ip ++ fp ∧ (sgn = [] ∨ sgn = [0x2D]) ∧ ip ≠ [] ∧ ip.all isDigit = true
    ∧ (ip = [0x30] ∨ ip.head? ≠ some 0x30)
    ∧ (fp = [] ∨ ∃ fd, fp = 0x2E :: fd ∧ fd ≠ [] ∧ fd.all isDigit = true)

theorem readNumberText_token (c : UInt8) (body rest : Bytes) (hc : isDigit c = true ∨ c = 0x2D)
    (hs : scanNumber false false false (body ++ rest) = (body, rest))
    (hr : rest = [] ∨ ∃ e r, rest = e :: r ∧ isTokenEnd e = true) :
    readNumberText (c :: (body ++ rest)) = some (c :: body, body.length + 1) := by
  unfold readNumberText
  rw [fetchToken]
  rcases hc with hc | rfl
  · obtain ⟨f1, f2, f3, f4, f5, f6, f7, f8, _⟩ := digit_facts c hc
    simp [f1, f2, f3, f4, f5, f6, f7, f8, hc, hs]
    rcases hr with rfl | ⟨e, r, rfl, he⟩
    · simp
    · simp [he]; omega
  · simp [isWS, isDigit, hs]
    rcases hr with rfl | ⟨e, r, rfl, he⟩
    · simp
    · simp [he]; omega

theorem scanNumber_fixed (ds fp rest : Bytes) (hd : ds.all isDigit = true)
    (hfp : fp = [] ∨ ∃ fd, fp = 0x2E :: fd ∧ fd ≠ [] ∧ fd.all isDigit = true)
    (hr : rest = [] ∨ ∃ e r, rest = e :: r ∧ isTokenEnd e = true) :
    scanNumber false false false (ds ++ fp ++ rest) = (ds ++ fp, rest) := by
  rcases hfp with rfl | ⟨fd, rfl, _, hfd⟩
  · rw [List.append_nil, scanNumber_digits ds rest hd, scanNumber_end rest hr]; simp
  · rw [List.append_assoc, scanNumber_digits ds _ hd]
    have h1 : scanNumber false false false (0x2E :: fd ++ rest) = (0x2E :: fd, rest) := by
      rw [List.cons_append, scanNumber]
      simp [isDigit]
      rw [scanNumber_digits fd rest hfd, scanNumber_end rest hr]; simp
    rw [h1]

theorem fixed_alphabet (t : Bytes) (h : IsJsonFixed t) : decimalAlphabet t = true := by
  obtain ⟨sgn, ip, fp, rfl, hs, _, hip, _, hfp⟩ := h
  have hdig : ∀ l : Bytes, l.all isDigit = true →
      l.all (fun c => isDigit c || c == 0x2E || c == 0x65 || c == 0x45 || c == 0x2B || c == 0x2D) = true := by
    intro l hl
    rw [List.all_eq_true] at hl ⊢
    intro x hx; simp [hl x hx]
  unfold decimalAlphabet
  rw [List.all_append, List.all_append, hdig ip hip]
  have h1 : sgn.all (fun c => isDigit c || c == 0x2E || c == 0x65 || c == 0x45 || c == 0x2B || c == 0x2D) = true := by
    rcases hs with rfl | rfl <;> simp
  have h2 : fp.all (fun c => isDigit c || c == 0x2E || c == 0x65 || c == 0x45 || c == 0x2B || c == 0x2D) = true := by
    rcases hfp with rfl | ⟨fd, rfl, _, hfd⟩
    · simp
    · rw [List.all_cons, hdig fd hfd]; simp
  rw [h1, h2]; rfl

theorem fixed_plain (t : Bytes) (h : IsJsonFixed t) : ∀ b ∈ t, b ≠ 0x22 ∧ b ≠ 0x5C := by
  obtain ⟨sgn, ip, fp, rfl, hs, _, hip, _, hfp⟩ := h
  intro b hb
  simp only [List.mem_append] at hb
  rcases hb with (hb | hb) | hb
  · rcases hs with rfl | rfl
    · simp at hb
    · simp at hb; subst hb; decide
  · exact digits_plain ip hip b hb
  · rcases hfp with rfl | ⟨fd, rfl, _, hfd⟩
    · simp at hb
    · simp only [List.mem_cons] at hb
      rcases hb with rfl | hb
      · decide
      · exact digits_plain fd hfd b hb

/-- a fixed-notation number followed by the end of input or a token-ending character is one number token -/
theorem readNumberText_fixed (t rest : Bytes) (h : IsJsonFixed t)
    (hr : rest = [] ∨ ∃ e r, rest = e :: r ∧ isTokenEnd e = true) :
    readNumberText (t ++ rest) = some (t, t.length) := by
  obtain ⟨sgn, ip, fp, rfl, hs, hne, hip, _, hfp⟩ := h
  match ip, hne, hip with
  | d :: ds, _, hip =>
    simp only [List.all_cons, Bool.and_eq_true] at hip
    have hsc := scanNumber_fixed ds fp rest hip.2 hfp hr
    rcases hs with rfl | rfl
    · have := readNumberText_token d (ds ++ fp) rest (Or.inl hip.1) hsc hr
      simpa using this
    · have hsc2 : scanNumber false false false ((d :: ds ++ fp) ++ rest) = (d :: ds ++ fp, rest) := by
        have := scanNumber_fixed (d :: ds) fp rest (by simp [hip.1, hip.2]) hfp hr
        simpa using this
      have := readNumberText_token 0x2D (d :: ds ++ fp) rest (Or.inr rfl) hsc2 hr
      simpa using this


theorem digitsOf_spec (n : Nat) : (∀ d ∈ digitsOf n, d < 10) ∧ (n ≠ 0 → ∃ h tl, digitsOf n = h :: tl ∧ h ≠ 0) := by
  induction n using Nat.strongRecOn with
  | _ n ih =>
    rw [digitsOf]
    split
    · rename_i h; exact ⟨by simp, fun hn => absurd h hn⟩
    · rename_i h
      obtain ⟨h1, h2⟩ := ih (n / 10) (by omega)
      constructor
      · intro d hd
        simp only [List.mem_append, List.mem_cons, List.not_mem_nil, or_false] at hd
        rcases hd with hd | rfl
        · exact h1 d hd
        · omega
      · intro _
        by_cases h0 : n / 10 = 0
        · rw [h0, digitsOf]; simp; omega
        · obtain ⟨x, tl, he, hx⟩ := h2 h0
          exact ⟨x, tl ++ [n % 10], by rw [he]; rfl, hx⟩

theorem dropWhile_snoc {α : Type} (p : α → Bool) (l : List α) (h : α) (hp : p h = false) :
    ∃ l', (l ++ [h]).dropWhile p = l' ++ [h] ∧ ∀ x ∈ l', x ∈ l := by
  induction l with
  | nil => exact ⟨[], by simp [hp], by simp⟩
  | cons a l ih =>
    obtain ⟨l', h1, h2⟩ := ih
    by_cases ha : p a = true
    · refine ⟨l', ?_, fun x hx => by simp [h2 x hx]⟩
      rw [List.cons_append, List.dropWhile_cons_of_pos ha, h1]
    · refine ⟨a :: l, ?_, fun x hx => hx⟩
      rw [List.cons_append, List.dropWhile_cons_of_neg ha]

theorem strip_spec (h : Nat) (tl : List Nat) (hh : h ≠ 0) :
    ∃ tl', stripTrailingZeros (h :: tl) = h :: tl' ∧ ∀ x ∈ tl', x ∈ tl := by
  unfold stripTrailingZeros
  rw [List.reverse_cons]
  obtain ⟨l', h1, h2⟩ := dropWhile_snoc (· == 0) tl.reverse h (by simp [hh])
  rw [h1]
  refine ⟨l'.reverse, by simp, ?_⟩
  intro x hx
  have := h2 x (by simpa using hx)
  simpa using this

theorem ch_digit (d : Nat) (h : d < 10) : isDigit (byteOf (48 + d)) = true := isDigit_byteOf d h

theorem map_ch_digits (l : List Nat) (h : ∀ d ∈ l, d < 10) : (l.map (fun d => byteOf (48 + d))).all isDigit = true := by
  rw [List.all_eq_true]
  intro x hx
  simp only [List.mem_map] at hx
  obtain ⟨d, hd, rfl⟩ := hx
  exact ch_digit d (h d hd)

theorem replicate_zero_digits (n : Nat) : (List.replicate n (0x30 : UInt8)).all isDigit = true := by
  rw [List.all_eq_true]
  intro x hx
  rw [List.mem_replicate] at hx
  rw [hx.2]; decide

/-- `%f` rendering of a digit string with a non-zero leading digit is an RFC 8259 number -/
theorem fmtF_fixed (neg : Bool) (h : Nat) (tl : List Nat) (dp : Int) (hd : ∀ d ∈ h :: tl, d < 10) (hh : h ≠ 0) :
    IsJsonFixed (fmtF neg (h :: tl) dp) := by
  have hh10 : h < 10 := hd h (by simp)
  unfold fmtF
  simp only
  refine ⟨if neg then [0x2D] else [], _, _, rfl, by cases neg <;> simp, ?_, ?_, ?_, ?_⟩
  · -- integer part is not empty
    split
    · rename_i hpos
      have : 1 ≤ dp.toNat := by omega
      obtain ⟨m, hm⟩ : ∃ m, dp.toNat = m + 1 := ⟨dp.toNat - 1, by omega⟩
      rw [hm]; simp
    · simp
  · split
    · rw [List.all_append, map_ch_digits _ (fun d hd' => hd d (List.mem_of_mem_take hd')), replicate_zero_digits]; rfl
    · decide
  · split
    · right
      rename_i hpos
      obtain ⟨m, hm⟩ : ∃ m, dp.toNat = m + 1 := ⟨dp.toNat - 1, by omega⟩
      rw [hm]
      simp only [List.take_succ_cons, List.map_cons, List.cons_append, List.head?_cons, ne_eq, Option.some.injEq]
      intro he
      have : (byteOf (48 + h)).toNat = (0x30 : UInt8).toNat := by rw [he]
      rw [byteOf_toNat] at this; simp at this; omega
    · left; rfl
  · split
    · right
      rename_i hlen
      refine ⟨_, rfl, ?_, ?_⟩
      · intro he
        have hl := congrArg List.length he
        simp only [List.length_append, List.length_replicate, List.length_map, List.length_drop, List.length_cons,
          List.length_nil] at hl
        simp only [List.length_cons] at hlen
        omega
      · rw [List.all_append, replicate_zero_digits, map_ch_digits _ (fun d hd' => hd d (List.mem_of_mem_drop hd'))]; rfl
    · left; rfl

theorem renderCandidate_fixed (neg : Bool) (c : Nat) (k : Int) (n : Nat) (hc : c ≠ 0) :
    IsJsonFixed (renderCandidate neg c k n) := by
  obtain ⟨h1, h2⟩ := digitsOf_spec c
  obtain ⟨h, tl, he, hh⟩ := h2 hc
  obtain ⟨tl', hs, hsub⟩ := strip_spec h tl hh
  unfold renderCandidate
  simp only
  rw [he, hs]
  apply fmtF_fixed _ _ _ _ _ hh
  intro d hd
  rw [he] at h1
  simp only [List.mem_cons] at hd
  rcases hd with rfl | hd
  · exact h1 _ (by simp)
  · exact h1 d (by simp [hsub d hd])

theorem shortestSearch_fixed (f : FloatFmt) (neg : Bool) (bits num den : Nat) (k : Int) :
    ∀ fuel n t, shortestSearch f neg bits num den k fuel n = some t → IsJsonFixed t := by
  intro fuel
  induction fuel with
  | zero => intro n t h; simp [shortestSearch] at h
  | succ fuel ih =>
    intro n t h
    rw [shortestSearch] at h
    simp only at h
    split at h
    · rename_i hc
      injection h with h
      split at h
      · subst h; exact renderCandidate_fixed _ _ _ _ hc.1.1
      · subst h; exact renderCandidate_fixed _ _ _ _ (Nat.succ_ne_zero _)
    · split at h
      · rename_i hc; injection h with h; subst h; exact renderCandidate_fixed _ _ _ _ hc.1
      · split at h
        · injection h with h; subst h; exact renderCandidate_fixed _ _ _ _ (Nat.succ_ne_zero _)
        · exact ih _ _ h

theorem formatFloat_fixed (f : FloatFmt) (bits : Nat) (t : Bytes) (h : formatFloat f bits = some t) : IsJsonFixed t := by
  unfold formatFloat at h
  simp only at h
  split at h
  · injection h with h; subst h
    refine ⟨if f.signBit bits then [0x2D] else [], [0x30], [], ?_, by cases f.signBit bits <;> simp, by simp, by decide,
      Or.inl rfl, Or.inl rfl⟩
    cases f.signBit bits <;> simp [fmtF]
  · exact shortestSearch_fixed _ _ _ _ _ _ _ _ _ h


/-- **finite floats through the generated reader**: if the model of `AppendFloat` yields `t` for the pattern, then
`Json2ReadFloat32/64` reads `t` (as a number token followed by the end of input or a token-ending character, and
quoted) back as exactly that pattern and stops behind it -/
theorem readFloat_formatFloat (f : FloatFmt) (bits : Nat) (hb : bits < 2 ^ (1 + (f.mbits + f.ebits))) (t : Bytes)
    (h : formatFloat f bits = some t) (rest : Bytes)
    (hr : rest = [] ∨ ∃ e r, rest = e :: r ∧ isTokenEnd e = true) :
    readFloat f (t ++ rest) = some (.ok bits t.length)
    ∧ readFloat f (0x22 :: (t ++ 0x22 :: rest)) = some (.ok bits (t.length + 2)) := by
  have hfix := formatFloat_fixed f bits t h
  have hparse := formatFloat_sound f bits hb t h
  have halpha := fixed_alphabet t hfix
  constructor
  · unfold readFloat
    rw [readNumberText_fixed t rest hfix hr]
    simp [halpha, hparse]
  · unfold readFloat
    rw [readNumberText_quoted t rest (fixed_plain t hfix)]
    simp [halpha, hparse]

end TLVerif.Jsonp
