import TLVerif.Udp.WindowLemmas
/-! Sender acknowledgement bookkeeping and the invariant of sender + network + receiver. -/
namespace TLVerif.Udp

/-- sequence number `q` counts as acknowledged at the sender: below the window, or marked inside it -/
def Send.acked (s : Send) (q : Nat) : Prop :=
  q < s.ackPrefix ∨ (s.ackPrefix ≤ q ∧ ∃ c, s.window[q - s.ackPrefix]? = some c ∧ c.acked = true)

theorem unref_window (s : Send) (m : Nat) : (s.unref m).window = s.window := rfl
theorem unref_ackPrefix (s : Send) (m : Nat) : (s.unref m).ackPrefix = s.ackPrefix := rfl

/-- dropping acknowledged front chunks: nothing becomes acknowledged that was not, the end of the
window stays, the prefix does not decrease -/
theorem dropFront_spec (fuel : Nat) (s : Send) (hfront : ∀ c rest, s.window = c :: rest → c.acked = true) :
    (∀ q, (Send.dropFront fuel s).acked q → s.acked q) ∧
    (Send.dropFront fuel s).nextSeq = s.nextSeq ∧ s.ackPrefix ≤ (Send.dropFront fuel s).ackPrefix := by
  induction fuel generalizing s with
  | zero => simp [Send.dropFront]
  | succ fuel ih =>
    unfold Send.dropFront
    cases hw : s.window with
    | nil => simp
    | cons c rest =>
      simp only
      have hc := hfront c rest hw
      -- the state after dropping `c`
      have hstep : ∀ q, (({ s with window := rest, ackPrefix := s.ackPrefix + 1 } : Send).unref c.msg).acked q → s.acked q := by
        intro q hq
        unfold Send.acked at hq ⊢
        simp only [unref_window, unref_ackPrefix] at hq
        rcases hq with hq | ⟨hle, d, hd, hda⟩
        · by_cases e : q = s.ackPrefix
          · right; refine ⟨by omega, c, ?_, hc⟩
            rw [hw, e]; simp
          · left; omega
        · right
          refine ⟨by omega, d, ?_, hda⟩
          rw [hw]
          have : q - s.ackPrefix = (q - (s.ackPrefix + 1)) + 1 := by omega
          rw [this]; simpa using hd
      have hnext : (({ s with window := rest, ackPrefix := s.ackPrefix + 1 } : Send).unref c.msg).nextSeq = s.nextSeq := by
        simp [Send.nextSeq, unref_window, unref_ackPrefix, hw]; omega
      cases hr : rest with
      | nil =>
        subst hr
        exact ⟨hstep, hnext, by simp [unref_ackPrefix]⟩
      | cons d rest' =>
        subst hr
        simp only
        by_cases hd : d.acked = true
        · rw [if_pos hd]
          have := ih (({ s with window := d :: rest', ackPrefix := s.ackPrefix + 1 } : Send).unref c.msg)
            (by intro c' r' h'; simp only [unref_window] at h'; injection h' with h1 _; subst h1; exact hd)
          obtain ⟨i1, i2, i3⟩ := this
          refine ⟨fun q hq => hstep q (i1 q hq), by rw [i2, hnext], ?_⟩
          simp only [unref_ackPrefix] at i3; omega
        · rw [if_neg hd]
          exact ⟨hstep, hnext, by simp [unref_ackPrefix]⟩

theorem ackFront_spec (s : Send) :
    (∀ q, s.ackFront.acked q → s.acked q ∨ (q = s.ackPrefix ∧ s.window ≠ [])) ∧
    s.ackFront.nextSeq = s.nextSeq ∧ s.ackPrefix ≤ s.ackFront.ackPrefix := by
  unfold Send.ackFront
  cases hw : s.window with
  | nil => simp
  | cons c rest =>
    simp only
    have := dropFront_spec (rest.length + 1) { s with window := { c with acked := true } :: rest }
      (by intro c' r' h'; simp only at h'; injection h' with h1 _; subst h1; rfl)
    obtain ⟨i1, i2, i3⟩ := this
    refine ⟨?_, ?_, by simpa using i3⟩
    · intro q hq
      have h1 := i1 q hq
      unfold Send.acked at h1 ⊢
      simp only at h1
      rcases h1 with h1 | ⟨hle, d, hd, hda⟩
      · left; left; exact h1
      · by_cases e : q = s.ackPrefix
        · right; exact ⟨e, by simp⟩
        · left; right
          refine ⟨hle, d, ?_, hda⟩
          rw [hw]
          have : q - s.ackPrefix = (q - s.ackPrefix - 1) + 1 := by omega
          rw [this] at hd ⊢
          simpa using hd
    · rw [i2]; simp [Send.nextSeq, hw]

theorem markAcked_length (i : Nat) (w : List OChunk) : (markAcked i w).length = w.length := by
  induction w generalizing i with
  | nil => simp [markAcked]
  | cons c cs ih => cases i <;> simp [markAcked, ih]

theorem markAcked_get (i k : Nat) (w : List OChunk) (d : OChunk) (h : (markAcked i w)[k]? = some d)
    (hd : d.acked = true) : k = i ∨ ∃ d', w[k]? = some d' ∧ d'.acked = true := by
  induction w generalizing i k with
  | nil => simp [markAcked] at h
  | cons c cs ih =>
    cases i with
    | zero =>
      cases k with
      | zero => left; rfl
      | succ k => right; simp [markAcked] at h; exact ⟨d, by simpa using h, hd⟩
    | succ i =>
      cases k with
      | zero => right; simp [markAcked] at h; subst h; exact ⟨c, by simp, hd⟩
      | succ k =>
        simp [markAcked] at h
        rcases ih i k h with e | ⟨d', h1, h2⟩
        · left; omega
        · right; exact ⟨d', by simpa using h1, h2⟩

theorem ackChunk_spec (s : Send) (seq : Nat) :
    (∀ q, (s.ackChunk seq).acked q → s.acked q ∨ q = seq) ∧
    (s.ackChunk seq).nextSeq = s.nextSeq ∧ s.ackPrefix ≤ (s.ackChunk seq).ackPrefix := by
  unfold Send.ackChunk
  by_cases h1 : (!s.inWindow seq) = true
  · rw [if_pos h1]; exact ⟨fun q hq => Or.inl hq, rfl, Nat.le_refl _⟩
  · rw [if_neg h1]
    by_cases h2 : seq = s.ackPrefix
    · rw [if_pos h2]
      obtain ⟨i1, i2, i3⟩ := ackFront_spec s
      refine ⟨fun q hq => ?_, i2, i3⟩
      rcases i1 q hq with e | e
      · left; exact e
      · right; rw [h2]; exact e.1
    · rw [if_neg h2]
      refine ⟨?_, by simp [Send.nextSeq, markAcked_length], Nat.le_refl _⟩
      intro q hq
      unfold Send.acked at hq ⊢
      simp only at hq
      rcases hq with hq | ⟨hle, d, hd, hda⟩
      · left; left; exact hq
      · rcases markAcked_get _ _ _ d hd hda with e | ⟨d', h3, h4⟩
        · right
          simp [Send.inWindow] at h1
          omega
        · left; right; exact ⟨hle, d', h3, h4⟩

theorem ackUpTo_spec (target fuel : Nat) (s : Send) :
    (∀ q, (Send.ackUpTo target fuel s).acked q → s.acked q ∨ q < target) ∧
    (Send.ackUpTo target fuel s).nextSeq = s.nextSeq ∧ s.ackPrefix ≤ (Send.ackUpTo target fuel s).ackPrefix := by
  induction fuel generalizing s with
  | zero => exact ⟨fun q hq => Or.inl hq, rfl, Nat.le_refl _⟩
  | succ fuel ih =>
    unfold Send.ackUpTo
    by_cases h : s.ackPrefix < target
    · rw [if_pos h]
      obtain ⟨i1, i2, i3⟩ := ih s.ackFront
      obtain ⟨f1, f2, f3⟩ := ackFront_spec s
      refine ⟨fun q hq => ?_, by rw [i2, f2], Nat.le_trans f3 i3⟩
      rcases i1 q hq with e | e
      · rcases f1 q e with e' | e'
        · left; exact e'
        · right; omega
      · right; exact e
    · rw [if_neg h]; exact ⟨fun q hq => Or.inl hq, rfl, Nat.le_refl _⟩

theorem ackPrefixTo_spec (s : Send) (p : Nat) :
    (∀ q, (s.ackPrefixTo p).acked q → s.acked q ∨ q < p) ∧
    (s.ackPrefixTo p).nextSeq = s.nextSeq ∧ s.ackPrefix ≤ (s.ackPrefixTo p).ackPrefix := by
  unfold Send.ackPrefixTo
  by_cases h0 : p = 0
  · rw [if_pos h0]; exact ⟨fun q hq => Or.inl hq, rfl, Nat.le_refl _⟩
  · rw [if_neg h0]
    by_cases h1 : (!s.inWindow (p - 1)) = true
    · rw [if_pos h1]; exact ⟨fun q hq => Or.inl hq, rfl, Nat.le_refl _⟩
    · rw [if_neg h1]; exact ackUpTo_spec p _ s

theorem foldl_ackChunk_spec (set : List Nat) (s : Send) :
    (∀ q, (set.foldl Send.ackChunk s).acked q → s.acked q ∨ q ∈ set) ∧
    (set.foldl Send.ackChunk s).nextSeq = s.nextSeq ∧ s.ackPrefix ≤ (set.foldl Send.ackChunk s).ackPrefix := by
  induction set generalizing s with
  | nil => simp
  | cons a rest ih =>
    simp only [List.foldl_cons]
    obtain ⟨i1, i2, i3⟩ := ih (s.ackChunk a)
    obtain ⟨c1, c2, c3⟩ := ackChunk_spec s a
    refine ⟨fun q hq => ?_, by rw [i2, c2], Nat.le_trans c3 i3⟩
    rcases i1 q hq with e | e
    · rcases c1 q e with e' | e'
      · left; exact e'
      · right; simp [e']
    · right; simp [e]

theorem push_spec (s : Send) (n : Nat) :
    (∀ q, (s.push n).acked q → s.acked q) ∧ (s.push n).nextSeq = s.nextSeq + n ∧
    (s.push n).ackPrefix = s.ackPrefix := by
  refine ⟨?_, by simp [Send.push, Send.nextSeq]; omega, rfl⟩
  intro q hq
  unfold Send.acked at hq ⊢
  simp only [Send.push] at hq
  rcases hq with hq | ⟨hle, d, hd, hda⟩
  · left; exact hq
  · right
    refine ⟨hle, d, ?_, hda⟩
    by_cases hlt : q - s.ackPrefix < s.window.length
    · rw [List.getElem?_append_left hlt] at hd; exact hd
    · rw [List.getElem?_append_right (by omega)] at hd
      have := List.getElem?_eq_some_iff.mp hd
      obtain ⟨_, h2⟩ := this
      simp at h2
      rw [← h2] at hda
      simp at hda

/-! ### the composed system -/

def dgramOk (σ : Sys) : Dgram → Prop
  | .data _ => True
  | .ack p set => p ≤ σ.rcv.ackPrefix ∧ ∀ q ∈ set, q ∈ σ.arrived

structure SInv (σ : Sys) : Prop where
  parts : ∀ m ∈ σ.msgs, m ≠ []
  rinv : RInv (chunksOf σ.msgs) σ.arrived σ.rcv
  rpost : σ.rcv.window.lookup σ.rcv.ackPrefix = none
  next : σ.snd.nextSeq = (chunksOf σ.msgs).length
  acked : ∀ q, σ.snd.acked q → q ∈ σ.arrived
  net : ∀ d ∈ σ.net, dgramOk σ d

theorem sinv_init : SInv {} where
  parts := by intro m h; cases h
  rinv := rinv_init _
  rpost := rfl
  next := rfl
  acked := by
    intro q h
    unfold Send.acked at h
    rcases h with h | ⟨_, c, h, _⟩
    · cases h
    · simp at h
  net := by intro d h; cases h

theorem rinv_extend (chunks extra : List Chunk) (arr : List Nat) (r : Recv) (h : RInv chunks arr r) :
    RInv (chunks ++ extra) arr r where
  win := by
    intro s c hs
    obtain ⟨a, b, d⟩ := h.win s c hs
    refine ⟨a, b, ?_⟩
    have := (List.getElem?_eq_some_iff.mp d).1
    rw [List.getElem?_append_left this]; exact d
  arrd := h.arrd
  below := h.below
  scn := by
    rw [h.scn, List.take_append_of_le_length h.le]
  le := by have := h.le; simp; omega

theorem dgramOk_mono (σ σ' : Sys) (d : Dgram) (h : dgramOk σ d) (hp : σ.rcv.ackPrefix ≤ σ'.rcv.ackPrefix)
    (ha : ∀ q, q ∈ σ.arrived → q ∈ σ'.arrived) : dgramOk σ' d := by
  cases d with
  | data s => trivial
  | ack p set => exact ⟨Nat.le_trans h.1 hp, fun q hq => ha q (h.2 q hq)⟩

theorem sinv_step (σ : Sys) (a : Act) (h : SInv σ) : SInv (σ.step a) := by
  cases a with
  | submit parts =>
    simp only [Sys.step]
    by_cases he : parts.isEmpty = true
    · rw [if_pos he]; exact h
    · rw [if_neg he]
      have hne : parts ≠ [] := by intro e; subst e; simp at he
      obtain ⟨p1, p2, p3⟩ := push_spec σ.snd parts.length
      refine ⟨?_, ?_, h.rpost, ?_, fun q hq => h.acked q (p1 q hq), ?_⟩
      · intro m hm
        simp only [List.mem_append, List.mem_singleton] at hm
        rcases hm with hm | hm
        · exact h.parts m hm
        · subst hm; exact hne
      · simp only; rw [chunksOf_snoc]; exact rinv_extend _ _ _ _ h.rinv
      · simp only; rw [p2, h.next, chunksOf_snoc, List.length_append, length_chunksOfMsg]
      · intro d hd; exact dgramOk_mono σ _ d (h.net d hd) (Nat.le_refl _) (fun _ x => x)
  | send seq =>
    simp only [Sys.step]
    by_cases hs : sendable σ.snd seq = true
    · rw [if_pos hs]
      refine ⟨h.parts, h.rinv, h.rpost, h.next, h.acked, ?_⟩
      intro d hd
      simp only [List.mem_append, List.mem_singleton] at hd
      rcases hd with hd | hd
      · exact dgramOk_mono σ _ d (h.net d hd) (Nat.le_refl _) (fun _ x => x)
      · subst hd; trivial
    · rw [if_neg hs]; exact h
  | lose i =>
    simp only [Sys.step]
    refine ⟨h.parts, h.rinv, h.rpost, h.next, h.acked, ?_⟩
    intro d hd
    exact dgramOk_mono σ _ d (h.net d (List.mem_of_mem_eraseIdx hd)) (Nat.le_refl _) (fun _ x => x)
  | dup i =>
    simp only [Sys.step]
    cases hg : σ.net[i]? with
    | none => exact h
    | some d0 =>
      simp only
      refine ⟨h.parts, h.rinv, h.rpost, h.next, h.acked, ?_⟩
      intro d hd
      simp only [List.mem_append, List.mem_singleton] at hd
      rcases hd with hd | hd
      · exact dgramOk_mono σ _ d (h.net d hd) (Nat.le_refl _) (fun _ x => x)
      · subst hd
        exact dgramOk_mono σ _ d (h.net d (List.mem_of_getElem? hg)) (Nat.le_refl _) (fun _ x => x)
  | deliver i =>
    simp only [Sys.step]
    cases hg : σ.net[i]? with
    | none => exact h
    | some d0 =>
      cases d0 with
      | data seq =>
        simp only
        obtain ⟨a1, a2, a3⟩ := arrive_inv (chunksOf σ.msgs) σ.arrived σ.rcv seq h.rinv h.rpost
        have hsub : ∀ q, q ∈ σ.arrived →
            q ∈ (if seq < (chunksOf σ.msgs).length then seq :: σ.arrived else σ.arrived) := by
          intro q hq; split
          · exact List.mem_cons_of_mem _ hq
          · exact hq
        refine ⟨h.parts, a1, a2, h.next, fun q hq => hsub q (h.acked q hq), ?_⟩
        intro d hd
        exact dgramOk_mono σ _ d (h.net d (List.mem_of_mem_eraseIdx hd)) a3 hsub
      | ack p set =>
        simp only
        have hok := h.net _ (List.mem_of_getElem? hg)
        obtain ⟨p1, p2, _⟩ := ackPrefixTo_spec σ.snd p
        obtain ⟨f1, f2, _⟩ := foldl_ackChunk_spec set (σ.snd.ackPrefixTo p)
        refine ⟨h.parts, h.rinv, h.rpost, by simp only; rw [f2, p2, h.next], ?_, ?_⟩
        · intro q hq
          simp only at hq
          rcases f1 q hq with e | e
          · rcases p1 q e with e' | e'
            · exact h.acked q e'
            · exact h.rinv.below q (Nat.lt_of_lt_of_le e' hok.1)
          · exact hok.2 q e
        · intro d hd
          exact dgramOk_mono σ _ d (h.net d (List.mem_of_mem_eraseIdx hd)) (Nat.le_refl _) (fun _ x => x)
  | sendAck p pick =>
    simp only [Sys.step]
    refine ⟨h.parts, h.rinv, h.rpost, h.next, h.acked, ?_⟩
    intro d hd
    simp only [List.mem_append, List.mem_singleton] at hd
    rcases hd with hd | hd
    · exact dgramOk_mono σ _ d (h.net d hd) (Nat.le_refl _) (fun _ x => x)
    · subst hd
      refine ⟨Nat.min_le_right _ _, ?_⟩
      intro q hq
      have := (List.mem_filter.mp hq).2
      exact List.contains_iff_mem.mp this

theorem sinv_run_aux (acts : List Act) (σ : Sys) (h : SInv σ) : SInv (acts.foldl Sys.step σ) := by
  induction acts generalizing σ with
  | nil => exact h
  | cons a rest ih => exact ih _ (sinv_step σ a h)

theorem sinv_run (acts : List Act) : SInv (Sys.run acts) := sinv_run_aux acts {} sinv_init

/-- the receiver's prefix is the first sequence number that has not arrived -/
theorem rcv_prefix_not_arrived (σ : Sys) (h : SInv σ) : σ.rcv.ackPrefix ∉ σ.arrived := by
  intro hm
  rcases h.rinv.arrd _ hm with e | e
  · omega
  · rw [h.rpost] at e; simp at e

end TLVerif.Udp
