import TLVerif.Util.Hex
import TLVerif.Udp.Monitor
/-! Line-protocol handler for the `udp` family.

`udp.mon <limit> <flags> <trace>`: run the monitor over a `;`-separated event trace (grammar in
go/hudp/overlay/verif_sim.go). flags: bit0 delivery, bit1 acks, bit2 live.
Result: `acc sub=<n> del=<n> live=<n> outlive=<n> maxmem=<n> mem=<n> settled=<0|1>` or `rej <index> <reason>`. -/
namespace TLVerif.Udp
open TLVerif.Util

def nats (ws : List String) : Option (List Nat) := ws.mapM (·.toNat?)

def parseMsg (ws : List String) : Option Msg :=
  match ws with
  | [m, len] =>
    if m.startsWith "m" then
      match (m.drop 1).toString.toNat?, len.toNat? with
      | some c, some l => some [0, c, l]
      | _, _ => none
    else none
  | [x] =>
    if x.startsWith "x" then
      match bytesOfHex (x.drop 1).toString with
      | some bs => some (1 :: bs.map (·.toNat))
      | none => none
    else none
  | _ => none

def parseEvent (tok : String) : Option Event :=
  if tok == "z" then some .settle else
  let c := tok.front
  let ws := (tok.drop 1).toString.splitOn "."
  if c == 's' || c == 'd' then
    match ws with
    | a :: b :: rest =>
      match a.toNat?, b.toNat?, parseMsg rest with
      | some a, some b, some m => some (if c == 's' then .submit (a, b, m) else .deliver (a, b, m))
      | _, _, _ => none
    | _ => none
  else
    match c, nats ws with
    | 'a', some [t, n] => some (.acquire t n)
    | 'r', some [t, n] => some (.release t n)
    | 'b', some [i] => some (.alloc (0, i))
    | 'f', some [i] => some (.free (0, i))
    | 'o', some [i] => some (.alloc (1, i))
    | 'g', some [i] => some (.free (1, i))
    | 'p', some [c, k, v] => some (.ackPrefix (c, k) v)
    | _, _ => none

def parseTrace (s : String) : Option (List Event) :=
  if s == "-" then some [] else (s.splitOn ";").mapM parseEvent

def rejStr : Rej → String
  | .afterSettle => "after-settle"
  | .badDelivery => "bad-delivery"
  | .ackBackwards => "ack-backwards"
  | .overLimit => "over-limit"
  | .releaseUnderflow => "release-underflow"
  | .allocTwice => "alloc-twice"
  | .badFree => "bad-free"
  | .pendingAtSettle => "pending-at-settle"
  | .memAtSettle => "mem-at-settle"
  | .liveAtSettle => "live-at-settle"

def memKeys (l : List (Nat × Nat)) : List Nat := (l.map (·.1)).eraseDups

def handle (op : String) (args : List String) : String :=
  match op, args with
  | "mon", [lim, fl, tr] =>
    match lim.toNat?, fl.toNat?, parseTrace tr with
    | some limit, some flags, some evs =>
      let cfg : Cfg := { limit := limit, delivery := flags % 2 == 1, acks := (flags / 2) % 2 == 1,
                         live := (flags / 4) % 2 == 1 }
      match runIdx cfg {} 0 evs with
      | .error (i, r) => s!"rej {i} {rejStr r}"
      | .ok st =>
        let total := (memKeys st.mem).foldl (fun acc t => acc + getD0 st.mem t) 0
        s!"acc sub={st.nsub} del={st.ndel} live={(st.live.filter (fun b => b.1 == 0)).length} outlive={(st.live.filter (fun b => b.1 == 1)).length} maxmem={st.maxmem} mem={total} settled={if st.settled then 1 else 0}"
    | _, _, _ => "bad-op"
  | _, _ => "bad-op"

end TLVerif.Udp
