import TLVerif.Util.Hex
import TLVerif.Udp.Monitor
import TLVerif.Udp.Window
import TLVerif.Udp.Resend
/-! Line-protocol handler for the `udp` family.

`udp.mon <limit> <flags> <trace>`: run the monitor over a `;`-separated event trace (grammar in
go/hudp/overlay/verif_sim.go). flags: bit0 delivery, bit1 acks, bit2 live.
Result: `acc sub=<n> del=<n> live=<n> outlive=<n> maxmem=<n> mem=<n> settled=<0|1>` or `rej <index> <reason>`. -/
namespace TLVerif.Udp
open TLVerif.Util

def nats (ws : List String) : Option (List Nat) := ws.mapM (·.toNat?)

def parseMsg (ws : List String) : Option Msg :=
  match ws with
  | [m, len] =>
    if m.startsWith "m" then
      match (m.drop 1).toString.toNat?, len.toNat? with
      | some c, some l => some [0, c, l]
      | _, _ => none
    else none
  | [x] =>
    if x.startsWith "x" then
      match bytesOfHex (x.drop 1).toString with
      | some bs => some (1 :: bs.map (·.toNat))
      | none => none
    else none
  | _ => none

def parseEvent (tok : String) : Option Event :=
  if tok == "z" then some .settle else
  let c := tok.front
  let ws := (tok.drop 1).toString.splitOn "."
  if c == 's' || c == 'd' then
    match ws with
    | a :: b :: rest =>
      match a.toNat?, b.toNat?, parseMsg rest with
      | some a, some b, some m => some (if c == 's' then .submit (a, b, m) else .deliver (a, b, m))
      | _, _, _ => none
    | _ => none
  else
    match c, nats ws with
    | 'a', some [t, n] => some (.acquire t n)
    | 'r', some [t, n] => some (.release t n)
    | 'b', some [i] => some (.alloc (0, i))
    | 'f', some [i] => some (.free (0, i))
    | 'o', some [i] => some (.alloc (1, i))
    | 'g', some [i] => some (.free (1, i))
    | 'p', some [c, k, v] => some (.ackPrefix (c, k) v)
    | _, _ => none

def parseTrace (s : String) : Option (List Event) :=
  if s == "-" then some [] else (s.splitOn ";").mapM parseEvent

def rejStr : Rej → String
  | .afterSettle => "after-settle"
  | .badDelivery => "bad-delivery"
  | .ackBackwards => "ack-backwards"
  | .overLimit => "over-limit"
  | .releaseUnderflow => "release-underflow"
  | .allocTwice => "alloc-twice"
  | .badFree => "bad-free"
  | .pendingAtSettle => "pending-at-settle"
  | .memAtSettle => "mem-at-settle"
  | .liveAtSettle => "live-at-settle"

def memKeys (l : List (Nat × Nat)) : List Nat := (l.map (·.1)).eraseDups

/-! ### window model ops (`udp.rcv`, `udp.snd`; formats in go/hudp/overlay/verif_window.go) -/

def winByte (i o : Nat) : Nat := (i * 37 + o * 11 + 5) % 256

def checksum (m : List Nat) : Nat :=
  (m.foldl (fun (acc : Nat × Nat) b => ((acc.1 * 31 + b * (acc.2 % 7 + 1) + 1) % 4294967296, acc.2 + 1)) (0, 0)).1

def partsOf (i : Nat) : Nat → List Nat → List Payload
  | _, [] => []
  | o, n :: ns => (List.range n).map (fun k => winByte i (o + k)) :: partsOf i (o + n) ns

def parseMsgsAux (i : Nat) : List String → Option (List (List Payload))
  | [] => some []
  | m :: ms =>
    match nats (m.splitOn "."), parseMsgsAux (i + 1) ms with
    | some lens, some rest => if lens.all (· > 0) then some (partsOf i 0 lens :: rest) else none
    | _, _ => none

def parseMsgs (spec : String) : Option (List (List Payload)) :=
  if spec == "-" then some [] else parseMsgsAux 0 (spec.splitOn ",")

def dash (s : String) : String := if s.isEmpty then "-" else s

def msgStr (m : Payload) : String := s!"{m.length}:{checksum m}"

/-- returns the final receiver, the per-datagram reports and the highest sequence number that arrived (+1) -/
def rcvRun (chunks : List Chunk) : Recv → Nat → List String → List String → Option (Recv × Nat × List String)
  | r, hi, [], acc => some (r, hi, acc.reverse)
  | r, hi, a :: as, acc =>
    match nats (a.splitOn "+") with
    | some [from_, count] =>
      if count = 0 then none
      else if from_ + count > chunks.length then
        rcvRun chunks r hi as (s!"p{r.ackPrefix}d{r.delivered.length}r-" :: acc)
      else
        let r' := (List.range count).foldl (fun r k => arrive chunks r (from_ + k)) r
        rcvRun chunks r' (max hi (from_ + count)) as
          (s!"p{r'.ackPrefix}d{r'.delivered.length}r{from_}-{from_ + count - 1}" :: acc)
    | _ => none

/-- acquired memory as the Go code accounts it (not part of the proved model): the stream offset of the
end of the furthest message any chunk of which has arrived, minus what was handed over -/
def rcvMem (msgs : List (List Payload)) (chunks : List Chunk) (hi : Nat) (r : Recv) : Nat :=
  match hi with
  | 0 => 0
  | h + 1 =>
    match chunks[h]? with
    | none => 0
    | some c => (((msgs.take (c.msg + 1)).map (fun m => m.flatten.length)).foldl (· + ·) 0) -
                ((r.delivered.map (·.length)).foldl (· + ·) 0)

def flagsStr (w : List OChunk) : String := String.ofList (w.map (fun c => if c.acked then '1' else '0'))

def parseRanges (s : String) : Option (List (Nat × Nat)) :=
  (s.splitOn "/").mapM (fun r => match nats (r.splitOn "-") with
    | some [a, b] => some (a, b)
    | _ => none)

def sndStepStr (x : SendX) : String :=
  s!"{x.base.ackPrefix}:{x.base.nextSeq}:{dash (flagsStr x.base.window)}:{x.base.released.length}:{x.timeouted}.{x.nonTimeouted}.{x.notSended}.{x.chunkToSend}"

def sndRun : SendX → List String → List String → Option (SendX × List String)
  | s, [], acc => some (s, acc.reverse)
  | s, op :: ops, acc =>
    let c := op.front
    let rest := (op.drop 1).toString
    if c == 'r' then
      match parseRanges rest with
      | none => none
      | some rs => let s' := s.setResend rs; sndRun s' ops (sndStepStr s' :: acc)
    else
    match rest.toNat? with
    | none => none
    | some n =>
      if c == 'g' then
        let (s', pk) := s.getChunks {}
        if pk.nilDeref then some (s', (("panic" :: acc).reverse))
        else
          let g := s!":g{pk.seqs.headD 0}.{if pk.single then 1 else 0}.{dash ("+".intercalate (pk.seqs.map toString))}.{s'.resendIndex}.{s'.rangeInner}"
          sndRun s' ops ((sndStepStr s' ++ g) :: acc)
      else
      let s' : Option SendX :=
        if c == 'm' then (if n < 1 || s.base.nextMsg > 250 then none else some (s.push (List.replicate (n - 1) 28 ++ [4])))
        else if c == 's' then (if n < 1 || n > 28 || s.base.nextMsg > 250 then none else some (s.push [n]))
        else if c == 'c' then some (s.ackChunk n)
        else if c == 'p' then some (s.ackPrefixTo n)
        else if c == 't' then some s.onResendTimeout
        else none
      match s' with
      | none => none
      | some s' => sndRun s' ops (sndStepStr s' :: acc)

def handle (op : String) (args : List String) : String :=
  match op, args with
  | "rcv", [spec, arrivals] =>
    match parseMsgs spec with
    | none => "bad-op"
    | some msgs =>
      match rcvRun (chunksOf msgs) {} 0 (if arrivals == "-" then [] else arrivals.splitOn ",") [] with
      | none => "bad-op"
      | some (r, hi, steps) =>
        s!"ok {dash (",".intercalate steps)} {dash (",".intercalate (r.delivered.map msgStr))} mem={rcvMem msgs (chunksOf msgs) hi r}"
  | "snd", [ops] =>
    match sndRun {} (if ops == "-" then [] else ops.splitOn ",") [] with
    | none => "bad-op"
    | some (s, steps) =>
      if steps.getLast? == some "panic" then "panic"
      else s!"ok {dash (",".intercalate steps)} {dash (",".intercalate (s.base.released.map toString))}"
  | "mon", [lim, fl, tr] =>
    match lim.toNat?, fl.toNat?, parseTrace tr with
    | some limit, some flags, some evs =>
      let cfg : Cfg := { limit := limit, delivery := flags % 2 == 1, acks := (flags / 2) % 2 == 1,
                         live := (flags / 4) % 2 == 1 }
      match runIdx cfg {} 0 evs with
      | .error (i, r) => s!"rej {i} {rejStr r}"
      | .ok st =>
        let total := (memKeys st.mem).foldl (fun acc t => acc + getD0 st.mem t) 0
        s!"acc sub={st.nsub} del={st.ndel} live={(st.live.filter (fun b => b.1 == 0)).length} outlive={(st.live.filter (fun b => b.1 == 1)).length} maxmem={st.maxmem} mem={total} settled={if st.settled then 1 else 0}"
    | _, _, _ => "bad-op"
  | _, _ => "bad-op"

end TLVerif.Udp
