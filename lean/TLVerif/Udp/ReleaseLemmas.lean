import TLVerif.Udp.SysLemmas
/-! Release bookkeeping of the sender: a message buffer is handed to the deallocator exactly once,
exactly when no chunk of the message is left in the window. -/
namespace TLVerif.Udp

def cnt (w : List OChunk) (m : Nat) : Nat := w.countP (fun c => c.msg == m)

structure RelInv (s : Send) : Prop where
  refs : ∀ m, refOf s.refs m = cnt s.window m
  rel : ∀ m, m ∈ s.released ↔ (m < s.nextMsg ∧ cnt s.window m = 0)
  nodup : s.released.Nodup
  bound : ∀ c ∈ s.window, c.msg < s.nextMsg

theorem relInv_init : RelInv {} where
  refs := by intro m; simp [refOf, cnt]
  rel := by intro m; simp
  nodup := List.nodup_nil
  bound := by intro c h; cases h

theorem refOf_cons (refs : List (Nat × Nat)) (k v m : Nat) :
    refOf ((k, v) :: refs) m = if m = k then v else refOf refs m := by
  unfold refOf
  rw [List.lookup_cons]
  by_cases h : m = k
  · subst h; simp
  · have : (m == k) = false := by simpa using h
    rw [this]; simp [h]

theorem cnt_cons (c : OChunk) (w : List OChunk) (m : Nat) :
    cnt (c :: w) m = cnt w m + if c.msg = m then 1 else 0 := by
  unfold cnt
  rw [List.countP_cons]
  by_cases h : c.msg = m <;> simp [h]

theorem cnt_zero_of_bound (w : List OChunk) (n : Nat) (h : ∀ c ∈ w, c.msg < n) : cnt w n = 0 := by
  unfold cnt
  apply List.countP_eq_zero.mpr
  intro c hc
  have := h c hc
  simp; omega

theorem cnt_append (a b : List OChunk) (m : Nat) : cnt (a ++ b) m = cnt a m + cnt b m := by
  simp [cnt, List.countP_append]

theorem cnt_replicate (n k m : Nat) : cnt (List.replicate n ⟨k, false⟩) m = if k = m then n else 0 := by
  induction n with
  | zero => simp [cnt]
  | succ n ih =>
    rw [List.replicate_succ, cnt_cons, ih]
    by_cases h : k = m <;> simp [h]

theorem push_relInv (s : Send) (n : Nat) (hn : 0 < n) (h : RelInv s) : RelInv (s.push n) := by
  have hz := cnt_zero_of_bound s.window s.nextMsg h.bound
  refine ⟨?_, ?_, h.nodup, ?_⟩
  · intro m
    simp only [Send.push, refOf_cons, cnt_append, cnt_replicate]
    by_cases e : m = s.nextMsg
    · subst e; simp [hz]
    · have e' : ¬ s.nextMsg = m := fun x => e x.symm
      simp [e, e', h.refs m]
  · intro m
    simp only [Send.push, cnt_append, cnt_replicate]
    rw [h.rel m]
    by_cases e : s.nextMsg = m
    · subst e; simp; omega
    · simp [e]
      intro _
      constructor
      · intro h1; omega
      · intro h1; omega
  · intro c hc
    simp only [Send.push, List.mem_append] at hc ⊢
    rcases hc with hc | hc
    · have := h.bound c hc; omega
    · have := List.eq_of_mem_replicate hc
      subst this; simp

/-- dropping the front chunk `c` and un-referencing its message -/
theorem dropOne_relInv (s : Send) (c : OChunk) (rest : List OChunk) (hw : s.window = c :: rest) (h : RelInv s) :
    RelInv (({ s with window := rest, ackPrefix := s.ackPrefix + 1 } : Send).unref c.msg) := by
  have hcnt : cnt s.window c.msg = cnt rest c.msg + 1 := by rw [hw, cnt_cons]; simp
  have href := h.refs c.msg
  have hnotrel : c.msg ∉ s.released := by
    intro hm
    have := (h.rel c.msg).mp hm
    omega
  have hb : c.msg < s.nextMsg := h.bound c (by rw [hw]; simp)
  refine ⟨?_, ?_, ?_, ?_⟩
  · intro m
    simp only [Send.unref, refOf_cons]
    by_cases e : m = c.msg
    · subst e; simp; omega
    · have e' : ¬ c.msg = m := fun x => e x.symm
      have := h.refs m
      rw [hw, cnt_cons] at this
      simp [e, e'] at this ⊢
      exact this
  · intro m
    simp only [Send.unref]
    by_cases e : m = c.msg
    · subst e
      by_cases hz : refOf s.refs c.msg - 1 = 0
      · rw [if_pos hz]
        simp only [List.mem_append, List.mem_singleton, or_true, true_iff]
        exact ⟨hb, by omega⟩
      · rw [if_neg hz]
        constructor
        · intro hm; exact absurd hm hnotrel
        · intro hm; omega
    · have hm : cnt s.window m = cnt rest m := by
        rw [hw, cnt_cons]
        have e' : ¬ c.msg = m := fun x => e x.symm
        simp [e']
      have := h.rel m
      rw [hm] at this
      by_cases hz : refOf s.refs c.msg - 1 = 0
      · rw [if_pos hz]
        simp only [List.mem_append, List.mem_singleton, e, or_false]
        exact this
      · rw [if_neg hz]; exact this
  · simp only [Send.unref]
    by_cases hz : refOf s.refs c.msg - 1 = 0
    · rw [if_pos hz]
      apply List.nodup_append.mpr
      refine ⟨h.nodup, by simp, ?_⟩
      intro a ha b hb'
      simp at hb'; subst hb'
      intro e; subst e; exact hnotrel ha
    · rw [if_neg hz]; exact h.nodup
  · intro d hd
    simp only [Send.unref] at hd ⊢
    exact h.bound d (by rw [hw]; exact List.mem_cons_of_mem _ hd)

theorem dropFront_relInv (fuel : Nat) (s : Send) (h : RelInv s) : RelInv (Send.dropFront fuel s) := by
  induction fuel generalizing s with
  | zero => exact h
  | succ fuel ih =>
    unfold Send.dropFront
    cases hw : s.window with
    | nil => simpa [hw] using h
    | cons c rest =>
      simp only
      have h1 := dropOne_relInv s c rest hw h
      cases rest with
      | nil => exact h1
      | cons d rest' =>
        simp only
        by_cases hd : d.acked = true
        · rw [if_pos hd]; exact ih _ h1
        · rw [if_neg hd]; exact h1

theorem relInv_of_same_msgs (s : Send) (w : List OChunk) (h : RelInv s)
    (hc : ∀ m, cnt w m = cnt s.window m) (hb : ∀ c ∈ w, c.msg < s.nextMsg) : RelInv { s with window := w } where
  refs := by intro m; simp only; rw [hc]; exact h.refs m
  rel := by intro m; simp only; rw [hc]; exact h.rel m
  nodup := h.nodup
  bound := hb

theorem ackFront_relInv (s : Send) (h : RelInv s) : RelInv s.ackFront := by
  unfold Send.ackFront
  cases hw : s.window with
  | nil => simpa [hw] using h
  | cons c rest =>
    simp only
    apply dropFront_relInv
    apply relInv_of_same_msgs s _ h
    · intro m; rw [hw, cnt_cons, cnt_cons]
    · intro d hd
      rcases List.mem_cons.mp hd with e | e
      · subst e; exact h.bound c (by rw [hw]; simp)
      · exact h.bound d (by rw [hw]; exact List.mem_cons_of_mem _ e)

theorem markAcked_cnt (i : Nat) (w : List OChunk) (m : Nat) : cnt (markAcked i w) m = cnt w m := by
  induction w generalizing i with
  | nil => simp [markAcked]
  | cons c cs ih =>
    cases i with
    | zero => simp [markAcked, cnt_cons]
    | succ i => simp [markAcked, cnt_cons, ih]

theorem markAcked_bound (i n : Nat) (w : List OChunk) (h : ∀ c ∈ w, c.msg < n) : ∀ c ∈ markAcked i w, c.msg < n := by
  induction w generalizing i with
  | nil => simp [markAcked]
  | cons c cs ih =>
    cases i with
    | zero =>
      intro d hd
      simp [markAcked] at hd
      rcases hd with e | e
      · subst e; exact h c (by simp)
      · exact h d (by simp [e])
    | succ i =>
      intro d hd
      simp [markAcked] at hd
      rcases hd with e | e
      · subst e; exact h d (by simp)
      · exact ih i (fun x hx => h x (by simp [hx])) d e

theorem ackChunk_relInv (s : Send) (seq : Nat) (h : RelInv s) : RelInv (s.ackChunk seq) := by
  unfold Send.ackChunk
  split
  · exact h
  · split
    · exact ackFront_relInv s h
    · exact relInv_of_same_msgs s _ h (markAcked_cnt _ _) (markAcked_bound _ _ _ h.bound)

theorem ackUpTo_relInv (target fuel : Nat) (s : Send) (h : RelInv s) : RelInv (Send.ackUpTo target fuel s) := by
  induction fuel generalizing s with
  | zero => exact h
  | succ fuel ih =>
    unfold Send.ackUpTo
    split
    · exact ih _ (ackFront_relInv s h)
    · exact h

theorem ackPrefixTo_relInv (s : Send) (p : Nat) (h : RelInv s) : RelInv (s.ackPrefixTo p) := by
  unfold Send.ackPrefixTo
  split
  · exact h
  · split
    · exact h
    · exact ackUpTo_relInv _ _ _ h

/-- operations on the sender -/
inductive SOp where
  | push (parts : Nat)
  | ackChunk (seq : Nat)
  | ackPrefix (p : Nat)

def Send.apply (s : Send) : SOp → Send
  | .push n => if n = 0 then s else s.push n
  | .ackChunk q => s.ackChunk q
  | .ackPrefix p => s.ackPrefixTo p

def sendRun (ops : List SOp) : Send := ops.foldl Send.apply {}

theorem sendRun_relInv (ops : List SOp) : RelInv (sendRun ops) := by
  suffices h : ∀ s, RelInv s → RelInv (ops.foldl Send.apply s) from h {} relInv_init
  induction ops with
  | nil => intro s h; exact h
  | cons o rest ih =>
    intro s h
    apply ih
    cases o with
    | push n =>
      simp only [Send.apply]
      split
      · exact h
      · exact push_relInv s n (by omega) h
    | ackChunk q => exact ackChunk_relInv s q h
    | ackPrefix p => exact ackPrefixTo_relInv s p h

end TLVerif.Udp
