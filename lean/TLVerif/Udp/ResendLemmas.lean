import TLVerif.Udp.Resend
/-! `GetChunksToSend` puts only consecutive sequence numbers into one datagram. -/
namespace TLVerif.Udp

/-- consecutive sequence numbers `f, f+1, …` -/
def Contig (l : List Nat) : Prop := ∃ f n, l = List.range' f n

theorem contig_nil : Contig [] := ⟨0, 0, rfl⟩

/-- loop invariant: nothing picked yet, or exactly the numbers `f … seq-1` were picked -/
def Good (seq : Nat) (pk : Pick) : Prop :=
  (pk.prevMsg = none ∧ pk.seqs = []) ∨
  (pk.prevMsg.isSome = true ∧ ∃ f, f < seq ∧ pk.seqs = List.range' f (seq - f))

theorem good_contig (seq : Nat) (pk : Pick) (h : Good seq pk) : Contig pk.seqs := by
  rcases h with ⟨_, h⟩ | ⟨_, f, _, h⟩
  · rw [h]; exact contig_nil
  · exact ⟨f, _, h⟩

theorem good_extend (seq : Nat) (pk : Pick) (m n : Nat) (single : Bool) (h : Good seq pk) :
    Good (seq + 1) { pk with seqs := pk.seqs ++ [seq], payloadSize := n, prevMsg := some m, single := single } := by
  right
  refine ⟨rfl, ?_⟩
  rcases h with ⟨_, h⟩ | ⟨_, f, hf, h⟩
  · refine ⟨seq, by omega, ?_⟩
    simp [h, List.range']
  · refine ⟨f, by omega, ?_⟩
    simp only [h]
    have : seq + 1 - f = (seq - f) + 1 := by omega
    rw [this, List.range'_concat]
    simp
    omega

theorem resendInner_contig (cfg : SendCfg) (x : SendX) (fuel seq to inner : Nat) (pk : Pick)
    (h : Good seq pk) (hge : pk.prevMsg.isSome = true → x.base.ackPrefix ≤ seq) :
    Contig (resendInner cfg x fuel seq to inner pk).2.1.seqs := by
  induction fuel generalizing seq inner pk with
  | zero => exact good_contig seq pk h
  | succ fuel ih =>
    unfold resendInner
    split
    · exact good_contig seq pk h
    · split
      · rename_i hlt
        -- below the prefix: only possible while nothing is picked
        rcases h with ⟨h1, h2⟩ | ⟨h1, _⟩
        · exact ih (seq + 1) (inner + 1) pk (Or.inl ⟨h1, h2⟩) (by intro e; rw [h1] at e; simp at e)
        · have := hge h1; omega
      · rename_i hnlt
        split
        · exact good_contig seq pk h
        · rename_i c n _
          split
          · split
            · exact good_contig seq pk h
            · rename_i hnone
              have hp : pk.prevMsg = none := by
                cases hpm : pk.prevMsg with
                | none => rfl
                | some v => rw [hpm] at hnone; simp at hnone
              rcases h with ⟨h1, h2⟩ | ⟨h1, _⟩
              · exact ih (seq + 1) (inner + 1) pk (Or.inl ⟨h1, h2⟩) (by intro e; rw [h1] at e; simp at e)
              · rw [hp] at h1; simp at h1
          · split
            · exact good_contig seq pk h
            · split
              · exact ih (seq + 1) (inner + 1) _ (good_extend seq pk c.msg _ pk.single h) (by intro _; omega)
              · split
                · exact good_contig seq pk h
                · exact ih (seq + 1) (inner + 1) _ (good_extend seq pk c.msg _ false h) (by intro _; omega)

theorem resendOuter_contig (cfg : SendCfg) (fuel : Nat) (x : SendX) :
    Contig (resendOuter cfg fuel x).2.seqs := by
  induction fuel generalizing x with
  | zero => exact contig_nil
  | succ fuel ih =>
    unfold resendOuter
    split
    · exact contig_nil
    · split
      · exact ih _
      · simp only
        split
        · exact resendInner_contig cfg x _ _ _ _ {} (Or.inl ⟨rfl, rfl⟩) (by intro e; simp at e)
        · exact ih _

/-- invariant of the second loop: the picked numbers end right below `chunkToSendSeqNum` -/
def GoodF (x : SendX) (pk : Pick) : Prop :=
  (pk.prevMsg = none ∧ pk.seqs = []) ∨
  (pk.prevMsg.isSome = true ∧ ∃ f, f < x.chunkToSend ∧ pk.seqs = List.range' f (x.chunkToSend - f))

theorem freshLoop_contig (cfg : SendCfg) (fuel : Nat) (x : SendX) (pk : Pick) (h : GoodF x pk) :
    Contig (freshLoop cfg fuel x pk).2.seqs := by
  induction fuel generalizing x pk with
  | zero => exact good_contig x.chunkToSend pk h
  | succ fuel ih =>
    unfold freshLoop
    simp only
    split
    · split
      · exact good_contig x.chunkToSend pk h
      · split
        · exact good_contig x.chunkToSend pk h
        · rename_i c n _
          split
          · exact good_contig x.chunkToSend pk h
          · split
            · exact good_contig x.chunkToSend pk h
            · have hg := good_extend x.chunkToSend pk c.msg (pk.payloadSize + 4 + n) (pk.single && pk.prevMsg.isNone) h
              split
              · exact good_contig _ _ hg
              · exact ih _ _ hg
    · exact good_contig x.chunkToSend pk h

/-- **Every datagram built by `GetChunksToSend` carries consecutive sequence numbers**, whatever the
window, the acknowledged holes, the send cursors and the (possibly stale, overlapping, out-of-window)
resend request are. -/
theorem getChunks_contig (cfg : SendCfg) (x : SendX) : Contig (x.getChunks cfg).2.seqs := by
  unfold SendX.getChunks
  simp only
  split
  · exact resendOuter_contig cfg _ x
  · exact freshLoop_contig cfg _ _ {} (Or.inl ⟨rfl, rfl⟩)

end TLVerif.Udp
