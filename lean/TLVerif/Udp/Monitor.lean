/-!
# C36 — event monitor for the UDP transport simulator (core only, executable)

The transport itself (pkg/rpc/udp/transport.go + incoming.go + outgoing.go, ~2600 lines with timers)
is not modelled here.  This file defines the *checker* that is run over the event trace emitted by
the instrumented simulator, and — independently of the checker — the specification functions over
traces (`submits`, `delivers`, `memAcq`, `memRel`, `acksOf`, `allocs`, `frees`) that the soundness
theorem `accepted_trace_sound` (Props/C36.lean) is stated with.
-/
namespace TLVerif.Udp

/-- A message as observed: `[0, counter, len]` for contents that are byte-for-byte the generator's
message `counter` of length `len`, `1 :: bytes` for anything else. Equal values ⇔ equal contents. -/
abbrev Msg := List Nat

/-- (source transport, destination transport, contents). -/
abbrev Item := Nat × Nat × Msg

/-- (connection object, which prefix: 0 outgoing acked, 1 incoming received, 2 acks-to-send). -/
abbrev PKey := Nat × Nat

/-- (kind, id): kind 0 = incoming message buffer (transport allocator), kind 1 = outgoing message
buffer (handed to SendMessage). Only kind 0 is "incoming message memory". -/
abbrev Buf := Nat × Nat

inductive Event where
  | submit (x : Item)
  | deliver (x : Item)
  | ackPrefix (k : PKey) (v : Nat)
  | acquire (t n : Nat)
  | release (t n : Nat)
  | alloc (b : Buf)
  | free (b : Buf)
  | settle
  deriving DecidableEq, Repr

structure Cfg where
  limit : Nat
  /-- check exactly-once delivery (runs without connection restarts) -/
  delivery : Bool
  /-- check that prefixes never move backwards -/
  acks : Bool
  /-- require every incoming message buffer (kind 0) to be released at settle -/
  live : Bool
  deriving Repr

/-- Why a trace is rejected. -/
inductive Rej where
  | afterSettle        -- any event after `settle`
  | badDelivery        -- delivered item is not pending: never submitted, corrupted, or delivered twice
  | ackBackwards
  | overLimit
  | releaseUnderflow
  | allocTwice
  | badFree            -- double free / free of unknown buffer
  | pendingAtSettle    -- a submitted message was not delivered
  | memAtSettle
  | liveAtSettle
  deriving DecidableEq, Repr

structure St where
  pending : List Item := []
  prefs : List (PKey × Nat) := []
  mem : List (Nat × Nat) := []
  live : List Buf := []
  settled : Bool := false
  nsub : Nat := 0
  ndel : Nat := 0
  maxmem : Nat := 0
  deriving Repr

/-- association list read with default 0 (first binding wins) -/
def getD0 {κ : Type} [BEq κ] (l : List (κ × Nat)) (k : κ) : Nat := (l.lookup k).getD 0

def step (cfg : Cfg) (s : St) (e : Event) : Except Rej St :=
  if s.settled then .error .afterSettle else
  match e with
  | .submit x => .ok { s with pending := x :: s.pending, nsub := s.nsub + 1 }
  | .deliver x =>
    if cfg.delivery then
      if s.pending.contains x then .ok { s with pending := s.pending.erase x, ndel := s.ndel + 1 }
      else .error .badDelivery
    else .ok { s with ndel := s.ndel + 1 }
  | .ackPrefix k v =>
    if cfg.acks then
      if getD0 s.prefs k ≤ v then .ok { s with prefs := (k, v) :: s.prefs } else .error .ackBackwards
    else .ok s
  | .acquire t n =>
    let m := getD0 s.mem t + n
    if m ≤ cfg.limit then .ok { s with mem := (t, m) :: s.mem, maxmem := max s.maxmem m }
    else .error .overLimit
  | .release t n =>
    let m := getD0 s.mem t
    if n ≤ m then .ok { s with mem := (t, m - n) :: s.mem } else .error .releaseUnderflow
  | .alloc id =>
    if s.live.contains id then .error .allocTwice else .ok { s with live := id :: s.live }
  | .free id =>
    if s.live.contains id then .ok { s with live := s.live.erase id } else .error .badFree
  | .settle =>
    if cfg.delivery && !s.pending.isEmpty then .error .pendingAtSettle
    else if !(s.mem.all (fun p => getD0 s.mem p.1 == 0)) then .error .memAtSettle
    else if cfg.live && !(s.live.filter (fun b => b.1 == 0)).isEmpty then .error .liveAtSettle
    else .ok { s with settled := true }

def runFrom (cfg : Cfg) (s : St) : List Event → Except Rej St
  | [] => .ok s
  | e :: es =>
    match step cfg s e with
    | .ok s' => runFrom cfg s' es
    | .error r => .error r

def run (cfg : Cfg) (tr : List Event) : Except Rej St := runFrom cfg {} tr

/-- index of the first rejected event and the reason (for the driver's output) -/
def runIdx (cfg : Cfg) : St → Nat → List Event → Except (Nat × Rej) St
  | s, _, [] => .ok s
  | s, i, e :: es =>
    match step cfg s e with
    | .ok s' => runIdx cfg s' (i + 1) es
    | .error r => .error (i, r)

/-! ## Specification functions over traces (do not mention the monitor state) -/

def submits : List Event → List Item
  | [] => []
  | .submit x :: es => x :: submits es
  | _ :: es => submits es

def delivers : List Event → List Item
  | [] => []
  | .deliver x :: es => x :: delivers es
  | _ :: es => delivers es

def acksOf (k : PKey) : List Event → List Nat
  | [] => []
  | .ackPrefix k' v :: es => if k' = k then v :: acksOf k es else acksOf k es
  | _ :: es => acksOf k es

def memAcq (t : Nat) : List Event → Nat
  | [] => 0
  | .acquire t' n :: es => (if t' = t then n else 0) + memAcq t es
  | _ :: es => memAcq t es

def memRel (t : Nat) : List Event → Nat
  | [] => 0
  | .release t' n :: es => (if t' = t then n else 0) + memRel t es
  | _ :: es => memRel t es

def allocs (id : Buf) : List Event → Nat
  | [] => 0
  | .alloc i :: es => (if i = id then 1 else 0) + allocs id es
  | _ :: es => allocs id es

def frees (id : Buf) : List Event → Nat
  | [] => 0
  | .free i :: es => (if i = id then 1 else 0) + frees id es
  | _ :: es => frees id es

end TLVerif.Udp
