import TLVerif.Udp.Window
/-!
# C36 — model of `OutgoingConnection.GetChunksToSend` (core only, executable)

The sender of `Window.lean` extended with what decides *which chunks go into one datagram*:
chunk sizes, the four send cursors (`timeoutedSeqNum`, `nonTimeoutedSeqNum`, `notSendedSeqNum`,
`chunkToSendSeqNum`) with `updatedSeqNums` / `OnResendTimeout`, and the resend request of the peer
(`resendRanges`, `resendIndex`, `rangeInnerIndex`).  Written the way outgoing.go is written.

A datagram carries only the first sequence number and a count, so the chunks `getChunks` returns must
have consecutive sequence numbers: `getChunks_contiguous` (Props/C36Window.lean).
-/
namespace TLVerif.Udp

structure SendX where
  base : Send := {}
  /-- payload length of every chunk of the window (same indexing as `base.window`) -/
  sizes : List Nat := []
  timeouted : Nat := 0
  nonTimeouted : Nat := 0
  notSended : Nat := 0
  chunkToSend : Nat := 0
  ranges : List (Nat × Nat) := []
  resendIndex : Nat := 0
  rangeInner : Nat := 0
  deriving Repr

/-- `t.maxOutgoingPayloadSize` and `t.maxOutgoingWindowSize` -/
structure SendCfg where
  maxPayload : Nat := 32
  maxWindow : Nat := 1000

/-- a new message whose chunks have the given payload lengths enters the window -/
def SendX.push (x : SendX) (lens : List Nat) : SendX :=
  { x with base := x.base.push lens.length, sizes := x.sizes ++ lens }

/-- `updatedSeqNums` -/
def SendX.updatedSeqNums (x : SendX) (a : Nat) : SendX :=
  if a ≥ x.timeouted then
    let x1 : SendX := { x with timeouted := a + 1 }
    let x2 : SendX := if a ≥ x1.nonTimeouted then
                let y : SendX := { x1 with nonTimeouted := a + 1 }
                if a ≥ y.notSended then { y with notSended := a + 1 } else y
              else x1
    if a ≥ x2.chunkToSend then
      let z : SendX := { x2 with chunkToSend := a + 1 }
      if z.nonTimeouted ≤ z.chunkToSend ∧ z.chunkToSend < z.notSended then { z with chunkToSend := z.notSended } else z
    else x2
  else x

/-- the base bookkeeping moved the prefix: drop the sizes of the chunks that left the window -/
def SendX.withBase (x : SendX) (b : Send) : SendX :=
  { x with base := b, sizes := x.sizes.drop (b.ackPrefix - x.base.ackPrefix) }

/-- `AckChunk` -/
def SendX.ackChunk (x : SendX) (seq : Nat) : SendX :=
  if !x.base.inWindow seq then x else (x.updatedSeqNums seq).withBase (x.base.ackChunk seq)

/-- `AckPrefix` -/
def SendX.ackPrefixTo (x : SendX) (p : Nat) : SendX :=
  if p = 0 then x
  else if !x.base.inWindow (p - 1) then x
  else (x.updatedSeqNums (p - 1)).withBase (x.base.ackPrefixTo p)

/-- `OnResendTimeout` -/
def SendX.onResendTimeout (x : SendX) : SendX :=
  let x1 : SendX := if x.nonTimeouted > x.timeouted then { x with nonTimeouted := x.timeouted }
            else { x with nonTimeouted := x.notSended }
  let x2 : SendX := { x1 with notSended := x1.chunkToSend }
  if x2.timeouted < x2.nonTimeouted then { x2 with chunkToSend := x2.timeouted } else x2

/-- a resend request of the peer arrives (goWriteStep: `resendRanges = req; resendIndex = 0; rangeInnerIndex = 0`) -/
def SendX.setResend (x : SendX) (rs : List (Nat × Nat)) : SendX :=
  { x with ranges := rs, resendIndex := 0, rangeInner := 0 }

/-- what is being collected for one datagram -/
structure Pick where
  /-- sequence numbers of the chunks taken, in the order they are put into the datagram -/
  seqs : List Nat := []
  payloadSize : Nat := 0
  prevMsg : Option Nat := none
  single : Bool := true
  /-- the Go code would dereference a nil window entry -/
  nilDeref : Bool := false
  deriving Repr

def SendX.chunkAt (x : SendX) (seq : Nat) : Option (OChunk × Nat) :=
  if seq < x.base.ackPrefix then none
  else match x.base.window[seq - x.base.ackPrefix]?, x.sizes[seq - x.base.ackPrefix]? with
    | some c, some n => some (c, n)
    | _, _ => none

/-- The inner `for seqNum := …; seqNum <= r.PacketNumTo; seqNum++` loop over one requested range.
Returns the cursor inside the range, what was picked, and whether the function returned from inside
the loop (second chunk of the same message). -/
def resendInner (cfg : SendCfg) (x : SendX) : Nat → Nat → Nat → Nat → Pick → Nat × Pick × Bool
  | 0, _, _, inner, pk => (inner, pk, false)
  | fuel + 1, seq, to, inner, pk =>
    if seq > to then (inner, pk, false)
    else if seq < x.base.ackPrefix then resendInner cfg x fuel (seq + 1) to (inner + 1) pk
    else
      match x.chunkAt seq with
      | none => (inner, { pk with nilDeref := true }, true)
      | some (c, n) =>
        if c.acked then
          if pk.prevMsg.isSome then (inner, pk, false)           -- break: keeps the datagram contiguous
          else resendInner cfg x fuel (seq + 1) to (inner + 1) pk
        else if pk.payloadSize + 4 + n > cfg.maxPayload then (inner, pk, false)
        else
          match pk.prevMsg with
          | none =>
            resendInner cfg x fuel (seq + 1) to (inner + 1)
              { pk with seqs := pk.seqs ++ [seq], payloadSize := pk.payloadSize + 4 + n, prevMsg := some c.msg }
          | some m =>
            if m = c.msg then (inner, pk, true)                    -- never two chunks of one message
            else
              resendInner cfg x fuel (seq + 1) to (inner + 1)
                { pk with seqs := pk.seqs ++ [seq], payloadSize := pk.payloadSize + 4 + n, prevMsg := some c.msg,
                          single := false }

/-- the `for o.resendIndex < len(o.resendRanges.Ranges)` loop; `none` = nothing picked, go on with fresh chunks -/
def resendOuter (cfg : SendCfg) : Nat → SendX → SendX × Pick
  | 0, x => (x, {})
  | fuel + 1, x =>
    match x.ranges[x.resendIndex]? with
    | none => (x, {})
    | some (from_, to) =>
      if to < x.base.ackPrefix then resendOuter cfg fuel { x with resendIndex := x.resendIndex + 1, rangeInner := 0 }
      else
        let start := from_ + x.rangeInner
        let (inner, pk, _) := resendInner cfg x (to + 1 - start) start to x.rangeInner {}
        if pk.prevMsg.isSome || pk.nilDeref then ({ x with rangeInner := inner }, pk)
        else resendOuter cfg fuel { x with resendIndex := x.resendIndex + 1, rangeInner := 0 }

/-- the second loop: fresh / timed-out chunks from `chunkToSendSeqNum` on (the message queue is empty in
this model: messages are sliced when they are submitted) -/
def freshLoop (cfg : SendCfg) : Nat → SendX → Pick → SendX × Pick
  | 0, x, pk => (x, pk)
  | fuel + 1, x, pk =>
    let seq := x.chunkToSend
    if seq < x.base.nextSeq then
      if seq - x.base.ackPrefix = cfg.maxWindow then (x, pk)
      else
        match x.chunkAt seq with
        | none => (x, { pk with nilDeref := true })
        | some (c, n) =>
          if pk.payloadSize + 4 + n > cfg.maxPayload then (x, pk)
          else if pk.prevMsg = some c.msg then (x, pk)
          else
            let pk1 : Pick :=
              { pk with seqs := pk.seqs ++ [seq], payloadSize := pk.payloadSize + 4 + n, prevMsg := some c.msg,
                        single := pk.single && pk.prevMsg.isNone }
            let x1 : SendX := { x with chunkToSend := seq + 1 }
            if x1.nonTimeouted ≤ x1.chunkToSend ∧ x1.chunkToSend < x1.notSended then
              ({ x1 with chunkToSend := x1.notSended }, pk1)        -- `if prevMessage != nil { break }`: always taken here
            else freshLoop cfg fuel x1 pk1
    else (x, pk)

/-- `GetChunksToSend` -/
def SendX.getChunks (cfg : SendCfg) (x : SendX) : SendX × Pick :=
  let (x1, pk) := resendOuter cfg (x.ranges.length + 1) x
  if pk.prevMsg.isSome || pk.nilDeref then (x1, pk)
  else freshLoop cfg (x1.base.window.length + 1) x1 {}

end TLVerif.Udp
