import TLVerif.Udp.Window
/-! Lemmas about the window model: receiver characterisation, labelled chunk streams, sender
acknowledgement bookkeeping, and the invariant of the composed system. -/
namespace TLVerif.Udp

/-! ### association lists keyed by sequence number -/

theorem lookup_filter_ne {β : Type} (l : List (Nat × β)) (k k' : Nat) :
    (l.filter (fun e => e.1 != k)).lookup k' = if k' = k then none else l.lookup k' := by
  induction l with
  | nil => simp [List.lookup]
  | cons hd tl ih =>
    obtain ⟨a, b⟩ := hd
    by_cases hak : a = k
    · subst hak
      have : (List.filter (fun e => e.1 != a) ((a, b) :: tl)) = List.filter (fun e => e.1 != a) tl := by
        rw [List.filter_cons]; simp
      rw [this, ih]
      by_cases hk : k' = a
      · simp [hk]
      · have : (k' == a) = false := by simpa using hk
        simp [hk, List.lookup_cons, this]
    · have hf : (List.filter (fun e => e.1 != k) ((a, b) :: tl)) = (a, b) :: List.filter (fun e => e.1 != k) tl := by
        rw [List.filter_cons]; simp [hak]
      rw [hf, List.lookup_cons, List.lookup_cons, ih]
      by_cases hka : k' = a
      · subst hka; simp [hak]
      · have : (k' == a) = false := by simpa using hka
        simp [this]

theorem length_filter_lt {β : Type} (l : List (Nat × β)) (k : Nat) (c : β) (h : l.lookup k = some c) :
    (l.filter (fun e => e.1 != k)).length < l.length := by
  induction l with
  | nil => simp [List.lookup] at h
  | cons hd tl ih =>
    obtain ⟨a, b⟩ := hd
    by_cases hak : a = k
    · subst hak
      have : (List.filter (fun e => e.1 != a) ((a, b) :: tl)) = List.filter (fun e => e.1 != a) tl := by
        rw [List.filter_cons]; simp
      rw [this]
      have := List.length_filter_le (fun e : Nat × β => e.1 != a) tl
      simp only [List.length_cons]; omega
    · have hka : (k == a) = false := by simpa using (fun h : k = a => hak h.symm)
      rw [List.lookup_cons, hka] at h
      have hf : (List.filter (fun e => e.1 != k) ((a, b) :: tl)) = (a, b) :: List.filter (fun e => e.1 != k) tl := by
        rw [List.filter_cons]; simp [hak]
      rw [hf]
      have := ih (by simpa using h)
      simp only [List.length_cons]; omega

/-! ### the in-order reader -/

def scanFrom (st : List Payload × List Payload) (cs : List Chunk) : List Payload × List Payload :=
  cs.foldl scanStep st

theorem scan_eq_scanFrom (cs : List Chunk) : scan cs = scanFrom ([], []) cs := rfl

theorem scanFrom_append (st) (a b : List Chunk) : scanFrom st (a ++ b) = scanFrom (scanFrom st a) b := by
  simp [scanFrom, List.foldl_append]

theorem take_succ_of_getElem? {α : Type} (l : List α) (n : Nat) (c : α) (h : l[n]? = some c) :
    l.take (n + 1) = l.take n ++ [c] := by
  induction l generalizing n with
  | nil => simp at h
  | cons hd tl ih =>
    cases n with
    | zero => simp at h; simp [h]
    | succ m =>
      simp at h
      simp [ih m h]

/-! ### receiver invariant -/

structure RInv (chunks : List Chunk) (arr : List Nat) (r : Recv) : Prop where
  win : ∀ s c, r.window.lookup s = some c → s ∈ arr ∧ r.ackPrefix ≤ s ∧ chunks[s]? = some c
  arrd : ∀ s ∈ arr, s < r.ackPrefix ∨ (r.window.lookup s).isSome = true
  below : ∀ i, i < r.ackPrefix → i ∈ arr
  scn : (r.cur, r.delivered) = scan (chunks.take r.ackPrefix)
  le : r.ackPrefix ≤ chunks.length

theorem rinv_init (chunks : List Chunk) : RInv chunks [] {} where
  win := by intro s c h; simp [List.lookup] at h
  arrd := by intro s h; cases h
  below := by intro i h; cases h
  scn := by simp [scan]
  le := Nat.zero_le _

theorem move_inv (chunks : List Chunk) (arr : List Nat) (fuel : Nat) (r : Recv) (h : RInv chunks arr r)
    (hf : r.window.length ≤ fuel) :
    RInv chunks arr (moveWindowPrefix fuel r) ∧
    (moveWindowPrefix fuel r).window.lookup (moveWindowPrefix fuel r).ackPrefix = none ∧
    r.ackPrefix ≤ (moveWindowPrefix fuel r).ackPrefix := by
  induction fuel generalizing r with
  | zero =>
    have : r.window = [] := List.eq_nil_of_length_eq_zero (by omega)
    simp [moveWindowPrefix, h, this, List.lookup]
  | succ fuel ih =>
    unfold moveWindowPrefix
    cases hl : r.window.lookup r.ackPrefix with
    | none => simp [h, hl]
    | some c =>
      simp only
      obtain ⟨hmem, _, hget⟩ := h.win _ _ hl
      have hlt : r.ackPrefix < chunks.length := by
        have := List.getElem?_eq_some_iff.mp hget
        exact this.1
      have htake := take_succ_of_getElem? chunks r.ackPrefix c hget
      have hscan : scan (chunks.take (r.ackPrefix + 1)) = scanStep (r.cur, r.delivered) c := by
        rw [htake, scan_eq_scanFrom, scanFrom_append, ← scan_eq_scanFrom, ← h.scn]
        simp [scanFrom]
      have hlen := length_filter_lt r.window r.ackPrefix c hl
      -- the common part of the new state
      have key : ∀ (cur' : List Payload) (del' : List Payload),
          (cur', del') = scanStep (r.cur, r.delivered) c →
          RInv chunks arr { ackPrefix := r.ackPrefix + 1,
                            window := r.window.filter (fun e => e.1 != r.ackPrefix), cur := cur', delivered := del' } := by
        intro cur' del' hcd
        refine ⟨?_, ?_, ?_, ?_, ?_⟩
        · intro s c' hs
          simp only at hs
          rw [lookup_filter_ne] at hs
          by_cases hsk : s = r.ackPrefix
          · simp [hsk] at hs
          · simp [hsk] at hs
            obtain ⟨h1, h2, h3⟩ := h.win s c' hs
            exact ⟨h1, by simp only; omega, h3⟩
        · intro s hs
          simp only
          rcases h.arrd s hs with h1 | h1
          · left; omega
          · by_cases hsk : s = r.ackPrefix
            · left; omega
            · right; rw [lookup_filter_ne]; simp [hsk, h1]
        · intro i hi
          simp only at hi
          by_cases hik : i = r.ackPrefix
          · subst hik; exact hmem
          · exact h.below i (by omega)
        · simp only; rw [hscan]; exact hcd
        · simp only; omega
      by_cases hn : c.next = 0
      · rw [if_pos hn]
        have hk := key [] (r.delivered ++ [(r.cur ++ [c.payload]).flatten]) (by simp [scanStep, hn])
        obtain ⟨a, b, d⟩ := ih _ hk (by simp only; omega)
        exact ⟨a, b, by simp only at d; omega⟩
      · rw [if_neg hn]
        have hk := key (r.cur ++ [c.payload]) r.delivered (by simp [scanStep, hn])
        obtain ⟨a, b, d⟩ := ih _ hk (by simp only; omega)
        exact ⟨a, b, by simp only at d; omega⟩

theorem recvChunk_inv (chunks : List Chunk) (arr : List Nat) (r : Recv) (s : Nat) (c : Chunk)
    (h : RInv chunks arr r) (hp : r.window.lookup r.ackPrefix = none) (hc : chunks[s]? = some c) :
    RInv chunks (s :: arr) (recvChunk r s c) ∧
    (recvChunk r s c).window.lookup (recvChunk r s c).ackPrefix = none ∧
    r.ackPrefix ≤ (recvChunk r s c).ackPrefix := by
  unfold recvChunk
  by_cases h1 : s < r.ackPrefix
  · rw [if_pos h1]
    refine ⟨⟨?_, ?_, ?_, h.scn, h.le⟩, hp, Nat.le_refl _⟩
    · intro s' c' hs
      obtain ⟨a, b, d⟩ := h.win s' c' hs
      exact ⟨List.mem_cons_of_mem _ a, b, d⟩
    · intro s' hs'
      rcases List.mem_cons.mp hs' with e | e
      · subst e; left; exact h1
      · exact h.arrd s' e
    · intro i hi; exact List.mem_cons_of_mem _ (h.below i hi)
  · rw [if_neg h1]
    by_cases h2 : (r.window.lookup s).isSome = true
    · rw [if_pos h2]
      refine ⟨⟨?_, ?_, ?_, h.scn, h.le⟩, hp, Nat.le_refl _⟩
      · intro s' c' hs
        obtain ⟨a, b, d⟩ := h.win s' c' hs
        exact ⟨List.mem_cons_of_mem _ a, b, d⟩
      · intro s' hs'
        rcases List.mem_cons.mp hs' with e | e
        · subst e; right; exact h2
        · exact h.arrd s' e
      · intro i hi; exact List.mem_cons_of_mem _ (h.below i hi)
    · rw [if_neg h2]
      simp only
      have hr1 : RInv chunks (s :: arr) { r with window := (s, c) :: r.window } := by
        refine ⟨?_, ?_, ?_, h.scn, h.le⟩
        · intro s' c' hs
          simp only at hs
          rw [List.lookup_cons] at hs
          by_cases e : s' = s
          · subst e
            simp at hs; subst hs
            exact ⟨List.mem_cons_self, by simp only; omega, hc⟩
          · have : (s' == s) = false := by simpa using e
            rw [this] at hs
            obtain ⟨a, b, d⟩ := h.win s' c' hs
            exact ⟨List.mem_cons_of_mem _ a, b, d⟩
        · intro s' hs'
          simp only
          rw [List.lookup_cons]
          by_cases e : s' = s
          · subst e; right; simp
          · have : (s' == s) = false := by simpa using e
            rw [this]
            rcases List.mem_cons.mp hs' with e' | e'
            · exact absurd e' e
            · exact h.arrd s' e'
        · intro i hi; exact List.mem_cons_of_mem _ (h.below i hi)
      exact move_inv chunks (s :: arr) _ _ hr1 (by simp)

/-- valid arrivals of a list of arrival numbers -/
def validArr (chunks : List Chunk) (as : List Nat) : List Nat := as.filter (fun s => s < chunks.length)

theorem arrive_inv (chunks : List Chunk) (arr : List Nat) (r : Recv) (s : Nat)
    (h : RInv chunks arr r) (hp : r.window.lookup r.ackPrefix = none) :
    RInv chunks (if s < chunks.length then s :: arr else arr) (arrive chunks r s) ∧
    (arrive chunks r s).window.lookup (arrive chunks r s).ackPrefix = none ∧
    r.ackPrefix ≤ (arrive chunks r s).ackPrefix := by
  unfold arrive
  cases hc : chunks[s]? with
  | none =>
    have : ¬ s < chunks.length := by
      intro hlt
      have := List.getElem?_eq_none_iff.mp hc
      omega
    simp [this, h, hp]
  | some c =>
    have : s < chunks.length := (List.getElem?_eq_some_iff.mp hc).1
    simp only [this, ↓reduceIte]
    exact recvChunk_inv chunks arr r s c h hp hc

theorem recvRun_inv_aux (chunks : List Chunk) (as : List Nat) (arr : List Nat) (r : Recv)
    (h : RInv chunks arr r) (hp : r.window.lookup r.ackPrefix = none) :
    ∃ arr', (∀ x, x ∈ arr' ↔ x ∈ arr ∨ (x ∈ as ∧ x < chunks.length)) ∧
      RInv chunks arr' (as.foldl (arrive chunks) r) ∧
      (as.foldl (arrive chunks) r).window.lookup (as.foldl (arrive chunks) r).ackPrefix = none := by
  induction as generalizing arr r with
  | nil => exact ⟨arr, by simp, h, hp⟩
  | cons a rest ih =>
    obtain ⟨h1, h2, _⟩ := arrive_inv chunks arr r a h hp
    obtain ⟨arr', hm, hi, hpost⟩ := ih _ _ h1 h2
    refine ⟨arr', ?_, hi, hpost⟩
    intro x
    rw [hm]
    by_cases ha : a < chunks.length
    · simp only [ha, ↓reduceIte, List.mem_cons]
      constructor
      · rintro ((e | e) | e)
        · right; subst e; exact ⟨Or.inl rfl, ha⟩
        · left; exact e
        · right; exact ⟨Or.inr e.1, e.2⟩
      · rintro (e | ⟨e | e, hlt⟩)
        · left; right; exact e
        · left; left; exact e
        · right; exact ⟨e, hlt⟩
    · simp only [ha, ↓reduceIte, List.mem_cons]
      constructor
      · rintro (e | e)
        · left; exact e
        · right; exact ⟨Or.inr e.1, e.2⟩
      · rintro (e | ⟨e | e, hlt⟩)
        · left; exact e
        · subst e; exact absurd hlt ha
        · right; exact ⟨e, hlt⟩

/-! ### labelled chunk streams -/

theorem chunksFrom_append (i : Nat) (a b : List (List Payload)) :
    chunksFrom i (a ++ b) = chunksFrom i a ++ chunksFrom (i + a.length) b := by
  induction a generalizing i with
  | nil => simp [chunksFrom]
  | cons m ms ih =>
    simp only [List.cons_append, chunksFrom, ih, List.append_assoc, List.length_cons]
    have : i + 1 + ms.length = i + (ms.length + 1) := by omega
    rw [this]

theorem chunksOf_snoc (msgs : List (List Payload)) (m : List Payload) :
    chunksOf (msgs ++ [m]) = chunksOf msgs ++ chunksOfMsg msgs.length m := by
  simp [chunksOf, chunksFrom_append, chunksFrom]

theorem length_chunksOfMsgAux (i total j : Nat) (ps : List Payload) :
    (chunksOfMsgAux i total j ps).length = ps.length := by
  induction ps generalizing j with
  | nil => rfl
  | cons p ps ih => simp [chunksOfMsgAux, ih]

theorem length_chunksOfMsg (i : Nat) (ps : List Payload) : (chunksOfMsg i ps).length = ps.length :=
  length_chunksOfMsgAux _ _ _ _

/-- reading a strict prefix of one message's chunks hands nothing over -/
theorem scanFrom_msg_take (i total j k : Nat) (ps : List Payload) (cur del : List Payload)
    (htot : j + ps.length = total) (hk : k < ps.length) :
    scanFrom (cur, del) ((chunksOfMsgAux i total j ps).take k) = (cur ++ ps.take k, del) := by
  induction ps generalizing j k cur with
  | nil => simp at hk
  | cons p ps ih =>
    cases k with
    | zero => simp [scanFrom]
    | succ k =>
      simp only [chunksOfMsgAux, List.take_succ_cons, scanFrom, List.foldl_cons]
      have hne : ¬ (total - 1 - j = 0) := by simp at hk htot; omega
      have : scanStep (cur, del) ⟨i, j, total - 1 - j, p⟩ = (cur ++ [p], del) := by simp [scanStep, hne]
      rw [this]
      have := ih (j + 1) k (cur ++ [p]) (by simp at htot ⊢; omega) (by simp at hk; omega)
      simpa [scanFrom] using this

/-- reading all chunks of one (non-empty) message hands over exactly its contents -/
theorem scanFrom_msg_all (i total j : Nat) (ps : List Payload) (cur del : List Payload)
    (htot : j + ps.length = total) (hne : ps ≠ []) :
    scanFrom (cur, del) (chunksOfMsgAux i total j ps) = ([], del ++ [(cur ++ ps).flatten]) := by
  induction ps generalizing j cur with
  | nil => exact absurd rfl hne
  | cons p ps ih =>
    simp only [chunksOfMsgAux, scanFrom, List.foldl_cons]
    cases ps with
    | nil =>
      have : total - 1 - j = 0 := by simp at htot; omega
      simp [scanStep, this, chunksOfMsgAux]
    | cons q qs =>
      have hne' : ¬ (total - 1 - j = 0) := by simp at htot; omega
      have : scanStep (cur, del) ⟨i, j, total - 1 - j, p⟩ = (cur ++ [p], del) := by simp [scanStep, hne']
      rw [this]
      have := ih (j + 1) (cur ++ [p]) (by simp at htot ⊢; omega) (by simp)
      simpa [scanFrom] using this

/-- Reading any prefix of a labelled chunk stream hands over a prefix of the message stream, each
message intact, in order, once. -/
theorem scanFrom_chunksFrom_take (i n : Nat) (msgs : List (List Payload)) (del : List Payload)
    (hne : ∀ m ∈ msgs, m ≠ []) :
    ∃ k, (scanFrom ([], del) ((chunksFrom i msgs).take n)).2 = del ++ (msgs.map List.flatten).take k := by
  induction msgs generalizing i n del with
  | nil => exact ⟨0, by simp [chunksFrom, scanFrom]⟩
  | cons m ms ih =>
    simp only [chunksFrom]
    rw [List.take_append]
    have hm : m ≠ [] := hne m (by simp)
    by_cases hn : n < m.length
    · -- stops inside the first message
      have h0 : n - (chunksOfMsg i m).length = 0 := by rw [length_chunksOfMsg]; omega
      rw [h0]
      simp only [List.take_zero, List.append_nil]
      have := scanFrom_msg_take i m.length 0 n m [] del (by simp) hn
      refine ⟨0, ?_⟩
      simp [chunksOfMsg, this]
    · have hall : (chunksOfMsg i m).take n = chunksOfMsg i m := by
        apply List.take_of_length_le
        rw [length_chunksOfMsg]; omega
      rw [hall, scanFrom_append]
      have h1 := scanFrom_msg_all i m.length 0 m [] del (by simp) hm
      simp only [List.nil_append] at h1
      rw [chunksOfMsg, h1]
      obtain ⟨k, hk⟩ := ih (i + 1) (n - (chunksOfMsgAux i m.length 0 m).length) (del ++ [m.flatten])
        (fun x hx => hne x (by simp [hx]))
      refine ⟨k + 1, ?_⟩
      rw [hk]
      simp

theorem scan_chunksOf_all (msgs : List (List Payload)) (hne : ∀ m ∈ msgs, m ≠ []) :
    scan (chunksOf msgs) = ([], msgs.map List.flatten) := by
  suffices h : ∀ i del, scanFrom ([], del) (chunksFrom i msgs) = ([], del ++ msgs.map List.flatten) by
    simpa [scan_eq_scanFrom, chunksOf] using h 0 []
  induction msgs with
  | nil => intro i del; simp [chunksFrom, scanFrom]
  | cons m ms ih =>
    intro i del
    simp only [chunksFrom]
    rw [scanFrom_append]
    have h1 := scanFrom_msg_all i m.length 0 m [] del (by simp) (hne m (by simp))
    simp only [List.nil_append] at h1
    rw [chunksOfMsg, h1, ih (fun x hx => hne x (by simp [hx]))]
    simp

end TLVerif.Udp
