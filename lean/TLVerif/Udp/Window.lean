/-!
# C36 — model of the sliding-window bookkeeping (core only, executable)

The message-level logic of pkg/rpc/udp/outgoing.go and incoming.go, written the way the Go code is
written but without timers, memory and datagram packing:

* `chunksOf`  — how `sliceNextMessage` labels the chunks of the message stream (`prevParts`, `nextParts`);
  the slicing itself (chunk sizes) is a parameter: a message is given as its list of parts.
* `Recv`      — `IncomingConnection` with `StreamLikeIncoming`: `receiveMessageChunk` (duplicate below the
  prefix, duplicate in the window, store) and `moveWindowPrefix` (advance over received chunks,
  hand a message over when its last chunk passes the prefix).
* `Send`      — `OutgoingConnection` acknowledgement bookkeeping: `checkAck`, `AckChunk`, `AckPrefix`,
  `ackFrontChunk`, `unrefMessage` (a message buffer is released when all its chunks are acknowledged).
* `Sys`       — sender, receiver and a network that may lose, duplicate and reorder datagrams, with
  acknowledgements built from what the receiver has actually received.

Theorems are in `WindowLemmas.lean` / `Props/C36Window.lean`; the executable definitions are tied to the
Go code differentially (`udp.rcv`, `udp.snd` case lines).
-/
namespace TLVerif.Udp

abbrev Payload := List Nat

structure Chunk where
  msg : Nat
  prev : Nat
  next : Nat
  payload : Payload
  deriving DecidableEq, Repr

/-- chunks of message number `i` whose parts are `ps`, starting at part index `j` of `total` -/
def chunksOfMsgAux (i total : Nat) : Nat → List Payload → List Chunk
  | _, [] => []
  | j, p :: ps => ⟨i, j, total - 1 - j, p⟩ :: chunksOfMsgAux i total (j + 1) ps

def chunksOfMsg (i : Nat) (parts : List Payload) : List Chunk := chunksOfMsgAux i parts.length 0 parts

def chunksFrom (i : Nat) : List (List Payload) → List Chunk
  | [] => []
  | m :: ms => chunksOfMsg i m ++ chunksFrom (i + 1) ms

/-- the chunk stream of a message stream; sequence number = index -/
def chunksOf (msgs : List (List Payload)) : List Chunk := chunksFrom 0 msgs

/-! ## What an in-order reader of the chunk stream hands over (the specification of delivery) -/

def scanStep (st : List Payload × List Payload) (c : Chunk) : List Payload × List Payload :=
  if c.next = 0 then ([], st.2 ++ [(st.1 ++ [c.payload]).flatten]) else (st.1 ++ [c.payload], st.2)

/-- (parts of the unfinished message, messages handed over) after reading `cs` in order -/
def scan (cs : List Chunk) : List Payload × List Payload := cs.foldl scanStep ([], [])

/-! ## Receiver -/

structure Recv where
  ackPrefix : Nat := 0
  /-- received chunks at or above the prefix (`windowChunks` entries with `received()`) -/
  window : List (Nat × Chunk) := []
  /-- parts of the message straddling the prefix that are already below it -/
  cur : List Payload := []
  delivered : List Payload := []
  deriving Repr

def moveWindowPrefix : Nat → Recv → Recv
  | 0, r => r
  | fuel + 1, r =>
    match r.window.lookup r.ackPrefix with
    | none => r
    | some c =>
      let w := r.window.filter (fun e => e.1 != r.ackPrefix)
      if c.next = 0 then
        moveWindowPrefix fuel { ackPrefix := r.ackPrefix + 1, window := w, cur := [],
                                delivered := r.delivered ++ [(r.cur ++ [c.payload]).flatten] }
      else
        moveWindowPrefix fuel { ackPrefix := r.ackPrefix + 1, window := w, cur := r.cur ++ [c.payload],
                                delivered := r.delivered }

/-- `receiveMessageChunk` for a reliable chunk -/
def recvChunk (r : Recv) (seq : Nat) (c : Chunk) : Recv :=
  if seq < r.ackPrefix then r
  else if (r.window.lookup seq).isSome then r
  else
    let w := (seq, c) :: r.window
    moveWindowPrefix w.length { r with window := w }

/-- the arrival of sequence number `s` of the chunk stream `chunks` (nothing if there is no such chunk) -/
def arrive (chunks : List Chunk) (r : Recv) (s : Nat) : Recv :=
  match chunks[s]? with
  | some c => recvChunk r s c
  | none => r

def recvRun (chunks : List Chunk) (arrivals : List Nat) : Recv := arrivals.foldl (arrive chunks) {}

/-! ## Sender: acknowledgement bookkeeping -/

structure OChunk where
  msg : Nat
  acked : Bool
  deriving DecidableEq, Repr

structure Send where
  /-- `ackSeqNoPrefix`: sequence number of `window[0]` -/
  ackPrefix : Nat := 0
  window : List OChunk := []
  /-- remaining references per message (`OutgoingMessage.refCount`) -/
  refs : List (Nat × Nat) := []
  /-- messages handed to the deallocator, in order -/
  released : List Nat := []
  nextMsg : Nat := 0
  deriving Repr

def Send.nextSeq (s : Send) : Nat := s.ackPrefix + s.window.length

def refOf (refs : List (Nat × Nat)) (m : Nat) : Nat := (refs.lookup m).getD 0

/-- `sliceNextMessage`: a new message of `parts` chunks enters the window -/
def Send.push (s : Send) (parts : Nat) : Send :=
  { s with window := s.window ++ List.replicate parts ⟨s.nextMsg, false⟩,
           refs := (s.nextMsg, parts) :: s.refs, nextMsg := s.nextMsg + 1 }

/-- `unrefMessage` -/
def Send.unref (s : Send) (m : Nat) : Send :=
  let n := refOf s.refs m - 1
  { s with refs := (m, n) :: s.refs, released := if n = 0 then s.released ++ [m] else s.released }

/-- the loop of `ackFrontChunk` after the front chunk has been marked: drop the front and every
directly following acknowledged chunk -/
def Send.dropFront : Nat → Send → Send
  | 0, s => s
  | fuel + 1, s =>
    match s.window with
    | [] => s
    | c :: rest =>
      let s' := ({ s with window := rest, ackPrefix := s.ackPrefix + 1 } : Send).unref c.msg
      match rest with
      | [] => s'
      | d :: _ => if d.acked then Send.dropFront fuel s' else s'

/-- `ackFrontChunk` -/
def Send.ackFront (s : Send) : Send :=
  match s.window with
  | [] => s
  | c :: rest => Send.dropFront (rest.length + 1) { s with window := { c with acked := true } :: rest }

/-- `checkAck` (without the 32-bit wrap-around: a number below the prefix or at/after `nextSeq` is ignored) -/
def Send.inWindow (s : Send) (seq : Nat) : Bool := s.ackPrefix ≤ seq && seq < s.nextSeq

def markAcked : Nat → List OChunk → List OChunk
  | _, [] => []
  | 0, c :: cs => { c with acked := true } :: cs
  | i + 1, c :: cs => c :: markAcked i cs

/-- `AckChunk` -/
def Send.ackChunk (s : Send) (seq : Nat) : Send :=
  if !s.inWindow seq then s
  else if seq = s.ackPrefix then s.ackFront
  else { s with window := markAcked (seq - s.ackPrefix) s.window }

/-- the loop of `AckPrefix`: acknowledge front chunks until the prefix reaches `target` -/
def Send.ackUpTo (target : Nat) : Nat → Send → Send
  | 0, s => s
  | fuel + 1, s => if s.ackPrefix < target then Send.ackUpTo target fuel s.ackFront else s

/-- `AckPrefix(prefixSeqNum)`: everything below `p` is acknowledged -/
def Send.ackPrefixTo (s : Send) (p : Nat) : Send :=
  if p = 0 then s
  else if !s.inWindow (p - 1) then s
  else Send.ackUpTo p (s.window.length) s

/-! ## Sender + network + receiver -/

inductive Dgram where
  /-- a data datagram carrying chunk `seq` -/
  | data (seq : Nat)
  /-- an acknowledgement: prefix (everything below is received) and a set of further received numbers -/
  | ack (pfx : Nat) (set : List Nat)
  deriving DecidableEq, Repr

structure Sys where
  snd : Send := {}
  rcv : Recv := {}
  net : List Dgram := []
  /-- ghost: parts of all messages sliced so far -/
  msgs : List (List Payload) := []
  /-- ghost: every sequence number the receiver has accepted so far -/
  arrived : List Nat := []
  deriving Repr

inductive Act where
  /-- a new message (given by its parts; at least one part) is submitted and sliced -/
  | submit (parts : List Payload)
  /-- the sender (re)sends chunk `seq` of its window: any not yet acknowledged chunk, at any time -/
  | send (seq : Nat)
  /-- the network loses / duplicates datagram number `i` -/
  | lose (i : Nat)
  | dup (i : Nat)
  /-- datagram number `i` is delivered to its destination -/
  | deliver (i : Nat)
  /-- the receiver sends an acknowledgement: a prefix not beyond its own (`min p ackPrefix`, stale
  prefixes allowed) and any selection `pick` of received numbers -/
  | sendAck (p : Nat) (pick : List Nat)
  deriving Repr

def sendable (s : Send) (seq : Nat) : Bool :=
  s.inWindow seq && !((s.window[seq - s.ackPrefix]?).map (·.acked)).getD true

def Sys.step (σ : Sys) : Act → Sys
  | .submit parts =>
    if parts.isEmpty then σ
    else { σ with snd := σ.snd.push parts.length, msgs := σ.msgs ++ [parts] }
  | .send seq => if sendable σ.snd seq then { σ with net := σ.net ++ [.data seq] } else σ
  | .lose i => { σ with net := σ.net.eraseIdx i }
  | .dup i =>
    match σ.net[i]? with
    | some d => { σ with net := σ.net ++ [d] }
    | none => σ
  | .deliver i =>
    match σ.net[i]? with
    | none => σ
    | some (.data seq) =>
      let chunks := chunksOf σ.msgs
      { σ with net := σ.net.eraseIdx i, rcv := arrive chunks σ.rcv seq,
               arrived := if seq < chunks.length then seq :: σ.arrived else σ.arrived }
    | some (.ack p set) =>
      let s1 := σ.snd.ackPrefixTo p
      { σ with net := σ.net.eraseIdx i, snd := set.foldl Send.ackChunk s1 }
  | .sendAck p pick =>
    { σ with net := σ.net ++ [.ack (min p σ.rcv.ackPrefix) (pick.filter (fun s => σ.arrived.contains s))] }

def Sys.run (acts : List Act) : Sys := acts.foldl Sys.step {}

end TLVerif.Udp
