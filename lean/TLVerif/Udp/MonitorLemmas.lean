import TLVerif.Udp.Monitor
/-! Invariant of the C36 trace monitor and the lemmas behind `accepted_trace_sound`. -/
namespace TLVerif.Udp

/-! ### association lists -/

theorem getD0_cons {κ : Type} [BEq κ] [LawfulBEq κ] [DecidableEq κ] (l : List (κ × Nat)) (k k' : κ) (v : Nat) :
    getD0 ((k, v) :: l) k' = if k' = k then v else getD0 l k' := by
  unfold getD0
  rw [List.lookup_cons]
  by_cases h : k' = k
  · subst h; simp
  · have : (k' == k) = false := by simpa using h
    rw [this]; simp [h]

theorem getD0_nil {κ : Type} [BEq κ] (k : κ) : getD0 ([] : List (κ × Nat)) k = 0 := by
  simp [getD0, List.lookup]

theorem lookup_some_mem {κ : Type} [BEq κ] [LawfulBEq κ] (l : List (κ × Nat)) (k : κ) (v : Nat)
    (h : l.lookup k = some v) : ∃ p ∈ l, p.1 = k := by
  induction l with
  | nil => simp [List.lookup] at h
  | cons hd tl ih =>
    obtain ⟨k0, v0⟩ := hd
    rw [List.lookup_cons] at h
    by_cases hk : k = k0
    · exact ⟨(k0, v0), by simp, hk.symm⟩
    · have : (k == k0) = false := by simpa using hk
      rw [this] at h
      obtain ⟨p, hp, hpk⟩ := ih h
      exact ⟨p, by simp [hp], hpk⟩

theorem all_zero_getD0 (l : List (Nat × Nat)) (h : l.all (fun p => getD0 l p.1 == 0) = true) (t : Nat) :
    getD0 l t = 0 := by
  cases hl : l.lookup t with
  | none => simp [getD0, hl]
  | some v =>
    obtain ⟨p, hp, hpk⟩ := lookup_some_mem l t v hl
    have := (List.all_eq_true.mp h) p hp
    rw [hpk] at this
    simpa using this

/-! ### specification functions distribute over append -/

theorem submits_append (p q : List Event) : submits (p ++ q) = submits p ++ submits q := by
  induction p with
  | nil => rfl
  | cons e es ih => cases e <;> simp [submits, ih]

theorem delivers_append (p q : List Event) : delivers (p ++ q) = delivers p ++ delivers q := by
  induction p with
  | nil => rfl
  | cons e es ih => cases e <;> simp [delivers, ih]

theorem acksOf_append (k : PKey) (p q : List Event) : acksOf k (p ++ q) = acksOf k p ++ acksOf k q := by
  induction p with
  | nil => rfl
  | cons e es ih =>
    cases e <;> simp [acksOf, ih]
    split <;> simp

theorem memAcq_append (t : Nat) (p q : List Event) : memAcq t (p ++ q) = memAcq t p + memAcq t q := by
  induction p with
  | nil => simp [memAcq]
  | cons e es ih => cases e <;> simp [memAcq, ih] <;> omega

theorem memRel_append (t : Nat) (p q : List Event) : memRel t (p ++ q) = memRel t p + memRel t q := by
  induction p with
  | nil => simp [memRel]
  | cons e es ih => cases e <;> simp [memRel, ih] <;> omega

theorem allocs_append (i : Buf) (p q : List Event) : allocs i (p ++ q) = allocs i p + allocs i q := by
  induction p with
  | nil => simp [allocs]
  | cons e es ih => cases e <;> simp [allocs, ih] <;> omega

theorem frees_append (i : Buf) (p q : List Event) : frees i (p ++ q) = frees i p + frees i q := by
  induction p with
  | nil => simp [frees]
  | cons e es ih => cases e <;> simp [frees, ih] <;> omega

/-! ### running -/

theorem runFrom_append (cfg : Cfg) (s : St) (p q : List Event) :
    runFrom cfg s (p ++ q) = (match runFrom cfg s p with
      | .ok s' => runFrom cfg s' q
      | .error r => .error r) := by
  induction p generalizing s with
  | nil => rfl
  | cons e es ih =>
    simp only [List.cons_append, runFrom]
    cases step cfg s e with
    | ok s' => exact ih s'
    | error r => rfl

/-- acceptance is prefix closed -/
theorem runFrom_prefix_ok (cfg : Cfg) (s st : St) (p q : List Event) (h : runFrom cfg s (p ++ q) = .ok st) :
    ∃ s', runFrom cfg s p = .ok s' ∧ runFrom cfg s' q = .ok st := by
  rw [runFrom_append] at h
  cases hp : runFrom cfg s p with
  | ok s' => rw [hp] at h; exact ⟨s', rfl, h⟩
  | error r => rw [hp] at h; cases h

theorem runIdx_ok_iff (cfg : Cfg) (s : St) (i : Nat) (tr : List Event) (st : St) :
    runIdx cfg s i tr = .ok st ↔ runFrom cfg s tr = .ok st := by
  induction tr generalizing s i with
  | nil => simp [runIdx, runFrom]
  | cons e es ih =>
    simp only [runIdx, runFrom]
    cases step cfg s e with
    | ok s' => exact ih s' (i + 1)
    | error r => simp

/-- The invariant tying the monitor state to the specification functions of the consumed trace. -/
structure Inv (cfg : Cfg) (p : List Event) (s : St) : Prop where
  pend : cfg.delivery = true → ∀ x, s.pending.count x + (delivers p).count x = (submits p).count x
  acks : cfg.acks = true → ∀ k, (acksOf k p).Pairwise (· ≤ ·) ∧ ∀ v ∈ acksOf k p, v ≤ getD0 s.prefs k
  mem : ∀ t, getD0 s.mem t + memRel t p = memAcq t p ∧ getD0 s.mem t ≤ cfg.limit
  live : ∀ i, s.live.count i + frees i p = allocs i p ∧ s.live.count i ≤ 1
  nosettle : s.settled = false → Event.settle ∉ p

theorem inv_init (cfg : Cfg) : Inv cfg [] {} where
  pend := by intro _ x; simp [delivers, submits]
  acks := by intro _ k; simp [acksOf]
  mem := by intro t; simp [getD0_nil, memRel, memAcq]
  live := by intro i; simp [frees, allocs]
  nosettle := by simp

theorem step_settled (cfg : Cfg) (s s' : St) (e : Event) (h : step cfg s e = .ok s') : s.settled = false := by
  unfold step at h
  cases hs : s.settled with
  | false => rfl
  | true => rw [hs] at h; simp at h

/-- one accepted event preserves the invariant; the new state is settled only for `settle` -/
theorem inv_step (cfg : Cfg) (p : List Event) (s s' : St) (e : Event) (hinv : Inv cfg p s)
    (h : step cfg s e = .ok s') : Inv cfg (p ++ [e]) s' ∧ (s'.settled = true ↔ e = .settle) := by
  have hns := step_settled cfg s s' e h
  cases e <;> simp only [step, hns, Bool.false_eq_true, ↓reduceIte] at h
  all_goals revert h
  case submit x =>
    intro h
    injection h with h; subst h
    refine ⟨⟨?_, ?_, ?_, ?_, ?_⟩, by simp [hns]⟩
    · intro hd y
      have := hinv.pend hd y
      simp only [submits_append, delivers_append, submits, delivers, List.count_append, List.count_cons, List.count_nil,
        List.append_nil]
      omega
    · intro ha k; simpa [acksOf_append, acksOf] using hinv.acks ha k
    · intro t; simpa [memRel_append, memAcq_append, memRel, memAcq] using hinv.mem t
    · intro i; simpa [frees_append, allocs_append, frees, allocs] using hinv.live i
    · intro _; simp only [List.mem_append, List.mem_singleton, not_or]; exact ⟨hinv.nosettle hns, by simp⟩
  case deliver x =>
    intro h
    by_cases hd : cfg.delivery = true
    · rw [if_pos hd] at h
      by_cases hc : s.pending.contains x = true
      · rw [if_pos hc] at h
        injection h with h; subst h
        refine ⟨⟨?_, ?_, ?_, ?_, ?_⟩, by simp [hns]⟩
        · intro _ y
          have hy := hinv.pend hd y
          have hmem : x ∈ s.pending := List.contains_iff_mem.mp hc
          simp only [submits_append, delivers_append, submits, delivers, List.count_append, List.count_cons,
            List.count_nil, List.append_nil]
          by_cases hxy : y = x
          · subst hxy
            have hpos : 0 < s.pending.count y := List.count_pos_iff.mpr hmem
            rw [List.count_erase_self]
            simp
            omega
          · rw [List.count_erase_of_ne hxy]
            have : (x == y) = false := by simpa using (fun h : x = y => hxy h.symm)
            simp [this]
            omega
        · intro ha k; simpa [acksOf_append, acksOf] using hinv.acks ha k
        · intro t; simpa [memRel_append, memAcq_append, memRel, memAcq] using hinv.mem t
        · intro i; simpa [frees_append, allocs_append, frees, allocs] using hinv.live i
        · intro _; simp only [List.mem_append, List.mem_singleton, not_or]; exact ⟨hinv.nosettle hns, by simp⟩
      · rw [if_neg hc] at h; cases h
    · rw [if_neg hd] at h
      injection h with h; subst h
      refine ⟨⟨?_, ?_, ?_, ?_, ?_⟩, by simp [hns]⟩
      · intro hd'; exact absurd hd' hd
      · intro ha k; simpa [acksOf_append, acksOf] using hinv.acks ha k
      · intro t; simpa [memRel_append, memAcq_append, memRel, memAcq] using hinv.mem t
      · intro i; simpa [frees_append, allocs_append, frees, allocs] using hinv.live i
      · intro _; simp only [List.mem_append, List.mem_singleton, not_or]; exact ⟨hinv.nosettle hns, by simp⟩
  case ackPrefix k v =>
    intro h
    by_cases ha : cfg.acks = true
    · rw [if_pos ha] at h
      by_cases hle : getD0 s.prefs k ≤ v
      · rw [if_pos hle] at h
        injection h with h; subst h
        refine ⟨⟨?_, ?_, ?_, ?_, ?_⟩, by simp [hns]⟩
        · intro hd y; simpa [submits_append, delivers_append, submits, delivers] using hinv.pend hd y
        · intro _ k'
          obtain ⟨hpw, hub⟩ := hinv.acks ha k'
          simp only [acksOf_append, acksOf]
          by_cases hk : k = k'
          · subst hk
            simp only [↓reduceIte, getD0_cons]
            refine ⟨List.pairwise_append.mpr ⟨hpw, by simp, ?_⟩, ?_⟩
            · intro a ha' b hb
              simp at hb; subst hb
              exact Nat.le_trans (hub a ha') hle
            · intro w hw
              simp at hw
              rcases hw with hw | hw
              · exact Nat.le_trans (hub w hw) hle
              · subst hw; exact Nat.le_refl _
          · have hk' : ¬ k' = k := fun h => hk h.symm
            simp only [hk, ↓reduceIte, List.append_nil, getD0_cons, hk']
            exact ⟨hpw, hub⟩
        · intro t; simpa [memRel_append, memAcq_append, memRel, memAcq] using hinv.mem t
        · intro i; simpa [frees_append, allocs_append, frees, allocs] using hinv.live i
        · intro _; simp only [List.mem_append, List.mem_singleton, not_or]; exact ⟨hinv.nosettle hns, by simp⟩
      · rw [if_neg hle] at h; cases h
    · rw [if_neg ha] at h
      injection h with h; subst h
      refine ⟨⟨?_, ?_, ?_, ?_, ?_⟩, by simp [hns]⟩
      · intro hd y; simpa [submits_append, delivers_append, submits, delivers] using hinv.pend hd y
      · intro ha'; exact absurd ha' ha
      · intro t; simpa [memRel_append, memAcq_append, memRel, memAcq] using hinv.mem t
      · intro i; simpa [frees_append, allocs_append, frees, allocs] using hinv.live i
      · intro _; simp only [List.mem_append, List.mem_singleton, not_or]; exact ⟨hinv.nosettle hns, by simp⟩
  case acquire t n =>
    intro h
    by_cases hle : getD0 s.mem t + n ≤ cfg.limit
    · rw [if_pos hle] at h
      injection h with h; subst h
      refine ⟨⟨?_, ?_, ?_, ?_, ?_⟩, by simp [hns]⟩
      · intro hd y; simpa [submits_append, delivers_append, submits, delivers] using hinv.pend hd y
      · intro ha k; simpa [acksOf_append, acksOf] using hinv.acks ha k
      · intro t'
        have := hinv.mem t'
        simp only [memRel_append, memAcq_append, memRel, memAcq, getD0_cons]
        by_cases ht : t' = t
        · subst ht; simp; omega
        · have ht' : ¬ t = t' := fun h => ht h.symm
          simp [ht, ht']; omega
      · intro i; simpa [frees_append, allocs_append, frees, allocs] using hinv.live i
      · intro _; simp only [List.mem_append, List.mem_singleton, not_or]; exact ⟨hinv.nosettle hns, by simp⟩
    · rw [if_neg hle] at h; cases h
  case release t n =>
    intro h
    by_cases hle : n ≤ getD0 s.mem t
    · rw [if_pos hle] at h
      injection h with h; subst h
      refine ⟨⟨?_, ?_, ?_, ?_, ?_⟩, by simp [hns]⟩
      · intro hd y; simpa [submits_append, delivers_append, submits, delivers] using hinv.pend hd y
      · intro ha k; simpa [acksOf_append, acksOf] using hinv.acks ha k
      · intro t'
        have := hinv.mem t'
        simp only [memRel_append, memAcq_append, memRel, memAcq, getD0_cons]
        by_cases ht : t' = t
        · subst ht; simp; omega
        · have ht' : ¬ t = t' := fun h => ht h.symm
          simp [ht, ht']; omega
      · intro i; simpa [frees_append, allocs_append, frees, allocs] using hinv.live i
      · intro _; simp only [List.mem_append, List.mem_singleton, not_or]; exact ⟨hinv.nosettle hns, by simp⟩
    · rw [if_neg hle] at h; cases h
  case alloc id =>
    intro h
    by_cases hc : s.live.contains id = true
    · rw [if_pos hc] at h; cases h
    · rw [if_neg hc] at h
      injection h with h; subst h
      have hnm : id ∉ s.live := fun hm => hc (List.contains_iff_mem.mpr hm)
      have hz : s.live.count id = 0 := List.count_eq_zero.mpr hnm
      refine ⟨⟨?_, ?_, ?_, ?_, ?_⟩, by simp [hns]⟩
      · intro hd y; simpa [submits_append, delivers_append, submits, delivers] using hinv.pend hd y
      · intro ha k; simpa [acksOf_append, acksOf] using hinv.acks ha k
      · intro t; simpa [memRel_append, memAcq_append, memRel, memAcq] using hinv.mem t
      · intro i
        have := hinv.live i
        simp only [frees_append, allocs_append, frees, allocs, List.count_cons]
        by_cases hi : id = i
        · subst hi; simp; omega
        · have : (id == i) = false := by simpa using hi
          simp [this, hi]; omega
      · intro _; simp only [List.mem_append, List.mem_singleton, not_or]; exact ⟨hinv.nosettle hns, by simp⟩
  case free id =>
    intro h
    by_cases hc : s.live.contains id = true
    · rw [if_pos hc] at h
      injection h with h; subst h
      have hm : id ∈ s.live := List.contains_iff_mem.mp hc
      have hpos : 0 < s.live.count id := List.count_pos_iff.mpr hm
      refine ⟨⟨?_, ?_, ?_, ?_, ?_⟩, by simp [hns]⟩
      · intro hd y; simpa [submits_append, delivers_append, submits, delivers] using hinv.pend hd y
      · intro ha k; simpa [acksOf_append, acksOf] using hinv.acks ha k
      · intro t; simpa [memRel_append, memAcq_append, memRel, memAcq] using hinv.mem t
      · intro i
        have := hinv.live i
        simp only [frees_append, allocs_append, frees, allocs]
        by_cases hi : i = id
        · subst hi
          rw [List.count_erase_self]; simp; omega
        · rw [List.count_erase_of_ne hi]
          have hi' : ¬ id = i := fun h => hi h.symm
          simp [hi']; omega
      · intro _; simp only [List.mem_append, List.mem_singleton, not_or]; exact ⟨hinv.nosettle hns, by simp⟩
    · rw [if_neg hc] at h; cases h
  case settle =>
    intro h
    split at h
    · cases h
    · split at h
      · cases h
      · split at h
        · cases h
        · injection h with h; subst h
          refine ⟨⟨?_, ?_, ?_, ?_, ?_⟩, by simp⟩
          · intro hd y; simpa [submits_append, delivers_append, submits, delivers] using hinv.pend hd y
          · intro ha k; simpa [acksOf_append, acksOf] using hinv.acks ha k
          · intro t; simpa [memRel_append, memAcq_append, memRel, memAcq] using hinv.mem t
          · intro i; simpa [frees_append, allocs_append, frees, allocs] using hinv.live i
          · intro hs; simp at hs

/-- the invariant holds after every accepted trace -/
theorem inv_runFrom (cfg : Cfg) (p q : List Event) (s st : St) (hinv : Inv cfg p s)
    (h : runFrom cfg s q = .ok st) : Inv cfg (p ++ q) st := by
  induction q generalizing p s with
  | nil => simp only [runFrom] at h; injection h with h; subst h; simpa using hinv
  | cons e es ih =>
    simp only [runFrom] at h
    cases hs : step cfg s e with
    | error r => rw [hs] at h; cases h
    | ok s' =>
      rw [hs] at h
      have := (inv_step cfg p s s' e hinv hs).1
      have := ih (p ++ [e]) s' this h
      simpa using this

theorem inv_run (cfg : Cfg) (tr : List Event) (st : St) (h : run cfg tr = .ok st) : Inv cfg tr st := by
  have := inv_runFrom cfg [] tr {} st (inv_init cfg) h
  simpa using this

/-- what the `settle` step checked -/
theorem settle_checks (cfg : Cfg) (s st : St) (h : step cfg s .settle = .ok st) :
    (cfg.delivery = true → s.pending = []) ∧ (∀ t, getD0 s.mem t = 0) ∧
    (cfg.live = true → ∀ i, s.live.count (0, i) = 0) := by
  have hns := step_settled cfg s st _ h
  simp only [step, hns, Bool.false_eq_true, ↓reduceIte] at h
  split at h
  · cases h
  · rename_i h1
    split at h
    · cases h
    · rename_i h2
      split at h
      · cases h
      · rename_i h3
        refine ⟨?_, ?_, ?_⟩
        · intro hd
          cases hp : s.pending with
          | nil => rfl
          | cons a b => simp [hd, hp] at h1
        · intro t
          apply all_zero_getD0
          simpa using h2
        · intro hl i
          have hf : s.live.filter (fun b => b.1 == 0) = [] := by
            cases hp : s.live.filter (fun b => b.1 == 0) with
            | nil => rfl
            | cons a b => simp [hl, hp] at h3
          apply List.count_eq_zero.mpr
          intro hm
          have : (0, i) ∈ s.live.filter (fun b => b.1 == 0) := by simp [List.mem_filter, hm]
          rw [hf] at this
          cases this

end TLVerif.Udp
