import TLVerif.Packet.AcceptLemmas
/-!
A small environment satisfying every hypothesis used by the theorems (`CipherOK`, `CrcDetects`): the hypotheses
are consistent, and the history predicates are satisfiable by a non-trivial handshake-shaped history.
-/
namespace TLVerif.Packet
open TLVerif.Facts.Packet

def sumBytes : Bytes → Nat
  | [] => 0
  | b :: bs => b.toNat + sumBytes bs

def fitBlock (b : Bytes) : Bytes := (b ++ zeros blockSize).take blockSize

/-- checksum = byte sum mod 2^32 (both tables), cipher = identity on blocks -/
def toyEnv : Env where
  crcI d := UInt32.ofNat (sumBytes d)
  crcC d := UInt32.ofNat (sumBytes d + 1)
  enc _ b := fitBlock b
  dec _ b := fitBlock b

theorem toy_cipher : toyEnv.CipherOK where
  dec_enc k b h := by
    have : fitBlock b = b := by
      unfold fitBlock
      rw [List.take_append_of_le_length (by omega), List.take_of_length_le (by omega)]
    simp only [toyEnv, this]
  enc_len k b := by
    simp [toyEnv, fitBlock, zeros, List.length_take]

theorem sumBytes_set (X : Bytes) (i : Nat) (y : UInt8) (h : i < X.length) :
    sumBytes (X.set i y) + X[i].toNat = sumBytes X + y.toNat := by
  induction X generalizing i with
  | nil => simp at h
  | cons x xs ih =>
    cases i with
    | zero => simp [sumBytes]; omega
    | succ i =>
      have := ih i (by simpa using h)
      simp only [List.set_cons_succ, sumBytes, List.getElem_cons_succ]
      omega

theorem toy_crc : toyEnv.CrcDetects where
  flip m X i y h hy := by
    have hs := sumBytes_set X i y h
    have hx := X[i].toNat_lt
    have hyl := y.toNat_lt
    have hne : y.toNat ≠ X[i].toNat := fun hh => hy (UInt8.toNat_inj.mp hh)
    unfold Env.crc toyEnv
    intro heq
    cases hm : m.crcC <;> simp only [hm, Bool.false_eq_true, if_false, if_true, UInt32.toNat_ofNat', Nat.reducePow] at heq <;> omega

end TLVerif.Packet
